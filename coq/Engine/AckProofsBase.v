(* C11 toolkit: frame relations for the acknowledgement counter (`l_ack`) and the per-key hold counter (`m_locked`)
   through every primitive of Queues.v / Timers.v, in right-extension form.  No invariant needed: every lemma holds for
   every db value. *)
From Coq Require Import String ZifyN ZifyBool ZifyNat.
From Slock Require Import Engine.Types Engine.Queues Engine.Timers Engine.Engine Engine.Engine2.
Open Scope N_scope.

(* ================================================================== toolkit (self-contained copy of the generic part
   of Engine/LocalBase.v: case-splitting tactics, projections through the primitive updates, event classes) *)
(* ------------------------------------------------------------------ tactics *)
(* innermost scrutinee along the head of a term *)
Ltac hd_scrut t :=
  lazymatch t with
  | match ?x with _ => _ end => hd_scrut x
  | _ => constr:(t)
  end.

(* H : (match .. end) = rhs  --- split on the head scrutinee, reduce *)
Ltac split_hyp H :=
  lazymatch type of H with
  | ?lhs = _ =>
      lazymatch lhs with
      | match ?x with _ => _ end =>
          let y := hd_scrut x in
          (is_var y; destruct y) || destruct y eqn:?
      end
  end; cbv beta iota zeta in H.

Ltac inv H := inversion H; subst; clear H.

Lemma tuple3_inv {A B C} (a a' : A) (b b' : B) (c c' : C) : (a, b, c) = (a', b', c') -> a = a' /\ b = b' /\ c = c'.
Proof. intros H. inversion H. auto. Qed.
Lemma tuple2_inv {A B} (a a' : A) (b b' : B) : (a, b) = (a', b') -> a = a' /\ b = b'.
Proof. intros H. inversion H. auto. Qed.

(* H : (x, y, z) = (x', y', z') with variables on the right: substitute them (cheap, unlike inversion on big terms) *)
Ltac subst_rhs H :=
  lazymatch type of H with
  | _ = ?v => tryif is_var v then (first [subst v | rewrite <- H in *; clear H | idtac]) else idtac
  end.

Ltac inv_tuple H :=
  lazymatch type of H with
  | (_, _, _) = (_, _, _) =>
      apply tuple3_inv in H;
      let H1 := fresh in let H2 := fresh in let H3 := fresh in
      destruct H as (H1 & H2 & H3); subst_rhs H1; subst_rhs H2; subst_rhs H3
  | (_, _) = (_, _) =>
      apply tuple2_inv in H;
      let H1 := fresh in let H2 := fresh in
      destruct H as (H1 & H2); subst_rhs H1; subst_rhs H2
  | _ => idtac
  end.

(* ------------------------------------------------------------------ amap *)
Lemma adel_absent {V} (m : amap V) k : aget m k = None -> adel m k = m.
Proof.
  induction m as [|[k' v] r IH]; simpl; auto.
  destruct (k' =? k) eqn:E; [discriminate|]. intros H. rewrite IH; auto.
Qed.

Lemma aget_adel {V} (m : amap V) k k' : aget (adel m k) k' = if k =? k' then None else aget m k'.
Proof.
  destruct (k =? k') eqn:E.
  - apply N.eqb_eq in E. subst. apply aget_adel_same.
  - apply N.eqb_neq in E. apply aget_adel_other; auto.
Qed.

Lemma aget_aset {V} (m : amap V) k k' v : aget (aset m k v) k' = if k =? k' then Some v else aget m k'.
Proof.
  destruct (k =? k') eqn:E.
  - apply N.eqb_eq in E. subst. apply aget_aset_same.
  - apply N.eqb_neq in E. apply aget_aset_other; auto.
Qed.

(* ------------------------------------------------------------------ projections through primitive updates *)
Lemma mgrs_setl s r l : mgrs (setl s r l) = mgrs s. Proof. reflexivity. Qed.
Lemma mgrs_updl s r f : mgrs (updl s r f) = mgrs s. Proof. unfold updl. destruct (aget (store s) r); reflexivity. Qed.
Lemma store_setm s k m : store (setm s k m) = store s. Proof. reflexivity. Qed.
Lemma store_updm s k f : store (updm s k f) = store s. Proof. unfold updm. destruct (aget (mgrs s) k); reflexivity. Qed.
Lemma mgrs_updc s f : mgrs (updc s f) = mgrs s. Proof. reflexivity. Qed.
Lemma store_updc s f : store (updc s f) = store s. Proof. reflexivity. Qed.

Lemma getm_mgrs s s' k : mgrs s' = mgrs s -> getm s' k = getm s k.
Proof. unfold getm. intros ->. reflexivity. Qed.
Lemma getl_store s s' r : store s' = store s -> getl s' r = getl s r.
Proof. unfold getl. intros ->. reflexivity. Qed.

Lemma getl_updm s k f r : getl (updm s k f) r = getl s r.
Proof. apply getl_store, store_updm. Qed.
Lemma getm_updl s r f k : getm (updl s r f) k = getm s k.
Proof. apply getm_mgrs, mgrs_updl. Qed.
Lemma getm_setl s r l k : getm (setl s r l) k = getm s k.
Proof. reflexivity. Qed.
Lemma getl_updc s f r : getl (updc s f) r = getl s r. Proof. reflexivity. Qed.
Lemma getm_updc s f k : getm (updc s f) k = getm s k. Proof. reflexivity. Qed.

Lemma aget_store_updl s r f r' :
  aget (store (updl s r f)) r' =
  if r =? r' then option_map f (aget (store s) r) else aget (store s) r'.
Proof.
  unfold updl. destruct (aget (store s) r) eqn:E.
  - change (store (setl s r (f l))) with (aset (store s) r (f l)).
    rewrite aget_aset. destruct (r =? r'); reflexivity.
  - destruct (r =? r') eqn:E2; [apply N.eqb_eq in E2; subst; rewrite E|]; reflexivity.
Qed.

Lemma getl_updl s r f r' :
  getl (updl s r f) r' = if (r =? r') then (match aget (store s) r with Some l => f l | None => dummy_lock end) else getl s r'.
Proof.
  unfold getl at 1. rewrite aget_store_updl. destruct (r =? r') eqn:E; [|reflexivity].
  destruct (aget (store s) r); reflexivity.
Qed.

Lemma aget_mgrs_updm s k f k' :
  aget (mgrs (updm s k f)) k' = if k =? k' then option_map f (aget (mgrs s) k) else aget (mgrs s) k'.
Proof.
  unfold updm. destruct (aget (mgrs s) k) eqn:E.
  - change (mgrs (setm s k (f m))) with (aset (mgrs s) k (f m)).
    rewrite aget_aset. destruct (k =? k'); reflexivity.
  - destruct (k =? k') eqn:E2; [apply N.eqb_eq in E2; subst; rewrite E|]; reflexivity.
Qed.

Lemma leader_updl s r f : leader (updl s r f) = leader s. Proof. unfold updl. destruct aget; reflexivity. Qed.
Lemma leader_updm s k f : leader (updm s k f) = leader s. Proof. unfold updm. destruct aget; reflexivity. Qed.
Lemma now_updl s r f : now (updl s r f) = now s. Proof. unfold updl. destruct aget; reflexivity. Qed.
Lemma now_updm s k f : now (updm s k f) = now s. Proof. unfold updm. destruct aget; reflexivity. Qed.

(* ------------------------------------------------------------------ event classes *)
Definition is_reply (e : event) : Prop := match e with EReply _ _ _ _ _ _ _ _ _ => True | _ => False end.
(* events the low-level helpers may emit *)
Definition quiet (e : event) : Prop := match e with EAof _ | EPanic _ => True | _ => False end.
Definition only_aof (evs : list event) : Prop := Forall (fun e => match e with EAof _ => True | _ => False end) evs.
(* no new holder *)
Definition nng (e : event) : Prop := match e with EGrant _ _ true _ _ _ => False | _ => True end.

Definition quiet_ok (P : event -> Prop) : Prop := forall e, quiet e -> P e.
Lemma quiet_ok_nng : quiet_ok nng. Proof. intros [] H; simpl in *; auto; contradiction. Qed.
Lemma quiet_ok_quiet : quiet_ok quiet. Proof. intros e H; exact H. Qed.

Lemma Forall_quiet P evs : quiet_ok P -> Forall quiet evs -> Forall P evs.
Proof. intros HP H. eapply Forall_impl; [|exact H]. exact HP. Qed.

Lemma only_aof_quiet evs : only_aof evs -> Forall quiet evs.
Proof. intros H. eapply Forall_impl; [|exact H]. intros []; simpl; auto. Qed.

Lemma push_lock_aof_only_aof s k r f s' ev : push_lock_aof s k r f = (s', ev) -> only_aof ev.
Proof.
  unfold push_lock_aof, only_aof. intros H.
  repeat (split_hyp H); inv H; repeat constructor.
Qed.

Lemma push_unlock_aof_only_aof s k r lc uc b f s' ev : push_unlock_aof s k r lc uc b f = (s', ev) -> only_aof ev.
Proof.
  unfold push_unlock_aof, only_aof. intros H.
  repeat (split_hyp H); inv H; repeat constructor.
Qed.

Lemma repeat_push_lock_aof_only_aof n : forall s k r s' ev, repeat_push_lock_aof n s k r = (s', ev) -> only_aof ev.
Proof.
  induction n as [|n IH]; simpl; intros s k r s' ev H.
  - inv H. constructor.
  - destruct (push_lock_aof s k r 0) as [s1 e1] eqn:E1.
    destruct (repeat_push_lock_aof n s1 k r) as [s2 e2] eqn:E2. inv H.
    apply Forall_app. split; [eapply push_lock_aof_only_aof; eauto | eapply IH; eauto].
Qed.

Lemma add_expried_only_aof s k r s' ev : add_expried s k r = (s', ev) -> only_aof ev.
Proof.
  unfold add_expried. intros H.
  match type of H with (if ?c then _ else _) = _ => destruct c end.
  - eapply repeat_push_lock_aof_only_aof; eauto.
  - inv H. constructor.
Qed.

Lemma process_data_quiet s k r c b s' ev : process_data s k r c b = (s', ev) -> Forall quiet ev.
Proof.
  unfold process_data. intros H.
  repeat (split_hyp H); inv H; repeat constructor.
Qed.


(* ================================================================== C11 frames *)

(* ------------------------------------------------------------------ tactics *)
(* destruct the innermost scrutinee of some match in the goal *)
Ltac brk1 :=
  match goal with
  | |- context [match ?x with _ => _ end] =>
      let y := hd_scrut x in
      first [ is_var y; destruct y | destruct y eqn:? ]; cbv beta iota zeta
  end.
Ltac brk := repeat brk1.

(* ------------------------------------------------------------------ the frame *)
(* the ack counter of every record is unchanged or reset to "none pending" (a freed record reads as the dummy, 255) *)
Definition lrec_le (l l' : lockrec) : Prop :=
  (l_ack l' = l_ack l \/ l_ack l' = 255) /\ (l_locked l' = l_locked l \/ l_locked l' = 0).
Definition ack_le (s s' : db) : Prop := forall r, lrec_le (getl s r) (getl s' r).
Lemma lrec_le_refl l : lrec_le l l. Proof. split; auto. Qed.
Lemma lrec_le_trans l1 l2 l3 : lrec_le l1 l2 -> lrec_le l2 l3 -> lrec_le l1 l3.
Proof. unfold lrec_le. intros [[A|A] [B|B]] [[C|C] [D|D]]; split; try (left; congruence); try (right; congruence). Qed.
Lemma lrec_le_dummy l : lrec_le l dummy_lock. Proof. split; right; reflexivity. Qed.
#[export] Hint Resolve lrec_le_refl lrec_le_dummy : fr.
(* the key's value without its persisted-flag *)
Definition dval (cur : option mdata) : option (list N * list N * N) :=
  option_map (fun d => (d_bytes d, d_cap d, d_type d)) cur.
Definition mview (m : mgr) := (m_locked m, dval (m_data m)).
(* every manager that is still there has the hold counter and the value it had *)
Definition mlocked_le (s s' : db) : Prop :=
  forall k m', aget (mgrs s') k = Some m' -> exists m, aget (mgrs s) k = Some m /\ mview m' = mview m.
Definition fr (s s' : db) : Prop := ack_le s s' /\ mlocked_le s s' /\ leader s' = leader s.

Lemma fr_refl s : fr s s.
Proof. split; [intros r; apply lrec_le_refl | split; [intros k m H; eauto|reflexivity]]. Qed.
Lemma fr_trans s1 s2 s3 : fr s1 s2 -> fr s2 s3 -> fr s1 s3.
Proof.
  intros (A1 & M1 & L1) (A2 & M2 & L2). split; [|split].
  - intros r. eapply lrec_le_trans; [apply A1|apply A2].
  - intros k m3 H. destruct (M2 _ _ H) as (m2 & H2 & E2). destruct (M1 _ _ H2) as (m1 & H1 & E1).
    exists m1. split; auto. congruence.
  - congruence.
Qed.

Lemma fr_same s s' : store s' = store s -> mgrs s' = mgrs s -> leader s' = leader s -> fr s s'.
Proof.
  intros Hs Hm Hl. split; [|split; [|exact Hl]].
  - intros r. rewrite (getl_store _ _ r Hs). apply lrec_le_refl.
  - intros k m H. rewrite Hm in H. eauto.
Qed.

Lemma fr_updl s r f : (forall l, lrec_le l (f l)) -> fr s (updl s r f).
Proof.
  intros Hf. split; [|split; [|apply leader_updl]].
  - intros r'. rewrite getl_updl. destruct (r =? r') eqn:E; [|apply lrec_le_refl].
    apply N.eqb_eq in E. subst r'. unfold getl. destruct (aget (store s) r); [apply Hf|apply lrec_le_refl].
  - intros k m H. rewrite mgrs_updl in H. eauto.
Qed.

Lemma fr_updm_at s k f : (forall m, aget (mgrs s) k = Some m -> mview (f m) = mview m) -> fr s (updm s k f).
Proof.
  intros Hf. split; [|split; [|apply leader_updm]].
  - intros r. rewrite getl_updm. apply lrec_le_refl.
  - intros k' m' H. rewrite aget_mgrs_updm in H. destruct (k =? k') eqn:E; [|eauto].
    apply N.eqb_eq in E. subst k'. destruct (aget (mgrs s) k) eqn:E2; simpl in H; [|discriminate].
    inv H. eexists. split; eauto.
Qed.
Lemma fr_updm s k f : (forall m, mview (f m) = mview m) -> fr s (updm s k f).
Proof. intros Hf. apply fr_updm_at. auto. Qed.

Lemma fr_del_store s r : fr s (s <| store := adel (store s) r |>).
Proof.
  split; [|split; [|reflexivity]].
  - intros r'. unfold getl. change (store (s <| store := adel (store s) r |>)) with (adel (store s) r).
    rewrite aget_adel. destruct (r =? r'); [apply lrec_le_dummy|apply lrec_le_refl].
  - intros k m H. cbn in H. eauto.
Qed.

Lemma fr_del_mgr s k : fr s (s <| mgrs := adel (mgrs s) k |>).
Proof.
  split; [|split; [|reflexivity]].
  - intros r. apply lrec_le_refl.
  - intros k' m H. cbn in H. rewrite aget_adel in H. destruct (k =? k'); [discriminate|eauto].
Qed.

Lemma getl_setl s r l r' : getl (setl s r l) r' = if r =? r' then l else getl s r'.
Proof.
  unfold getl. change (store (setl s r l)) with (aset (store s) r l). rewrite aget_aset. destruct (r =? r'); reflexivity.
Qed.

Lemma fr_setl_some s r l l' : aget (store s) r = Some l -> lrec_le l l' -> fr s (setl s r l').
Proof.
  intros H Hl. split; [|split; [|reflexivity]].
  - intros r'. rewrite getl_setl.
    destruct (r =? r') eqn:E; [|apply lrec_le_refl]. apply N.eqb_eq in E. subst r'. unfold getl at 1. rewrite H. exact Hl.
  - intros k m Hm. change (mgrs (setl s r l')) with (mgrs s) in Hm. eauto.
Qed.

(* right-extension forms *)
Lemma fr_r s0 s s' : fr s s' -> fr s0 s -> fr s0 s'.
Proof. intros; eapply fr_trans; eauto. Qed.
Lemma fr_r_same s0 s s' : store s' = store s -> mgrs s' = mgrs s -> leader s' = leader s -> fr s0 s -> fr s0 s'.
Proof. intros. eapply fr_trans; [eassumption|apply fr_same; auto]. Qed.
Lemma fr_r_updl s0 s r f : (forall l, lrec_le l (f l)) -> fr s0 s -> fr s0 (updl s r f).
Proof. intros. eapply fr_trans; [eassumption|apply fr_updl; auto]. Qed.
Lemma fr_r_updm s0 s k f : (forall m, mview (f m) = mview m) -> fr s0 s -> fr s0 (updm s k f).
Proof. intros. eapply fr_trans; [eassumption|apply fr_updm; auto]. Qed.
Lemma fr_r_updm_at s0 s k f : (forall m, aget (mgrs s) k = Some m -> mview (f m) = mview m) -> fr s0 s -> fr s0 (updm s k f).
Proof. intros. eapply fr_trans; [eassumption|apply fr_updm_at; auto]. Qed.
Lemma fr_r_updc s0 s f : fr s0 s -> fr s0 (updc s f).
Proof. intros. eapply fr_r_same; eauto. Qed.
Lemma fr_r_bump s0 s f : fr s0 s -> fr s0 (bump f s).
Proof. intros. eapply fr_r_same; eauto. Qed.
Lemma fr_r_twheel s0 s x : fr s0 s -> fr s0 (s <| twheel := x |>). Proof. intros; eapply fr_r_same; eauto. Qed.
Lemma fr_r_tlong s0 s x : fr s0 s -> fr s0 (s <| tlong := x |>). Proof. intros; eapply fr_r_same; eauto. Qed.
Lemma fr_r_ewheel s0 s x : fr s0 s -> fr s0 (s <| ewheel := x |>). Proof. intros; eapply fr_r_same; eauto. Qed.
Lemma fr_r_elong s0 s x : fr s0 s -> fr s0 (s <| elong := x |>). Proof. intros; eapply fr_r_same; eauto. Qed.
Lemma fr_r_checkT s0 s x : fr s0 s -> fr s0 (s <| checkT := x |>). Proof. intros; eapply fr_r_same; eauto. Qed.
Lemma fr_r_checkE s0 s x : fr s0 s -> fr s0 (s <| checkE := x |>). Proof. intros; eapply fr_r_same; eauto. Qed.
Lemma fr_r_now s0 s x : fr s0 s -> fr s0 (s <| now := x |>). Proof. intros; eapply fr_r_same; eauto. Qed.

(* side conditions of fr_r_updl / fr_r_updm for record updates that do not touch the field *)
Ltac fr_side := intros ?; first [ apply lrec_le_refl | unfold lrec_le; cbn; auto ].
Lemma aof_lock_data_dval b cur ld x cur' ld' : aof_lock_data b cur ld = (x, cur', ld') -> dval cur' = dval cur.
Proof.
  unfold aof_lock_data. intros H. repeat (split_hyp H); inv H; reflexivity.
Qed.
#[export] Hint Extern 1 (forall l : lockrec, lrec_le _ _) => fr_side : fr.
#[export] Hint Extern 1 (forall m : mgr, _ = _) => fr_side : fr.
#[export] Hint Resolve fr_refl fr_r_updl fr_r_updm fr_r_updc fr_r_bump fr_r_twheel fr_r_tlong fr_r_ewheel fr_r_elong
  fr_r_checkT fr_r_checkE fr_r_now : fr.

Ltac frs := brk; eauto 30 with fr.

(* ------------------------------------------------------------------ Queues.v *)
Lemma free_lock_fr s0 s r : fr s0 s -> fr s0 (free_lock s r).
Proof.
  intros H. unfold free_lock. destruct (aget (store s) r); auto.
  apply fr_r_updm; [fr_side|]. eapply fr_r; [apply fr_del_store|auto].
Qed.
#[export] Hint Resolve free_lock_fr : fr.

Lemma unref_fr s0 s r : fr s0 s -> fr s0 (unref s r).
Proof.
  intros H. unfold unref. destruct (aget (store s) r) eqn:E; auto.
  assert (fr s0 (setl s r (l <| l_refc := dec8 (l_refc l) |>))).
  { eapply fr_r; [eapply fr_setl_some; eauto; unfold lrec_le; cbn; auto|auto]. }
  destruct (_ =? 0); auto with fr.
Qed.
#[export] Hint Resolve unref_fr : fr.

Lemma remove_mgr_fr s0 s k : fr s0 s -> fr s0 (remove_mgr_if_unref s k).
Proof.
  intros H. unfold remove_mgr_if_unref. brk; auto.
  apply fr_r_updc. eapply fr_r; [apply fr_del_mgr|auto].
Qed.
#[export] Hint Resolve remove_mgr_fr : fr.

Lemma hq_compact_fr items : forall s0 s s' kept, hq_compact s items = (s', kept) -> fr s0 s -> fr s0 s'.
Proof.
  induction items as [|x rest IH]; simpl; intros s0 s s' kept H F.
  - inv H. auto.
  - destruct (0 <? l_locked (getl s x)).
    + destruct (hq_compact s rest) as [s1 k1] eqn:E. inv H. eauto.
    + eapply IH; eauto with fr.
Qed.
#[export] Hint Resolve hq_compact_fr : fr.

Lemma hq_push_fr s0 s q r s' q' : hq_push s q r = (s', q') -> fr s0 s -> fr s0 s'.
Proof.
  unfold hq_push. intros H F. repeat (split_hyp H); inv H; eauto with fr.
Qed.
#[export] Hint Resolve hq_push_fr : fr.

Lemma promote_fr fuel : forall s0 s q s' q' nc, promote fuel s q = (s', q', nc) -> fr s0 s -> fr s0 s'.
Proof.
  induction fuel as [|f IH]; simpl; intros s0 s q s' q' nc H F.
  - inv H. auto.
  - destruct (hq_pop q) as [[x|] q1]; [|inv H; auto].
    destruct (0 <? l_locked (getl s x)); [inv H; auto|]. eapply IH; eauto with fr.
Qed.
#[export] Hint Resolve promote_fr : fr.

Lemma drop_dead_heads_fr fuel : forall s0 s q s' q', drop_dead_heads fuel s q = (s', q') -> fr s0 s -> fr s0 s'.
Proof.
  induction fuel as [|f IH]; simpl; intros s0 s q s' q' H F.
  - inv H. auto.
  - destruct (hq_head q) as [x|]; [|inv H; auto].
    destruct (0 <? l_locked (getl s x)); [inv H; auto|].
    destruct (hq_pop q) as [o q1]. eapply IH; eauto with fr.
Qed.
#[export] Hint Resolve drop_dead_heads_fr : fr.

Lemma remove_lock_fr s0 s k r : fr s0 s -> fr s0 (remove_lock s k r).
Proof.
  intros F. unfold remove_lock. cbv zeta. frs.
Qed.
#[export] Hint Resolve remove_lock_fr : fr.

Lemma wq_compact_fr items : forall s0 s s' kept, wq_compact s items = (s', kept) -> fr s0 s -> fr s0 s'.
Proof.
  induction items as [|x rest IH]; simpl; intros s0 s s' kept H F.
  - inv H. auto.
  - destruct (dead_waiter (getl s x)).
    + eapply IH; eauto with fr.
    + destruct (wq_compact s rest) as [s1 k1] eqn:E. inv H. eauto.
Qed.
#[export] Hint Resolve wq_compact_fr : fr.

Lemma wq_push_fr s0 s q r s' q' : wq_push s q r = (s', q') -> fr s0 s -> fr s0 s'.
Proof.
  unfold wq_push. intros H F. repeat (split_hyp H); inv H; eauto with fr.
Qed.
#[export] Hint Resolve wq_push_fr : fr.

Lemma add_wait_lock_fr s0 s k r : fr s0 s -> fr s0 (add_wait_lock s k r).
Proof.
  intros F. unfold add_wait_lock. cbv zeta.
  match goal with |- context [wq_push s ?q r] => destruct (wq_push s q r) as [s1 q1] eqn:E end.
  eauto 10 with fr.
Qed.
#[export] Hint Resolve add_wait_lock_fr : fr.

Lemma get_wait_loop_fr fuel : forall s0 s q s' q' o, get_wait_loop fuel s q = (s', q', o) -> fr s0 s -> fr s0 s'.
Proof.
  induction fuel as [|f IH]; simpl; intros s0 s q s' q' o H F.
  - inv H. auto.
  - destruct (wq_head q) as [x|]; [|inv H; auto].
    destruct (dead_waiter (getl s x)); [|inv H; auto]. eapply IH; eauto with fr.
Qed.
#[export] Hint Resolve get_wait_loop_fr : fr.

Lemma get_wait_lock_fr s0 s k s' o : get_wait_lock s k = (s', o) -> fr s0 s -> fr s0 s'.
Proof.
  unfold get_wait_lock. intros H F. destruct (m_wait (getm s k)); [|inv H; auto].
  destruct (get_wait_loop _ s w) as [[s1 q1] o1] eqn:E. inv H. eauto 10 with fr.
Qed.
#[export] Hint Resolve get_wait_lock_fr : fr.

(* ------------------------------------------------------------------ Timers.v *)
Lemma push_lock_aof_fr s0 s k r f s' ev : push_lock_aof s k r f = (s', ev) -> fr s0 s -> fr s0 s'.
Proof.
  unfold push_lock_aof. intros H F.
  destruct (negb (leader s)); [inv H; auto|].
  destruct (has _ _); [inv H; auto with fr|].
  destruct (aof_lock_data _ _ _) as [[d cur'] ld'] eqn:E. inv H.
  apply fr_r_updl; [fr_side|]. apply fr_r_updl; [fr_side|]. apply fr_r_updm_at; auto.
  intros m Hm. unfold getm in E. rewrite Hm in E. apply aof_lock_data_dval in E. unfold mview. cbn. rewrite E. reflexivity.
Qed.
#[export] Hint Resolve push_lock_aof_fr : fr.

Lemma push_unlock_aof_fr s0 s k r lc uc b f s' ev : push_unlock_aof s k r lc uc b f = (s', ev) -> fr s0 s -> fr s0 s'.
Proof.
  unfold push_unlock_aof. intros H F.
  destruct (negb (leader s)); [inv H; auto|].
  match type of H with (if ?c then _ else _) = _ => destruct c end; [inv H; auto with fr|].
  destruct (aof_lock_data _ _ _) as [[d cur'] ld'] eqn:E. inv H.
  apply fr_r_updl; [fr_side|]. apply fr_r_updl; [fr_side|]. apply fr_r_updm_at; auto.
  intros m Hm. unfold getm in E. rewrite Hm in E. apply aof_lock_data_dval in E. unfold mview. cbn. rewrite E. reflexivity.
Qed.
#[export] Hint Resolve push_unlock_aof_fr : fr.

Lemma repeat_push_lock_aof_fr n : forall s0 s k r s' ev, repeat_push_lock_aof n s k r = (s', ev) -> fr s0 s -> fr s0 s'.
Proof.
  induction n as [|n IH]; simpl; intros s0 s k r s' ev H F.
  - inv H. auto.
  - destruct (push_lock_aof s k r 0) as [s1 e1] eqn:E1.
    destruct (repeat_push_lock_aof n s1 k r) as [s2 e2] eqn:E2. inv H. eauto with fr.
Qed.
#[export] Hint Resolve repeat_push_lock_aof_fr : fr.

Lemma add_timeout_fr s0 s r : fr s0 s -> fr s0 (add_timeout s r).
Proof. intros F. unfold add_timeout. cbv zeta. frs. Qed.
#[export] Hint Resolve add_timeout_fr : fr.

Lemma remove_long_timeout_fr s0 s r : fr s0 s -> fr s0 (remove_long_timeout s r).
Proof. intros F. unfold remove_long_timeout. cbv zeta. frs. Qed.
#[export] Hint Resolve remove_long_timeout_fr : fr.

Lemma add_expried_fr s0 s k r s' ev : add_expried s k r = (s', ev) -> fr s0 s -> fr s0 s'.
Proof.
  unfold add_expried. cbv zeta. intros H F.
  match type of H with (if ?c then _ else _) = _ => destruct c end.
  - eapply repeat_push_lock_aof_fr; [eassumption|]. frs.
  - inv H. frs.
Qed.
#[export] Hint Resolve add_expried_fr : fr.

Lemma remove_long_expried_fr s0 s r t : fr s0 s -> fr s0 (remove_long_expried s r t).
Proof. intros F. unfold remove_long_expried. frs. Qed.
#[export] Hint Resolve remove_long_expried_fr : fr.
