(* Invariant proof, part 7: the critical sections (wake-up pass, Lock, UnLock, cancelWaitLock, doTimeOut, doExpried). *)
From Coq Require Import String ZifyN ZifyBool ZifyNat Permutation.
From Slock Require Import Engine.Types Engine.Queues Engine.Timers Engine.Engine Engine.Engine2 Engine.InvDef Engine.InvBase
  Engine.InvPrims Engine.InvRec Engine.InvWheel Engine.InvQueue Engine.InvQueue2.
Open Scope N_scope.

(* the ghost of a critical section on key k at rest (sweepers may hold references) *)
Definition gk (xt xe : list ref) (k : N) : ghost := mkGhost xt xe [] [] [] [] k false false 0 0 0.

Lemma gk_rekey s xt xe k k' : GInv s (gk xt xe k) -> GInv s (gk xt xe k').
Proof. intros G. apply (ginv_set_dk s (gk xt xe k) k' G); reflexivity. Qed.
Lemma inv_gk s k : Inv s -> GInv s (gk [] [] k).
Proof. intros G. apply (ginv_set_dk s g0 k G); reflexivity. Qed.
Lemma gk_inv s k : GInv s (gk [] [] k) -> Inv s.
Proof. intros G. apply (ginv_set_dk s (gk [] [] k) 0 G); reflexivity. Qed.

(* a granter / new waiter borrows a sweeper slot for the record it is about to put on a wheel *)
Lemma ginv_borrow_e s g r l : GInv s g -> aget (store s) r = Some l -> ecount s g r = O -> l_timeouted l = true ->
  GInv s (g <| g_xe := r :: g_xe g |> <| g_owe := r :: g_owe g |>).
Proof.
  intros G Hr He Ht.
  eapply (wheels_ginv s s g); eauto; gs; try apply G.
  - intros r0 l0 H0. destruct (gi_rec _ _ G r0 l0 H0) as [A1 A2 A3 A4 A5 A6 A7 A8 A9 A10 A11].
    unfold tcount, ecount in *. gs. rewrite !occ_cons.
    destruct (r =? r0) eqn:E.
    + apply N.eqb_eq in E; subst r0. assert (l0 = l) by congruence. subst l0.
      repeat split; try lia; auto; try (intros; congruence).
    + repeat split; try lia; auto; try (intros Hti; destruct (A6 Hti) as [_ [Q _]]; lia).
  - intros r0 H0. pose proof (gi_str _ _ G r0 H0) as S. unfold tcount, ecount in *. gs. rewrite occ_cons.
    destruct (r =? r0) eqn:E; [apply N.eqb_eq in E; congruence|lia].
Qed.

Lemma ginv_borrow_t s g r l : GInv s g -> aget (store s) r = Some l -> tcount s g r = O ->
  GInv s (g <| g_xt := r :: g_xt g |> <| g_owe := r :: g_owe g |>).
Proof.
  intros G Hr He.
  eapply (wheels_ginv s s g); eauto; gs; try apply G.
  - intros r0 l0 H0. destruct (gi_rec _ _ G r0 l0 H0) as [A1 A2 A3 A4 A5 A6 A7 A8 A9 A10 A11].
    unfold tcount, ecount in *. gs. rewrite !occ_cons.
    destruct (r =? r0) eqn:E.
    + apply N.eqb_eq in E; subst r0. assert (l0 = l) by congruence. subst l0.
      repeat split; try lia; auto; try (intros Hti; destruct (A6 Hti) as [_ [Q _]]; lia).
    + repeat split; try lia; auto; try (intros Hti; destruct (A6 Hti) as [_ [Q _]]; lia).
  - intros r0 H0. pose proof (gi_str _ _ G r0 H0) as S. unfold tcount, ecount in *. gs. rewrite occ_cons.
    destruct (r =? r0) eqn:E; [apply N.eqb_eq in E; congruence|lia].
Qed.

(* ---------------------------------------------------------------- wakeUpWaitLock (non-ack part) *)
Definition wg_pre (s : db) (r : ref) : db :=
  let l := getl s r in
  let s := updl s r (fun l => l <| l_timeouted := true |>) in
  if l_long l then remove_long_timeout s r else s.

(* marking a live waiter as answered (timeouted := true) and taking it out of the long table *)
Lemma wg_pre_ginv s xt xe k r l :
  GInv s (gk xt xe k) -> aget (store s) r = Some l -> l_timeouted l = false ->
  GInv (wg_pre s r) (gk xt xe k <| g_cw := (-1)%Z |>)
  /\ exists l2, aget (store (wg_pre s r)) r = Some l2 /\ l_key l2 = l_key l /\ l_cmd l2 = l_cmd l /\ l_locked l2 = 0
       /\ l_timeouted l2 = true /\ l_long l2 = false /\ l_conn l2 = l_conn l
       /\ mgrs (wg_pre s r) = mgrs s /\ ewheel (wg_pre s r) = ewheel s /\ elong (wg_pre s r) = elong s
       /\ cnt (wg_pre s r) = cnt s /\ next (wg_pre s r) = next s.
Proof.
  intros G Hr Ht. set (g := gk xt xe k) in *.
  destruct (gi_rec _ _ G r l Hr) as [A1 A2 A3 A4 A5 A6 A7 A8 A9 A10 A11].
  destruct (A6 Ht) as [Q1 [Q2 [Q3 Q4]]].
  unfold wg_pre. rewrite (getl_some _ _ _ Hr), (updl_some _ _ _ _ Hr). cbv zeta.
  set (l1 := l <| l_timeouted := true |>).
  pose proof (ginv_pend_add s g r G) as G1.
  assert (G2 : GInv (setl s r l1) (g <| g_pend := [r] |> <| g_cw := (-1)%Z |>)).
  { eapply ginv_geq; [apply (setl_flags s _ r l l1 G1 Hr); auto; unfold g, gk; gs|].
    - intros _ Hpe. rewrite occ_cons_eq in Hpe. discriminate.
    - unfold g, gk. gs. unfold liveb. change (l_timeouted l1) with true. rewrite Ht. reflexivity. }
  assert (Hr1 : aget (store (setl s r l1)) r = Some l1) by (rewrite store_setl, aget_aset_same; auto).
  destruct (l_long l) eqn:Elong.
  - assert (Hb : occ r (wheel_get (tlong s) (lkey (l_tT l))) = 1%nat) by (apply A8; auto).
    assert (G3 : GInv (remove_long_timeout (setl s r l1) r) (g <| g_pend := [r] |> <| g_cw := (-1)%Z |>)).
    { apply (remove_long_timeout_ginv _ _ r l1 G2 Hr1); unfold g, gk; gs; auto;
        try (rewrite occ_cons_eq; lia); try (change (l_locked l1) with (l_locked l); lia). }
    assert (Hs3 : exists q, remove_long_timeout (setl s r l1) r =
              setl (setl s r l1 <| tlong := q |>) r (l1 <| l_long := false |> <| l_refc := dec8 (l_refc l1) |>)).
    { unfold remove_long_timeout. rewrite (getl_some _ _ _ Hr1). change (tlong (setl s r l1)) with (tlong s). change (l_tT l1) with (l_tT l).
      destruct (wheel_get_some (tlong s) (lkey (l_tT l)) r) as [q [Hq1 Hq2]]; [lia|]. rewrite Hq1.
      eexists. unfold updl. cbn [store]. change (store (setl s r l1 <| tlong := _ |>)) with (store (setl s r l1)). rewrite Hr1. reflexivity. }
    destruct Hs3 as [q Es3]. rewrite Es3 in *.
    split.
    + eapply ginv_geq; [apply (ginv_pend_drop _ _ r [] G3); gs; auto|].
      * intros l0 H0 Hl0. rewrite store_setl, aget_aset_same in H0. inversion H0; subst l0. discriminate.
      * reflexivity.
    + eexists. split; [rewrite store_setl, aget_aset_same; reflexivity|]. repeat split; auto.
  - split.
    + eapply ginv_geq; [apply (ginv_pend_drop _ _ r [] G2); gs; auto|].
      * intros l0 H0 Hl0. rewrite Hr1 in H0. inversion H0; subst l0. change (l_long l1) with (l_long l) in Hl0. congruence.
      * reflexivity.
    + exists l1. split; [exact Hr1|]. repeat split; auto.
Qed.


(* ---------------------------------------------------------------- granting a hold: AddLock; locked++; AddExpried; refCount++ *)
Definition grant_core (s : db) (k : N) (r : ref) : db :=
  let s := add_lock s k r in
  let s := updm s k (fun m => m <| m_locked := add32 (m_locked m) 1 |>) in
  let s := fst (add_expried s k r) in
  updl s r (fun l => l <| l_refc := add8 (l_refc l) 1 |>).

Lemma grant_core_ginv s g k r l m :
  GInv s g -> g_dk g = k -> g_ph g = [] -> g_pre g = [] -> g_owe g = [] -> g_pend g = [] -> g_pw g = false -> g_lk g = false ->
  g_dl g = 0%Z ->
  aget (store s) r = Some l -> l_key l = k -> aget (mgrs s) k = Some m ->
  l_locked l = 0 -> l_timeouted l = true -> l_long l = false -> occ r (holders m) = O -> ecount s g r = O ->
  m_locked m + 1 < 4294967296 ->
  GInv (grant_core s k r) (g <| g_cl := (g_cl g + 1)%Z |>).
Proof.
  intros G Hk Hp Hq Ho Hpe Hpw Hlk Hdl Hr Hkey Hm Hd Ht Hlg Hh He Hb.
  unfold grant_core. cbv zeta.
  destruct (add_lock_ginv s g k r l m G) as [G2 [[l3 [Hr3 [K3 [Cm3 [D3 [T3 [L3 Cn3]]]]]]] LF3]]; auto.
  set (s2 := add_lock s k r) in *.
  destruct (lf_m _ _ LF3 k) as [Mk [Ml _]].
  change (getm (setl s r (al_rec s k l)) k) with (getm s k) in Ml. rewrite (getm_some _ _ _ Hm) in Ml.
  destruct (aget (mgrs s2) k) as [m2|] eqn:Hm2;
    [|exfalso; pose proof (proj1 Mk eq_refl) as X; change (mgrs (setl s r (al_rec s k l))) with (mgrs s) in X; congruence].
  rewrite (getm_some _ _ _ Hm2) in Ml.
  rewrite (updm_some _ _ _ _ Hm2).
  set (m3 := m2 <| m_locked := add32 (m_locked m2) 1 |>).
  assert (Hl3 : m_locked m3 = m_locked m2 + 1).
  { unfold m3. change (m_locked (m2 <| m_locked := add32 (m_locked m2) 1 |>)) with (add32 (m_locked m2) 1). apply add32_succ. lia. }
  assert (G3 : GInv (setm s2 k m3) (g <| g_cl := (g_cl g + 1)%Z |>)).
  { eapply ginv_geq; [apply (setm_scalar s2 _ k m2 m3 G2 Hm2); try (destruct m2; reflexivity); [lia|right; gs; auto]|].
    rewrite Hl3. gs.
    match goal with |- _ = ?g0 <| g_dl := ?e1 |> <| g_cl := ?e2 |> =>
      replace e1 with 0%Z by lia; replace e2 with (g_cl g + 1)%Z by lia end.
    destruct g; gs; subst; reflexivity. }
  set (s3 := setm s2 k m3) in *.
  assert (Hr3' : aget (store s3) r = Some l3) by exact Hr3.
  assert (He3 : ecount s3 (g <| g_cl := (g_cl g + 1)%Z |>) r = O).
  { unfold ecount in *. gs. change (ewheel s3) with (ewheel s2). change (elong s3) with (elong s2).
    rewrite (lf_ew _ _ LF3), (lf_el _ _ LF3). exact He. }
  pose proof (ginv_borrow_e s3 _ r l3 G3 Hr3' He3 T3) as G4.
  assert (G5 : GInv (fst (add_expried s3 k r)) (g <| g_cl := (g_cl g + 1)%Z |> <| g_owe := [r] |>)).
  { eapply ginv_geq; [eapply (add_expried_ginv s3 _ k r _ l3 G4); gs; auto; reflexivity|].
    gs. rewrite Ho. destruct g; reflexivity. }
  destruct (aget (store (fst (add_expried s3 k r))) r) as [l4|] eqn:Hr4;
    [|apply add_expried_stored in Hr4; congruence].
  eapply ginv_geq; [apply (updl_refc_owe _ _ r [] l4 G5); gs; auto|].
  destruct g; gs; subst; reflexivity.
Qed.

(* ---------------------------------------------------------------- wake_grant on a core command *)
Definition wg_nohold (s : db) (k : N) (r : ref) (c : cmd) : db :=
  if has_data_flag c then
    let m := getm s k in
    let req_aof := match m_cur m with Some cr => l_isaof (getl s cr) | None => false end
                   || match m_data m with Some d => d_isaof d | None => false end in
    let nowaof := match m_data (getm s k) with Some d => negb (d_isaof d) | None => false end in
    if req_aof && nowaof then fst (push_lock_aof s k r 0) else s
  else s.

Lemma wake_grant_state s k r via : cmd_core (l_cmd (getl s r)) ->
  fst (wake_grant s k r via) =
  let c := l_cmd (getl s r) in
  if 0 <? c_expried c
  then bump (fun n => n <| n_lock := (n_lock n + 1)%Z |> <| n_locked := (n_locked n + 1)%Z |> <| n_wait := (n_wait n - 1)%Z |>)
            (grant_core (wg_pre s r) k r)
  else bump (fun n => n <| n_lock := (n_lock n + 1)%Z |> <| n_wait := (n_wait n - 1)%Z |>) (wg_nohold (wg_pre s r) k r c).
Proof.
  intros [C1 [C2 [C3 C4]]]. unfold wake_grant, grant_core, wg_nohold. cbv zeta. rewrite C1. cbn [andb].
  change (if l_long (getl s r) then remove_long_timeout (updl s r (fun l0 => l0 <| l_timeouted := true |>)) r
          else updl s r (fun l0 => l0 <| l_timeouted := true |>)) with (wg_pre s r).
  set (s1 := wg_pre s r). set (c := l_cmd (getl s r)) in *.
  destruct (0 <? c_expried c).
  - rewrite C3. destruct (has_data_flag c); rewrite ?(process_data_core _ _ _ _ _ C4);
      destruct (add_expried _ k r) as [s4 aev]; reflexivity.
  - destruct (has_data_flag c); [|reflexivity]. rewrite (process_data_core _ _ _ _ _ C4).
    destruct (_ && _); [|reflexivity]. destruct (push_lock_aof s1 k r 0); reflexivity.
Qed.

Lemma wake_grant_ginv s xt xe k r via l m :
  GInv s (gk xt xe k) -> aget (store s) r = Some l -> l_key l = k -> l_timeouted l = false ->
  aget (mgrs s) k = Some m -> m_locked m + 1 < 4294967296 ->
  GInv (fst (wake_grant s k r via)) (gk xt xe k).
Proof.
  intros G Hr Hkey Ht Hm Hb.
  destruct (gi_rec _ _ G r l Hr) as [A1 A2 A3 A4 A5 A6 A7 A8 A9 A10 A11].
  destruct (A6 Ht) as [Q1 [Q2 [Q3 Q4]]]. rewrite Hkey, (getm_some _ _ _ Hm) in Q1, Q4.
  destruct (wg_pre_ginv s xt xe k r l G Hr Ht) as [G1 [l2 [Hr2 [K2 [Cm2 [D2 [T2 [L2 [Cn2 [M2 [W2 [W2' [N2 X2]]]]]]]]]]]]].
  rewrite wake_grant_state by (rewrite (getl_some _ _ _ Hr); exact A9). cbv zeta.
  set (s1 := wg_pre s r) in *. set (g1 := gk xt xe k <| g_cw := (-1)%Z |>) in *.
  assert (Hm1 : aget (mgrs s1) k = Some m) by (rewrite M2; auto).
  assert (He1 : ecount s1 g1 r = O) by (unfold ecount, g1, gk in *; gs; rewrite W2, W2'; exact Q2).
  destruct (0 <? c_expried (l_cmd (getl s r))).
  - assert (G2 : GInv (grant_core s1 k r) (g1 <| g_cl := (g_cl g1 + 1)%Z |>)).
    { apply (grant_core_ginv s1 g1 k r l2 m G1); unfold g1, gk; gs; auto; congruence. }
    eapply ginv_geq; [apply (updc_ginv _ _ _ 0%Z 0%Z G2); unfold g1, gk; gs; cbn; lia|]. reflexivity.
  - assert (G2 : GInv (wg_nohold s1 k r (l_cmd (getl s r))) g1).
    { unfold wg_nohold. destruct (has_data_flag (l_cmd (getl s r))); auto. cbv zeta. destruct (_ && _); auto.
      apply push_lock_aof_ok; auto. }
    eapply ginv_geq; [apply (updc_ginv _ _ _ 0%Z 0%Z G2); unfold g1, gk; gs; cbn; lia|]. reflexivity.
Qed.

(* ---------------------------------------------------------------- wakeUpWaitLocks *)
Lemma do_lock_rule_bound a b c : do_lock_rule a b c = true -> a < 2147483647.
Proof.
  unfold do_lock_rule. destruct (a =? 0) eqn:E0; [apply N.eqb_eq in E0; lia|].
  destruct (c =? 0); [discriminate|]. destruct (65535 <=? a) eqn:E1.
  - destruct (2147483647 <=? a) eqn:E2; [discriminate|]. apply N.leb_gt in E2. auto.
  - apply N.leb_gt in E1. lia.
Qed.

Lemma wake_iter_ginv s xt xe k w : GInv s (gk xt xe k) -> w_key w = k ->
  GInv (fst (fst (wake_iter s w))) (gk xt xe k).
Proof.
  intros G Hw. unfold wake_iter. rewrite Hw. destruct (aget (mgrs s) k) as [m|] eqn:Hm; [|exact G].
  destruct (negb (m_waited m)); [exact G|].
  pose proof (get_wait_lock_ginv s (gk xt xe k) k G) as P.
  destruct (get_wait_lock s k) as [s1 wl]. destruct P as [G1 [LF [_ [_ [_ P4]]]]]; auto.
  destruct (lf_m _ _ LF k) as [Mk _].
  destruct (aget (mgrs s1) k) as [m1|] eqn:Hm1; [|exfalso; pose proof (proj1 Mk eq_refl); congruence].
  destruct wl as [r|].
  - destruct P4 as [Hin [l [Hr Ht]]].
    destruct (negb (do_lock s1 k r)) eqn:Ed; [exact G1|]. apply negb_false_iff in Ed.
    unfold do_lock in Ed. apply do_lock_rule_bound in Ed. rewrite (getm_some _ _ _ Hm1) in *.
    assert (Hkey : l_key l = k).
    { eapply (mo_key _ _ _ _ (gi_mgr _ _ G1 k m1 Hm1)); eauto. apply in_or_app. right. auto. }
    pose proof (wake_grant_ginv s1 xt xe k r (w_conn w) l m1 G1 Hr Hkey Ht Hm1) as GG.
    destruct (wake_grant s1 k r (w_conn w)) as [s2 ev]. cbn [fst] in *. apply GG. lia.
  - cbn [fst].
    apply remove_mgr_ginv; [|intros _; split; reflexivity].
    apply updm_scalar; auto.
Qed.

Lemma run_wake_ginv fuel : forall s xt xe k w, GInv s (gk xt xe k) -> w_key w = k ->
  GInv (fst (run_wake fuel s w)) (gk xt xe k).
Proof.
  induction fuel as [|f IH]; intros s xt xe k w G Hw; simpl; [exact G|].
  pose proof (wake_iter_ginv s xt xe k w G Hw) as G1.
  destruct (wake_iter s w) as [[s' ev] [|]]; cbn [fst] in *; [exact G1|].
  specialize (IH s' xt xe k w G1 Hw). destruct (run_wake f s' w) as [s'' ev']. exact IH.
Qed.

Lemma finish_ginv s ev w xt xe k : GInv s (gk xt xe k) -> (forall w0, w = Some w0 -> w_key w0 = k) ->
  GInv (fst (finish (s, ev, w))) (gk xt xe k).
Proof.
  intros G Hw. unfold finish. destruct w as [w0|]; [|exact G].
  pose proof (run_wake_ginv (wake_fuel s (w_key w0)) s xt xe k w0 G (Hw w0 eq_refl)) as P.
  destruct (run_wake (wake_fuel s (w_key w0)) s w0) as [s' ev']. exact P.
Qed.

(* ---------------------------------------------------------------- GetLockedLock *)
Lemma find_locked_spec s items id r : find_locked s items id = Some r ->
  In r items /\ 0 < l_locked (getl s r) /\ c_lockid (l_cmd (getl s r)) = id.
Proof.
  induction items as [|x t IH]; simpl; [discriminate|].
  destruct ((0 <? l_locked (getl s x)) && (c_lockid (l_cmd (getl s x)) =? id)) eqn:E.
  - intros H; inversion H; subst. apply andb_true_iff in E. destruct E as [E1 E2].
    apply N.ltb_lt in E1. apply N.eqb_eq in E2. auto.
  - intros H. destruct (IH H) as [A [B C]]. auto.
Qed.

Lemma get_locked_lock_spec s xt xe k m id r :
  GInv s (gk xt xe k) -> aget (mgrs s) k = Some m -> get_locked_lock s m id = Some r ->
  exists l, aget (store s) r = Some l /\ l_key l = k /\ 0 < l_locked l /\ c_lockid (l_cmd l) = id
            /\ l_timeouted l = true /\ occ r (holders m) = 1%nat.
Proof.
  intros G Hm Hg.
  destruct (gi_mgr _ _ G k m Hm) as [B1 B2 B3 B4 B5 B6 B7 B8 B9 Bb B10 Bc].
  assert (Hlkk : lkk (gk xt xe k) k = false) by (unfold lkk, gk; gs; apply andb_false_r).
  specialize (B7 Hlkk). specialize (B10 Hlkk).
  assert (Hgen : In r (holders m) /\ 0 < l_locked (getl s r) /\ c_lockid (l_cmd (getl s r)) = id).
  { unfold get_locked_lock in Hg. destruct (m_cur m) as [c|] eqn:Ec; [|discriminate].
    destruct (c_lockid (l_cmd (getl s c)) =? id) eqn:E.
    - inversion Hg; subst c. apply N.eqb_eq in E. split; [unfold holders, cur_list; rewrite Ec; simpl; auto|]. split; auto.
    - destruct (m_locks m) as [q|] eqn:El; [|discriminate]. unfold hq_getlock in Hg.
      destruct (find_locked s (hq_fast q) id) as [r1|] eqn:Ef.
      + inversion Hg; subst r1. destruct (find_locked_spec _ _ _ _ Ef) as [X1 [X2 X3]]. split; auto.
        unfold holders, m_hq. rewrite El. unfold hq_items. apply in_or_app. right. apply in_or_app. auto.
      + destruct (hq_scale q) as [[items mp]|] eqn:Es; [|discriminate].
        destruct (B10 q eq_refl items mp Es id r Hg) as [X1 [X2 X3]]. split; auto.
        unfold holders, m_hq. rewrite El. unfold hq_items. rewrite Es. apply in_or_app. right. apply in_or_app. auto. }
  destruct Hgen as [Hi [Hl Hid]].
  assert (Hst : aget (store s) r <> None).
  { apply B1. unfold phk, gk. gs. destruct (k =? k); simpl; rewrite occ_app; apply occ_In in Hi; lia. }
  destruct (aget (store s) r) as [l|] eqn:Hr; [|congruence].
  rewrite (getl_some _ _ _ Hr) in *.
  assert (Hi' : In r (holders (getm s k))) by (rewrite (getm_some _ _ _ Hm); auto).
  destruct (holder_timeouted s _ k r l G Hi' Hr) as [T K].
  exists l. repeat split; auto.
  pose proof (proj1 (occ_nodup _) B4 r). apply occ_In in Hi. lia.
Qed.

(* ---------------------------------------------------------------- UpdateLockedLock and re-arming of the expiry entry *)
Definition ull_rec (s : db) (k : N) (r : ref) (c : cmd) (l : lockrec) : lockrec :=
  let l := l <| l_cmd := c |> in
  let l :=
    if negb (has (c_eflag c) EF_UNLIMITED) || (c_expried c <? 65535) then
      let st := now s in
      let eT := expiry_deadline c st in
      let l := l <| l_start := st |> <| l_tT := timeout_deadline c st |> <| l_eT := eT |> in
      let l := if has (c_tflag c) TF_NO_RESET_TCC then l else l <| l_tcc := 1 |> in
      if has (c_eflag c) EF_NO_RESET_ECC then l else l <| l_ecc := initial_ecc c eT st |>
    else l in
  let m := getm s k in
  let only_holder := match m_cur m with Some cr => cr =? r | None => false end
                     && match m_locks m with None => true | Some q => match hq_head q with None => true | Some _ => false end end in
  if negb (l_isaof l) && only_holder then l <| l_aoftime := aoftime_of s c |> else l.
Lemma update_locked_lock_eq s k r c : update_locked_lock s k r c = setl s r (ull_rec s k r c (getl s r)).
Proof. reflexivity. Qed.

Lemma ull_rec_fields s k r c l :
  let l' := ull_rec s k r c l in
  l_key l' = l_key l /\ l_cmd l' = c /\ l_locked l' = l_locked l /\ l_refc l' = l_refc l
  /\ l_timeouted l' = l_timeouted l /\ l_long l' = l_long l /\ l_ack l' = l_ack l.
Proof.
  unfold ull_rec. cbv zeta.
  destruct (negb (has (c_eflag c) EF_UNLIMITED) || (c_expried c <? 65535));
    destruct (has (c_tflag c) TF_NO_RESET_TCC); destruct (has (c_eflag c) EF_NO_RESET_ECC);
    match goal with |- context [if ?b then _ else _] => destruct b end; destruct l; cbn; repeat split.
Qed.

Lemma remove_long_expried_frame s r eT l : aget (store s) r = Some l ->
  aget (store (remove_long_expried s r eT)) r
    = Some (if match aget (elong s) (lkey eT) with Some _ => true | None => false end
            then l <| l_long := false |> <| l_refc := dec8 (l_refc l) |> else l <| l_long := false |>)
  /\ mgrs (remove_long_expried s r eT) = mgrs s /\ twheel (remove_long_expried s r eT) = twheel s
  /\ tlong (remove_long_expried s r eT) = tlong s /\ ewheel (remove_long_expried s r eT) = ewheel s.
Proof.
  intros Hr. unfold remove_long_expried. destruct (aget (elong s) (lkey eT)) as [q|].
  - match goal with |- context [updl ?S r ?f] => assert (H1 : aget (store S) r = Some l) by exact Hr; rewrite (updl_some S r f l H1) end.
    rewrite store_setl, aget_aset_same. repeat split.
  - rewrite (updl_some _ _ _ _ Hr). rewrite store_setl, aget_aset_same. repeat split.
Qed.

Definition gkc (xt xe : list ref) (k : N) (a b : Z) : ghost := mkGhost xt xe [] [] [] [] k false false 0 a b.

Lemma update_and_rearm_ginv s xt xe k a b r c l m :
  GInv s (gkc xt xe k a b) -> aget (store s) r = Some l -> l_key l = k -> aget (mgrs s) k = Some m ->
  0 < l_locked l -> l_timeouted l = true -> occ r (holders m) = 1%nat ->
  cmd_core c -> c_lockid c = c_lockid (l_cmd l) ->
  GInv (fst (update_and_rearm s k r c)) (gkc xt xe k a b).
Proof.
  intros G Hr Hkey Hm Hd Ht Hh Hc Hid. set (g := gkc xt xe k a b) in *.
  destruct (gi_rec _ _ G r l Hr) as [A1 A2 A3 A4 A5 A6 A7 A8 A9 A10 A11].
  destruct Hc as [C1 [C2 [C3 C4]]].
  unfold update_and_rearm. rewrite (getl_some _ _ _ Hr). cbv zeta. rewrite update_locked_lock_eq, (getl_some _ _ _ Hr).
  set (l1 := ull_rec s k r c l).
  destruct (ull_rec_fields s k r c l) as [F1 [F2 [F3 [F4 [F5 [F6 F7]]]]]]. fold l1 in F1, F2, F3, F4, F5, F6, F7.
  assert (Hsr : same_rel l l1).
  { unfold same_rel. rewrite F1, F2, F3, F4, F5, F6, F7. repeat split; auto. }
  assert (Hr1 : aget (store (setl s r l1)) r = Some l1) by (rewrite store_setl, aget_aset_same; auto).
  destruct (l_long l) eqn:Elong.
  - (* long table entry *)
    assert (Hb : occ r (wheel_get (elong s) (lkey (l_eT l))) = 1%nat) by (apply A8; auto).
    pose proof (ginv_pend_add s g r G) as G0.
    assert (G1 : GInv (setl s r l1) (g <| g_pend := [r] |>)).
    { apply (setl_irrel s _ r l l1 G0 Hr Hsr). intros _ Hpe. unfold g, gkc in Hpe. gs. rewrite occ_cons_eq in Hpe. discriminate. }
    rewrite C3. cbn [negb].
    rewrite (getl_some _ _ _ Hr1).
    destruct (negb (l_eT l =? l_eT l1)%Z) eqn:Ene.
    + (* deadline moved: take the entry out and re-arm *)
      destruct (remove_long_expried_frame (setl s r l1) r (l_eT l) l1 Hr1) as [Fr [Fm [Ft1 [Ft2 Fe]]]].
      change (elong (setl s r l1)) with (elong s) in Fr.
      destruct (wheel_get_some (elong s) (lkey (l_eT l)) r) as [q [Hq1 Hq2]]; [lia|]. rewrite Hq1 in Fr.
      assert (G2 : GInv (remove_long_expried (setl s r l1) r (l_eT l)) (g <| g_pend := [r] |>)).
      { apply (remove_long_expried_ginv _ _ r l1 (l_eT l) G1 Hr1); unfold g, gkc; gs; auto.
        - rewrite occ_cons_eq. lia.
        - intros _. rewrite F1, Hkey. change (getm (setl s r l1) k) with (getm s k). rewrite (getm_some _ _ _ Hm). auto. }
      set (s2 := remove_long_expried (setl s r l1) r (l_eT l)) in *.
      set (l2 := l1 <| l_long := false |> <| l_refc := dec8 (l_refc l1) |>) in *.
      assert (G3 : GInv s2 g).
      { eapply ginv_geq; [apply (ginv_pend_drop _ _ r [] G2); gs; auto|reflexivity].
        intros l0 H0 Hl0. rewrite Fr in H0. inversion H0; subst l0. discriminate. }
      assert (He2 : ecount s2 g r = O).
      { pose proof (ro_refc _ _ _ _ (gi_rec _ _ G3 r l2 Fr)) as R2.
        destruct (rec_counts s g r l G Hr) as [[X1 [X2 [X3 X4]]] _].
        pose proof (ro_ec _ _ _ _ (gi_rec _ _ G3 r l2 Fr)) as E2.
        pose proof (occ_wheel_get_le r (elong s) (lkey (l_eT l))) as W.
        subst g. unfold gkc in *. gs. simpl occ in *.
        rewrite Hkey, (getm_some _ _ _ Hm) in *.
        change (l_key l2) with (l_key l1) in R2. rewrite ?F1, ?Hkey in R2. unfold getm in R2. rewrite Fm in R2.
        change (mgrs (setl s r l1)) with (mgrs s) in R2. rewrite Hm in R2.
        change (l_refc l2) with (dec8 (l_refc l1)) in R2. rewrite F4 in R2.
        unfold tcount, ecount in *. gs. rewrite Ft1, Ft2 in R2. change (twheel (setl s r l1)) with (twheel s) in R2.
        change (tlong (setl s r l1)) with (tlong s) in R2.
        rewrite dec8_pred in R2 by lia. lia. }
      assert (T2 : l_timeouted l2 = true) by (change (l_timeouted l2) with (l_timeouted l1); congruence).
      pose proof (ginv_borrow_e s2 g r l2 G3 Fr He2 T2) as G4.
      assert (G5 : GInv (fst (add_expried s2 k r)) (g <| g_owe := [r] |>)).
      { eapply ginv_geq; [eapply (add_expried_ginv s2 _ k r _ l2 G4); unfold g, gkc; gs; auto; reflexivity|reflexivity]. }
      destruct (add_expried s2 k r) as [s3 aev] eqn:E3. cbn [fst] in *.
      assert (E3' : s3 = fst (add_expried s2 k r)) by (rewrite E3; reflexivity).
      destruct (aget (store s3) r) as [l4|] eqn:Hr4; [|rewrite E3' in Hr4; apply add_expried_stored in Hr4; congruence].
      eapply ginv_geq; [apply (updl_refc_owe _ _ r [] l4 G5); gs; auto|reflexivity].
    + (* same deadline: the entry stays *)
      apply negb_false_iff in Ene. apply Z.eqb_eq in Ene. cbn [fst].
      eapply ginv_geq; [apply (ginv_pend_drop _ _ r [] G1); gs; auto|reflexivity].
      intros l0 H0 _ _. rewrite Hr1 in H0. inversion H0; subst l0. rewrite F5, Ht. split; [discriminate|].
      intros _. change (elong (setl s r l1)) with (elong s). rewrite <- Ene. exact Hb.
  - cbn [fst]. apply (setl_irrel s g r l l1 G Hr Hsr). intros E. congruence.
Qed.
