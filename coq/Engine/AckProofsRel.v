(* C11, global part 1: no engine step ever writes a positive value into an acknowledgement counter.
   `arel s s'`: every record's l_ack is what it was, or 255 (nothing pending), or 0 (AddLock of a require-ack hold).
   Proved for every function of the engine model and for `step`, every state. *)
From Coq Require Import String ZifyN ZifyBool ZifyNat.
From Slock Require Import Engine.Types Engine.Queues Engine.Timers Engine.Engine Engine.Engine2.
From Slock Require Import Engine.AckProofsBase Engine.AckProofsAck.
Open Scope N_scope.

Definition ack_step (a a' : N) : Prop := a' = a \/ a' = 255 \/ a' = 0.
Definition arel (s s' : db) : Prop := forall r, ack_step (l_ack (getl s r)) (l_ack (getl s' r)).

Lemma ack_step_refl a : ack_step a a. Proof. left; reflexivity. Qed.
Lemma ack_step_trans a b c : ack_step a b -> ack_step b c -> ack_step a c.
Proof. unfold ack_step. intros [A|[A|A]] [B|[B|B]]; subst; auto. Qed.
Lemma arel_refl s : arel s s. Proof. intros r. apply ack_step_refl. Qed.
Lemma arel_trans s1 s2 s3 : arel s1 s2 -> arel s2 s3 -> arel s1 s3.
Proof. intros A B r. eapply ack_step_trans; [apply A|apply B]. Qed.
Lemma fr_arel s s' : fr s s' -> arel s s'.
Proof. intros (A & _) r. destruct (A r) as [[E|E] _]; [left|right; left]; exact E. Qed.

Lemma ar_fr s0 s s' : fr s s' -> arel s0 s -> arel s0 s'.
Proof. intros F A. eapply arel_trans; [exact A|apply fr_arel; exact F]. Qed.
Lemma ar_same s0 s s' : store s' = store s -> arel s0 s -> arel s0 s'.
Proof. intros E A r. rewrite (getl_store _ _ r E). apply A. Qed.
Lemma ar_updm s0 s k f : arel s0 s -> arel s0 (updm s k f).
Proof. apply ar_same. apply store_updm. Qed.
Lemma ar_updl s0 s r f : (forall l, ack_step (l_ack l) (l_ack (f l))) -> arel s0 s -> arel s0 (updl s r f).
Proof.
  intros Hf A. eapply arel_trans; [exact A|]. intros r'. rewrite getl_updl. destruct (r =? r') eqn:E; [|apply ack_step_refl].
  apply N.eqb_eq in E. subst r'. unfold getl. destruct (aget (store s) r); [apply Hf|apply ack_step_refl].
Qed.
Lemma ar_setl s0 s r l : ack_step (l_ack (getl s r)) (l_ack l) -> arel s0 s -> arel s0 (setl s r l).
Proof.
  intros Hl A. eapply arel_trans; [exact A|]. intros r'. rewrite getl_setl. destruct (r =? r') eqn:E; [|apply ack_step_refl].
  apply N.eqb_eq in E. subst r'. exact Hl.
Qed.
Lemma ar_updc s0 s f : arel s0 s -> arel s0 (updc s f). Proof. apply ar_same; reflexivity. Qed.
Lemma ar_bump s0 s f : arel s0 s -> arel s0 (bump f s). Proof. apply ar_same; reflexivity. Qed.
Lemma ar_twheel s0 s x : arel s0 s -> arel s0 (s <| twheel := x |>). Proof. apply ar_same; reflexivity. Qed.
Lemma ar_tlong s0 s x : arel s0 s -> arel s0 (s <| tlong := x |>). Proof. apply ar_same; reflexivity. Qed.
Lemma ar_ewheel s0 s x : arel s0 s -> arel s0 (s <| ewheel := x |>). Proof. apply ar_same; reflexivity. Qed.
Lemma ar_elong s0 s x : arel s0 s -> arel s0 (s <| elong := x |>). Proof. apply ar_same; reflexivity. Qed.
Lemma ar_checkT s0 s x : arel s0 s -> arel s0 (s <| checkT := x |>). Proof. apply ar_same; reflexivity. Qed.
Lemma ar_checkE s0 s x : arel s0 s -> arel s0 (s <| checkE := x |>). Proof. apply ar_same; reflexivity. Qed.
Lemma ar_now s0 s x : arel s0 s -> arel s0 (s <| now := x |>). Proof. apply ar_same; reflexivity. Qed.
Lemma ar_leader s0 s x : arel s0 s -> arel s0 (s <| leader := x |>). Proof. apply ar_same; reflexivity. Qed.
Lemma ar_setm s0 s k m : arel s0 s -> arel s0 (setm s k m). Proof. apply ar_same; reflexivity. Qed.

Ltac ar_side := intros ?; first [ apply ack_step_refl | unfold ack_step; cbn; auto ].
#[export] Hint Extern 1 (forall l : lockrec, ack_step _ _) => ar_side : ar.
#[export] Hint Resolve arel_refl ar_updm ar_updl ar_updc ar_bump ar_twheel ar_tlong ar_ewheel ar_elong ar_checkT ar_checkE
  ar_now ar_leader ar_setm : ar.

(* the helpers of AckProofsBase (all frames) *)
Lemma free_lock_ar s0 s r : arel s0 s -> arel s0 (free_lock s r). Proof. apply ar_fr; auto with fr. Qed.
Lemma unref_ar s0 s r : arel s0 s -> arel s0 (unref s r). Proof. apply ar_fr; auto with fr. Qed.
Lemma remove_mgr_ar s0 s k : arel s0 s -> arel s0 (remove_mgr_if_unref s k). Proof. apply ar_fr; auto with fr. Qed.
Lemma remove_lock_ar s0 s k r : arel s0 s -> arel s0 (remove_lock s k r). Proof. apply ar_fr; auto with fr. Qed.
Lemma add_wait_lock_ar s0 s k r : arel s0 s -> arel s0 (add_wait_lock s k r). Proof. apply ar_fr; auto with fr. Qed.
Lemma add_timeout_ar s0 s r : arel s0 s -> arel s0 (add_timeout s r). Proof. apply ar_fr; auto with fr. Qed.
Lemma remove_long_timeout_ar s0 s r : arel s0 s -> arel s0 (remove_long_timeout s r). Proof. apply ar_fr; auto with fr. Qed.
Lemma remove_long_expried_ar s0 s r t : arel s0 s -> arel s0 (remove_long_expried s r t). Proof. apply ar_fr; auto with fr. Qed.
Lemma hq_push_ar s0 s q r s' q' : hq_push s q r = (s', q') -> arel s0 s -> arel s0 s'.
Proof. intros H. apply ar_fr. eapply hq_push_fr; eauto with fr. Qed.
Lemma get_wait_lock_ar s0 s k s' o : get_wait_lock s k = (s', o) -> arel s0 s -> arel s0 s'.
Proof. intros H. apply ar_fr. eapply get_wait_lock_fr; eauto with fr. Qed.
Lemma push_lock_aof_ar s0 s k r f s' ev : push_lock_aof s k r f = (s', ev) -> arel s0 s -> arel s0 s'.
Proof. intros H. apply ar_fr. eapply push_lock_aof_fr; eauto with fr. Qed.
Lemma push_unlock_aof_ar s0 s k r lc uc b f s' ev : push_unlock_aof s k r lc uc b f = (s', ev) -> arel s0 s -> arel s0 s'.
Proof. intros H. apply ar_fr. eapply push_unlock_aof_fr; eauto with fr. Qed.
Lemma add_expried_ar s0 s k r s' ev : add_expried s k r = (s', ev) -> arel s0 s -> arel s0 s'.
Proof. intros H. apply ar_fr. eapply add_expried_fr; eauto with fr. Qed.
#[export] Hint Resolve free_lock_ar unref_ar remove_mgr_ar remove_lock_ar add_wait_lock_ar add_timeout_ar
  remove_long_timeout_ar remove_long_expried_ar hq_push_ar get_wait_lock_ar push_lock_aof_ar push_unlock_aof_ar
  add_expried_ar : ar.

(* ------------------------------------------------------------------ Engine.v *)
Lemma new_lock_ar s0 s k conn c s' r : new_lock s k conn c = (s', r) -> arel s0 s -> arel s0 s'.
Proof.
  unfold new_lock. cbv zeta. intros H A. inv H. apply ar_updm.
  eapply arel_trans; [exact A|]. intros r'. unfold getl at 2. cbn [store set]. rewrite aget_aset.
  destruct (next s =? r'); [right; left; reflexivity|apply ack_step_refl].
Qed.

Lemma add_lock_ar s0 s k r : arel s0 s -> arel s0 (add_lock s k r).
Proof.
  intros A. unfold add_lock. cbv zeta.
  match goal with |- context [setl s r ?l] => set (lA := l);
    assert (A1 : arel s0 (setl s r lA)) end.
  { apply ar_setl; auto. unfold lA. unfold ack_step. brk; cbn; auto. }
  brk; eauto with ar.
Qed.

Lemma update_locked_lock_ar s0 s k r c : arel s0 s -> arel s0 (update_locked_lock s k r c).
Proof.
  intros A. unfold update_locked_lock. cbv zeta. apply ar_setl; auto. unfold ack_step. brk; cbn; auto.
Qed.

Lemma process_data_ar s0 s k r c b s' ev : process_data s k r c b = (s', ev) -> arel s0 s -> arel s0 s'.
Proof. unfold process_data. intros H A. repeat (split_hyp H); inv H; eauto with ar. Qed.
#[export] Hint Resolve new_lock_ar add_lock_ar update_locked_lock_ar process_data_ar : ar.

Lemma update_and_rearm_ar s0 s k r c s' ev : update_and_rearm s k r c = (s', ev) -> arel s0 s -> arel s0 s'.
Proof. unfold update_and_rearm. intros H A. repeat (split_hyp H); inv H; eauto 10 with ar. Qed.
#[export] Hint Resolve update_and_rearm_ar : ar.

Ltac brk_hyps :=
  repeat match goal with
  | Hx : context [match ?x with _ => _ end] |- _ =>
      lazymatch type of Hx with
      | _ = (_, _) => let y := hd_scrut x in first [ is_var y; destruct y | destruct y eqn:? ]; cbv beta iota zeta in Hx
      end
  end.
Ltac ar_big H := repeat (split_hyp H); inv H; brk_hyps; brk; eauto 25 with ar.

Lemma lock_step_ar s0 s conn c s' ev w : lock_step s conn c = (s', ev, w) -> arel s0 s -> arel s0 s'.
Proof.
  unfold lock_step. intros H A. cbv zeta in H.
  match type of H with context [match aget (mgrs s) (c_key c) with Some _ => s | None => ?X end] =>
    set (s1 := match aget (mgrs s) (c_key c) with Some _ => s | None => X end) in H;
    assert (A1 : arel s0 s1) by (unfold s1; brk; eauto with ar) end.
  clearbody s1. ar_big H.
Qed.
#[export] Hint Resolve lock_step_ar : ar.

(* ------------------------------------------------------------------ Engine2.v *)
Lemma cancel_wait_lock_ar s0 s conn c s' ev w : cancel_wait_lock s conn c = (s', ev, w) -> arel s0 s -> arel s0 s'.
Proof. unfold cancel_wait_lock. intros H A. cbv zeta in H. ar_big H. Qed.
#[export] Hint Resolve cancel_wait_lock_ar : ar.

Lemma release_hold_ar s0 s k conn c r d s' ev : release_hold s k conn c r d = (s', ev) -> arel s0 s -> arel s0 s'.
Proof. unfold release_hold. intros H A. cbv zeta in H. ar_big H. Qed.
#[export] Hint Resolve release_hold_ar : ar.

Lemma unlock_step_ar s0 s conn c s' ev w : unlock_step s conn c = (s', ev, w) -> arel s0 s -> arel s0 s'.
Proof. unfold unlock_step. intros H A. cbv zeta in H. ar_big H. Qed.
#[export] Hint Resolve unlock_step_ar : ar.

Lemma wake_grant_ar s0 s k r via s' ev : wake_grant s k r via = (s', ev) -> arel s0 s -> arel s0 s'.
Proof. unfold wake_grant. intros H A. cbv zeta in H. ar_big H. Qed.
#[export] Hint Resolve wake_grant_ar : ar.

Lemma wake_iter_ar s0 s w s' ev res : wake_iter s w = (s', ev, res) -> arel s0 s -> arel s0 s'.
Proof. unfold wake_iter. intros H A. cbv zeta in H. ar_big H. Qed.
#[export] Hint Resolve wake_iter_ar : ar.

Lemma run_wake_ar fuel : forall s0 s w s' ev, run_wake fuel s w = (s', ev) -> arel s0 s -> arel s0 s'.
Proof.
  induction fuel as [|f IH]; simpl; intros s0 s w s' ev H A.
  - inv H. auto.
  - destruct (wake_iter s w) as [[s1 e1] res] eqn:E. destruct res.
    + inv H. eauto with ar.
    + destruct (run_wake f s1 w) as [s2 e2] eqn:E2. inv H. eauto with ar.
Qed.
#[export] Hint Resolve run_wake_ar : ar.

Lemma finish_ar s0 s ev w s' ev' : finish (s, ev, w) = (s', ev') -> arel s0 s -> arel s0 s'.
Proof.
  unfold finish. intros H A. destruct w as [w|]; [|inv H; auto].
  destruct (run_wake _ s w) as [s1 e1] eqn:E. inv H. eauto with ar.
Qed.

Lemma do_timeout_ar s0 s r s' ev w : do_timeout s r = (s', ev, w) -> arel s0 s -> arel s0 s'.
Proof. unfold do_timeout. intros H A. cbv zeta in H. ar_big H. Qed.
Lemma do_expried_ar s0 s r s' ev w : do_expried s r = (s', ev, w) -> arel s0 s -> arel s0 s'.
Proof. unfold do_expried. intros H A. cbv zeta in H. ar_big H. Qed.
Lemma do_ack_ar s0 s r ok s' ev w : do_ack s r ok = (s', ev, w) -> arel s0 s -> arel s0 s'.
Proof. unfold do_ack. intros H A. cbv zeta in H. ar_big H. Qed.
#[export] Hint Resolve do_timeout_ar do_expried_ar do_ack_ar : ar.

Lemma finish_f_ar (f : db -> ref -> db * list event * option wake) :
  (forall s0 s r s' ev w, f s r = (s', ev, w) -> arel s0 s -> arel s0 s') ->
  forall s0 s r s' ev, finish (f s r) = (s', ev) -> arel s0 s -> arel s0 s'.
Proof.
  intros Hf s0 s r s' ev H A. destruct (f s r) as [[s1 e1] w1] eqn:E. eapply finish_ar; [exact H|]. eapply Hf; eauto.
Qed.

Lemma fire_all_ar (f : db -> ref -> db * list event * option wake) :
  (forall s0 s r s' ev w, f s r = (s', ev, w) -> arel s0 s -> arel s0 s') ->
  forall due s0 s s' ev, fire_all f s due = (s', ev) -> arel s0 s -> arel s0 s'.
Proof.
  intros Hf. induction due as [|r rest IH]; simpl; intros s0 s s' ev H A.
  - inv H. auto.
  - destruct (finish (f s r)) as [s1 e1] eqn:E1. destruct (fire_all f s1 rest) as [s2 e2] eqn:E2. inv H.
    eapply IH; [exact E2|]. eapply finish_f_ar; eauto.
Qed.

Lemma sweep_t_slot_ar fuel : forall s0 s slot nowv due s' due', sweep_t_slot fuel s slot nowv due = (s', due') -> arel s0 s -> arel s0 s'.
Proof.
  induction fuel as [|f IH]; simpl; intros s0 s slot nowv due s' due' H A.
  - inv H. auto.
  - repeat (split_hyp H); try (inv H; eauto 10 with ar; fail); (eapply IH; [exact H|]); brk; eauto 15 with ar.
Qed.

Lemma sweep_long_ar items : forall s0 s is_t due s' due', sweep_long s items is_t due = (s', due') -> arel s0 s -> arel s0 s'.
Proof.
  induction items as [|r rest IH]; simpl; intros s0 s is_t due s' due' H A.
  - inv H. auto.
  - repeat (split_hyp H); (eapply IH; [exact H|]); brk; eauto 15 with ar.
Qed.

Lemma collect_timeouts_ar s0 s t nowv s' due : collect_timeouts s t nowv = (s', due) -> arel s0 s -> arel s0 s'.
Proof.
  unfold collect_timeouts. cbv zeta. intros H A.
  destruct (sweep_t_slot _ s (slot_of t) nowv []) as [s1 d1] eqn:E1.
  assert (A1 : arel s0 s1) by (eapply sweep_t_slot_ar; eauto).
  destruct (aget (tlong s1) (lkey t)); [|inv H; auto].
  eapply sweep_long_ar; [exact H|]. eauto with ar.
Qed.

Lemma sweep_e_slot_ar fuel : forall s0 s slot nowv due ev s' due' ev',
  sweep_e_slot fuel s slot nowv due ev = (s', due', ev') -> arel s0 s -> arel s0 s'.
Proof.
  induction fuel as [|f IH]; simpl; intros s0 s slot nowv due ev s' due' ev' H A.
  - inv H. auto.
  - repeat (split_hyp H); try (inv H; eauto 10 with ar; fail); (eapply IH; [exact H|]); brk; eauto 15 with ar.
Qed.

Lemma collect_expiries_ar s0 s t nowv s' due ev : collect_expiries s t nowv = (s', due, ev) -> arel s0 s -> arel s0 s'.
Proof.
  unfold collect_expiries. cbv zeta. intros H A.
  destruct (sweep_e_slot _ s (slot_of t) nowv [] []) as [[s1 d1] e1] eqn:E1.
  assert (A1 : arel s0 s1) by (eapply sweep_e_slot_ar; eauto).
  destruct (aget (elong s1) (lkey t)); [|inv H; auto].
  destruct (sweep_long _ l false d1) as [s2 d2] eqn:E2. inv H.
  eapply sweep_long_ar; [exact E2|]. eauto with ar.
Qed.

Lemma sweep_t_secs_ar n : forall s0 s t nowv s' ev, sweep_t_secs n s t nowv = (s', ev) -> arel s0 s -> arel s0 s'.
Proof.
  induction n as [|n IH]; simpl; intros s0 s t nowv s' ev H A.
  - inv H. auto.
  - destruct (collect_timeouts s t nowv) as [s1 due] eqn:E1.
    destruct (fire_all do_timeout s1 due) as [s2 e2] eqn:E2.
    destruct (sweep_t_secs n s2 (t + 1)%Z nowv) as [s3 e3] eqn:E3. inv H.
    eapply IH; [exact E3|]. eapply (fire_all_ar do_timeout); [exact do_timeout_ar|exact E2|]. eapply collect_timeouts_ar; eauto.
Qed.

Lemma sweep_e_secs_ar n : forall s0 s t nowv s' ev, sweep_e_secs n s t nowv = (s', ev) -> arel s0 s -> arel s0 s'.
Proof.
  induction n as [|n IH]; simpl; intros s0 s t nowv s' ev H A.
  - inv H. auto.
  - destruct (collect_expiries s t nowv) as [[s1 due] e1] eqn:E1.
    destruct (fire_all do_expried s1 due) as [s2 e2] eqn:E2.
    destruct (sweep_e_secs n s2 (t + 1)%Z nowv) as [s3 e3] eqn:E3. inv H.
    eapply IH; [exact E3|]. eapply (fire_all_ar do_expried); [exact do_expried_ar|exact E2|]. eapply collect_expiries_ar; eauto.
Qed.

(* every engine action *)
Theorem step_arel : forall s a s' ev, step s a = (s', ev) -> arel s s'.
Proof.
  intros s a s' ev H. destruct a; simpl in H.
  - destruct (c_lock c).
    + destruct (lock_step s conn c) as [[s1 e1] w1] eqn:E. eapply finish_ar; [exact H|]. eapply lock_step_ar; eauto with ar.
    + destruct (unlock_step s conn c) as [[s1 e1] w1] eqn:E. eapply finish_ar; [exact H|]. eapply unlock_step_ar; eauto with ar.
  - inv H. eauto with ar.
  - unfold sweep_timeouts in H. cbv zeta in H. eapply sweep_t_secs_ar; [exact H|]. eauto with ar.
  - unfold sweep_expiries in H. cbv zeta in H. eapply sweep_e_secs_ar; [exact H|]. eauto with ar.
  - destruct (do_ack s r ok) as [[s1 e1] w1] eqn:E. eapply finish_ar; [exact H|]. eapply do_ack_ar; eauto with ar.
  - inv H. eauto with ar.
Qed.

