(* "Every key manager has a lock record" (J2), part 3: the critical sections, under the reachability invariant.
   For a critical section on key k started in a state with GInv s (gk xt xe k) and J2 s, the end state satisfies J2:
   - managers of other keys: the freed records are entries of key k's holder / wait queue or the section's own record,
     all of key k (mo_key of the invariant at the state in which the freeing primitive starts) -- RunDrain.v, RunDrainQ.v;
   - the manager of key k: the section ends with RemoveLockManager-if-unreferenced, or a record of key k is still
     stored in the end state (the new record, the current lock, the live waiter ...), and refCount counts it (mo_ref). *)
From Coq Require Import String ZifyN ZifyBool ZifyNat Permutation.
From Slock Require Import Engine.Types Engine.Queues Engine.Timers Engine.Engine Engine.Engine2 Engine.InvDef Engine.InvBase
  Engine.InvPrims Engine.InvRec Engine.InvWheel Engine.InvQueue Engine.InvQueue2 Engine.InvSteps Engine.InvLockDefs Engine.InvLock
  Engine.InvUnlock Engine.LocalBase Engine.LocalFrames Engine.LocalC04 Engine.LocalWake Engine.RunDrain Engine.RunDrainQ.
Open Scope N_scope.

(* ---------------------------------------------------------------- what the invariant contributes *)
Lemma ginv_KH s g k : GInv s g -> KH k s (holders (getm s k) ++ m_wq (getm s k)).
Proof.
  intros G r Hi l Hl. unfold getm in Hi. destruct (aget (mgrs s) k) as [m|] eqn:Hm; [|destruct Hi].
  apply (mo_key _ _ _ _ (gi_mgr _ _ G k m Hm) r l Hi Hl).
Qed.
Lemma ginv_KH_hq s g k : GInv s g -> KH k s (m_hq (getm s k)).
Proof. intros G. eapply KH_incl; [|apply (ginv_KH s g k G)]. intros r Hr. apply in_or_app. left. apply m_hq_holders. exact Hr. Qed.
Lemma ginv_KH_wq s g k : GInv s g -> KH k s (m_wq (getm s k)).
Proof. intros G. eapply KH_incl; [|apply (ginv_KH s g k G)]. intros r Hr. apply in_or_app. auto. Qed.

Lemma key_cnt_pos k (st : amap lockrec) r l : aget st r = Some l -> l_key l = k -> key_cnt k st <> O.
Proof.
  intros H Hk. pose proof (asum_ge (fun l0 => if N.eqb (l_key l0) k then 1%nat else O) st r l H) as P.
  cbv beta in P. rewrite Hk, N.eqb_refl in P. unfold key_cnt. lia.
Qed.

(* a stored record of the key witnesses refCount <> 0 *)
Lemma ginv_mref_wit s g k m r l : GInv s g -> aget (mgrs s) k = Some m -> aget (store s) r = Some l -> l_key l = k -> m_ref m <> 0.
Proof.
  intros G Hm Hr Hk. pose proof (mo_ref _ _ _ _ (gi_mgr _ _ G k m Hm)) as R.
  pose proof (key_cnt_pos k (store s) r l Hr Hk). lia.
Qed.
(* so does an entry of the key's holder list or wait queue *)
Lemma ginv_mref_kq s g k m y : GInv s g -> g_ph g = [] -> aget (mgrs s) k = Some m -> In y (holders m ++ m_wq m) -> m_ref m <> 0.
Proof.
  intros G Hp Hm Hi. destruct (gi_mgr _ _ G k m Hm) as [B1 B2 B3 B4 B5 B6 B7 B8 B9 Bb B10 Bc].
  assert (Hs : aget (store s) y <> None).
  { apply B1. unfold phk. rewrite Hp. destruct (k =? g_dk g); simpl; apply occ_In in Hi; lia. }
  destruct (aget (store s) y) as [l|] eqn:Hy; [|congruence].
  eapply (ginv_mref_wit s g k m y l); eauto.
Qed.

Lemma J2_close s k : J2x (Some k) s -> (forall m, aget (mgrs s) k = Some m -> m_ref m <> 0) -> J2 s.
Proof.
  intros H Hk k0 m _ Hm. destruct (N.eq_dec k0 k) as [->|Hne]; [auto|]. apply (H k0 m); [congruence|exact Hm].
Qed.
Lemma J2_close_wit s g k r l : GInv s g -> J2x (Some k) s -> aget (store s) r = Some l -> l_key l = k -> J2 s.
Proof. intros G H Hr Hk. apply (J2_close s k H). intros m Hm. eapply ginv_mref_wit; eauto. Qed.

(* ---------------------------------------------------------------- holder list / wait queue of a key: unchanged by the
   operations that follow AddLock / AddWaitLock in a grant (local) *)
Definition lsm (x x' : db) : Prop :=
  forall k, holders (getm x' k) = holders (getm x k) /\ m_wq (getm x' k) = m_wq (getm x k).
Lemma lsm_refl x : lsm x x.  Proof. intros k. auto. Qed.
Lemma lsm_trans a b c : lsm a b -> lsm b c -> lsm a c.
Proof. intros H1 H2 k. destruct (H1 k), (H2 k). split; congruence. Qed.
Lemma lsm_mgrs_eq x x' : mgrs x' = mgrs x -> lsm x x'.
Proof. intros E k. rewrite (getm_mgrs _ _ k E). auto. Qed.
Lemma lsm_updl x r f : lsm x (updl x r f).  Proof. apply lsm_mgrs_eq, mgrs_updl. Qed.
Lemma lsm_updm x k f : (forall m, m_cur (f m) = m_cur m /\ m_locks (f m) = m_locks m /\ m_wait (f m) = m_wait m) -> lsm x (updm x k f).
Proof.
  intros Hf k0. unfold updm. destruct (aget (mgrs x) k) as [m|] eqn:E; [|auto].
  rewrite getm_setm. destruct (k =? k0) eqn:E0; [|auto]. apply N.eqb_eq in E0. subst k0.
  rewrite (getm_some _ _ _ E). destruct (Hf m) as (A & B & C).
  destruct (holders_eq m (f m) A B) as [H1 _]. split; [exact H1|apply m_wq_eq; exact C].
Qed.
Ltac mgrs_norm :=
  repeat first [rewrite mgrs_updl
               | match goal with |- context [mgrs (set ?p ?f ?X)] => change (mgrs (set p f X)) with (mgrs X) end];
  try reflexivity.

Lemma lsm_push_lock_aof x k r fl : lsm x (fst (push_lock_aof x k r fl)).
Proof.
  unfold push_lock_aof. destruct (negb (leader x)); [apply lsm_refl|].
  destruct (has (c_flag (l_cmd (getl x r))) LOCK_FLAG_FROM_AOF); cbn [fst]; [apply lsm_updl|].
  destruct (aof_lock_data true (m_data (getm x k)) (l_data (getl x r))) as [[d c'] ld']. cbn [fst].
  eapply lsm_trans; [|apply lsm_updl]. eapply lsm_trans; [|apply lsm_updl].
  apply lsm_updm. intros m. destruct m; cbn; auto.
Qed.
Lemma lsm_repeat_push_lock_aof n : forall x k r, lsm x (fst (repeat_push_lock_aof n x k r)).
Proof.
  induction n as [|n IH]; intros x k r; simpl; [apply lsm_refl|].
  pose proof (lsm_push_lock_aof x k r 0) as P. destruct (push_lock_aof x k r 0) as [x1 e1]. cbn [fst] in P.
  specialize (IH x1 k r). destruct (repeat_push_lock_aof n x1 k r) as [x2 e2]. cbn [fst] in *. eapply lsm_trans; eauto.
Qed.
Lemma lsm_add_expried x k r : lsm x (fst (add_expried x k r)).
Proof.
  rewrite add_expried_eq.
  assert (T : forall x0, lsm x0 (fst (ae_tail x0 k r))).
  { intros x0. unfold ae_tail. cbv zeta. match goal with |- context [if ?c then _ else _] => destruct c end;
      [apply lsm_repeat_push_lock_aof|apply lsm_refl]. }
  eapply lsm_trans; [|apply T]. apply lsm_mgrs_eq. unfold ae_place. cbv zeta.
  match goal with |- context [if ?c then _ else _] => destruct c end; mgrs_norm.
Qed.
Lemma lsm_add_timeout x r : lsm x (add_timeout x r).
Proof.
  apply lsm_mgrs_eq. unfold add_timeout. cbv zeta.
  match goal with |- context [if ?c then _ else _] => destruct c end; mgrs_norm.
Qed.

(* ---------------------------------------------------------------- wakeUpWaitLocks *)
Lemma J2x_wg_pre K s r : J2x K s -> J2x K (wg_pre s r).
Proof. intros H. unfold wg_pre. cbv zeta. j2. Qed.

Lemma wake_iter_J2 s xt xe k w : GInv s (gk xt xe k) -> w_key w = k -> J2 s -> J2 (fst (fst (wake_iter s w))).
Proof.
  intros G Hw HJ. pose proof (wake_iter_ginv s xt xe k w G Hw) as GE.
  unfold wake_iter in *. rewrite Hw in *. destruct (aget (mgrs s) k) as [m|] eqn:Hm; [|exact HJ].
  destruct (negb (m_waited m)); [exact HJ|].
  pose proof (get_wait_lock_ginv s (gk xt xe k) k G) as P.
  destruct (get_wait_lock s k) as [s1 wl] eqn:Egw. destruct P as [G1 [LF [_ [_ [_ P4]]]]]; auto.
  destruct (J2x_get_wait_lock k s s1 wl Egw (ginv_KH_wq s _ k G) (J2x_weaken _ _ HJ)) as [J1 S1].
  destruct wl as [r|].
  - destruct P4 as [Hin [l [Hr Ht]]].
    assert (Hkey : l_key l = k) by (apply (ginv_KH_wq s1 _ k G1 r Hin l Hr)).
    destruct (negb (do_lock s1 k r)) eqn:Ed.
    + cbn [fst] in *. apply (J2_close_wit s1 _ k r l G1 J1 Hr Hkey).
    + destruct (wake_grant s1 k r (w_conn w)) as [s2 ev] eqn:Eg. cbn [fst] in *.
      assert (Es2 : s2 = fst (wake_grant s1 k r (w_conn w))) by (rewrite Eg; reflexivity).
      assert (Hcore : cmd_core (l_cmd (getl s1 r))) by (rewrite (getl_some _ _ _ Hr); apply (ro_cmd _ _ _ _ (gi_rec _ _ G1 r l Hr))).
      assert (Hlive : dead_waiter (getl s1 r) = false).
      { rewrite (getl_some _ _ _ Hr). rewrite (dead_waiter_timeouted s1 _ r l G1 Hr). exact Ht. }
      (* the served waiter stays in the wait queue as a tombstone *)
      destruct (wake_grant_spec _ _ _ _ _ _ Eg Hlive) as [Hms _].
      apply (J2_close s2 k).
      * rewrite Es2, (wake_grant_state s1 k r (w_conn w) Hcore). cbv zeta.
        destruct (wg_pre_ginv s1 xt xe k r l G1 Hr Ht) as [Gp [l2 [Hr2 _]]].
        pose proof (J2x_wg_pre _ s1 r J1) as Jp.
        destruct (0 <? c_expried (l_cmd (getl s1 r))).
        -- apply J2x_bump. unfold grant_core. cbv zeta. apply J2x_updl. apply J2x_fst_add_expried.
           apply J2x_updm; [intros [? ? ? ? ? ? ?]; reflexivity|].
           apply (J2x_add_lock k (wg_pre s1 r) r); [congruence|apply (ginv_KH_hq _ _ k Gp)|exact Jp].
        -- apply J2x_bump. unfold wg_nohold. destruct (has_data_flag (l_cmd (getl s1 r))); [|exact Jp]. cbv zeta.
           destruct (_ && _); [|exact Jp]. apply J2x_fst_push_lock_aof. exact Jp.
      * intros m2 Hm2. destruct (Hms k m2) as (m1 & Hm1 & Hle); [discriminate|exact Hm2|].
        unfold Lrel, eq_wait in Hle.
        eapply (ginv_mref_kq s2 _ k m2 r GE); [reflexivity|exact Hm2|].
        apply in_or_app. right. rewrite (getm_some _ _ _ Hm1) in Hin. unfold m_wq in *. rewrite Hle. exact Hin.
  - cbn [fst] in *. apply J2x_remove_mgr_close. apply J2x_updm; [intros [? ? ? ? ? ? ?]; reflexivity|exact J1].
Qed.

Lemma run_wake_J2 fuel : forall s xt xe k w, GInv s (gk xt xe k) -> w_key w = k -> J2 s -> J2 (fst (run_wake fuel s w)).
Proof.
  induction fuel as [|f IH]; intros s xt xe k w G Hw HJ; simpl; [exact HJ|].
  pose proof (wake_iter_ginv s xt xe k w G Hw) as G1. pose proof (wake_iter_J2 s xt xe k w G Hw HJ) as J1.
  destruct (wake_iter s w) as [[s' ev] [|]]; cbn [fst] in *; [exact J1|].
  specialize (IH s' xt xe k w G1 Hw J1). destruct (run_wake f s' w) as [s'' ev']. exact IH.
Qed.

Lemma finish_J2 s ev w xt xe k : GInv s (gk xt xe k) -> (forall w0, w = Some w0 -> w_key w0 = k) -> J2 s ->
  J2 (fst (finish (s, ev, w))).
Proof.
  intros G Hw HJ. unfold finish. destruct w as [w0|]; [|exact HJ].
  pose proof (run_wake_J2 (wake_fuel s (w_key w0)) s xt xe k w0 G (Hw w0 eq_refl) HJ) as P.
  destruct (run_wake (wake_fuel s (w_key w0)) s w0) as [s' ev']. exact P.
Qed.

(* ---------------------------------------------------------------- LockDB.Lock *)
Lemma some_inj {A} (a b : A) : Some a = Some b -> a = b.
Proof. intros H. inversion H. reflexivity. Qed.
Ltac some_subst := repeat match goal with H : Some _ = Some ?v |- _ => is_var v; apply some_inj in H; subst v end.

(* the held phase frees nothing *)
Lemma J2x_ls_update K s conn c1 k m r l ld res c' w :
  ls_update s conn c1 k m r l ld = (Some res, c', w) -> J2x K s -> J2x K (fst (fst res)).
Proof.
  intros H Hs. unfold ls_update in H. cbv zeta in H. repeat (split_hyp H); inv_tuple H; some_subst; cbn [fst]; j2.
Qed.
Lemma J2x_ls_relock K s conn c1 k m r l ld res c' w :
  ls_relock s conn c1 k m r l ld = (Some res, c', w) -> J2x K s -> J2x K (fst (fst res)).
Proof.
  intros H Hs. unfold ls_relock in H. cbv zeta in H. repeat (split_hyp H); inv_tuple H; some_subst; cbn [fst]; j2.
Qed.
Lemma J2x_ls_held K s conn c k m res c' w :
  ls_held s conn c k m = (Some res, c', w) -> J2x K s -> J2x K (fst (fst res)).
Proof.
  intros H Hs. rewrite ls_held_eq in H. cbv zeta in H. repeat (split_hyp H).
  all: first [eapply J2x_ls_update; eassumption | eapply J2x_ls_relock; eassumption
             | inv_tuple H; some_subst; cbn [fst]; first [exact Hs | discriminate] ].
Qed.
(* a key manager that was just created never takes the held phase *)
Lemma ls_held_new_mgr s conn c k res c' w : ls_held s conn c k new_mgr = (Some res, c', w) -> False.
Proof.
  rewrite ls_held_eq. change (0 <? m_locked new_mgr) with false. cbv iota. change (m_waited new_mgr) with false. cbn [andb].
  destruct (has (c_tflag c) TF_WAIT_WHEN_UNLOCK); intros H; inversion H.
Qed.

(* the new lock record: granted (it is in the holder list), queued (it is in the wait queue), or freed at once
   (then RemoveLockManager-if-unreferenced follows) *)
Lemma ls_tail_J2 s xt xe conn c k waited m :
  GInv s (gk xt xe k) -> cmd_core c -> aget (mgrs s) k = Some m -> next s < MAXREC -> J2x (Some k) s ->
  J2 (fst (fst (ls_tail s conn c k waited))).
Proof.
  intros G Hc Hm Hb HJ. set (g := gk xt xe k) in *.
  destruct (ls_tail_ginv s xt xe conn c k waited m G Hc Hm Hb) as [GE _].
  destruct (new_lock_ginv s g k conn c m G Hm eq_refl eq_refl Hb Hc) as [Enl G1].
  pose proof (J2x_new_lock s k conn c HJ) as J1.
  unfold ls_tail in *. rewrite Enl in *. cbn [fst] in G1, J1.
  set (r := next s) in *. set (l0 := fresh_rec s k conn c) in *.
  match goal with |- context [updm ?S k ?f] => set (s1 := updm S k f) in * end.
  assert (Hr1 : aget (store s1) r = Some l0).
  { unfold s1, updm. change (mgrs (s <| store := aset (store s) r l0 |> <| next := r + 1 |>)) with (mgrs s). rewrite Hm.
    change (store (setm _ k _)) with (aset (store s) r l0). apply aget_aset_same. }
  assert (Hm1 : aget (mgrs s1) k <> None).
  { unfold s1, updm. change (mgrs (s <| store := aset (store s) r l0 |> <| next := r + 1 |>)) with (mgrs s). rewrite Hm.
    rewrite mgrs_setm, aget_aset_same. discriminate. }
  assert (Hs1 : aget (store s1) r <> None) by congruence.
  cbv zeta in *.
  destruct Hc as [C1 [C2 [C3 C4]]].
  (* refused or consumed at once: FreeLock; RemoveLockManager *)
  assert (Hfree : forall s2 f, J2x (Some k) s2 -> KHr k s2 r -> J2 (bump f (remove_mgr_if_unref (free_lock s2 r) k))).
  { intros s2 f J2' K2. apply J2x_bump. apply J2x_remove_mgr_close. apply J2x_free_lock; auto. }
  assert (Kr1 : KHr k s1 r) by (intros l Hl; rewrite Hr1 in Hl; inv Hl; reflexivity).
  destruct ((negb waited || has (c_tflag c) TF_PRIORITY && check_wait_priority s1 k c) && do_lock s1 k r).
  - destruct (0 <? c_expried c).
    + (* a hold *)
      rewrite C1 in *. cbn [andb] in *.
      destruct (J2x_add_lock k s1 r Hs1 (ginv_KH_hq s1 g k G1) J1) as (A & _ & Hin). specialize (Hin Hm1).
      destruct (has_data_flag c); rewrite ?(process_data_core _ _ _ _ _ C4) in *; cbv iota beta in *; rewrite C3 in *;
        match goal with |- context [add_expried ?X ?kk ?rr] =>
          pose proof (lsm_add_expried X kk rr kk) as [L1 _]; pose proof (J2x_fst_add_expried (Some kk) X kk rr) as JA;
          destruct (add_expried X kk rr) as [s4 aev] end; cbn [fst] in *.
      all: apply (J2_close _ k);
        [apply J2x_bump; apply J2x_updl; apply JA; apply J2x_updm; [intros [? ? ? ? ? ? ?]; reflexivity|exact A]|].
      all: intros m' Hm'; eapply (ginv_mref_kq _ _ k m' r GE); [reflexivity|exact Hm'|].
      all: apply in_or_app; left.
      all: match type of Hm' with aget (mgrs ?S) ?kk = Some _ =>
             assert (E' : holders (getm S kk) = holders (getm s4 kk)) by (apply lsm_mgrs_eq; unfold bump, updc; cbn [mgrs]; mgrs_norm) end.
      all: rewrite (getm_some _ _ _ Hm') in E'; rewrite E', L1.
      all: match goal with |- In _ (holders (getm (updm ?X ?kk ?f) _)) =>
             assert (L2 : lsm X (updm X kk f)) by (apply lsm_updm; intros [? ? ? ? ? ? ?]; cbn; auto);
             destruct (L2 kk) as [L2' _]; rewrite L2'; exact Hin end.
    + (* Expried = 0 *)
      destruct (has_data_flag c).
      * rewrite (process_data_core _ _ _ _ _ C4) in *. cbv iota beta in *.
        destruct (_ && _).
        -- destruct (push_lock_aof s1 k r 0) as [s2 aev] eqn:E2. cbn [fst].
           apply Hfree; [eapply J2x_push_lock_aof; eauto|].
           destruct (push_lock_aof_ok s1 g k r 0 G1) as [_ S2]. rewrite E2 in S2. cbn [fst] in S2.
           intros l2 Hl2. destruct (sim_stored s1 s2 r l0 S2 Hr1) as [l2' [Hr2 Hs2]]. rewrite Hr2 in Hl2. inv Hl2. rewrite Hs2. reflexivity.
        -- cbn [fst]. apply Hfree; auto.
      * cbn [fst]. apply Hfree; auto.
  - destruct ((0 <? c_timeout c) && (negb (has (c_tflag c) TF_TIMEOUT_WHEN_DATA) || match data_of s1 k with None => true | Some _ => false end)).
    + (* queued *)
      rewrite C2 in *. cbn [fst] in *.
      destruct (J2x_add_wait_lock k s1 r (ginv_KH_wq s1 g k G1) J1) as (A & _ & Hin). specialize (Hin Hm1).
      apply (J2_close _ k); [apply J2x_bump; apply J2x_updl; apply J2x_add_timeout; exact A|].
      intros m' Hm'. eapply (ginv_mref_kq _ _ k m' r GE); [reflexivity|exact Hm'|]. apply in_or_app. right.
      match type of Hm' with aget (mgrs ?S) k = Some _ =>
        assert (E' : m_wq (getm S k) = m_wq (getm (add_wait_lock s1 k r) k)) end.
      { match goal with |- m_wq (getm ?S k) = _ => transitivity (m_wq (getm (add_timeout (add_wait_lock s1 k r) r) k)) end.
        - apply lsm_mgrs_eq. unfold bump, updc. cbn [mgrs]. mgrs_norm.
        - apply lsm_add_timeout. }
      rewrite (getm_some _ _ _ Hm') in E'. rewrite E'. exact Hin.
    + (* refused at once *)
      cbn [fst].
      apply J2x_remove_mgr_close. apply J2x_free_lock; auto.
Qed.

Lemma lock_step_J2 s xt xe conn c :
  GInv s (gk xt xe (c_key c)) -> cmd_core c -> next s < MAXREC -> J2 s -> J2 (fst (fst (lock_step s conn c))).
Proof.
  intros G Hc Hb HJ. rewrite lock_step_eq. cbv zeta. set (k := c_key c) in *.
  destruct (ls_pre s conn c k); [exact HJ|].
  assert (Hmgr : GInv (ls_mgr s k) (gk xt xe k) /\ next (ls_mgr s k) = next s /\ J2x (Some k) (ls_mgr s k)
                 /\ exists m, aget (mgrs (ls_mgr s k)) k = Some m /\ (aget (mgrs s) k = None -> m = new_mgr)).
  { unfold ls_mgr. destruct (aget (mgrs s) k) as [m|] eqn:Hm.
    - split; [auto|]. split; [auto|]. split; [apply J2x_weaken; auto|]. exists m. split; [auto|discriminate].
    - split; [apply new_mgr_ginv; auto|]. split; [reflexivity|]. split; [apply J2x_bump, J2x_setm_K, J2x_weaken; auto|].
      exists new_mgr. split; [|auto]. change (mgrs (bump _ (setm s k new_mgr))) with (aset (mgrs s) k new_mgr). apply aget_aset_same. }
  destruct Hmgr as [G1 [N1 [J1 [m [Hm Hnew]]]]]. set (s1 := ls_mgr s k) in *.
  destruct (negb (leader s1) && negb (has (c_flag c) LOCK_FLAG_FROM_AOF)).
  - cbn [fst]. apply J2x_remove_mgr_close. exact J1.
  - rewrite (getm_some _ _ _ Hm).
    assert (Hb1 : next s1 < MAXREC) by (rewrite N1; auto).
    pose proof (ls_held_ginv s1 xt xe conn c k m G1 Hm Hc Hb1) as P.
    destruct (ls_held s1 conn c k m) as [[[res|] c'] w] eqn:Eh.
    + (* the manager existed before: nothing is freed *)
      destruct (aget (mgrs s) k) as [m0|] eqn:Hm0.
      * assert (Es : s1 = s) by (unfold s1, ls_mgr; rewrite Hm0; reflexivity).
        rewrite Es in Eh. apply (J2x_ls_held _ _ _ _ _ _ _ _ _ Eh HJ).
      * exfalso. rewrite (Hnew eq_refl) in Eh. apply (ls_held_new_mgr _ _ _ _ _ _ _ Eh).
    + apply (ls_tail_J2 s1 xt xe conn c' k w m G1 P Hm Hb1 J1).
Qed.
