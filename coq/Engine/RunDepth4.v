(* Depth arithmetic of re-entrant holds (property C02), part 4: the local theorems of RunDepth2/3 with their side
   conditions discharged from the reachability invariant `Inv` (InvDef.v), and for the states reached by runs of the
   core subset (`inv_core`). *)
From Coq Require Import String ZifyN ZifyBool ZifyNat.
From Slock Require Import Engine.Types Engine.Queues Engine.Timers Engine.Engine Engine.Engine2 Engine.LocalBase
  Engine.InvDef Engine.InvBase Engine.InvPrims Engine.InvSteps Engine.InvLockDefs Engine.InvLock Engine.InvUnlock
  Engine.InvMain Engine.InvNext Engine.InvProps Engine.RunDepth Engine.RunDepth2 Engine.RunDepth3.
Open Scope N_scope.

(* ------------------------------------------------------------------ what the invariant says about a hold the lookup finds *)
Lemma inv_found s k m id r : Inv s -> aget (mgrs s) k = Some m -> get_locked_lock s m id = Some r ->
  exists l, aget (store s) r = Some l /\ l_key l = k /\ 0 < l_locked l /\ c_lockid (l_cmd l) = id /\ In r (holders m)
            /\ l_ack l = 255 /\ l_locked l <= 255 /\ l_locked l <= m_locked m /\ m_locked m < 4294967296
            /\ l_timeouted l = true.
Proof.
  intros G Hm Hg. destruct (inv_lookup_sound s G k m id r Hm Hg) as (l & Hr & Hk & Hd & Hid & Hin).
  exists l. repeat split; auto.
  - apply (ro_ack _ _ _ _ (gi_rec _ _ G r l Hr)).
  - apply (ro_depth _ _ _ _ (gi_rec _ _ G r l Hr)).
  - pose proof (inv_locked_is_sum s G k) as S. rewrite (getm_some _ _ _ Hm) in S. rewrite S.
    pose proof (sumdepth_ge s r (holders m) Hin) as P. rewrite (getl_some _ _ _ Hr) in P. exact P.
  - apply (inv_holders_wf s G k m Hm).
  - apply (inv_no_hold_lost s G r l Hr Hd).
Qed.

Lemma inv_unlock_step s conn c : Inv s -> c_data c = None -> Inv (fst (fst (unlock_step s conn c))).
Proof.
  intros G Hc. destruct (unlock_step_ginv s [] [] conn c (inv_gk s (c_key c) G) Hc) as [R _].
  exact (gk_inv _ _ R).
Qed.
Lemma inv_lock_step s conn c : Inv s -> cmd_core c -> next s < MAXREC -> Inv (fst (fst (lock_step s conn c))).
Proof.
  intros G Hc Hb. destruct (lock_step_ginv s [] [] conn c (inv_gk s (c_key c) G) Hc Hb) as [R _].
  exact (gk_inv _ _ R).
Qed.

(* ------------------------------------------------------------------ (i) one level *)
Theorem inv_unlock_one_level s conn c m r l s' ev w :
  Inv s -> unlock_step s conn c = (s', ev, w) ->
  aget (mgrs s) (c_key c) = Some m ->
  negb (leader s) && negb (has (c_flag c) UNLOCK_FLAG_FROM_AOF) = false ->
  get_locked_lock s m (c_lockid c) = Some r -> aget (store s) r = Some l ->
  1 < l_locked l -> 0 < c_rcount c -> has (c_tflag c) TF_PRIORITY = false -> c_data c = None ->
  Inv s'
  /\ (exists l', aget (store s') r = Some l' /\ l_locked l' = l_locked l - 1 /\ l_key l' = c_key c
                 /\ l_cmd l' = l_cmd l /\ c_lockid (l_cmd l') = c_lockid c /\ l_ack l' = 255)
  /\ (forall r', r' <> r -> aget (store s') r' = aget (store s) r')
  /\ (exists m', aget (mgrs s') (c_key c) = Some m' /\ m_locked m' = m_locked m - 1 /\ 1 <= m_locked m
                 /\ holders m' = holders m /\ In r (holders m') /\ m_wq m' = m_wq m
                 /\ get_locked_lock s' m' (c_lockid c) = Some r)
  /\ (forall k', k' <> c_key c -> aget (mgrs s') k' = aget (mgrs s) k')
  /\ (exists aev, only_aof aev
        /\ ev = [ERelease (c_key c) r 1] ++ aev
                ++ [EReply conn (c_req c) R_SUCCED (u16 (m_locked m - 1)) (l_locked l - 1) (c_lockid c) (c_count c)
                           (c_rcount c) (data_of s (c_key c))])
  /\ w = Some (mkWake (c_key c) (Some conn)).
Proof.
  intros G H Hm Hl Hg Hr Hd Hrc Hpr Hdat.
  destruct (inv_found s _ m _ r G Hm Hg) as (l0 & Hr0 & Hk & Hd0 & Hid & Hin & Hack & Hd255 & Hle & Hb & Ht).
  rewrite Hr in Hr0. inv Hr0.
  destruct (unlock_one_level s conn c m r l0 s' ev w H Hm Hl Hg Hr Hack Hd Hd255 Hle Hb Hrc Hpr Hdat)
    as ((l' & A1 & A2 & A3 & A4 & A5) & B & (m' & C1 & C2 & C3 & C4 & C5 & C6 & C7) & D & E & F).
  split; [|split; [|split; [exact B|split; [|split; [exact D|split; [exact E|exact F]]]]]].
  - pose proof (inv_unlock_step s conn c G Hdat) as P. rewrite H in P. exact P.
  - exists l'. repeat split; auto; congruence.
  - exists m'. destruct (holders_eq m m' C3 C4) as (Hh & _).
    repeat split; auto; try lia; try congruence; try (apply m_wq_eq; auto); try (rewrite C7; exact Hg).
Qed.

(* ------------------------------------------------------------------ (ii) the hold ends *)
Theorem inv_unlock_full_release s conn c m r l s' ev w :
  Inv s -> unlock_step s conn c = (s', ev, w) ->
  aget (mgrs s) (c_key c) = Some m ->
  negb (leader s) && negb (has (c_flag c) UNLOCK_FLAG_FROM_AOF) = false ->
  get_locked_lock s m (c_lockid c) = Some r -> aget (store s) r = Some l ->
  (l_locked l = 1 \/ c_rcount c = 0 \/ has (c_tflag c) TF_PRIORITY = true) -> c_data c = None ->
  Inv s'
  /\ (forall l', aget (store s') r = Some l' -> l_locked l' = 0)
  /\ (forall k' m' id, aget (mgrs s') k' = Some m' -> get_locked_lock s' m' id <> Some r)
  /\ (forall r' l', r' <> r -> aget (store s') r' = Some l' ->
        exists l0, aget (store s) r' = Some l0 /\ l_locked l' = l_locked l0 /\ l_key l' = l_key l0
                   /\ l_cmd l' = l_cmd l0 /\ l_ack l' = l_ack l0)
  /\ (forall m', aget (mgrs s') (c_key c) = Some m' -> m_locked m' = m_locked m - l_locked l /\ l_locked l <= m_locked m)
  /\ (forall k' m', k' <> c_key c -> aget (mgrs s') k' = Some m' ->
        exists m0, aget (mgrs s) k' = Some m0 /\ m_locked m' = m_locked m0)
  /\ (exists aev, only_aof aev
        /\ ev = [ERelease (c_key c) r (l_locked l)] ++ aev
                ++ [EReply conn (c_req c) R_SUCCED (u16 (m_locked (getm s' (c_key c)))) 0 (c_lockid c) (c_count c)
                           (c_rcount c) (data_of s (c_key c))])
  /\ w = Some (mkWake (c_key c) (Some conn)).
Proof.
  intros G H Hm Hl Hg Hr Hc Hdat.
  destruct (inv_found s _ m _ r G Hm Hg) as (l0 & Hr0 & Hk & Hd0 & Hid & Hin & Hack & Hd255 & Hle & Hb & Ht).
  rewrite Hr in Hr0. inv Hr0.
  destruct (unlock_full_release s conn c m r l0 s' ev w H Hm Hl Hg Hr Hack Hd0 Hc Hle Hb Hdat)
    as (A & B & C & D & E & F).
  assert (G' : Inv s') by (pose proof (inv_unlock_step s conn c G Hdat) as P; rewrite H in P; exact P).
  split; [exact G'|]. split; [exact A|]. split; [|split; [exact B|split; [|split; [exact D|split; [exact E|exact F]]]]].
  - intros k' m' id Hm' Hg'. destruct (inv_lookup_sound s' G' k' m' id r Hm' Hg') as (l' & Hr' & _ & Hd' & _).
    rewrite (A l' Hr') in Hd'. lia.
  - intros m' Hm'. split; [apply C; auto|exact Hle].
Qed.

(* ------------------------------------------------------------------ (iii) Lock by the holder *)
Theorem inv_relock_new_level s conn c m r l s' ev w :
  Inv s -> next s < MAXREC -> lock_step s conn c = (s', ev, w) ->
  has (c_flag c) LOCK_FLAG_CONCURRENT_CHECK = false ->
  aget (mgrs s) (c_key c) = Some m ->
  negb (leader s) && negb (has (c_flag c) LOCK_FLAG_FROM_AOF) = false ->
  has (c_flag c) LOCK_FLAG_SHOW = false -> has (c_flag c) LOCK_FLAG_UPDATE = false ->
  get_locked_lock s m (c_lockid c) = Some r -> aget (store s) r = Some l ->
  l_locked l < 255 -> l_locked l <= c_rcount c -> has (c_tflag c) TF_PRIORITY = false ->
  c_expried c <> 0 -> cmd_core c ->
  Inv s'
  /\ (exists l', aget (store s') r = Some l' /\ l_locked l' = l_locked l + 1 /\ l_key l' = c_key c
                 /\ l_cmd l' = c /\ l_ack l' = 255)
  /\ (forall r', r' <> r -> aget (store s') r' = aget (store s) r')
  /\ (exists m', aget (mgrs s') (c_key c) = Some m' /\ m_locked m' = m_locked m + 1 /\ m_locked m + 1 < 4294967296
                 /\ holders m' = holders m /\ In r (holders m') /\ m_wq m' = m_wq m)
  /\ (forall k', k' <> c_key c -> aget (mgrs s') k' = aget (mgrs s) k')
  /\ (exists aev, Forall quiet aev
        /\ ev = [EGrant (c_key c) r false (m_locked m) (cur_count s (c_key c)) (c_count c)] ++ aev
                ++ [EReply conn (c_req c) R_SUCCED (u16 (m_locked m + 1)) (l_locked l + 1) (c_lockid c) (c_count c)
                           (c_rcount c) (data_of s (c_key c))])
  /\ w = Some (mkWake (c_key c) (Some conn)).
Proof.
  intros G Hnx H Hcc Hm Hl Hshow Hupd Hg Hr H1 H2 H3 He Hcore.
  destruct (inv_found s _ m _ r G Hm Hg) as (l0 & Hr0 & Hk & Hd0 & Hid & Hin & Hack & Hd255 & Hle & Hb & Ht).
  rewrite Hr in Hr0. inv Hr0.
  pose proof (mlocked_bound s [] [] (c_key c) m (inv_gk s _ G) Hm Hnx) as Hmb.
  assert (Hpos : 0 < m_locked m) by lia.
  assert (Hdat : c_data c = None) by apply Hcore.
  destruct (relock_new_level s conn c m r l0 s' ev w H Hcc Hm Hl Hpos Hshow Hupd Hg Hr Hack H1 H2 H3 He Hdat Hmb)
    as ((l' & A1 & A2 & A3 & A4 & A5) & B & (m' & C1 & C2 & C3 & C4 & C5 & C6) & D & E & F).
  split; [|split; [|split; [exact B|split; [|split; [exact D|split; [exact E|exact F]]]]]].
  - pose proof (inv_lock_step s conn c G Hcore Hnx) as P. rewrite H in P. exact P.
  - exists l'. repeat split; auto; congruence.
  - exists m'. destruct (holders_eq m m' C3 C4) as (Hh & _).
    repeat split; auto; try congruence. apply m_wq_eq; auto.
Qed.

Theorem inv_relock_probe s conn c m r l :
  Inv s ->
  has (c_flag c) LOCK_FLAG_CONCURRENT_CHECK = false ->
  aget (mgrs s) (c_key c) = Some m ->
  negb (leader s) && negb (has (c_flag c) LOCK_FLAG_FROM_AOF) = false ->
  has (c_flag c) LOCK_FLAG_SHOW = false -> has (c_flag c) LOCK_FLAG_UPDATE = false ->
  get_locked_lock s m (c_lockid c) = Some r -> aget (store s) r = Some l ->
  l_locked l < 255 -> l_locked l <= c_rcount c -> has (c_tflag c) TF_PRIORITY = false ->
  c_expried c = 0 ->
  lock_step s conn c =
    (s, [EReply conn (c_req c) R_SUCCED (u16 (m_locked m)) (l_locked l) (c_lockid c) (c_count c) (c_rcount c)
                (data_of s (c_key c))], None).
Proof.
  intros G Hcc Hm Hl Hshow Hupd Hg Hr H1 H2 H3 He.
  destruct (inv_found s _ m _ r G Hm Hg) as (l0 & Hr0 & Hk & Hd0 & Hid & Hin & Hack & Hd255 & Hle & Hb & Ht).
  rewrite Hr in Hr0. inv Hr0.
  apply (relock_probe s conn c m r l0); auto. lia.
Qed.

Theorem inv_relock_refused s conn c m r l :
  Inv s ->
  has (c_flag c) LOCK_FLAG_CONCURRENT_CHECK = false ->
  aget (mgrs s) (c_key c) = Some m ->
  negb (leader s) && negb (has (c_flag c) LOCK_FLAG_FROM_AOF) = false ->
  has (c_flag c) LOCK_FLAG_SHOW = false -> has (c_flag c) LOCK_FLAG_UPDATE = false ->
  get_locked_lock s m (c_lockid c) = Some r -> aget (store s) r = Some l ->
  (l_locked l = 255 \/ c_rcount c < l_locked l \/ has (c_tflag c) TF_PRIORITY = true) ->
  lock_step s conn c =
    (s, [EReply conn (c_req c) R_LOCKED_ERROR (u16 (m_locked m)) (l_locked l) (c_lockid c) (c_count c) (c_rcount c)
                (data_of s (c_key c))], None).
Proof.
  intros G Hcc Hm Hl Hshow Hupd Hg Hr Hc.
  destruct (inv_found s _ m _ r G Hm Hg) as (l0 & Hr0 & Hk & Hd0 & Hid & Hin & Hack & Hd255 & Hle & Hb & Ht).
  rewrite Hr in Hr0. inv Hr0.
  apply (relock_refused s conn c m r l0); auto; [lia|]. destruct Hc as [Hc|[Hc|Hc]]; auto. left. lia.
Qed.

Theorem inv_relock_new_level_iff s conn c m r l s' ev w :
  Inv s -> next s < MAXREC -> lock_step s conn c = (s', ev, w) ->
  has (c_flag c) LOCK_FLAG_CONCURRENT_CHECK = false ->
  aget (mgrs s) (c_key c) = Some m ->
  negb (leader s) && negb (has (c_flag c) LOCK_FLAG_FROM_AOF) = false ->
  has (c_flag c) LOCK_FLAG_SHOW = false -> has (c_flag c) LOCK_FLAG_UPDATE = false ->
  get_locked_lock s m (c_lockid c) = Some r -> aget (store s) r = Some l -> c_data c = None ->
  ((exists l', aget (store s') r = Some l' /\ l_locked l' = l_locked l + 1)
   <-> (l_locked l < 255 /\ l_locked l <= c_rcount c /\ has (c_tflag c) TF_PRIORITY = false /\ c_expried c <> 0)).
Proof.
  intros G Hnx H Hcc Hm Hl Hshow Hupd Hg Hr Hdat.
  destruct (inv_found s _ m _ r G Hm Hg) as (l0 & Hr0 & Hk & Hd0 & Hid & Hin & Hack & Hd255 & Hle & Hb & Ht).
  rewrite Hr in Hr0. inv Hr0.
  pose proof (mlocked_bound s [] [] (c_key c) m (inv_gk s _ G) Hm Hnx) as Hmb.
  apply (relock_new_level_iff s conn c m r l0 s' ev w); auto. lia.
Qed.

(* ------------------------------------------------------------------ (iv) a LockId that holds nothing *)
(* every hold of the old state (any key) that is still stored has its depth *)
Theorem inv_lock_unfound_frame s conn c s' ev w :
  Inv s -> lock_step s conn c = (s', ev, w) ->
  has (c_flag c) LOCK_FLAG_SHOW = false ->
  (forall m, aget (mgrs s) (c_key c) = Some m -> get_locked_lock s m (c_lockid c) = None) ->
  (forall r l l', aget (store s) r = Some l -> aget (store s') r = Some l' ->
     l_locked l' = l_locked l /\ l_key l' = l_key l /\ l_cmd l' = l_cmd l /\ l_ack l' = l_ack l)
  /\ (forall r, aget (store s) r = None -> r <> next s -> aget (store s') r = None)
  /\ aget (store s) (next s) = None
  /\ (forall k' m', k' <> c_key c -> aget (mgrs s') k' = Some m' ->
        exists m0, aget (mgrs s) k' = Some m0 /\ m_locked m' = m_locked m0).
Proof.
  intros G H Hs Hn. destruct (lock_unfound_frame s conn c s' ev w H Hs Hn) as (A & B).
  assert (Hfresh : forall r l, aget (store s) r = Some l -> r <> next s).
  { intros r l Hr. pose proof (ro_lt _ _ _ _ (gi_rec _ _ G r l Hr)). lia. }
  split; [|split; [|split; [|exact B]]].
  - intros r l l' Hr Hr'. destruct (A r l' (Hfresh r l Hr) Hr') as (l0 & H0 & E). rewrite Hr in H0. inv H0. exact E.
  - intros r Hr Hne. destruct (aget (store s') r) as [l'|] eqn:E; auto.
    destruct (A r l' Hne E) as (l0 & H0 & _). congruence.
  - destruct (aget (store s) (next s)) as [l|] eqn:E; auto. exfalso. apply (Hfresh _ _ E). reflexivity.
Qed.

Theorem inv_unlock_unfound_frame s conn c s' ev w :
  Inv s -> unlock_step s conn c = (s', ev, w) ->
  has (c_flag c) UNLOCK_FLAG_FIRST = false ->
  (forall m, aget (mgrs s) (c_key c) = Some m -> get_locked_lock s m (c_lockid c) = None) ->
  (forall r l l', aget (store s) r = Some l -> 0 < l_locked l -> aget (store s') r = Some l' ->
     l_locked l' = l_locked l /\ l_key l' = l_key l /\ l_cmd l' = l_cmd l /\ l_ack l' = l_ack l)
  /\ (forall r, aget (store s) r = None -> aget (store s') r = None)
  /\ (forall k' m', k' <> c_key c -> aget (mgrs s') k' = Some m' ->
        exists m0, aget (mgrs s) k' = Some m0 /\ m_locked m' = m_locked m0).
Proof.
  intros G H Hf Hn. destruct (unlock_unfound_frame s conn c s' ev w H Hf Hn) as (A & B).
  split; [|split; [|exact B]].
  - intros r l l' Hr Hd Hr'. destruct (A r l' Hr') as (l0 & H0 & [[_ E]|E]); rewrite Hr in H0; inv H0; auto.
    destruct (inv_no_hold_lost s G r l0 Hr Hd) as (_ & _ & Ht). congruence.
  - intros r Hr. destruct (aget (store s') r) as [l'|] eqn:E; auto.
    destruct (A r l' E) as (l0 & H0 & _). congruence.
Qed.

Theorem inv_unlock_first_frame s conn c m cr s' ev w :
  Inv s -> unlock_step s conn c = (s', ev, w) ->
  aget (mgrs s) (c_key c) = Some m -> 0 < m_locked m -> m_cur m = Some cr ->
  has (c_flag c) UNLOCK_FLAG_FIRST = true ->
  get_locked_lock s m (c_lockid c) = None ->
  (forall r l l', r <> cr -> aget (store s) r = Some l -> aget (store s') r = Some l' ->
     l_locked l' = l_locked l /\ l_key l' = l_key l /\ l_cmd l' = l_cmd l /\ l_ack l' = l_ack l)
  /\ (forall r, aget (store s) r = None -> aget (store s') r = None)
  /\ (forall k' m', k' <> c_key c -> aget (mgrs s') k' = Some m' ->
        exists m0, aget (mgrs s) k' = Some m0 /\ m_locked m' = m_locked m0).
Proof.
  intros G H Hm Hp Hc Hf Hn. destruct (unlock_first_frame s conn c m s' ev w H Hm Hp Hf Hn) as (A & B).
  assert (Hcr : exists l, aget (store s) cr = Some l).
  { destruct (inv_holders_wf s G _ m Hm) as (W & _). destruct (W cr) as (l & Hl & _); eauto.
    unfold holders, cur_list. rewrite Hc. simpl. auto. }
  split; [|split; [|exact B]].
  - intros r l l' Hne Hr Hr'. destruct (A r l') as (l0 & H0 & E); auto; [congruence|].
    rewrite Hr in H0. inv H0. exact E.
  - intros r Hr. destruct (aget (store s') r) as [l'|] eqn:E; auto.
    destruct (N.eq_dec r cr) as [->|Hne]; [destruct Hcr; congruence|].
    destruct (A r l') as (l0 & H0 & _); auto; congruence.
Qed.

(* ------------------------------------------------------------------ reachable states *)
Lemma next_run_le acts : forall s, Forall (fun a => core_action a = true) acts ->
  next (fst (run s acts)) <= next s + N.of_nat (length acts).
Proof.
  induction acts as [|a rest IH]; intros s Hc; [simpl; lia|].
  rewrite run_fst_cons. inversion Hc; subst. specialize (IH (fst (step s a)) H2).
  pose proof (nx_step_le s a H1). simpl length. lia.
Qed.
Lemma core_next_bound t0 a acts : core acts -> next (fst (run (init_db t0 a) acts)) < MAXREC.
Proof.
  intros [H1 H2]. pose proof (next_run_le acts (init_db t0 a) H1) as P.
  change (next (init_db t0 a)) with 1 in P. lia.
Qed.

Section Reach.
  Variables (t0 : Z) (a : N) (acts : list action).
  Hypothesis Hcore : core acts.
  Let s := fst (run (init_db t0 a) acts).
  Let G : Inv s := inv_core t0 a acts Hcore.
  Let B : next s < MAXREC := core_next_bound t0 a acts Hcore.

  Lemma reach_unlock_one_level : forall conn c m r l s' ev w,
    unlock_step s conn c = (s', ev, w) ->
    aget (mgrs s) (c_key c) = Some m ->
    negb (leader s) && negb (has (c_flag c) UNLOCK_FLAG_FROM_AOF) = false ->
    get_locked_lock s m (c_lockid c) = Some r -> aget (store s) r = Some l ->
    1 < l_locked l -> 0 < c_rcount c -> has (c_tflag c) TF_PRIORITY = false -> c_data c = None ->
    Inv s'
    /\ (exists l', aget (store s') r = Some l' /\ l_locked l' = l_locked l - 1 /\ l_key l' = c_key c
                   /\ l_cmd l' = l_cmd l /\ c_lockid (l_cmd l') = c_lockid c /\ l_ack l' = 255)
    /\ (forall r', r' <> r -> aget (store s') r' = aget (store s) r')
    /\ (exists m', aget (mgrs s') (c_key c) = Some m' /\ m_locked m' = m_locked m - 1 /\ 1 <= m_locked m
                   /\ holders m' = holders m /\ In r (holders m') /\ m_wq m' = m_wq m
                   /\ get_locked_lock s' m' (c_lockid c) = Some r)
    /\ (forall k', k' <> c_key c -> aget (mgrs s') k' = aget (mgrs s) k')
    /\ (exists aev, only_aof aev
          /\ ev = [ERelease (c_key c) r 1] ++ aev
                  ++ [EReply conn (c_req c) R_SUCCED (u16 (m_locked m - 1)) (l_locked l - 1) (c_lockid c) (c_count c)
                             (c_rcount c) (data_of s (c_key c))])
    /\ w = Some (mkWake (c_key c) (Some conn)).
  Proof. intros conn c m r l s' ev w. exact (inv_unlock_one_level s conn c m r l s' ev w G). Qed.

  Lemma reach_unlock_full_release : forall conn c m r l s' ev w,
    unlock_step s conn c = (s', ev, w) ->
    aget (mgrs s) (c_key c) = Some m ->
    negb (leader s) && negb (has (c_flag c) UNLOCK_FLAG_FROM_AOF) = false ->
    get_locked_lock s m (c_lockid c) = Some r -> aget (store s) r = Some l ->
    (l_locked l = 1 \/ c_rcount c = 0 \/ has (c_tflag c) TF_PRIORITY = true) -> c_data c = None ->
    Inv s'
    /\ (forall l', aget (store s') r = Some l' -> l_locked l' = 0)
    /\ (forall k' m' id, aget (mgrs s') k' = Some m' -> get_locked_lock s' m' id <> Some r)
    /\ (forall r' l', r' <> r -> aget (store s') r' = Some l' ->
          exists l0, aget (store s) r' = Some l0 /\ l_locked l' = l_locked l0 /\ l_key l' = l_key l0
                     /\ l_cmd l' = l_cmd l0 /\ l_ack l' = l_ack l0)
    /\ (forall m', aget (mgrs s') (c_key c) = Some m' -> m_locked m' = m_locked m - l_locked l /\ l_locked l <= m_locked m)
    /\ (forall k' m', k' <> c_key c -> aget (mgrs s') k' = Some m' ->
          exists m0, aget (mgrs s) k' = Some m0 /\ m_locked m' = m_locked m0)
    /\ (exists aev, only_aof aev
          /\ ev = [ERelease (c_key c) r (l_locked l)] ++ aev
                  ++ [EReply conn (c_req c) R_SUCCED (u16 (m_locked (getm s' (c_key c)))) 0 (c_lockid c) (c_count c)
                             (c_rcount c) (data_of s (c_key c))])
    /\ w = Some (mkWake (c_key c) (Some conn)).
  Proof. intros conn c m r l s' ev w. exact (inv_unlock_full_release s conn c m r l s' ev w G). Qed.

  Lemma reach_relock_new_level : forall conn c m r l s' ev w,
    lock_step s conn c = (s', ev, w) ->
    has (c_flag c) LOCK_FLAG_CONCURRENT_CHECK = false ->
    aget (mgrs s) (c_key c) = Some m ->
    negb (leader s) && negb (has (c_flag c) LOCK_FLAG_FROM_AOF) = false ->
    has (c_flag c) LOCK_FLAG_SHOW = false -> has (c_flag c) LOCK_FLAG_UPDATE = false ->
    get_locked_lock s m (c_lockid c) = Some r -> aget (store s) r = Some l ->
    l_locked l < 255 -> l_locked l <= c_rcount c -> has (c_tflag c) TF_PRIORITY = false ->
    c_expried c <> 0 -> cmd_core c ->
    Inv s'
    /\ (exists l', aget (store s') r = Some l' /\ l_locked l' = l_locked l + 1 /\ l_key l' = c_key c
                   /\ l_cmd l' = c /\ l_ack l' = 255)
    /\ (forall r', r' <> r -> aget (store s') r' = aget (store s) r')
    /\ (exists m', aget (mgrs s') (c_key c) = Some m' /\ m_locked m' = m_locked m + 1 /\ m_locked m + 1 < 4294967296
                   /\ holders m' = holders m /\ In r (holders m') /\ m_wq m' = m_wq m)
    /\ (forall k', k' <> c_key c -> aget (mgrs s') k' = aget (mgrs s) k')
    /\ (exists aev, Forall quiet aev
          /\ ev = [EGrant (c_key c) r false (m_locked m) (cur_count s (c_key c)) (c_count c)] ++ aev
                  ++ [EReply conn (c_req c) R_SUCCED (u16 (m_locked m + 1)) (l_locked l + 1) (c_lockid c) (c_count c)
                             (c_rcount c) (data_of s (c_key c))])
    /\ w = Some (mkWake (c_key c) (Some conn)).
  Proof. intros conn c m r l s' ev w. exact (inv_relock_new_level s conn c m r l s' ev w G B). Qed.

  Lemma reach_relock_probe : forall conn c m r l,
    has (c_flag c) LOCK_FLAG_CONCURRENT_CHECK = false ->
    aget (mgrs s) (c_key c) = Some m ->
    negb (leader s) && negb (has (c_flag c) LOCK_FLAG_FROM_AOF) = false ->
    has (c_flag c) LOCK_FLAG_SHOW = false -> has (c_flag c) LOCK_FLAG_UPDATE = false ->
    get_locked_lock s m (c_lockid c) = Some r -> aget (store s) r = Some l ->
    l_locked l < 255 -> l_locked l <= c_rcount c -> has (c_tflag c) TF_PRIORITY = false ->
    c_expried c = 0 ->
    lock_step s conn c =
      (s, [EReply conn (c_req c) R_SUCCED (u16 (m_locked m)) (l_locked l) (c_lockid c) (c_count c) (c_rcount c)
                  (data_of s (c_key c))], None).
  Proof. intros conn c m r l. exact (inv_relock_probe s conn c m r l G). Qed.

  Lemma reach_relock_refused : forall conn c m r l,
    has (c_flag c) LOCK_FLAG_CONCURRENT_CHECK = false ->
    aget (mgrs s) (c_key c) = Some m ->
    negb (leader s) && negb (has (c_flag c) LOCK_FLAG_FROM_AOF) = false ->
    has (c_flag c) LOCK_FLAG_SHOW = false -> has (c_flag c) LOCK_FLAG_UPDATE = false ->
    get_locked_lock s m (c_lockid c) = Some r -> aget (store s) r = Some l ->
    (l_locked l = 255 \/ c_rcount c < l_locked l \/ has (c_tflag c) TF_PRIORITY = true) ->
    lock_step s conn c =
      (s, [EReply conn (c_req c) R_LOCKED_ERROR (u16 (m_locked m)) (l_locked l) (c_lockid c) (c_count c) (c_rcount c)
                  (data_of s (c_key c))], None).
  Proof. intros conn c m r l. exact (inv_relock_refused s conn c m r l G). Qed.

  Lemma reach_relock_new_level_iff : forall conn c m r l s' ev w,
    lock_step s conn c = (s', ev, w) ->
    has (c_flag c) LOCK_FLAG_CONCURRENT_CHECK = false ->
    aget (mgrs s) (c_key c) = Some m ->
    negb (leader s) && negb (has (c_flag c) LOCK_FLAG_FROM_AOF) = false ->
    has (c_flag c) LOCK_FLAG_SHOW = false -> has (c_flag c) LOCK_FLAG_UPDATE = false ->
    get_locked_lock s m (c_lockid c) = Some r -> aget (store s) r = Some l -> c_data c = None ->
    ((exists l', aget (store s') r = Some l' /\ l_locked l' = l_locked l + 1)
     <-> (l_locked l < 255 /\ l_locked l <= c_rcount c /\ has (c_tflag c) TF_PRIORITY = false /\ c_expried c <> 0)).
  Proof. intros conn c m r l s' ev w. exact (inv_relock_new_level_iff s conn c m r l s' ev w G B). Qed.

  Lemma reach_lock_unfound_frame : forall conn c s' ev w,
    lock_step s conn c = (s', ev, w) ->
    has (c_flag c) LOCK_FLAG_SHOW = false ->
    (forall m, aget (mgrs s) (c_key c) = Some m -> get_locked_lock s m (c_lockid c) = None) ->
    (forall r l l', aget (store s) r = Some l -> aget (store s') r = Some l' ->
       l_locked l' = l_locked l /\ l_key l' = l_key l /\ l_cmd l' = l_cmd l /\ l_ack l' = l_ack l)
    /\ (forall r, aget (store s) r = None -> r <> next s -> aget (store s') r = None)
    /\ aget (store s) (next s) = None
    /\ (forall k' m', k' <> c_key c -> aget (mgrs s') k' = Some m' ->
          exists m0, aget (mgrs s) k' = Some m0 /\ m_locked m' = m_locked m0).
  Proof. intros conn c s' ev w. exact (inv_lock_unfound_frame s conn c s' ev w G). Qed.

  Lemma reach_unlock_unfound_frame : forall conn c s' ev w,
    unlock_step s conn c = (s', ev, w) ->
    has (c_flag c) UNLOCK_FLAG_FIRST = false ->
    (forall m, aget (mgrs s) (c_key c) = Some m -> get_locked_lock s m (c_lockid c) = None) ->
    (forall r l l', aget (store s) r = Some l -> 0 < l_locked l -> aget (store s') r = Some l' ->
       l_locked l' = l_locked l /\ l_key l' = l_key l /\ l_cmd l' = l_cmd l /\ l_ack l' = l_ack l)
    /\ (forall r, aget (store s) r = None -> aget (store s') r = None)
    /\ (forall k' m', k' <> c_key c -> aget (mgrs s') k' = Some m' ->
          exists m0, aget (mgrs s) k' = Some m0 /\ m_locked m' = m_locked m0).
  Proof. intros conn c s' ev w. exact (inv_unlock_unfound_frame s conn c s' ev w G). Qed.

  Lemma reach_unlock_first_frame : forall conn c m cr s' ev w,
    unlock_step s conn c = (s', ev, w) ->
    aget (mgrs s) (c_key c) = Some m -> 0 < m_locked m -> m_cur m = Some cr ->
    has (c_flag c) UNLOCK_FLAG_FIRST = true ->
    get_locked_lock s m (c_lockid c) = None ->
    (forall r l l', r <> cr -> aget (store s) r = Some l -> aget (store s') r = Some l' ->
       l_locked l' = l_locked l /\ l_key l' = l_key l /\ l_cmd l' = l_cmd l /\ l_ack l' = l_ack l)
    /\ (forall r, aget (store s) r = None -> aget (store s') r = None)
    /\ (forall k' m', k' <> c_key c -> aget (mgrs s') k' = Some m' ->
          exists m0, aget (mgrs s) k' = Some m0 /\ m_locked m' = m_locked m0).
  Proof. intros conn c m cr s' ev w. exact (inv_unlock_first_frame s conn c m cr s' ev w G). Qed.
End Reach.

(* ------------------------------------------------------------------ example state for the non-vacuity examples:
   key 5 (Count 2): LockId 7 holds it at depth 3 (record 1, Rcount 3), LockId 8 at depth 1 (record 2); locked = 4 *)
Definition exd_lock (req id rc : N) : cmd := mkCmd true req 0 id 5 0 0 0 10 2 rc None.
Definition exd_hist : list action :=
  [AReq 1 (exd_lock 1 7 3); AReq 2 (exd_lock 2 8 0); AReq 1 (exd_lock 3 7 3); AReq 1 (exd_lock 4 7 3)].
Definition exd_state : db := fst (run (init_db 0 255) exd_hist).
Lemma exd_core : core exd_hist.
Proof. split; [repeat constructor|vm_compute; reflexivity]. Qed.
