(* C03, part 6 (completeness): preservation of the completeness invariant by every action of the core subset; theorems
   "every request is answered or still waiting" and "exactly one terminal reply at drained states". *)
From Coq Require Import String ZifyN ZifyBool ZifyNat.
From Slock Require Import Engine.Types Engine.Queues Engine.Timers Engine.Engine Engine.Engine2
  Engine.ReplyBase Engine.ReplyLocal Engine.ReplyInv Engine.ReplyLive Engine.ReplyCmpl.
Open Scope N_scope.

(* ------------------------------------------------------------------ deadness is monotone along the answered-steps *)
Lemma chg1_dmono s s' r (V : view -> Prop) x :
  chg1 s s' r V -> (forall v, V v -> v_to v = true) -> good s x -> good s' x.
Proof.
  intros C HV G. destruct (N.eq_dec x r) as [->|Hne].
  - split; [eapply chg1_dead; eauto|]. destruct G as [_ G]. assert (X := chg_n _ _ _ _ C). lia.
  - eapply offr_good; eauto. eapply chg1_offr; eauto.
Qed.

Lemma keepx_good s s' x : keepx s s' -> good s x -> good s' x.
Proof. intros K. eapply offr_good with (r := next s' + 1 + x); [apply keepx_offr; exact K|lia]. Qed.

Definition dmono (s s' : db) : Prop := forall x, good s x -> good s' x.

(* ------------------------------------------------------------------ wake-up pass *)
Lemma wake_iter_invl I H s w s' ev res :
  InvL I H s -> wake_iter s w = (s', ev, res) -> InvL I (H ++ rinfos ev) s' /\ dmono s s'.
Proof.
  unfold wake_iter. intros L E0. assert (Hd := inv_hdead _ _ _ (il_inv _ _ _ L)).
  assert (NOP : InvL I (H ++ []) s /\ dmono s s) by (rewrite app_nil_r; split; [auto|intros x; auto]).
  destruct (aget (mgrs s) (w_key w)) as [m|]; [|inv E0; exact NOP].
  destruct (negb (m_waited m)); [inv E0; exact NOP|].
  destruct (get_wait_lock s (w_key w)) as [s1 [r|]] eqn:G.
  - assert (K1 := get_wait_lock_keep _ _ _ _ G).
    assert (L1 : InvL I H s1).
    { eapply (invl_keep _ _ _ _ (fun _ => False) (fun _ => False) (fun _ => False)); eauto.
      - apply keep_keepx; auto.
      - eapply plx_get_wait_lock; eauto.
      - intros x []. - intros x []. - intros x []. }
    destruct (negb (do_lock s1 (w_key w) r)).
    { inv E0. cbn. rewrite app_nil_r. split; auto. intros x Gx. eapply good_keep; eauto. }
    destruct (wake_grant s1 (w_key w) r (w_conn w)) as [s2 ev2] eqn:G2. inv E0.
    assert (Lv := get_wait_lock_live _ _ _ _ G). assert (Hin := getl_live_in_store _ _ Lv).
    assert (W1 := il_inv _ _ _ L1).
    destruct (inv_rec _ _ _ W1 _ _ Hin) as [_ CF].
    destruct (wake_grant_sum _ _ _ _ _ _ G2 Lv CF) as [C R]. rewrite R.
    assert (P := wake_grant_pl (fun _ => False) _ _ _ _ _ _ G2 CF (inv_hdead _ _ _ W1)).
    assert (HVt : forall v, v_cmd v = l_cmd (getl s1 r) /\ v_conn v = l_conn (getl s1 r) /\ v_to v = true -> v_to v = true) by tauto.
    split.
    + apply (invl_answer I H s1 _ r (getl s1 r) _ R_SUCCED (eq r) (eq r) (fun _ => False) L1 Hin Lv C).
      * intros v (E1 & E2 & E3). repeat split; auto.
      * intro X; vm_compute in X; discriminate X.
      * exact P.
      * intros x <-. left. reflexivity.
      * intros x <-. split; [eapply chg1_dead; eauto|]. apply (inv_dom _ _ _ W1) in Hin. assert (X := chg_n _ _ _ _ C). lia.
      * intros x [].
    + intros x Gx. eapply chg1_dmono; eauto. eapply good_keep; eauto.
  - inv E0. cbn. rewrite app_nil_r.
    match goal with |- InvL _ _ ?X /\ _ => assert (K : keep s X) by (eapply keep_trans; [eapply get_wait_lock_keep; eauto|]; keep_x) end.
    split; [|intros x Gx; eapply good_keep; eauto].
    eapply (invl_keep _ _ _ _ (fun _ => False) (fun _ => False) (fun _ => False)); eauto.
    + apply keep_keepx; auto.
    + eapply plx_trans; [eapply plx_get_wait_lock; eauto|]. plx_x.
    + intros x []. + intros x []. + intros x [].
Qed.

Lemma dmono_trans s1 s2 s3 : dmono s1 s2 -> dmono s2 s3 -> dmono s1 s3.
Proof. intros A B x Gx. auto. Qed.

Lemma run_wake_invl fuel : forall I H s w s' ev,
  InvL I H s -> run_wake fuel s w = (s', ev) -> InvL I (H ++ rinfos ev) s' /\ dmono s s'.
Proof.
  induction fuel as [|f IH]; cbn; intros I H s w s' ev L E0.
  - inv E0. cbn. rewrite app_nil_r. split; auto. intros x; auto.
  - destruct (wake_iter s w) as [[s1 ev1] res] eqn:E1. destruct (wake_iter_invl _ _ _ _ _ _ _ L E1) as [L1 M1].
    destruct res; [inv E0; auto|].
    destruct (run_wake f s1 w) as [s2 ev2] eqn:E2. inv E0. rewrite rinfos_app, app_assoc.
    destruct (IH _ _ _ _ _ _ L1 E2) as [L2 M2]. split; auto. eapply dmono_trans; eauto.
Qed.

Lemma finish_invl I H s1 ev1 w s' ev :
  finish (s1, ev1, w) = (s', ev) -> exists ev2, ev = ev1 ++ ev2 /\ (InvL I H s1 -> InvL I (H ++ rinfos ev2) s' /\ dmono s1 s').
Proof.
  unfold finish. destruct w as [w|].
  - destruct (run_wake _ s1 w) as [s2 ev2] eqn:E0. intros X. inv X. exists ev2. split; auto.
    intros L. eapply run_wake_invl; eauto.
  - intros X. inv X. exists []. rewrite !app_nil_r. split; auto. intros L. split; auto. intros x; auto.
Qed.

(* ------------------------------------------------------------------ requests *)
Lemma lock_step_invl I H s conn c s1 ev1 w :
  InvL I H s -> fresh I (c_req c) -> core_cmd c -> lock_step s conn c = (s1, ev1, w) ->
  InvL (issue I conn (c_req c)) (H ++ rinfos ev1) s1.
Proof.
  intros L F CC E0. assert (W0 := il_inv _ _ _ L). assert (Hd := inv_hdead _ _ _ W0).
  assert (P := lock_step_pl _ _ _ _ _ _ E0 CC Hd).
  assert (Q := fun HR => lock_step_queued _ _ _ _ _ _ E0 CC HR (il_wok _ _ _ L)).
  apply lock_step_sum in E0; auto.
  assert (Habs : aget (store s) (next s) = None).
  { destruct (aget (store s) (next s)) eqn:E1; auto. apply (inv_dom _ _ _ W0) in E1. lia. }
  assert (HW : forall x, x = next s /\ next s < next s1 -> x < next s1) by (intros x [-> X]; exact X).
  destruct E0 as [(res & K & R & Hres)|[(r & c' & (Hr & Hlt) & Hq & Hc & C & R)|[(r & c' & (Hr & Hlt) & Hq & Hc & C & Hh & R & _)|(r & c' & res & Hr & Hq & Hc & C & R & Hres)]]]; rewrite R.
  - eapply invl_keep; [eapply invl_own; eauto|apply keep_keepx; exact K|exact P| | |]; auto.
    + intros x <-. apply dead_absent; auto.
    + intros x [[-> G]|Hx]; auto.
      split; [eapply dead_keep; [exact K|apply Hd; auto]|]. apply (inv_href _ _ _ W0) in Hx. assert (X := keep_n _ _ K). lia.
  - subst r. eapply invl_install_reply; eauto.
    + intros v ->. cbn. repeat split; auto; apply core_cmd_flags; auto.
    + intros l Hl. congruence.
    + intros x [[-> G]|Hx]; auto.
      eapply chg1_dmono; [exact C|intros v ->; reflexivity|]. split; [apply Hd; auto|]. apply (inv_href _ _ _ W0) in Hx. tauto.
  - subst r. rewrite app_nil_r.
    assert (HV : forall v, v = (c', conn, false, true) -> c_req (v_cmd v) = c_req c /\ core_flags (v_cmd v) /\ v_conn v = conn /\ v_ex v = true)
      by (intros v ->; cbn; repeat split; auto; apply core_cmd_flags; auto).
    assert (Hex : exists l', aget (store s1) (next s) = Some l' /\ l_ack l' = 255 /\ c_req (l_cmd l') = c_req c /\ l_timeouted l' = false)
      by (destruct (Q R) as (l' & A1 & A2 & A3 & A4); exists l'; auto).
    apply (invl_install_wait I H s s1 (next s) _ conn (c_req c) _ _ _ L F C Hlt (N.le_refl _) Hh HV Hex P).
    + intros x <-. left. reflexivity.
    + intros x [[-> G]|Hx]; auto.
      eapply offr_good; [eapply chg1_offr; exact C| |].
      * apply (inv_href _ _ _ W0) in Hx. lia.
      * split; [apply Hd; auto|]. apply (inv_href _ _ _ W0) in Hx. tauto.
    + exact HW.
  - destruct (inv_href _ _ _ W0 _ Hr) as [Hlt Hto]. eapply invl_install_reply; eauto.
    + assert (Hn := chg_n _ _ _ _ C). lia.
    + intros v (E1 & E2 & E3). rewrite E1. repeat split; auto; try apply core_cmd_flags; auto. congruence.
    + intros l Hl. unfold dead in Hto. rewrite (getl_some _ _ _ Hl) in Hto. exact Hto.
    + intros x <-. right. apply dead_absent; auto.
    + intros x [[-> G]|Hx]; auto.
      eapply chg1_dmono; [exact C|intros v (_ & _ & E3); congruence|]. split; [apply Hd; auto|]. apply (inv_href _ _ _ W0) in Hx. tauto.
Qed.

Lemma cancel_two_replies s conn c s' ev w x :
  cancel_wait_lock s conn c = (s', ev, w) -> cancel_target s c = Some x -> length (rinfos ev) = 2%nat.
Proof.
  intros H Hx. unfold cancel_wait_lock in H. fold (cancel_target s c) in H. rewrite Hx in H.
  brk; norep2; reflexivity.
Qed.

Lemma unlock_step_pl2 E W s conn c s' ev w :
  unlock_step s conn c = (s', ev, w) -> hdead s ->
  plx (fun x => cancel_target s c = Some x /\ length (rinfos ev) = 2%nat) E W s s'.
Proof.
  intros H Hd. unfold unlock_step in H. cbv beta zeta in H.
  brk.
  all: try match goal with HC : cancel_wait_lock _ _ _ = _ |- _ =>
         eapply (plx_weaken _ _ E E W W); [| | |eapply cancel_wait_lock_pl; eauto]; auto;
         intros x Hx; split; [exact Hx|eapply cancel_two_replies; [eassumption|exact Hx]] end.
  all: try match goal with HR : release_hold _ _ _ _ ?r _ = _ |- _ =>
         eapply plx_trans; [|eapply release_hold_pl; [exact HR| |]] end.
  all: plx_x.
  all: try solve [hdead_from Hd].
  all: try solve [eapply dead_keep; [|apply Hd; eexists _, m; split; [eassumption|first [eapply get_locked_lock_href; eassumption | left; eassumption]]]; keep_x].
Qed.

Lemma unlock_step_invl I H s conn c s1 ev1 w :
  InvL I H s -> fresh I (c_req c) -> unlock_step s conn c = (s1, ev1, w) ->
  InvL (issue I conn (c_req c)) (H ++ rinfos ev1) s1.
Proof.
  intros L F E0. assert (W0 := il_inv _ _ _ L). assert (Hd := inv_hdead _ _ _ W0).
  assert (P := unlock_step_pl2 (fun _ => False) (fun _ => False) _ _ _ _ _ _ E0 Hd).
  apply unlock_step_sum in E0.
  destruct E0 as [(res & K & R & Hres)|(r & l & Hl & Ht & (_ & Hct) & _ & C & R)]; rewrite R in *.
  - eapply invl_keep; [eapply invl_own; eauto|exact K|exact P| | |].
    + intros x [_ X]. discriminate X.
    + intros x [].
    + intros x [].
  - change [(conn, c_req c, R_LOCKED_ERROR); (l_conn l, c_req (l_cmd l), R_UNLOCK_ERROR)]
      with ([(conn, c_req c, R_LOCKED_ERROR)] ++ [(l_conn l, c_req (l_cmd l), R_UNLOCK_ERROR)]).
    rewrite app_assoc.
    assert (Hne : R_LOCKED_ERROR <> R_EXPRIED) by (intro X; vm_compute in X; discriminate X).
    assert (L1 := invl_own _ _ _ conn _ _ L F Hne).
    eapply invl_answer with (1 := L1) (2 := Hl) (3 := Ht) (4 := C) (7 := P).
    + intros v ->. cbn. repeat split; auto. intros X. rewrite (inv_wait_exp _ _ _ _ _ W0 Hl Ht) in X. discriminate.
    + intro X; vm_compute in X; discriminate X.
    + intros x [X _]. left. congruence.
    + intros x [].
    + intros x [].
Qed.

(* ------------------------------------------------------------------ firing *)
Lemma do_timeout_live_rinfos s r l s' ev w :
  aget (store s) r = Some l -> l_timeouted l = false -> do_timeout s r = (s', ev, w) -> rinfos ev <> [].
Proof.
  intros Hl Ht H. unfold do_timeout in H. rewrite Hl, Ht in H. brk; norep2; discriminate.
Qed.

Lemma dmono_keep s s' : keep s s' -> dmono s s'.
Proof. intros K x G. eapply good_keep; eauto. Qed.

Lemma do_timeout_invl I H s r s1 ev1 w :
  InvL I H s -> do_timeout s r = (s1, ev1, w) -> InvL I (H ++ rinfos ev1) s1 /\ dmono s s1.
Proof.
  intros L E0. assert (W0 := il_inv _ _ _ L). assert (Hd := inv_hdead _ _ _ W0).
  assert (P := do_timeout_pl (fun _ => False) (fun _ => False) _ _ _ _ _ E0 Hd).
  assert (S := do_timeout_sum _ _ _ _ _ E0).
  destruct (aget (store s) r) as [l|] eqn:Hl.
  - destruct (l_timeouted l) eqn:Ht.
    + destruct S as [[K R]|(l' & Hl' & Ht' & _)]; [|congruence]. rewrite R, app_nil_r. split; [|apply dmono_keep; auto].
      eapply invl_keep; [exact L|apply keep_keepx; exact K|exact P| | |].
      * intros x <-. unfold dead. rewrite (getl_some _ _ _ Hl). exact Ht.
      * intros x []. * intros x [].
    + destruct S as [[K R]|(l' & Hl' & Ht' & C & R)]; [exfalso; eapply do_timeout_live_rinfos; eauto|].
      assert (l' = l) by congruence. subst l'. rewrite R. split.
      * eapply invl_answer with (1 := L) (2 := Hl) (3 := Ht) (4 := C) (7 := P).
        -- intros v ->. cbn. repeat split; auto. intros X. rewrite (inv_wait_exp _ _ _ _ _ W0 Hl Ht) in X. discriminate.
        -- intro X; vm_compute in X; discriminate X.
        -- intros x <-. left. reflexivity.
        -- intros x []. -- intros x [].
      * intros x G. eapply chg1_dmono; [exact C|intros v ->; reflexivity|exact G].
  - destruct S as [[K R]|(l' & Hl' & _)]; [|congruence]. rewrite R, app_nil_r. split; [|apply dmono_keep; auto].
    eapply invl_keep; [exact L|apply keep_keepx; exact K|exact P| | |].
    + intros x <-. apply dead_absent; auto.
    + intros x []. + intros x [].
Qed.

Lemma do_expried_invl I H s r s1 ev1 w :
  InvL I H s -> good s r -> do_expried s r = (s1, ev1, w) -> InvL I (H ++ rinfos ev1) s1 /\ dmono s s1.
Proof.
  intros L G E0. assert (W0 := il_inv _ _ _ L). assert (Hd := inv_hdead _ _ _ W0).
  assert (P := do_expried_pl (fun _ => False) (fun _ => False) _ _ _ _ _ E0 Hd (proj1 G)).
  assert (S := do_expried_sum _ _ _ _ _ E0).
  destruct S as [[K R]|(l & Hl & Hx & C & R)]; rewrite R.
  - rewrite app_nil_r. split; [|apply dmono_keep; auto].
    eapply invl_keep; [exact L|apply keep_keepx; exact K|exact P| | |].
    + intros x []. + intros x <-. eapply good_keep; eauto. + intros x [].
  - assert (Hto : l_timeouted l = true).
    { destruct G as [G _]. unfold dead in G. rewrite (getl_some _ _ _ Hl) in G. exact G. }
    split.
    + eapply invl_expire with (1 := L) (2 := Hl) (3 := Hx) (4 := C) (6 := P).
      * intros v ->. cbn. repeat split; auto.
      * intros x [].
      * intros x <-. eapply chg1_dmono; [exact C| |exact G]. intros v ->. cbn. exact Hto.
      * intros x [].
    + intros x Gx. eapply chg1_dmono; [exact C| |exact Gx]. intros v ->. cbn. exact Hto.
Qed.

Lemma lok_dmono s s' l : dmono s s' -> lok s l -> lok s' l.
Proof. intros M L x Hx. apply M, L, Hx. Qed.

Lemma fire_all_timeout_invl : forall due I H s s' ev,
  InvL I H s -> fire_all do_timeout s due = (s', ev) -> InvL I (H ++ rinfos ev) s'.
Proof.
  induction due as [|r rest IH]; cbn; intros I H s s' ev L E0.
  - inv E0. cbn. rewrite app_nil_r. auto.
  - destruct (do_timeout s r) as [[s1 ev1] w] eqn:E1.
    destruct (finish (s1, ev1, w)) as [s2 e1] eqn:E2. destruct (fire_all do_timeout s2 rest) as [s3 e3] eqn:E3. inv E0.
    destruct (finish_invl I (H ++ rinfos ev1) _ _ _ _ _ E2) as (ev2 & -> & F).
    rewrite !rinfos_app, !app_assoc. eapply IH; [|exact E3]. apply F. eapply do_timeout_invl; eauto.
Qed.

Lemma fire_all_expried_invl : forall due I H s s' ev,
  InvL I H s -> lok s due -> fire_all do_expried s due = (s', ev) -> InvL I (H ++ rinfos ev) s'.
Proof.
  induction due as [|r rest IH]; cbn; intros I H s s' ev L Lk E0.
  - inv E0. cbn. rewrite app_nil_r. auto.
  - destruct (do_expried s r) as [[s1 ev1] w] eqn:E1.
    destruct (finish (s1, ev1, w)) as [s2 e1] eqn:E2. destruct (fire_all do_expried s2 rest) as [s3 e3] eqn:E3. inv E0.
    destruct (finish_invl I (H ++ rinfos ev1) _ _ _ _ _ E2) as (ev2 & -> & F).
    destruct (do_expried_invl _ _ _ _ _ _ _ L (Lk _ (or_introl eq_refl)) E1) as [L1 M1].
    destruct (F L1) as [L2 M2].
    rewrite !rinfos_app, !app_assoc. eapply IH; [exact L2| |exact E3].
    eapply lok_dmono; [exact M2|]. eapply lok_dmono; [exact M1|]. intros x Hx. apply Lk. right. exact Hx.
Qed.

Lemma sweep_t_secs_invl n : forall I H s t nowv s' ev,
  InvL I H s -> sweep_t_secs n s t nowv = (s', ev) -> InvL I (H ++ rinfos ev) s'.
Proof.
  induction n as [|n IH]; cbn; intros I H s t nowv s' ev L E0.
  - inv E0. cbn. rewrite app_nil_r. auto.
  - destruct (collect_timeouts s t nowv) as [s1 due] eqn:E1.
    destruct (fire_all do_timeout s1 due) as [s2 e2] eqn:E2.
    destruct (sweep_t_secs n s2 (t + 1)%Z nowv) as [s3 e3] eqn:E3. inv E0.
    rewrite rinfos_app, app_assoc. eapply IH; [|exact E3].
    eapply fire_all_timeout_invl; [|exact E2].
    eapply invl_keep; [exact L|apply keep_keepx; eapply collect_timeouts_keep; eauto
                      |eapply (collect_timeouts_pl (fun _ => False) (fun _ => False) (fun _ => False)); eauto| | |].
    + intros x []. + intros x []. + intros x [].
Qed.

Lemma plx_e_replace D E W s s' : plx D E W s s' -> eok s' -> plx D (good s') W s s'.
Proof. intros [p e w] Ek. split; [exact p| |exact w]. intros x Hx. left. apply Ek. exact Hx. Qed.

Lemma sweep_e_secs_invl n : forall I H s t nowv s' ev,
  InvL I H s -> sweep_e_secs n s t nowv = (s', ev) -> InvL I (H ++ rinfos ev) s'.
Proof.
  induction n as [|n IH]; cbn; intros I H s t nowv s' ev L E0.
  - inv E0. cbn. rewrite app_nil_r. auto.
  - destruct (collect_expiries s t nowv) as [[s1 due] e1] eqn:E1.
    destruct (fire_all do_expried s1 due) as [s2 e2] eqn:E2.
    destruct (sweep_e_secs n s2 (t + 1)%Z nowv) as [s3 e3] eqn:E3. inv E0.
    destruct (collect_expiries_keep _ _ _ _ _ _ E1) as [K1 R1].
    destruct (collect_expiries_pl (fun _ => False) (fun _ => False) _ _ _ _ _ _ E1 (il_eok _ _ _ L)) as (P1 & Ek1 & Lk1).
    rewrite !rinfos_app, R1. cbn [app]. rewrite app_assoc. eapply IH; [|exact E3].
    eapply fire_all_expried_invl; [|exact Lk1|exact E2].
    eapply invl_keep; [exact L|apply keep_keepx; exact K1|eapply plx_e_replace; [exact P1|exact Ek1]| | |].
    + intros x []. + intros x Gx. exact Gx. + intros x [].
Qed.

(* ------------------------------------------------------------------ steps and runs *)
Lemma step_invl I H s a s' ev :
  InvL I H s -> core_action a -> step_fresh I a -> step s a = (s', ev) -> InvL (step_issue I a) (H ++ rinfos ev) s'.
Proof.
  intros L CA FR E0. destruct a as [conn c|k| | |r ok|b]; cbn in *.
  - destruct (if c_lock c then lock_step s conn c else unlock_step s conn c) as [[s1 ev1] w] eqn:E1.
    destruct (finish_invl (issue I conn (c_req c)) (H ++ rinfos ev1) _ _ _ _ _ E0) as (ev2 & -> & F).
    rewrite rinfos_app, app_assoc. apply F.
    destruct (c_lock c); [eapply lock_step_invl|eapply unlock_step_invl]; eauto.
  - inv E0. cbn. rewrite app_nil_r.
    eapply (invl_keep _ _ _ _ (fun _ => False) (fun _ => False) (fun _ => False)); [exact L|apply keep_keepx; keep_x|plx_x| | |].
    + intros x []. + intros x []. + intros x [].
  - unfold sweep_timeouts in E0. eapply sweep_t_secs_invl; [|exact E0].
    eapply (invl_keep _ _ _ _ (fun _ => False) (fun _ => False) (fun _ => False)); [exact L|apply keep_keepx; keep_x|plx_x| | |].
    + intros x []. + intros x []. + intros x [].
  - unfold sweep_expiries in E0. eapply sweep_e_secs_invl; [|exact E0].
    eapply (invl_keep _ _ _ _ (fun _ => False) (fun _ => False) (fun _ => False)); [exact L|apply keep_keepx; keep_x|plx_x| | |].
    + intros x []. + intros x []. + intros x [].
  - contradiction.
  - inv E0. cbn. rewrite app_nil_r.
    eapply (invl_keep _ _ _ _ (fun _ => False) (fun _ => False) (fun _ => False)); [exact L|apply keep_keepx; keep_x|plx_x| | |].
    + intros x []. + intros x []. + intros x [].
Qed.

Lemma invl_mono (I I' : N -> N -> Prop) H s :
  (forall a b, I a b -> I' a b) -> (forall a b, I' a b -> I a b) -> InvL I H s -> InvL I' H s.
Proof.
  intros M M' [i a e w c]. split; auto.
  - eapply inv_mono; eauto.
  - intros conn q Hq. apply c with (conn := conn). auto.
Qed.

Lemma run_invl : forall acts pre H s s' evs,
  InvL (issued pre) H s -> Forall core_action acts -> unique_reqids (pre ++ acts) ->
  run s acts = (s', evs) -> InvL (issued (pre ++ acts)) (H ++ rinfos (concat evs)) s'.
Proof.
  induction acts as [|a rest IH]; cbn; intros pre H s s' evs W CA U E.
  - inv E. cbn. rewrite !app_nil_r. auto.
  - destruct (step s a) as [s1 e1] eqn:E1. destruct (run s1 rest) as [s2 es] eqn:E2. inv E.
    inv CA. cbn [concat]. rewrite rinfos_app, app_assoc.
    replace (pre ++ a :: rest) with ((pre ++ [a]) ++ rest) in * by (rewrite <- app_assoc; reflexivity).
    eapply IH; eauto.
    eapply invl_mono; [| |eapply step_invl; eauto].
    + destruct a; cbn; try (intros x y (c0 & Hc & Hq); exists c0; split; auto; apply in_app_iff; auto).
      intros x y [(c0 & Hc & Hq)|[-> ->]].
      * exists c0. split; auto. apply in_app_iff; auto.
      * exists c. split; auto. apply in_app_iff. right. left. auto.
    + destruct a; cbn; try (intros x y (c0 & Hc & Hq); apply in_app_iff in Hc; destruct Hc as [Hc|[Hc|[]]]; [exists c0; auto|discriminate]).
      intros x y (c0 & Hc & Hq). apply in_app_iff in Hc. destruct Hc as [Hc|[Hc|[]]].
      * left. exists c0. auto.
      * inv Hc. right. auto.
    + destruct a; cbn; auto. intros x Hx. apply issued_in_reqs in Hx.
      unfold unique_reqids in U. rewrite !reqs_app in U. cbn in U. rewrite <- app_assoc in U. cbn in U.
      apply NoDup_remove_2 in U. apply U. apply in_app_iff. left. exact Hx.
Qed.


(* ------------------------------------------------------------------ completeness theorems *)
Theorem run_reply_invariant_live t0 a acts s evs :
  Forall core_action acts -> unique_reqids acts -> run (init_db t0 a) acts = (s, evs) ->
  InvL (issued acts) (rinfos (concat evs)) s.
Proof.
  intros CA U E. apply (run_invl acts [] [] (init_db t0 a) s evs); auto.
  apply invl_init. intros c q (c0 & [] & _).
Qed.

(* every request of the history has a terminal reply, or a lock record that still awaits its reply stands for it *)
Theorem reply_or_waiting t0 a acts s evs conn c :
  Forall core_action acts -> unique_reqids acts -> run (init_db t0 a) acts = (s, evs) ->
  In (AReq conn c) acts ->
  has_term (c_req c) (rinfos (concat evs))
  \/ exists r l, aget (store s) r = Some l /\ c_req (l_cmd l) = c_req c /\ l_conn l = conn
                 /\ l_timeouted l = false /\ l_ack l = 255.
Proof.
  intros CA U E Hin. assert (L := run_reply_invariant_live _ _ _ _ _ CA U E).
  destruct (il_cmpl _ _ _ L conn (c_req c)) as [Ht|(r & l & Hl & Hq & Ht)]; [exists c; auto|auto|].
  right. exists r, l. split; auto. split; auto. split; [|split; auto; eapply il_ack; eauto].
  destruct (inv_rec _ _ _ (il_inv _ _ _ L) _ _ Hl) as [(c1 & Hc1 & Hq1) _].
  destruct (unique_issuer _ _ _ _ _ U Hc1 Hin ltac:(congruence)). auto.
Qed.

(* drained: no lock record in the store awaits a reply *)
Definition drained (s : db) : bool := forallb (fun kv => l_timeouted (snd kv)) (store s).

Lemma has_term_filter q H : has_term q H -> (1 <= length (filter (is_term q) H))%nat.
Proof.
  intros (i & Hi & Hq & Hr). assert (X : In i (filter (is_term q) H)).
  { apply filter_In. split; auto. unfold is_term. apply N.eqb_eq in Hq. apply N.eqb_neq in Hr. rewrite Hq, Hr. reflexivity. }
  destruct (filter (is_term q) H); [destruct X|cbn; lia].
Qed.

Theorem reply_exactly_one_when_drained t0 a acts s evs conn c :
  Forall core_action acts -> unique_reqids acts -> run (init_db t0 a) acts = (s, evs) ->
  drained s = true -> In (AReq conn c) acts ->
  length (filter (is_term (c_req c)) (rinfos (concat evs))) = 1%nat.
Proof.
  intros CA U E Dr Hin.
  destruct (reply_at_most_one _ _ _ _ _ (c_req c) CA U E) as [Hle _].
  destruct (reply_or_waiting _ _ _ _ _ _ _ CA U E Hin) as [Ht|(r & l & Hl & _ & _ & Ht & _)].
  - apply has_term_filter in Ht. lia.
  - exfalso. unfold drained in Dr. rewrite forallb_forall in Dr. apply aget_In in Hl. apply Dr in Hl. cbn in Hl. congruence.
Qed.
