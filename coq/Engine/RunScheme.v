(* Run-level theorems, part 5: an induction scheme over the critical sections of core runs.
   A state predicate P that is preserved
     (fr0)  by every change of the lock records that starts no hold and replaces no command (RunDsc.fr0),
     (wake) by the grant of a wake-up iteration (record r of the pass's key, doLock true in the state s1 after GetWaitLock),
     (frc)  by Lock re-entering / updating the hold r found by the lookup on the request's key,
     (tail) by Lock creating the record `next s` for the request's key,
   where the states s, s1 satisfy the heap invariant between critical sections (GK), holds in every state reached by
   core actions whose Lock requests satisfy `okc`.  The scheme walks lock_step / unlock_step / the wake-up pass /
   doTimeOut / doExpried / the sweeps exactly like the invariant proof (InvSteps, InvLock, InvUnlock, InvSweep) and
   uses the any-state summaries of RunDsc / RunDscSteps for what happens to the records. *)
From Coq Require Import String ZifyN ZifyBool ZifyNat.
From Slock Require Import Engine.Types Engine.Queues Engine.Timers Engine.Engine Engine.Engine2 Engine.InvDef Engine.InvBase
  Engine.InvPrims Engine.InvRec Engine.InvWheel Engine.InvQueue Engine.InvQueue2 Engine.InvSteps Engine.InvLockDefs Engine.InvLock
  Engine.InvUnlock Engine.InvSweep Engine.InvMain Engine.InvProps Engine.InvNext.
From Slock Require Engine.LocalWake.
From Slock Require Import Engine.RunDsc Engine.RunDscSteps.
Open Scope N_scope.

(* the heap invariant between two critical sections (the sweepers may hold references) *)
Definition GK (s : db) : Prop := exists xt xe k, GInv s (gk xt xe k).

Lemma inv_GK s : Inv s -> GK s.
Proof. intros G. exists [], [], 0. apply inv_gk. exact G. Qed.

Section Scheme.
  Variable P : db -> Prop.
  Variable okc : cmd -> Prop.

  Hypothesis HP_fr0 : forall s s', fr0 s s' -> P s -> P s'.
  Hypothesis HP_wake : forall s1 kw r l s',
    GK s1 -> aget (store s1) r = Some l -> l_key l = kw -> l_timeouted l = false -> do_lock s1 kw r = true ->
    frx r s1 s' -> P s1 -> P s'.
  Hypothesis HP_frc : forall s cm m id r l s',
    GK s -> okc cm -> aget (mgrs s) (c_key cm) = Some m -> get_locked_lock s m id = Some r ->
    aget (store s) r = Some l -> l_key l = c_key cm -> 0 < l_locked l ->
    frc r (c_count cm) (c_rcount cm) s s' -> P s -> P s'.
  Hypothesis HP_tail : forall s cm c1 s',
    GK s -> okc cm -> c_count c1 = c_count cm -> tail_dsc s (c_key cm) c1 s' -> P s -> P s'.

  (* ---------------------------------------------------------------- the wake-up pass *)
  Lemma S_wake_iter s xt xe k w : GInv s (gk xt xe k) -> w_key w = k -> P s -> P (fst (fst (wake_iter s w))).
  Proof.
    intros G Hw HP. destruct (wake_iter s w) as [[s' ev] res] eqn:E. cbn [fst].
    destruct (wake_iter_dsc _ _ _ _ _ E) as [F|(s1 & r & Eg & Hdo & -> & F1)]; [eapply HP_fr0; eauto|].
    rewrite Hw in *.
    pose proof (get_wait_lock_ginv s (gk xt xe k) k G) as Q. rewrite Eg in Q.
    destruct Q as [G1 [LF [_ [_ [_ P4]]]]]; auto. destruct P4 as [Hin [l [Hr Ht]]].
    assert (Hm1 : exists m1, aget (mgrs s1) k = Some m1).
    { destruct (aget (mgrs s1) k) as [m1|] eqn:Hm1; eauto. exfalso. unfold m_wq, getm in Hin. rewrite Hm1 in Hin. exact Hin. }
    destruct Hm1 as [m1 Hm1].
    assert (Hkey : l_key l = k).
    { eapply (mo_key _ _ _ _ (gi_mgr _ _ G1 k m1 Hm1)); eauto. apply in_or_app. right.
      rewrite (getm_some _ _ _ Hm1) in Hin. exact Hin. }
    eapply (HP_wake s1 k r l); eauto.
    - exists xt, xe, k. exact G1.
    - apply frx_wake_grant. congruence.
  Qed.

  Lemma S_wake_trace s w s' ev : LocalWake.wake_trace s w s' ev ->
    forall xt xe k, GInv s (gk xt xe k) -> w_key w = k -> P s -> P s'.
  Proof.
    induction 1 as [s w s' ev H | s w s1 ev1 s' ev' H _ IH]; intros xt xe k G Hw HP.
    - pose proof (S_wake_iter s xt xe k w G Hw HP) as A. rewrite H in A. exact A.
    - pose proof (S_wake_iter s xt xe k w G Hw HP) as A. pose proof (wake_iter_ginv s xt xe k w G Hw) as G1.
      rewrite H in A, G1. cbn [fst] in *. eapply IH; eauto.
  Qed.

  Lemma S_finish s ev w xt xe k : GInv s (gk xt xe k) -> (forall w0, w = Some w0 -> w_key w0 = k) -> P s ->
    P (fst (finish (s, ev, w))).
  Proof.
    intros G Hw HP. destruct w as [w0|]; [|exact HP].
    destruct (LocalWake.finish_some_trace s ev w0) as (s' & ev' & E & T & _). rewrite E. cbn [fst].
    eapply S_wake_trace; eauto.
  Qed.

  (* ---------------------------------------------------------------- Lock / UnLock *)
  Lemma S_lock_step s xt xe conn cm : GInv s (gk xt xe (c_key cm)) -> okc cm -> P s -> P (fst (fst (lock_step s conn cm))).
  Proof.
    intros G Hok HP. destruct (lock_step s conn cm) as [[s' ev] w] eqn:E. cbn [fst].
    assert (GKs : GK s) by (exists xt, xe, (c_key cm); exact G).
    assert (Hlk : forall m id r, aget (mgrs s) (c_key cm) = Some m -> get_locked_lock s m id = Some r -> aget (store s) r <> None).
    { intros m id r Hm Hg. destruct (get_locked_lock_spec s xt xe _ m id r G Hm Hg) as [l [Hr _]]. congruence. }
    destruct (lock_step_dsc _ _ _ _ _ _ Hlk E) as [F|[(m & id & r & Hm & Hg & F)|(c1 & Hc1 & F)]].
    - eapply HP_fr0; eauto.
    - destruct (get_locked_lock_spec s xt xe _ m id r G Hm Hg) as [l [Hr [Hkey [Hd _]]]].
      eapply (HP_frc s cm m id r l); eauto.
    - eapply (HP_tail s cm c1); eauto.
  Qed.

  Lemma S_unlock_step s conn cm : P s -> P (fst (fst (unlock_step s conn cm))).
  Proof.
    intros HP. destruct (unlock_step s conn cm) as [[s' ev] w] eqn:E. cbn [fst].
    eapply HP_fr0; [eapply fr0_unlock_step; eauto|exact HP].
  Qed.

  (* ---------------------------------------------------------------- the sweeps *)
  Lemma S_fire_all_t due : forall s xe k, GInv s (gk due xe k) -> P s -> P (fst (fire_all do_timeout s due)).
  Proof.
    induction due as [|r rest IH]; intros s xe k G HP; simpl; [exact HP|].
    destruct (do_timeout_ginv s xe k r rest G) as [k1 [G1 Hw]].
    destruct (do_timeout s r) as [[s1 e1] w] eqn:Ed. cbn [fst snd] in *.
    assert (HP1 : P s1) by (eapply HP_fr0; [eapply fr0_do_timeout; eauto|exact HP]).
    pose proof (finish_ginv s1 e1 w rest xe k1 G1 Hw) as G2.
    pose proof (S_finish s1 e1 w rest xe k1 G1 Hw HP1) as HP2.
    destruct (finish (s1, e1, w)) as [s2 e2]. cbn [fst] in *.
    specialize (IH s2 xe k1 G2 HP2). destruct (fire_all do_timeout s2 rest) as [s3 e3]. exact IH.
  Qed.

  Lemma S_fire_all_e due : forall s xt k, GInv s (gk xt due k) -> P s -> P (fst (fire_all do_expried s due)).
  Proof.
    induction due as [|r rest IH]; intros s xt k G HP; simpl; [exact HP|].
    destruct (do_expried_ginv s xt k r rest G) as [k1 [G1 Hw]].
    destruct (do_expried s r) as [[s1 e1] w] eqn:Ed. cbn [fst snd] in *.
    assert (HP1 : P s1) by (eapply HP_fr0; [eapply fr0_do_expried; eauto|exact HP]).
    pose proof (finish_ginv s1 e1 w xt rest k1 G1 Hw) as G2.
    pose proof (S_finish s1 e1 w xt rest k1 G1 Hw HP1) as HP2.
    destruct (finish (s1, e1, w)) as [s2 e2]. cbn [fst] in *.
    specialize (IH s2 xt k1 G2 HP2). destruct (fire_all do_expried s2 rest) as [s3 e3]. exact IH.
  Qed.

  Lemma S_sweep_t_secs n : forall s t nowv, Inv s -> P s -> P (fst (sweep_t_secs n s t nowv)).
  Proof.
    induction n as [|n IH]; intros s t nowv G HP; simpl; [exact HP|].
    pose proof (collect_timeouts_ginv s [] 0 t nowv (inv_gk s 0 G)) as G1.
    destruct (collect_timeouts s t nowv) as [s1 due] eqn:Ec. cbn [fst snd] in G1.
    assert (HP1 : P s1) by (eapply HP_fr0; [eapply fr0_collect_timeouts; eauto|exact HP]).
    destruct (fire_all_t_ginv due s1 [] 0 G1) as [k' G2].
    pose proof (S_fire_all_t due s1 [] 0 G1 HP1) as HP2.
    destruct (fire_all do_timeout s1 due) as [s2 e2]. cbn [fst] in *.
    specialize (IH s2 (t + 1)%Z nowv (gk_inv s2 k' G2) HP2).
    destruct (sweep_t_secs n s2 (t + 1)%Z nowv) as [s3 e3]. exact IH.
  Qed.

  Lemma S_sweep_e_secs n : forall s t nowv, Inv s -> P s -> P (fst (sweep_e_secs n s t nowv)).
  Proof.
    induction n as [|n IH]; intros s t nowv G HP; simpl; [exact HP|].
    pose proof (collect_expiries_ginv s [] 0 t nowv (inv_gk s 0 G)) as G1.
    destruct (collect_expiries s t nowv) as [[s1 due] e1] eqn:Ec. cbn [fst snd] in G1.
    assert (HP1 : P s1) by (eapply HP_fr0; [eapply fr0_collect_expiries; eauto|exact HP]).
    destruct (fire_all_e_ginv due s1 [] 0 G1) as [k' G2].
    pose proof (S_fire_all_e due s1 [] 0 G1 HP1) as HP2.
    destruct (fire_all do_expried s1 due) as [s2 e2]. cbn [fst] in *.
    specialize (IH s2 (t + 1)%Z nowv (gk_inv s2 k' G2) HP2).
    destruct (sweep_e_secs n s2 (t + 1)%Z nowv) as [s3 e3]. exact IH.
  Qed.

  (* ---------------------------------------------------------------- actions and runs *)
  Definition act_ok (a : action) : Prop :=
    match a with AReq _ cm => c_lock cm = true -> okc cm | _ => True end.

  Hypothesis HP_scalar : forall s s', store s' = store s -> mgrs s' = mgrs s -> next s' = next s -> P s -> P s'.

  Theorem S_step s a : Inv s -> core_action a = true -> next s < MAXREC -> act_ok a -> P s -> P (fst (step s a)).
  Proof.
    intros G Ha Hb Hok HP. destruct a as [conn c|k| | |r ok|b]; cbn [step core_action act_ok] in *.
    - apply cmd_core_b_iff in Ha. pose proof (inv_gk s (c_key c) G) as G1.
      assert (R : res_ok [] [] (c_key c) (if c_lock c then lock_step s conn c else unlock_step s conn c)).
      { destruct (c_lock c); [apply lock_step_ginv; auto|apply unlock_step_ginv; auto; apply Ha]. }
      assert (A : P (fst (fst (if c_lock c then lock_step s conn c else unlock_step s conn c)))).
      { destruct (c_lock c); [apply (S_lock_step s [] []); auto|apply S_unlock_step; auto]. }
      destruct (if c_lock c then lock_step s conn c else unlock_step s conn c) as [[s1 ev] w]. destruct R as [R1 R2]. cbn [fst snd] in *.
      eapply S_finish; eauto.
    - apply (HP_scalar s); auto.
    - unfold sweep_timeouts. apply S_sweep_t_secs; [apply (inv_scalar s); auto|apply (HP_scalar s); auto].
    - unfold sweep_expiries. apply S_sweep_e_secs; [apply (inv_scalar s); auto|apply (HP_scalar s); auto].
    - discriminate.
    - apply (HP_scalar s); auto.
  Qed.

  Theorem S_run acts : forall s, Inv s -> P s -> Forall (fun a => core_action a = true) acts -> bounded_run s acts ->
    Forall act_ok acts -> P (fst (run s acts)).
  Proof.
    induction acts as [|a rest IH]; intros s G HP Hc Hb Hok; [exact HP|].
    rewrite run_fst_cons. inversion Hc; subst. inversion Hok; subst. destruct Hb as [Hb1 Hb2].
    apply IH; auto. apply inv_step; auto. apply S_step; auto.
  Qed.

  Theorem S_core t0 a acts : P (init_db t0 a) -> core acts -> Forall act_ok acts -> P (fst (run (init_db t0 a) acts)).
  Proof.
    intros HP Hc Hok. destruct (core_core_run t0 a acts Hc) as [H1 H2].
    apply S_run; auto. apply inv_init.
  Qed.
End Scheme.
