(* Engine accounting for the acknowledgement path (C11), part 1: the heap invariant of Engine/InvDef.v re-stated for the
   run class `ack_core` (Engine/AckSoundDefs.v), i.e. with require-ack locks.
   The views, the ghost record and the per-key clauses `mgr_ok` of InvDef.v are re-used unchanged.  The reference a
   registration holds ("refCount += 2" at the acknowledgement grant: one for the armed timeout entry, one for the
   acknowledgement path) is accounted for as a member of the ghost list g_xe -- the references of the expiry side that
   are not (yet) wheel entries: a positive acknowledgement turns exactly this reference into the expiry-wheel entry
   (DoAckLock calls AddExpried without refCount++), a rolled-back registration drops it (DoAckLock: refCount--).
   At the boundaries of an action g_xe = P, the records that hold the acknowledgement reference.
   Changes w.r.t. InvDef.rec_ok:
     ro_live   the premise is "live waiter" in the sense of the Go code (LockManagerWaitQueue: not timeouted and
               ackCount = 0xff), so that an acknowledgement-pending holder (not timeouted, ackCount <> 0xff) is exempt;
     ro_cmd    commands may carry the require-ack flag, under the per-request conditions of ack_core;
     ro_ack    (was: ackCount = 0xff) a pending record is a hold waiting for its acknowledgement: expried flag still
               set (no expiry entry yet), depth > 0, and it holds the acknowledgement reference ("not timeouted" is
               not part of the clause: doTimeOut / cancelWaitLock / DoAckLock set the flag a few statements before
               they clear the counter);
     gi_ph     popped queue entries are dead in the same sense.
   The names of InvDef.v are shadowed on purpose: the proofs of Engine/Inv*.v are replayed on these definitions in
   AckAcctPrims.v ... (forked files; every change is marked "ACK"). *)
From Coq Require Import String.
From Slock Require Import Engine.Types Engine.Queues Engine.Timers Engine.Engine Engine.Engine2 Engine.InvDef.
Open Scope N_scope.

(* never-persist mode not selected by the command (AckSoundDefs.persist_ok, repeated here to keep this file below Ack.v) *)
Definition persist_okc (c : cmd) : bool :=
  let f := N.land (c_eflag c) 4864 in
  negb (f =? EF_UNLIMITED_AOF) && negb ((f =? EF_AOF_PERCENT) && ((c_expried c * 3 / 10) mod 256 =? 255)).

(* the command subset of ack_core: first conjunct = what replaces "no require-ack flag" *)
Definition cmd_core (c : cmd) : Prop :=
  (persist_okc c = true
   /\ (has (c_tflag c) TF_REQUIRE_ACKED = true -> c_lock c = true /\ c_flag c = 0 /\ c_rcount c = 0 /\ 0 < c_expried c))
  /\ has (c_tflag c) TF_MILLISECOND = false
  /\ has (c_eflag c) EF_MILLISECOND = false /\ c_data c = None.

Definition live_cnt (st : amap lockrec) : nat := asum (fun l => if dead_waiter l then O else 1%nat) st.

Record rec_ok (s : db) (g : ghost) (r : ref) (l : lockrec) : Prop := mkRecOk {
  ro_mgr : aget (mgrs s) (l_key l) <> None;
  ro_lt : r < next s;
  ro_refc : (N.to_nat (l_refc l) + occ r (g_owe g) + occ r (g_ph g) =
             occ r (holders (getm s (l_key l))) + occ r (m_wq (getm s (l_key l))) + tcount s g r + ecount s g r
             + occ r (g_pre g))%nat;
  ro_tc : (tcount s g r <= 1)%nat;
  ro_ec : (ecount s g r <= 1)%nat;
  ro_live : dead_waiter l = false ->
            occ r (holders (getm s (l_key l))) = O /\ ecount s g r = O /\ l_locked l = 0
            /\ occ r (m_wq (getm s (l_key l))) = 1%nat;
  ro_held : 0 < l_locked l -> occ r (g_pre g) = O -> occ r (holders (getm s (l_key l))) = 1%nat;
  ro_long : l_long l = true -> occ r (g_pend g) = O ->
            (l_timeouted l = false -> occ r (wheel_get (tlong s) (lkey (l_tT l))) = 1%nat)
            /\ (l_timeouted l = true -> occ r (wheel_get (elong s) (lkey (l_eT l))) = 1%nat);
  ro_cmd : cmd_core (l_cmd l);
  ro_ack : l_ack l <> 255 -> l_expried l = true /\ 0 < l_locked l /\ occ r (g_xe g) = 1%nat;
  ro_depth : l_locked l <= 255
}.

Record GInv (s : db) (g : ghost) : Prop := mkGInv {
  gi_wf_m : awf (mgrs s); gi_wf_s : awf (store s);
  gi_wf_tw : awf (twheel s); gi_wf_tl : awf (tlong s); gi_wf_ew : awf (ewheel s); gi_wf_el : awf (elong s);
  gi_len : N.of_nat (length (store s)) < next s;
  gi_rec : forall r l, aget (store s) r = Some l -> rec_ok s g r l;
  gi_mgr : forall k m, aget (mgrs s) k = Some m -> mgr_ok s g k m;
  gi_str : forall r, aget (store s) r = None -> (tcount s g r + ecount s g r)%nat = O;
  gi_ph : forall r, In r (g_ph g) -> (g_pw g = false -> l_locked (getl s r) = 0) /\ dead_waiter (getl s r) = true;
  gi_phle : forall r, (occ r (g_ph g) <= occ r (phl s g))%nat;
  gi_nlocked : (n_locked (cnt s) + g_cl g = Z.of_N (sum_locked (mgrs s)))%Z;
  gi_nwait : (n_wait (cnt s) + g_cw g = Z.of_nat (live_cnt (store s)))%Z;
  gi_nkey : n_key (cnt s) = Z.of_nat (length (mgrs s))
}.

Definition Inv (s : db) : Prop := GInv s g0.
