(* Run-level expiry theorems (property C06), part 0: the scalars checkE (checkExpriedTime) and now (currentTime) are
   changed by no primitive, critical section or wake-up pass of the model -- only by the expiry sweep (checkE) and by a
   clock advance (now).  Same script as Engine/InvNext.v (which does it for the allocation counter). *)
From Coq Require Import String ZifyN ZifyBool ZifyNat.
From Slock Require Import Engine.Types Engine.Queues Engine.Timers Engine.Engine Engine.Engine2 Engine.InvDef Engine.InvLockDefs.
Open Scope N_scope.

(* ================================================================ checkE *)
Ltac dm_ce := match goal with
  | |- context [match ?x with _ => _ end] => destruct x eqn:?
  | |- context [if ?x then _ else _] => destruct x eqn:?
  | |- context [let '(_, _) := ?x in _] => destruct x eqn:?
  end.

Lemma ce_tw s x : checkE (s <| twheel := x |>) = checkE s.  Proof. reflexivity. Qed.
Lemma ce_tl s x : checkE (s <| tlong := x |>) = checkE s.  Proof. reflexivity. Qed.
Lemma ce_ew s x : checkE (s <| ewheel := x |>) = checkE s.  Proof. reflexivity. Qed.
Lemma ce_el s x : checkE (s <| elong := x |>) = checkE s.  Proof. reflexivity. Qed.
Lemma ce_updc s f : checkE (updc s f) = checkE s.  Proof. reflexivity. Qed.
Lemma ce_bump s f : checkE (bump f s) = checkE s.  Proof. reflexivity. Qed.
Lemma ce_setl s r l : checkE (setl s r l) = checkE s.  Proof. reflexivity. Qed.
#[export] Hint Rewrite ce_tw ce_tl ce_ew ce_el ce_updc ce_bump ce_setl : cedb.
Lemma ce_updl s r f : checkE (updl s r f) = checkE s.
Proof. unfold updl. dm_ce; reflexivity. Qed.
Lemma ce_updm s k f : checkE (updm s k f) = checkE s.
Proof. unfold updm. dm_ce; reflexivity. Qed.
Lemma ce_free_lock s r : checkE (free_lock s r) = checkE s.
Proof. unfold free_lock. dm_ce; [rewrite ce_updm|]; reflexivity. Qed.
Lemma ce_unref s r : checkE (unref s r) = checkE s.
Proof. unfold unref. repeat dm_ce; rewrite ?ce_free_lock; reflexivity. Qed.
Lemma ce_remove_mgr s k : checkE (remove_mgr_if_unref s k) = checkE s.
Proof. unfold remove_mgr_if_unref. repeat dm_ce; reflexivity. Qed.
#[export] Hint Rewrite ce_updl ce_updm ce_free_lock ce_unref ce_remove_mgr : cedb.

Lemma ce_hq_compact items : forall s, checkE (fst (hq_compact s items)) = checkE s.
Proof. induction items as [|r t IH]; intros s; simpl; [reflexivity|]. dm_ce.
  - specialize (IH s). destruct (hq_compact s t). exact IH.
  - rewrite IH. autorewrite with cedb. reflexivity. Qed.
Lemma ce_wq_compact items : forall s, checkE (fst (wq_compact s items)) = checkE s.
Proof. induction items as [|r t IH]; intros s; simpl; [reflexivity|]. dm_ce.
  - rewrite IH. autorewrite with cedb. reflexivity.
  - specialize (IH s). destruct (wq_compact s t). exact IH. Qed.
Lemma ce_hq_push s q r : checkE (fst (hq_push s q r)) = checkE s.
Proof. unfold hq_push. repeat dm_ce; try reflexivity; cbn [fst];
  match goal with H : hq_compact ?s0 ?it = (?s', _) |- _ => pose proof (ce_hq_compact it s0) as X; rewrite H in X; exact X end. Qed.
Lemma ce_wq_push s q r : checkE (fst (wq_push s q r)) = checkE s.
Proof. unfold wq_push. repeat dm_ce; try reflexivity; cbn [fst];
  match goal with H : wq_compact ?s0 ?it = (?s', _) |- _ => pose proof (ce_wq_compact it s0) as X; rewrite H in X; exact X end. Qed.
Lemma ce_promote fuel : forall s q, checkE (fst (fst (promote fuel s q))) = checkE s.
Proof. induction fuel as [|f IH]; intros s q; simpl; [reflexivity|]. repeat dm_ce; try reflexivity. rewrite IH. autorewrite with cedb. reflexivity. Qed.
Lemma ce_drop_dead fuel : forall s q, checkE (fst (drop_dead_heads fuel s q)) = checkE s.
Proof. induction fuel as [|f IH]; intros s q; simpl; [reflexivity|]. repeat dm_ce; try reflexivity. rewrite IH. autorewrite with cedb. reflexivity. Qed.
Lemma ce_remove_lock s k r : checkE (remove_lock s k r) = checkE s.
Proof. unfold remove_lock. repeat dm_ce; autorewrite with cedb; try reflexivity.
  - match goal with H : promote ?f ?s0 ?q = _ |- _ => pose proof (ce_promote f s0 q) as X; rewrite H in X; cbn [fst] in X; rewrite X end. autorewrite with cedb. reflexivity.
  - match goal with H : drop_dead_heads ?f ?s0 ?q = _ |- _ => pose proof (ce_drop_dead f s0 q) as X; rewrite H in X; cbn [fst] in X; rewrite X end. autorewrite with cedb. reflexivity.
Qed.
Lemma ce_add_wait_lock s k r : checkE (add_wait_lock s k r) = checkE s.
Proof. unfold add_wait_lock. cbv zeta. match goal with |- context [wq_push ?s0 ?q r] => pose proof (ce_wq_push s0 q r) as X; destruct (wq_push s0 q r) end.
  cbn [fst] in X. autorewrite with cedb. exact X. Qed.
Lemma ce_get_wait_loop fuel : forall s q, checkE (fst (fst (get_wait_loop fuel s q))) = checkE s.
Proof. induction fuel as [|f IH]; intros s q; simpl; [reflexivity|]. repeat dm_ce; try reflexivity. rewrite IH. autorewrite with cedb. reflexivity. Qed.
Lemma ce_get_wait_lock s k : checkE (fst (get_wait_lock s k)) = checkE s.
Proof. unfold get_wait_lock. dm_ce; [|reflexivity]. match goal with |- context [get_wait_loop ?f ?s0 ?q] => pose proof (ce_get_wait_loop f s0 q) as X; destruct (get_wait_loop f s0 q) as [[? ?] ?] end.
  cbn [fst] in *. autorewrite with cedb. exact X. Qed.
#[export] Hint Rewrite ce_remove_lock ce_add_wait_lock ce_get_wait_lock : cedb.

Lemma ce_push_lock_aof s k r f : checkE (fst (push_lock_aof s k r f)) = checkE s.
Proof. unfold push_lock_aof. repeat dm_ce; cbn [fst]; autorewrite with cedb; reflexivity. Qed.
Lemma ce_push_unlock_aof s k r lc uc b f : checkE (fst (push_unlock_aof s k r lc uc b f)) = checkE s.
Proof. unfold push_unlock_aof. repeat dm_ce; cbn [fst]; autorewrite with cedb; reflexivity. Qed.
Lemma ce_repeat_push n : forall s k r, checkE (fst (repeat_push_lock_aof n s k r)) = checkE s.
Proof. induction n as [|n IH]; intros s k r; simpl; [reflexivity|].
  pose proof (ce_push_lock_aof s k r 0) as X. destruct (push_lock_aof s k r 0) as [s1 e1]. cbn [fst] in X.
  specialize (IH s1 k r). destruct (repeat_push_lock_aof n s1 k r). cbn [fst] in *. congruence. Qed.
Lemma ce_add_timeout s r : checkE (add_timeout s r) = checkE s.
Proof. unfold add_timeout. cbv zeta. dm_ce; autorewrite with cedb; cbn [checkE]; autorewrite with cedb; reflexivity. Qed.
Lemma ce_add_expried s k r : checkE (fst (add_expried s k r)) = checkE s.
Proof. unfold add_expried. cbv zeta. 
  match goal with |- checkE (fst (if ?c then repeat_push_lock_aof ?n ?s0 k r else _)) = _ =>
    assert (X : checkE s0 = checkE s); [|destruct c; [rewrite ce_repeat_push|cbn [fst]]; exact X] end.
  dm_ce; autorewrite with cedb; cbn [checkE]; autorewrite with cedb; reflexivity. Qed.
Lemma ce_remove_long_timeout s r : checkE (remove_long_timeout s r) = checkE s.
Proof. unfold remove_long_timeout. repeat dm_ce; autorewrite with cedb; reflexivity. Qed.
Lemma ce_remove_long_expried s r t : checkE (remove_long_expried s r t) = checkE s.
Proof. unfold remove_long_expried. repeat dm_ce; autorewrite with cedb; reflexivity. Qed.
#[export] Hint Rewrite ce_add_timeout ce_remove_long_timeout ce_remove_long_expried : cedb.

Lemma ce_add_lock s k r : checkE (add_lock s k r) = checkE s.
Proof. unfold add_lock. cbv zeta. dm_ce; autorewrite with cedb; try reflexivity.
  match goal with |- context [hq_push ?s0 ?q r] => pose proof (ce_hq_push s0 q r) as X; destruct (hq_push s0 q r) end.
  cbn [fst] in X. autorewrite with cedb. rewrite X. autorewrite with cedb. reflexivity. Qed.
Lemma ce_process_data s k r c b : checkE (fst (process_data s k r c b)) = checkE s.
Proof. unfold process_data. repeat dm_ce; cbn [fst]; autorewrite with cedb; reflexivity. Qed.
Lemma ce_update_locked_lock s k r c : checkE (update_locked_lock s k r c) = checkE s.
Proof. reflexivity. Qed.
Lemma ce_update_and_rearm s k r c : checkE (fst (update_and_rearm s k r c)) = checkE s.
Proof. unfold update_and_rearm. cbv zeta. repeat dm_ce; cbn [fst]; autorewrite with cedb; try reflexivity.
  match goal with H : add_expried ?s0 k r = (?s1, _) |- _ => pose proof (ce_add_expried s0 k r) as X; rewrite H in X; cbn [fst] in X; rewrite X end.
  autorewrite with cedb. reflexivity. Qed.
#[export] Hint Rewrite ce_add_lock ce_update_locked_lock : cedb.


(* ---------------------------------------------------------------- critical sections *)
Ltac ce_pair f lem :=
  let X := fresh "X" in pose proof lem as X; destruct f; cbn [fst] in X.
Ltac ce_step :=
  match goal with
  | |- context [let '(_, _) := (if ?b then _ else _) in _] => destruct b
  | |- context [let '(_, _) := (_, _) in _] => cbv iota beta
  | |- context [let '(_, _) := push_lock_aof ?s ?k ?r ?f in _] => ce_pair (push_lock_aof s k r f) (ce_push_lock_aof s k r f)
  | |- context [let '(_, _) := push_unlock_aof ?s ?k ?r ?a ?b ?c ?d in _] => ce_pair (push_unlock_aof s k r a b c d) (ce_push_unlock_aof s k r a b c d)
  | |- context [let '(_, _) := add_expried ?s ?k ?r in _] => ce_pair (add_expried s k r) (ce_add_expried s k r)
  | |- context [let '(_, _) := process_data ?s ?k ?r ?c ?b in _] => ce_pair (process_data s k r c b) (ce_process_data s k r c b)
  | |- context [let '(_, _) := update_and_rearm ?s ?k ?r ?c in _] => ce_pair (update_and_rearm s k r c) (ce_update_and_rearm s k r c)
  | |- context [let '(_, _) := get_wait_lock ?s ?k in _] => ce_pair (get_wait_lock s k) (ce_get_wait_lock s k)
  | |- context [let '(_, _) := (match process_recover_lock_data ?a ?b with _ => _ end) in _] => destruct (process_recover_lock_data a b)
  | |- context [let '(_, _) := (let '(_, _) := ?a in _) in _] => is_var a; destruct a
  | |- context [if ?b then _ else _] => destruct b
  | |- context [match ?x with _ => _ end] => destruct x
  end.
Ltac ce_fin :=
  cbn [fst snd]; autorewrite with cedb;
  repeat (match goal with X : checkE ?a = _ |- context [checkE ?a] => rewrite X; clear X end; autorewrite with cedb);
  try reflexivity.
Ltac ce_all := repeat (repeat ce_step; ce_fin).

Lemma ce_wake_grant s k r via : checkE (fst (wake_grant s k r via)) = checkE s.
Proof. unfold wake_grant. cbv zeta. ce_all. Qed.
Ltac ce_step2 :=
  match goal with
  | |- context [let '(_, _) := wake_grant ?s ?k ?r ?v in _] => ce_pair (wake_grant s k r v) (ce_wake_grant s k r v)
  | _ => ce_step
  end.
Lemma ce_wake_iter s w : checkE (fst (fst (wake_iter s w))) = checkE s.
Proof. unfold wake_iter. cbv zeta. repeat (repeat ce_step2; ce_fin). Qed.
Lemma ce_run_wake fuel : forall s w, checkE (fst (run_wake fuel s w)) = checkE s.
Proof. induction fuel as [|f IH]; intros s w; simpl; [reflexivity|].
  pose proof (ce_wake_iter s w) as X. destruct (wake_iter s w) as [[s1 e1] [|]]; cbn [fst] in *; [exact X|].
  specialize (IH s1 w). destruct (run_wake f s1 w). cbn [fst] in *. congruence. Qed.
Lemma ce_finish res : checkE (fst (finish res)) = checkE (fst (fst res)).
Proof. destruct res as [[s ev] [w|]]; unfold finish; [|reflexivity].
  pose proof (ce_run_wake (wake_fuel s (w_key w)) s w) as X. destruct (run_wake (wake_fuel s (w_key w)) s w). exact X. Qed.
Lemma ce_cancel_wait_lock s conn c : checkE (fst (fst (cancel_wait_lock s conn c))) = checkE s.
Proof. unfold cancel_wait_lock. cbv zeta. ce_all. Qed.
Lemma ce_release_hold s k conn c r d : checkE (fst (release_hold s k conn c r d)) = checkE s.
Proof. unfold release_hold. cbv zeta. ce_all. Qed.
Ltac ce_step3 :=
  match goal with
  | |- context [let '(_, _) := release_hold ?s ?k ?cn ?c ?r ?d in _] => ce_pair (release_hold s k cn c r d) (ce_release_hold s k cn c r d)
  | _ => ce_step
  end.
Lemma ce_ul_body s conn c k r : checkE (fst (fst (ul_body s conn c k r))) = checkE s.
Proof. unfold ul_body. cbv zeta. repeat (repeat ce_step3; ce_fin). Qed.
Lemma ce_unlock_step s conn c : checkE (fst (fst (unlock_step s conn c))) = checkE s.
Proof. rewrite unlock_step_eq. cbv zeta.
  destruct (aget (mgrs s) (c_key c)) as [m|]; [|reflexivity].
  destruct (negb (leader s) && negb (has (c_flag c) UNLOCK_FLAG_FROM_AOF)); [reflexivity|].
  destruct (m_locked m =? 0); [destruct (has (c_flag c) UNLOCK_FLAG_CANCEL_WAIT); [apply ce_cancel_wait_lock|reflexivity]|].
  unfold ul_target. cbv zeta.
  destruct (get_locked_lock s m (c_lockid c)) as [r|].
  - destruct (negb (l_ack (getl s r) =? 255)); [reflexivity|apply ce_ul_body].
  - destruct (has (c_flag c) UNLOCK_FLAG_FIRST).
    + destruct (m_cur m) as [cr|]; [|reflexivity]. destruct (negb (l_ack (getl s cr) =? 255)); [reflexivity|apply ce_ul_body].
    + destruct (has (c_flag c) UNLOCK_FLAG_CANCEL_WAIT); [apply ce_cancel_wait_lock|reflexivity].
Qed.
Lemma ce_do_timeout s r : checkE (fst (fst (do_timeout s r))) = checkE s.
Proof. unfold do_timeout. cbv zeta. ce_all. Qed.
Lemma ce_do_expried s r : checkE (fst (fst (do_expried s r))) = checkE s.
Proof. unfold do_expried. cbv zeta. ce_all. Qed.

Lemma ce_sweep_t_slot fuel : forall s slot nowv due, checkE (fst (sweep_t_slot fuel s slot nowv due)) = checkE s.
Proof. induction fuel as [|f IH]; intros s slot nowv due; simpl; [reflexivity|].
  repeat ce_step; cbn [fst]; rewrite ?IH; autorewrite with cedb; reflexivity. Qed.
Lemma ce_sweep_long items : forall s b due, checkE (fst (sweep_long s items b due)) = checkE s.
Proof. induction items as [|r t IH]; intros s b due; simpl; [reflexivity|].
  repeat ce_step; rewrite ?IH; autorewrite with cedb; reflexivity. Qed.
Lemma ce_collect_timeouts s t nowv : checkE (fst (collect_timeouts s t nowv)) = checkE s.
Proof. unfold collect_timeouts.
  match goal with |- context [sweep_t_slot ?f s ?sl nowv []] => pose proof (ce_sweep_t_slot f s sl nowv []) as X; destruct (sweep_t_slot f s sl nowv []) as [s1 due] end.
  cbn [fst] in X. destruct (aget (tlong s1) (lkey t)); [rewrite ce_sweep_long; autorewrite with cedb|]; exact X. Qed.
Lemma ce_sweep_e_slot fuel : forall s slot nowv due ev, checkE (fst (fst (sweep_e_slot fuel s slot nowv due ev))) = checkE s.
Proof. induction fuel as [|f IH]; intros s slot nowv due ev; simpl; [reflexivity|].
  repeat ce_step; cbn [fst]; rewrite ?IH; ce_fin. Qed.
Lemma ce_collect_expiries s t nowv : checkE (fst (fst (collect_expiries s t nowv))) = checkE s.
Proof. unfold collect_expiries.
  match goal with |- context [sweep_e_slot ?f s ?sl nowv [] []] => pose proof (ce_sweep_e_slot f s sl nowv [] []) as X; destruct (sweep_e_slot f s sl nowv [] []) as [[s1 due] ev] end.
  cbn [fst] in X. destruct (aget (elong s1) (lkey t)); [|exact X].
  match goal with |- context [sweep_long ?s0 ?it false due] => pose proof (ce_sweep_long it s0 false due) as Y; destruct (sweep_long s0 it false due) end.
  cbn [fst] in *. rewrite Y. autorewrite with cedb. exact X. Qed.
Lemma ce_fire_all f (Hf : forall s r, checkE (fst (fst (f s r))) = checkE s) due : forall s, checkE (fst (fire_all f s due)) = checkE s.
Proof. induction due as [|r t IH]; intros s; simpl; [reflexivity|].
  pose proof (ce_finish (f s r)) as X. destruct (finish (f s r)) as [s1 e1]. cbn [fst] in X.
  specialize (IH s1). destruct (fire_all f s1 t). cbn [fst] in *. rewrite IH, X. apply Hf. Qed.
Lemma ce_sweep_t_secs n : forall s t nowv, checkE (fst (sweep_t_secs n s t nowv)) = checkE s.
Proof. induction n as [|n IH]; intros s t nowv; simpl; [reflexivity|].
  pose proof (ce_collect_timeouts s t nowv) as X. destruct (collect_timeouts s t nowv) as [s1 due]. cbn [fst] in X.
  pose proof (ce_fire_all do_timeout ce_do_timeout due s1) as Y. destruct (fire_all do_timeout s1 due) as [s2 e2]. cbn [fst] in Y.
  specialize (IH s2 (t + 1)%Z nowv). destruct (sweep_t_secs n s2 (t + 1)%Z nowv). cbn [fst] in *. congruence. Qed.
Lemma ce_sweep_e_secs n : forall s t nowv, checkE (fst (sweep_e_secs n s t nowv)) = checkE s.
Proof. induction n as [|n IH]; intros s t nowv; simpl; [reflexivity|].
  pose proof (ce_collect_expiries s t nowv) as X. destruct (collect_expiries s t nowv) as [[s1 due] e1]. cbn [fst] in X.
  pose proof (ce_fire_all do_expried ce_do_expried due s1) as Y. destruct (fire_all do_expried s1 due) as [s2 e2]. cbn [fst] in Y.
  specialize (IH s2 (t + 1)%Z nowv). destruct (sweep_e_secs n s2 (t + 1)%Z nowv). cbn [fst] in *. congruence. Qed.

Lemma ce_new_lock s k conn c : checkE (fst (new_lock s k conn c)) = checkE s.
Proof. unfold new_lock. cbn [fst]. autorewrite with cedb. reflexivity. Qed.

Ltac ce_step4 :=
  match goal with
  | |- context [let '(_, _) := new_lock ?s ?k ?cn ?c in _] => ce_pair (new_lock s k cn c) (ce_new_lock s k cn c)
  | _ => ce_step
  end.
Lemma ce_ls_tail s conn c k w : checkE (fst (fst (ls_tail s conn c k w))) = checkE s.
Proof. unfold ls_tail. cbv zeta. repeat (repeat ce_step4; ce_fin). Qed.
Lemma ce_ls_update s conn c1 k m r l ld res c' w :
  ls_update s conn c1 k m r l ld = (Some res, c', w) -> checkE (fst (fst res)) = checkE s.
Proof. unfold ls_update. cbv zeta. repeat ce_step; intros E; inversion E; subst; ce_fin. Qed.
Lemma ce_ls_relock s conn c1 k m r l ld res c' w :
  ls_relock s conn c1 k m r l ld = (Some res, c', w) -> checkE (fst (fst res)) = checkE s.
Proof. unfold ls_relock. cbv zeta. repeat ce_step; intros E; inversion E; subst; ce_fin. Qed.
Lemma ce_ls_held s conn c k m res c' w : ls_held s conn c k m = (Some res, c', w) -> checkE (fst (fst res)) = checkE s.
Proof. rewrite ls_held_eq. cbv zeta.
  repeat match goal with
  | |- (if ?b then _ else _) = _ -> _ => destruct b
  | |- (match ?x with _ => _ end) = _ -> _ => destruct x
  end; try (intros E; inversion E; subst; reflexivity); try apply ce_ls_update; try apply ce_ls_relock.
Qed.
Lemma ce_lock_step s conn c : checkE (fst (fst (lock_step s conn c))) = checkE s.
Proof. rewrite lock_step_eq. cbv zeta.
  destruct (ls_pre s conn c (c_key c)); [reflexivity|].
  assert (E0 : checkE (ls_mgr s (c_key c)) = checkE s) by (unfold ls_mgr; destruct (aget (mgrs s) (c_key c)); reflexivity).
  destruct (negb (leader (ls_mgr s (c_key c))) && negb (has (c_flag c) LOCK_FLAG_FROM_AOF)).
  - cbn [fst]. autorewrite with cedb. exact E0.
  - destruct (ls_held (ls_mgr s (c_key c)) conn c (c_key c) (getm (ls_mgr s (c_key c)) (c_key c))) as [[[res|] c'] w] eqn:E.
    + rewrite (ce_ls_held _ _ _ _ _ _ _ _ E). exact E0.
    + rewrite ce_ls_tail. exact E0.
Qed.
Lemma ce_req s conn c : checkE (fst (step s (AReq conn c))) = checkE s.
Proof. cbn [step]. rewrite ce_finish. destruct (c_lock c); [apply ce_lock_step|apply ce_unlock_step]. Qed.
(* ================================================================ now *)
Ltac dm_nw := match goal with
  | |- context [match ?x with _ => _ end] => destruct x eqn:?
  | |- context [if ?x then _ else _] => destruct x eqn:?
  | |- context [let '(_, _) := ?x in _] => destruct x eqn:?
  end.

Lemma nw_tw s x : now (s <| twheel := x |>) = now s.  Proof. reflexivity. Qed.
Lemma nw_tl s x : now (s <| tlong := x |>) = now s.  Proof. reflexivity. Qed.
Lemma nw_ew s x : now (s <| ewheel := x |>) = now s.  Proof. reflexivity. Qed.
Lemma nw_el s x : now (s <| elong := x |>) = now s.  Proof. reflexivity. Qed.
Lemma nw_updc s f : now (updc s f) = now s.  Proof. reflexivity. Qed.
Lemma nw_bump s f : now (bump f s) = now s.  Proof. reflexivity. Qed.
Lemma nw_setl s r l : now (setl s r l) = now s.  Proof. reflexivity. Qed.
#[export] Hint Rewrite nw_tw nw_tl nw_ew nw_el nw_updc nw_bump nw_setl : nwdb.
Lemma nw_updl s r f : now (updl s r f) = now s.
Proof. unfold updl. dm_nw; reflexivity. Qed.
Lemma nw_updm s k f : now (updm s k f) = now s.
Proof. unfold updm. dm_nw; reflexivity. Qed.
Lemma nw_free_lock s r : now (free_lock s r) = now s.
Proof. unfold free_lock. dm_nw; [rewrite nw_updm|]; reflexivity. Qed.
Lemma nw_unref s r : now (unref s r) = now s.
Proof. unfold unref. repeat dm_nw; rewrite ?nw_free_lock; reflexivity. Qed.
Lemma nw_remove_mgr s k : now (remove_mgr_if_unref s k) = now s.
Proof. unfold remove_mgr_if_unref. repeat dm_nw; reflexivity. Qed.
#[export] Hint Rewrite nw_updl nw_updm nw_free_lock nw_unref nw_remove_mgr : nwdb.

Lemma nw_hq_compact items : forall s, now (fst (hq_compact s items)) = now s.
Proof. induction items as [|r t IH]; intros s; simpl; [reflexivity|]. dm_nw.
  - specialize (IH s). destruct (hq_compact s t). exact IH.
  - rewrite IH. autorewrite with nwdb. reflexivity. Qed.
Lemma nw_wq_compact items : forall s, now (fst (wq_compact s items)) = now s.
Proof. induction items as [|r t IH]; intros s; simpl; [reflexivity|]. dm_nw.
  - rewrite IH. autorewrite with nwdb. reflexivity.
  - specialize (IH s). destruct (wq_compact s t). exact IH. Qed.
Lemma nw_hq_push s q r : now (fst (hq_push s q r)) = now s.
Proof. unfold hq_push. repeat dm_nw; try reflexivity; cbn [fst];
  match goal with H : hq_compact ?s0 ?it = (?s', _) |- _ => pose proof (nw_hq_compact it s0) as X; rewrite H in X; exact X end. Qed.
Lemma nw_wq_push s q r : now (fst (wq_push s q r)) = now s.
Proof. unfold wq_push. repeat dm_nw; try reflexivity; cbn [fst];
  match goal with H : wq_compact ?s0 ?it = (?s', _) |- _ => pose proof (nw_wq_compact it s0) as X; rewrite H in X; exact X end. Qed.
Lemma nw_promote fuel : forall s q, now (fst (fst (promote fuel s q))) = now s.
Proof. induction fuel as [|f IH]; intros s q; simpl; [reflexivity|]. repeat dm_nw; try reflexivity. rewrite IH. autorewrite with nwdb. reflexivity. Qed.
Lemma nw_drop_dead fuel : forall s q, now (fst (drop_dead_heads fuel s q)) = now s.
Proof. induction fuel as [|f IH]; intros s q; simpl; [reflexivity|]. repeat dm_nw; try reflexivity. rewrite IH. autorewrite with nwdb. reflexivity. Qed.
Lemma nw_remove_lock s k r : now (remove_lock s k r) = now s.
Proof. unfold remove_lock. repeat dm_nw; autorewrite with nwdb; try reflexivity.
  - match goal with H : promote ?f ?s0 ?q = _ |- _ => pose proof (nw_promote f s0 q) as X; rewrite H in X; cbn [fst] in X; rewrite X end. autorewrite with nwdb. reflexivity.
  - match goal with H : drop_dead_heads ?f ?s0 ?q = _ |- _ => pose proof (nw_drop_dead f s0 q) as X; rewrite H in X; cbn [fst] in X; rewrite X end. autorewrite with nwdb. reflexivity.
Qed.
Lemma nw_add_wait_lock s k r : now (add_wait_lock s k r) = now s.
Proof. unfold add_wait_lock. cbv zeta. match goal with |- context [wq_push ?s0 ?q r] => pose proof (nw_wq_push s0 q r) as X; destruct (wq_push s0 q r) end.
  cbn [fst] in X. autorewrite with nwdb. exact X. Qed.
Lemma nw_get_wait_loop fuel : forall s q, now (fst (fst (get_wait_loop fuel s q))) = now s.
Proof. induction fuel as [|f IH]; intros s q; simpl; [reflexivity|]. repeat dm_nw; try reflexivity. rewrite IH. autorewrite with nwdb. reflexivity. Qed.
Lemma nw_get_wait_lock s k : now (fst (get_wait_lock s k)) = now s.
Proof. unfold get_wait_lock. dm_nw; [|reflexivity]. match goal with |- context [get_wait_loop ?f ?s0 ?q] => pose proof (nw_get_wait_loop f s0 q) as X; destruct (get_wait_loop f s0 q) as [[? ?] ?] end.
  cbn [fst] in *. autorewrite with nwdb. exact X. Qed.
#[export] Hint Rewrite nw_remove_lock nw_add_wait_lock nw_get_wait_lock : nwdb.

Lemma nw_push_lock_aof s k r f : now (fst (push_lock_aof s k r f)) = now s.
Proof. unfold push_lock_aof. repeat dm_nw; cbn [fst]; autorewrite with nwdb; reflexivity. Qed.
Lemma nw_push_unlock_aof s k r lc uc b f : now (fst (push_unlock_aof s k r lc uc b f)) = now s.
Proof. unfold push_unlock_aof. repeat dm_nw; cbn [fst]; autorewrite with nwdb; reflexivity. Qed.
Lemma nw_repeat_push n : forall s k r, now (fst (repeat_push_lock_aof n s k r)) = now s.
Proof. induction n as [|n IH]; intros s k r; simpl; [reflexivity|].
  pose proof (nw_push_lock_aof s k r 0) as X. destruct (push_lock_aof s k r 0) as [s1 e1]. cbn [fst] in X.
  specialize (IH s1 k r). destruct (repeat_push_lock_aof n s1 k r). cbn [fst] in *. congruence. Qed.
Lemma nw_add_timeout s r : now (add_timeout s r) = now s.
Proof. unfold add_timeout. cbv zeta. dm_nw; autorewrite with nwdb; cbn [now]; autorewrite with nwdb; reflexivity. Qed.
Lemma nw_add_expried s k r : now (fst (add_expried s k r)) = now s.
Proof. unfold add_expried. cbv zeta. 
  match goal with |- now (fst (if ?c then repeat_push_lock_aof ?n ?s0 k r else _)) = _ =>
    assert (X : now s0 = now s); [|destruct c; [rewrite nw_repeat_push|cbn [fst]]; exact X] end.
  dm_nw; autorewrite with nwdb; cbn [now]; autorewrite with nwdb; reflexivity. Qed.
Lemma nw_remove_long_timeout s r : now (remove_long_timeout s r) = now s.
Proof. unfold remove_long_timeout. repeat dm_nw; autorewrite with nwdb; reflexivity. Qed.
Lemma nw_remove_long_expried s r t : now (remove_long_expried s r t) = now s.
Proof. unfold remove_long_expried. repeat dm_nw; autorewrite with nwdb; reflexivity. Qed.
#[export] Hint Rewrite nw_add_timeout nw_remove_long_timeout nw_remove_long_expried : nwdb.

Lemma nw_add_lock s k r : now (add_lock s k r) = now s.
Proof. unfold add_lock. cbv zeta. dm_nw; autorewrite with nwdb; try reflexivity.
  match goal with |- context [hq_push ?s0 ?q r] => pose proof (nw_hq_push s0 q r) as X; destruct (hq_push s0 q r) end.
  cbn [fst] in X. autorewrite with nwdb. rewrite X. autorewrite with nwdb. reflexivity. Qed.
Lemma nw_process_data s k r c b : now (fst (process_data s k r c b)) = now s.
Proof. unfold process_data. repeat dm_nw; cbn [fst]; autorewrite with nwdb; reflexivity. Qed.
Lemma nw_update_locked_lock s k r c : now (update_locked_lock s k r c) = now s.
Proof. reflexivity. Qed.
Lemma nw_update_and_rearm s k r c : now (fst (update_and_rearm s k r c)) = now s.
Proof. unfold update_and_rearm. cbv zeta. repeat dm_nw; cbn [fst]; autorewrite with nwdb; try reflexivity.
  match goal with H : add_expried ?s0 k r = (?s1, _) |- _ => pose proof (nw_add_expried s0 k r) as X; rewrite H in X; cbn [fst] in X; rewrite X end.
  autorewrite with nwdb. reflexivity. Qed.
#[export] Hint Rewrite nw_add_lock nw_update_locked_lock : nwdb.


(* ---------------------------------------------------------------- critical sections *)
Ltac nw_pair f lem :=
  let X := fresh "X" in pose proof lem as X; destruct f; cbn [fst] in X.
Ltac nw_step :=
  match goal with
  | |- context [let '(_, _) := (if ?b then _ else _) in _] => destruct b
  | |- context [let '(_, _) := (_, _) in _] => cbv iota beta
  | |- context [let '(_, _) := push_lock_aof ?s ?k ?r ?f in _] => nw_pair (push_lock_aof s k r f) (nw_push_lock_aof s k r f)
  | |- context [let '(_, _) := push_unlock_aof ?s ?k ?r ?a ?b ?c ?d in _] => nw_pair (push_unlock_aof s k r a b c d) (nw_push_unlock_aof s k r a b c d)
  | |- context [let '(_, _) := add_expried ?s ?k ?r in _] => nw_pair (add_expried s k r) (nw_add_expried s k r)
  | |- context [let '(_, _) := process_data ?s ?k ?r ?c ?b in _] => nw_pair (process_data s k r c b) (nw_process_data s k r c b)
  | |- context [let '(_, _) := update_and_rearm ?s ?k ?r ?c in _] => nw_pair (update_and_rearm s k r c) (nw_update_and_rearm s k r c)
  | |- context [let '(_, _) := get_wait_lock ?s ?k in _] => nw_pair (get_wait_lock s k) (nw_get_wait_lock s k)
  | |- context [let '(_, _) := (match process_recover_lock_data ?a ?b with _ => _ end) in _] => destruct (process_recover_lock_data a b)
  | |- context [let '(_, _) := (let '(_, _) := ?a in _) in _] => is_var a; destruct a
  | |- context [if ?b then _ else _] => destruct b
  | |- context [match ?x with _ => _ end] => destruct x
  end.
Ltac nw_fin :=
  cbn [fst snd]; autorewrite with nwdb;
  repeat (match goal with X : now ?a = _ |- context [now ?a] => rewrite X; clear X end; autorewrite with nwdb);
  try reflexivity.
Ltac nw_all := repeat (repeat nw_step; nw_fin).

Lemma nw_wake_grant s k r via : now (fst (wake_grant s k r via)) = now s.
Proof. unfold wake_grant. cbv zeta. nw_all. Qed.
Ltac nw_step2 :=
  match goal with
  | |- context [let '(_, _) := wake_grant ?s ?k ?r ?v in _] => nw_pair (wake_grant s k r v) (nw_wake_grant s k r v)
  | _ => nw_step
  end.
Lemma nw_wake_iter s w : now (fst (fst (wake_iter s w))) = now s.
Proof. unfold wake_iter. cbv zeta. repeat (repeat nw_step2; nw_fin). Qed.
Lemma nw_run_wake fuel : forall s w, now (fst (run_wake fuel s w)) = now s.
Proof. induction fuel as [|f IH]; intros s w; simpl; [reflexivity|].
  pose proof (nw_wake_iter s w) as X. destruct (wake_iter s w) as [[s1 e1] [|]]; cbn [fst] in *; [exact X|].
  specialize (IH s1 w). destruct (run_wake f s1 w). cbn [fst] in *. congruence. Qed.
Lemma nw_finish res : now (fst (finish res)) = now (fst (fst res)).
Proof. destruct res as [[s ev] [w|]]; unfold finish; [|reflexivity].
  pose proof (nw_run_wake (wake_fuel s (w_key w)) s w) as X. destruct (run_wake (wake_fuel s (w_key w)) s w). exact X. Qed.
Lemma nw_cancel_wait_lock s conn c : now (fst (fst (cancel_wait_lock s conn c))) = now s.
Proof. unfold cancel_wait_lock. cbv zeta. nw_all. Qed.
Lemma nw_release_hold s k conn c r d : now (fst (release_hold s k conn c r d)) = now s.
Proof. unfold release_hold. cbv zeta. nw_all. Qed.
Ltac nw_step3 :=
  match goal with
  | |- context [let '(_, _) := release_hold ?s ?k ?cn ?c ?r ?d in _] => nw_pair (release_hold s k cn c r d) (nw_release_hold s k cn c r d)
  | _ => nw_step
  end.
Lemma nw_ul_body s conn c k r : now (fst (fst (ul_body s conn c k r))) = now s.
Proof. unfold ul_body. cbv zeta. repeat (repeat nw_step3; nw_fin). Qed.
Lemma nw_unlock_step s conn c : now (fst (fst (unlock_step s conn c))) = now s.
Proof. rewrite unlock_step_eq. cbv zeta.
  destruct (aget (mgrs s) (c_key c)) as [m|]; [|reflexivity].
  destruct (negb (leader s) && negb (has (c_flag c) UNLOCK_FLAG_FROM_AOF)); [reflexivity|].
  destruct (m_locked m =? 0); [destruct (has (c_flag c) UNLOCK_FLAG_CANCEL_WAIT); [apply nw_cancel_wait_lock|reflexivity]|].
  unfold ul_target. cbv zeta.
  destruct (get_locked_lock s m (c_lockid c)) as [r|].
  - destruct (negb (l_ack (getl s r) =? 255)); [reflexivity|apply nw_ul_body].
  - destruct (has (c_flag c) UNLOCK_FLAG_FIRST).
    + destruct (m_cur m) as [cr|]; [|reflexivity]. destruct (negb (l_ack (getl s cr) =? 255)); [reflexivity|apply nw_ul_body].
    + destruct (has (c_flag c) UNLOCK_FLAG_CANCEL_WAIT); [apply nw_cancel_wait_lock|reflexivity].
Qed.
Lemma nw_do_timeout s r : now (fst (fst (do_timeout s r))) = now s.
Proof. unfold do_timeout. cbv zeta. nw_all. Qed.
Lemma nw_do_expried s r : now (fst (fst (do_expried s r))) = now s.
Proof. unfold do_expried. cbv zeta. nw_all. Qed.

Lemma nw_sweep_t_slot fuel : forall s slot nowv due, now (fst (sweep_t_slot fuel s slot nowv due)) = now s.
Proof. induction fuel as [|f IH]; intros s slot nowv due; simpl; [reflexivity|].
  repeat nw_step; cbn [fst]; rewrite ?IH; autorewrite with nwdb; reflexivity. Qed.
Lemma nw_sweep_long items : forall s b due, now (fst (sweep_long s items b due)) = now s.
Proof. induction items as [|r t IH]; intros s b due; simpl; [reflexivity|].
  repeat nw_step; rewrite ?IH; autorewrite with nwdb; reflexivity. Qed.
Lemma nw_collect_timeouts s t nowv : now (fst (collect_timeouts s t nowv)) = now s.
Proof. unfold collect_timeouts.
  match goal with |- context [sweep_t_slot ?f s ?sl nowv []] => pose proof (nw_sweep_t_slot f s sl nowv []) as X; destruct (sweep_t_slot f s sl nowv []) as [s1 due] end.
  cbn [fst] in X. destruct (aget (tlong s1) (lkey t)); [rewrite nw_sweep_long; autorewrite with nwdb|]; exact X. Qed.
Lemma nw_sweep_e_slot fuel : forall s slot nowv due ev, now (fst (fst (sweep_e_slot fuel s slot nowv due ev))) = now s.
Proof. induction fuel as [|f IH]; intros s slot nowv due ev; simpl; [reflexivity|].
  repeat nw_step; cbn [fst]; rewrite ?IH; nw_fin. Qed.
Lemma nw_collect_expiries s t nowv : now (fst (fst (collect_expiries s t nowv))) = now s.
Proof. unfold collect_expiries.
  match goal with |- context [sweep_e_slot ?f s ?sl nowv [] []] => pose proof (nw_sweep_e_slot f s sl nowv [] []) as X; destruct (sweep_e_slot f s sl nowv [] []) as [[s1 due] ev] end.
  cbn [fst] in X. destruct (aget (elong s1) (lkey t)); [|exact X].
  match goal with |- context [sweep_long ?s0 ?it false due] => pose proof (nw_sweep_long it s0 false due) as Y; destruct (sweep_long s0 it false due) end.
  cbn [fst] in *. rewrite Y. autorewrite with nwdb. exact X. Qed.
Lemma nw_fire_all f (Hf : forall s r, now (fst (fst (f s r))) = now s) due : forall s, now (fst (fire_all f s due)) = now s.
Proof. induction due as [|r t IH]; intros s; simpl; [reflexivity|].
  pose proof (nw_finish (f s r)) as X. destruct (finish (f s r)) as [s1 e1]. cbn [fst] in X.
  specialize (IH s1). destruct (fire_all f s1 t). cbn [fst] in *. rewrite IH, X. apply Hf. Qed.
Lemma nw_sweep_t_secs n : forall s t nowv, now (fst (sweep_t_secs n s t nowv)) = now s.
Proof. induction n as [|n IH]; intros s t nowv; simpl; [reflexivity|].
  pose proof (nw_collect_timeouts s t nowv) as X. destruct (collect_timeouts s t nowv) as [s1 due]. cbn [fst] in X.
  pose proof (nw_fire_all do_timeout nw_do_timeout due s1) as Y. destruct (fire_all do_timeout s1 due) as [s2 e2]. cbn [fst] in Y.
  specialize (IH s2 (t + 1)%Z nowv). destruct (sweep_t_secs n s2 (t + 1)%Z nowv). cbn [fst] in *. congruence. Qed.
Lemma nw_sweep_e_secs n : forall s t nowv, now (fst (sweep_e_secs n s t nowv)) = now s.
Proof. induction n as [|n IH]; intros s t nowv; simpl; [reflexivity|].
  pose proof (nw_collect_expiries s t nowv) as X. destruct (collect_expiries s t nowv) as [[s1 due] e1]. cbn [fst] in X.
  pose proof (nw_fire_all do_expried nw_do_expried due s1) as Y. destruct (fire_all do_expried s1 due) as [s2 e2]. cbn [fst] in Y.
  specialize (IH s2 (t + 1)%Z nowv). destruct (sweep_e_secs n s2 (t + 1)%Z nowv). cbn [fst] in *. congruence. Qed.

Lemma nw_new_lock s k conn c : now (fst (new_lock s k conn c)) = now s.
Proof. unfold new_lock. cbn [fst]. autorewrite with nwdb. reflexivity. Qed.

Ltac nw_step4 :=
  match goal with
  | |- context [let '(_, _) := new_lock ?s ?k ?cn ?c in _] => nw_pair (new_lock s k cn c) (nw_new_lock s k cn c)
  | _ => nw_step
  end.
Lemma nw_ls_tail s conn c k w : now (fst (fst (ls_tail s conn c k w))) = now s.
Proof. unfold ls_tail. cbv zeta. repeat (repeat nw_step4; nw_fin). Qed.
Lemma nw_ls_update s conn c1 k m r l ld res c' w :
  ls_update s conn c1 k m r l ld = (Some res, c', w) -> now (fst (fst res)) = now s.
Proof. unfold ls_update. cbv zeta. repeat nw_step; intros E; inversion E; subst; nw_fin. Qed.
Lemma nw_ls_relock s conn c1 k m r l ld res c' w :
  ls_relock s conn c1 k m r l ld = (Some res, c', w) -> now (fst (fst res)) = now s.
Proof. unfold ls_relock. cbv zeta. repeat nw_step; intros E; inversion E; subst; nw_fin. Qed.
Lemma nw_ls_held s conn c k m res c' w : ls_held s conn c k m = (Some res, c', w) -> now (fst (fst res)) = now s.
Proof. rewrite ls_held_eq. cbv zeta.
  repeat match goal with
  | |- (if ?b then _ else _) = _ -> _ => destruct b
  | |- (match ?x with _ => _ end) = _ -> _ => destruct x
  end; try (intros E; inversion E; subst; reflexivity); try apply nw_ls_update; try apply nw_ls_relock.
Qed.
Lemma nw_lock_step s conn c : now (fst (fst (lock_step s conn c))) = now s.
Proof. rewrite lock_step_eq. cbv zeta.
  destruct (ls_pre s conn c (c_key c)); [reflexivity|].
  assert (E0 : now (ls_mgr s (c_key c)) = now s) by (unfold ls_mgr; destruct (aget (mgrs s) (c_key c)); reflexivity).
  destruct (negb (leader (ls_mgr s (c_key c))) && negb (has (c_flag c) LOCK_FLAG_FROM_AOF)).
  - cbn [fst]. autorewrite with nwdb. exact E0.
  - destruct (ls_held (ls_mgr s (c_key c)) conn c (c_key c) (getm (ls_mgr s (c_key c)) (c_key c))) as [[[res|] c'] w] eqn:E.
    + rewrite (nw_ls_held _ _ _ _ _ _ _ _ E). exact E0.
    + rewrite nw_ls_tail. exact E0.
Qed.
Lemma nw_req s conn c : now (fst (step s (AReq conn c))) = now s.
Proof. cbn [step]. rewrite nw_finish. destruct (c_lock c); [apply nw_lock_step|apply nw_unlock_step]. Qed.
(* ================================================================ leader *)
Ltac dm_ld := match goal with
  | |- context [match ?x with _ => _ end] => destruct x eqn:?
  | |- context [if ?x then _ else _] => destruct x eqn:?
  | |- context [let '(_, _) := ?x in _] => destruct x eqn:?
  end.

Lemma ld_tw s x : leader (s <| twheel := x |>) = leader s.  Proof. reflexivity. Qed.
Lemma ld_tl s x : leader (s <| tlong := x |>) = leader s.  Proof. reflexivity. Qed.
Lemma ld_ew s x : leader (s <| ewheel := x |>) = leader s.  Proof. reflexivity. Qed.
Lemma ld_el s x : leader (s <| elong := x |>) = leader s.  Proof. reflexivity. Qed.
Lemma ld_updc s f : leader (updc s f) = leader s.  Proof. reflexivity. Qed.
Lemma ld_bump s f : leader (bump f s) = leader s.  Proof. reflexivity. Qed.
Lemma ld_setl s r l : leader (setl s r l) = leader s.  Proof. reflexivity. Qed.
#[export] Hint Rewrite ld_tw ld_tl ld_ew ld_el ld_updc ld_bump ld_setl : lddb.
Lemma ld_updl s r f : leader (updl s r f) = leader s.
Proof. unfold updl. dm_ld; reflexivity. Qed.
Lemma ld_updm s k f : leader (updm s k f) = leader s.
Proof. unfold updm. dm_ld; reflexivity. Qed.
Lemma ld_free_lock s r : leader (free_lock s r) = leader s.
Proof. unfold free_lock. dm_ld; [rewrite ld_updm|]; reflexivity. Qed.
Lemma ld_unref s r : leader (unref s r) = leader s.
Proof. unfold unref. repeat dm_ld; rewrite ?ld_free_lock; reflexivity. Qed.
Lemma ld_remove_mgr s k : leader (remove_mgr_if_unref s k) = leader s.
Proof. unfold remove_mgr_if_unref. repeat dm_ld; reflexivity. Qed.
#[export] Hint Rewrite ld_updl ld_updm ld_free_lock ld_unref ld_remove_mgr : lddb.

Lemma ld_hq_compact items : forall s, leader (fst (hq_compact s items)) = leader s.
Proof. induction items as [|r t IH]; intros s; simpl; [reflexivity|]. dm_ld.
  - specialize (IH s). destruct (hq_compact s t). exact IH.
  - rewrite IH. autorewrite with lddb. reflexivity. Qed.
Lemma ld_wq_compact items : forall s, leader (fst (wq_compact s items)) = leader s.
Proof. induction items as [|r t IH]; intros s; simpl; [reflexivity|]. dm_ld.
  - rewrite IH. autorewrite with lddb. reflexivity.
  - specialize (IH s). destruct (wq_compact s t). exact IH. Qed.
Lemma ld_hq_push s q r : leader (fst (hq_push s q r)) = leader s.
Proof. unfold hq_push. repeat dm_ld; try reflexivity; cbn [fst];
  match goal with H : hq_compact ?s0 ?it = (?s', _) |- _ => pose proof (ld_hq_compact it s0) as X; rewrite H in X; exact X end. Qed.
Lemma ld_wq_push s q r : leader (fst (wq_push s q r)) = leader s.
Proof. unfold wq_push. repeat dm_ld; try reflexivity; cbn [fst];
  match goal with H : wq_compact ?s0 ?it = (?s', _) |- _ => pose proof (ld_wq_compact it s0) as X; rewrite H in X; exact X end. Qed.
Lemma ld_promote fuel : forall s q, leader (fst (fst (promote fuel s q))) = leader s.
Proof. induction fuel as [|f IH]; intros s q; simpl; [reflexivity|]. repeat dm_ld; try reflexivity. rewrite IH. autorewrite with lddb. reflexivity. Qed.
Lemma ld_drop_dead fuel : forall s q, leader (fst (drop_dead_heads fuel s q)) = leader s.
Proof. induction fuel as [|f IH]; intros s q; simpl; [reflexivity|]. repeat dm_ld; try reflexivity. rewrite IH. autorewrite with lddb. reflexivity. Qed.
Lemma ld_remove_lock s k r : leader (remove_lock s k r) = leader s.
Proof. unfold remove_lock. repeat dm_ld; autorewrite with lddb; try reflexivity.
  - match goal with H : promote ?f ?s0 ?q = _ |- _ => pose proof (ld_promote f s0 q) as X; rewrite H in X; cbn [fst] in X; rewrite X end. autorewrite with lddb. reflexivity.
  - match goal with H : drop_dead_heads ?f ?s0 ?q = _ |- _ => pose proof (ld_drop_dead f s0 q) as X; rewrite H in X; cbn [fst] in X; rewrite X end. autorewrite with lddb. reflexivity.
Qed.
Lemma ld_add_wait_lock s k r : leader (add_wait_lock s k r) = leader s.
Proof. unfold add_wait_lock. cbv zeta. match goal with |- context [wq_push ?s0 ?q r] => pose proof (ld_wq_push s0 q r) as X; destruct (wq_push s0 q r) end.
  cbn [fst] in X. autorewrite with lddb. exact X. Qed.
Lemma ld_get_wait_loop fuel : forall s q, leader (fst (fst (get_wait_loop fuel s q))) = leader s.
Proof. induction fuel as [|f IH]; intros s q; simpl; [reflexivity|]. repeat dm_ld; try reflexivity. rewrite IH. autorewrite with lddb. reflexivity. Qed.
Lemma ld_get_wait_lock s k : leader (fst (get_wait_lock s k)) = leader s.
Proof. unfold get_wait_lock. dm_ld; [|reflexivity]. match goal with |- context [get_wait_loop ?f ?s0 ?q] => pose proof (ld_get_wait_loop f s0 q) as X; destruct (get_wait_loop f s0 q) as [[? ?] ?] end.
  cbn [fst] in *. autorewrite with lddb. exact X. Qed.
#[export] Hint Rewrite ld_remove_lock ld_add_wait_lock ld_get_wait_lock : lddb.

Lemma ld_push_lock_aof s k r f : leader (fst (push_lock_aof s k r f)) = leader s.
Proof. unfold push_lock_aof. repeat dm_ld; cbn [fst]; autorewrite with lddb; reflexivity. Qed.
Lemma ld_push_unlock_aof s k r lc uc b f : leader (fst (push_unlock_aof s k r lc uc b f)) = leader s.
Proof. unfold push_unlock_aof. repeat dm_ld; cbn [fst]; autorewrite with lddb; reflexivity. Qed.
Lemma ld_repeat_push n : forall s k r, leader (fst (repeat_push_lock_aof n s k r)) = leader s.
Proof. induction n as [|n IH]; intros s k r; simpl; [reflexivity|].
  pose proof (ld_push_lock_aof s k r 0) as X. destruct (push_lock_aof s k r 0) as [s1 e1]. cbn [fst] in X.
  specialize (IH s1 k r). destruct (repeat_push_lock_aof n s1 k r). cbn [fst] in *. congruence. Qed.
Lemma ld_add_timeout s r : leader (add_timeout s r) = leader s.
Proof. unfold add_timeout. cbv zeta. dm_ld; autorewrite with lddb; cbn [leader]; autorewrite with lddb; reflexivity. Qed.
Lemma ld_add_expried s k r : leader (fst (add_expried s k r)) = leader s.
Proof. unfold add_expried. cbv zeta. 
  match goal with |- leader (fst (if ?c then repeat_push_lock_aof ?n ?s0 k r else _)) = _ =>
    assert (X : leader s0 = leader s); [|destruct c; [rewrite ld_repeat_push|cbn [fst]]; exact X] end.
  dm_ld; autorewrite with lddb; cbn [leader]; autorewrite with lddb; reflexivity. Qed.
Lemma ld_remove_long_timeout s r : leader (remove_long_timeout s r) = leader s.
Proof. unfold remove_long_timeout. repeat dm_ld; autorewrite with lddb; reflexivity. Qed.
Lemma ld_remove_long_expried s r t : leader (remove_long_expried s r t) = leader s.
Proof. unfold remove_long_expried. repeat dm_ld; autorewrite with lddb; reflexivity. Qed.
#[export] Hint Rewrite ld_add_timeout ld_remove_long_timeout ld_remove_long_expried : lddb.

Lemma ld_add_lock s k r : leader (add_lock s k r) = leader s.
Proof. unfold add_lock. cbv zeta. dm_ld; autorewrite with lddb; try reflexivity.
  match goal with |- context [hq_push ?s0 ?q r] => pose proof (ld_hq_push s0 q r) as X; destruct (hq_push s0 q r) end.
  cbn [fst] in X. autorewrite with lddb. rewrite X. autorewrite with lddb. reflexivity. Qed.
Lemma ld_process_data s k r c b : leader (fst (process_data s k r c b)) = leader s.
Proof. unfold process_data. repeat dm_ld; cbn [fst]; autorewrite with lddb; reflexivity. Qed.
Lemma ld_update_locked_lock s k r c : leader (update_locked_lock s k r c) = leader s.
Proof. reflexivity. Qed.
Lemma ld_update_and_rearm s k r c : leader (fst (update_and_rearm s k r c)) = leader s.
Proof. unfold update_and_rearm. cbv zeta. repeat dm_ld; cbn [fst]; autorewrite with lddb; try reflexivity.
  match goal with H : add_expried ?s0 k r = (?s1, _) |- _ => pose proof (ld_add_expried s0 k r) as X; rewrite H in X; cbn [fst] in X; rewrite X end.
  autorewrite with lddb. reflexivity. Qed.
#[export] Hint Rewrite ld_add_lock ld_update_locked_lock : lddb.


(* ---------------------------------------------------------------- critical sections *)
Ltac ld_pair f lem :=
  let X := fresh "X" in pose proof lem as X; destruct f; cbn [fst] in X.
Ltac ld_step :=
  match goal with
  | |- context [let '(_, _) := (if ?b then _ else _) in _] => destruct b
  | |- context [let '(_, _) := (_, _) in _] => cbv iota beta
  | |- context [let '(_, _) := push_lock_aof ?s ?k ?r ?f in _] => ld_pair (push_lock_aof s k r f) (ld_push_lock_aof s k r f)
  | |- context [let '(_, _) := push_unlock_aof ?s ?k ?r ?a ?b ?c ?d in _] => ld_pair (push_unlock_aof s k r a b c d) (ld_push_unlock_aof s k r a b c d)
  | |- context [let '(_, _) := add_expried ?s ?k ?r in _] => ld_pair (add_expried s k r) (ld_add_expried s k r)
  | |- context [let '(_, _) := process_data ?s ?k ?r ?c ?b in _] => ld_pair (process_data s k r c b) (ld_process_data s k r c b)
  | |- context [let '(_, _) := update_and_rearm ?s ?k ?r ?c in _] => ld_pair (update_and_rearm s k r c) (ld_update_and_rearm s k r c)
  | |- context [let '(_, _) := get_wait_lock ?s ?k in _] => ld_pair (get_wait_lock s k) (ld_get_wait_lock s k)
  | |- context [let '(_, _) := (match process_recover_lock_data ?a ?b with _ => _ end) in _] => destruct (process_recover_lock_data a b)
  | |- context [let '(_, _) := (let '(_, _) := ?a in _) in _] => is_var a; destruct a
  | |- context [if ?b then _ else _] => destruct b
  | |- context [match ?x with _ => _ end] => destruct x
  end.
Ltac ld_fin :=
  cbn [fst snd]; autorewrite with lddb;
  repeat (match goal with X : leader ?a = _ |- context [leader ?a] => rewrite X; clear X end; autorewrite with lddb);
  try reflexivity.
Ltac ld_all := repeat (repeat ld_step; ld_fin).

Lemma ld_wake_grant s k r via : leader (fst (wake_grant s k r via)) = leader s.
Proof. unfold wake_grant. cbv zeta. ld_all. Qed.
Ltac ld_step2 :=
  match goal with
  | |- context [let '(_, _) := wake_grant ?s ?k ?r ?v in _] => ld_pair (wake_grant s k r v) (ld_wake_grant s k r v)
  | _ => ld_step
  end.
Lemma ld_wake_iter s w : leader (fst (fst (wake_iter s w))) = leader s.
Proof. unfold wake_iter. cbv zeta. repeat (repeat ld_step2; ld_fin). Qed.
Lemma ld_run_wake fuel : forall s w, leader (fst (run_wake fuel s w)) = leader s.
Proof. induction fuel as [|f IH]; intros s w; simpl; [reflexivity|].
  pose proof (ld_wake_iter s w) as X. destruct (wake_iter s w) as [[s1 e1] [|]]; cbn [fst] in *; [exact X|].
  specialize (IH s1 w). destruct (run_wake f s1 w). cbn [fst] in *. congruence. Qed.
Lemma ld_finish res : leader (fst (finish res)) = leader (fst (fst res)).
Proof. destruct res as [[s ev] [w|]]; unfold finish; [|reflexivity].
  pose proof (ld_run_wake (wake_fuel s (w_key w)) s w) as X. destruct (run_wake (wake_fuel s (w_key w)) s w). exact X. Qed.
Lemma ld_cancel_wait_lock s conn c : leader (fst (fst (cancel_wait_lock s conn c))) = leader s.
Proof. unfold cancel_wait_lock. cbv zeta. ld_all. Qed.
Lemma ld_release_hold s k conn c r d : leader (fst (release_hold s k conn c r d)) = leader s.
Proof. unfold release_hold. cbv zeta. ld_all. Qed.
Ltac ld_step3 :=
  match goal with
  | |- context [let '(_, _) := release_hold ?s ?k ?cn ?c ?r ?d in _] => ld_pair (release_hold s k cn c r d) (ld_release_hold s k cn c r d)
  | _ => ld_step
  end.
Lemma ld_ul_body s conn c k r : leader (fst (fst (ul_body s conn c k r))) = leader s.
Proof. unfold ul_body. cbv zeta. repeat (repeat ld_step3; ld_fin). Qed.
Lemma ld_unlock_step s conn c : leader (fst (fst (unlock_step s conn c))) = leader s.
Proof. rewrite unlock_step_eq. cbv zeta.
  destruct (aget (mgrs s) (c_key c)) as [m|]; [|reflexivity].
  destruct (negb (leader s) && negb (has (c_flag c) UNLOCK_FLAG_FROM_AOF)); [reflexivity|].
  destruct (m_locked m =? 0); [destruct (has (c_flag c) UNLOCK_FLAG_CANCEL_WAIT); [apply ld_cancel_wait_lock|reflexivity]|].
  unfold ul_target. cbv zeta.
  destruct (get_locked_lock s m (c_lockid c)) as [r|].
  - destruct (negb (l_ack (getl s r) =? 255)); [reflexivity|apply ld_ul_body].
  - destruct (has (c_flag c) UNLOCK_FLAG_FIRST).
    + destruct (m_cur m) as [cr|]; [|reflexivity]. destruct (negb (l_ack (getl s cr) =? 255)); [reflexivity|apply ld_ul_body].
    + destruct (has (c_flag c) UNLOCK_FLAG_CANCEL_WAIT); [apply ld_cancel_wait_lock|reflexivity].
Qed.
Lemma ld_do_timeout s r : leader (fst (fst (do_timeout s r))) = leader s.
Proof. unfold do_timeout. cbv zeta. ld_all. Qed.
Lemma ld_do_expried s r : leader (fst (fst (do_expried s r))) = leader s.
Proof. unfold do_expried. cbv zeta. ld_all. Qed.

Lemma ld_sweep_t_slot fuel : forall s slot nowv due, leader (fst (sweep_t_slot fuel s slot nowv due)) = leader s.
Proof. induction fuel as [|f IH]; intros s slot nowv due; simpl; [reflexivity|].
  repeat ld_step; cbn [fst]; rewrite ?IH; autorewrite with lddb; reflexivity. Qed.
Lemma ld_sweep_long items : forall s b due, leader (fst (sweep_long s items b due)) = leader s.
Proof. induction items as [|r t IH]; intros s b due; simpl; [reflexivity|].
  repeat ld_step; rewrite ?IH; autorewrite with lddb; reflexivity. Qed.
Lemma ld_collect_timeouts s t nowv : leader (fst (collect_timeouts s t nowv)) = leader s.
Proof. unfold collect_timeouts.
  match goal with |- context [sweep_t_slot ?f s ?sl nowv []] => pose proof (ld_sweep_t_slot f s sl nowv []) as X; destruct (sweep_t_slot f s sl nowv []) as [s1 due] end.
  cbn [fst] in X. destruct (aget (tlong s1) (lkey t)); [rewrite ld_sweep_long; autorewrite with lddb|]; exact X. Qed.
Lemma ld_sweep_e_slot fuel : forall s slot nowv due ev, leader (fst (fst (sweep_e_slot fuel s slot nowv due ev))) = leader s.
Proof. induction fuel as [|f IH]; intros s slot nowv due ev; simpl; [reflexivity|].
  repeat ld_step; cbn [fst]; rewrite ?IH; ld_fin. Qed.
Lemma ld_collect_expiries s t nowv : leader (fst (fst (collect_expiries s t nowv))) = leader s.
Proof. unfold collect_expiries.
  match goal with |- context [sweep_e_slot ?f s ?sl nowv [] []] => pose proof (ld_sweep_e_slot f s sl nowv [] []) as X; destruct (sweep_e_slot f s sl nowv [] []) as [[s1 due] ev] end.
  cbn [fst] in X. destruct (aget (elong s1) (lkey t)); [|exact X].
  match goal with |- context [sweep_long ?s0 ?it false due] => pose proof (ld_sweep_long it s0 false due) as Y; destruct (sweep_long s0 it false due) end.
  cbn [fst] in *. rewrite Y. autorewrite with lddb. exact X. Qed.
Lemma ld_fire_all f (Hf : forall s r, leader (fst (fst (f s r))) = leader s) due : forall s, leader (fst (fire_all f s due)) = leader s.
Proof. induction due as [|r t IH]; intros s; simpl; [reflexivity|].
  pose proof (ld_finish (f s r)) as X. destruct (finish (f s r)) as [s1 e1]. cbn [fst] in X.
  specialize (IH s1). destruct (fire_all f s1 t). cbn [fst] in *. rewrite IH, X. apply Hf. Qed.
Lemma ld_sweep_t_secs n : forall s t nowv, leader (fst (sweep_t_secs n s t nowv)) = leader s.
Proof. induction n as [|n IH]; intros s t nowv; simpl; [reflexivity|].
  pose proof (ld_collect_timeouts s t nowv) as X. destruct (collect_timeouts s t nowv) as [s1 due]. cbn [fst] in X.
  pose proof (ld_fire_all do_timeout ld_do_timeout due s1) as Y. destruct (fire_all do_timeout s1 due) as [s2 e2]. cbn [fst] in Y.
  specialize (IH s2 (t + 1)%Z nowv). destruct (sweep_t_secs n s2 (t + 1)%Z nowv). cbn [fst] in *. congruence. Qed.
Lemma ld_sweep_e_secs n : forall s t nowv, leader (fst (sweep_e_secs n s t nowv)) = leader s.
Proof. induction n as [|n IH]; intros s t nowv; simpl; [reflexivity|].
  pose proof (ld_collect_expiries s t nowv) as X. destruct (collect_expiries s t nowv) as [[s1 due] e1]. cbn [fst] in X.
  pose proof (ld_fire_all do_expried ld_do_expried due s1) as Y. destruct (fire_all do_expried s1 due) as [s2 e2]. cbn [fst] in Y.
  specialize (IH s2 (t + 1)%Z nowv). destruct (sweep_e_secs n s2 (t + 1)%Z nowv). cbn [fst] in *. congruence. Qed.

Lemma ld_new_lock s k conn c : leader (fst (new_lock s k conn c)) = leader s.
Proof. unfold new_lock. cbn [fst]. autorewrite with lddb. reflexivity. Qed.

Ltac ld_step4 :=
  match goal with
  | |- context [let '(_, _) := new_lock ?s ?k ?cn ?c in _] => ld_pair (new_lock s k cn c) (ld_new_lock s k cn c)
  | _ => ld_step
  end.
Lemma ld_ls_tail s conn c k w : leader (fst (fst (ls_tail s conn c k w))) = leader s.
Proof. unfold ls_tail. cbv zeta. repeat (repeat ld_step4; ld_fin). Qed.
Lemma ld_ls_update s conn c1 k m r l ld res c' w :
  ls_update s conn c1 k m r l ld = (Some res, c', w) -> leader (fst (fst res)) = leader s.
Proof. unfold ls_update. cbv zeta. repeat ld_step; intros E; inversion E; subst; ld_fin. Qed.
Lemma ld_ls_relock s conn c1 k m r l ld res c' w :
  ls_relock s conn c1 k m r l ld = (Some res, c', w) -> leader (fst (fst res)) = leader s.
Proof. unfold ls_relock. cbv zeta. repeat ld_step; intros E; inversion E; subst; ld_fin. Qed.
Lemma ld_ls_held s conn c k m res c' w : ls_held s conn c k m = (Some res, c', w) -> leader (fst (fst res)) = leader s.
Proof. rewrite ls_held_eq. cbv zeta.
  repeat match goal with
  | |- (if ?b then _ else _) = _ -> _ => destruct b
  | |- (match ?x with _ => _ end) = _ -> _ => destruct x
  end; try (intros E; inversion E; subst; reflexivity); try apply ld_ls_update; try apply ld_ls_relock.
Qed.
Lemma ld_lock_step s conn c : leader (fst (fst (lock_step s conn c))) = leader s.
Proof. rewrite lock_step_eq. cbv zeta.
  destruct (ls_pre s conn c (c_key c)); [reflexivity|].
  assert (E0 : leader (ls_mgr s (c_key c)) = leader s) by (unfold ls_mgr; destruct (aget (mgrs s) (c_key c)); reflexivity).
  destruct (negb (leader (ls_mgr s (c_key c))) && negb (has (c_flag c) LOCK_FLAG_FROM_AOF)).
  - cbn [fst]. autorewrite with lddb. exact E0.
  - destruct (ls_held (ls_mgr s (c_key c)) conn c (c_key c) (getm (ls_mgr s (c_key c)) (c_key c))) as [[[res|] c'] w] eqn:E.
    + rewrite (ld_ls_held _ _ _ _ _ _ _ _ E). exact E0.
    + rewrite ld_ls_tail. exact E0.
Qed.
Lemma ld_req s conn c : leader (fst (step s (AReq conn c))) = leader s.
Proof. cbn [step]. rewrite ld_finish. destruct (c_lock c); [apply ld_lock_step|apply ld_unlock_step]. Qed.
