(* The reference-count floor, part 4: cancelWaitLock, LockDB.UnLock. *)
From Coq Require Import String ZifyN ZifyBool ZifyNat Permutation.
From Slock Require Import Engine.Types Engine.Queues Engine.Timers Engine.Engine Engine.Engine2 Engine.InvDef Engine.InvBase
  Engine.InvPrims Engine.InvRec Engine.InvWheel Engine.InvQueue Engine.InvQueue2 Engine.InvSteps Engine.InvLockDefs Engine.InvLock
  Engine.InvUnlock Engine.LocalBase Engine.RunDrain Engine.RunDrainQ Engine.RunDrainSteps Engine.RunDrainSteps2
  Engine.RunDrainFloor Engine.RunDrainFloor2 Engine.RunDrainFloor3.
Open Scope N_scope.

(* ---------------------------------------------------------------- cancelWaitLock *)
Lemma cancel_wait_lock_JR s xt xe conn c :
  GInv s (gk xt xe (c_key c)) -> JR s xe -> JR (fst (fst (cancel_wait_lock s conn c))) xe.
Proof.
  intros G HJ. unfold cancel_wait_lock. cbv zeta. set (k := c_key c) in *.
  destruct (match m_wait (getm s k) with Some q => find_last_waiter s (wq_items q) (c_lockid c) None | None => None end) as [r|] eqn:Ew.
  - assert (Hlive : l_timeouted (getl s r) = false).
    { destruct (m_wait (getm s k)) as [q|]; [|discriminate]. destruct (find_last_waiter_spec _ _ _ _ _ Ew) as [H|[_ H]]; [discriminate|auto]. }
    destruct (aget (store s) r) as [l|] eqn:Hr; [|rewrite (getl_none _ _ Hr) in Hlive; discriminate].
    rewrite (getl_some _ _ _ Hr) in *.
    destruct (ro_live _ _ _ _ (gi_rec _ _ G r l Hr) Hlive) as [_ [_ [Hd Hq]]].
    rewrite Hd. change (0 <? 0) with false. cbv iota.
    assert (Ewg : wg_pre s r = if l_long l then remove_long_timeout (updl s r (fun l0 => l0 <| l_timeouted := true |>)) r
                               else updl s r (fun l0 => l0 <| l_timeouted := true |>)).
    { unfold wg_pre. rewrite (getl_some _ _ _ Hr). reflexivity. }
    rewrite <- Ewg.
    destruct (wg_pre_ginv s xt xe k r l G Hr Hlive) as [G1 [l2 [Hr2 [K2 [_ [D2 [_ [_ [_ [M2 _]]]]]]]]]].
    remember (wg_pre s r) as x0 eqn:Ex0.
    assert (N0 : NF (Some r) (Some r) s x0) by (rewrite Ex0; apply NF_wg_pre, NF_refl). clear Ex0.
    (* at x0 the cancelled waiter is still in the wait queue *)
    assert (J0 : JR x0 xe).
    { apply (JR_transfer (Some r) s x0 xe xe HJ N0); [auto|].
      intros t l' Et Hl'. assert (t = r) by congruence. subst t. assert (l' = l2) by congruence. subst l'.
      apply (JRr_ref_wq_g x0 _ xe r l2 G1); [repeat split|exact Hr2|exact D2|].
      rewrite K2. unfold getm. rewrite M2. apply occ_In. fold (getm s (l_key l)). lia. }
    destruct (get_wait_lock x0 k) as [s1 w] eqn:Egw.
    cbn [fst]. eapply JR_transfer_all; [exact J0|].
    apply NF_bump. apply NF_remove_mgr. apply NF_bump.
    assert (N1 : NF None None x0 s1) by (eapply NF_get_wait_lock; [exact Egw|apply NF_refl]).
    destruct w; [exact N1|apply NF_updm; exact N1].
  - cbn [fst]. eapply JR_transfer_all; [exact HJ|]. apply NF_bump, NF_refl.
Qed.

(* ---------------------------------------------------------------- RemoveLock: the removed record has depth 0 afterwards *)
Lemma remove_lock_split x k r :
  exists x1, NF None None x1 (remove_lock x k r) /\ (forall l1, aget (store x1) r = Some l1 -> l_locked l1 = 0)
             /\ ewheel x1 = ewheel x /\ elong x1 = elong x.
Proof.
  unfold remove_lock. cbv zeta.
  set (x0 := updl x r (fun l => l <| l_locked := 0 |> <| l_ack := 255 |>)).
  assert (H0 : forall l1, aget (store x0) r = Some l1 -> l_locked l1 = 0).
  { intros l1 H. unfold x0 in H. rewrite aget_store_updl, N.eqb_refl in H. destruct (aget (store x) r); [|discriminate]. simpl in H. inv H. reflexivity. }
  assert (W0 : ewheel x0 = ewheel x /\ elong x0 = elong x) by (unfold x0; rewrite ew_updl, el_updl; auto).
  match goal with |- context [if ?c then _ else _] => destruct c end.
  - set (x1 := updl x0 r (fun l => l <| l_refc := dec8 (l_refc l) |>)).
    exists x1. split; [|split].
    + destruct (m_locks (getm x0 k)) as [q|]; [|apply NF_updm, NF_refl].
      destruct (promote _ x1 q) as [[x2 q2] nc] eqn:E. apply NF_updm. eapply NF_promote; [exact E|apply NF_refl].
    + intros l1 H. unfold x1 in H. rewrite aget_store_updl, N.eqb_refl in H. destruct (aget (store x0) r) as [l0|] eqn:E0; [|discriminate].
      simpl in H. inv H. cbn. apply (H0 l0 eq_refl).
    + unfold x1. rewrite ew_updl, el_updl. exact W0.
  - exists x0. split; [|split; [exact H0|exact W0]].
    destruct (m_locks (getm x0 k)) as [q|]; [|apply NF_refl].
    destruct (drop_dead_heads _ x0 _) as [x2 q2] eqn:E. apply NF_updm. eapply NF_drop_dead_heads; [exact E|apply NF_refl].
Qed.

Lemma remove_lock_locked0 x k r l' : aget (store (remove_lock x k r)) r = Some l' -> l_locked l' = 0.
Proof.
  intros H. destruct (remove_lock_split x k r) as (x1 & [A _] & B & _).
  destruct (A r l') as (l1 & E1 & (_ & N1 & _)); [discriminate|exact H|]. rewrite N1. apply (B l1 E1).
Qed.

(* RemoveLock keeps every entry of the expiry structures *)
Lemma remove_lock_wheels x k r : ewheel (remove_lock x k r) = ewheel x /\ elong (remove_lock x k r) = elong x.
Proof.
  assert (L1 : forall fuel x q, ewheel (fst (fst (promote fuel x q))) = ewheel x /\ elong (fst (fst (promote fuel x q))) = elong x).
  { induction fuel as [|f IH]; intros y q; simpl; [auto|]. destruct (hq_pop q) as [[r0|] q1]; [|auto].
    destruct (0 <? l_locked (getl y r0)); [auto|]. destruct (IH (unref y r0) q1) as [A B]. rewrite A, B, ew_unref, el_unref. auto. }
  assert (L2 : forall fuel x q, ewheel (fst (drop_dead_heads fuel x q)) = ewheel x /\ elong (fst (drop_dead_heads fuel x q)) = elong x).
  { induction fuel as [|f IH]; intros y q; simpl; [auto|]. destruct (hq_head q) as [r0|]; [|auto].
    destruct (0 <? l_locked (getl y r0)); [auto|]. destruct (hq_pop q) as [o q1]. destruct (IH (unref y r0) q1) as [A B]. rewrite A, B, ew_unref, el_unref. auto. }
  unfold remove_lock. cbv zeta.
  match goal with |- context [if ?c then _ else _] => destruct c end.
  - destruct (m_locks (getm _ k)) as [q|].
    + match goal with |- context [promote ?f ?y q] => destruct (L1 f y q) as [A B]; destruct (promote f y q) as [[x2 q2] nc] end.
      cbn [fst] in *. rewrite ew_updm, el_updm, A, B, !ew_updl, !el_updl. auto.
    + rewrite ew_updm, el_updm, !ew_updl, !el_updl. auto.
  - destruct (m_locks (getm _ k)) as [q|].
    + match goal with |- context [drop_dead_heads ?f ?y ?q0] => destruct (L2 f y q0) as [A B]; destruct (drop_dead_heads f y q0) as [x2 q2] end.
      cbn [fst] in *. rewrite ew_updm, el_updm, A, B, !ew_updl, !el_updl. auto.
    + rewrite !ew_updl, !el_updl. auto.
Qed.

(* ---------------------------------------------------------------- release_hold: end state as an equation *)
Definition pua (x : db) (k : N) (r : ref) (hc c : cmd) : db :=
  if l_isaof (getl x r) then fst (push_unlock_aof x k r hc (Some c) false 0) else x.
Definition rel_long (x : db) (k : N) (r : ref) : db :=
  let x4 := remove_lock x k r in
  if l_refc (getl x4 r) =? 0 then remove_mgr_if_unref (free_lock x4 r) k else x4.

Lemma release_hold_cases s k conn c r d : c_data c = None ->
  let s1 := updl s r (fun l => l <| l_expried := true |>) in
  let hc := l_cmd (getl s r) in
  fst (release_hold s k conn c r d) =
  bump (fun n => n <| n_unlock := (n_unlock n + Z.of_N d)%Z |> <| n_locked := (n_locked n - Z.of_N d)%Z |>)
       (if l_long (getl s1 r) then rel_long (pua (remove_long_expried s1 r (l_eT (getl s1 r))) k r hc c) k r
        else remove_lock (pua s1 k r hc c) k r).
Proof.
  intros Hc. cbv zeta. unfold release_hold, pua, rel_long. cbv zeta.
  set (s1 := updl s r (fun l => l <| l_expried := true |>)).
  destruct (has_udata_flag c); rewrite ?(process_data_core _ _ _ _ _ Hc); cbv iota beta;
    (destruct (l_long (getl s1 r));
     [match goal with |- context [l_isaof (getl ?X r)] => destruct (l_isaof (getl X r)) end;
      [match goal with |- context [push_unlock_aof ?a1 ?a2 ?a3 ?a4 ?a5 ?a6 ?a7] => destruct (push_unlock_aof a1 a2 a3 a4 a5 a6 a7) as [s3 aev] end|];
      reflexivity
     |destruct (l_isaof (getl s1 r));
      [match goal with |- context [push_unlock_aof ?a1 ?a2 ?a3 ?a4 ?a5 ?a6 ?a7] => destruct (push_unlock_aof a1 a2 a3 a4 a5 a6 a7) as [s3 aev] end|];
      reflexivity]).
Qed.

Lemma NF_pua Tr Tw s x k r hc c : NF Tr Tw s x -> NF Tr Tw s (pua x k r hc c).
Proof. intros H. unfold pua. destruct (l_isaof (getl x r)); [apply NF_fst_push_unlock_aof|]; exact H. Qed.

Lemma Ein_wheels_eq x x' xe r : ewheel x' = ewheel x -> elong x' = elong x -> Ein x xe r -> Ein x' xe r.
Proof. intros E1 E2 H. unfold Ein in *. rewrite E1, E2. exact H. Qed.

Lemma pua_wheels x k r hc c : ewheel (pua x k r hc c) = ewheel x /\ elong (pua x k r hc c) = elong x.
Proof.
  unfold pua. destruct (l_isaof (getl x r)); [|auto].
  unfold push_unlock_aof. destruct (negb (leader x)); [auto|].
  destruct (has (c_flag c) UNLOCK_FLAG_FROM_AOF); cbn [fst]; [rewrite ew_updl, el_updl; auto|].
  destruct (aof_lock_data false (m_data (getm x k)) (l_data (getl x r))) as [[d0 c'] ld']. cbn [fst].
  rewrite !ew_updl, !el_updl, ew_updm, el_updm. auto.
Qed.

Lemma release_hold_JR s xt xe k conn c r l d m :
  GInv s (gkd xt xe k (Z.of_N d) (- Z.of_N d) 0) -> aget (store s) r = Some l -> l_key l = k -> l_locked l = d -> 0 < d ->
  l_timeouted l = true -> aget (mgrs s) k = Some m -> occ r (holders m) = 1%nat -> c_data c = None ->
  JR s xe -> JR (fst (release_hold s k conn c r d)) xe.
Proof.
  intros G Hr Hkey Hd Hpos Ht Hm Hh Hc HJ.
  pose proof (release_hold_ginv s xt xe k conn c r l d m G Hr Hkey Hd Hpos Ht Hm Hh Hc) as GE.
  rewrite (release_hold_cases s k conn c r d Hc) in *. cbv zeta in *.
  set (s1 := updl s r (fun l0 => l0 <| l_expried := true |>)) in *.
  set (hc := l_cmd (getl s r)) in *.
  assert (N1 : NF (Some r) None s s1) by (unfold s1; apply NF_updl_T, NF_refl).
  assert (Hein : Ein s xe r) by (destruct (HJ r l Hr) as (_ & B & _); apply B; lia).
  destruct (l_long (getl s1 r)).
  - (* long-table entry: removed; the record is freed when that was its last reference *)
    set (x3 := pua (remove_long_expried s1 r (l_eT (getl s1 r))) k r hc c) in *.
    assert (N3 : NF (Some r) (Some r) s x3).
    { unfold x3. apply NF_pua. apply NF_remove_long_expried. apply NF_weaken_w. exact N1. }
    unfold rel_long in *. cbv zeta in *.
    pose proof (NF_remove_lock (Some r) s x3 k r N3) as N4.
    set (x4 := remove_lock x3 k r) in *.
    destruct (l_refc (getl x4 r) =? 0) eqn:E0.
    + apply (free_end_JR s x4 _ xe r HJ N4); [unfold bump, updc; cbn [store]; apply store_remove_mgr|nf].
    + apply (JR_transfer (Some r) s _ xe xe HJ); [nf|auto|].
      intros t l' Et Hl'. assert (t = r) by congruence. subst t.
      change (store (bump _ x4)) with (store x4) in Hl'.
      apply JRr_refc; [rewrite (getl_some _ _ _ Hl') in E0; apply N.eqb_neq; exact E0|].
      apply (remove_lock_locked0 x3 k r l' Hl').
  - (* wheel entry: stays until the sweeper drops it *)
    set (x3 := pua s1 k r hc c) in *.
    assert (N3 : NF (Some r) None s x3) by (unfold x3; apply NF_pua; exact N1).
    pose proof (NF_remove_lock None s x3 k r N3) as N4.
    set (x4 := remove_lock x3 k r) in *.
    assert (W4 : ewheel x4 = ewheel s /\ elong x4 = elong s).
    { destruct (remove_lock_wheels x3 k r) as [A B]. destruct (pua_wheels s1 k r hc c) as [C D]. fold x3 in C, D. fold x4 in A, B.
      unfold s1 in C, D. rewrite ew_updl in C. rewrite el_updl in D. split; congruence. }
    match type of GE with GInv ?S _ => remember S as s' eqn:Es' end.
    assert (Est : store s' = store x4) by (rewrite Es'; reflexivity).
    assert (Eew : ewheel s' = ewheel x4) by (rewrite Es'; reflexivity).
    assert (Eel : elong s' = elong x4) by (rewrite Es'; reflexivity).
    apply (JR_transfer (Some r) s s' xe xe HJ); [rewrite Es'; apply NF_bump; apply NF_weaken_w; exact N4|auto|].
    intros t l' Et Hl'. assert (t = r) by congruence. subst t.
    apply (JRr_ref_e s' xt xe k r l' GE Hl').
    + rewrite Est in Hl'. apply (remove_lock_locked0 x3 k r l' Hl').
    + destruct W4 as [W4 W5]. apply (Ein_wheels_eq s s' xe r); [congruence|congruence|exact Hein].
Qed.

(* ---------------------------------------------------------------- LockDB.UnLock *)
Definition pua1 (x : db) (k : N) (r : ref) (c : cmd) : db :=
  if l_isaof (getl x r) then fst (push_unlock_aof x k r (l_cmd (getl x r)) (Some c) true AOF_FLAG_UPDATED) else x.
Definition ul_one (s : db) (k : N) (r : ref) (c : cmd) : db :=
  bump (fun n => n <| n_unlock := (n_unlock n + 1)%Z |> <| n_locked := (n_locked n - 1)%Z |>)
       (pua1 (updm (updl s r (fun l => l <| l_locked := dec8 (l_locked l) |>)) k (fun m => m <| m_locked := sub32 (m_locked m) 1 |>)) k r c).

Lemma ul_body_cases s conn c k r : c_data c = None ->
  fst (fst (ul_body s conn c k r)) =
  if 1 <? l_locked (getl s r) then
    if (0 <? c_rcount c) && negb (has (c_tflag c) TF_PRIORITY) then ul_one s k r c
    else fst (release_hold (updm s k (fun m => m <| m_locked := sub32 (m_locked m) (l_locked (getl s r)) |>)) k conn c r (l_locked (getl s r)))
  else fst (release_hold (updm s k (fun m => m <| m_locked := sub32 (m_locked m) 1 |>)) k conn c r 1).
Proof.
  intros Hc. unfold ul_body, ul_one, pua1. cbv zeta.
  destruct (1 <? l_locked (getl s r)).
  - destruct ((0 <? c_rcount c) && negb (has (c_tflag c) TF_PRIORITY)).
    + destruct (has_udata_flag c); rewrite ?(process_data_core _ _ _ _ _ Hc); cbv iota beta;
        match goal with |- context [l_isaof (getl ?X r)] => destruct (l_isaof (getl X r)) end;
        try match goal with |- context [push_unlock_aof ?a1 ?a2 ?a3 ?a4 ?a5 ?a6 ?a7] => destruct (push_unlock_aof a1 a2 a3 a4 a5 a6 a7) as [s3 aev] end;
        reflexivity.
    + destruct (release_hold _ k conn c r (l_locked (getl s r))) as [s2 ev]. reflexivity.
  - destruct (release_hold _ k conn c r 1) as [s2 ev]. reflexivity.
Qed.

Lemma ul_body_JR s xt xe conn c k r l m :
  GInv s (gk xt xe k) -> aget (mgrs s) k = Some m -> aget (store s) r = Some l -> l_key l = k -> 0 < l_locked l ->
  l_timeouted l = true -> occ r (holders m) = 1%nat -> c_data c = None -> JR s xe ->
  JR (fst (fst (ul_body s conn c k r))) xe.
Proof.
  intros G Hm Hr Hkey Hd Ht Hh Hc HJ. set (g := gk xt xe k) in *.
  destruct (ul_body_ok s xt xe conn c k r l m G Hm Hr Hkey Hd Ht Hh Hc) as [GE _].
  destruct (gi_rec _ _ G r l Hr) as [A1 A2 A3 A4 A5 A6 A7 A8 A9 A10 A11].
  destruct (gi_mgr _ _ G k m Hm) as [B1 B2 B3 B4 B5 B6 B7 B8 B9 Bb B10 Bc].
  assert (Hin : In r (holders m)) by (apply occ_In; lia).
  assert (Hsum : l_locked l <= m_locked m).
  { pose proof (sumdepth_ge s r (holders m) Hin) as S. rewrite (getl_some _ _ _ Hr) in S.
    unfold dlk, g, gk in B6. gs. destruct (k =? k) in B6; lia. }
  destruct Bb as [_ Bl].
  assert (Hfull : forall d, d = l_locked l ->
     JR (fst (release_hold (updm s k (fun m => m <| m_locked := sub32 (m_locked m) d |>)) k conn c r d)) xe).
  { intros d Ed. rewrite (updm_some _ _ _ _ Hm).
    set (m1 := m <| m_locked := sub32 (m_locked m) d |>).
    assert (Hl1 : m_locked m1 = m_locked m - d) by (unfold m1; cbn; apply sub32_sub; lia).
    assert (G1 : GInv (setm s k m1) (gkd xt xe k (Z.of_N d) (- Z.of_N d) 0)).
    { eapply ginv_geq; [apply (setm_scalar s g k m m1 G Hm); try (destruct m; reflexivity); [lia|right; reflexivity]|].
      rewrite Hl1. unfold g, gk, gkd. gs.
      match goal with |- _ = ?g0 <| g_dl := ?e1 |> <| g_cl := ?e2 |> =>
        replace e1 with (Z.of_N d) by lia; replace e2 with (- Z.of_N d)%Z by lia end. reflexivity. }
    assert (Hm1 : aget (mgrs (setm s k m1)) k = Some m1) by (rewrite mgrs_setm, aget_aset_same; auto).
    assert (Hh1 : occ r (holders m1) = 1%nat) by (destruct m; exact Hh).
    assert (J1 : JR (setm s k m1) xe) by (eapply JR_transfer_all; [exact HJ|apply NF_setm, NF_refl]).
    apply (release_hold_JR (setm s k m1) xt xe k conn c r l d m1 G1 Hr Hkey (eq_sym Ed)); auto. lia. }
  rewrite (ul_body_cases s conn c k r Hc) in *. rewrite (getl_some _ _ _ Hr) in *.
  destruct (1 <? l_locked l) eqn:E1.
  - destruct ((0 <? c_rcount c) && negb (has (c_tflag c) TF_PRIORITY)).
    + (* one level: the record stays held *)
      apply N.ltb_lt in E1. unfold ul_one in *.
      set (x1 := updl s r (fun l0 => l0 <| l_locked := dec8 (l_locked l0) |>)) in *.
      assert (T1 : TG x1 xe r).
      { destruct (TG_of_JR s xe r l HJ Hr Hd) as [(l0 & E0 & _ & X0) C]. assert (l0 = l) by congruence. subst l0. split.
        - exists (l <| l_locked := dec8 (l_locked l) |>). split; [unfold x1; rewrite aget_store_updl, N.eqb_refl, Hr; reflexivity|].
          cbn. split; [rewrite dec8_pred; lia|exact X0].
        - unfold Ein in *. unfold x1. rewrite ew_updl, el_updl. exact C. }
      assert (N1 : NF (Some r) (Some r) s x1) by (unfold x1; apply NF_updl_T, NF_refl).
      clearbody x1.
      apply (JR_held_finish s _ xt xe k r GE HJ).
      * apply NF_bump. unfold pua1. match goal with |- context [if ?b then _ else _] => destruct b end;
          [apply NF_fst_push_unlock_aof|]; apply NF_updm; exact N1.
      * apply TG_bump. unfold pua1. match goal with |- context [if ?b then _ else _] => destruct b end;
          [apply TG_push_unlock_aof|]; apply TG_updm; exact T1.
    + apply (Hfull (l_locked l) eq_refl).
  - apply N.ltb_ge in E1. assert (E : 1 = l_locked l) by lia. apply (Hfull 1 E).
Qed.

Lemma unlock_step_JR s xt xe conn c :
  GInv s (gk xt xe (c_key c)) -> c_data c = None -> JR s xe -> JR (fst (fst (unlock_step s conn c))) xe.
Proof.
  intros G Hc HJ. rewrite unlock_step_eq. cbv zeta. set (k := c_key c) in *.
  assert (Herr : forall m s0 c0 code lrc, s0 = s -> JR (fst (fst (ul_err conn k m s0 c0 code lrc))) xe).
  { intros m0 s0 c0 code lrc ->. unfold ul_err. cbn [fst]. eapply JR_transfer_all; [exact HJ|apply NF_bump, NF_refl]. }
  destruct (aget (mgrs s) k) as [m|] eqn:Hm.
  2:{ cbn [fst]. eapply JR_transfer_all; [exact HJ|apply NF_bump, NF_refl]. }
  destruct (negb (leader s) && negb (has (c_flag c) UNLOCK_FLAG_FROM_AOF)); [apply Herr; auto|].
  destruct (m_locked m =? 0).
  { destruct (has (c_flag c) UNLOCK_FLAG_CANCEL_WAIT); [apply (cancel_wait_lock_JR s xt xe); auto|apply Herr; auto]. }
  unfold ul_target. cbv zeta.
  destruct (get_locked_lock s m (c_lockid c)) as [r|] eqn:Eg.
  - destruct (get_locked_lock_spec s xt xe k m _ r G Hm Eg) as [l [Hr [Hkey [Hd [Hid [Ht Hh]]]]]].
    destruct (negb (l_ack (getl s r) =? 255)); [apply Herr; auto|].
    apply (ul_body_JR s xt xe conn c k r l m); auto.
  - destruct (has (c_flag c) UNLOCK_FLAG_FIRST).
    + destruct (m_cur m) as [cr|] eqn:Ec; [|apply Herr; auto].
      destruct (negb (l_ack (getl s cr) =? 255)); [apply Herr; auto|].
      assert (Hlkk : lkk (gk xt xe k) k = false) by (unfold lkk, gk; gs; apply andb_false_r).
      pose proof (mo_cur _ _ _ _ (gi_mgr _ _ G k m Hm) Hlkk cr Ec) as Hl.
      assert (Hin : In cr (holders m)) by (unfold holders, cur_list; rewrite Ec; simpl; auto).
      destruct (holder_facts s _ k m cr G eq_refl eq_refl eq_refl Hm Hin Hl) as [l [Hr [Hkey [Ht Hh]]]].
      rewrite (getl_some _ _ _ Hr) in Hl.
      apply (ul_body_JR s xt xe conn _ k cr l m); auto.
    + destruct (has (c_flag c) UNLOCK_FLAG_CANCEL_WAIT); [apply (cancel_wait_lock_JR s xt xe); auto|apply Herr; auto].
Qed.
