(* Reply exactness, part 5 (top file): runs of the core subset.  The reachability invariant (Engine/InvProps.v) says
   that `locked` of a key is the sum of the depths of its holders, in every state between two critical sections;
   so the LCount of a reply is that sum, truncated to 16 bits.
   Re-exports the any-state theorems of RunReplyLock / RunReplyUnlock / RunReplyWake / RunReplyStep. *)
From Coq Require Import String ZifyN ZifyBool ZifyNat.
From Slock Require Import Engine.Types Engine.Queues Engine.Timers Engine.Engine Engine.Engine2 Engine.InvDef
  Engine.InvSteps Engine.InvLock Engine.InvUnlock Engine.InvMain Engine.InvProps Engine.LocalBase.
From Slock Require Export Engine.RunReplyBase Engine.RunReplyLock Engine.RunReplyUnlock Engine.RunReplyWake
  Engine.RunReplyStep.
Open Scope N_scope.

Definition hsum (s : db) (k : N) : N := sumdepth s (holders (getm s k)).

Lemma inv_mlk s k : Inv s -> mlk s k = hsum s k.
Proof. intros G. apply inv_locked_is_sum. exact G. Qed.

(* ------------------------------------------------------------------ Lock: LCount from the state before the request *)
Theorem lock_reply_sum t0 a acts conn c s1 ev1 w :
  core acts -> lock_step (fst (run (init_db t0 a) acts)) conn c = (s1, ev1, w) ->
  Forall (fun e => match e with
                   | EReply _ _ res lc _ _ _ _ _ =>
                       lc = u16 (if granted res (c_expried c)
                                 then add32 (hsum (fst (run (init_db t0 a) acts)) (c_key c)) 1
                                 else hsum (fst (run (init_db t0 a) acts)) (c_key c))
                   | _ => True end) ev1.
Proof.
  intros Hc H. pose proof (inv_core t0 a acts Hc) as G. apply lock_step_counts in H.
  eapply Forall_impl; [|exact H]. intros [] He; simpl in *; auto.
  destruct He as (He & _). rewrite (inv_mlk _ _ G) in He. exact He.
Qed.

(* fewer than 65535 outstanding levels on the key: no truncation *)
Corollary lock_reply_sum_small t0 a acts conn c s1 ev1 w :
  core acts -> lock_step (fst (run (init_db t0 a) acts)) conn c = (s1, ev1, w) ->
  hsum (fst (run (init_db t0 a) acts)) (c_key c) < 65535 ->
  Forall (fun e => match e with
                   | EReply _ _ res lc _ _ _ _ _ =>
                       lc = (if granted res (c_expried c) then hsum (fst (run (init_db t0 a) acts)) (c_key c) + 1
                             else hsum (fst (run (init_db t0 a) acts)) (c_key c))
                   | _ => True end) ev1.
Proof.
  intros Hc H Hs. pose proof (lock_reply_sum _ _ _ _ _ _ _ _ Hc H) as HF.
  eapply Forall_impl; [|exact HF]. intros [] He; simpl in *; auto. rewrite He.
  destruct (granted result (c_expried c)).
  - unfold add32. rewrite (N.mod_small (_ + 1)) by lia. apply u16_small. lia.
  - apply u16_small. lia.
Qed.

(* ------------------------------------------------------------------ the state a critical section returns is a state
   of the invariant: LCount read from it is the sum of the holders' depths in it *)
Lemma bounded_run_app_last acts : forall s x, bounded_run s (acts ++ [x]) -> next (fst (run s acts)) < MAXREC.
Proof.
  induction acts as [|y rest IH]; intros s x H.
  - destruct H as [H _]. exact H.
  - destruct H as [_ H]. rewrite run_fst_cons. apply (IH _ x). exact H.
Qed.

Lemma core_app acts x : core (acts ++ [x]) -> core acts /\ core_action x = true.
Proof.
  intros [H1 H2]. apply Forall_app in H1. destruct H1 as [H1 H3]. inversion H3; subst.
  split; [split; [exact H1|]|assumption]. rewrite app_length in H2. simpl in H2. lia.
Qed.

Theorem core_req_post_inv t0 a acts conn c :
  core (acts ++ [AReq conn c]) -> Inv (fst (fst (req_section (fst (run (init_db t0 a) acts)) conn c))).
Proof.
  intros Hc. destruct (core_app _ _ Hc) as [Hc1 Hx].
  pose proof (inv_core t0 a acts Hc1) as G.
  assert (Hb : next (fst (run (init_db t0 a) acts)) < MAXREC).
  { apply (bounded_run_app_last acts (init_db t0 a) (AReq conn c)).
    destruct (core_core_run t0 a _ Hc) as [_ B]. exact B. }
  simpl in Hx. apply cmd_core_b_iff in Hx.
  unfold req_section. destruct (c_lock c).
  - destruct (lock_step_ginv _ [] [] conn c (inv_gk _ _ G) Hx Hb) as [G1 _]. eapply gk_inv. exact G1.
  - destruct Hx as (_ & _ & _ & Hd).
    destruct (unlock_step_ginv _ [] [] conn c (inv_gk _ _ G) Hd) as [G1 _]. eapply gk_inv. exact G1.
Qed.

(* UnLock on a core run: every direct reply carries the holder sum of the state UnLock returns (not of the final state
   of the step), except the two replies of a cancel-wait that removed the key's manager *)
Theorem unlock_reply_sum t0 a acts conn c s1 ev1 w :
  core (acts ++ [AReq conn c]) -> c_lock c = false ->
  unlock_step (fst (run (init_db t0 a) acts)) conn c = (s1, ev1, w) ->
  Forall (fun e => match e with
                   | EReply _ _ res lc _ _ _ _ _ =>
                       lc = u16 (hsum s1 (c_key c))
                       \/ (aget (mgrs s1) (c_key c) = None /\ (res = R_LOCKED_ERROR \/ res = R_UNLOCK_ERROR))
                   | _ => True end) ev1.
Proof.
  intros Hc Hl H. pose proof (core_req_post_inv t0 a acts conn c Hc) as G.
  unfold req_section in G. rewrite Hl, H in G. cbn [fst] in G.
  apply unlock_step_lcount_post in H. eapply Forall_impl; [|exact H].
  intros [] He; simpl in *; auto. rewrite <- (inv_mlk _ _ G). destruct He as [He|(E & Hr & _)]; auto.
Qed.

(* ------------------------------------------------------------------ the statements written out (any state) *)
(* Lock: LCount = `locked` of the key before the request, plus one if the reply is a grant; it is also `locked` of
   the key in the state Lock returns, unless Lock removed the key's manager on the way out *)
Corollary lock_step_lcount s conn c s' ev w :
  lock_step s conn c = (s', ev, w) ->
  Forall (fun e => match e with
                   | EReply _ _ res lc _ _ _ _ _ =>
                       lc = u16 (if (res =? R_SUCCED) && (0 <? c_expried c) then add32 (mlk s (c_key c)) 1 else mlk s (c_key c))
                       /\ (lc = u16 (mlk s' (c_key c)) \/ aget (mgrs s') (c_key c) = None)
                   | _ => True end) ev.
Proof.
  intros H. apply lock_step_counts in H. eapply Forall_impl; [|exact H].
  intros [] He; simpl in *; auto. destruct He as (H1 & H2 & _). split; [exact H1|].
  destruct H2 as [H2|[H2 _]]; auto.
Qed.

(* Lock: LRCount = depth, in the state Lock returns, of the hold the request addresses; of the new record when the
   key is idle or no holder has the request's LockId; 0 for TIMEOUT and STATE_ERROR *)
Corollary lock_step_lrcount s conn c s' ev w :
  lock_step s conn c = (s', ev, w) ->
  Forall (fun e => match e with
                   | EReply _ _ res _ lrc _ _ _ _ =>
                       (res = R_TIMEOUT \/ res = R_STATE_ERROR -> lrc = 0)
                       /\ (res <> R_TIMEOUT -> res <> R_STATE_ERROR ->
                           match lock_addr s c with
                           | Some r => lrc = dep s' r
                           | None => lrc = (if (res =? R_SUCCED) && (0 <? c_expried c) then 1 else 0)
                                     /\ (res = R_SUCCED -> lrc = dep s' (next s))
                           end)
                   | _ => True end) ev.
Proof.
  intros H. apply lock_step_counts in H. eapply Forall_impl; [|exact H].
  intros [] He; simpl in *; auto. destruct He as (_ & _ & H3). split.
  - intros [-> | ->]; exact H3.
  - intros N1 N2. apply N.eqb_neq in N1. apply N.eqb_neq in N2. rewrite N1, N2 in H3. cbn [orb] in H3.
    destruct (lock_addr s c); [destruct H3 as [H3 _]|]; exact H3.
Qed.

(* one grant of the wake-up pass *)
Corollary wake_grant_lcount s k r via s' ev :
  wake_grant s k r via = (s', ev) -> aget (mgrs s) k <> None ->
  Forall (fun e => match e with
                   | EReply _ _ res lc lrc _ _ _ _ => res = R_SUCCED /\ lc = u16 (mlk s' k) /\ lrc = dep s' r
                   | _ => True end) ev.
Proof.
  intros H Hk. eapply Forall_impl; [|eapply wake_grant_counts; eauto].
  intros [] He; simpl in *; auto. tauto.
Qed.

(* doTimeOut / doExpried *)
Corollary do_timeout_lcount s r s' ev w l :
  do_timeout s r = (s', ev, w) -> aget (store s) r = Some l ->
  Forall (fun e => match e with
                   | EReply _ _ res lc lrc _ _ _ _ => res = R_TIMEOUT /\ lc = u16 (mlk s' (l_key l)) /\ lrc = 0 /\ dep s' r = 0
                   | _ => True end) ev.
Proof.
  intros H Hl. eapply Forall_impl; [|eapply do_timeout_counts; eauto].
  intros [] He; simpl in *; auto. tauto.
Qed.

Corollary do_expried_lcount s r s' ev w l :
  do_expried s r = (s', ev, w) -> aget (store s) r = Some l ->
  Forall (fun e => match e with
                   | EReply _ _ res lc lrc _ _ _ _ => res = R_EXPRIED /\ lc = u16 (mlk s' (l_key l)) /\ lrc = 0 /\ dep s' r = 0
                   | _ => True end) ev.
Proof.
  intros H Hl. eapply Forall_impl; [|eapply do_expried_counts; eauto].
  intros [] He; simpl in *; auto. tauto.
Qed.

(* ------------------------------------------------------------------ a whole request step on a core run *)
(* the waiter addressed by a cancel-wait holds nothing *)
Lemma cancel_tgt_depth0 s c r : Inv s -> cancel_tgt s c = Some r -> dep s r = 0.
Proof.
  intros G H. unfold cancel_tgt in H. destruct (m_wait (getm s (c_key c))) as [q|]; [|discriminate].
  apply find_last_waiter_spec in H. destruct H as [H|[_ Ht]]; [discriminate|].
  unfold dep. unfold getl in *. destruct (aget (store s) r) as [l|] eqn:E; [|reflexivity].
  destruct (ro_live _ _ _ _ (gi_rec _ _ G r l E) Ht) as (_ & _ & H0 & _). exact H0.
Qed.

(* every state of a wake-up pass satisfies the invariant; every served waiter reads the holder sum of the state
   right after its own grant *)
Lemma wake_exact_sum w : forall s ev s', wake_exact w s ev s' -> Inv s ->
  Inv s' /\ Forall (fun e => match e with
                             | EReply _ _ _ lc _ _ _ _ _ => exists S, Inv S /\ lc = u16 (hsum S (w_key w))
                             | _ => True end) ev.
Proof.
  induction 1 as [s s' H | s s1 ev1 r ev' s' H Hr HF _ IH]; intros G.
  - pose proof (wake_iter_ginv s [] [] (w_key w) w (inv_gk _ _ G) eq_refl) as G1. rewrite H in G1. cbn [fst] in G1.
    split; [eapply gk_inv; exact G1|constructor].
  - pose proof (wake_iter_ginv s [] [] (w_key w) w (inv_gk _ _ G) eq_refl) as G1. rewrite H in G1. cbn [fst] in G1.
    apply gk_inv in G1. destruct (IH G1) as [G2 HF2]. split; [exact G2|].
    apply Forall_app. split; [|exact HF2].
    eapply Forall_impl; [|exact HF]. intros [] He; simpl in *; auto.
    destruct He as (_ & -> & _). exists s1. split; [exact G1|]. rewrite (inv_mlk _ _ G1). reflexivity.
Qed.

(* every reply of a request step on a core run -- the direct ones and those of the wake-up pass -- carries, truncated
   to 16 bits, the sum of the holders' depths of the key in a state S of the invariant: the state returned by the
   critical section that sent it (for a reply sent while the key's manager is being removed: the state before) *)
Theorem step_req_sum t0 a acts conn c :
  core (acts ++ [AReq conn c]) ->
  Inv (fst (step (fst (run (init_db t0 a) acts)) (AReq conn c)))
  /\ Forall (fun e => match e with
                      | EReply _ _ _ lc _ _ _ _ _ => exists S, Inv S /\ lc = u16 (hsum S (c_key c))
                      | _ => True end) (snd (step (fst (run (init_db t0 a) acts)) (AReq conn c))).
Proof.
  intros Hc. set (s := fst (run (init_db t0 a) acts)).
  destruct (core_app _ _ Hc) as [Hc1 _]. pose proof (inv_core t0 a acts Hc1) as G. fold s in G.
  pose proof (core_req_post_inv t0 a acts conn c Hc) as G1. fold s in G1.
  destruct (step_req_counts s conn c) as (s1 & ev1 & w & ev2 & Hs & Hst & HF & Hw & Hp).
  rewrite Hs in G1. cbn [fst] in G1. rewrite Hst. cbn [snd].
  assert (D : Forall (fun e => match e with
                               | EReply _ _ _ lc _ _ _ _ _ => exists S, Inv S /\ lc = u16 (hsum S (c_key c))
                               | _ => True end) ev1).
  { unfold req_section, req_ok in *. destruct (c_lock c).
    - eapply Forall_impl; [|exact HF]. intros [] He; simpl in *; auto.
      destruct He as (H1 & [H2|(_ & H2)] & _).
      + exists s1. split; [exact G1|]. rewrite <- (inv_mlk _ _ G1). exact H2.
      + exists s. split; [exact G|]. rewrite <- (inv_mlk _ _ G).
        assert (Hg : granted result (c_expried c) = false).
        { destruct H2 as [-> |[-> |[-> H2]]]; [reflexivity|reflexivity|]. unfold granted. rewrite H2. reflexivity. }
        rewrite Hg in H1. exact H1.
    - apply unlock_step_lcount_post in Hs. eapply Forall_impl; [|exact Hs]. intros [] He; simpl in *; auto.
      destruct He as [He|(_ & _ & r & Ht & He)].
      + exists s1. split; [exact G1|]. rewrite <- (inv_mlk _ _ G1). exact He.
      + exists s. split; [exact G|]. rewrite <- (inv_mlk _ _ G). rewrite He. unfold cancel_val.
        rewrite (cancel_tgt_depth0 _ _ _ G Ht). reflexivity. }
  destruct w as [wk|]; cbn [pass_exact] in Hp.
  - destruct (wake_exact_sum wk _ _ _ Hp G1) as [G2 HF2]. rewrite (Hw wk eq_refl) in HF2.
    split; [exact G2|]. apply Forall_app. split; [exact D|exact HF2].
  - destruct Hp as [-> ->]. split; [exact G1|]. rewrite app_nil_r. exact D.
Qed.

(* ------------------------------------------------------------------ the removal clause cannot be dropped for
   arbitrary states: a state (not reachable: a manager without any record but `locked` = 5) in which Lock answers
   TIMEOUT with LCount 5 = `locked` before the request, and returns a state without the manager (`locked` 0).
   On core runs such a manager has `locked` = 0 (the holders are records of the key), see step_req_sum. *)
Definition orphan_state : db :=
  (init_db 1000000 1) <| mgrs := [(7, mkMgr 0 5 None None None None false)] |>.

Lemma lock_removal_clause_needed :
  let '(s', ev, _) := lock_step orphan_state 1 (make_cmd true 1 0 101 7 0 0 0 10 0 0 None) in
  ev = [EReply 1 1 R_TIMEOUT 5 0 101 0 0 None] /\ mlk orphan_state 7 = 5 /\ aget (mgrs s') 7 = None /\ mlk s' 7 = 0.
Proof. vm_compute. repeat split; reflexivity. Qed.
