(* Acknowledgement layer on top of the engine: server/replication.go ReplicationAckDB.ProcessLeaderPushLock /
   ProcessLeaderAofed / ProcessLeaderAcked / SwitchToFollower (1658-1777, 1893-1904) driving LockDB.DoAckLock.
   An AOF LOCK record that carries a lock pointer (command has the require-ack flag) is *registered*: the layer stores
   (RequestId -> record id, record id -> lock) and writes `lock.ackCount := ackCount`; every later acknowledgement event
   for that record (the leader's own flush "aofed" or a follower's "acked" - one shared counter) decrements it. *)
From Coq Require Import String.
From Slock Require Import Engine.Types Engine.Queues Engine.Timers Engine.Engine Engine.Engine2.
Open Scope N_scope.

Record astate := mkA {
  a_db : db;
  a_cfg : N;                        (* ReplicationAckDB.ackCount *)
  a_reg : list (N * (N * ref));     (* registration index -> (RequestId, lock) : aofLocks + commandAofs *)
  a_next : N                        (* next registration index (= number of lock-carrying LOCK records so far) *)
}.

Definition init_astate (t0 : Z) (aoft cfg : N) : astate := mkA (init_db t0 aoft) cfg [] 0.

Fixpoint reg_has_req (reg : list (N * (N * ref))) (q : N) : bool :=
  match reg with
  | [] => false
  | (_, (q', _)) :: rest => (q' =? q) || reg_has_req rest q
  end.

(* ProcessLeaderPushLock for the record with index i carrying lock r *)
Definition register (st : astate) (r : ref) : astate * list event :=
  let s := a_db st in
  let i := a_next st in
  let st := mkA s (a_cfg st) (a_reg st) (i + 1) in
  let q := c_req (l_cmd (getl s r)) in
  (* the lock object was released before its record was handled (a lock without a hold, Expried = 0, pushed for the
     value it carries): lock.command == nil, nothing to register *)
  match aget (store s) r with None => (st, []) | Some _ =>
  if negb (leader s) || reg_has_req (a_reg st) q then
    let '(s', ev) := finish (do_ack s r false) in
    (mkA s' (a_cfg st) (a_reg st) (a_next st), ev)
  else
    (mkA (updl s r (fun l => l <| l_ack := a_cfg st |>)) (a_cfg st) (a_reg st ++ [(i, (q, r))]) (a_next st), [])
  end.

(* registrations for the lock-carrying LOCK records of an event list, in queue order; a failed registration runs
   DoAckLock(false), whose own events are appended to the output and whose records are processed in turn *)
Fixpoint post_go (fuel : nat) (st : astate) (todo : list event) (acc : list event) : astate * list event :=
  match fuel with
  | O => (st, acc ++ [EPanic "ack-post-out-of-fuel"%string])
  | S f =>
      match todo with
      | [] => (st, acc)
      | EAof a :: rest =>
          match a_lock a, a_ref a with
          | true, Some r => let '(st1, e1) := register st r in post_go f st1 (rest ++ e1) (acc ++ e1)
          | _, _ => post_go f st rest acc
          end
      | _ :: rest => post_go f st rest acc
      end
  end.

Definition with_post (st : astate) (res : db * list event) : astate * list event :=
  let '(s, ev) := res in
  post_go (4 * length ev + 64)%nat (mkA s (a_cfg st) (a_reg st) (a_next st)) ev ev.

Fixpoint reg_find (reg : list (N * (N * ref))) (i : N) : option (N * ref) :=
  match reg with
  | [] => None
  | (j, v) :: rest => if j =? i then Some v else reg_find rest i
  end.
Definition reg_del (reg : list (N * (N * ref))) (i : N) := filter (fun x => negb (fst x =? i)) reg.

(* ProcessLeaderAofed / ProcessLeaderAcked (identical bodies): one acknowledgement event for registration i *)
Definition ack_event (st : astate) (i : N) (ok : bool) : astate * list event :=
  match reg_find (a_reg st) i with
  | None => (st, [])
  | Some (_, r) =>
      let s := a_db st in
      let l := getl s r in
      if negb ok || (l_ack l =? 255) then
        with_post (mkA s (a_cfg st) (reg_del (a_reg st) i) (a_next st)) (finish (do_ack s r false))
      else
        let c := dec8 (l_ack l) in
        let s := updl s r (fun l => l <| l_ack := c |>) in
        if 0 <? c then (mkA s (a_cfg st) (a_reg st) (a_next st), [])
        else with_post (mkA s (a_cfg st) (reg_del (a_reg st) i) (a_next st)) (finish (do_ack s r true))
  end.

Inductive aaction :=
| AAct (a : action)               (* engine action followed by the registrations of the records it pushed *)
| AAckEvt (i : N) (ok : bool).     (* aofed / acked event for registration i *)

Definition astep (st : astate) (a : aaction) : astate * list event :=
  match a with
  | AAct a => with_post st (step (a_db st) a)
  | AAckEvt i ok => ack_event st i ok
  end.

Fixpoint arun (st : astate) (acts : list aaction) : astate * list (list event) :=
  match acts with
  | [] => (st, [])
  | a :: rest => let '(st1, e1) := astep st a in
                 let '(st2, es) := arun st1 rest in (st2, e1 :: es)
  end.
