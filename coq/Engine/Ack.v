(* Acknowledgement layer on top of the engine: server/replication.go ReplicationManager.PushLock (2196-2215),
   ReplicationAckDB.ProcessLeaderPushLock / ProcessLeaderPushUnLock / ProcessLeaderAofed / ProcessLeaderAcked
   (1663-1777) driving LockDB.DoAckLock.
   An AOF LOCK record that carries a lock pointer (command has the require-ack flag) is *registered*: the layer stores
   (RequestId -> record id, record id -> lock) and writes `lock.ackCount := ackCount`; every later acknowledgement event
   for that record (the leader's own flush "aofed" or a follower's "acked" - one shared counter) decrements it.
   An AOF UNLOCK record that carries a lock pointer (the hold was timed out, expired, unlocked or rolled back) drops
   the registration made under the RequestId of the lock's command and runs DoAckLock(lock, false).
   The two tables of the Go code (commandAofs : RequestId -> record id, aofLocks : record id -> lock) are one list
   here: they are written and deleted together everywhere except that ProcessLeaderAofed / Acked delete
   commandAofs under the RequestId the lock carries at that moment -- the same one as long as the registered record
   is allocated and keeps its command (`reg_sound`, Engine/AckProofsUnreg.v). *)
From Coq Require Import String.
From Slock Require Import Engine.Types Engine.Queues Engine.Timers Engine.Engine Engine.Engine2.
Open Scope N_scope.

Record astate := mkA {
  a_db : db;
  a_cfg : N;                        (* ReplicationAckDB.ackCount *)
  a_reg : list (N * (N * ref));     (* registration index -> (RequestId, lock) : aofLocks + commandAofs *)
  a_next : N                        (* next registration index (= number of lock-carrying LOCK records so far) *)
}.

Definition init_astate (t0 : Z) (aoft cfg : N) : astate := mkA (init_db t0 aoft) cfg [] 0.

Fixpoint reg_has_req (reg : list (N * (N * ref))) (q : N) : bool :=
  match reg with
  | [] => false
  | (_, (q', _)) :: rest => (q' =? q) || reg_has_req rest q
  end.

(* ProcessLeaderPushLock for the record with index i carrying lock r *)
Definition register (st : astate) (r : ref) : astate * list event :=
  let s := a_db st in
  let i := a_next st in
  let st := mkA s (a_cfg st) (a_reg st) (i + 1) in
  let q := c_req (l_cmd (getl s r)) in
  (* the lock object was released before its record was handled (a lock without a hold, Expried = 0, pushed for the
     value it carries): lock.command == nil, nothing to register *)
  match aget (store s) r with None => (st, []) | Some _ =>
  if negb (leader s) || reg_has_req (a_reg st) q then
    let '(s', ev) := finish (do_ack s r false) in
    (mkA s' (a_cfg st) (a_reg st) (a_next st), ev)
  else
    (mkA (updl s r (fun l => l <| l_ack := a_cfg st |>)) (a_cfg st) (a_reg st ++ [(i, (q, r))]) (a_next st), [])
  end.

Fixpoint reg_find (reg : list (N * (N * ref))) (i : N) : option (N * ref) :=
  match reg with
  | [] => None
  | (j, v) :: rest => if j =? i then Some v else reg_find rest i
  end.
Definition reg_del (reg : list (N * (N * ref))) (i : N) := filter (fun x => negb (fst x =? i)) reg.

(* commandAofs[RequestId]: the registration made under that RequestId (its index and the lock it was made for) *)
Fixpoint reg_find_req (reg : list (N * (N * ref))) (q : N) : option (N * ref) :=
  match reg with
  | [] => None
  | (i, (q', r)) :: rest => if q' =? q then Some (i, r) else reg_find_req rest q
  end.

(* ProcessLeaderPushUnLock for an UNLOCK record carrying lock r (written by doTimeOut / doExpried / UnLock /
   DoAckLock(false) for a hold whose command has the require-ack flag): the lookup is by the RequestId the lock's
   command carries NOW (`lock.command.RequestId`); a released object (`lock.command == nil`) is ignored.  When a
   registration exists under that RequestId -- whichever lock it was made for -- both of its table entries go
   (commandAofs[RequestId], aofLocks[its record id]) and DoAckLock(lock, false) runs on the RECORD's lock. *)
Definition unregister (st : astate) (r : ref) : astate * list event :=
  let s := a_db st in
  match aget (store s) r with None => (st, []) | Some l =>
  match reg_find_req (a_reg st) (c_req (l_cmd l)) with
  | None => (st, [])
  | Some (i, _) =>
      let '(s', ev) := finish (do_ack s r false) in
      (mkA s' (a_cfg st) (reg_del (a_reg st) i) (a_next st), ev)
  end end.

(* ReplicationManager.PushLock for the records of an event list, in queue order: a record carrying a lock pointer
   (command has the require-ack flag) is handled by the ack DB while this node is the leader -- LOCK records are
   registered, UNLOCK records drop the registration; a failed registration / a dropped registration runs
   DoAckLock(false), whose own events are appended to the output and whose records are processed in turn *)
Fixpoint post_go (fuel : nat) (st : astate) (todo : list event) (acc : list event) : astate * list event :=
  match fuel with
  | O => (st, acc ++ [EPanic "ack-post-out-of-fuel"%string])
  | S f =>
      match todo with
      | [] => (st, acc)
      | EAof a :: rest =>
          match a_ref a with
          | Some r =>
              if leader (a_db st) then
                let '(st1, e1) := if a_lock a then register st r else unregister st r in
                post_go f st1 (rest ++ e1) (acc ++ e1)
              else post_go f st rest acc
          | None => post_go f st rest acc
          end
      | _ :: rest => post_go f st rest acc
      end
  end.

Definition with_post (st : astate) (res : db * list event) : astate * list event :=
  let '(s, ev) := res in
  post_go (4 * length ev + 64)%nat (mkA s (a_cfg st) (a_reg st) (a_next st)) ev ev.

(* ProcessLeaderAofed / ProcessLeaderAcked (identical bodies): one acknowledgement event for registration i *)
Definition ack_event (st : astate) (i : N) (ok : bool) : astate * list event :=
  match reg_find (a_reg st) i with
  | None => (st, [])
  | Some (_, r) =>
      let s := a_db st in
      let l := getl s r in
      if negb ok || (l_ack l =? 255) then
        with_post (mkA s (a_cfg st) (reg_del (a_reg st) i) (a_next st)) (finish (do_ack s r false))
      else
        let c := dec8 (l_ack l) in
        let s := updl s r (fun l => l <| l_ack := c |>) in
        if 0 <? c then (mkA s (a_cfg st) (a_reg st) (a_next st), [])
        else with_post (mkA s (a_cfg st) (reg_del (a_reg st) i) (a_next st)) (finish (do_ack s r true))
  end.

Inductive aaction :=
| AAct (a : action)               (* engine action followed by the registrations of the records it pushed *)
| AAckEvt (i : N) (ok : bool).     (* aofed / acked event for registration i *)

Definition astep (st : astate) (a : aaction) : astate * list event :=
  match a with
  | AAct a => with_post st (step (a_db st) a)
  | AAckEvt i ok => ack_event st i ok
  end.

Fixpoint arun (st : astate) (acts : list aaction) : astate * list (list event) :=
  match acts with
  | [] => (st, [])
  | a :: rest => let '(st1, e1) := astep st a in
                 let '(st2, es) := arun st1 rest in (st2, e1 :: es)
  end.
