(* Timer theorems, part 3: what AddTimeOut does to the state. *)
From Coq Require Import String ZifyN ZifyBool ZifyNat.
From Slock Require Import Engine.Types Engine.Queues Engine.Timers Engine.Engine Engine.Engine2 Engine.TimeBase.
Open Scope N_scope.

Lemma getl_updl_same s r f l : aget (store s) r = Some l -> getl (updl s r f) r = f l.
Proof. intros G. unfold getl. rewrite aget_updl, N.eqb_refl, G. reflexivity. Qed.

(* the slot second AddTimeOut chooses on the short wheel *)
Definition tslot_time (chk : Z) (l : lockrec) : Z :=
  let d0 := (chk + Z.of_N (l_tcc l))%Z in
  if (l_tT l <? d0)%Z then (if (l_tT l <? chk)%Z then chk else l_tT l) else d0.

Record same_but_timeout (s s' : db) : Prop := {
  sb_now : now s' = now s; sb_checkT : checkT s' = checkT s; sb_checkE : checkE s' = checkE s;
  sb_next : next s' = next s; sb_mgrs : mgrs s' = mgrs s; sb_leader : leader s' = leader s;
  sb_ewheel : ewheel s' = ewheel s; sb_elong : elong s' = elong s; sb_cnt : cnt s' = cnt s
}.

Lemma add_timeout_same s r : same_but_timeout s (add_timeout s r).
Proof.
  unfold add_timeout. cbv zeta.
  destruct (QUEUE_MAX_WAIT <? l_tcc (getl (updl s r (fun l => l <| l_timeouted := false |>)) r));
    constructor; cbn; rewrite ?updl_now, ?updl_checkT, ?updl_checkE, ?updl_next, ?updl_mgrs, ?updl_leader,
      ?updl_ewheel, ?updl_elong, ?updl_cnt; cbn;
    rewrite ?updl_now, ?updl_checkT, ?updl_checkE, ?updl_next, ?updl_mgrs, ?updl_leader,
      ?updl_ewheel, ?updl_elong, ?updl_cnt; reflexivity.
Qed.

Lemma add_timeout_short s r l :
  aget (store s) r = Some l -> (QUEUE_MAX_WAIT <? l_tcc l) = false ->
  twheel (add_timeout s r) = wheel_push (twheel s) (slot_of (tslot_time (checkT s) l)) r
  /\ tlong (add_timeout s r) = tlong s
  /\ forall r', aget (store (add_timeout s r)) r'
                = if r =? r' then Some (l <| l_timeouted := false |> <| l_long := false |>) else aget (store s) r'.
Proof.
  intros G T. unfold add_timeout. cbv zeta.
  rewrite (getl_updl_same _ _ _ _ G). cbn [l_tcc l_tT set eta_lock].
  change (l_tcc (l <| l_timeouted := false |>)) with (l_tcc l). rewrite T.
  change (l_tT (l <| l_timeouted := false |>)) with (l_tT l). rewrite updl_checkT.
  split; [|split].
  - rewrite updl_twheel. cbn. rewrite updl_twheel. reflexivity.
  - rewrite updl_tlong. cbn. rewrite updl_tlong. reflexivity.
  - intros r'. rewrite aget_updl. cbn [store].
    match goal with |- context [store (?x <| twheel := ?w |>)] => change (store (x <| twheel := w |>)) with (store x) end.
    rewrite aget_updl. destruct (r =? r') eqn:E; auto. apply N.eqb_eq in E; subst r'. rewrite G. reflexivity.
Qed.

Lemma add_timeout_long s r l :
  aget (store s) r = Some l -> (QUEUE_MAX_WAIT <? l_tcc l) = true ->
  let tT := if (l_tT l <? checkT s)%Z then checkT s else l_tT l in
  twheel (add_timeout s r) = twheel s
  /\ tlong (add_timeout s r) = wheel_push (tlong s) (lkey tT) r
  /\ forall r', aget (store (add_timeout s r)) r'
                = if r =? r' then Some (l <| l_timeouted := false |> <| l_tT := tT |> <| l_long := true |>) else aget (store s) r'.
Proof.
  intros G T. unfold add_timeout. cbv zeta.
  rewrite (getl_updl_same _ _ _ _ G).
  change (l_tcc (l <| l_timeouted := false |>)) with (l_tcc l). rewrite T.
  change (l_tT (l <| l_timeouted := false |>)) with (l_tT l). rewrite updl_checkT.
  split; [|split].
  - cbn. rewrite !updl_twheel. reflexivity.
  - cbn. rewrite !updl_tlong. reflexivity.
  - intros r'.
    match goal with |- context [store (?x <| tlong := ?w |>)] => change (store (x <| tlong := w |>)) with (store x) end.
    rewrite !aget_updl. destruct (r =? r') eqn:E; auto. apply N.eqb_eq in E; subst r'. rewrite G. reflexivity.
Qed.

(* absent record: AddTimeOut only leaves a stale wheel entry *)
Lemma add_timeout_absent s r :
  aget (store s) r = None ->
  store (add_timeout s r) = store s /\ tlong (add_timeout s r) = tlong s
  /\ exists slot, twheel (add_timeout s r) = wheel_push (twheel s) slot r.
Proof.
  intros G. unfold add_timeout. cbv zeta.
  assert (forall f, updl s r f = s) as U by (intros f; unfold updl; rewrite G; reflexivity).
  rewrite U. assert (getl s r = dummy_lock) as GD by (unfold getl; rewrite G; reflexivity). rewrite !GD.
  cbn [l_tcc dummy_lock]. change (QUEUE_MAX_WAIT <? 1) with false. cbv iota.
  assert (forall s0 f, store s0 = store s -> updl s0 r f = s0) as U' by (intros s0 f E; unfold updl; rewrite E, G; reflexivity).
  rewrite U' by reflexivity. cbn. split; [reflexivity|split; [reflexivity|eexists; reflexivity]].
Qed.
