(* FORK of Engine/InvWheel.v replayed on the definitions of AckAcctDef.v (require-ack locks, run class ack_core); changes are marked ACK or concern dead_waiter / the acknowledgement reference in g_xe. *)
(* Invariant proof, part 4: timeout / expiry wheels and long tables. *)
From Coq Require Import String ZifyN ZifyBool ZifyNat Permutation.
From Slock Require Import Engine.Types Engine.Queues Engine.Timers Engine.Engine Engine.Engine2 Engine.InvDef Engine.InvBase Engine.AckAcctDef
  Engine.AckAcctPrims Engine.AckAcctRec.
Open Scope N_scope.

Lemma adel_adel {V} (m : amap V) k : adel (adel m k) k = adel m k.
Proof. apply adel_none. apply aget_adel_same. Qed.
Lemma aset_aset {V} (m : amap V) k a b : aset (aset m k a) k b = aset m k b.
Proof. unfold aset. simpl. rewrite N.eqb_refl, adel_adel. reflexivity. Qed.
Lemma setl_setl s r a b : setl (setl s r a) r b = setl s r b.
Proof. unfold setl. destruct s; cbn. rewrite aset_aset. reflexivity. Qed.

Lemma wheel_get_aset w k v k0 : wheel_get (aset w k v) k0 = if k =? k0 then v else wheel_get w k0.
Proof. unfold wheel_get. rewrite aget_aset. destruct (k =? k0); auto. Qed.
Lemma wheel_get_adel w k k0 : wheel_get (adel w k) k0 = if k =? k0 then [] else wheel_get w k0.
Proof. unfold wheel_get. rewrite aget_adel. destruct (k =? k0); auto. Qed.
Lemma wheel_get_push w k x k0 : wheel_get (wheel_push w k x) k0 = if k =? k0 then wheel_get w k ++ [x] else wheel_get w k0.
Proof. unfold wheel_push. apply wheel_get_aset. Qed.
Lemma awf_push w k x : awf w -> awf (wheel_push w k x).
Proof. intros. unfold wheel_push. apply awf_aset; auto. Qed.

Lemma occ_single r x : occ r [x] = if x =? r then 1%nat else O.
Proof. simpl. destruct (x =? r); auto. Qed.

(* ---------------------------------------------------------------- a sweeper / granter hands its reference to a wheel *)
Lemma push_t_ginv s s' g r xt' key (long : bool) :
  GInv s g -> g_xt g = r :: xt' ->
  mgrs s' = mgrs s -> store s' = store s -> next s' = next s -> cnt s' = cnt s ->
  ewheel s' = ewheel s -> elong s' = elong s ->
  (if long then tlong s' = wheel_push (tlong s) key r /\ twheel s' = twheel s
   else twheel s' = wheel_push (twheel s) key r /\ tlong s' = tlong s) ->
  (forall l, aget (store s) r = Some l -> l_long l = true -> occ r (g_pend g) = O -> l_timeouted l = false ->
     occ r (wheel_get (tlong s') (lkey (l_tT l))) = 1%nat) ->
  GInv s' (g <| g_xt := xt' |>).
Proof.
  intros G Hx E1 E2 E3 E4 E5 E6 Hw Hlong.
  assert (Hoc : forall r0, (occ r0 (wrefs (twheel s')) + occ r0 (wrefs (tlong s')) + occ r0 xt'
                           = occ r0 (wrefs (twheel s)) + occ r0 (wrefs (tlong s)) + occ r0 (g_xt g))%nat).
  { intros r0. rewrite Hx, occ_cons. destruct long; destruct Hw as [Hw1 Hw2]; rewrite Hw1, Hw2.
    - rewrite occ_wrefs_push by apply (gi_wf_tl _ _ G). rewrite occ_single. lia.
    - rewrite occ_wrefs_push by apply (gi_wf_tw _ _ G). rewrite occ_single. lia. }
  eapply wheels_ginv; eauto; gs.
  - destruct long; destruct Hw as [Hw1 Hw2]; rewrite ?Hw1, ?Hw2; [apply (gi_wf_tw _ _ G)|apply awf_push, (gi_wf_tw _ _ G)].
  - destruct long; destruct Hw as [Hw1 Hw2]; rewrite ?Hw1, ?Hw2; [apply awf_push, (gi_wf_tl _ _ G)|apply (gi_wf_tl _ _ G)].
  - rewrite E5. apply (gi_wf_ew _ _ G).
  - rewrite E6. apply (gi_wf_el _ _ G).
  - intros r0 l0 H0. destruct (gi_rec _ _ G r0 l0 H0) as [A1 A2 A3 A4 A5 A6 A7 A8 A9 A10 A11].
    unfold tcount, ecount in *. gs. rewrite E5, E6. specialize (Hoc r0).
    repeat split; try lia; auto.
    + intros Ht. destruct (N.eq_dec r0 r) as [->|Hne]; [apply Hlong; auto|].
      destruct (A8 H H1) as [Q _]. specialize (Q Ht). destruct long; destruct Hw as [Hw1 Hw2]; rewrite ?Hw1, ?Hw2; auto.
      rewrite wheel_get_push. destruct (key =? lkey (l_tT l0)) eqn:Ek; auto. apply N.eqb_eq in Ek. rewrite <- Ek in Q. rewrite occ_app, occ_single.
      destruct (r =? r0) eqn:E; [apply N.eqb_eq in E; congruence|lia].
  - intros r0 H0. pose proof (gi_str _ _ G r0 H0) as S. unfold tcount, ecount in *. gs. rewrite E5, E6. specialize (Hoc r0). lia.
Qed.

Lemma push_e_ginv s s' g r xe' key (long : bool) :
  GInv s g -> g_xe g = r :: xe' ->
  mgrs s' = mgrs s -> store s' = store s -> next s' = next s -> cnt s' = cnt s ->
  twheel s' = twheel s -> tlong s' = tlong s ->
  (if long then elong s' = wheel_push (elong s) key r /\ ewheel s' = ewheel s
   else ewheel s' = wheel_push (ewheel s) key r /\ elong s' = elong s) ->
  (forall l, aget (store s) r = Some l -> l_long l = true -> occ r (g_pend g) = O -> l_timeouted l = true ->
     occ r (wheel_get (elong s') (lkey (l_eT l))) = 1%nat) ->
  (forall l, aget (store s) r = Some l -> l_ack l = 255) ->  (* ACK: the reference handed over is not an acknowledgement reference *)
  GInv s' (g <| g_xe := xe' |>).
Proof.
  intros G Hx E1 E2 E3 E4 E5 E6 Hw Hlong Hnp.
  assert (Hoc : forall r0, (occ r0 (wrefs (ewheel s')) + occ r0 (wrefs (elong s')) + occ r0 xe'
                           = occ r0 (wrefs (ewheel s)) + occ r0 (wrefs (elong s)) + occ r0 (g_xe g))%nat).
  { intros r0. rewrite Hx, occ_cons. destruct long; destruct Hw as [Hw1 Hw2]; rewrite Hw1, Hw2.
    - rewrite occ_wrefs_push by apply (gi_wf_el _ _ G). rewrite occ_single. lia.
    - rewrite occ_wrefs_push by apply (gi_wf_ew _ _ G). rewrite occ_single. lia. }
  eapply wheels_ginv; eauto; gs.
  - rewrite E5. apply (gi_wf_tw _ _ G).
  - rewrite E6. apply (gi_wf_tl _ _ G).
  - destruct long; destruct Hw as [Hw1 Hw2]; rewrite ?Hw1, ?Hw2; [apply (gi_wf_ew _ _ G)|apply awf_push, (gi_wf_ew _ _ G)].
  - destruct long; destruct Hw as [Hw1 Hw2]; rewrite ?Hw1, ?Hw2; [apply awf_push, (gi_wf_el _ _ G)|apply (gi_wf_el _ _ G)].
  - intros r0 l0 H0 Ha. rewrite Hx, occ_cons. destruct (r =? r0) eqn:E; auto. apply N.eqb_eq in E; subst r0.
    specialize (Hnp l0 H0). congruence.
  - intros r0 l0 H0. destruct (gi_rec _ _ G r0 l0 H0) as [A1 A2 A3 A4 A5 A6 A7 A8 A9 A10 A11].
    unfold tcount, ecount in *. gs. rewrite E5, E6. specialize (Hoc r0).
    repeat split; try lia; auto.
    + intros Ht. destruct (N.eq_dec r0 r) as [->|Hne]; [apply Hlong; auto|].
      destruct (A8 H H1) as [_ Q]. specialize (Q Ht). destruct long; destruct Hw as [Hw1 Hw2]; rewrite ?Hw1, ?Hw2; auto.
      rewrite wheel_get_push. destruct (key =? lkey (l_eT l0)) eqn:Ek; auto. apply N.eqb_eq in Ek. rewrite <- Ek in Q. rewrite occ_app, occ_single.
      destruct (r =? r0) eqn:E; [apply N.eqb_eq in E; congruence|lia].
  - intros r0 H0. pose proof (gi_str _ _ G r0 H0) as S. unfold tcount, ecount in *. gs. rewrite E5, E6. specialize (Hoc r0). lia.
Qed.

(* ---------------------------------------------------------------- AddTimeOut *)
Lemma tl_zero_of_xt s g r xt' l : GInv s g -> g_xt g = r :: xt' -> aget (store s) r = Some l ->
  occ r (wrefs (twheel s)) = O /\ occ r (wrefs (tlong s)) = O /\ occ r xt' = O /\ forall k, occ r (wheel_get (tlong s) k) = O.
Proof.
  intros G Hx Hr. pose proof (ro_tc _ _ _ _ (gi_rec _ _ G r l Hr)) as T. unfold tcount in T.
  rewrite Hx, occ_cons_eq in T. repeat split; try lia. intros k. pose proof (occ_wheel_get_le r (tlong s) k). lia.
Qed.

Lemma add_timeout_ginv s g r xt' l :
  GInv s g -> g_xt g = r :: xt' -> g_pend g = [] -> g_ph g = [] -> aget (store s) r = Some l -> l_long l = false ->
  (l_ack l = 255 ->   (* ACK: a waiter, or an acknowledgement-pending hold (ackCount <> 0xff) *)
   occ r (holders (getm s (l_key l))) = O /\ ecount s g r = O /\ l_locked l = 0
   /\ occ r (m_wq (getm s (l_key l))) = 1%nat) ->
  GInv (add_timeout s r) (g <| g_xt := xt' |> <| g_cw := (g_cw g + liveb (l <| l_timeouted := false |>) - liveb l)%Z |>).
Proof.
  intros G Hx Hp Hph Hr Hlg Hsh.
  assert (Hshape : forall l', l_ack l' = l_ack l -> l_timeouted l' = false -> dead_waiter l' = false ->
            occ r (holders (getm s (l_key l))) = O /\ ecount s g r = O /\ l_locked l = 0
            /\ occ r (m_wq (getm s (l_key l))) = 1%nat).
  { intros l' Ea Et Hd. apply Hsh. unfold dead_waiter in Hd. rewrite Et, Ea in Hd. simpl in Hd.
    apply negb_false_iff in Hd. apply N.eqb_eq in Hd. exact Hd. }
  destruct (tl_zero_of_xt s g r xt' l G Hx Hr) as [Z1 [Z2 [Z3 Z4]]].
  destruct (gi_rec _ _ G r l Hr) as [A1 A2 A3 A4 A5 A6 A7 A8 A9 A10 A11].
  unfold add_timeout. rewrite (updl_some _ _ _ _ Hr).
  set (l1 := l <| l_timeouted := false |>).
  assert (Hg1 : getl (setl s r l1) r = l1) by (rewrite getl_setl, N.eqb_refl; auto).
  rewrite Hg1. change (l_tcc l1) with (l_tcc l). change (l_tT l1) with (l_tT l).
  change (checkT (setl s r l1)) with (checkT s).
  assert (Hs1 : aget (store (setl s r l1)) r = Some l1) by (rewrite store_setl, aget_aset_same; auto).
  destruct (QUEUE_MAX_WAIT <? l_tcc l).
  - (* long table *)
    set (tT' := if (l_tT l <? checkT s)%Z then checkT s else l_tT l).
    rewrite (updl_some _ _ _ _ Hs1), setl_setl.
    set (l2 := l1 <| l_tT := tT' |> <| l_long := true |>).
    pose proof (ginv_pend_add s g r G) as G1.
    assert (G2 : GInv (setl s r l2) (g <| g_pend := r :: g_pend g |> <| g_cw := (g_cw g + liveb l2 - liveb l)%Z |>)).
    { apply (setl_flags s _ r l l2 G1 Hr); auto.
      - apply (Hshape l2); reflexivity.
      - intros _ Hpe. gs. rewrite occ_cons_eq in Hpe. discriminate.
      - gs. rewrite Hph. simpl. tauto.
      - intros Ha. exact (proj1 (A10 Ha)). }
    set (s2 := setl s r l2) in *.
    assert (G3 : GInv (s2 <| tlong := wheel_push (tlong s2) (lkey tT') r |>)
                      (g <| g_pend := r :: g_pend g |> <| g_cw := (g_cw g + liveb l2 - liveb l)%Z |> <| g_xt := xt' |>)).
    { eapply (push_t_ginv s2 _ _ r xt' (lkey tT') true G2); gs; auto.
      intros l0 _ _ Hpe. rewrite occ_cons_eq in Hpe. discriminate. }
    eapply ginv_geq; [eapply (ginv_pend_drop _ _ r [] G3); gs; [rewrite Hp; reflexivity|]|].
    + intros l0 H0 _ _. change (store (s2 <| tlong := wheel_push (tlong s2) (lkey tT') r |>)) with (store s2) in H0.
      unfold s2 in H0. rewrite store_setl, aget_aset_same in H0. inversion H0; subst l0.
      split; [|discriminate]. intros _. cbn [tlong]. change (tlong (s2 <| tlong := wheel_push (tlong s2) (lkey tT') r |>)) with (wheel_push (tlong s2) (lkey tT') r).
      change (l_tT l2) with tT'. rewrite wheel_get_push, N.eqb_refl, occ_app, occ_cons_eq. change (tlong s2) with (tlong s). rewrite Z4. reflexivity.
    + destruct g; gs; subst. reflexivity.
  - (* wheel slot *)
    set (d := if (l_tT l <? checkT s + Z.of_N (l_tcc l))%Z
              then if (l_tT l <? checkT s)%Z then checkT s else l_tT l else (checkT s + Z.of_N (l_tcc l))%Z).
    set (s2 := setl s r l1 <| twheel := wheel_push (twheel (setl s r l1)) (slot_of d) r |>).
    assert (Hs2 : aget (store s2) r = Some l1) by exact Hs1.
    rewrite (updl_some _ _ _ _ Hs2).
    set (l3 := l1 <| l_long := false |>).
    assert (Eq : setl s2 r l3 = setl s r l3 <| twheel := wheel_push (twheel s) (slot_of d) r |>).
    { unfold s2, setl. destruct s; cbn. rewrite aset_aset. reflexivity. }
    rewrite Eq.
    assert (G2 : GInv (setl s r l3) (g <| g_cw := (g_cw g + liveb l3 - liveb l)%Z |>)).
    { apply (setl_flags s _ r l l3 G Hr); auto; [apply (Hshape l3); reflexivity|simpl; discriminate|rewrite Hph; simpl; tauto|].
      intros Ha. exact (proj1 (A10 Ha)). }
    eapply ginv_geq; [eapply (push_t_ginv (setl s r l3) _ _ r xt' (slot_of d) false G2); gs; auto|].
    + intros l0 H0 Hl0. rewrite store_setl, aget_aset_same in H0. inversion H0; subst l0. discriminate.
    + destruct g; gs; subst. reflexivity.
Qed.

(* ---------------------------------------------------------------- AddExpried *)
Lemma el_zero_of_xe s g r xe' l : GInv s g -> g_xe g = r :: xe' -> aget (store s) r = Some l ->
  occ r (wrefs (ewheel s)) = O /\ occ r (wrefs (elong s)) = O /\ occ r xe' = O /\ forall k, occ r (wheel_get (elong s) k) = O.
Proof.
  intros G Hx Hr. pose proof (ro_ec _ _ _ _ (gi_rec _ _ G r l Hr)) as T. unfold ecount in T.
  rewrite Hx, occ_cons_eq in T. repeat split; try lia. intros k. pose proof (occ_wheel_get_le r (elong s) k). lia.
Qed.

Lemma stored_of_xe s g r xe' : GInv s g -> g_xe g = r :: xe' -> exists l, aget (store s) r = Some l.
Proof.
  intros G Hx. destruct (aget (store s) r) as [l|] eqn:E; eauto.
  pose proof (gi_str _ _ G r E) as S. unfold ecount in S. rewrite Hx, occ_cons_eq in S. lia.
Qed.
Lemma stored_of_xt s g r xt' : GInv s g -> g_xt g = r :: xt' -> exists l, aget (store s) r = Some l.
Proof.
  intros G Hx. destruct (aget (store s) r) as [l|] eqn:E; eauto.
  pose proof (gi_str _ _ G r E) as S. unfold tcount in S. rewrite Hx, occ_cons_eq in S. lia.
Qed.

Definition ae_place (s : db) (r : ref) : db :=
  let l := getl s r in
  if QUEUE_MAX_WAIT <? l_ecc l then
    let eT := if (l_eT l <? checkE s)%Z then checkE s else l_eT l in
    let s := updl s r (fun l => l <| l_eT := eT |> <| l_long := true |>) in
    s <| elong := wheel_push (elong s) (lkey eT) r |>
  else
    let d0 := (checkE s + Z.of_N (l_ecc l))%Z in
    let d := if (l_eT l <? d0)%Z then (if (l_eT l <? checkE s)%Z then checkE s else l_eT l) else d0 in
    let s := s <| ewheel := wheel_push (ewheel s) (slot_of d) r |> in
    updl s r (fun l => l <| l_long := false |>).
Definition ae_tail (s : db) (k : N) (r : ref) : db * list event :=
  let l := getl s r in
  if negb (l_isaof l) && negb (l_aoftime l =? 255) && (Z.of_N (l_aoftime l) <=? now s - l_start l)%Z
  then repeat_push_lock_aof (N.to_nat (l_locked l)) s k r
  else (s, []).
Lemma add_expried_eq s k r :
  add_expried s k r = ae_tail (ae_place (updl s r (fun l => l <| l_expried := false |>)) r) k r.
Proof. reflexivity. Qed.

Lemma ae_tail_ok s g k r : GInv s g -> GInv (fst (ae_tail s k r)) g /\ sim s (fst (ae_tail s k r)).
Proof.
  intros G. unfold ae_tail. cbv zeta.
  destruct (negb (l_isaof (getl s r)) && negb (l_aoftime (getl s r) =? 255) && (Z.of_N (l_aoftime (getl s r)) <=? now s - l_start (getl s r))%Z).
  - apply repeat_push_lock_aof_ok; auto.
  - split; [auto|apply sim_refl].
Qed.

Lemma ae_place_ginv s g r xe' l :
  GInv s g -> g_xe g = r :: xe' -> g_pend g = [] -> aget (store s) r = Some l -> l_long l = false ->
  l_timeouted l = true -> l_ack l = 255 ->  (* ACK *)
  GInv (ae_place s r) (g <| g_xe := xe' |>).
Proof.
  intros G Hx Hp Hr Hlg Hti Hak.
  destruct (el_zero_of_xe s g r xe' l G Hx Hr) as [Z1 [Z2 [Z3 Z4]]].
  unfold ae_place. rewrite (getl_some _ _ _ Hr). cbv zeta.
  destruct (QUEUE_MAX_WAIT <? l_ecc l).
  - set (eT' := if (l_eT l <? checkE s)%Z then checkE s else l_eT l).
    rewrite (updl_some _ _ _ _ Hr).
    set (l2 := l <| l_eT := eT' |> <| l_long := true |>).
    pose proof (ginv_pend_add s g r G) as Ga.
    assert (Gb : GInv (setl s r l2) (g <| g_pend := r :: g_pend g |> <| g_cw := (g_cw g + liveb l2 - liveb l)%Z |>)).
    { apply (setl_flags s _ r l l2 Ga Hr); auto; try (intros Ha; congruence).
      - apply (ro_cmd _ _ _ _ (gi_rec _ _ G r l Hr)).
      - unfold dead_waiter. change (l_timeouted l2) with (l_timeouted l). rewrite Hti. discriminate.
      - intros _ Hpe. gs. rewrite occ_cons_eq in Hpe. discriminate.
      - intros _. unfold dead_waiter. change (l_timeouted l2) with (l_timeouted l). rewrite Hti. reflexivity. }
    set (s3 := setl s r l2) in *.
    assert (Gc : GInv (s3 <| elong := wheel_push (elong s3) (lkey eT') r |>)
                      (g <| g_pend := r :: g_pend g |> <| g_cw := (g_cw g + liveb l2 - liveb l)%Z |> <| g_xe := xe' |>)).
    { eapply (push_e_ginv s3 _ _ r xe' (lkey eT') true Gb); gs; auto.
      - intros l0 _ _ Hpe. rewrite occ_cons_eq in Hpe. discriminate.
      - intros l0 H0. unfold s3 in H0. rewrite store_setl, aget_aset_same in H0. inversion H0; subst l0. exact Hak. }
    eapply ginv_geq; [eapply (ginv_pend_drop _ _ r [] Gc); gs; [rewrite Hp; reflexivity|]|].
    + intros l0 H0 _ _. change (store (s3 <| elong := wheel_push (elong s3) (lkey eT') r |>)) with (store s3) in H0.
      unfold s3 in H0. rewrite store_setl, aget_aset_same in H0. inversion H0; subst l0.
      change (l_timeouted l2) with (l_timeouted l). rewrite Hti.
      split; [discriminate|]. intros _.
      change (elong (s3 <| elong := wheel_push (elong s3) (lkey eT') r |>)) with (wheel_push (elong s3) (lkey eT') r).
      change (l_eT l2) with eT'. rewrite wheel_get_push, N.eqb_refl, occ_app, occ_cons_eq. change (elong s3) with (elong s). rewrite Z4. reflexivity.
    + destruct g; gs; subst. unfold liveb. change (dead_waiter l2) with (dead_waiter l). rewrite Z.add_simpl_r. reflexivity.
  - set (d := if (l_eT l <? checkE s + Z.of_N (l_ecc l))%Z
              then if (l_eT l <? checkE s)%Z then checkE s else l_eT l else (checkE s + Z.of_N (l_ecc l))%Z).
    set (s3 := s <| ewheel := wheel_push (ewheel s) (slot_of d) r |>).
    assert (Hs3 : aget (store s3) r = Some l) by exact Hr.
    rewrite (updl_some _ _ _ _ Hs3).
    set (l3 := l <| l_long := false |>).
    assert (Eq : setl s3 r l3 = setl s r l3 <| ewheel := wheel_push (ewheel s) (slot_of d) r |>).
    { unfold s3, setl. destruct s; reflexivity. }
    rewrite Eq.
    assert (Gb : GInv (setl s r l3) g).
    { apply (setl_irrel s g r l l3 G Hr); [unfold same_rel; intuition|intuition]. }
    eapply (push_e_ginv (setl s r l3) _ _ r xe' (slot_of d) false Gb); gs; auto.
    + intros l0 H0 Hl0. rewrite store_setl, aget_aset_same in H0. inversion H0; subst l0. discriminate.
    + intros l0 H0. rewrite store_setl, aget_aset_same in H0. inversion H0; subst l0. exact Hak.
Qed.

Lemma add_expried_ginv s g k r xe' l :
  GInv s g -> g_xe g = r :: xe' -> g_pend g = [] -> aget (store s) r = Some l -> l_long l = false ->
  l_timeouted l = true -> l_ack l = 255 ->  (* ACK *)
  GInv (fst (add_expried s k r)) (g <| g_xe := xe' |>).
Proof.
  intros G Hx Hp Hr Hlg Hti Hak. rewrite add_expried_eq. rewrite (updl_some _ _ _ _ Hr).
  set (l1 := l <| l_expried := false |>).
  assert (G1 : GInv (setl s r l1) g).
  { apply (setl_irrel s g r l l1 G Hr); [unfold same_rel; intuition|intuition]. }
  assert (Hs1 : aget (store (setl s r l1)) r = Some l1) by (rewrite store_setl, aget_aset_same; auto).
  apply ae_tail_ok. eapply ae_place_ginv; eauto.
Qed.

(* the record is still in the store afterwards, with the fields the engine reads unchanged *)
Lemma sim_trans3 a b c d : sim a b -> sim b c -> sim c d -> sim a d.
Proof. intros. eapply sim_trans; eauto. eapply sim_trans; eauto. Qed.

(* ---------------------------------------------------------------- RemoveLongTimeOut / RemoveLongExpried *)
Lemma occ_le_length r l : (occ r l <= length l)%nat.
Proof. induction l as [|x t IH]; simpl; [lia|]. destruct (x =? r); lia. Qed.

(* removing the (single) entry of r from a long-table bucket; the table's reference moves to g_pre *)
Lemma long_remove_ginv s s' g r l (is_t : bool) key :
  GInv s g -> aget (store s) r = Some l -> (0 < occ r (g_pend g))%nat ->
  occ r (wheel_get (if is_t then tlong s else elong s) key) = 1%nat ->
  mgrs s' = mgrs s -> store s' = store s -> next s' = next s -> cnt s' = cnt s ->
  twheel s' = twheel s -> ewheel s' = ewheel s ->
  (let w := if is_t then tlong s else elong s in
   let q' := remove_ref (wheel_get w key) r in
   let w' := match q' with [] => adel w key | _ => aset w key q' end in
   if is_t then tlong s' = w' /\ elong s' = elong s else elong s' = w' /\ tlong s' = tlong s) ->
  GInv s' (g <| g_pre := r :: g_pre g |>).
Proof.
  intros G Hr Hpe Hoc E1 E2 E3 E4 E5 E6 Hw. cbv zeta in Hw.
  set (w := if is_t then tlong s else elong s) in *.
  set (q' := remove_ref (wheel_get w key) r) in *.
  set (w' := match q' with [] => adel w key | _ => aset w key q' end) in *.
  assert (Ww : awf w) by (unfold w; destruct is_t; [apply (gi_wf_tl _ _ G)|apply (gi_wf_el _ _ G)]).
  assert (Ww' : awf w') by (unfold w'; destruct q'; [apply awf_adel|apply awf_aset]; auto).
  assert (Hget : forall k0, wheel_get w' k0 = if key =? k0 then q' else wheel_get w k0).
  { intros k0. unfold w'. destruct q' eqn:Eq; [rewrite wheel_get_adel|rewrite wheel_get_aset]; auto. }
  assert (Hocc : forall r0, (occ r0 (wrefs w') + occ r0 (wheel_get w key) = occ r0 q' + occ r0 (wrefs w))%nat).
  { intros r0. unfold w'. destruct q' eqn:Eq.
    - pose proof (occ_wrefs_adel r0 w key Ww). simpl. lia.
    - apply occ_wrefs_aset; auto. }
  assert (Hq : forall r0, occ r0 q' = if r0 =? r then O else occ r0 (wheel_get w key)).
  { intros r0. unfold q'. destruct (r0 =? r) eqn:E.
    - apply N.eqb_eq in E; subst. apply occ_remove_same.
    - apply N.eqb_neq in E. apply occ_remove_other; auto. }
  assert (Hsum : forall r0, Nat.add (occ r0 (wrefs w')) (if N.eqb r0 r then 1%nat else O) = occ r0 (wrefs w)).
  { intros r0. specialize (Hocc r0). rewrite Hq in Hocc. destruct (r0 =? r) eqn:E; [apply N.eqb_eq in E; subst; lia|lia]. }
  eapply wheels_ginv; eauto; gs.
  - rewrite E5. apply (gi_wf_tw _ _ G).
  - destruct is_t; destruct Hw as [Hw1 Hw2]; rewrite ?Hw1, ?Hw2; auto. apply (gi_wf_tl _ _ G).
  - rewrite E6. apply (gi_wf_ew _ _ G).
  - destruct is_t; destruct Hw as [Hw1 Hw2]; rewrite ?Hw1, ?Hw2; auto. apply (gi_wf_el _ _ G).
  - intros r0 l0 H0. destruct (gi_rec _ _ G r0 l0 H0) as [A1 A2 A3 A4 A5 A6 A7 A8 A9 A10 A11].
    unfold tcount, ecount in *. gs. rewrite E5, E6, occ_cons. specialize (Hsum r0).
    assert (Hr0 : (r =? r0) = (r0 =? r)) by apply N.eqb_sym. rewrite Hr0.
    destruct is_t; destruct Hw as [Hw1 Hw2]; rewrite Hw1, Hw2; unfold w in Hsum.
    + repeat split; try lia.
      intros Ht. destruct (N.eq_dec r0 r) as [->|Hne]; [lia|].
      destruct (A8 H H1) as [Q _]. specialize (Q Ht). fold w. rewrite Hget.
      destruct (key =? lkey (l_tT l0)) eqn:Ek; auto. apply N.eqb_eq in Ek. rewrite Hq.
      apply N.eqb_neq in Hne. rewrite Hne. rewrite Ek. exact Q.
    + repeat split; try lia.
      intros Ht. destruct (N.eq_dec r0 r) as [->|Hne]; [lia|].
      destruct (A8 H H1) as [_ Q]. specialize (Q Ht). fold w. rewrite Hget.
      destruct (key =? lkey (l_eT l0)) eqn:Ek; auto. apply N.eqb_eq in Ek. rewrite Hq.
      apply N.eqb_neq in Hne. rewrite Hne. rewrite Ek. exact Q.
  - intros r0 H0. pose proof (gi_str _ _ G r0 H0) as S. unfold tcount, ecount in *. gs. rewrite E5, E6.
    specialize (Hsum r0). destruct is_t; destruct Hw as [Hw1 Hw2]; rewrite Hw1, Hw2; unfold w in Hsum; lia.
Qed.

Lemma wheel_get_some w k r : (0 < occ r (wheel_get w k))%nat -> exists q, aget w k = Some q /\ wheel_get w k = q.
Proof. unfold wheel_get. destruct (aget w k) as [q|]; [eauto|simpl; lia]. Qed.

(* consuming a g_pre unit: refCount-- together with clearing the long flag *)
Lemma setl_unlong_decref s g r l pre' :
  GInv s g -> aget (store s) r = Some l -> g_pre g = r :: pre' -> occ r pre' = O -> g_owe g = [] -> g_ph g = [] ->
  (0 < l_locked l -> occ r (holders (getm s (l_key l))) = 1%nat) ->
  GInv (setl s r (l <| l_long := false |> <| l_refc := dec8 (l_refc l) |>)) (g <| g_pre := pre' |>).
Proof.
  intros G Hr Hq Hq0 Ho Hp Hh.
  destruct (rec_counts s g r l G Hr) as [[C1 [C2 [C3 C4]]] _].
  destruct (gi_rec _ _ G r l Hr) as [A1 A2 A3 A4 A5 A6 A7 A8 A9 A10 A11].
  rewrite Hq, Ho, Hp, occ_cons_eq, Hq0 in A3. simpl occ in A3.
  rewrite dec8_pred by lia.
  set (la := l <| l_refc := l_refc l - 1 |>).
  assert (Ga : GInv (setl s r la) (g <| g_pre := pre' |>)).
  { eapply setl_refc; eauto; gs; change (tcount s (g <| g_pre := pre' |>) r) with (tcount s g r);
      change (ecount s (g <| g_pre := pre' |>) r) with (ecount s g r); rewrite ?Ho, ?Hp, ?Hq0; simpl occ; try lia.
    - rewrite Hq. occ_others.
    - simpl. tauto. }
  assert (Hra : aget (store (setl s r la)) r = Some la) by (rewrite store_setl, aget_aset_same; auto).
  pose proof (setl_flags _ _ r la (la <| l_long := false |>) Ga Hra) as F.
  rewrite setl_setl in F.
  eapply ginv_geq; [apply F; auto|].
  - simpl. discriminate.
  - gs. rewrite Hp. simpl. tauto.
  - intros Ha. exact (proj1 (A10 Ha)).
  - destruct g; gs. unfold liveb. change (dead_waiter (la <| l_long := false |>)) with (dead_waiter la).
    rewrite Z.add_simpl_r. reflexivity.
Qed.

Lemma remove_long_timeout_ginv s g r l :
  GInv s g -> aget (store s) r = Some l -> (0 < occ r (g_pend g))%nat ->
  g_pre g = [] -> g_owe g = [] -> g_ph g = [] ->
  occ r (wheel_get (tlong s) (lkey (l_tT l))) = 1%nat ->
  (0 < l_locked l -> occ r (holders (getm s (l_key l))) = 1%nat) ->
  GInv (remove_long_timeout s r) g.
Proof.
  intros G Hr Hpe Hq Ho Hp Hoc Hh. unfold remove_long_timeout. rewrite (getl_some _ _ _ Hr).
  destruct (wheel_get_some (tlong s) (lkey (l_tT l)) r) as [q [Hq1 Hq2]]; [lia|]. rewrite Hq1.
  set (s1 := s <| tlong := match remove_ref q r with [] => adel (tlong s) (lkey (l_tT l)) | _ => aset (tlong s) (lkey (l_tT l)) (remove_ref q r) end |>).
  assert (G1 : GInv s1 (g <| g_pre := r :: g_pre g |>)).
  { eapply (long_remove_ginv s s1 g r l true (lkey (l_tT l))); eauto. cbv zeta. rewrite Hq2. split; reflexivity. }
  assert (Hr1 : aget (store s1) r = Some l) by exact Hr.
  rewrite (updl_some _ _ _ _ Hr1).
  eapply ginv_geq; [eapply (setl_unlong_decref s1 _ r l [] G1 Hr1); gs; auto; rewrite Hq; reflexivity|].
  destruct g; gs; subst; reflexivity.
Qed.

Lemma remove_long_expried_ginv s g r l eT :
  GInv s g -> aget (store s) r = Some l -> (0 < occ r (g_pend g))%nat ->
  g_pre g = [] -> g_owe g = [] -> g_ph g = [] ->
  occ r (wheel_get (elong s) (lkey eT)) = 1%nat ->
  (0 < l_locked l -> occ r (holders (getm s (l_key l))) = 1%nat) ->
  GInv (remove_long_expried s r eT) g.
Proof.
  intros G Hr Hpe Hq Ho Hp Hoc Hh. unfold remove_long_expried.
  destruct (wheel_get_some (elong s) (lkey eT) r) as [q [Hq1 Hq2]]; [lia|]. rewrite Hq1.
  set (s1 := s <| elong := match remove_ref q r with [] => adel (elong s) (lkey eT) | _ => aset (elong s) (lkey eT) (remove_ref q r) end |>).
  assert (G1 : GInv s1 (g <| g_pre := r :: g_pre g |>)).
  { eapply (long_remove_ginv s s1 g r l false (lkey eT)); eauto. cbv zeta. rewrite Hq2. split; reflexivity. }
  assert (Hr1 : aget (store s1) r = Some l) by exact Hr.
  rewrite (updl_some _ _ _ _ Hr1).
  eapply ginv_geq; [eapply (setl_unlong_decref s1 _ r l [] G1 Hr1); gs; auto; rewrite Hq; reflexivity|].
  destruct g; gs; subst; reflexivity.
Qed.

(* ---------------------------------------------------------------- sweepers pop their references *)
Lemma pop_t_ginv s g slot r rest :
  GInv s g -> wheel_get (twheel s) slot = r :: rest ->
  GInv (s <| twheel := aset (twheel s) slot rest |>) (g <| g_xt := r :: g_xt g |>).
Proof.
  intros G Hw.
  assert (Hoc : forall r0, (occ r0 (wrefs (aset (twheel s) slot rest)) + occ r0 [r] = occ r0 (wrefs (twheel s)))%nat).
  { intros r0. pose proof (occ_wrefs_aset r0 (twheel s) slot rest (gi_wf_tw _ _ G)) as A. rewrite Hw, occ_cons in A.
    rewrite occ_single. lia. }
  eapply wheels_ginv; eauto; gs; try (apply G).
  - apply awf_aset, (gi_wf_tw _ _ G).
  - intros r0 l0 H0. destruct (gi_rec _ _ G r0 l0 H0) as [A1 A2 A3 A4 A5 A6 A7 A8 A9 A10 A11].
    unfold tcount, ecount in *. gs. specialize (Hoc r0). rewrite occ_cons. rewrite occ_single in Hoc.
    change (twheel (s <| twheel := aset (twheel s) slot rest |>)) with (aset (twheel s) slot rest).
    change (tlong (s <| twheel := aset (twheel s) slot rest |>)) with (tlong s).
    change (ewheel (s <| twheel := aset (twheel s) slot rest |>)) with (ewheel s).
    change (elong (s <| twheel := aset (twheel s) slot rest |>)) with (elong s).
    repeat split; try lia; auto.
  - intros r0 H0. pose proof (gi_str _ _ G r0 H0) as S. unfold tcount, ecount in *. gs. specialize (Hoc r0).
    rewrite occ_cons. rewrite occ_single in Hoc.
    change (twheel (s <| twheel := aset (twheel s) slot rest |>)) with (aset (twheel s) slot rest).
    change (tlong (s <| twheel := aset (twheel s) slot rest |>)) with (tlong s).
    change (ewheel (s <| twheel := aset (twheel s) slot rest |>)) with (ewheel s).
    change (elong (s <| twheel := aset (twheel s) slot rest |>)) with (elong s). lia.
Qed.

Lemma pop_e_ginv s g slot r rest :
  GInv s g -> wheel_get (ewheel s) slot = r :: rest ->
  GInv (s <| ewheel := aset (ewheel s) slot rest |>) (g <| g_xe := r :: g_xe g |>).
Proof.
  intros G Hw.
  assert (Hoc : forall r0, (occ r0 (wrefs (aset (ewheel s) slot rest)) + occ r0 [r] = occ r0 (wrefs (ewheel s)))%nat).
  { intros r0. pose proof (occ_wrefs_aset r0 (ewheel s) slot rest (gi_wf_ew _ _ G)) as A. rewrite Hw, occ_cons in A.
    rewrite occ_single. lia. }
  eapply wheels_ginv; eauto; gs; try (apply G).
  - apply awf_aset, (gi_wf_ew _ _ G).
  - intros r0 l0 H0 Ha. destruct (gi_rec _ _ G r0 l0 H0) as [A1 A2 A3 A4 A5 A6 A7 A8 A9 A10 A11].
    destruct (A10 Ha) as [_ [_ Q]]. rewrite occ_cons. destruct (r =? r0) eqn:E; auto. apply N.eqb_eq in E; subst r0.
    exfalso. unfold ecount in A5. pose proof (occ_wheel_get_le r (ewheel s) slot) as Le. rewrite Hw, occ_cons_eq in Le. lia.
  - intros r0 l0 H0. destruct (gi_rec _ _ G r0 l0 H0) as [A1 A2 A3 A4 A5 A6 A7 A8 A9 A10 A11].
    unfold tcount, ecount in *. gs. specialize (Hoc r0). rewrite occ_cons. rewrite occ_single in Hoc.
    change (ewheel (s <| ewheel := aset (ewheel s) slot rest |>)) with (aset (ewheel s) slot rest).
    change (tlong (s <| ewheel := aset (ewheel s) slot rest |>)) with (tlong s).
    change (twheel (s <| ewheel := aset (ewheel s) slot rest |>)) with (twheel s).
    change (elong (s <| ewheel := aset (ewheel s) slot rest |>)) with (elong s).
    repeat split; try lia; auto.
  - intros r0 H0. pose proof (gi_str _ _ G r0 H0) as S. unfold tcount, ecount in *. gs. specialize (Hoc r0).
    rewrite occ_cons. rewrite occ_single in Hoc.
    change (ewheel (s <| ewheel := aset (ewheel s) slot rest |>)) with (aset (ewheel s) slot rest).
    change (tlong (s <| ewheel := aset (ewheel s) slot rest |>)) with (tlong s).
    change (twheel (s <| ewheel := aset (ewheel s) slot rest |>)) with (twheel s).
    change (elong (s <| ewheel := aset (ewheel s) slot rest |>)) with (elong s). lia.
Qed.

(* a whole long-table bucket is taken out: its entries are pending (exempt from the bucket clause) *)
Lemma bucket_t_ginv s g key items :
  GInv s g -> aget (tlong s) key = Some items ->
  GInv (s <| tlong := adel (tlong s) key |>) (g <| g_xt := items ++ g_xt g |> <| g_pend := items ++ g_pend g |>).
Proof.
  intros G Hw.
  assert (Hg : wheel_get (tlong s) key = items) by (unfold wheel_get; rewrite Hw; auto).
  assert (Hoc : forall r0, (occ r0 (wrefs (adel (tlong s) key)) + occ r0 items = occ r0 (wrefs (tlong s)))%nat).
  { intros r0. pose proof (occ_wrefs_adel r0 (tlong s) key (gi_wf_tl _ _ G)) as A. rewrite Hg in A. lia. }
  eapply wheels_ginv; eauto; gs; try (apply G).
  - apply awf_adel, (gi_wf_tl _ _ G).
  - intros r0 l0 H0. destruct (gi_rec _ _ G r0 l0 H0) as [A1 A2 A3 A4 A5 A6 A7 A8 A9 A10 A11].
    unfold tcount, ecount in *. gs. specialize (Hoc r0). rewrite !occ_app.
    change (tlong (s <| tlong := adel (tlong s) key |>)) with (adel (tlong s) key).
    change (twheel (s <| tlong := adel (tlong s) key |>)) with (twheel s).
    change (ewheel (s <| tlong := adel (tlong s) key |>)) with (ewheel s).
    change (elong (s <| tlong := adel (tlong s) key |>)) with (elong s).
    repeat split; try lia; auto.
    + intros Ht. assert (Hp0 : occ r0 (g_pend g) = O) by lia. destruct (A8 H Hp0) as [Q _]. specialize (Q Ht).
      rewrite wheel_get_adel. destruct (key =? lkey (l_tT l0)) eqn:Ek; auto.
      apply N.eqb_eq in Ek. rewrite <- Ek, Hg in Q. lia.
  - intros r0 H0. pose proof (gi_str _ _ G r0 H0) as S. unfold tcount, ecount in *. gs. specialize (Hoc r0). rewrite !occ_app.
    change (tlong (s <| tlong := adel (tlong s) key |>)) with (adel (tlong s) key).
    change (twheel (s <| tlong := adel (tlong s) key |>)) with (twheel s).
    change (ewheel (s <| tlong := adel (tlong s) key |>)) with (ewheel s).
    change (elong (s <| tlong := adel (tlong s) key |>)) with (elong s). lia.
Qed.

Lemma bucket_e_ginv s g key items :
  GInv s g -> aget (elong s) key = Some items ->
  GInv (s <| elong := adel (elong s) key |>) (g <| g_xe := items ++ g_xe g |> <| g_pend := items ++ g_pend g |>).
Proof.
  intros G Hw.
  assert (Hg : wheel_get (elong s) key = items) by (unfold wheel_get; rewrite Hw; auto).
  assert (Hoc : forall r0, (occ r0 (wrefs (adel (elong s) key)) + occ r0 items = occ r0 (wrefs (elong s)))%nat).
  { intros r0. pose proof (occ_wrefs_adel r0 (elong s) key (gi_wf_el _ _ G)) as A. rewrite Hg in A. lia. }
  eapply wheels_ginv; eauto; gs; try (apply G).
  - apply awf_adel, (gi_wf_el _ _ G).
  - intros r0 l0 H0 Ha. destruct (gi_rec _ _ G r0 l0 H0) as [A1 A2 A3 A4 A5 A6 A7 A8 A9 A10 A11].
    destruct (A10 Ha) as [_ [_ Q]]. rewrite occ_app. unfold ecount in A5.
    pose proof (occ_wheel_get_le r0 (elong s) key) as Le. rewrite Hg in Le. lia.
  - intros r0 l0 H0. destruct (gi_rec _ _ G r0 l0 H0) as [A1 A2 A3 A4 A5 A6 A7 A8 A9 A10 A11].
    unfold tcount, ecount in *. gs. specialize (Hoc r0). rewrite !occ_app.
    change (elong (s <| elong := adel (elong s) key |>)) with (adel (elong s) key).
    change (twheel (s <| elong := adel (elong s) key |>)) with (twheel s).
    change (ewheel (s <| elong := adel (elong s) key |>)) with (ewheel s).
    change (tlong (s <| elong := adel (elong s) key |>)) with (tlong s).
    repeat split; try lia; auto.
    + intros Ht. assert (Hp0 : occ r0 (g_pend g) = O) by lia. destruct (A8 H Hp0) as [_ Q]. specialize (Q Ht).
      rewrite wheel_get_adel. destruct (key =? lkey (l_eT l0)) eqn:Ek; auto.
      apply N.eqb_eq in Ek. rewrite <- Ek, Hg in Q. lia.
  - intros r0 H0. pose proof (gi_str _ _ G r0 H0) as S. unfold tcount, ecount in *. gs. specialize (Hoc r0). rewrite !occ_app.
    change (elong (s <| elong := adel (elong s) key |>)) with (adel (elong s) key).
    change (twheel (s <| elong := adel (elong s) key |>)) with (twheel s).
    change (ewheel (s <| elong := adel (elong s) key |>)) with (ewheel s).
    change (tlong (s <| elong := adel (elong s) key |>)) with (tlong s). lia.
Qed.

(* ---------------------------------------------------------------- the store keeps its domain under the wheel operations *)
Lemma updl_stored s r f r0 : aget (store (updl s r f)) r0 = None <-> aget (store s) r0 = None.
Proof.
  unfold updl. destruct (aget (store s) r) as [l|] eqn:E; [|tauto].
  rewrite store_setl, aget_aset. destruct (r =? r0) eqn:E2; [|tauto].
  apply N.eqb_eq in E2; subst. rewrite E. split; discriminate.
Qed.
Lemma sim_stored_iff s s' r0 : sim s s' -> (aget (store s') r0 = None <-> aget (store s) r0 = None).
Proof.
  intros S. pose proof (sim_l _ _ S r0) as P. unfold orel in P.
  destruct (aget (store s) r0), (aget (store s') r0); try tauto; split; discriminate.
Qed.
Lemma add_expried_stored s k r r0 : aget (store (fst (add_expried s k r))) r0 = None <-> aget (store s) r0 = None.
Proof.
  rewrite add_expried_eq.
  assert (T : forall s0, aget (store (fst (ae_tail s0 k r))) r0 = None <-> aget (store s0) r0 = None).
  { intros s0. unfold ae_tail. cbv zeta.
    destruct (negb (l_isaof (getl s0 r)) && negb (l_aoftime (getl s0 r) =? 255) && (Z.of_N (l_aoftime (getl s0 r)) <=? now s0 - l_start (getl s0 r))%Z); [|tauto].
    assert (R : forall n s1, aget (store (fst (repeat_push_lock_aof n s1 k r))) r0 = None <-> aget (store s1) r0 = None).
    { induction n as [|n IH]; intros s1; simpl; [tauto|].
      assert (P1 : aget (store (fst (push_lock_aof s1 k r 0))) r0 = None <-> aget (store s1) r0 = None).
      { unfold push_lock_aof. destruct (negb (leader s1)); [tauto|].
        destruct (has (c_flag (l_cmd (getl s1 r))) LOCK_FLAG_FROM_AOF); cbn [fst]; [apply updl_stored|].
        destruct (aof_lock_data true (m_data (getm s1 k)) (l_data (getl s1 r))) as [[d c'] ld']. cbn [fst].
        rewrite !updl_stored. unfold updm. destruct (aget (mgrs s1) k); tauto. }
      destruct (push_lock_aof s1 k r 0) as [s2 e2]. cbn [fst] in P1.
      specialize (IH s2). destruct (repeat_push_lock_aof n s2 k r) as [s3 e3]. cbn [fst] in *. tauto. }
    apply R. }
  rewrite T. unfold ae_place. cbv zeta.
  set (s1 := updl s r (fun l => l <| l_expried := false |>)).
  assert (E1 : aget (store s1) r0 = None <-> aget (store s) r0 = None) by apply updl_stored.
  destruct (QUEUE_MAX_WAIT <? l_ecc (getl s1 r)).
  - change (store (updl s1 r _ <| elong := _ |>)) with (store (updl s1 r (fun l0 => l0 <| l_eT := if (l_eT (getl s1 r) <? checkE s1)%Z then checkE s1 else l_eT (getl s1 r) |> <| l_long := true |>))).
    rewrite updl_stored. exact E1.
  - rewrite updl_stored. exact E1.
Qed.
Lemma add_timeout_stored s r r0 : aget (store (add_timeout s r)) r0 = None <-> aget (store s) r0 = None.
Proof.
  unfold add_timeout. cbv zeta.
  set (s1 := updl s r (fun l => l <| l_timeouted := false |>)).
  assert (E1 : aget (store s1) r0 = None <-> aget (store s) r0 = None) by apply updl_stored.
  destruct (QUEUE_MAX_WAIT <? l_tcc (getl s1 r)).
  - match goal with |- aget (store (?S <| tlong := _ |>)) r0 = None <-> _ => change (store (S <| tlong := _ |>)) with (store S) end.
    rewrite updl_stored. exact E1.
  - rewrite updl_stored. exact E1.
Qed.
