(* The reference-count floor, part 5: doTimeOut, doExpried, the sweepers, steps and runs. *)
From Coq Require Import String ZifyN ZifyBool ZifyNat Permutation.
From Slock Require Import Engine.Types Engine.Queues Engine.Timers Engine.Engine Engine.Engine2 Engine.InvDef Engine.InvBase
  Engine.InvPrims Engine.InvRec Engine.InvWheel Engine.InvQueue Engine.InvQueue2 Engine.InvSteps Engine.InvLockDefs Engine.InvLock
  Engine.InvUnlock Engine.InvSweep Engine.InvMain Engine.InvNext Engine.InvProps
  Engine.LocalBase Engine.RunDrain Engine.RunDrainQ Engine.RunDrainSteps Engine.RunDrainSteps2
  Engine.RunDrainFloor Engine.RunDrainFloor2 Engine.RunDrainFloor3 Engine.RunDrainFloor4.
Open Scope N_scope.

Lemma NF_unref_rm s x r k : NF None None s x -> NF None None s (unref_rm x r k).
Proof.
  intros H. unfold unref_rm. cbv zeta.
  destruct (match aget (store (unref x r)) r with None => true | Some _ => false end); [apply NF_remove_mgr|]; apply NF_unref; exact H.
Qed.

(* ---------------------------------------------------------------- doTimeOut: only checked decrements *)
Lemma do_timeout_JR s xe k0 r rest :
  GInv s (gk (r :: rest) xe k0) -> JR s xe -> JR (fst (fst (do_timeout s r))) xe.
Proof.
  intros G0 HJ. destruct (stored_of_xt s _ r rest G0 eq_refl) as [l Hr].
  unfold do_timeout. rewrite Hr. set (k := l_key l).
  destruct (l_timeouted l) eqn:Et.
  - cbn [fst]. eapply JR_transfer_all; [exact HJ|]. apply (NF_unref_rm s s r k). apply NF_refl.
  - destruct (ro_live _ _ _ _ (gi_rec _ _ G0 r l Hr) Et) as [_ [_ [Q3 _]]].
    cbv zeta. rewrite Q3. change (0 <? 0) with false. cbv iota.
    set (x1 := updl s r (fun l0 => l0 <| l_timeouted := true |>)).
    assert (N1 : NF None None s x1) by (unfold x1; apply NF_updl_ntr; [intros l0; unfold ntr; cbn; auto|apply NF_refl]).
    destruct (get_wait_lock x1 k) as [s2 w] eqn:Egw.
    assert (N2 : NF None None s s2) by (eapply NF_get_wait_lock; [exact Egw|exact N1]).
    cbn [fst]. eapply JR_transfer_all; [exact HJ|]. clear N1. nf.
Qed.

(* ---------------------------------------------------------------- doExpried *)
Lemma JR_drop_xe s s' r rest : JR s (r :: rest) -> NF None None s s' ->
  (forall l, aget (store s) r = Some l -> l_locked l = 0) -> JR s' rest.
Proof.
  intros HJ HN H0. apply (JR_transfer (Some r) s s' (r :: rest) rest HJ); [apply NF_weaken; exact HN| |].
  - intros y Hy [->|Hi]; [congruence|exact Hi].
  - intros t l' Et Hl'. assert (t = r) by congruence. subst t. destruct HN as [HR _].
    destruct (HR r l') as (l & E & (_ & N1 & _ & N3)); [discriminate|exact Hl'|].
    destruct (HJ r l E) as (A & _ & _). apply JRr_refc; [auto|]. rewrite N1. apply (H0 l E).
Qed.

Lemma do_expried_JR s xt k0 r rest :
  GInv s (gk xt (r :: rest) k0) -> JR s (r :: rest) -> JR (fst (fst (do_expried s r))) rest.
Proof.
  intros G0 HJ. destruct (stored_of_xe s _ r rest G0 eq_refl) as [l Hr].
  unfold do_expried. rewrite Hr. set (k := l_key l).
  pose proof (gk_rekey s xt (r :: rest) k0 k G0) as G. set (g := gk xt (r :: rest) k) in *.
  destruct (HJ r l Hr) as (J1 & J3 & J4).
  destruct (l_expried l) eqn:Ee.
  - (* already released: drop the sweeper's reference *)
    cbn [fst]. apply (JR_drop_xe s _ r rest HJ); [apply (NF_unref_rm s s r k), NF_refl|].
    intros l0 E0. assert (l0 = l) by congruence. subst l0. auto.
  - destruct (gi_rec _ _ G r l Hr) as [A1 A2 A3 A4 A5 A6 A7 A8 A9 A10 A11].
    destruct (rec_counts s g r l G Hr) as [[C1 [C2 [C3 C4]]] [m [Hm Hgm]]]. fold k in Hm, Hgm.
    assert (Ht : l_timeouted l = true).
    { destruct (l_timeouted l) eqn:E; auto. destruct (A6 eq_refl) as [_ [Q _]]. unfold ecount, g, gk in Q. gs. rewrite occ_cons_eq in Q. lia. }
    destruct (negb (leader s) && l_isaof l && ((l_eT l <=? 0)%Z || (now s - l_eT l <? EXPRIED_WAIT_LEADER_MAX_TIME)%Z)).
    + (* not the leader: back onto the expiry structures *)
      cbv zeta.
      set (x1 := updl s r (fun l0 => l0 <| l_eT := (now s + 30)%Z |>)).
      assert (Hr1 : aget (store x1) r = Some (l <| l_eT := (now s + 30)%Z |>)) by (unfold x1; rewrite aget_store_updl, N.eqb_refl, Hr; reflexivity).
      assert (N1 : NF (Some r) (Some r) s x1) by (unfold x1; apply NF_updl_T, NF_refl).
      pose proof (NF_fst_add_expried (Some r) s x1 k r N1) as N2.
      pose proof (add_expried_in x1 k r rest) as Pin.
      pose proof (add_expried_rec x1 k r) as Prec.
      destruct (add_expried x1 k r) as [s2 aev]. cbn [fst] in *.
      apply (JR_transfer (Some r) s s2 (r :: rest) rest HJ N2).
      * intros y Hy [->|Hi]; [congruence|exact Hi].
      * intros t l' Et Hl'. assert (t = r) by congruence. subst t.
        destruct (Prec l' Hl') as (l1 & E1 & L1 & X1 & R1). rewrite Hr1 in E1. inv E1.
        split; [apply R1; exact J1|]. split; [intros _; exact Pin|congruence].
    + (* the hold expires *)
      cbv zeta. rewrite (updl_some _ _ _ _ Hr).
      set (l1 := l <| l_expried := true |>).
      assert (G1 : GInv (setl s r l1) g).
      { apply (setl_irrel s g r l l1 G Hr); [unfold same_rel; intuition|intuition]. }
      set (s1 := setl s r l1) in *.
      assert (Hr1 : aget (store s1) r = Some l1) by (unfold s1; rewrite store_setl, aget_aset_same; auto).
      assert (Hm1 : aget (mgrs s1) k = Some m) by exact Hm.
      destruct (gi_mgr _ _ G k m Hm) as [B1 B2 B3 B4 B5 B6 B7 B8 B9 Bb B10 Bc].
      set (d := l_locked l) in *.
      assert (Hsum : d <= m_locked m).
      { destruct (N.eq_dec d 0) as [E|E]; [lia|].
        assert (Hh : occ r (holders m) = 1%nat) by (rewrite <- Hgm; apply A7; [lia|reflexivity]).
        assert (Hin : In r (holders m)) by (apply occ_In; lia).
        pose proof (sumdepth_ge s r (holders m) Hin) as S. rewrite (getl_some _ _ _ Hr) in S.
        unfold dlk, g, gk in B6. gs. destruct (k =? k) in B6; fold d in S; lia. }
      destruct Bb as [_ Bl].
      rewrite (updm_some _ _ _ _ Hm1).
      set (m1 := m <| m_locked := sub32 (m_locked m) d |>).
      assert (Hl1 : m_locked m1 = m_locked m - d) by (unfold m1; cbn; apply sub32_sub; lia).
      assert (G2 : GInv (setm s1 k m1) (gkd xt (r :: rest) k (Z.of_N d) (- Z.of_N d) 0)).
      { eapply ginv_geq; [apply (setm_scalar s1 g k m m1 G1 Hm1); try (destruct m; reflexivity); [lia|right; reflexivity]|].
        rewrite Hl1. unfold g, gk, gkd. gs.
        match goal with |- _ = ?g0 <| g_dl := ?e1 |> <| g_cl := ?e2 |> =>
          replace e1 with (Z.of_N d) by lia; replace e2 with (- Z.of_N d)%Z by lia end. reflexivity. }
      set (s2 := setm s1 k m1) in *.
      assert (Hr2 : aget (store s2) r = Some l1) by exact Hr1.
      assert (N2 : NF (Some r) (Some r) s s2) by (unfold s2, s1; apply NF_setm, NF_setl_T, NF_refl).
      assert (P : exists s3 l3, s3 = (if l_isaof (getl s2 r) then fst (push_unlock_aof s2 k r (l_cmd l) None false AOF_FLAG_EXPRIED) else s2)
              /\ GInv s3 (gkd xt (r :: rest) k (Z.of_N d) (- Z.of_N d) 0) /\ aget (store s3) r = Some l3 /\ lsame l1 l3
              /\ NF (Some r) (Some r) s s3).
      { destruct (l_isaof (getl s2 r)).
        - destruct (push_unlock_aof_ok s2 _ k r (l_cmd l) None false AOF_FLAG_EXPRIED G2) as [Ga Sa].
          destruct (sim_stored _ _ r l1 Sa Hr2) as [l3 [H1 H2]].
          eexists _, l3. split; [reflexivity|]. split; [exact Ga|]. split; [exact H1|]. split; [exact H2|].
          apply NF_fst_push_unlock_aof. exact N2.
        - exists s2, l1. split; [reflexivity|]. split; [exact G2|]. split; [exact Hr2|]. split; [apply lsame_refl|exact N2]. }
      destruct P as [s3 [l3 [E3 [G3 [Hr3 [Hs3 N3]]]]]].
      assert (K3 : l_key l3 = k) by (rewrite Hs3; reflexivity).
      assert (D3 : l_locked l3 = d) by (rewrite Hs3; reflexivity).
      assert (G4 : GInv (remove_lock s3 k r) (gkd xt (r :: rest) k 0 (- Z.of_N d) 0)).
      { destruct (N.eq_dec d 0) as [E0|E0].
        - rewrite E0 in *. apply (remove_lock_dead_ginv s3 _ k r l3 G3); unfold gkd; gs; auto.
        - eapply ginv_geq; [apply (remove_lock_ginv s3 _ k r l3 G3); unfold gkd; gs; auto; lia|].
          rewrite D3. unfold gkd. gs. match goal with |- _ = ?g0 <| g_dl := ?e1 |> => replace e1 with 0%Z by lia end. reflexivity. }
      pose proof (NF_remove_lock (Some r) s s3 k r N3) as N4.
      remember (remove_lock s3 k r) as s4 eqn:Es4.
      (* after RemoveLock the record still carries the sweeper's reference *)
      assert (J4' : JR s4 (r :: rest)).
      { apply (JR_transfer (Some r) s s4 (r :: rest) (r :: rest) HJ N4); [auto|].
        intros t l' Et Hl'. assert (t = r) by congruence. subst t.
        apply (JRr_ref_e_g s4 (gkd xt (r :: rest) k 0 (- Z.of_N d) 0) r l' G4); [repeat split|exact Hl'| |right; right; simpl; auto].
        rewrite Es4 in Hl'. apply (remove_lock_locked0 s3 k r l' Hl'). }
      assert (L4 : forall l4, aget (store s4) r = Some l4 -> l_locked l4 = 0).
      { intros l4 H4. rewrite Es4 in H4. apply (remove_lock_locked0 s3 k r l4 H4). }
      destruct (l_isaof (getl s2 r)); [destruct (push_unlock_aof s2 k r (l_cmd l) None false AOF_FLAG_EXPRIED) as [s3' aev]|];
        cbn [fst] in *; subst s3; rewrite <- Es4; apply (JR_drop_xe s4 _ r rest J4'); auto; clear N2 N3 N4; nf.
Qed.

(* ---------------------------------------------------------------- the collecting halves of the sweepers *)
Lemma JR_xe_incl s xe xe' : (forall y, In y xe -> In y xe') -> JR s xe -> JR s xe'.
Proof.
  intros Hi HJ r l Hr. destruct (HJ r l Hr) as (A & B & C). split; [auto|]. split; [|auto].
  intros Hd. destruct (B Hd) as [P|[P|P]]; [left; auto|right; left; auto|right; right; auto].
Qed.

(* timeout side: nothing but checked decrements and flag / counter updates *)
Lemma NF_sweep_t_slot fuel : forall s0 s slot nowv due, NF None None s0 s -> NF None None s0 (fst (sweep_t_slot fuel s slot nowv due)).
Proof.
  induction fuel as [|f IH]; intros s0 s slot nowv due H; simpl; [exact H|].
  destruct (wheel_get (twheel s) slot) as [|r rest]; [exact H|].
  set (s1 := s <| twheel := aset (twheel s) slot rest |>).
  assert (H1 : NF None None s0 s1) by (eapply (NF_same _ _ _ s); [reflexivity|reflexivity|reflexivity|exact H]).
  change (store s1) with (store s). destruct (aget (store s) r) as [lr|]; [|exact H1].
  destruct (negb (l_timeouted (getl s1 r))).
  - destruct (nowv <? l_tT (getl s1 r))%Z; [|apply IH; exact H1].
    apply IH. apply NF_add_timeout. apply NF_updl_ntr; [intros l0; unfold ntr; cbn; auto|exact H1].
  - apply IH. apply (NF_unref_rm s0 s1 r (l_key (getl s1 r)) H1).
Qed.
Lemma NF_sweep_long items : forall s0 s is_t due, NF None None s0 s -> NF None None s0 (fst (sweep_long s items is_t due)).
Proof.
  induction items as [|r rest IH]; intros s0 s is_t due H; simpl; [exact H|].
  set (s1 := updl s r (fun l => l <| l_long := false |>)).
  assert (H1 : NF None None s0 s1) by (unfold s1; apply NF_updl_ntr; [intros l0; unfold ntr; cbn; auto|exact H]).
  destruct (negb (if is_t then l_timeouted (getl s1 r) else l_expried (getl s1 r))); [apply IH; exact H1|].
  apply IH. apply (NF_unref_rm s0 s1 r (l_key (getl s1 r)) H1).
Qed.
Lemma collect_timeouts_JR s xe t nowv : JR s xe -> JR (fst (collect_timeouts s t nowv)) xe.
Proof.
  intros HJ. eapply JR_transfer_all; [exact HJ|]. unfold collect_timeouts.
  pose proof (NF_sweep_t_slot (10 * length (wheel_get (twheel s) (slot_of t)) + 10) s s (slot_of t) nowv [] (NF_refl _ _ _)) as H1.
  destruct (sweep_t_slot _ s (slot_of t) nowv []) as [s1 due]. cbn [fst] in H1.
  destruct (aget (tlong s1) (lkey t)) as [items|]; [|exact H1].
  apply NF_sweep_long. eapply (NF_same _ _ _ s1); [reflexivity|reflexivity|reflexivity|exact H1].
Qed.

(* expiry side *)
Lemma rearm_JR x k r due l : JR x (r :: due) -> aget (store x) r = Some l -> JR (fst (add_expried x k r)) due.
Proof.
  intros HJ Hr.
  pose proof (NF_fst_add_expried (Some r) x x k r (NF_refl _ _ _)) as N2.
  apply (JR_transfer (Some r) x _ (r :: due) due HJ N2).
  - intros y Hy [->|Hi]; [congruence|exact Hi].
  - intros t l' Et Hl'. assert (t = r) by congruence. subst t.
    destruct (add_expried_rec x k r l' Hl') as (l1 & E1 & L1 & X1 & R1). assert (l1 = l) by congruence. subst l1.
    destruct (HJ r l Hr) as (A & _ & _).
    split; [apply R1; exact A|]. split; [intros _; apply add_expried_in|congruence].
Qed.

Lemma JR_pop_e s slot r rest due : JR s due -> wheel_get (ewheel s) slot = r :: rest ->
  JR (s <| ewheel := aset (ewheel s) slot rest |>) (r :: due).
Proof.
  intros HJ Ew y l Hy. change (store (s <| ewheel := aset (ewheel s) slot rest |>)) with (store s) in Hy.
  destruct (HJ y l Hy) as (A & B & C). split; [auto|]. split; [|auto].
  intros Hd. destruct (B Hd) as [[key P]|[P|P]].
  - destruct (key =? slot) eqn:E.
    + apply N.eqb_eq in E. subst key. rewrite Ew in P. destruct P as [->|P]; [right; right; simpl; auto|].
      left. exists slot. change (ewheel (s <| ewheel := aset (ewheel s) slot rest |>)) with (aset (ewheel s) slot rest).
      rewrite wheel_get_aset, N.eqb_refl. exact P.
    + left. exists key. change (ewheel (s <| ewheel := aset (ewheel s) slot rest |>)) with (aset (ewheel s) slot rest).
      rewrite wheel_get_aset. rewrite N.eqb_sym, E. exact P.
  - right. left. exact P.
  - right. right. simpl. auto.
Qed.

Lemma sweep_e_slot_JR fuel : forall s slot nowv due ev, JR s due ->
  JR (fst (fst (sweep_e_slot fuel s slot nowv due ev))) (snd (fst (sweep_e_slot fuel s slot nowv due ev))).
Proof.
  induction fuel as [|f IH]; intros s slot nowv due ev HJ; simpl; [exact HJ|].
  destruct (wheel_get (ewheel s) slot) as [|r rest] eqn:Ew; [exact HJ|].
  pose proof (JR_pop_e s slot r rest due HJ Ew) as J1.
  set (s1 := s <| ewheel := aset (ewheel s) slot rest |>) in *.
  assert (Jsn : JR s1 (due ++ [r])).
  { eapply JR_xe_incl; [|exact J1]. intros y [->|Hy]; apply in_or_app; simpl; auto. }
  destruct (aget (store s) r) as [l|] eqn:Hr0; [|exact Jsn].
  assert (Hr : aget (store s1) r = Some l) by exact Hr0.
  rewrite (getl_some _ _ _ Hr).
  destruct (l_expried l) eqn:Ee; cbn [negb].
  - apply IH. apply (JR_drop_xe s1 _ r due J1); [apply (NF_unref_rm s1 s1 r (l_key l)), NF_refl|].
    intros l0 E0. assert (l0 = l) by congruence. subst l0. destruct (J1 r l Hr) as (_ & _ & C). auto.
  - destruct (nowv <? l_eT l)%Z; [|apply IH; exact Jsn].
    set (x1 := updl s1 r (fun l0 => l0 <| l_ecc := (l_ecc l0 + 1) mod 256 |>)).
    assert (Jx : JR x1 (r :: due)).
    { eapply JR_transfer_all; [exact J1|]. unfold x1. apply NF_updl_ntr; [intros l0; unfold ntr; cbn; auto|apply NF_refl]. }
    assert (Hr1 : aget (store x1) r = Some (l <| l_ecc := (l_ecc l + 1) mod 256 |>)) by (unfold x1; rewrite aget_store_updl, N.eqb_refl, Hr; reflexivity).
    pose proof (rearm_JR x1 (l_key l) r due _ Jx Hr1) as J2.
    destruct (add_expried x1 (l_key l) r) as [s3 aev]. cbn [fst] in J2. apply IH. exact J2.
Qed.

Lemma sweep_long_e_JR items : forall s due, JR s (items ++ due) ->
  JR (fst (sweep_long s items false due)) (snd (sweep_long s items false due)).
Proof.
  induction items as [|r rest IH]; intros s due HJ; simpl; [exact HJ|].
  set (s1 := updl s r (fun l => l <| l_long := false |>)).
  assert (J1 : JR s1 (r :: rest ++ due)).
  { eapply JR_transfer_all; [exact HJ|]. unfold s1. apply NF_updl_ntr; [intros l0; unfold ntr; cbn; auto|apply NF_refl]. }
  destruct (l_expried (getl s1 r)) eqn:Ee; cbn [negb].
  - apply IH. apply (JR_drop_xe s1 _ r (rest ++ due) J1); [apply (NF_unref_rm s1 s1 r (l_key (getl s1 r))), NF_refl|].
    intros l0 E0. rewrite (getl_some _ _ _ E0) in Ee. destruct (J1 r l0 E0) as (_ & _ & C). auto.
  - apply IH. eapply JR_xe_incl; [|exact J1].
    intros y [->|Hy]; [apply in_or_app; right; apply in_or_app; simpl; auto|].
    apply in_app_or in Hy. apply in_or_app. destruct Hy; [auto|right; apply in_or_app; auto].
Qed.

Lemma JR_bucket_e s key items due : JR s due -> aget (elong s) key = Some items ->
  JR (s <| elong := adel (elong s) key |>) (items ++ due).
Proof.
  intros HJ Eb y l Hy. change (store (s <| elong := adel (elong s) key |>)) with (store s) in Hy.
  destruct (HJ y l Hy) as (A & B & C). split; [auto|]. split; [|auto].
  intros Hd. destruct (B Hd) as [P|[[k1 P]|P]].
  - left. exact P.
  - destruct (key =? k1) eqn:E.
    + apply N.eqb_eq in E. subst k1. unfold wheel_get in P. rewrite Eb in P. right. right. apply in_or_app. auto.
    + right. left. exists k1. change (elong (s <| elong := adel (elong s) key |>)) with (adel (elong s) key).
      rewrite wheel_get_adel, E. exact P.
  - right. right. apply in_or_app. auto.
Qed.

Lemma collect_expiries_JR s t nowv : JR s [] ->
  JR (fst (fst (collect_expiries s t nowv))) (snd (fst (collect_expiries s t nowv))).
Proof.
  intros HJ. unfold collect_expiries.
  pose proof (sweep_e_slot_JR (10 * length (wheel_get (ewheel s) (slot_of t)) + 10) s (slot_of t) nowv [] [] HJ) as J1.
  destruct (sweep_e_slot _ s (slot_of t) nowv [] []) as [[s1 due] ev]. cbn [fst snd] in J1.
  destruct (aget (elong s1) (lkey t)) as [items|] eqn:El; [|exact J1].
  pose proof (sweep_long_e_JR items _ due (JR_bucket_e s1 (lkey t) items due J1 El)) as J2.
  destruct (sweep_long (s1 <| elong := adel (elong s1) (lkey t) |>) items false due) as [s2 due2]. exact J2.
Qed.

(* ---------------------------------------------------------------- the firing halves, one second, a whole sweep *)
Lemma fire_all_t_JR due : forall s xe k, GInv s (gk due xe k) -> JR s xe -> JR (fst (fire_all do_timeout s due)) xe.
Proof.
  induction due as [|r rest IH]; intros s xe k G HJ; simpl; [exact HJ|].
  destruct (do_timeout_ginv s xe k r rest G) as [k1 [G1 Hw]].
  pose proof (do_timeout_JR s xe k r rest G HJ) as J1.
  destruct (do_timeout s r) as [[s1 e1] w] eqn:Ed. cbn [fst snd] in *.
  pose proof (finish_ginv s1 e1 w rest xe k1 G1 Hw) as G2.
  pose proof (finish_JR s1 e1 w rest xe k1 G1 Hw J1) as J2'.
  destruct (finish (s1, e1, w)) as [s2 e2]. cbn [fst] in *.
  specialize (IH s2 xe k1 G2 J2'). destruct (fire_all do_timeout s2 rest) as [s3 e3]. exact IH.
Qed.

Lemma fire_all_e_JR due : forall s xt k, GInv s (gk xt due k) -> JR s due -> JR (fst (fire_all do_expried s due)) [].
Proof.
  induction due as [|r rest IH]; intros s xt k G HJ; simpl; [exact HJ|].
  destruct (do_expried_ginv s xt k r rest G) as [k1 [G1 Hw]].
  pose proof (do_expried_JR s xt k r rest G HJ) as J1.
  destruct (do_expried s r) as [[s1 e1] w] eqn:Ed. cbn [fst snd] in *.
  pose proof (finish_ginv s1 e1 w xt rest k1 G1 Hw) as G2.
  pose proof (finish_JR s1 e1 w xt rest k1 G1 Hw J1) as J2'.
  destruct (finish (s1, e1, w)) as [s2 e2]. cbn [fst] in *.
  specialize (IH s2 xt k1 G2 J2'). destruct (fire_all do_expried s2 rest) as [s3 e3]. exact IH.
Qed.

Lemma sweep_t_secs_JR n : forall s t nowv, Inv s -> JR s [] -> JR (fst (sweep_t_secs n s t nowv)) [].
Proof.
  induction n as [|n IH]; intros s t nowv G HJ; simpl; [exact HJ|].
  pose proof (collect_timeouts_ginv s [] 0 t nowv (inv_gk s 0 G)) as G1.
  pose proof (collect_timeouts_JR s [] t nowv HJ) as J1.
  destruct (collect_timeouts s t nowv) as [s1 due]. cbn [fst snd] in *.
  destruct (fire_all_t_ginv due s1 [] 0 G1) as [k' G2].
  pose proof (fire_all_t_JR due s1 [] 0 G1 J1) as J2'.
  destruct (fire_all do_timeout s1 due) as [s2 e2]. cbn [fst] in *.
  pose proof (IH s2 (t + 1)%Z nowv (gk_inv s2 k' G2) J2') as J3.
  destruct (sweep_t_secs n s2 (t + 1)%Z nowv) as [s3 e3]. exact J3.
Qed.

Lemma sweep_e_secs_JR n : forall s t nowv, Inv s -> JR s [] -> JR (fst (sweep_e_secs n s t nowv)) [].
Proof.
  induction n as [|n IH]; intros s t nowv G HJ; simpl; [exact HJ|].
  pose proof (collect_expiries_ginv s [] 0 t nowv (inv_gk s 0 G)) as G1.
  pose proof (collect_expiries_JR s t nowv HJ) as J1.
  destruct (collect_expiries s t nowv) as [[s1 due] e1]. cbn [fst snd] in *.
  destruct (fire_all_e_ginv due s1 [] 0 G1) as [k' G2].
  pose proof (fire_all_e_JR due s1 [] 0 G1 J1) as J2'.
  destruct (fire_all do_expried s1 due) as [s2 e2]. cbn [fst] in *.
  pose proof (IH s2 (t + 1)%Z nowv (gk_inv s2 k' G2) J2') as J3.
  destruct (sweep_e_secs n s2 (t + 1)%Z nowv) as [s3 e3]. exact J3.
Qed.

(* ---------------------------------------------------------------- one action, runs *)
Lemma JR_scalar s s' xe : store s' = store s -> ewheel s' = ewheel s -> elong s' = elong s -> JR s xe -> JR s' xe.
Proof. intros E1 E2 E3 HJ. eapply JR_transfer_all; [exact HJ|]. eapply (NF_same _ _ _ s); eauto. apply NF_refl. Qed.

Theorem JR_step s a : Inv s -> JR s [] -> core_action a = true -> next s < MAXREC -> JR (fst (step s a)) [].
Proof.
  intros G HJ Ha Hb. destruct a as [conn c|k| | |r ok|b]; cbn [step core_action] in *.
  - apply cmd_core_b_iff in Ha. pose proof (inv_gk s (c_key c) G) as G1.
    assert (R : res_ok [] [] (c_key c) (if c_lock c then lock_step s conn c else unlock_step s conn c)).
    { destruct (c_lock c); [apply lock_step_ginv; auto|apply unlock_step_ginv; auto; apply Ha]. }
    assert (J1 : JR (fst (fst (if c_lock c then lock_step s conn c else unlock_step s conn c))) []).
    { destruct (c_lock c); [apply (lock_step_JR s [] []); auto|apply (unlock_step_JR s [] []); auto; apply Ha]. }
    destruct (if c_lock c then lock_step s conn c else unlock_step s conn c) as [[s1 ev] w]. destruct R as [R1 R2]. cbn [fst snd] in *.
    apply (finish_JR s1 ev w [] [] (c_key c)); auto.
  - apply (JR_scalar s); auto.
  - unfold sweep_timeouts. apply sweep_t_secs_JR; [apply (inv_scalar s); auto|apply (JR_scalar s); auto].
  - unfold sweep_expiries. apply sweep_e_secs_JR; [apply (inv_scalar s); auto|apply (JR_scalar s); auto].
  - discriminate.
  - apply (JR_scalar s); auto.
Qed.

Lemma JR_init t0 a : JR (init_db t0 a) [].
Proof. intros r l H. discriminate. Qed.

Theorem JR_run_bounded acts : forall s, Inv s -> JR s [] -> Forall (fun a => core_action a = true) acts -> bounded_run s acts ->
  JR (fst (run s acts)) [].
Proof.
  induction acts as [|a rest IH]; intros s G HJ Hc Hb; [exact HJ|].
  rewrite run_fst_cons. inversion Hc; subst. destruct Hb as [Hb1 Hb2].
  apply IH; auto; [apply inv_step; auto|apply JR_step; auto].
Qed.

Theorem JR_core t0 a acts : core acts -> JR (fst (run (init_db t0 a) acts)) [].
Proof.
  intros H. destruct (core_core_run t0 a acts H) as [H1 H2].
  apply JR_run_bounded; auto; [apply inv_init|apply JR_init].
Qed.

(* ---------------------------------------------------------------- the statements, in the vocabulary of C17 *)
(* J1 refcount floor, J3 a held record is on the expiry wheel or long table exactly once, J4 a released / expired
   record holds nothing *)
Theorem refc_floor s : Inv s -> JR s [] -> forall r l, aget (store s) r = Some l ->
  1 <= l_refc l
  /\ (0 < l_locked l -> (occ r (wrefs (ewheel s)) + occ r (wrefs (elong s)) = 1)%nat)
  /\ (l_expried l = true -> l_locked l = 0).
Proof.
  intros G HJ r l Hr. destruct (HJ r l Hr) as (A & B & C). split; [lia|]. split; [|exact C].
  intros Hd. pose proof (ro_ec _ _ _ _ (gi_rec _ _ G r l Hr)) as E. unfold ecount, g0 in E. cbn in E.
  assert (P : (1 <= occ r (wrefs (ewheel s)) + occ r (wrefs (elong s)))%nat).
  { destruct (B Hd) as [[key P]|[[key P]|[]]]; apply in_wheel_get_wrefs in P; apply occ_In in P; lia. }
  lia.
Qed.

Theorem reach_refc_floor t0 a acts : core acts ->
  forall r l, aget (store (fst (run (init_db t0 a) acts))) r = Some l ->
    1 <= l_refc l
    /\ (0 < l_locked l -> (occ r (wrefs (ewheel (fst (run (init_db t0 a) acts)))) + occ r (wrefs (elong (fst (run (init_db t0 a) acts)))) = 1)%nat)
    /\ (l_expried l = true -> l_locked l = 0).
Proof. intros H. apply refc_floor; [apply inv_core; auto|apply JR_core; auto]. Qed.
