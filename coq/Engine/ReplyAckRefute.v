(* C03 outside the core subset: with the acknowledgement layer (Engine/Ack.v) a re-entrant re-lock that carries the
   require-ack flag is answered twice -- SUCCED at once (db.go re-entrant branch), then LOCKED_ERROR by DoAckLock when the
   pushed record is acknowledged (the lock is an ordinary holder: `!lock.expried` branch of DoAckLock). *)
From Slock Require Import Engine.Types Engine.Queues Engine.Timers Engine.Engine Engine.Engine2 Engine.Ack
  Engine.ReplyBase Engine.ReplyLocal Engine.ReplyInv.
Open Scope N_scope.

Definition refute_lock (req rcount tflag : N) : cmd := make_cmd true req 0 101 7 tflag 5 0 10 0 rcount None.

(* lock; let it be persisted (2 s, expiry sweep); re-lock the same LockId with require-ack and Rcount 1; the record is acked *)
Definition refute_history : list aaction :=
  [AAct (AReq 1 (refute_lock 1 0 0)); AAct (AAdvance 2); AAct ASweepE;
   AAct (AReq 1 (refute_lock 2 1 TF_REQUIRE_ACKED)); AAckEvt 0 true].

Lemma reentrant_ack_two_replies :
  let H := rinfos (concat (snd (arun (init_astate 1000000 1 1) refute_history))) in
  H = [(1, 1, R_SUCCED); (1, 2, R_SUCCED); (1, 2, R_LOCKED_ERROR)]
  /\ length (filter (is_term 2) H) = 2%nat.
Proof. vm_compute. split; reflexivity. Qed.
