(* Run-level theorems, part 6 (property C01): the capacity bound.  In every core run in which every Lock request on key
   k carries Count c < 0xffff, the number of simultaneous holders of k (lock records of the key with depth > 0) never
   exceeds c + 1; with Count 0 there are never two.  If moreover every such request carries Rcount <= p, every
   holder's re-entrant depth is at most p + 1, so `locked` (the number of outstanding holds, depth included) is at
   most (c + 1) * (p + 1): c + 1 when nobody re-enters.  Without a bound on Rcount `locked` itself is NOT bounded by
   c + 1 (re-entrant levels count): see depth_bound_refuted. *)
From Coq Require Import String ZifyN ZifyBool ZifyNat Permutation.
From Slock Require Import Engine.Types Engine.Queues Engine.Timers Engine.Engine Engine.Engine2 Engine.InvDef Engine.InvBase
  Engine.InvPrims Engine.InvRec Engine.InvWheel Engine.InvQueue Engine.InvQueue2 Engine.InvSteps Engine.InvLockDefs Engine.InvLock
  Engine.InvUnlock Engine.InvSweep Engine.InvMain Engine.InvProps Engine.InvNext.
From Slock Require Engine.LocalC01.
From Slock Require Import Engine.RunDsc Engine.RunDscSteps Engine.RunScheme.
Open Scope N_scope.

Ltac inv H := inversion H; subst; clear H.

(* ---------------------------------------------------------------- counting *)
(* a duplicate-free sublist of H: its length is at most the sum over H of any weight that is >= 1 on it *)
Lemma nodup_incl_sum s : forall L H, NoDup L -> incl L H -> (forall r, In r L -> 1 <= l_locked (getl s r)) ->
  N.of_nat (length L) <= sumdepth s H.
Proof.
  induction L as [|r L IH]; intros H ND Hin Hw; [simpl; lia|].
  inversion ND as [|? ? Hn ND']; subst.
  assert (Hr : In r H) by (apply Hin; left; auto).
  apply in_split in Hr. destruct Hr as (H1 & H2 & ->).
  assert (Hin' : incl L (H1 ++ H2)).
  { intros x Hx. assert (Hx' : In x (H1 ++ r :: H2)) by (apply Hin; right; auto).
    apply in_app_or in Hx'. apply in_or_app. destruct Hx' as [?|[->|?]]; auto. contradiction. }
  specialize (IH (H1 ++ H2) ND' Hin' (fun x Hx => Hw x (or_intror Hx))).
  rewrite sumdepth_app in *. simpl sumdepth. specialize (Hw r (or_introl eq_refl)). simpl length. lia.
Qed.

Lemma length_remove_nodup (r : N) : forall L, NoDup L -> (length L <= S (length (List.remove N.eq_dec r L)))%nat.
Proof.
  induction L as [|x L IH]; intros ND; simpl; [lia|]. inversion ND; subst.
  destruct (N.eq_dec r x) as [->|E].
  - rewrite notin_remove by auto. lia.
  - simpl. specialize (IH H2). lia.
Qed.

Lemma nodup_remove (r : N) L : NoDup L -> NoDup (List.remove N.eq_dec r L).
Proof.
  induction L as [|x L IH]; intros ND; simpl; [constructor|]. inversion ND; subst.
  destruct (N.eq_dec r x); auto. constructor; auto. intros Hi. apply in_remove in Hi. tauto.
Qed.

(* ---------------------------------------------------------------- holders of a key *)
Definition livek (k : N) (s : db) (r : ref) : Prop :=
  exists l, aget (store s) r = Some l /\ l_key l = k /\ 0 < l_locked l.

(* between critical sections: duplicate-free holders of key k number at most `locked` *)
Lemma live_le_locked s k L : GK s -> NoDup L -> (forall r, In r L -> livek k s r) ->
  N.of_nat (length L) <= m_locked (getm s k).
Proof.
  intros (xt & xe & k0 & G) ND HL.
  destruct L as [|r0 L0] eqn:EL; [simpl; lia|]. rewrite <- EL in *.
  assert (Hr0 : livek k s r0) by (apply HL; rewrite EL; left; auto).
  destruct Hr0 as (l0 & Hs0 & Hk0 & _).
  pose proof (ro_mgr _ _ _ _ (gi_rec _ _ G r0 l0 Hs0)) as Hm. rewrite Hk0 in Hm.
  destruct (aget (mgrs s) k) as [m|] eqn:Em; [|congruence].
  rewrite (getm_some _ _ _ Em).
  pose proof (mo_sum _ _ _ _ (gi_mgr _ _ G k m Em)) as S.
  assert (Hd : dlk (gk xt xe k0) k = 0%Z) by (unfold dlk, gk; gs; destruct (k =? k0); reflexivity).
  rewrite Hd in S.
  assert (Hle : N.of_nat (length L) <= sumdepth s (holders m)).
  { apply nodup_incl_sum; auto.
    - intros r Hr. destruct (HL r Hr) as (l & Hs & Hk & Hd0).
      pose proof (ro_held _ _ _ _ (gi_rec _ _ G r l Hs) Hd0) as Hh. rewrite Hk, (getm_some _ _ _ Em) in Hh.
      apply occ_In. rewrite Hh; [lia|reflexivity].
    - intros r Hr. destruct (HL r Hr) as (l & Hs & Hk & Hd0). rewrite (getl_some _ _ _ Hs). lia. }
  lia.
Qed.

(* ---------------------------------------------------------------- the invariant *)
Section Bound.
  Variables (k c : N).
  Hypothesis Hc : c < 65535.

  Definition cnt_ok (s : db) : Prop := forall r l, aget (store s) r = Some l -> l_key l = k -> c_count (l_cmd l) = c.
  Definition bound_ok (s : db) : Prop :=
    forall L, NoDup L -> (forall r, In r L -> livek k s r) -> N.of_nat (length L) <= c + 1.
  Definition PB (s : db) : Prop := cnt_ok s /\ bound_ok s.
  Definition okB (cm : cmd) : Prop := c_key cm = k -> c_count cm = c.

  Lemma rule_le b cc : do_lock_rule b cc c = true -> b <= c.
  Proof. intros H. apply LocalC01.do_lock_rule_meaning in H. lia. Qed.

  Lemma PB_fr0 s s' : fr0 s s' -> PB s -> PB s'.
  Proof.
    intros F [C B]. split.
    - intros r l' G Hk. destruct (F _ _ G) as (l & G1 & K & Cm & D). rewrite Cm. apply (C r l); congruence.
    - intros L ND HL. apply B; auto. intros r Hr. destruct (HL r Hr) as (l' & G & Hk & Hd).
      destruct (F _ _ G) as (l & G1 & K & Cm & D). exists l. repeat split; auto; [congruence|lia].
  Qed.

  (* a new holder r appears in a state s1 (between critical sections) where doLock held with Count c *)
  Lemma bound_new s1 s' r b cc :
    GK s1 -> bound_ok s1 -> b = m_locked (getm s1 k) -> do_lock_rule b cc c = true ->
    (forall r0, r0 <> r -> livek k s' r0 -> livek k s1 r0) -> bound_ok s'.
  Proof.
    intros G B Hb Hrule Hold L ND HL.
    set (L' := List.remove N.eq_dec r L).
    assert (ND' : NoDup L') by (apply nodup_remove; auto).
    assert (HL' : forall r0, In r0 L' -> livek k s1 r0).
    { intros r0 Hr0. apply in_remove in Hr0. destruct Hr0 as [Hi Hn]. apply Hold; auto. }
    pose proof (live_le_locked s1 k L' G ND' HL') as A.
    pose proof (length_remove_nodup r L ND) as A2.
    change (List.remove N.eq_dec r L) with L' in A2.
    apply rule_le in Hrule. clear HL' ND'. clearbody L'. subst b. unfold ref in *. lia.
  Qed.

  Lemma PB_wake s1 kw r l s' :
    GK s1 -> aget (store s1) r = Some l -> l_key l = kw -> l_timeouted l = false -> do_lock s1 kw r = true ->
    frx r s1 s' -> PB s1 -> PB s'.
  Proof.
    intros G Hr Hkey _ Hdo F [C B]. split.
    - intros r0 l' G0 Hk. destruct (F _ _ G0) as (l0 & G1 & K & Cm & D). rewrite Cm. apply (C r0 l0); congruence.
    - assert (Hold : forall r0, r0 <> r -> livek k s' r0 -> livek k s1 r0).
      { intros r0 Hn (l' & G0 & Hk & Hd). destruct (F _ _ G0) as (l0 & G1 & K & Cm & D). exists l0.
        repeat split; auto; [congruence|]. destruct D as [D|[D _]]; [lia|congruence]. }
      destruct (N.eq_dec kw k) as [E|E].
      + assert (Hkey' : l_key l = k) by congruence. clear Hkey. subst kw.
        unfold do_lock in Hdo. rewrite (getl_some _ _ _ Hr) in Hdo. rewrite (C r l Hr Hkey') in Hdo.
        eapply bound_new; eauto.
      + intros L ND HL. apply B; auto. intros r0 Hr0. destruct (N.eq_dec r0 r) as [->|Hn]; [|apply Hold; auto].
        exfalso. destruct (HL r Hr0) as (l' & G0 & Hk & Hd). destruct (F _ _ G0) as (l0 & G1 & K & _). congruence.
  Qed.

  Lemma PB_frc s cm m id r l s' :
    GK s -> okB cm -> aget (mgrs s) (c_key cm) = Some m -> get_locked_lock s m id = Some r ->
    aget (store s) r = Some l -> l_key l = c_key cm -> 0 < l_locked l ->
    frc r (c_count cm) (c_rcount cm) s s' -> PB s -> PB s'.
  Proof.
    intros G Hok Hm Hg Hr Hkey Hd F [C B]. split.
    - intros r0 l' G0 Hk. destruct (F _ _ G0) as (l0 & G1 & K & Cm & D).
      destruct Cm as [Cm|[-> Cm]]; [rewrite Cm; apply (C r0 l0); congruence|].
      rewrite Cm. apply Hok. rewrite Hr in G1. inv G1. congruence.
    - intros L ND HL. apply B; auto. intros r0 Hr0. destruct (HL r0 Hr0) as (l' & G0 & Hk & Hd0).
      destruct (F _ _ G0) as (l0 & G1 & K & Cm & D). exists l0. repeat split; auto; [congruence|].
      destruct D as [D|[-> D]]; [lia|]. rewrite Hr in G1. inv G1. exact Hd.
  Qed.

  Lemma PB_tail s cm c1 s' :
    GK s -> okB cm -> c_count c1 = c_count cm -> tail_dsc s (c_key cm) c1 s' -> PB s -> PB s'.
  Proof.
    intros G Hok Hc1 F [C B]. split.
    - intros r0 l' G0 Hk. destruct (F _ _ G0) as [(_ & K & Cm & _)|(_ & l0 & G1 & K & Cm & D)].
      + rewrite Cm, Hc1. apply Hok. congruence.
      + rewrite Cm. apply (C r0 l0); congruence.
    - assert (Hold : forall r0, r0 <> next s -> livek k s' r0 -> livek k s r0).
      { intros r0 Hn (l' & G0 & Hk & Hd). destruct (F _ _ G0) as [(E & _)|(_ & l0 & G1 & K & Cm & D)]; [congruence|].
        exists l0. repeat split; auto; [congruence|lia]. }
      intros L ND HL.
      destruct (in_dec N.eq_dec (next s) L) as [Hi|Hni].
      + destruct (HL _ Hi) as (l' & G0 & Hk & Hd).
        destruct (F _ _ G0) as [(_ & K & Cm & _ & Hrule)|(E & _)]; [|congruence].
        destruct (Hrule Hd) as [cc Hcc]. assert (Ek : c_key cm = k) by congruence.
        rewrite Hc1, (Hok Ek), Ek in Hcc.
        eapply (bound_new s s' (next s)); eauto.
      + apply B; auto. intros r0 Hr0. apply Hold; auto. intros ->. contradiction.
  Qed.

  Lemma PB_scalar s s' : store s' = store s -> mgrs s' = mgrs s -> next s' = next s -> PB s -> PB s'.
  Proof.
    intros Es Em En [C B]. split.
    - intros r l G. rewrite Es in G. eauto.
    - intros L ND HL. apply B; auto. intros r Hr. destruct (HL r Hr) as (l & G & H). rewrite Es in G. exists l. auto.
  Qed.

  Lemma PB_init t0 a : PB (init_db t0 a).
  Proof.
    split; [intros r l G; discriminate|].
    intros L ND HL. destruct L as [|r L]; [simpl; lia|]. destruct (HL r (or_introl eq_refl)) as (l & G & _). discriminate.
  Qed.

  (* every Lock request of the history on key k carries Count c *)
  Definition count_is (acts : list action) : Prop :=
    Forall (fun a => match a with AReq _ cm => c_lock cm = true -> c_key cm = k -> c_count cm = c | _ => True end) acts.

  Theorem PB_core t0 a acts : core acts -> count_is acts -> PB (fst (run (init_db t0 a) acts)).
  Proof.
    intros Hcore Hcnt.
    apply (S_core PB okB PB_fr0 PB_wake PB_frc PB_tail PB_scalar t0 a acts (PB_init t0 a) Hcore).
    eapply Forall_impl; [|exact Hcnt]. intros [conn cm| | | | |]; simpl; auto.
  Qed.

End Bound.

(* ---- depth: every Lock request on key k carries Rcount <= p *)
Section Depth.
  Variables (k p : N).
  Definition dep_ok (s : db) : Prop := forall r l, aget (store s) r = Some l -> l_key l = k -> l_locked l <= p + 1.
  Definition okD (cm : cmd) : Prop := c_key cm = k -> c_rcount cm <= p.

  Lemma PD_fr0 s s' : fr0 s s' -> dep_ok s -> dep_ok s'.
  Proof.
    intros F D r l' G Hk. destruct (F _ _ G) as (l & G1 & K & Cm & Dd). specialize (D r l G1). rewrite <- K in D. specialize (D Hk). lia.
  Qed.
  Lemma PD_wake s1 kw r l s' :
    GK s1 -> aget (store s1) r = Some l -> l_key l = kw -> l_timeouted l = false -> do_lock s1 kw r = true ->
    frx r s1 s' -> dep_ok s1 -> dep_ok s'.
  Proof.
    intros _ _ _ _ _ F D r0 l' G Hk. destruct (F _ _ G) as (l0 & G1 & K & Cm & Dd). specialize (D r0 l0 G1). rewrite <- K in D.
    specialize (D Hk). destruct Dd as [Dd|[_ Dd]]; lia.
  Qed.
  Lemma PD_frc s cm m id r l s' :
    GK s -> okD cm -> aget (mgrs s) (c_key cm) = Some m -> get_locked_lock s m id = Some r ->
    aget (store s) r = Some l -> l_key l = c_key cm -> 0 < l_locked l ->
    frc r (c_count cm) (c_rcount cm) s s' -> dep_ok s -> dep_ok s'.
  Proof.
    intros _ Hok _ _ Hr Hkey _ F D r0 l' G Hk. destruct (F _ _ G) as (l0 & G1 & K & Cm & Dd). specialize (D r0 l0 G1). rewrite <- K in D.
    specialize (D Hk). destruct Dd as [Dd|(-> & Dd & Dp)]; [lia|].
    rewrite Hr in G1. inv G1. assert (c_rcount cm <= p) by (apply Hok; congruence). lia.
  Qed.
  Lemma PD_tail s cm c1 s' :
    GK s -> okD cm -> c_count c1 = c_count cm -> tail_dsc s (c_key cm) c1 s' -> dep_ok s -> dep_ok s'.
  Proof.
    intros _ _ _ F D r0 l' G Hk. destruct (F _ _ G) as [(_ & _ & _ & Dd & _)|(_ & l0 & G1 & K & Cm & Dd)]; [lia|].
    specialize (D r0 l0 G1). rewrite <- K in D. specialize (D Hk). lia.
  Qed.
  Lemma PD_scalar s s' : store s' = store s -> mgrs s' = mgrs s -> next s' = next s -> dep_ok s -> dep_ok s'.
  Proof. intros Es _ _ D r l G. rewrite Es in G. eauto. Qed.

  Definition rcount_le (acts : list action) : Prop :=
    Forall (fun a => match a with AReq _ cm => c_lock cm = true -> c_key cm = k -> c_rcount cm <= p | _ => True end) acts.

  Theorem PD_core t0 a acts : core acts -> rcount_le acts -> dep_ok (fst (run (init_db t0 a) acts)).
  Proof.
    intros Hcore Hr.
    apply (S_core dep_ok okD PD_fr0 PD_wake PD_frc PD_tail PD_scalar t0 a acts); [intros r l G; discriminate|exact Hcore|].
    eapply Forall_impl; [|exact Hr]. intros [conn cm| | | | |]; simpl; auto.
  Qed.
End Depth.

(* ---------------------------------------------------------------- the user-level statements *)
Definition live_holders (s : db) (k : N) : list ref := filter (fun r => 0 <? l_locked (getl s r)) (holders (getm s k)).

Lemma sumdepth_filter s L : sumdepth s (filter (fun r => 0 <? l_locked (getl s r)) L) = sumdepth s L.
Proof.
  induction L as [|x L IH]; simpl; auto. destruct (0 <? l_locked (getl s x)) eqn:E; simpl; [lia|].
  apply N.ltb_ge in E. lia.
Qed.

Lemma live_holders_facts s k : Inv s ->
  NoDup (live_holders s k) /\ (forall r, In r (live_holders s k) -> livek k s r)
  /\ m_locked (getm s k) = sumdepth s (live_holders s k).
Proof.
  intros G. unfold live_holders. split; [|split].
  - apply NoDup_filter. unfold getm. destruct (aget (mgrs s) k) as [m|] eqn:Em; [|constructor].
    apply (mo_nd _ _ _ _ (gi_mgr _ _ G k m Em)).
  - intros r Hr. apply filter_In in Hr. destruct Hr as [Hi Hd]. apply N.ltb_lt in Hd.
    unfold getm in Hi. destruct (aget (mgrs s) k) as [m|] eqn:Em; [|destruct Hi].
    destruct (inv_holders_wf s G k m Em) as (W & _). destruct (W r Hi) as (l & Hs & Hk & _).
    exists l. rewrite (getl_some _ _ _ Hs) in Hd. auto.
  - rewrite sumdepth_filter. apply inv_locked_is_sum. exact G.
Qed.

(* all users of key k pass Count c < 0xffff: at most c + 1 simultaneous holders *)
Theorem holders_bound k c t0 a acts : c < 65535 -> core acts -> count_is k c acts ->
  N.of_nat (length (live_holders (fst (run (init_db t0 a) acts)) k)) <= c + 1.
Proof.
  intros Hc Hcore Hcnt. destruct (PB_core k c Hc t0 a acts Hcore Hcnt) as [_ B].
  destruct (live_holders_facts _ k (inv_core t0 a acts Hcore)) as (ND & HL & _). apply B; auto.
Qed.

(* Count 0: mutual exclusion.  The key is idle, or exactly one lock record holds it and `locked` is its re-entrant depth *)
Theorem count0_mutex k t0 a acts : core acts -> count_is k 0 acts ->
  let s := fst (run (init_db t0 a) acts) in
  (live_holders s k = [] /\ m_locked (getm s k) = 0)
  \/ exists r, live_holders s k = [r] /\ m_locked (getm s k) = l_locked (getl s r) /\ 0 < l_locked (getl s r).
Proof.
  intros Hcore Hcnt s.
  assert (H0 : 0 < 65535) by lia.
  pose proof (holders_bound k 0 t0 a acts H0 Hcore Hcnt) as B. fold s in B.
  destruct (live_holders_facts s k (inv_core t0 a acts Hcore)) as (ND & HL & Hsum).
  destruct (live_holders s k) as [|r [|r2 L]] eqn:E.
  - left. split; auto.
  - right. exists r. split; auto. rewrite Hsum. simpl. split; [lia|].
    destruct (HL r (or_introl eq_refl)) as (l & Hs & _ & Hd). rewrite (getl_some _ _ _ Hs). exact Hd.
  - simpl in B. lia.
Qed.

(* Count c and Rcount <= p for all users of key k: `locked` (outstanding holds, depth included) is at most (c+1)(p+1) *)
Lemma sumdepth_le_len s L d : (forall r, In r L -> l_locked (getl s r) <= d) -> sumdepth s L <= N.of_nat (length L) * d.
Proof.
  induction L as [|x L IH]; intros H; simpl sumdepth; simpl length; [lia|].
  pose proof (H x (or_introl eq_refl)). specialize (IH (fun r Hr => H r (or_intror Hr))). lia.
Qed.

Theorem locked_bound k c p t0 a acts : c < 65535 -> core acts -> count_is k c acts -> rcount_le k p acts ->
  m_locked (getm (fst (run (init_db t0 a) acts)) k) <= (c + 1) * (p + 1).
Proof.
  intros Hc Hcore Hcnt Hr.
  pose proof (holders_bound k c t0 a acts Hc Hcore Hcnt) as B.
  pose proof (PD_core k p t0 a acts Hcore Hr) as D.
  set (s := fst (run (init_db t0 a) acts)) in *.
  destruct (live_holders_facts s k (inv_core t0 a acts Hcore)) as (ND & HL & Hsum).
  rewrite Hsum.
  assert (A : sumdepth s (live_holders s k) <= N.of_nat (length (live_holders s k)) * (p + 1)).
  { apply sumdepth_le_len. intros r Hr0. destruct (HL r Hr0) as (l & Hs & Hk & _). rewrite (getl_some _ _ _ Hs). apply (D r l); auto. }
  nia.
Qed.

(* nobody re-enters (Rcount 0 everywhere on key k): at most c + 1 outstanding holds *)
Theorem locked_bound_norcount k c t0 a acts : c < 65535 -> core acts -> count_is k c acts -> rcount_le k 0 acts ->
  m_locked (getm (fst (run (init_db t0 a) acts)) k) <= c + 1.
Proof. intros Hc Hcore Hcnt Hr. pose proof (locked_bound k c 0 t0 a acts Hc Hcore Hcnt Hr). lia. Qed.

(* with re-entrant levels `locked` exceeds c + 1: Count 0, Rcount 2, one LockId locking three times *)
Definition reentrant_history : list action :=
  [AReq 1 (make_cmd true 1 0 101 7 0 5 0 10 0 2 None); AReq 1 (make_cmd true 2 0 101 7 0 5 0 10 0 2 None);
   AReq 1 (make_cmd true 3 0 101 7 0 5 0 10 0 2 None)].
Lemma depth_bound_refuted :
  core reentrant_history /\ count_is 7 0 reentrant_history
  /\ m_locked (getm (fst (run (init_db 1000000 1) reentrant_history)) 7) = 3
  /\ live_holders (fst (run (init_db 1000000 1) reentrant_history)) 7 = [1].
Proof.
  split; [split; [repeat constructor|vm_compute; reflexivity]|].
  split; [repeat constructor; intros; reflexivity|]. split; vm_compute; reflexivity.
Qed.

(* ---------------------------------------------------------------- the general form, at every grant *)
(* every new-holder event of any run: the holds outstanding before the grant (depth included) are at most the request's
   Count and at most the Count of the oldest holder, or the key was idle (Counts below 0xffff) *)
Theorem grant_general s acts :
  Forall (Forall (fun e => match e with
                           | EGrant _ _ true before cc rc =>
                               before = 0 \/ (before <= N.min cc rc /\ before < 65535)
                               \/ (65535 <= before < 2147483647 /\ cc = 65535 /\ rc = 65535)
                           | _ => True end)) (snd (run s acts)).
Proof.
  pose proof (LocalC01.C01_grant_rule_run s acts) as H.
  eapply Forall_impl; [|exact H]. intros evs Hev. eapply Forall_impl; [|exact Hev].
  intros [| |key r nh b cc rc| |]; auto. destruct nh; auto. unfold LocalC01.ok_grant.
  intros Hr. apply LocalC01.do_lock_rule_meaning in Hr. lia.
Qed.
