(* Engine accounting for the acknowledgement path (C11), part 6: the concrete engine invariant E and the clauses of
   AckSoundDefs.eng_contract that are proved for it.
   E Q s P :=  the heap invariant GInv of AckAcctDef.v with the ghost "at rest" and g_xe = P (the acknowledgement
               references are exactly the records of P)
            /\ this node is the leader
            /\ every allocated record carries a RequestId of Q, pairwise distinct
            /\ a pending record is not timeouted.
   Proved here: ec_init, ec_leader, ec_alloc, ec_nodup, ec_inj, ec_pend, ec_shape, ec_setack, ec_drop (9 of the 11
   clauses).  NOT proved: ec_step and ec_ack (see the end of this file for what they need). *)
From Coq Require Import String ZifyN ZifyBool ZifyNat Permutation.
From Slock Require Import Engine.Types Engine.Queues Engine.Timers Engine.Engine Engine.Engine2 Engine.Ack Engine.InvDef Engine.InvBase Engine.AckAcctDef
  Engine.AckAcctPrims Engine.AckAcctRec Engine.AckAcctWheel Engine.AckAcctQueue.
From Slock Require Import Engine.AckSoundDefs.
Open Scope N_scope.

(* the ghost of a state at rest whose acknowledgement references are the records of P *)
Definition gka (P : list ref) : ghost := mkGhost [] P [] [] [] [] 0 false false 0 0 0.

Definition E (Q : list N) (s : db) (P : list ref) : Prop :=
  GInv s (gka P)
  /\ leader s = true
  /\ (forall r l, aget (store s) r = Some l -> In (c_req (l_cmd l)) Q)
  /\ (forall x y lx ly, aget (store s) x = Some lx -> aget (store s) y = Some ly ->
        c_req (l_cmd lx) = c_req (l_cmd ly) -> x = y)
  /\ (forall r l, aget (store s) r = Some l -> l_ack l <> 255 -> l_timeouted l = false).

(* ---------------------------------------------------------------- the clauses that only read E *)
Lemma E_init t0 aoft : aoft <> 255 -> E [] (init_db t0 aoft) [].
Proof.
  intros _. split; [|split; [reflexivity|split; [|split]]]; try (intros; discriminate).
  constructor; cbn; try constructor; try (intros; discriminate); try (intros; contradiction); try lia; auto.
Qed.

Lemma E_leader Q s P : E Q s P -> leader s = true.
Proof. intros [_ [H _]]. exact H. Qed.

Lemma E_alloc Q s P x : E Q s P -> In x P -> aget (store s) x <> None.
Proof.
  intros [G _] Hi Hn. pose proof (gi_str _ _ G x Hn) as S. unfold ecount, gka in S. gs. apply occ_In in Hi. lia.
Qed.

Lemma E_nodup Q s P : E Q s P -> NoDup P.
Proof.
  intros [G _]. apply occ_nodup. intros r. destruct (aget (store s) r) as [l|] eqn:Hr.
  - pose proof (ro_ec _ _ _ _ (gi_rec _ _ G r l Hr)) as C. unfold ecount, gka in C. gs. lia.
  - pose proof (gi_str _ _ G r Hr) as S. unfold ecount, gka in S. gs. lia.
Qed.

Lemma E_inj Q s P x y lx ly : E Q s P -> aget (store s) x = Some lx -> aget (store s) y = Some ly ->
  c_req (l_cmd lx) = c_req (l_cmd ly) -> x = y.
Proof. intros [_ [_ [_ [H _]]]]. apply H. Qed.

Lemma pend_stored s x : pend s x -> exists l, aget (store s) x = Some l /\ getl s x = l /\ l_ack l <> 255.
Proof.
  unfold pend, getl. destruct (aget (store s) x) as [l|]; [eauto|]. intros H. exfalso. apply H. reflexivity.
Qed.

Lemma E_pend Q s P x : E Q s P -> pend s x -> In x P.
Proof.
  intros [G _] Hp. destruct (pend_stored s x Hp) as [l [Hr [_ Ha]]].
  destruct (ro_ack _ _ _ _ (gi_rec _ _ G x l Hr) Ha) as [_ [_ Q1]]. unfold gka in Q1. gs. apply occ_In. lia.
Qed.

Lemma E_shape Q s P x : E Q s P -> In x P -> pend s x ->
  l_expried (getl s x) = true /\ l_locked (getl s x) <> 0 /\ l_timeouted (getl s x) = false
  /\ has (c_eflag (l_cmd (getl s x))) EF_MILLISECOND = false.
Proof.
  intros [G [_ [_ [_ PT]]]] _ Hp. destruct (pend_stored s x Hp) as [l [Hr [Hg Ha]]]. rewrite Hg.
  pose proof (gi_rec _ _ G x l Hr) as R.
  destruct (ro_ack _ _ _ _ R Ha) as [Q1 [Q2 _]]. destruct (ro_cmd _ _ _ _ R) as [_ [_ [C3 _]]].
  repeat split; auto; [lia|eapply PT; eauto].
Qed.

(* ---------------------------------------------------------------- ec_setack: the layer writes the counter of a pending record *)
Lemma E_setack Q s P x c : E Q s P -> In x P -> pend s x -> c <> 255 ->
  E Q (updl s x (fun l => l <| l_ack := c |>)) P.
Proof.
  intros [G [L [RQ [RI PT]]]] Hi Hp Hc. destruct (pend_stored s x Hp) as [l [Hr [_ Ha]]].
  rewrite (updl_some _ _ _ _ Hr). set (l' := l <| l_ack := c |>).
  pose proof (gi_rec _ _ G x l Hr) as R. destruct (ro_ack _ _ _ _ R Ha) as [Q1 [Q2 Q3]].
  assert (Dl : dead_waiter l = true).
  { unfold dead_waiter. destruct (l_ack l =? 255) eqn:Ea; [apply N.eqb_eq in Ea; contradiction|apply orb_true_r]. }
  assert (Dl' : dead_waiter l' = true).
  { unfold dead_waiter. change (l_ack l') with c. destruct (c =? 255) eqn:Ea; [apply N.eqb_eq in Ea; contradiction|apply orb_true_r]. }
  assert (Hst : forall r, aget (store (setl s x l')) r = if x =? r then Some l' else aget (store s) r).
  { intros r. rewrite store_setl. apply aget_aset. }
  split; [|split; [exact L|split; [|split]]].
  - eapply ginv_geq.
    + apply (setl_flags_gen s (gka P) x l l' G Hr); auto;
        try (apply (ro_cmd _ _ _ _ R));
        try (rewrite Dl'; discriminate);
        try (intros Hl Hpe; exact (ro_long _ _ _ _ R Hl Hpe));
        try (intros _; split; [exact Q1|split; [exact Q2|exact Q3]]);
        try (intros Hf; inversion Hf).
    + unfold liveb. rewrite Dl, Dl'. reflexivity.
  - intros r l0 H0. rewrite Hst in H0. destruct (x =? r) eqn:Ex.
    + apply N.eqb_eq in Ex; subst r. inversion H0; subst l0. apply (RQ x l Hr).
    + eapply RQ; eauto.
  - intros a b la lb Ha0 Hb0. rewrite Hst in Ha0, Hb0.
    assert (Ka : exists la0, aget (store s) a = Some la0 /\ c_req (l_cmd la0) = c_req (l_cmd la)).
    { destruct (x =? a) eqn:Ex; [apply N.eqb_eq in Ex; subst a; inversion Ha0; subst la; exists l; auto|eauto]. }
    assert (Kb : exists lb0, aget (store s) b = Some lb0 /\ c_req (l_cmd lb0) = c_req (l_cmd lb)).
    { destruct (x =? b) eqn:Ex; [apply N.eqb_eq in Ex; subst b; inversion Hb0; subst lb; exists l; auto|eauto]. }
    destruct Ka as [la0 [Ka1 Ka2]]. destruct Kb as [lb0 [Kb1 Kb2]]. intros Eq. apply (RI a b la0 lb0 Ka1 Kb1). congruence.
  - intros r l0 H0 Ha0. rewrite Hst in H0. destruct (x =? r) eqn:Ex.
    + apply N.eqb_eq in Ex; subst r. inversion H0; subst l0. apply (PT x l Hr Ha).
    + eapply PT; eauto.
Qed.

(* ---------------------------------------------------------------- ec_drop: DoAckLock on a rolled-back registration *)
Lemma ginv_perm_xe s g xe' :
  GInv s g -> (forall r0, occ r0 xe' = occ r0 (g_xe g)) -> GInv s (g <| g_xe := xe' |>).
Proof.
  intros G H2.
  eapply (wheels_ginv s s g); eauto; gs; try apply G.
  - intros r0 l0 H0. destruct (gi_rec _ _ G r0 l0 H0) as [A1 A2 A3 A4 A5 A6 A7 A8 A9 A10 A11].
    unfold tcount, ecount in *. gs. rewrite H2. repeat split; auto; try lia.
  - intros r0 H0. pose proof (gi_str _ _ G r0 H0) as S. unfold tcount, ecount in *. gs. rewrite H2. auto.
Qed.

Lemma qframe_store_some s s' r l' : qframe s s' -> aget (store s') r = Some l' ->
  exists l n, aget (store s) r = Some l /\ l' = l <| l_refc := n |>.
Proof.
  intros F H. pose proof (qf_l _ _ F r) as Q. destruct (aget (store s) r) as [l|].
  - destruct Q as [Q|[n Q]]; [congruence|]. exists l, n. split; auto. congruence.
  - congruence.
Qed.

Lemma E_drop Q s P x s1 ev1 P' : E Q s P -> In x P -> l_ack (getl s x) = 255 ->
  finish (do_ack s x false) = (s1, ev1) ->
  (forall y, In y P' <-> In y P /\ y <> x) -> NoDup P' -> E Q s1 P'.
Proof.
  intros HE Hi Hak Hfin Hmem Hnd. pose proof (E_nodup _ _ _ HE) as NDP.
  destruct HE as [G [L [RQ [RI PT]]]].
  destruct (aget (store s) x) as [l|] eqn:Hr;
    [|exfalso; pose proof (gi_str _ _ G x Hr) as S; unfold ecount, gka in S; gs; apply occ_In in Hi; lia].
  rewrite (getl_some _ _ _ Hr) in Hak.
  pose proof (gi_rec _ _ G x l Hr) as R.
  assert (Hox : occ x P = 1%nat).
  { apply occ_In in Hi. pose proof (proj1 (occ_nodup _) NDP x). lia. }
  assert (Dl : dead_waiter l = true).
  { destruct (dead_waiter l) eqn:Ed; auto. destruct (ro_live _ _ _ _ R Ed) as [_ [Q2 _]]. unfold ecount, gka in Q2. gs. lia. }
  assert (Ht : l_timeouted l = true).
  { unfold dead_waiter in Dl. rewrite Hak in Dl. simpl in Dl. rewrite orb_false_r in Dl. exact Dl. }
  (* the state computed by DoAckLock *)
  assert (Hs1 : s1 = (if match aget (store (unref s x)) x with None => true | Some _ => false end
                      then remove_mgr_if_unref (unref s x) (l_key l) else unref s x) /\ ev1 = []).
  { unfold do_ack in Hfin. rewrite Hr in Hfin. rewrite Ht in Hfin. cbn [negb] in Hfin. cbv zeta in Hfin.
    rewrite (getl_some _ _ _ Hr), Hak in Hfin. cbn in Hfin. inversion Hfin. split; reflexivity. }
  destruct Hs1 as [-> ->].
  (* occurrence counts of P' *)
  assert (Hocc : forall r0, occ r0 (x :: P') = occ r0 P).
  { intros r0. pose proof (proj1 (occ_nodup _) NDP r0) as N1. pose proof (proj1 (occ_nodup _) Hnd r0) as N2.
    rewrite occ_cons. destruct (x =? r0) eqn:Ex.
    - apply N.eqb_eq in Ex; subst r0. assert (occ x P' = O) by (apply occ_notin; intros Hc; apply Hmem in Hc; tauto). lia.
    - apply N.eqb_neq in Ex. destruct (occ r0 P) eqn:E0.
      + assert (occ r0 P' = O) by (apply occ_notin; intros Hc; apply Hmem in Hc; destruct Hc as [Hc _]; apply occ_In in Hc; lia). lia.
      + assert (Hin : In r0 P') by (apply Hmem; split; [apply occ_In; lia|congruence]). apply occ_In in Hin. lia. }
  assert (G1 : GInv s (gka P <| g_xe := x :: P' |>)) by (apply ginv_perm_xe; [exact G|intros r0; gs; apply Hocc]).
  assert (G2 : GInv (unref s x) (gka P')).
  { eapply ginv_geq; [apply (unref_xe s _ x P' l G1); gs; auto|]. reflexivity. }
  assert (G3 : GInv (if match aget (store (unref s x)) x with None => true | Some _ => false end
                     then remove_mgr_if_unref (unref s x) (l_key l) else unref s x) (gka P')).
  { destruct (aget (store (unref s x)) x); [exact G2|]. apply remove_mgr_ginv; [exact G2|]. intros _. split; reflexivity. }
  pose proof (unref_qframe s x) as F.
  assert (Hst : forall r l', aget (store (if match aget (store (unref s x)) x with None => true | Some _ => false end
                     then remove_mgr_if_unref (unref s x) (l_key l) else unref s x)) r = Some l' ->
                exists l0 n, aget (store s) r = Some l0 /\ l' = l0 <| l_refc := n |>).
  { intros r l' H. apply (qframe_store_some s (unref s x) r l' F).
    destruct (aget (store (unref s x)) x); [exact H|]. unfold remove_mgr_if_unref in H.
    destruct (aget (mgrs (unref s x)) (l_key l)) as [m|]; [|exact H]. destruct (m_ref m =? 0); exact H. }
  assert (Hld : leader (if match aget (store (unref s x)) x with None => true | Some _ => false end
                     then remove_mgr_if_unref (unref s x) (l_key l) else unref s x) = leader s).
  { assert (leader (unref s x) = leader s) by (apply (qf_leader _ _ F)).
    destruct (aget (store (unref s x)) x); [auto|]. unfold remove_mgr_if_unref.
    destruct (aget (mgrs (unref s x)) (l_key l)) as [m|]; [|auto]. destruct (m_ref m =? 0); auto. }
  split; [exact G3|split; [rewrite Hld; exact L|split; [|split]]].
  - intros r l' H. destruct (Hst r l' H) as [l0 [n [H0 ->]]]. apply (RQ r l0 H0).
  - intros a b la lb Ha0 Hb0 Eq. destruct (Hst a la Ha0) as [la0 [na [Ka ->]]]. destruct (Hst b lb Hb0) as [lb0 [nb [Kb ->]]].
    apply (RI a b la0 lb0 Ka Kb). exact Eq.
  - intros r l' H Ha0. destruct (Hst r l' H) as [l0 [n [H0 ->]]]. apply (PT r l0 H0). exact Ha0.
Qed.

(* ---------------------------------------------------------------- summary
   With E as above the record AckSoundDefs.eng_contract E has 11 fields; 9 are the lemmas
     E_init (ec_init)  E_leader (ec_leader)  E_alloc (ec_alloc)  E_nodup (ec_nodup)  E_inj (ec_inj)  E_pend (ec_pend)
     E_shape (ec_shape)  E_setack (ec_setack)  E_drop (ec_drop).
   Missing: ec_step (requests, clock, sweeps) and ec_ack (DoAckLock on a pending record).  Both need the replay of
   Engine/InvQueue2.v ... InvSweep.v on the definitions of AckAcctDef.v (AddLock / wakeUpWaitLocks / Lock / doTimeOut /
   cancelWaitLock with their acknowledgement branches, DoAckLock), the event-level facts of step_spec (which lock
   pointers the LOCK / UNLOCK records of a step carry) and -- because LockManager.refCount is a uint32 that the model
   lets wrap -- a bound on the number of allocated records (Engine/InvMain.inv_step has the hypothesis
   next s < MAXREC; ec_step has none, so the exact reference equation is not inductive for runs of 2^32 requests). *)
