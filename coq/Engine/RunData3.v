(* Value operations attached to Lock / UnLock (property C15), part 3: the whole of Lock.
   `lock_step_cases`: complete case description of lock_step (events + effect on the stored values), then the
   statements of C15 for Lock: reply value (i), refusals (ii), exactly-once equations (iii). *)
From Coq Require Import String ZifyN ZifyBool.
From Slock Require Import Engine.Types Engine.Queues Engine.Timers Engine.Engine Engine.Engine2 Engine.LocalBase
  Engine.InvLockDefs Engine.RunData Engine.RunData2.
Open Scope N_scope.

(* ------------------------------------------------------------------ GetOrNewLockManager *)
Lemma ls_mgr_aget s k : aget (mgrs (ls_mgr s k)) k = Some (getm s k).
Proof.
  unfold ls_mgr, getm. destruct (aget (mgrs s) k) eqn:E; [exact E|].
  change (mgrs (bump (fun n => n <| n_key := (n_key n + 1)%Z |>) (setm s k new_mgr))) with (aset (mgrs s) k new_mgr).
  apply aget_aset_same.
Qed.
Lemma ls_mgr_aget_other s k k0 : k <> k0 -> aget (mgrs (ls_mgr s k)) k0 = aget (mgrs s) k0.
Proof.
  intros Hn. unfold ls_mgr. destruct (aget (mgrs s) k) eqn:E; [reflexivity|].
  change (mgrs (bump (fun n => n <| n_key := (n_key n + 1)%Z |>) (setm s k new_mgr))) with (aset (mgrs s) k new_mgr).
  apply aget_aset_other, Hn.
Qed.
Lemma ls_mgr_getm s k k0 : getm (ls_mgr s k) k0 = getm s k0.
Proof.
  destruct (N.eq_dec k k0) as [<-|Hn].
  - unfold getm at 1. rewrite ls_mgr_aget. reflexivity.
  - unfold getm. rewrite ls_mgr_aget_other by exact Hn. reflexivity.
Qed.
Lemma ls_mgr_gd s k k0 : gd (ls_mgr s k) k0 = gd s k0.
Proof. unfold gd. rewrite ls_mgr_getm. reflexivity. Qed.
Lemma ls_mgr_data_of s k k0 : data_of (ls_mgr s k) k0 = data_of s k0.
Proof. rewrite !data_of_gd, ls_mgr_gd. reflexivity. Qed.
Lemma ls_mgr_next s k : next (ls_mgr s k) = next s.
Proof. unfold ls_mgr. destruct (aget (mgrs s) k); reflexivity. Qed.
Lemma ls_mgr_existing s k m : aget (mgrs s) k = Some m -> ls_mgr s k = s.
Proof. unfold ls_mgr. intros ->. reflexivity. Qed.

(* on a key without manager ls_held falls through *)
Lemma ls_held_new s conn c k res c1 wt : ls_held s conn c k new_mgr = (res, c1, wt) -> res = None.
Proof.
  unfold ls_held. cbn [m_locked m_waited new_mgr N.ltb N.compare andb].
  destruct (has (c_tflag c) TF_WAIT_WHEN_UNLOCK); intros H; inv_tuple H; reflexivity.
Qed.

(* ------------------------------------------------------------------ rebasing the tail cases *)
Lemma tail_cases_rebase sm s conn c c1 k m s' ev w :
  tail_cases sm conn c1 c1 k m s' ev w -> retarget c c1 ->
  (forall k0, gd sm k0 = gd s k0) -> next sm = next s ->
  tail_cases s conn c c1 k m s' ev w.
Proof.
  intros H Hrt Hgd Hnx. unfold tail_cases in *. cbv zeta in *. rewrite Hnx in H.
  destruct (retarget_fields _ _ Hrt) as (Hf1 & Hf2 & Hf3 & Hf4 & Hf5 & _).
  assert (Hd : data_of sm k = data_of s k) by (rewrite !data_of_gd, Hgd; reflexivity).
  rewrite Hd, Hf5, !(retarget_env _ _ _ _ _ Hrt), (retarget_data_flag _ _ Hrt) in H.
  assert (Hve : forall flag env ld, value_effect c1 flag env ld sm k s' ev -> value_effect c flag env ld s k s' ev).
  { intros flag env ld Hv. eapply retarget_value_effect; [exact Hrt|]. eapply value_effect_gd_eq; eauto. }
  assert (Hvk : vals_kept sm s' -> vals_kept s s').
  { intros Hv. eapply vals_kept_gd_eq; eauto. }
  destruct H as [H|[H|[H|[H|[H|H]]]]].
  - left. destruct H as (H1 & H2 & H3 & H4). auto.
  - right; left. destruct H as (H1 & H2 & H3). auto.
  - right; right; left. destruct H as (H1 & H2 & H3). auto.
  - right; right; right; left. destruct H as (H1 & H2 & H3). auto.
  - right; right; right; right; left. destruct H as (H1 & H2 & lc & lrc & H3 & H4).
    split; auto. split; auto. exists lc, lrc. split; auto.
  - right; right; right; right; right. destruct H as (H1 & H2 & [H3|(Hz & recov & H3)]).
    + split; auto.
    + split; auto. split; auto. right. split; [exact Hz|]. exists recov. rewrite (retarget_env _ _ _ _ _ Hrt) in H3. auto.
Qed.

(* ------------------------------------------------------------------ the whole of Lock *)
Definition lock_cases (s : db) (conn : N) (c : cmd) (s' : db) (ev : list event) (w : option wake) : Prop :=
  let k := c_key c in
  let m := getm s k in
  (* A: concurrent-check refusal, before the manager is looked up *)
  (s' = s /\ w = None
   /\ exists lc d, ev = [reply conn c R_TIMEOUT lc 0 d]
      /\ (d = data_of s k \/ (d = None /\ m_locked m = 0 /\ has (c_tflag c) TF_WAIT_WHEN_UNLOCK = true)))
  (* B: not the leader; the reply is built after an unreferenced manager has been removed *)
  \/ (w = None /\ vals_kept s s'
      /\ ev = [reply conn c R_STATE_ERROR (m_locked m) 0 (data_of s' k)]
      /\ (forall m', aget (mgrs s') k = Some m' -> data_of s' k = data_of s k))
  (* C: refused on a held key (or probe of an own hold): nothing changes *)
  \/ (s' = s /\ w = None
      /\ exists c2 code lc lrc, ev = [reply conn c2 code lc lrc (data_of s k)] /\ c_req c2 = c_req c
                                /\ lock_refusal_or_probe c code)
  (* D: update of an own hold *)
  \/ (has (c_flag c) LOCK_FLAG_UPDATE = true
      /\ exists c1 r, retarget c c1 /\ get_locked_lock s m (c_lockid c1) = Some r
         /\ (exists mid, ((ev = mid /\ w = None)
                          \/ exists lc lrc, ev = mid ++ [reply conn c1 R_LOCKED_ERROR lc lrc (data_of s k)])
                         /\ Forall quiet mid)
         /\ value_effect c (has_data_flag c) (mk_env c (m_locked m) (m_waited m) false) (l_data (getl s r)) s k s' ev)
  (* E: one more level of an own hold *)
  \/ (has (c_flag c) LOCK_FLAG_UPDATE = false /\ (c_expried c =? 0) = false
      /\ exists c1 r, retarget c c1 /\ get_locked_lock s m (c_lockid c1) = Some r
         /\ (exists cc mid lc lrc,
               ev = EGrant k r false (m_locked m) cc (c_count c1) :: mid ++ [reply conn c1 R_SUCCED lc lrc (data_of s k)]
               /\ Forall quiet mid)
         /\ value_effect c (has_data_flag c) (mk_env c (add32 (m_locked m) 1) (m_waited m) false)
                         (l_data (getl s r)) s k s' ev)
  (* F: a new record: grant / grant pending acknowledgement / Expried = 0 / queued / TIMEOUT *)
  \/ (exists c1, retarget c c1 /\ tail_cases s conn c c1 k m s' ev w).

Lemma lock_step_cases s conn c s' ev w : lock_step s conn c = (s', ev, w) -> lock_cases s conn c s' ev w.
Proof.
  intros H. rewrite lock_step_eq in H. cbv zeta in H. unfold lock_cases. cbv zeta.
  set (k := c_key c) in *.
  destruct (ls_pre s conn c k) as [pev|] eqn:Epre.
  { inv_tuple H. left. split; [reflexivity|]. split; [reflexivity|].
    unfold ls_pre in Epre. unfold getm.
    repeat (split_hyp Epre); try discriminate.
    all: apply (f_equal (fun o => match o with Some x => x | None => [] end)) in Epre; cbv beta iota in Epre; subst pev.
    - do 2 eexists. split; [reflexivity|]. left. unfold data_of, getm.
      match goal with E : aget (mgrs s) k = Some _ |- _ => rewrite E end. reflexivity.
    - do 2 eexists. split; [reflexivity|]. right. split; [reflexivity|].
      match goal with E : (_ && _) = true |- _ => apply andb_prop in E; destruct E as (E1 & E2) end.
      split; [apply N.eqb_eq, E1|exact E2].
    - do 2 eexists. split; [reflexivity|]. left. unfold data_of, getm.
      match goal with E : aget (mgrs s) k = None |- _ => rewrite E end. reflexivity. }
  set (sm := ls_mgr s k) in *.
  assert (Hm : aget (mgrs sm) k = Some (getm s k)) by apply ls_mgr_aget.
  assert (Hgm : getm sm k = getm s k) by apply ls_mgr_getm.
  assert (Hgd : forall k0, gd sm k0 = gd s k0) by (intros; apply ls_mgr_gd).
  rewrite Hgm in H.
  destruct (negb (leader sm) && negb (has (c_flag c) LOCK_FLAG_FROM_AOF)).
  { inv_tuple H. right; left. split; [reflexivity|].
    assert (Hk : vals_kept s (remove_mgr_if_unref sm k)).
    { eapply vals_kept_gd_eq; [exact Hgd|]. apply vals_kept_of_mrel. apply mrel_remove_mgr; [reflexivity|].
      apply mrel_refl. rd. }
    split; [exact Hk|]. split; [reflexivity|]. intros m' Hm'. eapply vals_kept_data_of; eauto. }
  destruct (ls_held sm conn c k (getm s k)) as [[res c1] wt] eqn:Eh.
  destruct (aget (mgrs s) k) as [m0|] eqn:Em.
  2:{ (* no manager before: the held phase falls through *)
      assert (Hnew : getm s k = new_mgr) by (unfold getm; rewrite Em; reflexivity).
      rewrite Hnew in Eh. pose proof (ls_held_new _ _ _ _ _ _ _ Eh) as ->.
      destruct (ls_held_cases _ _ _ _ _ _ _ _ Eh) as (Hrt & _); [rewrite <- Hnew; exact Hm|].
      do 5 right. exists c1. split; [exact Hrt|].
      eapply tail_cases_rebase; [|exact Hrt|exact Hgd|apply ls_mgr_next].
      eapply ls_tail_cases; [exact H|exact Hm]. }
  assert (Hsm : sm = s) by (unfold sm; eapply ls_mgr_existing; eauto).
  rewrite Hsm in *. clear Hsm sm Hgm Hgd.
  destruct (ls_held_cases _ _ _ _ _ _ _ _ Eh Hm) as (Hrt & Hres).
  destruct res as [[[s1 ev1] w1]|].
  - inv_tuple H. destruct Hres as [Hres|[Hres|Hres]].
    + right; right; left. exact Hres.
    + right; right; right; left. destruct Hres as (Hu & r & Hg & Hsh & Hv).
      split; [exact Hu|]. exists c1, r. auto.
    + right; right; right; right; left. destruct Hres as (Hu & Hnz & r & Hg & Hsh & Hv).
      split; [exact Hu|]. split; [exact Hnz|]. exists c1, r. auto.
  - do 5 right. exists c1. split; [exact Hrt|].
    eapply tail_cases_rebase; [|exact Hrt|reflexivity|reflexivity].
    eapply ls_tail_cases; [exact H|exact Hm].
Qed.

(* ------------------------------------------------------------------ consequences *)
Lemma vals_kept_refl s : vals_kept s s.
Proof. intros k0 m' Hm'. unfold gd. rewrite (getm_some _ _ _ Hm'). reflexivity. Qed.

Definition reply_code (e : event) : option N :=
  match e with EReply _ _ res _ _ _ _ _ _ => Some res | _ => None end.
Lemma quiet_reply_code e : quiet e -> reply_code e = None.
Proof. destruct e; simpl; intros H; auto; contradiction. Qed.

Lemma in_app_single {A} (x : A) mid y : In x (mid ++ [y]) -> In x mid \/ x = y.
Proof. intros H. apply in_app_or in H. destruct H as [H|[H|[]]]; auto. Qed.

Lemma data_of_absent s k : aget (mgrs s) k = None -> data_of s k = None.
Proof. intros H. unfold data_of, getm. rewrite H. reflexivity. Qed.

(* ---- (i) every reply of Lock goes to the requester and carries the value from before the request ---- *)
Definition lock_reply_ok (s s' : db) (conn : N) (c : cmd) (e : event) : Prop :=
  match e with
  | EReply cn rq code lc lrc lid cnt rc d =>
      cn = conn /\ rq = c_req c
      /\ (d = data_of s (c_key c)
          (* concurrent-check refusal on an unheld key: no value is reported *)
          \/ (d = None /\ code = R_TIMEOUT /\ s' = s /\ m_locked (getm s (c_key c)) = 0)
          (* TIMEOUT / STATE_ERROR built after the unreferenced manager (and its value) was removed *)
          \/ (d = None /\ (code = R_TIMEOUT \/ code = R_STATE_ERROR) /\ aget (mgrs s') (c_key c) = None))
  | _ => True
  end.
Lemma quiet_ok_lock_reply s s' conn c : quiet_ok (lock_reply_ok s s' conn c).
Proof. intros [] H; simpl in *; auto; contradiction. Qed.

Lemma lock_reply_value s conn c s' ev w :
  lock_step s conn c = (s', ev, w) -> Forall (lock_reply_ok s s' conn c) ev.
Proof.
  intros H. apply lock_step_cases in H. unfold lock_cases in H. cbv zeta in H.
  assert (HQ : forall mid, Forall quiet mid -> Forall (lock_reply_ok s s' conn c) mid).
  { intros mid Hq. apply Forall_quiet; auto. apply quiet_ok_lock_reply. }
  assert (Hpost : forall code lc lrc c1, c_req c1 = c_req c -> (code = R_TIMEOUT \/ code = R_STATE_ERROR) ->
            (forall m', aget (mgrs s') (c_key c) = Some m' -> data_of s' (c_key c) = data_of s (c_key c)) ->
            lock_reply_ok s s' conn c (reply conn c1 code lc lrc (data_of s' (c_key c)))).
  { intros code lc lrc c1 Hrq Hc Hx. unfold lock_reply_ok, reply. split; [reflexivity|]. split; [exact Hrq|].
    destruct (aget (mgrs s') (c_key c)) as [m'|] eqn:Em.
    - left. eapply Hx; eauto.
    - right. right. split; [apply data_of_absent, Em|]. auto. }
  assert (Hpre : forall code lc lrc c1, c_req c1 = c_req c ->
            lock_reply_ok s s' conn c (reply conn c1 code lc lrc (data_of s (c_key c)))).
  { intros code lc lrc c1 Hrq. unfold lock_reply_ok, reply. split; [reflexivity|]. split; [exact Hrq|]. left; reflexivity. }
  assert (Hone : forall e, lock_reply_ok s s' conn c e -> Forall (lock_reply_ok s s' conn c) [e]).
  { intros e He. constructor; [exact He|constructor]. }
  destruct H as [H|[H|[H|[H|[H|H]]]]].
  - destruct H as (-> & _ & lc & d & -> & Hd). apply Hone.
    destruct Hd as [->|(-> & Hl & _)]; [apply Hpre; reflexivity|].
    unfold lock_reply_ok, reply. split; [reflexivity|]. split; [reflexivity|]. right; left. auto.
  - destruct H as (_ & _ & -> & Hx). apply Hone. apply Hpost; auto.
  - destruct H as (-> & _ & c2 & code & lc & lrc & -> & Hrq & _). apply Hone. apply Hpre; auto.
  - destruct H as (_ & c1 & r & Hrt & _ & (mid & Hsh & Hq) & _).
    destruct (retarget_fields _ _ Hrt) as (_ & _ & _ & _ & _ & Hrq & _).
    destruct Hsh as [(-> & _)|(lc & lrc & ->)]; [auto|].
    apply Forall_app. split; [auto|]. apply Hone, Hpre; auto.
  - destruct H as (_ & _ & c1 & r & Hrt & _ & (cc & mid & lc & lrc & -> & Hq) & _).
    destruct (retarget_fields _ _ Hrt) as (_ & _ & _ & _ & _ & Hrq & _).
    constructor; [exact I|]. apply Forall_app. split; [auto|]. apply Hone, Hpre; auto.
  - destruct H as (c1 & Hrt & H). unfold tail_cases in H. cbv zeta in H.
    destruct (retarget_fields _ _ Hrt) as (_ & _ & _ & _ & _ & Hrq & _).
    destruct H as [H|[H|[H|[H|[H|H]]]]].
    + destruct H as (_ & _ & (b & cc & mid & -> & Hq) & _). constructor; [exact I|auto].
    + destruct H as (_ & (b & cc & mid & lc & lrc & -> & Hq) & _).
      constructor; [exact I|]. apply Forall_app. split; [auto|]. apply Hone, Hpre; auto.
    + destruct H as (_ & (mid & lc & lrc & -> & Hq) & _).
      apply Forall_app. split; [auto|]. apply Hone, Hpre; auto.
    + destruct H as (-> & _). constructor.
    + destruct H as (_ & _ & lc & lrc & -> & Hx). apply Hone. apply Hpost; auto.
    + destruct H as (_ & (site & ->) & _). apply Hone. exact I.
Qed.

(* ---- (ii) a refused Lock changes no value (and ran no value operation: its only event is the reply) ---- *)
Definition lock_refused (c : cmd) (code : N) : Prop :=
  code = R_TIMEOUT \/ code = R_STATE_ERROR \/ code = R_ACK_WAITING \/ code = R_UNOWN_ERROR
  \/ (code = R_LOCKED_ERROR /\ has (c_flag c) LOCK_FLAG_UPDATE = false).

Lemma lock_refused_value s conn c s' ev w e code :
  lock_step s conn c = (s', ev, w) -> In e ev -> reply_code e = Some code -> lock_refused c code ->
  vals_kept s s' /\ w = None /\ ev = [e].
Proof.
  intros H Hin Hcode Href. apply lock_step_cases in H. unfold lock_cases in H. cbv zeta in H.
  assert (Hmid : forall mid, Forall quiet mid -> ~ In e mid).
  { intros mid Hq Hi. rewrite Forall_forall in Hq. apply Hq, quiet_reply_code in Hi. congruence. }
  assert (Hne : forall code', reply_code e = Some code' -> code' = code) by (intros; congruence).
  assert (Hbad : forall P : Prop, code = R_SUCCED -> P).
  { intros P ->. destruct Href as [Hx|[Hx|[Hx|[Hx|[Hx _]]]]]; discriminate Hx. }
  destruct H as [H|[H|[H|[H|[H|H]]]]].
  - destruct H as (-> & -> & lc & d & -> & _). destruct Hin as [<-|[]].
    split; [apply vals_kept_refl|auto].
  - destruct H as (-> & Hk & -> & _). destruct Hin as [<-|[]]. auto.
  - destruct H as (-> & -> & c2 & code' & lc & lrc & -> & _). destruct Hin as [<-|[]].
    split; [apply vals_kept_refl|auto].
  - exfalso. destruct H as (Hu & c1 & r & _ & _ & (mid & Hsh & Hq) & _).
    destruct Hsh as [(-> & _)|(lc & lrc & ->)]; [exact (Hmid _ Hq Hin)|].
    apply in_app_single in Hin. destruct Hin as [Hin| ->]; [exact (Hmid _ Hq Hin)|].
    simpl in Hcode. inv Hcode.
    destruct Href as [Hx|[Hx|[Hx|[Hx|[_ Hx]]]]]; try discriminate Hx. congruence.
  - exfalso. destruct H as (_ & _ & c1 & r & _ & _ & (cc & mid & lc & lrc & -> & Hq) & _).
    destruct Hin as [<-|Hin]; [discriminate|].
    apply in_app_single in Hin. destruct Hin as [Hin| ->]; [exact (Hmid _ Hq Hin)|].
    simpl in Hcode. inv Hcode. apply Hbad. reflexivity.
  - destruct H as (c1 & Hrt & H). unfold tail_cases in H. cbv zeta in H.
    destruct H as [H|[H|[H|[H|[H|H]]]]].
    + exfalso. destruct H as (_ & _ & (b & cc & mid & -> & Hq) & _).
      destruct Hin as [<-|Hin]; [discriminate|exact (Hmid _ Hq Hin)].
    + exfalso. destruct H as (_ & (b & cc & mid & lc & lrc & -> & Hq) & _).
      destruct Hin as [<-|Hin]; [discriminate|].
      apply in_app_single in Hin. destruct Hin as [Hin| ->]; [exact (Hmid _ Hq Hin)|].
      simpl in Hcode. inv Hcode. apply Hbad. reflexivity.
    + exfalso. destruct H as (_ & (mid & lc & lrc & -> & Hq) & _).
      apply in_app_single in Hin. destruct Hin as [Hin| ->]; [exact (Hmid _ Hq Hin)|].
      simpl in Hcode. inv Hcode. apply Hbad. reflexivity.
    + destruct H as (-> & _). destruct Hin.
    + destruct H as (-> & Hk & lc & lrc & -> & _). destruct Hin as [<-|[]]. auto.
    + exfalso. destruct H as (_ & (site & ->) & _). destruct Hin as [<-|[]]. discriminate.
Qed.

(* a queued request (no event at all; without the update flag nothing else is silent) changes no value either *)
Lemma lock_queued_value s conn c s' w :
  lock_step s conn c = (s', [], w) -> has (c_flag c) LOCK_FLAG_UPDATE = false -> vals_kept s s' /\ w = None.
Proof.
  intros H Hnu. apply lock_step_cases in H. unfold lock_cases in H. cbv zeta in H.
  destruct H as [H|[H|[H|[H|[H|H]]]]].
  - destruct H as (_ & _ & lc & d & H & _). discriminate.
  - destruct H as (_ & _ & H & _). discriminate.
  - destruct H as (_ & _ & c2 & code' & lc & lrc & H & _). discriminate.
  - destruct H as (Hu & _). congruence.
  - destruct H as (_ & _ & c1 & r & _ & _ & (cc & mid & lc & lrc & H & _) & _). discriminate.
  - destruct H as (c1 & Hrt & H). unfold tail_cases in H. cbv zeta in H.
    destruct H as [H|[H|[H|[H|[H|H]]]]].
    + destruct H as (_ & _ & (b & cc & mid & H & _) & _). discriminate.
    + destruct H as (_ & (b & cc & mid & lc & lrc & H & _) & _). discriminate.
    + destruct H as (_ & (mid & lc & lrc & H & _) & _). destruct mid; discriminate.
    + destruct H as (_ & -> & Hk). auto.
    + destruct H as (_ & _ & lc & lrc & H & _). discriminate.
    + destruct H as (_ & (site & H) & _). discriminate.
Qed.

(* ---- (iii) exactly once ---- *)
(* all keys but k: the old value; k: the old value modulo the isAof bit *)
Definition vals_marked (k : N) (s s' : db) : Prop :=
  (forall k0 m', k0 <> k -> aget (mgrs s') k0 = Some m' -> m_data m' = gd s k0)
  /\ (forall m', aget (mgrs s') k = Some m' -> aofle (gd s k) (m_data m')).

(* structural form of "at most once": the value of k after the request is the old one (modulo the bit) or ONE
   application of the request's frame to the old value *)
Definition applied_at_most_once (c : cmd) (flag : bool) (s : db) (k : N) (s' : db) (ev : list event) : Prop :=
  (forall k0 m', k0 <> k -> aget (mgrs s') k0 = Some m' -> m_data m' = gd s k0)
  /\ (forall m', aget (mgrs s') k = Some m' ->
        aofle (gd s k) (m_data m')
        \/ exists frame env ld,
             c_data c = Some frame /\ flag = true /\ pe_islock env = c_lock c /\ pe_flag env = c_flag c
             /\ vstep env frame ld (gd s k) (m_data m') ev).

Lemma vals_kept_marked k s s' : vals_kept s s' -> vals_marked k s s'.
Proof. intros H. split; [intros; auto|]. intros m' Hm'. rewrite (H k m' Hm'). apply aofle_refl. Qed.

Lemma vals_marked_once c flag k s s' ev : vals_marked k s s' -> applied_at_most_once c flag s k s' ev.
Proof. intros (H1 & H2). split; [exact H1|]. intros m' Hm'. left. auto. Qed.

Lemma value_effect_once_env c flag env ld s k s' ev :
  pe_islock env = c_lock c -> pe_flag env = c_flag c ->
  value_effect c flag env ld s k s' ev -> applied_at_most_once c flag s k s' ev.
Proof.
  intros He1 He2 (H1 & H2 & _). split; [exact H1|]. intros m' Hm'. specialize (H2 m' Hm').
  destruct (c_data c) as [frame|] eqn:Ec; [|left; exact H2].
  destruct flag; [|left; exact H2].
  right. exists frame, env, ld. auto.
Qed.
Lemma value_effect_once c flag lk wt recov ld s k s' ev :
  value_effect c flag (mk_env c lk wt recov) ld s k s' ev -> applied_at_most_once c flag s k s' ev.
Proof. apply value_effect_once_env; reflexivity. Qed.

(* no frame, or the flag is not set: no value operation *)
Lemma value_effect_noframe c flag env ld s k s' ev :
  flag = false \/ c_data c = None -> value_effect c flag env ld s k s' ev -> vals_marked k s s'.
Proof.
  intros Hf (H1 & H2 & _). split; [exact H1|]. intros m' Hm'. specialize (H2 m' Hm').
  destruct Hf as [-> | Hn]; [destruct (c_data c); exact H2|]. rewrite Hn in H2. exact H2.
Qed.

(* the data layer fails (panic / EXECUTE): a panic event is in the output, no value changes; whatever else the
   request did (grant, release, reply) stands *)
Lemma value_effect_failure c env ld s k s' ev frame :
  value_effect c true env ld s k s' ev -> c_data c = Some frame ->
  pd_failed (process_lock_data env frame (gd s k) ld) ->
  vals_marked k s s' /\ exists site, In (EPanic site) ev.
Proof.
  intros (H1 & H2 & H3) Hc Hp. split; [|eauto]. split; [exact H1|].
  intros m' Hm'. specialize (H2 m' Hm'). rewrite Hc in H2. unfold vstep in H2.
  destruct (process_lock_data env frame (gd s k) ld) as [[cur' ld']| | |]; [contradiction| | |]; apply H2.
Qed.

Lemma lock_value_once s conn c s' ev w :
  lock_step s conn c = (s', ev, w) -> applied_at_most_once c (has_data_flag c) s (c_key c) s' ev.
Proof.
  intros H. apply lock_step_cases in H. unfold lock_cases in H. cbv zeta in H.
  assert (HK : vals_kept s s' -> applied_at_most_once c (has_data_flag c) s (c_key c) s' ev).
  { intros Hk. apply vals_marked_once, vals_kept_marked, Hk. }
  destruct H as [H|[H|[H|[H|[H|H]]]]].
  - destruct H as (-> & _). apply HK, vals_kept_refl.
  - destruct H as (_ & Hk & _). auto.
  - destruct H as (-> & _). apply HK, vals_kept_refl.
  - destruct H as (_ & c1 & r & _ & _ & _ & Hv). eapply value_effect_once; eauto.
  - destruct H as (_ & _ & c1 & r & _ & _ & _ & Hv). eapply value_effect_once; eauto.
  - destruct H as (c1 & Hrt & H). unfold tail_cases in H. cbv zeta in H.
    destruct H as [H|[H|[H|[H|[H|H]]]]].
    + destruct H as (_ & _ & _ & Hv). eapply value_effect_once; eauto.
    + destruct H as (_ & _ & Hv). eapply value_effect_once; eauto.
    + destruct H as (_ & _ & Hv). eapply value_effect_once; eauto.
    + destruct H as (_ & _ & Hk). auto.
    + destruct H as (_ & Hk & _). auto.
    + destruct H as (_ & _ & [Hk|(_ & recov & Hv)]); [auto|]. eapply value_effect_once; eauto.
Qed.

(* flag and frame disagree (flag without frame, frame without flag) or neither: no value operation *)
Lemma lock_no_frame_value s conn c s' ev w :
  lock_step s conn c = (s', ev, w) -> has_data_flag c = false \/ c_data c = None -> vals_marked (c_key c) s s'.
Proof.
  intros H Hf. apply lock_value_once in H. destruct H as (H1 & H2). split; [exact H1|].
  intros m' Hm'. destruct (H2 m' Hm') as [Hx|(frame & env & ld & Hc & Hfl & _)]; [exact Hx|].
  destruct Hf; congruence.
Qed.

(* a NEW hold (grant event): the frame is applied once, with the holder count AFTER the increment; the operation
   is recorded as recoverable exactly when the reply is deferred to the acknowledgement *)
Lemma lock_grant_value s conn c s' ev w k' r' b cc rc :
  lock_step s conn c = (s', ev, w) -> In (EGrant k' r' true b cc rc) ev ->
  let k := c_key c in
  let m := getm s k in
  k' = k /\ r' = next s
  /\ exists recov, (recov = true <-> forall e, In e ev -> reply_code e = None)
       /\ value_effect c (has_data_flag c) (mk_env c (add32 (m_locked m) 1) (m_waited m) recov) None s k s' ev.
Proof.
  intros H Hin. cbv zeta. apply lock_step_cases in H. unfold lock_cases in H. cbv zeta in H.
  assert (Hmid : forall mid, Forall quiet mid -> ~ In (EGrant k' r' true b cc rc) mid).
  { intros mid Hq. apply quiet_no_grant, Hq. }
  destruct H as [H|[H|[H|[H|[H|H]]]]].
  - exfalso. destruct H as (_ & _ & lc & d & -> & _). destruct Hin as [Hx|[]]; discriminate Hx.
  - exfalso. destruct H as (_ & _ & -> & _). destruct Hin as [Hx|[]]; discriminate Hx.
  - exfalso. destruct H as (_ & _ & c2 & code & lc & lrc & -> & _). destruct Hin as [Hx|[]]; discriminate Hx.
  - exfalso. destruct H as (_ & c1 & r & _ & _ & (mid & Hsh & Hq) & _).
    destruct Hsh as [(-> & _)|(lc & lrc & ->)]; [exact (Hmid _ Hq Hin)|].
    apply in_app_single in Hin. destruct Hin as [Hin|Hx]; [exact (Hmid _ Hq Hin)|discriminate Hx].
  - exfalso. destruct H as (_ & _ & c1 & r & _ & _ & (cc0 & mid & lc & lrc & -> & Hq) & _).
    destruct Hin as [Hx|Hin]; [discriminate Hx|].
    apply in_app_single in Hin. destruct Hin as [Hin|Hx]; [exact (Hmid _ Hq Hin)|discriminate Hx].
  - destruct H as (c1 & Hrt & H). unfold tail_cases in H. cbv zeta in H.
    destruct H as [H|[H|[H|[H|[H|H]]]]].
    + destruct H as (_ & _ & (b0 & cc0 & mid & -> & Hq) & Hv).
      destruct Hin as [Hx|Hin]; [|exfalso; exact (Hmid _ Hq Hin)]. inv Hx.
      split; [reflexivity|]. split; [reflexivity|]. exists true. split; [|exact Hv].
      split; [|reflexivity]. intros _ e [<-|He]; [reflexivity|].
      rewrite Forall_forall in Hq. apply quiet_reply_code, Hq, He.
    + destruct H as (_ & (b0 & cc0 & mid & lc & lrc & -> & Hq) & Hv).
      destruct Hin as [Hx|Hin].
      2:{ exfalso. apply in_app_single in Hin. destruct Hin as [Hin|Hx]; [exact (Hmid _ Hq Hin)|discriminate Hx]. }
      inv Hx. split; [reflexivity|]. split; [reflexivity|]. exists false. split; [|exact Hv].
      split; [discriminate|]. intros Hall. exfalso.
      specialize (Hall (reply conn c1 R_SUCCED lc lrc (data_of s (c_key c)))).
      assert (Hi : In (reply conn c1 R_SUCCED lc lrc (data_of s (c_key c)))
                      (EGrant (c_key c) (next s) true b cc (c_count c1) :: mid ++ [reply conn c1 R_SUCCED lc lrc (data_of s (c_key c))])).
      { right. apply in_or_app. right. left. reflexivity. }
      specialize (Hall Hi). discriminate Hall.
    + exfalso. destruct H as (_ & (mid & lc & lrc & -> & Hq) & _).
      apply in_app_single in Hin. destruct Hin as [Hin|Hx]; [exact (Hmid _ Hq Hin)|discriminate Hx].
    + exfalso. destruct H as (-> & _). destruct Hin.
    + exfalso. destruct H as (_ & _ & lc & lrc & -> & _). destruct Hin as [Hx|[]]; discriminate Hx.
    + exfalso. destruct H as (_ & (site & ->) & _). destruct Hin as [Hx|[]]; discriminate Hx.
Qed.

(* one more level of an own hold (re-entrant grant event) *)
Lemma lock_relock_value s conn c s' ev w k' r' b cc rc :
  lock_step s conn c = (s', ev, w) -> In (EGrant k' r' false b cc rc) ev ->
  let k := c_key c in
  let m := getm s k in
  k' = k /\ b = m_locked m
  /\ (exists c1, retarget c c1 /\ get_locked_lock s m (c_lockid c1) = Some r')
  /\ value_effect c (has_data_flag c) (mk_env c (add32 (m_locked m) 1) (m_waited m) false) (l_data (getl s r')) s k s' ev.
Proof.
  intros H Hin. cbv zeta. apply lock_step_cases in H. unfold lock_cases in H. cbv zeta in H.
  assert (Hmid : forall mid, Forall quiet mid -> ~ In (EGrant k' r' false b cc rc) mid).
  { intros mid Hq. apply quiet_no_grant, Hq. }
  destruct H as [H|[H|[H|[H|[H|H]]]]].
  - exfalso. destruct H as (_ & _ & lc & d & -> & _). destruct Hin as [Hx|[]]; discriminate Hx.
  - exfalso. destruct H as (_ & _ & -> & _). destruct Hin as [Hx|[]]; discriminate Hx.
  - exfalso. destruct H as (_ & _ & c2 & code & lc & lrc & -> & _). destruct Hin as [Hx|[]]; discriminate Hx.
  - exfalso. destruct H as (_ & c1 & r & _ & _ & (mid & Hsh & Hq) & _).
    destruct Hsh as [(-> & _)|(lc & lrc & ->)]; [exact (Hmid _ Hq Hin)|].
    apply in_app_single in Hin. destruct Hin as [Hin|Hx]; [exact (Hmid _ Hq Hin)|discriminate Hx].
  - destruct H as (_ & _ & c1 & r & Hrt & Hg & (cc0 & mid & lc & lrc & -> & Hq) & Hv).
    destruct Hin as [Hx|Hin].
    2:{ exfalso. apply in_app_single in Hin. destruct Hin as [Hin|Hx]; [exact (Hmid _ Hq Hin)|discriminate Hx]. }
    inv Hx. split; [reflexivity|]. split; [reflexivity|]. split; [exists c1; auto|exact Hv].
  - exfalso. destruct H as (c1 & Hrt & H). unfold tail_cases in H. cbv zeta in H.
    destruct H as [H|[H|[H|[H|[H|H]]]]].
    + destruct H as (_ & _ & (b0 & cc0 & mid & -> & Hq) & Hv).
      destruct Hin as [Hx|Hin]; [discriminate Hx|exact (Hmid _ Hq Hin)].
    + destruct H as (_ & (b0 & cc0 & mid & lc & lrc & -> & Hq) & Hv).
      destruct Hin as [Hx|Hin]; [discriminate Hx|].
      apply in_app_single in Hin. destruct Hin as [Hin|Hx]; [exact (Hmid _ Hq Hin)|discriminate Hx].
    + destruct H as (_ & (mid & lc & lrc & -> & Hq) & _).
      apply in_app_single in Hin. destruct Hin as [Hin|Hx]; [exact (Hmid _ Hq Hin)|discriminate Hx].
    + destruct H as (-> & _). destruct Hin.
    + destruct H as (_ & _ & lc & lrc & -> & _). destruct Hin as [Hx|[]]; discriminate Hx.
    + destruct H as (_ & (site & ->) & _). destruct Hin as [Hx|[]]; discriminate Hx.
Qed.

(* update of an own hold, answered LOCKED_ERROR (the update flag is set: the "refusal" code reports the update) *)
Lemma lock_update_value s conn c s' ev w e :
  lock_step s conn c = (s', ev, w) -> has (c_flag c) LOCK_FLAG_UPDATE = true ->
  In e ev -> reply_code e = Some R_LOCKED_ERROR ->
  let k := c_key c in
  let m := getm s k in
  exists c1 r, retarget c c1 /\ get_locked_lock s m (c_lockid c1) = Some r
    /\ value_effect c (has_data_flag c) (mk_env c (m_locked m) (m_waited m) false) (l_data (getl s r)) s k s' ev.
Proof.
  intros H Hu Hin Hcode. cbv zeta. apply lock_step_cases in H. unfold lock_cases in H. cbv zeta in H.
  assert (Hmid : forall mid, Forall quiet mid -> ~ In e mid).
  { intros mid Hq Hi. rewrite Forall_forall in Hq. apply Hq, quiet_reply_code in Hi. congruence. }
  destruct H as [H|[H|[H|[H|[H|H]]]]].
  - exfalso. destruct H as (_ & _ & lc & d & -> & _). destruct Hin as [<-|[]]. discriminate.
  - exfalso. destruct H as (_ & _ & -> & _). destruct Hin as [<-|[]]. discriminate.
  - exfalso. destruct H as (_ & _ & c2 & code & lc & lrc & -> & _ & Hc). destruct Hin as [<-|[]].
    simpl in Hcode. inv Hcode. destruct Hc as [Hx|[Hx|(Hx & _)]]; try discriminate Hx. congruence.
  - destruct H as (_ & c1 & r & Hrt & Hg & _ & Hv). exists c1, r. auto.
  - exfalso. destruct H as (Hx & _). congruence.
  - exfalso. destruct H as (c1 & Hrt & H). unfold tail_cases in H. cbv zeta in H.
    destruct H as [H|[H|[H|[H|[H|H]]]]].
    + destruct H as (_ & _ & (b0 & cc0 & mid & -> & Hq) & Hv).
      destruct Hin as [<-|Hin]; [discriminate|exact (Hmid _ Hq Hin)].
    + destruct H as (_ & (b0 & cc0 & mid & lc & lrc & -> & Hq) & Hv).
      destruct Hin as [<-|Hin]; [discriminate|].
      apply in_app_single in Hin. destruct Hin as [Hin| ->]; [exact (Hmid _ Hq Hin)|discriminate].
    + destruct H as (_ & (mid & lc & lrc & -> & Hq) & _).
      apply in_app_single in Hin. destruct Hin as [Hin| ->]; [exact (Hmid _ Hq Hin)|discriminate].
    + destruct H as (-> & _). destruct Hin.
    + destruct H as (_ & _ & lc & lrc & -> & _). destruct Hin as [<-|[]]. discriminate.
    + destruct H as (_ & (site & ->) & _). destruct Hin as [<-|[]]. discriminate.
Qed.

(* Expried = 0 answered SUCCED: either a probe of an own hold (nothing changes) or the value write without a hold:
   one application with the holder count unchanged *)
Lemma lock_zero_expiry_value s conn c s' ev w e :
  lock_step s conn c = (s', ev, w) -> c_expried c = 0 ->
  In e ev -> reply_code e = Some R_SUCCED ->
  let k := c_key c in
  let m := getm s k in
  (s' = s /\ ev = [e])
  \/ value_effect c (has_data_flag c) (mk_env c (m_locked m) (m_waited m) false) None s k s' ev.
Proof.
  intros H Hz Hin Hcode. cbv zeta. apply lock_step_cases in H. unfold lock_cases in H. cbv zeta in H.
  assert (Hmid : forall mid, Forall quiet mid -> ~ In e mid).
  { intros mid Hq Hi. rewrite Forall_forall in Hq. apply Hq, quiet_reply_code in Hi. congruence. }
  assert (Hz1 : (0 <? c_expried c) = false) by (rewrite Hz; reflexivity).
  destruct H as [H|[H|[H|[H|[H|H]]]]].
  - exfalso. destruct H as (_ & _ & lc & d & -> & _). destruct Hin as [<-|[]]. discriminate.
  - exfalso. destruct H as (_ & _ & -> & _). destruct Hin as [<-|[]]. discriminate.
  - destruct H as (-> & _ & c2 & code & lc & lrc & -> & _ & Hc). destruct Hin as [<-|[]]. left. auto.
  - exfalso. destruct H as (_ & c1 & r & _ & _ & (mid & Hsh & Hq) & _).
    destruct Hsh as [(-> & _)|(lc & lrc & ->)]; [exact (Hmid _ Hq Hin)|].
    apply in_app_single in Hin. destruct Hin as [Hin| ->]; [exact (Hmid _ Hq Hin)|discriminate].
  - exfalso. destruct H as (_ & Hx & _). rewrite Hz in Hx. discriminate.
  - destruct H as (c1 & Hrt & H). unfold tail_cases in H. cbv zeta in H.
    destruct H as [H|[H|[H|[H|[H|H]]]]].
    + exfalso. destruct H as (Hx & _). congruence.
    + exfalso. destruct H as (Hx & _). congruence.
    + destruct H as (_ & _ & Hv). right. exact Hv.
    + exfalso. destruct H as (-> & _). destruct Hin.
    + exfalso. destruct H as (_ & _ & lc & lrc & -> & _). destruct Hin as [<-|[]]. discriminate.
    + exfalso. destruct H as (_ & (site & ->) & _). destruct Hin as [<-|[]]. discriminate.
Qed.

(* a granted Lock whose frame makes the data layer fail: the grant stands (it is in the output), the failure is
   reported by a panic event, and no value changes *)
Lemma lock_grant_failure s conn c s' ev w k' r' b cc rc frame :
  lock_step s conn c = (s', ev, w) -> In (EGrant k' r' true b cc rc) ev ->
  c_data c = Some frame -> has_data_flag c = true ->
  (forall recov, pd_failed (process_lock_data
                   (mk_env c (add32 (m_locked (getm s (c_key c))) 1) (m_waited (getm s (c_key c))) recov)
                   frame (gd s (c_key c)) None)) ->
  vals_marked (c_key c) s s' /\ exists site, In (EPanic site) ev.
Proof.
  intros H Hin Hc Hf Hp. destruct (lock_grant_value _ _ _ _ _ _ _ _ _ _ _ H Hin) as (_ & _ & recov & _ & Hv).
  rewrite Hf in Hv. eapply value_effect_failure; eauto.
Qed.
