(* Interface of the value-operation layer used by the engine: the byte-exact ProcessLockData model of coq/Data. *)
From Slock Require Export Data.Data.
