(* C03, part 4 (completeness): a lock record that still awaits its reply is never dropped.  Second frame relation
   `plx D E W`: records that are live (l_timeouted = false, l_ack = 255) persist as live records unless in D; references
   in the expiry structures / wait queues only come from the old ones or from E / W. *)
From Coq Require Import String ZifyN ZifyBool ZifyNat.
From Slock Require Import Engine.Types Engine.Queues Engine.Timers Engine.Engine Engine.Engine2
  Engine.ReplyBase Engine.ReplyLocal.
Open Scope N_scope.

Definition liveA (l : lockrec) : Prop := l_timeouted l = false /\ l_ack l = 255.
Definition dead (s : db) (r : ref) : Prop := l_timeouted (getl s r) = true.
Definition alldead (s : db) (items : list ref) : Prop := forall x, In x items -> dead s x.

Definition wrefs (w : amap (list ref)) : list ref := flat_map snd w.
Definition eref (s : db) (x : ref) : Prop := In x (wrefs (ewheel s)) \/ In x (wrefs (elong s)).
Definition wref (s : db) (x : ref) : Prop :=
  exists k m q, aget (mgrs s) k = Some m /\ m_wait m = Some q /\ In x (wq_items q).

Record plx (D E W : ref -> Prop) (s s' : db) : Prop := mkPlx {
  pl_p : forall r l, aget (store s) r = Some l -> liveA l -> ~ D r -> exists l', aget (store s') r = Some l' /\ liveA l';
  pl_e : forall x, eref s' x -> E x \/ eref s x;
  pl_w : forall x, wref s' x -> W x \/ wref s x
}.

Lemma plx_refl D E W s : plx D E W s s.
Proof. split; [intros r l Hl L _; exists l; auto|intros; right; auto|intros; right; auto]. Qed.

Lemma plx_trans D E W s1 s2 s3 : plx D E W s1 s2 -> plx D E W s2 s3 -> plx D E W s1 s3.
Proof.
  intros [p1 e1 w1] [p2 e2 w2]. split.
  - intros r l Hl L ND. destruct (p1 _ _ Hl L ND) as (l2 & H2 & L2). eapply p2; eauto.
  - intros x Hx. destruct (e2 _ Hx) as [|Hx2]; auto.
  - intros x Hx. destruct (w2 _ Hx) as [|Hx2]; auto.
Qed.

Lemma plx_weaken (D D' E E' W W' : ref -> Prop) s s' :
  (forall r, D r -> D' r) -> (forall r, E r -> E' r) -> (forall r, W r -> W' r) -> plx D E W s s' -> plx D' E' W' s s'.
Proof.
  intros HD HE HW [p e w]. split.
  - intros r l Hl L ND. eapply p; eauto.
  - intros x Hx. destruct (e _ Hx); auto.
  - intros x Hx. destruct (w _ Hx); auto.
Qed.

(* ------------------------------------------------------------------ dead records *)
Lemma dead_absent s r : aget (store s) r = None -> dead s r.
Proof. unfold dead, getl. intros ->. reflexivity. Qed.

Lemma dead_keep s s' r : keep s s' -> dead s r -> dead s' r.
Proof.
  intros [v _ _] Hd. unfold dead, getl in *. destruct (aget (store s') r) as [l'|] eqn:E; auto.
  destruct (v _ _ E) as (l & Hl & Ev). rewrite Hl in Hd. unfold idg, view_of in Ev. inv Ev. congruence.
Qed.

Lemma alldead_keep s s' items : keep s s' -> alldead s items -> alldead s' items.
Proof. intros K A x Hx. eapply dead_keep; eauto. Qed.

Definition hdead (s : db) : Prop := forall x, href s x -> dead s x.

Lemma hdead_keep s s' : keep s s' -> hdead s -> hdead s'.
Proof. intros K Hd x Hx. eapply dead_keep; eauto. apply Hd. apply (keep_h _ _ K). auto. Qed.

Lemma dead_updl s r f x : (forall l, l_timeouted l = true -> l_timeouted (f l) = true) -> dead s x -> dead (updl s r f) x.
Proof.
  intros Hf Hd. unfold dead, getl in *. rewrite aget_store_updl. destruct (r =? x) eqn:E; auto.
  apply N.eqb_eq in E. subst. destruct (aget (store s) x); cbn; auto.
Qed.

Lemma hdead_updl s r f : (forall l, l_timeouted l = true -> l_timeouted (f l) = true) -> hdead s -> hdead (updl s r f).
Proof.
  intros Hf Hd x (k & m & Hm & Hx). rewrite mgrs_updl in Hm. apply dead_updl; auto. apply Hd. exists k, m. auto.
Qed.

(* ------------------------------------------------------------------ generic frame lemmas *)
Lemma plx_same D E W s s' :
  store s' = store s -> mgrs s' = mgrs s -> ewheel s' = ewheel s -> elong s' = elong s -> plx D E W s s'.
Proof.
  intros Hs Hm He Hl. split.
  - intros r l H L _. rewrite Hs. eauto.
  - intros x Hx. right. unfold eref in *. rewrite He, Hl in Hx. auto.
  - intros x (k & m & q & H & Hq & Hi). right. rewrite Hm in H. exists k, m, q. auto.
Qed.

Lemma plx_updl D E W s r f : (forall l, liveA l -> liveA (f l)) -> plx D E W s (updl s r f).
Proof.
  intros Hf. split.
  - intros r' l H L _. rewrite aget_store_updl. destruct (r =? r') eqn:Er; eauto.
    apply N.eqb_eq in Er. subst. rewrite H. cbn. eauto.
  - intros x Hx. right. unfold eref, updl in *. destruct (aget (store s) r); auto.
  - intros x (k & m & q & H & Hq & Hi). right. rewrite mgrs_updl in H. exists k, m, q. auto.
Qed.

(* a record leaves the live set (tombstone written): allowed for members of D *)
Lemma plx_updl_kill (D E W : ref -> Prop) s r f : D r -> plx D E W s (updl s r f).
Proof.
  intros HD. split.
  - intros r' l H L ND. rewrite aget_store_updl. destruct (r =? r') eqn:Er; eauto.
    apply N.eqb_eq in Er. subst. contradiction.
  - intros x Hx. right. unfold eref, updl in *. destruct (aget (store s) r); auto.
  - intros x (k & m & q & H & Hq & Hi). right. rewrite mgrs_updl in H. exists k, m, q. auto.
Qed.

Lemma plx_updm D E W s k f : (forall m, m_wait (f m) = m_wait m) -> plx D E W s (updm s k f).
Proof.
  intros Hf. split.
  - intros r l H L _. rewrite store_updm. eauto.
  - intros x Hx. right. unfold eref, updm in *. destruct (aget (mgrs s) k); auto.
  - intros x (k' & m & q & H & Hq & Hi). right. rewrite aget_mgrs_updm in H. destruct (k =? k') eqn:Ek.
    + apply N.eqb_eq in Ek. subst. destruct (aget (mgrs s) k') as [m0|] eqn:E0; [|discriminate]. inv H.
      rewrite Hf in Hq. exists k', m0, q. auto.
    + exists k', m, q. auto.
Qed.

Lemma plx_setm_new D E W s k : plx D E W s (setm s k new_mgr).
Proof.
  split.
  - intros r l H L _. eauto.
  - intros x Hx. right. exact Hx.
  - intros x (k' & m & q & H & Hq & Hi). right. rewrite mgrs_setm, aget_aset in H. destruct (k =? k').
    + inv H. discriminate.
    + exists k', m, q. auto.
Qed.

Lemma plx_del_mgr D E W s k : plx D E W s (s <| mgrs := adel (mgrs s) k |>).
Proof.
  split.
  - intros r l H L _. eauto.
  - intros x Hx. right. exact Hx.
  - intros x (k' & m & q & H & Hq & Hi). right. cbn in H. apply aget_adel_some in H. exists k', m, q. auto.
Qed.

Lemma liveA_getl s r l : aget (store s) r = Some l -> liveA l -> ~ dead s r.
Proof. intros H [L _] Hd. unfold dead in Hd. rewrite (getl_some _ _ _ H) in Hd. congruence. Qed.

Definition dropok (s : db) (r : ref) : Prop := forall l, aget (store s) r = Some l -> ~ liveA l.
Lemma dead_dropok s r : dead s r -> dropok s r.
Proof. intros Hd l Hl L. eapply liveA_getl; eauto. Qed.
Lemma dead_waiter_dropok s r : dead_waiter (getl s r) = true -> dropok s r.
Proof.
  intros Hd l Hl [L1 L2]. rewrite (getl_some _ _ _ Hl) in Hd. unfold dead_waiter in Hd.
  rewrite L1, L2 in Hd. discriminate.
Qed.

Lemma plx_free_lock D E W s r : dropok s r -> plx D E W s (free_lock s r).
Proof.
  intros Hd. unfold free_lock. destruct (aget (store s) r) as [l0|] eqn:E0; [|apply plx_refl].
  eapply plx_trans; [|apply plx_updm; intros; reflexivity].
  split.
  - intros r' l H L _. cbn [store]. change (exists l', aget (adel (store s) r) r' = Some l' /\ liveA l').
    rewrite aget_adel. destruct (r =? r') eqn:Er; eauto.
    apply N.eqb_eq in Er. subst. exfalso. eapply Hd; eauto.
  - intros x Hx. right. exact Hx.
  - intros x Hx. right. exact Hx.
Qed.

Lemma liveA_refc l c : liveA l -> liveA (l <| l_refc := c |>).
Proof. intros H; exact H. Qed.

Lemma plx_unref D E W s r : dropok s r -> plx D E W s (unref s r).
Proof.
  intros Hd. unfold unref. destruct (aget (store s) r) as [l0|] eqn:E0; [|apply plx_refl].
  assert (P1 : plx D E W s (setl s r (l0 <| l_refc := dec8 (l_refc l0) |>))).
  { replace (setl s r (l0 <| l_refc := dec8 (l_refc l0) |>)) with (updl s r (fun l => l <| l_refc := dec8 (l_refc l) |>)).
    - apply plx_updl. intros l L. exact L.
    - unfold updl. rewrite E0. reflexivity. }
  destruct (_ =? 0); auto. eapply plx_trans; [exact P1|]. apply plx_free_lock.
  intros l Hl L. rewrite store_setl, aget_aset_same in Hl. inv Hl. eapply Hd; eauto.
Qed.

Lemma plx_rmmgr D E W s k : plx D E W s (remove_mgr_if_unref s k).
Proof.
  unfold remove_mgr_if_unref. destruct (aget (mgrs s) k); [|apply plx_refl].
  destruct (_ =? 0); [|apply plx_refl].
  eapply plx_trans; [apply plx_del_mgr|]. apply plx_same; reflexivity.
Qed.

(* ------------------------------------------------------------------ holder queue *)
Lemma plx_hq_compact D E W items : forall s s' kept,
  hq_compact s items = (s', kept) -> alldead s items -> plx D E W s s'.
Proof.
  induction items as [|r rest IH]; cbn; intros s s' kept H A.
  - inv H. apply plx_refl.
  - assert (A' : alldead s rest) by (intros x Hx; apply A; right; auto).
    destruct (0 <? l_locked (getl s r)).
    + destruct (hq_compact s rest) as [s1 k1] eqn:Ecp. inv H. eauto.
    + eapply plx_trans; [apply plx_unref, dead_dropok, A; left; auto|].
      eapply IH; eauto. eapply alldead_keep; [apply unref_keep|auto].
Qed.

Lemma plx_hq_push D E W s q r s' q' : hq_push s q r = (s', q') -> alldead s (hq_fast q) -> plx D E W s s'.
Proof.
  unfold hq_push. intros H A.
  destruct (hq_scale q) as [[items mp]|]; [inv H; apply plx_refl|].
  destruct (hq_cap q =? 0); [inv H; apply plx_refl|].
  destruct (hq_len q <? hq_cap q); [inv H; apply plx_refl|].
  destruct (hq_fast q) as [|a rest] eqn:Ef; [inv H; apply plx_refl|].
  destruct (hq_compact s (a :: rest)) as [s1 kept] eqn:Ec.
  assert (P := plx_hq_compact D E W _ _ _ _ Ec A).
  destruct (_ <? hq_len q); [inv H; auto|].
  destruct (hq_cap q <=? 128); inv H; auto.
Qed.

Lemma plx_promote D E W fuel : forall s q s' q' nc,
  promote fuel s q = (s', q', nc) -> alldead s (hrefs_q q) -> plx D E W s s'.
Proof.
  induction fuel as [|f IH]; cbn; intros s q s' q' nc H A; [inv H; apply plx_refl|].
  destruct (hq_pop q) as [[r|] q1] eqn:Ep; destruct (hq_pop_refs _ _ _ Ep) as [P1 P2]; [|inv H; apply plx_refl].
  destruct (0 <? l_locked (getl s r)); [inv H; apply plx_refl|].
  eapply plx_trans; [apply plx_unref, dead_dropok, A, P2; auto|].
  eapply IH; eauto. eapply alldead_keep; [apply unref_keep|]. intros x Hx. apply A, P1, Hx.
Qed.

Lemma plx_drop_dead_heads D E W fuel : forall s q s' q',
  drop_dead_heads fuel s q = (s', q') -> alldead s (hrefs_q q) -> plx D E W s s'.
Proof.
  induction fuel as [|f IH]; cbn; intros s q s' q' H A; [inv H; apply plx_refl|].
  destruct (hq_head q) as [r|] eqn:Eh; [|inv H; apply plx_refl].
  destruct (0 <? l_locked (getl s r)); [inv H; apply plx_refl|].
  destruct (hq_pop q) as [o q1] eqn:Ep. destruct (hq_pop_refs _ _ _ Ep) as [P1 P2].
  assert (Hr : In r (hrefs_q q)).
  { unfold hq_head in Eh. unfold hq_pop in Ep. destruct (hq_fast q) eqn:Ef.
    - destruct (hq_scale q) as [[[|b items] mp]|] eqn:Es; try discriminate. inv Eh. inv Ep. apply P2. reflexivity.
    - inv Eh. inv Ep. apply P2. reflexivity. }
  eapply plx_trans; [apply plx_unref, dead_dropok, A, Hr|].
  eapply IH; eauto. eapply alldead_keep; [apply unref_keep|]. intros x Hx. apply A, P1, Hx.
Qed.

Lemma liveA_rm l : liveA l -> liveA (l <| l_locked := 0 |> <| l_ack := 255 |>).
Proof. intros [L1 L2]. split; auto. Qed.

Lemma plx_remove_lock D E W s k r : hdead s -> plx D E W s (remove_lock s k r).
Proof.
  intros Hd. unfold remove_lock.
  set (s1 := updl s r (fun l => l <| l_locked := 0 |> <| l_ack := 255 |>)).
  assert (P1 : plx D E W s s1) by (subst s1; apply plx_updl; intros l L; apply liveA_rm; auto).
  assert (K1 : keep s s1) by (subst s1; keep_l).
  assert (Hd1 : hdead s1) by (eapply hdead_keep; eauto).
  destruct (aget (mgrs s1) k) as [m|] eqn:Em.
  2:{ unfold getm. rewrite Em. cbn. exact P1. }
  rewrite (getm_some _ _ _ Em).
  destruct (match m_cur m with Some c => c =? r | None => false end).
  - set (s2 := updl s1 r (fun l => l <| l_refc := dec8 (l_refc l) |>)).
    assert (P2 : plx D E W s s2) by (eapply plx_trans; [exact P1|subst s2; apply plx_updl; intros l L; exact L]).
    assert (K2 : keep s1 s2) by (subst s2; keep_l).
    destruct (m_locks m) as [q|] eqn:Eq.
    + destruct (promote (S (hq_size q)) s2 q) as [[s' q'] nc] eqn:Ep.
      eapply plx_trans; [exact P2|]. eapply plx_trans; [eapply plx_promote; eauto|apply plx_updm; intros; reflexivity].
      intros x Hx. eapply dead_keep; [exact K2|]. apply Hd1. exists k, m. split; auto. right. exists q. auto.
    + eapply plx_trans; [exact P2|]. apply plx_updm. intros; reflexivity.
  - destruct (m_locks m) as [q|] eqn:Eq; [|exact P1].
    destruct (drop_dead_heads _ s1 _) as [s' q'] eqn:Ed.
    eapply plx_trans; [exact P1|]. eapply plx_trans; [eapply plx_drop_dead_heads; eauto|apply plx_updm; intros; reflexivity].
    intros x Hx. apply hq_removelock_refs in Hx. apply Hd1. exists k, m. split; auto. right. exists q. auto.
Qed.

(* ------------------------------------------------------------------ wait queue *)
Lemma plx_wq_compact D E W items : forall s s' kept, wq_compact s items = (s', kept) ->
  plx D E W s s' /\ incl kept items.
Proof.
  induction items as [|r rest IH]; cbn; intros s s' kept H.
  - inv H. split; [apply plx_refl|apply incl_refl].
  - destruct (dead_waiter (getl s r)) eqn:Dw.
    + destruct (IH _ _ _ H) as [P I]. split.
      * eapply plx_trans; [|exact P]. apply plx_unref, dead_waiter_dropok. exact Dw.
      * intros x Hx. right. auto.
    + destruct (wq_compact s rest) as [s1 k1] eqn:E0. inv H. destruct (IH _ _ _ E0) as [P I]. split; auto.
      intros x [->|Hx]; [left; auto|right; auto].
Qed.

Lemma plx_then_updm D E (W : ref -> Prop) s s1 k f :
  plx D E W s s1 ->
  (forall m q x, aget (mgrs s1) k = Some m -> m_wait (f m) = Some q -> In x (wq_items q) -> W x \/ wref s x) ->
  plx D E W s (updm s1 k f).
Proof.
  intros [p e w] Hf. split.
  - intros r l H L ND. rewrite store_updm. eauto.
  - intros x Hx. apply e. unfold eref, updm in *. destruct (aget (mgrs s1) k); auto.
  - intros x (k' & m & q & H & Hq & Hi). rewrite aget_mgrs_updm in H. destruct (k =? k') eqn:Ek.
    + apply N.eqb_eq in Ek. subst. destruct (aget (mgrs s1) k') as [m0|] eqn:E0; [|discriminate]. inv H. eauto.
    + apply w. exists k', m, q. auto.
Qed.

Lemma getm_wref s k q x : m_wait (getm s k) = Some q -> In x (wq_items q) -> wref s x.
Proof.
  unfold getm. destruct (aget (mgrs s) k) as [m|] eqn:Em; [|discriminate].
  intros Hq Hi. exists k, m, q. auto.
Qed.

Lemma prio_insert_incl s r p : forall items x, In x (prio_insert s items r p) -> x = r \/ In x items.
Proof.
  induction items as [|y rest IH]; cbn; intros x Hx.
  - destruct Hx as [->|[]]; auto.
  - destruct (_ <? p); cbn in Hx.
    + destruct Hx as [->|[->|Hx]]; auto.
    + destruct Hx as [->|Hx]; auto. destruct (IH _ Hx); auto.
Qed.

Lemma repush_fold_incl s : forall items acc x,
  In x (fold_left (fun acc r => prio_insert s acc r (prio_of (l_cmd (getl s r)))) items acc) -> In x acc \/ In x items.
Proof.
  induction items as [|y rest IH]; cbn; intros acc x Hx; auto.
  destruct (IH _ _ Hx) as [H|H]; auto. apply prio_insert_incl in H. destruct H as [->|H]; auto.
Qed.

Lemma wq_repush_incl s q x : In x (wq_items (wq_repush s q)) -> In x (wq_items q).
Proof.
  unfold wq_repush. destruct (wq_mode q); auto; unfold wq_items at 1; cbn; intros Hx;
    apply repush_fold_incl in Hx; destruct Hx as [[]|Hx]; auto.
Qed.

Lemma plx_wq_push D E W s q r s' q' :
  wq_push s q r = (s', q') -> plx D E W s s' /\ (forall x, In x (wq_items q') -> x = r \/ In x (wq_items q)).
Proof.
  unfold wq_push, wq_items. intros H.
  destruct (wq_mode q).
  - destruct (wq_cap q =? 0); [inv H; split; [apply plx_refl|]; cbn; intros x Hx; rewrite in_app_iff in *; cbn in *; intuition|].
    destruct (wq_len q <? wq_cap q); [inv H; split; [apply plx_refl|]; cbn; intros x Hx; repeat rewrite in_app_iff in *; cbn in *; intuition|].
    destruct (wq_fast q) as [|a rest] eqn:Ef; [inv H; split; [apply plx_refl|]; cbn; intros x Hx; repeat rewrite in_app_iff in *; cbn in *; intuition|].
    destruct (wq_compact s (a :: rest)) as [s1 kept] eqn:Ec.
    destruct (plx_wq_compact D E W _ _ _ _ Ec) as [P I].
    destruct (_ <? wq_len q).
    { inv H. split; auto. cbn. intros x Hx. repeat rewrite in_app_iff in *. cbn in Hx.
      destruct Hx as [[Hx|[Hx|[]]]|Hx]; auto. apply I in Hx. cbn in Hx. intuition. }
    destruct (wq_cap q <=? 128).
    { inv H. split; auto. cbn. intros x Hx. repeat rewrite in_app_iff in *. cbn in Hx.
      destruct Hx as [[Hx|[Hx|[]]]|Hx]; auto. apply I in Hx. cbn in Hx. intuition. }
    inv H. split; auto. cbn. rewrite Ef. intros x Hx. repeat rewrite in_app_iff in *. cbn in Hx. intuition.
  - inv H. split; [apply plx_refl|]. cbn. intros x Hx. repeat rewrite in_app_iff in *. cbn in Hx. intuition.
  - inv H. split; [apply plx_refl|]. cbn. intros x Hx. repeat rewrite in_app_iff in *.
    destruct Hx as [Hx|Hx]; auto. apply prio_insert_incl in Hx. intuition.
Qed.

Lemma plx_add_wait_lock D E (W : ref -> Prop) s k r : W r -> plx D E W s (add_wait_lock s k r).
Proof.
  intros HW. unfold add_wait_lock.
  match goal with |- context [wq_push s ?q r] => set (q0 := q); destruct (wq_push s q0 r) as [s1 q1] eqn:Ep end.
  destruct (plx_wq_push D E W _ _ _ _ _ Ep) as [P I].
  assert (Q0 : forall x, In x (wq_items q0) -> wref s x).
  { subst q0. intros x Hx. destruct (m_wait (getm s k)) as [q|] eqn:Eq; [|destruct Hx].
    assert (X : In x (wq_items q)).
    { destruct (_ && _); auto. destruct (wq_head q); auto. destruct (_ =? _); auto. apply wq_repush_incl in Hx; auto. }
    eapply getm_wref; eauto. }
  apply plx_then_updm.
  - eapply plx_trans; [exact P|]. apply plx_updl. intros l L. exact L.
  - intros m q x Hm Hq Hx. cbn in Hq. inv Hq. destruct (I _ Hx) as [->|Hx']; auto.
Qed.

Lemma wq_pop_incl q x : In x (wq_items (wq_pop q)) -> In x (wq_items q).
Proof.
  unfold wq_pop, wq_items. destruct (wq_fast q) as [|a rest] eqn:Ef.
  - destruct (wq_ring q) as [|b rest] eqn:Er; cbn; rewrite ?Ef, ?Er; cbn; auto.
  - cbn. intros Hx. rewrite in_app_iff in *. cbn. intuition.
Qed.

Lemma plx_get_wait_loop D E W fuel : forall s q s' q' o,
  get_wait_loop fuel s q = (s', q', o) -> plx D E W s s' /\ (forall x, In x (wq_items q') -> In x (wq_items q)).
Proof.
  induction fuel as [|f IH]; cbn; intros s q s' q' o H.
  - inv H. split; [apply plx_refl|auto].
  - destruct (wq_head q) as [r|]; [|inv H; split; [apply plx_refl|auto]].
    destruct (dead_waiter (getl s r)) eqn:Dw; [|inv H; split; [apply plx_refl|auto]].
    destruct (IH _ _ _ _ _ H) as [P I]. split.
    + eapply plx_trans; [|exact P]. apply plx_unref, dead_waiter_dropok. exact Dw.
    + intros x Hx. apply wq_pop_incl. auto.
Qed.

Lemma plx_get_wait_lock D E W s k s' o : get_wait_lock s k = (s', o) -> plx D E W s s'.
Proof.
  unfold get_wait_lock. destruct (m_wait (getm s k)) as [q|] eqn:Eq; intros H; [|inv H; apply plx_refl].
  destruct (get_wait_loop _ s q) as [[s1 q1] o1] eqn:El. inv H.
  destruct (plx_get_wait_loop D E W _ _ _ _ _ _ El) as [P I].
  apply plx_then_updm; auto. intros m q' x Hm Hq Hx. cbn in Hq. inv Hq. right. eapply getm_wref; eauto.
Qed.

(* ------------------------------------------------------------------ wheels *)
Lemma wrefs_adel (w : amap (list ref)) k x : In x (wrefs (adel w k)) -> In x (wrefs w).
Proof.
  unfold wrefs. intros H. apply in_flat_map in H. destruct H as ([a b] & Hab & Hx). apply In_adel in Hab.
  apply in_flat_map. exists (a, b). auto.
Qed.

Lemma wrefs_aset (w : amap (list ref)) k l x : In x (wrefs (aset w k l)) -> In x l \/ In x (wrefs w).
Proof.
  unfold aset. unfold wrefs at 1. cbn. rewrite in_app_iff. intros [H|H]; auto. right. eapply wrefs_adel; eauto.
Qed.

Lemma wheel_get_in (w : amap (list ref)) k x : In x (wheel_get w k) -> In x (wrefs w).
Proof.
  unfold wheel_get. destruct (aget w k) as [l|] eqn:E; [|intros []]. intros H. apply aget_In in E.
  unfold wrefs. apply in_flat_map. exists (k, l). auto.
Qed.

Lemma wrefs_push (w : amap (list ref)) k r x : In x (wrefs (wheel_push w k r)) -> x = r \/ In x (wrefs w).
Proof.
  unfold wheel_push. intros H. apply wrefs_aset in H. destruct H as [H|H]; auto.
  apply in_app_iff in H. destruct H as [H|[->|[]]]; auto. right. eapply wheel_get_in; eauto.
Qed.

Lemma remove_ref_incl l r x : In x (remove_ref l r) -> In x l.
Proof. unfold remove_ref. intros H. apply filter_In in H. tauto. Qed.

(* state changes that touch neither store nor managers, only the expiry structures *)
Lemma plx_eset D (E : ref -> Prop) W s s' :
  store s' = store s -> mgrs s' = mgrs s -> (forall x, eref s' x -> E x \/ eref s x) -> plx D E W s s'.
Proof.
  intros Hs Hm He. split; auto.
  - intros r l H L _. rewrite Hs. eauto.
  - intros x (k & m & q & H & Hq & Hi). right. rewrite Hm in H. exists k, m, q. auto.
Qed.

Section RExt.
  Variables D E W : ref -> Prop.
  Lemma plx_r_updl s s' r f : (forall l, liveA l -> liveA (f l)) -> plx D E W s s' -> plx D E W s (updl s' r f).
  Proof. intros. eapply plx_trans; [eassumption|apply plx_updl; auto]. Qed.
  Lemma plx_r_kill s s' r f : D r -> plx D E W s s' -> plx D E W s (updl s' r f).
  Proof. intros. eapply plx_trans; [eassumption|apply plx_updl_kill; auto]. Qed.
  Lemma plx_r_updm s s' k f : (forall m, m_wait (f m) = m_wait m) -> plx D E W s s' -> plx D E W s (updm s' k f).
  Proof. intros. eapply plx_trans; [eassumption|apply plx_updm; auto]. Qed.
  Lemma plx_r_tlong s s' x : plx D E W s s' -> plx D E W s (s' <| tlong := x |>).
  Proof. intros. eapply plx_trans; [eassumption|apply plx_same; reflexivity]. Qed.
  Lemma plx_r_twheel s s' x : plx D E W s s' -> plx D E W s (s' <| twheel := x |>).
  Proof. intros. eapply plx_trans; [eassumption|apply plx_same; reflexivity]. Qed.
  Lemma plx_r_checkT s s' x : plx D E W s s' -> plx D E W s (s' <| checkT := x |>).
  Proof. intros. eapply plx_trans; [eassumption|apply plx_same; reflexivity]. Qed.
  Lemma plx_r_checkE s s' x : plx D E W s s' -> plx D E W s (s' <| checkE := x |>).
  Proof. intros. eapply plx_trans; [eassumption|apply plx_same; reflexivity]. Qed.
  Lemma plx_r_now s s' x : plx D E W s s' -> plx D E W s (s' <| now := x |>).
  Proof. intros. eapply plx_trans; [eassumption|apply plx_same; reflexivity]. Qed.
  Lemma plx_r_leader s s' x : plx D E W s s' -> plx D E W s (s' <| leader := x |>).
  Proof. intros. eapply plx_trans; [eassumption|apply plx_same; reflexivity]. Qed.
  Lemma plx_r_bump s s' f : plx D E W s s' -> plx D E W s (bump f s').
  Proof. intros. eapply plx_trans; [eassumption|apply plx_same; reflexivity]. Qed.
  Lemma plx_r_updc s s' f : plx D E W s s' -> plx D E W s (updc s' f).
  Proof. intros. eapply plx_trans; [eassumption|apply plx_same; reflexivity]. Qed.
  Lemma plx_r_rmmgr s s' k : plx D E W s s' -> plx D E W s (remove_mgr_if_unref s' k).
  Proof. intros. eapply plx_trans; [eassumption|apply plx_rmmgr]. Qed.
  Lemma plx_r_setm_new s s' k : plx D E W s s' -> plx D E W s (setm s' k new_mgr).
  Proof. intros. eapply plx_trans; [eassumption|apply plx_setm_new]. Qed.
  Lemma plx_r_unref s s' r : dropok s' r -> plx D E W s s' -> plx D E W s (unref s' r).
  Proof. intros. eapply plx_trans; [eassumption|apply plx_unref; auto]. Qed.
  Lemma plx_r_free s s' r : dropok s' r -> plx D E W s s' -> plx D E W s (free_lock s' r).
  Proof. intros. eapply plx_trans; [eassumption|apply plx_free_lock; auto]. Qed.
  Lemma plx_r_ewheel s s' x : (forall y, In y (wrefs x) -> E y \/ In y (wrefs (ewheel s'))) -> plx D E W s s' -> plx D E W s (s' <| ewheel := x |>).
  Proof.
    intros Hx P. eapply plx_trans; [exact P|]. apply plx_eset; try reflexivity.
    intros y [Hy|Hy]; [|right; right; exact Hy]. cbn [ewheel] in Hy. destruct (Hx _ Hy); auto. right; left; auto.
  Qed.
  Lemma plx_r_elong s s' x : (forall y, In y (wrefs x) -> E y \/ In y (wrefs (elong s'))) -> plx D E W s s' -> plx D E W s (s' <| elong := x |>).
  Proof.
    intros Hx P. eapply plx_trans; [exact P|]. apply plx_eset; try reflexivity.
    intros y [Hy|Hy]; [right; left; exact Hy|]. cbn [elong] in Hy. destruct (Hx _ Hy); auto. right; right; auto.
  Qed.
End RExt.

Ltac plx_r1 := first
  [ assumption | apply plx_refl
  | apply plx_r_updl; [intros ? HL; exact HL|]
  | apply plx_r_updm; [intros ?; reflexivity|]
  | apply plx_r_tlong | apply plx_r_twheel | apply plx_r_checkT | apply plx_r_checkE | apply plx_r_now
  | apply plx_r_leader | apply plx_r_bump | apply plx_r_updc | apply plx_r_rmmgr | apply plx_r_setm_new ].
Ltac plx_r := repeat plx_r1.

Lemma liveA_to_false l : liveA l -> liveA (l <| l_timeouted := false |>).
Proof. intros [L1 L2]. split; auto. Qed.

Lemma plx_add_timeout D E W s r : plx D E W s (add_timeout s r).
Proof.
  unfold add_timeout.
  set (s1 := updl s r (fun l => l <| l_timeouted := false |>)).
  assert (P1 : plx D E W s s1) by (subst s1; apply plx_updl; intros l [L1 L2]; split; auto).
  clearbody s1. destruct (QUEUE_MAX_WAIT <? l_tcc (getl s1 r)).
  - plx_r.
  - plx_r.
Qed.

Lemma plx_remove_long_timeout D E W s r : plx D E W s (remove_long_timeout s r).
Proof. unfold remove_long_timeout. destruct (aget (tlong s) _); plx_r. Qed.

Lemma plx_remove_long_expried D E W s r t : plx D E W s (remove_long_expried s r t).
Proof.
  unfold remove_long_expried. destruct (aget (elong s) (lkey t)) as [q|] eqn:Eq; [|apply plx_updl; intros l L; exact L].
  apply plx_r_updl; [intros l L; exact L|]. apply plx_r_elong; [|apply plx_refl].
  intros x Hx. right. destruct (remove_ref q r) eqn:Er.
  - eapply wrefs_adel; eauto.
  - apply wrefs_aset in Hx. destruct Hx as [Hx|Hx]; auto.
    rewrite <- Er in Hx. apply remove_ref_incl in Hx. apply aget_In in Eq. unfold wrefs. apply in_flat_map. exists (lkey t, q). auto.
Qed.

Lemma plx_push_lock_aof D E W s k r f s' ev : push_lock_aof s k r f = (s', ev) -> plx D E W s s'.
Proof.
  unfold push_lock_aof. intros H.
  destruct (negb (leader s)); [inv H; apply plx_refl|].
  destruct (has _ LOCK_FLAG_FROM_AOF); [inv H; plx_r|].
  destruct (aof_lock_data true _ _) as [[d c'] ld']. inv H.
  plx_r.
Qed.

Lemma plx_push_unlock_aof D E W s k r lc uc b f s' ev : push_unlock_aof s k r lc uc b f = (s', ev) -> plx D E W s s'.
Proof.
  unfold push_unlock_aof. intros H.
  destruct (negb (leader s)); [inv H; apply plx_refl|].
  destruct (match uc with Some u => _ | None => false end); [inv H; plx_r|].
  destruct (aof_lock_data false _ _) as [[d c'] ld']. inv H.
  plx_r.
Qed.

Lemma plx_repeat_push_lock_aof D E W n : forall s k r s' ev, repeat_push_lock_aof n s k r = (s', ev) -> plx D E W s s'.
Proof.
  induction n as [|n IH]; cbn; intros s k r s' ev H.
  - inv H. apply plx_refl.
  - destruct (push_lock_aof s k r 0) as [s1 e1] eqn:E1. destruct (repeat_push_lock_aof n s1 k r) as [s2 e2] eqn:E2.
    inv H. eapply plx_trans; [eapply plx_push_lock_aof; eauto|eauto].
Qed.

Lemma plx_add_expried D (E : ref -> Prop) W s k r s' ev : add_expried s k r = (s', ev) -> E r -> plx D E W s s'.
Proof.
  unfold add_expried. intros H HE.
  set (s1 := updl s r (fun l => l <| l_expried := false |>)) in *.
  assert (P1 : plx D E W s s1) by (subst s1; apply plx_updl; intros l L; exact L).
  clearbody s1.
  match type of H with context [if QUEUE_MAX_WAIT <? ?x then ?a else ?b] =>
    set (s2 := if QUEUE_MAX_WAIT <? x then a else b) in * end.
  assert (P2 : plx D E W s1 s2).
  { subst s2. destruct (QUEUE_MAX_WAIT <? _).
    - apply plx_r_elong; [|plx_r]. intros x Hx. apply wrefs_push in Hx. destruct Hx as [->|Hx]; auto.
    - apply plx_r_updl; [intros l L; exact L|]. apply plx_r_ewheel; [|plx_r].
      intros x Hx. apply wrefs_push in Hx. destruct Hx as [->|Hx]; auto. }
  clearbody s2. destruct (_ && _).
  - eapply plx_trans; [exact P1|]. eapply plx_trans; [exact P2|]. eapply plx_repeat_push_lock_aof; eauto.
  - inv H. eapply plx_trans; eauto.
Qed.

Lemma plx_process_data D E W s k r c b s' ev : process_data s k r c b = (s', ev) -> plx D E W s s'.
Proof.
  unfold process_data. intros H. destruct (c_data c); [|inv H; apply plx_refl].
  destruct (process_lock_data _ _ _ _) as [[cur' ld']| | |]; inv H; try apply plx_refl.
  plx_r.
Qed.

(* ------------------------------------------------------------------ records created / re-written by Lock *)
Lemma plx_setl D E W s r l' :
  (forall l, aget (store s) r = Some l -> liveA l -> liveA l') -> plx D E W s (setl s r l').
Proof.
  intros Hl. split.
  - intros r' l H L _. rewrite store_setl, aget_aset. destruct (r =? r') eqn:Er; eauto.
    apply N.eqb_eq in Er. subst. eauto.
  - intros x Hx. right. exact Hx.
  - intros x Hx. right. exact Hx.
Qed.

Lemma plx_new_lock (D : ref -> Prop) E W s k conn c s1 r : new_lock s k conn c = (s1, r) -> D r -> plx D E W s s1.
Proof.
  unfold new_lock. intros H HD. inv H. apply plx_r_updm; [intros; reflexivity|].
  split.
  - intros r' l H L ND. change (exists l', aget (aset (store s) (next s) (mkLock k c conn None (now s)
        (if has (c_tflag c) TF_UNRENEW then expiry_deadline c (now s) else 0%Z) (timeout_deadline c (now s)) false 1
        (if has (c_tflag c) TF_UNRENEW then initial_ecc c (if has (c_tflag c) TF_UNRENEW then expiry_deadline c (now s) else 0%Z) (now s) else 1)
        0 0 255 true true 0 false)) r' = Some l' /\ liveA l').
    rewrite aget_aset. destruct (next s =? r') eqn:Er; eauto. apply N.eqb_eq in Er. subst. contradiction.
  - intros x Hx. right. exact Hx.
  - intros x Hx. right. exact Hx.
Qed.

Lemma dead_setl s r l' x : l_timeouted l' = l_timeouted (getl s r) -> dead s x -> dead (setl s r l') x.
Proof.
  intros Ht Hd. unfold dead, getl in *. rewrite store_setl, aget_aset. destruct (r =? x) eqn:Er; auto.
  apply N.eqb_eq in Er. subst. rewrite Ht. exact Hd.
Qed.

Lemma plx_add_lock D E W s k r : dropok s r -> hdead s -> plx D E W s (add_lock s k r).
Proof.
  intros Hr Hd. unfold add_lock.
  match goal with |- context [setl s r ?l] => set (l' := l) end.
  assert (Ht : l_timeouted l' = l_timeouted (getl s r)).
  { subst l'. repeat match goal with |- context [if ?b then _ else _] => destruct b end; reflexivity. }
  assert (P1 : plx D E W s (setl s r l')).
  { apply plx_setl. intros l Hl L. exfalso. eapply Hr; eauto. }
  assert (Hd1 : hdead (setl s r l')).
  { intros x (k0 & m0 & Hm & Hx). apply dead_setl; auto. apply Hd. exists k0, m0. auto. }
  clearbody l'.
  destruct (m_cur (getm s k)) eqn:Ec.
  - destruct (hq_push _ _ r) as [s' q'] eqn:Ep.
    eapply plx_trans; [exact P1|]. apply plx_r_updm; [intros; reflexivity|].
    eapply plx_hq_push; [exact Ep|].
    intros x Hx. apply Hd1. destruct (m_locks (getm s k)) as [q|] eqn:Eq; [|destruct Hx].
    apply (getm_href (setl s r l') k). right. exists q. split; auto. unfold hrefs_q. apply in_app_iff. auto.
  - eapply plx_trans; [exact P1|]. apply plx_updm. intros; reflexivity.
Qed.

Lemma plx_update_locked_lock D E W s k r c : plx D E W s (update_locked_lock s k r c).
Proof.
  unfold update_locked_lock. apply plx_setl. intros l Hl [L1 L2]. rewrite (getl_some _ _ _ Hl).
  repeat match goal with |- context [if ?b then _ else _] => destruct b end; split; assumption.
Qed.

Lemma plx_update_and_rearm D (E : ref -> Prop) W s k r c s' ev :
  update_and_rearm s k r c = (s', ev) -> E r -> plx D E W s s'.
Proof.
  unfold update_and_rearm. intros H HE.
  assert (P1 := plx_update_locked_lock D E W s k r c).
  destruct (l_long (getl s r)); [|inv H; auto].
  destruct (negb (has (c_eflag c) EF_MILLISECOND)); [|inv H; auto].
  destruct (negb _); [|inv H; auto].
  destruct (add_expried _ k r) as [s2 ev2] eqn:Ea. inv H.
  apply plx_r_updl; [intros l L; exact L|].
  eapply plx_trans; [exact P1|]. eapply plx_trans; [apply plx_remove_long_expried|].
  eapply plx_add_expried; eauto.
Qed.

(* ------------------------------------------------------------------ automation *)
Ltac plx_eq :=
  match goal with
  | |- plx _ _ _ _ ?s' => is_var s';
      eapply plx_trans;
      [| first [ eapply plx_process_data; eassumption
               | eapply plx_push_lock_aof; eassumption
               | eapply plx_push_unlock_aof; eassumption
               | eapply plx_get_wait_lock; eassumption ] ]
  end.

(* peels the target state; leaves side goals `dropok X r`, `hdead X`, `?E r`, `?W r`, `?D r` *)
Ltac plx_x := repeat first
  [ plx_r1 | plx_eq
  | match goal with |- plx _ _ _ _ (if ?b then _ else _) => destruct b end
  | match goal with |- plx _ _ _ _ (remove_long_timeout _ _) => eapply plx_trans; [|apply plx_remove_long_timeout] end
  | match goal with |- plx _ _ _ _ (remove_long_expried _ _ _) => eapply plx_trans; [|apply plx_remove_long_expried] end
  | match goal with |- plx _ _ _ _ (add_timeout _ _) => eapply plx_trans; [|apply plx_add_timeout] end
  | match goal with |- plx _ _ _ _ (unref _ _) => apply plx_r_unref end
  | match goal with |- plx _ _ _ _ (free_lock _ _) => apply plx_r_free end
  | match goal with |- plx _ _ _ _ (remove_lock _ _ _) => eapply plx_trans; [|apply plx_remove_lock] end
  | match goal with |- plx _ _ _ _ (add_wait_lock _ _ _) => eapply plx_trans; [|apply plx_add_wait_lock] end ].

(* side goals about deadness at an intermediate state, from a fact about an earlier state *)
Ltac dead_from H := apply dead_dropok; eapply dead_keep; [|exact H]; keep_x.
Ltac hdead_from H := eapply hdead_keep; [|exact H]; keep_x.

Lemma getl_updl_same_l s r f : getl (updl s r f) r = match aget (store s) r with Some l => f l | None => dummy_lock end.
Proof. unfold getl. rewrite aget_store_updl, N.eqb_refl. destruct (aget (store s) r); reflexivity. Qed.

Lemma hdead_kill s r f : (forall l, l_timeouted l = true -> l_timeouted (f l) = true) -> hdead s -> hdead (updl s r f).
Proof. apply hdead_updl. Qed.

Lemma dead_updl_set s r f : (forall l, l_timeouted (f l) = true) -> dead (updl s r f) r.
Proof.
  intros Hf. unfold dead. rewrite getl_updl_same_l. destruct (aget (store s) r); auto.
Qed.

(* ------------------------------------------------------------------ units *)
Lemma wake_grant_pl W s k r via s' ev :
  wake_grant s k r via = (s', ev) -> core_flags (l_cmd (getl s r)) -> hdead s ->
  plx (eq r) (eq r) W s s'.
Proof.
  intros H [Hack Hms] Hd.
  unfold wake_grant in H. rewrite Hack in H. cbn [andb] in H.
  set (s1 := updl s r (fun l => l <| l_timeouted := true |>)) in *.
  assert (P1 : plx (eq r) (eq r) W s s1) by (subst s1; apply plx_updl_kill; reflexivity).
  assert (D1 : dead s1 r) by (subst s1; apply dead_updl_set; intros; reflexivity).
  assert (H1 : hdead s1) by (subst s1; apply hdead_kill; auto).
  clearbody s1.
  destruct (0 <? c_expried (l_cmd (getl s r))) eqn:Hexp.
  - rewrite Hms in H. brk.
    all: match goal with HE : add_expried ?X _ _ = _ |- _ =>
           assert (PX : plx (eq r) (eq r) W s X);
           [ plx_x; (eapply plx_trans; [|apply plx_add_lock]);
             first [solve [plx_x] | solve [dead_from D1] | solve [hdead_from H1]]
           | plx_x; eapply plx_trans; [exact PX|eapply plx_add_expried; [exact HE|reflexivity]] ] end.
  - brk. all: plx_x.
Qed.

Lemma do_timeout_pl E W s r s' ev w :
  do_timeout s r = (s', ev, w) -> hdead s -> plx (eq r) E W s s'.
Proof.
  unfold do_timeout. intros H Hd. destruct (aget (store s) r) as [l|] eqn:Hl; [|inv H; apply plx_refl].
  destruct (l_timeouted l) eqn:Hto.
  - inv H. assert (D0 : dead s r) by (unfold dead; rewrite (getl_some _ _ _ Hl); auto).
    plx_x; apply dead_dropok; auto.
  - set (s1 := updl s r (fun l => l <| l_timeouted := true |>)) in *.
    assert (P1 : plx (eq r) E W s s1) by (subst s1; apply plx_updl_kill; reflexivity).
    assert (D1 : dead s1 r) by (subst s1; apply dead_updl_set; intros; reflexivity).
    assert (H1 : hdead s1) by (subst s1; apply hdead_kill; auto).
    clearbody s1.
    brk. all: plx_x.
    all: first [solve [dead_from D1] | solve [hdead_from H1] | idtac].
Qed.

Lemma do_expried_pl D W s r s' ev w :
  do_expried s r = (s', ev, w) -> hdead s -> dead s r -> plx D (eq r) W s s'.
Proof.
  unfold do_expried. intros H Hd D0. destruct (aget (store s) r) as [l|] eqn:Hl; [|inv H; apply plx_refl].
  destruct (l_expried l) eqn:Hex.
  - inv H. plx_x; apply dead_dropok; auto.
  - destruct (negb (leader s) && l_isaof l && _).
    + brk. match goal with HE : add_expried _ _ _ = _ |- _ => eapply plx_trans; [|eapply plx_add_expried; [exact HE|reflexivity]] end.
      plx_x.
    + set (s1 := updl s r (fun l => l <| l_expried := true |>)) in *.
      assert (P1 : plx D (eq r) W s s1) by (subst s1; apply plx_updl; intros l0 L; exact L).
      assert (D1 : dead s1 r) by (subst s1; apply dead_updl; auto).
      assert (H1 : hdead s1) by (subst s1; apply hdead_kill; auto).
      clearbody s1.
      brk. all: plx_x.
      all: first [solve [dead_from D1] | solve [hdead_from H1] | idtac].
Qed.

Lemma release_hold_pl D E W s k conn c r depth s' ev :
  release_hold s k conn c r depth = (s', ev) -> hdead s -> dead s r -> plx D E W s s'.
Proof.
  unfold release_hold. intros H Hd D0.
  set (s1 := updl s r (fun l => l <| l_expried := true |>)) in *.
  assert (P1 : plx D E W s s1) by (subst s1; apply plx_updl; intros l0 L; exact L).
  assert (D1 : dead s1 r) by (subst s1; apply dead_updl; auto).
  assert (H1 : hdead s1) by (subst s1; apply hdead_kill; auto).
  clearbody s1.
  brk. all: plx_x.
  all: first [solve [dead_from D1] | solve [hdead_from H1] | idtac].
Qed.


Lemma cancel_wait_lock_pl E W s conn c s' ev w :
  cancel_wait_lock s conn c = (s', ev, w) -> hdead s ->
  plx (fun x => cancel_target s c = Some x) E W s s'.
Proof.
  intros H Hd. unfold cancel_wait_lock in H. fold (cancel_target s c) in H.
  destruct (cancel_target s c) as [r|] eqn:Hw.
  2:{ inv H. plx_x. }
  set (s1 := updl s r (fun l => l <| l_timeouted := true |>)) in *.
  assert (P1 : plx (fun x => Some r = Some x) E W s s1) by (subst s1; apply plx_updl_kill; reflexivity).
  assert (D1 : dead s1 r) by (subst s1; apply dead_updl_set; intros; reflexivity).
  assert (H1 : hdead s1) by (subst s1; apply hdead_kill; auto).
  clearbody s1.
  brk. all: plx_x.
  all: first [solve [dead_from D1] | solve [hdead_from H1] | idtac].
Qed.

Lemma unlock_step_pl E W s conn c s' ev w :
  unlock_step s conn c = (s', ev, w) -> hdead s ->
  plx (fun x => cancel_target s c = Some x) E W s s'.
Proof.
  intros H Hd. unfold unlock_step in H. cbv beta zeta in H.
  brk.
  all: try match goal with HC : cancel_wait_lock _ _ _ = _ |- _ => eapply cancel_wait_lock_pl; eauto end.
  all: try match goal with HR : release_hold _ _ _ _ ?r _ = _ |- _ =>
         eapply plx_trans; [|eapply release_hold_pl; [exact HR| |]] end.
  all: plx_x.
  all: try solve [hdead_from Hd].
  all: try solve [eapply dead_keep; [|apply Hd; eexists _, m; split; [eassumption|first [eapply get_locked_lock_href; eassumption | left; eassumption]]]; keep_x].
Qed.

Lemma new_lock_facts S0 k conn c s1 r :
  new_lock S0 k conn c = (s1, r) -> hdead S0 -> r = next S0 /\ dead s1 r /\ hdead s1.
Proof.
  intros Hn Hd. destruct (new_lock_tr _ _ _ _ _ _ Hn) as (Hr & T & P & V & _).
  split; auto. split.
  - unfold dead. unfold view_of in V. inv V. auto.
  - intros x Hx. apply (tr_h _ _ _ _ _ T) in Hx. apply Hd in Hx.
    unfold dead, getl in *. destruct (aget (store s1) x) as [l'|] eqn:El; auto.
    destruct (tr_v _ _ _ _ _ T _ _ El) as (v0 & Hv & Ev). unfold ovr in Hv. unfold idg in Ev.
    assert (Ht : l_timeouted l' = v_to v0) by (rewrite <- Ev; reflexivity). clear Ev.
    destruct (x =? r) eqn:Ex.
    + inv Hv. exact Ht.
    + unfold base in Hv. destruct (aget (store S0) x) as [l0|]; [|discriminate]. inv Hv.
      rewrite Ht. exact Hx.
Qed.

Ltac plx_x2 := repeat first
  [ plx_r1 | plx_eq
  | match goal with |- plx _ _ _ _ (if ?b then _ else _) => destruct b end
  | match goal with |- plx _ _ _ _ (add_timeout _ _) => eapply plx_trans; [|apply plx_add_timeout] end
  | match goal with |- plx _ _ _ _ (free_lock _ _) => apply plx_r_free end
  | match goal with |- plx _ _ _ _ (add_wait_lock _ _ _) => eapply plx_trans; [|apply plx_add_wait_lock] end
  | match goal with |- plx _ _ _ _ (add_lock _ _ _) => eapply plx_trans; [|apply plx_add_lock] end
  | match goal with HU : update_and_rearm _ _ _ _ = (?s', _) |- plx _ _ _ _ ?s' =>
      eapply plx_trans; [|eapply plx_update_and_rearm; [exact HU|]] end
  | match goal with HE : add_expried _ _ _ = (?s', _) |- plx _ _ _ _ ?s' =>
      eapply plx_trans; [|eapply plx_add_expried; [exact HE|]] end
  | match goal with Hn : new_lock _ _ _ _ = (?s', _) |- plx _ _ _ _ ?s' =>
      eapply plx_trans; [|eapply plx_new_lock; [exact Hn|]] end ].

Definition good (s : db) (x : ref) : Prop := dead s x /\ x < next s.

Lemma chg1_dead s s' r (V : view -> Prop) : chg1 s s' r V -> (forall v, V v -> v_to v = true) -> dead s' r.
Proof.
  intros C HV. unfold dead, getl. destruct (aget (store s') r) as [l'|] eqn:El'; auto.
  assert (X := chg_v _ _ _ _ C _ _ El'). rewrite N.eqb_refl in X. apply HV in X. exact X.
Qed.

Lemma lock_step_pl s conn c s' ev w :
  lock_step s conn c = (s', ev, w) -> core_cmd c -> hdead s ->
  plx (eq (next s)) (fun x => (x = next s /\ good s' x) \/ href s x) (fun x => x = next s /\ next s < next s') s s'.
Proof.
  intros H Hcore Hd. assert (Hcore0 := Hcore). destruct Hcore as (Hack & Hms & Hems & Hdata).
  unfold lock_step in H. cbv beta zeta in H.
  set (k := c_key c) in *.
  match type of H with context [if has (c_flag c) LOCK_FLAG_SHOW then ?a else c] =>
    set (c1 := if has (c_flag c) LOCK_FLAG_SHOW then a else c) in H end.
  assert (Hc1 : c_req c1 = c_req c /\ c_tflag c1 = c_tflag c /\ c_eflag c1 = c_eflag c /\ c_data c1 = c_data c
                /\ c_key c1 = c_key c).
  { subst c1. destruct (has (c_flag c) LOCK_FLAG_SHOW); cbn; auto. }
  clearbody c1. destruct Hc1 as (Hreq1 & Htf1 & Hef1 & Hd1 & Hk1).
  destruct (aget (mgrs s) k) as [m0|] eqn:Hmgr.
  all: cbv iota in H.
  all: brk.
  all: repeat match goal with HP : process_data _ _ _ _ _ = _ |- _ =>
         rewrite process_data_nodata in HP by congruence; injs end.
  all: try congruence.
  all: try solve [exfalso; match goal with HB : (0 <? m_locked (getm (bump _ (setm _ _ new_mgr)) _)) = true |- _ =>
         rewrite getm_bump_setm_new in HB; vm_compute in HB; discriminate HB end].
  all: try solve [exfalso; rewrite ?Htf1 in *; rewrite ?Hef1 in *;
         repeat match goal with HB : _ && _ = true |- _ => apply andb_true_iff in HB; destruct HB end; congruence].
  all: try match goal with Hn : new_lock ?S0 _ _ _ = (?s1, ?r) |- _ =>
         let HS0 := fresh "HS0" in
         assert (HS0 : hdead S0) by (hdead_from Hd);
         destruct (new_lock_facts _ _ _ _ _ _ Hn HS0) as (Hr & D1 & H1) end.
  all: plx_x2.
  all: try solve [match goal with D1 : dead _ _ |- _ => dead_from D1 end].
  all: try solve [match goal with H1 : hdead _ |- _ => exact H1 end].
  all: try solve [subst; reflexivity].
  all: try solve [
    assert (Hf : forall (m : mgr) (x : ref), href_m ((fun m => m <| m_locked := add32 (m_locked m) 1 |>) m) x -> href_m m x)
      by (intros ? ? HH; exact HH);
    match goal with Hn : new_lock ?S0 ?k' ?conn' ?c' = (?s1, ?r), HE : add_expried ?X _ ?r = (?Y, ?aev) |- _ \/ _ =>
      left;
      match goal with |- _ /\ good ?S' _ =>
        assert (K1 : keep (updm (add_lock s1 k' r) k' (fun m => m <| m_locked := add32 (m_locked m) 1 |>)) X) by apply keep_refl;
        assert (K2 : keep Y S') by keep_x;
        destruct (new_hold_chg S0 k' conn' c' s1 r _ X Y aev S' Hn Hf K1 HE K2) as ((Hr' & Hlt) & Hc' & _);
        split; [exact Hr'|split; [eapply chg1_dead; [exact Hc'|intros v ->; reflexivity]|exact Hlt]]
      end
    end].
  all: try solve [
    match goal with Hn : new_lock ?S0 ?k' ?conn' ?c' = (?s1, ?r) |- _ /\ _ < next ?S' =>
      destruct (new_wait_chg S0 k' conn' c' s1 r S' Hn ltac:(keep_x)) as ((Hr' & Hlt) & _ & _);
      split; [exact Hr'|apply (N.le_lt_trans _ r); [rewrite Hr'; apply N.le_refl|exact Hlt]]
    end].
  all: try solve [right; apply (getm_href _ k); eapply get_locked_lock_href; eassumption].
Qed.
