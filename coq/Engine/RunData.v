(* Value operations attached to Lock / UnLock (property C15), part 1: toolkit.
   - the value of a key modulo the "already logged" bit (d_isaof): `mark`, `aofle`, `same_value`
   - `process_data_spec`: what one call of ProcessLockData does to the state
   - frame relation `mrel le rm s x` (both directions: no manager appears; managers disappear only when rm = true;
     surviving managers are related by `le`), right-extension lemmas through every helper of the engine model
     EXCEPT process_data (which is the operation the theorems are about).
   Every lemma holds for every db value (no reachability assumption). *)
From Coq Require Import String ZifyN ZifyBool.
From Slock Require Import Engine.Types Engine.Queues Engine.Timers Engine.Engine Engine.Engine2 Engine.LocalBase.
Open Scope N_scope.

(* ------------------------------------------------------------------ values modulo the isAof bit *)
Definition mark (a : option mdata) : option mdata := option_map (fun m => set_isaof m true) a.
Definition unmark (a : option mdata) : option mdata := option_map (fun m => set_isaof m false) a.

(* b is a, possibly with the isAof bit set (what AofLockData does to the stored value) *)
Definition aofle (a b : option mdata) : Prop := b = a \/ b = mark a.
(* equal up to the isAof bit *)
Definition same_value (a b : option mdata) : Prop := unmark a = unmark b.

Lemma mark_idem a : mark (mark a) = mark a.
Proof. destruct a; reflexivity. Qed.
Lemma unmark_mark a : unmark (mark a) = unmark a.
Proof. destruct a; reflexivity. Qed.

Lemma aofle_refl a : aofle a a. Proof. left; reflexivity. Qed.
Lemma aofle_mark a : aofle a (mark a). Proof. right; reflexivity. Qed.
Lemma aofle_trans a b c : aofle a b -> aofle b c -> aofle a c.
Proof.
  intros [->| ->] [->| ->]; unfold aofle; auto. right. apply mark_idem.
Qed.
Lemma aofle_same a b : aofle a b -> same_value a b.
Proof. intros [->| ->]; unfold same_value; [reflexivity|]. symmetry. apply unmark_mark. Qed.

Lemma same_value_refl a : same_value a a. Proof. reflexivity. Qed.
Lemma same_value_sym a b : same_value a b -> same_value b a. Proof. unfold same_value. auto. Qed.
Lemma same_value_trans a b c : same_value a b -> same_value b c -> same_value a c.
Proof. unfold same_value. congruence. Qed.

(* GetLockData ignores the bit *)
Lemma get_lock_data_unmark a : get_lock_data (unmark a) = get_lock_data a.
Proof. destruct a; reflexivity. Qed.
Lemma same_value_data a b : same_value a b -> get_lock_data a = get_lock_data b.
Proof. intros H. rewrite <- (get_lock_data_unmark a), <- (get_lock_data_unmark b). f_equal. exact H. Qed.
Lemma aofle_data a b : aofle a b -> get_lock_data b = get_lock_data a.
Proof. intros H. symmetry. apply same_value_data, aofle_same, H. Qed.

(* AofLockData changes the stored value by at most the bit *)
Lemma aof_lock_data_aofle b cur ld : aofle cur (snd (fst (aof_lock_data b cur ld))).
Proof.
  unfold aof_lock_data.
  destruct ld as [[[a|] lc lr rv]|]; [apply aofle_refl| |].
  all: destruct cur as [m|]; [|apply aofle_refl].
  all: destruct (b || negb (d_isaof m)); cbn [fst snd]; [apply aofle_mark|apply aofle_refl].
Qed.

(* the value stored for key k *)
Definition gd (s : db) (k : N) : option mdata := m_data (getm s k).
Lemma data_of_gd s k : data_of s k = get_lock_data (gd s k). Proof. reflexivity. Qed.

(* ------------------------------------------------------------------ one call of ProcessLockData *)
(* the panic-like outcomes of the data layer *)
Definition pd_failed {A} (o : outcome A) : Prop := match o with Ok _ => False | _ => True end.

Lemma process_data_spec s k r c b s' ev :
  process_data s k r c b = (s', ev) ->
  match c_data c with
  | None => s' = s /\ ev = []
  | Some frame =>
      match process_lock_data (pd_env_of s k c b) frame (gd s k) (l_data (getl s r)) with
      | Ok (cur', ld') =>
          s' = updl (updm s k (fun m => m <| m_data := cur' |>)) r (fun l => l <| l_data := ld' |>) /\ ev = []
      | _ => s' = s /\ exists site, ev = [EPanic site]
      end
  end.
Proof.
  unfold process_data, gd. intros H.
  destruct (c_data c) as [frame|]; [|inv_tuple H; auto].
  destruct (process_lock_data _ frame _ _) as [[cur' ld']| | |]; inv_tuple H; eauto.
Qed.

(* ------------------------------------------------------------------ frame relation *)
(* constant head symbol for hint databases *)
Definition Mle (le : N -> mgr -> mgr -> Prop) (k : N) (a b : mgr) : Prop := le k a b.

Definition orel (le : N -> mgr -> mgr -> Prop) (rm : bool) (k : N) (a b : option mgr) : Prop :=
  match a, b with
  | Some m, Some m' => Mle le k m m'
  | None, None => True
  | Some _, None => rm = true
  | None, Some _ => False
  end.

Definition mrel (le : N -> mgr -> mgr -> Prop) (rm : bool) (s x : db) : Prop :=
  forall k, orel le rm k (aget (mgrs s) k) (aget (mgrs x) k).

Record mcond (le : N -> mgr -> mgr -> Prop) : Prop := {
  mc_refl : forall k m, Mle le k m m;
  mc_trans : forall k a b c, Mle le k a b -> Mle le k b c -> Mle le k a c;
  mc_ref : forall k m f, Mle le k m (set m_ref f m);
  mc_cur : forall k m f, Mle le k m (set m_cur f m);
  mc_locks : forall k m f, Mle le k m (set m_locks f m) }.
Definition mcond_wait (le : N -> mgr -> mgr -> Prop) : Prop := forall k m f, Mle le k m (set m_wait f m).
Definition mcond_locked (le : N -> mgr -> mgr -> Prop) : Prop := forall k m f, Mle le k m (set m_locked f m).
Definition mcond_waited (le : N -> mgr -> mgr -> Prop) : Prop := forall k m f, Mle le k m (set m_waited f m).
(* the stored value of key k0 may get the isAof bit *)
Definition mcond_mark (le : N -> mgr -> mgr -> Prop) (k0 : N) : Prop :=
  forall m b ld, Mle le k0 m (m <| m_data := snd (fst (aof_lock_data b (m_data m) ld)) |>).

Create HintDb rddb.

Section MR.
  Variable le : N -> mgr -> mgr -> Prop.
  Variable rm : bool.
  Hypothesis HL : mcond le.

  Lemma mx_ref k a m f : Mle le k a m -> Mle le k a (set m_ref f m).
  Proof. intros H. eapply mc_trans; eauto. apply mc_ref; auto. Qed.
  Lemma mx_cur k a m f : Mle le k a m -> Mle le k a (set m_cur f m).
  Proof. intros H. eapply mc_trans; eauto. apply mc_cur; auto. Qed.
  Lemma mx_locks k a m f : Mle le k a m -> Mle le k a (set m_locks f m).
  Proof. intros H. eapply mc_trans; eauto. apply mc_locks; auto. Qed.
  Lemma mx_wait k a m f : mcond_wait le -> Mle le k a m -> Mle le k a (set m_wait f m).
  Proof. intros Hw H. eapply mc_trans; eauto. Qed.
  Lemma mx_locked k a m f : mcond_locked le -> Mle le k a m -> Mle le k a (set m_locked f m).
  Proof. intros Hw H. eapply mc_trans; eauto. Qed.
  Lemma mx_waited k a m f : mcond_waited le -> Mle le k a m -> Mle le k a (set m_waited f m).
  Proof. intros Hw H. eapply mc_trans; eauto. Qed.
  Lemma mx_refl k m : Mle le k m m. Proof. apply mc_refl; auto. Qed.

  Lemma mrel_refl s : mrel le rm s s.
  Proof. intros k. unfold orel. destruct (aget (mgrs s) k); auto. apply mx_refl. Qed.

  Lemma mrel_mgrs_eq s x x' : mgrs x' = mgrs x -> mrel le rm s x -> mrel le rm s x'.
  Proof. intros E H k. rewrite E. apply H. Qed.

  Lemma mrel_updl s x r f : mrel le rm s x -> mrel le rm s (updl x r f).
  Proof. apply mrel_mgrs_eq, mgrs_updl. Qed.
  Lemma mrel_setl s x r l : mrel le rm s x -> mrel le rm s (setl x r l).
  Proof. apply mrel_mgrs_eq. reflexivity. Qed.
  Lemma mrel_updc s x f : mrel le rm s x -> mrel le rm s (updc x f).
  Proof. apply mrel_mgrs_eq. reflexivity. Qed.
  Lemma mrel_bump s x f : mrel le rm s x -> mrel le rm s (bump f x).
  Proof. apply mrel_mgrs_eq. reflexivity. Qed.

  Lemma mrel_updm_at s x k f :
    (forall m, aget (mgrs x) k = Some m -> Mle le k m (f m)) -> mrel le rm s x -> mrel le rm s (updm x k f).
  Proof.
    intros Hf H k0. rewrite aget_mgrs_updm. specialize (H k0).
    destruct (k =? k0) eqn:E; [|exact H].
    apply N.eqb_eq in E. subst k0.
    destruct (aget (mgrs x) k) as [m1|] eqn:E1; [|exact H].
    cbn [option_map]. unfold orel in *. destruct (aget (mgrs s) k) as [m0|]; [|exact H].
    eapply mc_trans; eauto.
  Qed.

  Lemma mrel_updm s x k f : (forall m, Mle le k m (f m)) -> mrel le rm s x -> mrel le rm s (updm x k f).
  Proof. intros Hf. apply mrel_updm_at. intros; apply Hf. Qed.

  Lemma mrel_remove_mgr s x k : rm = true -> mrel le rm s x -> mrel le rm s (remove_mgr_if_unref x k).
  Proof.
    intros Hrm H. unfold remove_mgr_if_unref. destruct (aget (mgrs x) k) as [m|] eqn:E; auto.
    destruct (m_ref m =? 0); auto.
    intros k0. cbn [mgrs updc set]. rewrite aget_adel. specialize (H k0).
    destruct (k =? k0) eqn:E2; [|exact H].
    apply N.eqb_eq in E2. subst k0. rewrite E in H. unfold orel in *.
    destruct (aget (mgrs s) k); auto.
  Qed.
End MR.

#[export] Hint Resolve mx_ref mx_cur mx_locks mx_wait mx_locked mx_waited mx_refl : rddb.
#[export] Hint Resolve mrel_refl mrel_updl mrel_setl mrel_updc mrel_bump : rddb.
#[export] Hint Resolve mrel_remove_mgr | 2 : rddb.
#[export] Hint Resolve mrel_updm | 2 : rddb.
#[export] Hint Extern 1 (mrel _ _ _ (set _ _ ?x)) => (eapply (mrel_mgrs_eq _ _ _ x); [reflexivity|]) : rddb.
#[export] Hint Extern 1 (mrel _ _ _ (if ?c then _ else _)) => destruct c : rddb.
#[export] Hint Extern 1 (mrel _ _ _ (match ?c with _ => _ end)) => destruct c : rddb.

Ltac rd := eauto 80 with rddb.

Section MR2.
  Variable le : N -> mgr -> mgr -> Prop.
  Variable rm : bool.
  Hypothesis HL : mcond le.

  Lemma mrel_free_lock s x r : mrel le rm s x -> mrel le rm s (free_lock x r).
  Proof. intros H. unfold free_lock. destruct (aget (store x) r); rd. Qed.
  Hint Resolve mrel_free_lock : rddb.

  Lemma mrel_unref s x r : mrel le rm s x -> mrel le rm s (unref x r).
  Proof. intros H. unfold unref. destruct (aget (store x) r); rd. Qed.
  Hint Resolve mrel_unref : rddb.

  Lemma mrel_hq_compact items : forall s x x' kept,
    hq_compact x items = (x', kept) -> mrel le rm s x -> mrel le rm s x'.
  Proof.
    induction items as [|r rest IH]; intros s x x' kept H Hs; simpl in H.
    - inv_tuple H. auto.
    - destruct (0 <? l_locked (getl x r)).
      + destruct (hq_compact x rest) as [x1 k1] eqn:E. inv_tuple H. eauto.
      + eapply IH; [exact H|]. rd.
  Qed.

  Lemma mrel_hq_push s x q r x' q' : hq_push x q r = (x', q') -> mrel le rm s x -> mrel le rm s x'.
  Proof.
    intros H Hs. unfold hq_push in H. repeat (split_hyp H); inv_tuple H; auto.
    all: eapply mrel_hq_compact; eauto.
  Qed.

  Lemma mrel_promote fuel : forall s x q x' q' nc,
    promote fuel x q = (x', q', nc) -> mrel le rm s x -> mrel le rm s x'.
  Proof.
    induction fuel as [|f IH]; intros s x q x' q' nc H Hs; simpl in H.
    - inv_tuple H. auto.
    - destruct (hq_pop q) as [[r|] q1]; [|inv_tuple H; auto].
      destruct (0 <? l_locked (getl x r)); [inv_tuple H; auto|].
      eapply IH; [exact H|]. rd.
  Qed.

  Lemma mrel_drop_dead_heads fuel : forall s x q x' q',
    drop_dead_heads fuel x q = (x', q') -> mrel le rm s x -> mrel le rm s x'.
  Proof.
    induction fuel as [|f IH]; intros s x q x' q' H Hs; simpl in H.
    - inv_tuple H. auto.
    - destruct (hq_head q) as [r|]; [|inv_tuple H; auto].
      destruct (0 <? l_locked (getl x r)); [inv_tuple H; auto|].
      destruct (hq_pop q) as [o q1]. eapply IH; [exact H|]. rd.
  Qed.

  Lemma mrel_remove_lock s x k r : mrel le rm s x -> mrel le rm s (remove_lock x k r).
  Proof.
    intros Hs. unfold remove_lock. cbv zeta.
    match goal with |- mrel _ _ _ (if ?c then _ else _) => destruct c end.
    - destruct (m_locks (getm _ k)) as [q|]; [|rd].
      destruct (promote _ _ q) as [[x1 q1] nc] eqn:E.
      apply mrel_updm; [auto|rd|]. eapply mrel_promote; [exact E|]. rd.
    - destruct (m_locks (getm _ k)) as [q|]; [|rd].
      destruct (drop_dead_heads _ _ _) as [x1 q1] eqn:E.
      apply mrel_updm; [auto|rd|]. eapply mrel_drop_dead_heads; [exact E|]. rd.
  Qed.

  Lemma mrel_wq_compact items : forall s x x' kept,
    wq_compact x items = (x', kept) -> mrel le rm s x -> mrel le rm s x'.
  Proof.
    induction items as [|r rest IH]; intros s x x' kept H Hs; simpl in H.
    - inv_tuple H. auto.
    - destruct (dead_waiter (getl x r)).
      + eapply IH; [exact H|]. rd.
      + destruct (wq_compact x rest) as [x1 k1] eqn:E. inv_tuple H. eauto.
  Qed.

  Lemma mrel_wq_push s x q r x' q' : wq_push x q r = (x', q') -> mrel le rm s x -> mrel le rm s x'.
  Proof.
    intros H Hs. unfold wq_push in H. repeat (split_hyp H); inv_tuple H; auto.
    all: eapply mrel_wq_compact; eauto.
  Qed.

  Lemma mrel_add_wait_lock s x k r :
    mcond_wait le -> mcond_waited le -> mrel le rm s x -> mrel le rm s (add_wait_lock x k r).
  Proof.
    intros Hw Hwd Hs. unfold add_wait_lock. cbv zeta.
    destruct (wq_push x _ r) as [x1 q1] eqn:E.
    apply mrel_updm; [auto|rd|]. apply mrel_updl; auto. eapply mrel_wq_push; eauto.
  Qed.

  Lemma mrel_get_wait_loop fuel : forall s x q x' q' res,
    get_wait_loop fuel x q = (x', q', res) -> mrel le rm s x -> mrel le rm s x'.
  Proof.
    induction fuel as [|f IH]; intros s x q x' q' res H Hs; simpl in H.
    - inv_tuple H. auto.
    - destruct (wq_head q) as [r|]; [|inv_tuple H; auto].
      destruct (dead_waiter (getl x r)); [|inv_tuple H; auto].
      eapply IH; [exact H|]. rd.
  Qed.

  Lemma mrel_get_wait_lock s x k x' res :
    mcond_wait le -> get_wait_lock x k = (x', res) -> mrel le rm s x -> mrel le rm s x'.
  Proof.
    intros Hw H Hs. unfold get_wait_lock in H.
    destruct (m_wait (getm x k)) as [q|]; [|inv_tuple H; auto].
    destruct (get_wait_loop _ x q) as [[x1 q1] r1] eqn:E. inv_tuple H.
    apply mrel_updm; [auto|rd|]. eapply mrel_get_wait_loop; eauto.
  Qed.

  Lemma getm_some x k m : aget (mgrs x) k = Some m -> getm x k = m.
  Proof. unfold getm. intros ->. reflexivity. Qed.

  Lemma mrel_push_lock_aof s x k r fl x' ev :
    mcond_mark le k -> push_lock_aof x k r fl = (x', ev) -> mrel le rm s x -> mrel le rm s x'.
  Proof.
    intros Hm H Hs. unfold push_lock_aof in H.
    destruct (negb (leader x)); [inv_tuple H; auto|].
    destruct (has _ LOCK_FLAG_FROM_AOF); [inv_tuple H; rd|].
    cbv zeta in H.
    destruct (aof_lock_data true (m_data (getm x k)) (l_data (getl x r))) as [[dat cur'] ld'] eqn:E.
    inv_tuple H. apply mrel_updl; auto. apply mrel_updl; auto.
    apply mrel_updm_at; auto. intros m Hx.
    replace cur' with (snd (fst (aof_lock_data true (m_data m) (l_data (getl x r))))).
    - apply Hm.
    - rewrite <- (getm_some x k m Hx), E. reflexivity.
  Qed.

  Lemma mrel_push_unlock_aof s x k r lc uc b fl x' ev :
    mcond_mark le k -> push_unlock_aof x k r lc uc b fl = (x', ev) -> mrel le rm s x -> mrel le rm s x'.
  Proof.
    intros Hm H Hs. unfold push_unlock_aof in H.
    destruct (negb (leader x)); [inv_tuple H; auto|].
    match type of H with (if ?c then _ else _) = _ => destruct c end; [inv_tuple H; rd|].
    cbv zeta in H.
    destruct (aof_lock_data false (m_data (getm x k)) (l_data (getl x r))) as [[dat cur'] ld'] eqn:E.
    inv_tuple H. apply mrel_updl; auto. apply mrel_updl; auto.
    apply mrel_updm_at; auto. intros m Hx.
    replace cur' with (snd (fst (aof_lock_data false (m_data m) (l_data (getl x r))))).
    - apply Hm.
    - rewrite <- (getm_some x k m Hx), E. reflexivity.
  Qed.

  Lemma mrel_repeat_push_lock_aof n : forall s x k r x' ev,
    mcond_mark le k -> repeat_push_lock_aof n x k r = (x', ev) -> mrel le rm s x -> mrel le rm s x'.
  Proof.
    induction n as [|n IH]; intros s x k r x' ev Hm H Hs; simpl in H.
    - inv_tuple H. auto.
    - destruct (push_lock_aof x k r 0) as [x1 e1] eqn:E1.
      destruct (repeat_push_lock_aof n x1 k r) as [x2 e2] eqn:E2. inv_tuple H.
      eapply IH; [exact Hm|exact E2|]. eapply mrel_push_lock_aof; eauto.
  Qed.

  Lemma mrel_add_timeout s x r : mrel le rm s x -> mrel le rm s (add_timeout x r).
  Proof. intros Hs. unfold add_timeout. cbv zeta. rd. Qed.

  Lemma mrel_remove_long_timeout s x r : mrel le rm s x -> mrel le rm s (remove_long_timeout x r).
  Proof. intros Hs. unfold remove_long_timeout. cbv zeta. rd. Qed.

  Lemma mrel_remove_long_expried s x r eT : mrel le rm s x -> mrel le rm s (remove_long_expried x r eT).
  Proof. intros Hs. unfold remove_long_expried. rd. Qed.

  (* AddExpried pushes log records only when the record is not yet logged and its aofTime has passed *)
  Lemma mrel_add_expried s x k r x' ev :
    mcond_mark le k -> add_expried x k r = (x', ev) -> mrel le rm s x -> mrel le rm s x'.
  Proof.
    intros Hm H Hs. unfold add_expried in H. cbv zeta in H.
    match type of H with (if ?c then _ else _) = _ => destruct c end.
    - eapply mrel_repeat_push_lock_aof; [exact Hm|exact H|]. rd.
    - inv_tuple H. rd.
  Qed.

  Lemma mrel_new_lock s x k conn c x' r : new_lock x k conn c = (x', r) -> mrel le rm s x -> mrel le rm s x'.
  Proof. intros H Hs. unfold new_lock in H. inv_tuple H. rd. Qed.

  Lemma mrel_add_lock s x k r : mrel le rm s x -> mrel le rm s (add_lock x k r).
  Proof.
    intros Hs. unfold add_lock. cbv zeta.
    destruct (m_cur (getm x k)); [|rd].
    destruct (hq_push _ _ r) as [x1 q1] eqn:E.
    apply mrel_updm; [auto|rd|]. eapply mrel_hq_push; [exact E|]. rd.
  Qed.

  Lemma mrel_update_locked_lock s x k r c : mrel le rm s x -> mrel le rm s (update_locked_lock x k r c).
  Proof. intros Hs. unfold update_locked_lock. rd. Qed.

  Lemma mrel_update_and_rearm s x k r c x' ev :
    mcond_mark le k -> update_and_rearm x k r c = (x', ev) -> mrel le rm s x -> mrel le rm s x'.
  Proof.
    intros Hm H Hs. unfold update_and_rearm in H. cbv zeta in H.
    destruct (l_long (getl x r)); [|inv_tuple H; apply mrel_update_locked_lock; auto].
    destruct (negb (has (c_eflag c) EF_MILLISECOND)); [|inv_tuple H; apply mrel_update_locked_lock; auto].
    match type of H with (if ?c then _ else _) = _ => destruct c end;
      [|inv_tuple H; apply mrel_update_locked_lock; auto].
    destruct (add_expried _ k r) as [x1 e1] eqn:E. inv_tuple H.
    apply mrel_updl; auto. eapply mrel_add_expried; [exact Hm|exact E|].
    apply mrel_remove_long_expried; auto; try (apply mrel_update_locked_lock; auto).
  Qed.
End MR2.

#[export] Hint Resolve mrel_free_lock mrel_unref mrel_remove_lock mrel_add_wait_lock mrel_add_timeout
  mrel_remove_long_timeout mrel_remove_long_expried mrel_add_lock mrel_update_locked_lock : rddb.

(* equation-form lemmas, used on variables bound by a destructed let *)
Ltac rd_eq :=
  match goal with
  | E : hq_push _ _ _ = (?y, _) |- mrel _ _ _ ?y => eapply mrel_hq_push; [|exact E|]
  | E : wq_push _ _ _ = (?y, _) |- mrel _ _ _ ?y => eapply mrel_wq_push; [|exact E|]
  | E : get_wait_lock _ _ = (?y, _) |- mrel _ _ _ ?y => eapply mrel_get_wait_lock; [| |exact E|]
  | E : push_lock_aof _ _ _ _ = (?y, _) |- mrel _ _ _ ?y => eapply mrel_push_lock_aof; [| |exact E|]
  | E : push_unlock_aof _ _ _ _ _ _ _ = (?y, _) |- mrel _ _ _ ?y => eapply mrel_push_unlock_aof; [| |exact E|]
  | E : add_expried _ _ _ = (?y, _) |- mrel _ _ _ ?y => eapply mrel_add_expried; [| |exact E|]
  | E : new_lock _ _ _ _ = (?y, _) |- mrel _ _ _ ?y => eapply mrel_new_lock; [|exact E|]
  | E : update_and_rearm _ _ _ _ = (?y, _) |- mrel _ _ _ ?y => eapply mrel_update_and_rearm; [| |exact E|]
  end.
#[export] Hint Extern 1 (mrel _ _ _ ?y) => is_var y; rd_eq : rddb.

(* ------------------------------------------------------------------ instances *)
(* (a) nothing the value operation reads changes: value, locked, waited (structural helpers: records, queues) *)
Definition le_core (k : N) (m m' : mgr) : Prop :=
  m_data m' = m_data m /\ m_locked m' = m_locked m /\ m_waited m' = m_waited m.
Lemma mcond_le_core : mcond le_core.
Proof. split; unfold Mle, le_core; intros; cbn; intuition congruence. Qed.
Lemma le_core_wait : mcond_wait le_core.
Proof. intros k m f. unfold Mle, le_core. cbn. auto. Qed.

(* (b) the stored value is exactly the old one *)
Definition le_data (k : N) (m m' : mgr) : Prop := m_data m' = m_data m.
Lemma mcond_le_data : mcond le_data.
Proof. split; unfold Mle, le_data; intros; cbn; congruence. Qed.
Lemma le_data_wait : mcond_wait le_data. Proof. intros k m f. reflexivity. Qed.
Lemma le_data_locked : mcond_locked le_data. Proof. intros k m f. reflexivity. Qed.
Lemma le_data_waited : mcond_waited le_data. Proof. intros k m f. reflexivity. Qed.

(* (c) exactly the old one, except that key k0's value may get the isAof bit *)
Definition le_mark (k0 k : N) (m m' : mgr) : Prop :=
  if k =? k0 then aofle (m_data m) (m_data m') else m_data m' = m_data m.
Lemma mcond_le_mark k0 : mcond (le_mark k0).
Proof.
  split; unfold Mle, le_mark; intros k; destruct (k =? k0); intros; cbn;
    try apply aofle_refl; try congruence.
  eapply aofle_trans; eauto.
Qed.
Lemma le_mark_wait k0 : mcond_wait (le_mark k0).
Proof. intros k m f. unfold Mle, le_mark. destruct (k =? k0); cbn; auto using aofle_refl. Qed.
Lemma le_mark_locked k0 : mcond_locked (le_mark k0).
Proof. intros k m f. unfold Mle, le_mark. destruct (k =? k0); cbn; auto using aofle_refl. Qed.
Lemma le_mark_waited k0 : mcond_waited (le_mark k0).
Proof. intros k m f. unfold Mle, le_mark. destruct (k =? k0); cbn; auto using aofle_refl. Qed.
Lemma le_mark_mark k0 : mcond_mark (le_mark k0) k0.
Proof. intros m b ld. unfold Mle, le_mark. rewrite N.eqb_refl. cbn. apply aof_lock_data_aofle. Qed.

#[export] Hint Resolve mcond_le_core le_core_wait mcond_le_data le_data_wait le_data_locked le_data_waited
  mcond_le_mark le_mark_wait le_mark_locked le_mark_waited le_mark_mark : rddb.

(* le_data implies le_mark *)
Lemma mrel_data_mark k0 rm s x : mrel le_data rm s x -> mrel (le_mark k0) rm s x.
Proof.
  intros H k. specialize (H k). unfold orel, Mle, le_data, le_mark in *.
  destruct (aget (mgrs s) k), (aget (mgrs x) k); auto.
  destruct (k =? k0); auto. left. exact H.
Qed.
Lemma mrel_core_data s x : mrel le_core false s x -> mrel le_data false s x.
Proof.
  intros H k. specialize (H k). unfold orel, Mle, le_data, le_core in *.
  destruct (aget (mgrs s) k), (aget (mgrs x) k); auto. tauto.
Qed.
Lemma mrel_rm_weaken le s x : mrel le false s x -> mrel le true s x.
Proof.
  intros H k. specialize (H k). unfold orel in *.
  destruct (aget (mgrs s) k), (aget (mgrs x) k); auto.
Qed.

Lemma mrel_trans le rm s x y : mcond le -> mrel le rm s x -> mrel le rm x y -> mrel le rm s y.
Proof.
  intros HL H1 H2 k. specialize (H1 k). specialize (H2 k). unfold orel in *.
  destruct (aget (mgrs s) k), (aget (mgrs x) k), (aget (mgrs y) k); auto; try contradiction.
  eapply mc_trans; eauto.
Qed.

(* ------------------------------------------------------------------ pointwise readings *)
Lemma mrel_core_getm s x k : mrel le_core false s x ->
  gd x k = gd s k /\ m_locked (getm x k) = m_locked (getm s k) /\ m_waited (getm x k) = m_waited (getm s k).
Proof.
  intros H. specialize (H k). unfold gd, getm, orel, Mle, le_core in *.
  destruct (aget (mgrs s) k), (aget (mgrs x) k); auto; try contradiction; discriminate.
Qed.
Lemma mrel_core_gd s x k : mrel le_core false s x -> gd x k = gd s k.
Proof. intros H. apply mrel_core_getm, H. Qed.
Lemma mrel_core_data_of s x k : mrel le_core false s x -> data_of x k = data_of s k.
Proof. intros H. rewrite !data_of_gd. f_equal. apply mrel_core_gd, H. Qed.
Lemma mrel_false_exists le s x k m : mrel le false s x -> aget (mgrs s) k = Some m -> exists m', aget (mgrs x) k = Some m'.
Proof.
  intros H Hm. specialize (H k). rewrite Hm in H. unfold orel in H.
  destruct (aget (mgrs x) k); eauto. discriminate.
Qed.
Lemma mrel_back le rm s x k m' :
  mrel le rm s x -> aget (mgrs x) k = Some m' -> exists m, aget (mgrs s) k = Some m /\ le k m m'.
Proof.
  intros H Hm. specialize (H k). rewrite Hm in H. unfold orel in H.
  destruct (aget (mgrs s) k); eauto. contradiction.
Qed.

(* managers that exist before and after keep their value *)
Lemma mrel_data_keeps rm s x k m m' :
  mrel le_data rm s x -> aget (mgrs s) k = Some m -> aget (mgrs x) k = Some m' -> m_data m' = m_data m.
Proof. intros H Hm Hm'. specialize (H k). rewrite Hm, Hm' in H. exact H. Qed.

Lemma mrel_mark_keeps k0 rm s x k m m' :
  mrel (le_mark k0) rm s x -> aget (mgrs s) k = Some m -> aget (mgrs x) k = Some m' ->
  (k <> k0 -> m_data m' = m_data m) /\ (k = k0 -> aofle (m_data m) (m_data m')).
Proof.
  intros H Hm Hm'. specialize (H k). rewrite Hm, Hm' in H. unfold orel, Mle, le_mark in H.
  destruct (k =? k0) eqn:E.
  - apply N.eqb_eq in E. split; [congruence|auto].
  - apply N.eqb_neq in E. split; [auto|congruence].
Qed.
