(* C03, part 5 (completeness): the invariant "every issued request has a terminal reply or is a live record", its
   preservation, and the theorem at drained states. *)
From Coq Require Import String ZifyN ZifyBool ZifyNat.
From Slock Require Import Engine.Types Engine.Queues Engine.Timers Engine.Engine Engine.Engine2
  Engine.ReplyBase Engine.ReplyLocal Engine.ReplyInv Engine.ReplyLive.
Open Scope N_scope.

(* ------------------------------------------------------------------ sweeps: no live record is dropped *)
Lemma sweep_t_slot_pl D E W fuel : forall s slot nowv due s' due',
  sweep_t_slot fuel s slot nowv due = (s', due') -> plx D E W s s'.
Proof.
  induction fuel as [|f IH]; cbn; intros s slot nowv due s' due' H; [inv H; apply plx_refl|].
  destruct (wheel_get (twheel s) slot) as [|r rest]; [inv H; apply plx_refl|].
  set (s1 := s <| twheel := aset (twheel s) slot rest |>) in *.
  assert (P1 : plx D E W s s1) by (subst s1; plx_r).
  assert (S1 : store s1 = store s) by reflexivity.
  destruct (aget (store s) r) as [l|] eqn:El; [|inv H; auto].
  assert (El1 : aget (store s1) r = Some l) by (rewrite S1; auto).
  assert (G : getl s1 r = l) by (apply getl_some; auto). rewrite ?G in H.
  destruct (negb (l_timeouted l)) eqn:Ht.
  - destruct (nowv <? l_tT l)%Z.
    + apply IH in H. eapply plx_trans; [|exact H]. eapply plx_trans; [exact P1|]. plx_x.
    + apply IH in H. eapply plx_trans; eauto.
  - apply IH in H. eapply plx_trans; [|exact H]. eapply plx_trans; [exact P1|].
    assert (D1 : dead s1 r) by (unfold dead; rewrite G; apply negb_false_iff in Ht; exact Ht).
    plx_x; apply dead_dropok; exact D1.
Qed.

Lemma sweep_long_pl D E W items : forall s is_t due s' due',
  sweep_long s items is_t due = (s', due') -> (is_t = false -> alldead s items) -> plx D E W s s'.
Proof.
  induction items as [|r rest IH]; cbn; intros s is_t due s' due' H A; [inv H; apply plx_refl|].
  set (s1 := updl s r (fun l => l <| l_long := false |>)) in *.
  assert (P1 : plx D E W s s1) by (subst s1; plx_r).
  assert (K1 : keep s s1) by (subst s1; keep_l).
  assert (A1 : is_t = false -> alldead s1 rest).
  { intros Hi x Hx. eapply dead_keep; [exact K1|]. apply A; auto. right; auto. }
  destruct (negb _) eqn:Hn.
  - apply IH in H; auto. eapply plx_trans; eauto.
  - assert (D1 : dead s1 r).
    { destruct is_t.
      - apply negb_false_iff in Hn. exact Hn.
      - eapply dead_keep; [exact K1|]. apply A; auto. left; auto. }
    apply IH in H.
    + eapply plx_trans; [|exact H]. eapply plx_trans; [exact P1|]. plx_x; apply dead_dropok; exact D1.
    + intros Hi x Hx. eapply dead_keep; [|apply A1; eauto]. keep_x.
Qed.

Lemma collect_timeouts_pl D E W s t nowv s' due : collect_timeouts s t nowv = (s', due) -> plx D E W s s'.
Proof.
  unfold collect_timeouts. intros H.
  destruct (sweep_t_slot _ s (slot_of t) nowv []) as [s1 d1] eqn:E1. apply (sweep_t_slot_pl D E W) in E1.
  destruct (aget (tlong s1) (lkey t)) as [items|]; [|inv H; auto].
  apply (sweep_long_pl D E W) in H; [|discriminate]. eapply plx_trans; [exact E1|]. eapply plx_trans; [|exact H]. plx_r.
Qed.

Definition eok (s : db) : Prop := forall x, eref s x -> good s x.
Definition lok (s : db) (l : list ref) : Prop := forall x, In x l -> good s x.
Definition TT : ref -> Prop := fun _ => True.

Lemma good_keep s s' x : keep s s' -> good s x -> good s' x.
Proof. intros K [Hd Hn]. split; [eapply dead_keep; eauto|]. assert (X := keep_n _ _ K). lia. Qed.
Lemma lok_keep s s' l : keep s s' -> lok s l -> lok s' l.
Proof. intros K L x Hx. eapply good_keep; eauto. Qed.
Lemma eok_keep_sub s s' : keep s s' -> (forall x, eref s' x -> eref s x) -> eok s -> eok s'.
Proof. intros K Hs Ek x Hx. eapply good_keep; eauto. Qed.

Lemma lok_app s a b : lok s a -> lok s b -> lok s (a ++ b).
Proof. intros A B x Hx. apply in_app_iff in Hx. destruct Hx; auto. Qed.

Lemma eref_pop_ewheel s slot r rest x :
  wheel_get (ewheel s) slot = r :: rest -> eref (s <| ewheel := aset (ewheel s) slot rest |>) x -> eref s x.
Proof.
  intros Hw [Hx|Hx]; [|right; exact Hx]. left. cbn [ewheel] in Hx. apply wrefs_aset in Hx. destruct Hx as [Hx|Hx]; auto.
  eapply wheel_get_in. rewrite Hw. right. exact Hx.
Qed.

Lemma sweep_e_slot_pl D W fuel : forall s slot nowv due ev s' due' ev',
  sweep_e_slot fuel s slot nowv due ev = (s', due', ev') -> eok s -> lok s due ->
  plx D TT W s s' /\ eok s' /\ lok s' due'.
Proof.
  induction fuel as [|f IH]; cbn; intros s slot nowv due ev s' due' ev' H Ek Lk; [inv H; split; [apply plx_refl|auto]|].
  destruct (wheel_get (ewheel s) slot) as [|r rest] eqn:Hw; [inv H; split; [apply plx_refl|auto]|].
  set (s1 := s <| ewheel := aset (ewheel s) slot rest |>) in *.
  assert (K1 : keep s s1) by (subst s1; keep_x).
  assert (Es1 : forall x, eref s1 x -> eref s x) by (intros x; subst s1; apply eref_pop_ewheel with (r := r); auto).
  assert (P1 : plx D TT W s s1).
  { subst s1. apply plx_r_ewheel; [|apply plx_refl]. intros y Hy. left. exact I. }
  assert (Ek1 : eok s1) by (eapply eok_keep_sub; eauto).
  assert (Lk1 : lok s1 due) by (eapply lok_keep; eauto).
  assert (Gr : good s1 r).
  { eapply good_keep; [exact K1|]. apply Ek. left. eapply wheel_get_in. rewrite Hw. left. reflexivity. }
  assert (S1 : store s1 = store s) by reflexivity.
  destruct (aget (store s) r) as [l|] eqn:El.
  2:{ inv H. split; auto. split; auto. apply lok_app; auto. intros x [<-|[]]. exact Gr. }
  assert (El1 : aget (store s1) r = Some l) by (rewrite S1; auto).
  assert (G : getl s1 r = l) by (apply getl_some; auto). rewrite ?G in H.
  destruct (negb (l_expried l)) eqn:Ht.
  - destruct (nowv <? l_eT l)%Z.
    + set (s2 := updl s1 r (fun l => l <| l_ecc := (l_ecc l + 1) mod 256 |>)) in *.
      assert (K2 : keep s1 s2) by (subst s2; keep_l).
      assert (Es2 : forall x, eref s2 x -> eref s1 x) by (intros x Hx; unfold eref, s2, updl in *; destruct (aget (store s1) r); exact Hx).
      destruct (add_expried s2 (l_key l) r) as [s3 aev] eqn:Ea.
      assert (P3 := plx_add_expried D TT W _ _ _ _ _ Ea I).
      assert (P3' := plx_add_expried D (eq r) W _ _ _ _ _ Ea eq_refl).
      apply add_expried_keep in Ea.
      2:{ unfold s2. rewrite getl_updl_same_l, El1. cbn. apply negb_true_iff in Ht. exact Ht. }
      destruct Ea as [K3 _].
      apply IH in H.
      * destruct H as (P4 & Ek4 & Lk4). split; auto.
        eapply plx_trans; [exact P1|]. eapply plx_trans; [|exact P4]. eapply plx_trans; [|exact P3]. subst s2. plx_r.
      * intros x Hx. destruct (pl_e _ _ _ _ _ P3' _ Hx) as [<-|Hx2].
        -- eapply good_keep; [exact K3|]. eapply good_keep; [exact K2|exact Gr].
        -- eapply good_keep; [exact K3|]. eapply good_keep; [exact K2|]. apply Ek1. auto.
      * eapply lok_keep; [exact K3|]. eapply lok_keep; [exact K2|exact Lk1].
    + apply IH in H; auto.
      * destruct H as (P4 & Ek4 & Lk4). split; auto. eapply plx_trans; eauto.
      * apply lok_app; auto. intros x [<-|[]]. exact Gr.
  - assert (D1 : dead s1 r) by (apply Gr).
    match type of H with sweep_e_slot f ?X _ _ _ _ = _ => assert (K2 : keep s1 X) by keep_x;
      assert (P2F : plx D (fun _ => False) W s1 X) by (plx_x; apply dead_dropok; exact D1) end.
    apply IH in H.
    + destruct H as (P4 & Ek4 & Lk4). split; auto.
      eapply plx_trans; [exact P1|]. eapply plx_trans; [|exact P4].
      eapply plx_weaken; [| | |exact P2F]; auto. intros x [].
    + intros x Hx. destruct (pl_e _ _ _ _ _ P2F _ Hx) as [[]|Hx1]. eapply good_keep; [exact K2|]. apply Ek1; auto.
    + eapply lok_keep; eauto.
Qed.

Lemma sweep_long_lok items : forall s is_t due s' due',
  sweep_long s items is_t due = (s', due') -> lok s items -> lok s due -> lok s' due'.
Proof.
  induction items as [|r rest IH]; cbn; intros s is_t due s' due' H Li Ld; [inv H; auto|].
  set (s1 := updl s r (fun l => l <| l_long := false |>)) in *.
  assert (K1 : keep s s1) by (subst s1; keep_l).
  assert (Li1 : lok s1 rest) by (eapply lok_keep; [exact K1|]; intros x Hx; apply Li; right; auto).
  assert (Gr : good s1 r) by (eapply good_keep; [exact K1|]; apply Li; left; auto).
  destruct (negb _).
  - eapply IH; eauto. apply lok_app; [eapply lok_keep; eauto|]. intros x [<-|[]]. exact Gr.
  - match type of H with sweep_long ?X _ _ _ = _ => assert (K2 : keep s1 X) by keep_x end.
    eapply IH; eauto; eapply lok_keep; eauto. eapply lok_keep; eauto.
Qed.

Lemma collect_expiries_pl D W s t nowv s' due ev :
  collect_expiries s t nowv = (s', due, ev) -> eok s -> plx D TT W s s' /\ eok s' /\ lok s' due.
Proof.
  unfold collect_expiries. intros H Ek.
  destruct (sweep_e_slot _ s (slot_of t) nowv [] []) as [[s1 d1] e1] eqn:E1.
  assert (K1 := proj1 (sweep_e_slot_keep _ _ _ _ _ _ _ _ _ E1)).
  apply (sweep_e_slot_pl D W) in E1; auto; [|intros x []].
  destruct E1 as (P1 & Ek1 & Lk1).
  destruct (aget (elong s1) (lkey t)) as [items|] eqn:Eg; [|inv H; auto].
  destruct (sweep_long _ items false d1) as [s2 d2] eqn:E2. inv H.
  set (s1' := s1 <| elong := adel (elong s1) (lkey t) |>) in *.
  assert (K2 : keep s1 s1') by (subst s1'; keep_x).
  assert (Li : lok s1 items).
  { intros x Hx. apply Ek1. right. apply aget_In in Eg. unfold wrefs. apply in_flat_map. exists (lkey t, items). auto. }
  assert (Es : forall x, eref s1' x -> eref s1 x).
  { intros x [Hx|Hx]; [left; exact Hx|right]. unfold s1' in Hx. cbn [elong] in Hx.
    change (In x (wrefs (adel (elong s1) (lkey t)))) in Hx. eapply wrefs_adel; eauto. }
  assert (K3 := sweep_long_keep _ _ _ _ _ _ E2).
  assert (P3 := sweep_long_pl D TT W _ _ _ _ _ _ E2 ltac:(intros _ x Hx; eapply dead_keep; [exact K2|]; apply Li; auto)).
  split; [|split].
  - eapply plx_trans; [exact P1|]. eapply plx_trans; [|exact P3]. subst s1'. apply plx_r_elong; [|apply plx_refl].
    intros y Hy. left. exact I.
  - intros x Hx. eapply good_keep; [exact K3|]. eapply good_keep; [exact K2|]. apply Ek1. apply Es.
    destruct (pl_e _ _ _ _ _ (sweep_long_pl D (fun _ => False) W _ _ _ _ _ _ E2 ltac:(intros _ y Hy; eapply dead_keep; [exact K2|]; apply Li; auto)) _ Hx) as [[]|]; auto.
  - eapply sweep_long_lok; [exact E2| |]; eapply lok_keep; eauto.
Qed.

(* ------------------------------------------------------------------ the queued request's record is in the store *)
Lemma free_lock_other s r x : x <> r -> aget (store (free_lock s r)) x = aget (store s) x.
Proof.
  intros Hne. unfold free_lock. destruct (aget (store s) r); auto. rewrite store_updm. cbn [store].
  change (aget (adel (store s) r) x = aget (store s) x). rewrite aget_adel.
  destruct (r =? x) eqn:E; auto. apply N.eqb_eq in E. congruence.
Qed.

Lemma unref_other s r x : x <> r -> aget (store (unref s r)) x = aget (store s) x.
Proof.
  intros Hne. unfold unref. destruct (aget (store s) r) eqn:E0; auto.
  assert (X : aget (store (setl s r (l <| l_refc := dec8 (l_refc l) |>))) x = aget (store s) x).
  { rewrite store_setl, aget_aset. destruct (r =? x) eqn:E; auto. apply N.eqb_eq in E. congruence. }
  destruct (_ =? 0); auto. rewrite free_lock_other; auto.
Qed.

Lemma wq_compact_other items x : forall s s' kept, wq_compact s items = (s', kept) -> ~ In x items ->
  aget (store s') x = aget (store s) x.
Proof.
  induction items as [|r rest IH]; cbn; intros s s' kept H Hn; [inv H; auto|].
  destruct (dead_waiter (getl s r)).
  - rewrite (IH _ _ _ H); [|tauto]. apply unref_other. intros ->. tauto.
  - destruct (wq_compact s rest) as [s1 k1] eqn:E0. inv H. eapply IH; eauto.
Qed.

Lemma wq_push_other s q r s' q' x : wq_push s q r = (s', q') -> ~ In x (wq_items q) -> aget (store s') x = aget (store s) x.
Proof.
  unfold wq_push, wq_items. intros H Hn.
  destruct (wq_mode q); try (inv H; reflexivity).
  destruct (wq_cap q =? 0); [inv H; reflexivity|].
  destruct (wq_len q <? wq_cap q); [inv H; reflexivity|].
  destruct (wq_fast q) as [|a rest] eqn:Ef; [inv H; reflexivity|].
  destruct (wq_compact s (a :: rest)) as [s1 kept] eqn:Ec.
  assert (X := wq_compact_other _ x _ _ _ Ec ltac:(intros Hi; apply Hn; apply in_app_iff; auto)).
  destruct (_ <? wq_len q); [inv H; auto|].
  destruct (wq_cap q <=? 128); inv H; auto.
Qed.

Lemma add_wait_lock_new s k r l :
  aget (store s) r = Some l -> ~ wref s r ->
  exists l', aget (store (add_wait_lock s k r)) r = Some l' /\ l_ack l' = l_ack l /\ view_of l' = view_of l.
Proof.
  intros Hl Hw. unfold add_wait_lock.
  match goal with |- context [wq_push s ?q r] => set (q0 := q); destruct (wq_push s q0 r) as [s1 q1] eqn:Ep end.
  assert (Hq0 : ~ In r (wq_items q0)).
  { subst q0. intros Hi. apply Hw. destruct (m_wait (getm s k)) as [q|] eqn:Eq; [|destruct Hi].
    assert (X : In r (wq_items q)).
    { destruct (_ && _); auto. destruct (wq_head q); auto. destruct (_ =? _); auto. apply wq_repush_incl in Hi; auto. }
    eapply getm_wref; eauto. }
  assert (X := wq_push_other _ _ _ _ _ r Ep Hq0). rewrite Hl in X. cbv beta iota zeta.
  eexists. split. rewrite store_updm, aget_store_updl, N.eqb_refl, X; cbn; reflexivity. split; reflexivity.
Qed.

Lemma store_set_tlong s x : store (s <| tlong := x |>) = store s. Proof. reflexivity. Qed.
Lemma store_set_twheel s x : store (s <| twheel := x |>) = store s. Proof. reflexivity. Qed.

Lemma add_timeout_rec s r l :
  aget (store s) r = Some l ->
  exists l', aget (store (add_timeout s r)) r = Some l' /\ l_ack l' = l_ack l /\ l_cmd l' = l_cmd l /\ l_conn l' = l_conn l /\ l_timeouted l' = false.
Proof.
  intros Hl. unfold add_timeout.
  set (s1 := updl s r (fun l => l <| l_timeouted := false |>)).
  assert (H1 : aget (store s1) r = Some (l <| l_timeouted := false |>)) by (subst s1; rewrite aget_store_updl, N.eqb_refl, Hl; reflexivity).
  clearbody s1. destruct (QUEUE_MAX_WAIT <? _).
  - eexists. split; [rewrite store_set_tlong, aget_store_updl, N.eqb_refl, H1; cbn; reflexivity|]. repeat split; reflexivity.
  - eexists. split; [rewrite aget_store_updl, N.eqb_refl, store_set_twheel, H1; cbn; reflexivity|]. repeat split; reflexivity.
Qed.

Lemma wref_same s s' x : mgrs s' = mgrs s -> wref s' x -> wref s x.
Proof. intros E (k & m & q & H & Hq & Hi). rewrite E in H. exists k, m, q. auto. Qed.

Lemma queued_present S0 k conn c s1 r :
  new_lock S0 k conn c = (s1, r) -> (forall x, wref S0 x -> x < next S0) ->
  exists l', aget (store (updl (add_timeout (add_wait_lock s1 k r) r) r (fun l => l <| l_refc := add8 (l_refc l) 1 |>))) r = Some l'
             /\ l_ack l' = 255 /\ l_cmd l' = c /\ l_conn l' = conn /\ l_timeouted l' = false.
Proof.
  intros Hn Hw. destruct (new_lock_tr _ _ _ _ _ _ Hn) as (Hr & _ & P & V & A & _ & Hm).
  assert (Hl : aget (store s1) r = Some (getl s1 r)).
  { unfold getl. unfold present in P. destruct (aget (store s1) r); [reflexivity|congruence]. }
  assert (Hnw : ~ wref s1 r).
  { intros X. assert (Y : wref S0 r).
    { destruct X as (k0 & m & q & H & Hq & Hi). rewrite Hm, aget_mgrs_updm in H. destruct (k =? k0) eqn:Ek.
      - apply N.eqb_eq in Ek. subst. destruct (aget (mgrs S0) k0) as [m1|] eqn:E1; [|discriminate]. inv H. exists k0, m1, q. auto.
      - exists k0, m, q. auto. }
    apply Hw in Y. lia. }
  destruct (add_wait_lock_new _ k _ _ Hl Hnw) as (l1 & H1 & A1 & V1).
  destruct (add_timeout_rec _ _ _ H1) as (l2 & H2 & A2 & C2 & N2 & T2).
  eexists. split; [rewrite aget_store_updl, N.eqb_refl, H2; cbn; reflexivity|].
  apply view_eq_inv in V1. destruct V1 as (Vc & Vn & _). unfold view_of in V. inv V.
  repeat split; cbn; congruence.
Qed.

Lemma update_and_rearm_norep' s k r c s' ev : update_and_rearm s k r c = (s', ev) -> rinfos ev = [].
Proof. apply update_and_rearm_norep. Qed.

Lemma lock_step_queued s conn c s' ev w :
  lock_step s conn c = (s', ev, w) -> core_cmd c -> rinfos ev = [] -> (forall x, wref s x -> x < next s) ->
  exists l', aget (store s') (next s) = Some l' /\ l_ack l' = 255 /\ c_req (l_cmd l') = c_req c /\ l_timeouted l' = false.
Proof.
  intros H Hcore HR Hw. assert (Hcore0 := Hcore). destruct Hcore as (Hack & Hms & Hems & Hdata).
  unfold lock_step in H. cbv beta zeta in H.
  set (k := c_key c) in *.
  match type of H with context [if has (c_flag c) LOCK_FLAG_SHOW then ?a else c] =>
    set (c1 := if has (c_flag c) LOCK_FLAG_SHOW then a else c) in H end.
  assert (Hc1 : c_req c1 = c_req c /\ c_tflag c1 = c_tflag c /\ c_eflag c1 = c_eflag c /\ c_data c1 = c_data c
                /\ c_key c1 = c_key c).
  { subst c1. destruct (has (c_flag c) LOCK_FLAG_SHOW); cbn; auto. }
  clearbody c1. destruct Hc1 as (Hreq1 & Htf1 & Hef1 & Hd1 & Hk1).
  destruct (aget (mgrs s) k) as [m0|] eqn:Hmgr.
  all: cbv iota in H.
  all: brk.
  all: repeat match goal with HP : process_data _ _ _ _ _ = _ |- _ =>
         rewrite process_data_nodata in HP by congruence; injs end.
  all: try congruence.
  all: try solve [exfalso; match goal with HB : (0 <? m_locked (getm (bump _ (setm _ _ new_mgr)) _)) = true |- _ =>
         rewrite getm_bump_setm_new in HB; vm_compute in HB; discriminate HB end].
  all: try solve [exfalso; rewrite ?Htf1 in *; rewrite ?Hef1 in *;
         repeat match goal with HB : _ && _ = true |- _ => apply andb_true_iff in HB; destruct HB end; congruence].
  all: try solve [exfalso; revert HR; norep2;
         repeat match goal with HU : update_and_rearm _ _ _ _ = (_, ?aev) |- context [rinfos ?aev] =>
           rewrite (update_and_rearm_norep _ _ _ _ _ _ HU) end; cbn; discriminate].
  all: match goal with Hn : new_lock ?S0 _ _ ?c' = (?s1, ?r) |- _ =>
         destruct (queued_present _ _ _ _ _ _ Hn) as (l' & Hl' & A & C & Cn & T);
         [ intros x Hx; apply Hw; revert Hx; clear;
           first [ exact (fun h => h)
                 | intros (k0 & m & q & Hm & Hq & Hi); change (mgrs (bump _ (setm s k new_mgr))) with (aset (mgrs s) k new_mgr) in Hm;
                   rewrite aget_aset in Hm; destruct (k =? k0); [inv Hm; discriminate|exists k0, m, q; auto] ]
         | destruct (new_lock_tr _ _ _ _ _ _ Hn) as (Hr & _);
           exists l'; split; [rewrite <- Hr at 1; exact Hl'|]; split; [exact A|]; split; [rewrite C; first [exact Hreq1|reflexivity]|exact T] ] end.
Qed.

(* ------------------------------------------------------------------ the completeness invariant *)
Definition has_term (q : N) (H : list rinfo) : Prop := exists i, In i H /\ i_req i = q /\ i_res i <> R_EXPRIED.

Record InvL (I : N -> N -> Prop) (H : list rinfo) (s : db) : Prop := mkInvL {
  il_inv : Inv I H s;
  il_ack : forall r l, aget (store s) r = Some l -> l_timeouted l = false -> l_ack l = 255;
  il_eok : eok s;
  il_wok : forall x, wref s x -> x < next s;
  il_cmpl : forall conn q, I conn q ->
            has_term q H \/ exists r l, aget (store s) r = Some l /\ c_req (l_cmd l) = q /\ l_timeouted l = false
}.

Lemma invl_init I t0 a : (forall c q, ~ I c q) -> InvL I [] (init_db t0 a).
Proof.
  intros HI. split.
  - apply inv_init.
  - cbn. discriminate.
  - intros x [Hx|Hx]; destruct Hx.
  - intros x (k & m & q & Hm & _). discriminate.
  - intros conn q Hq. exfalso. eapply HI; eauto.
Qed.

Lemma inv_hdead I H s : Inv I H s -> hdead s.
Proof. intros W x Hx. apply (inv_href _ _ _ W). auto. Qed.

Record offr (r : ref) (s s' : db) : Prop := mkOffr {
  of_v : forall r' l', aget (store s') r' = Some l' -> r' <> r ->
         exists l, aget (store s) r' = Some l /\ l_cmd l' = l_cmd l /\ l_timeouted l' = l_timeouted l;
  of_n : next s <= next s'
}.

Lemma chg1_offr s s' r V : chg1 s s' r V -> offr r s s'.
Proof.
  intros C. split; [|apply (chg_n _ _ _ _ C)]. intros r' l' Hl' Hne.
  destruct (chg_cases _ _ _ _ _ _ C Hl') as [[-> _]|[_ (l & Hl & Ev)]]; [congruence|].
  apply view_eq_inv in Ev. exists l. tauto.
Qed.

Lemma keepx_offr s s' r : keepx s s' -> offr r s s'.
Proof.
  intros [v h n]. split; auto. intros r' l' Hl' _. destruct (v _ _ Hl') as (l & Hl & (E1 & _ & E3 & _)).
  exists l. unfold view_of, v_cmd, v_to in *. cbn in *. auto.
Qed.

Lemma offr_good r s s' x : offr r s s' -> x <> r -> good s x -> good s' x.
Proof.
  intros [v n] Hne [Hd Hn]. split; [|lia]. unfold dead, getl in *.
  destruct (aget (store s') x) as [l'|] eqn:El; auto. destruct (v _ _ El Hne) as (l & Hl & _ & Et).
  rewrite Hl in Hd. congruence.
Qed.

Lemma has_term_mono q (H H' : list rinfo) : (forall i, In i H -> In i H') -> has_term q H -> has_term q H'.
Proof. intros M (i & Hi & X). exists i. auto. Qed.

Lemma invl_gen (I I' : N -> N -> Prop) H H' s s' r (D E W : ref -> Prop) :
  InvL I H s -> Inv I' H' s' -> offr r s s' -> plx D E W s s' ->
  (forall x, D x -> x = r \/ dead s x) -> (forall x, E x -> good s' x) -> (forall x, W x -> x < next s') ->
  (forall l', aget (store s') r = Some l' -> l_timeouted l' = false -> l_ack l' = 255) ->
  (eref s r -> good s' r) ->
  (forall i, In i H -> In i H') ->
  (forall conn q, I' conn q -> I conn q \/ has_term q H'
     \/ (exists l', aget (store s') r = Some l' /\ c_req (l_cmd l') = q /\ l_timeouted l' = false)) ->
  (forall l, aget (store s) r = Some l -> l_timeouted l = false ->
     has_term (c_req (l_cmd l)) H'
     \/ (exists l', aget (store s') r = Some l' /\ l_cmd l' = l_cmd l /\ l_timeouted l' = false)) ->
  InvL I' H' s'.
Proof.
  intros L W' O P HD HE HW Hack Her HH HI Hr.
  assert (PERS : forall r0 l0, aget (store s) r0 = Some l0 -> l_timeouted l0 = false -> r0 <> r ->
                  exists l', aget (store s') r0 = Some l' /\ liveA l' /\ l_cmd l' = l_cmd l0).
  { intros r0 l0 Hl0 Ht0 Hne.
    assert (LA : liveA l0) by (split; auto; eapply il_ack; eauto).
    destruct (pl_p _ _ _ _ _ P _ _ Hl0 LA) as (l' & Hl' & LA').
    - intros Hd. destruct (HD _ Hd) as [->|Hdd]; [congruence|]. eapply liveA_getl; eauto.
    - exists l'. split; auto. split; auto. destruct (of_v _ _ _ O _ _ Hl' Hne) as (l1 & Hl1 & Ec & _). congruence. }
  split.
  - exact W'.
  - intros r' l' Hl' Ht'. destruct (N.eq_dec r' r) as [->|Hne]; [eauto|].
    destruct (of_v _ _ _ O _ _ Hl' Hne) as (l & Hl & Ec & Et).
    destruct (PERS _ _ Hl ltac:(congruence) Hne) as (l'' & Hl'' & [_ LA] & _). congruence.
  - intros x Hx. destruct (pl_e _ _ _ _ _ P _ Hx) as [Hx'|Hx']; auto.
    destruct (N.eq_dec x r) as [->|Hne]; auto. eapply offr_good; eauto. apply (il_eok _ _ _ L). auto.
  - intros x Hx. destruct (pl_w _ _ _ _ _ P _ Hx) as [Hx'|Hx']; auto.
    apply (il_wok _ _ _ L) in Hx'. assert (X := of_n _ _ _ O). lia.
  - intros conn q Hq. destruct (HI _ _ Hq) as [Hq0|[Ht|(l' & A1 & A2 & A3)]]; [|left; auto|right; exists r, l'; auto].
    destruct (il_cmpl _ _ _ L _ _ Hq0) as [Ht|(r0 & l0 & Hl0 & Hq1 & Ht0)].
    + left. eapply has_term_mono; eauto.
    + destruct (N.eq_dec r0 r) as [->|Hne].
      * destruct (Hr _ Hl0 Ht0) as [Ht|(l' & Hl' & Ec & Et)]; [left; congruence|].
        right. exists r, l'. split; auto. split; auto. congruence.
      * destruct (PERS _ _ Hl0 Ht0 Hne) as (l' & Hl' & [LT _] & Ec). right. exists r0, l'. split; auto. split; auto. congruence.
Qed.

(* ------------------------------------------------------------------ instances *)
Lemma good_dead s x : good s x -> dead s x. Proof. intros [H _]; exact H. Qed.

Lemma invl_keep I H s s' (D E W : ref -> Prop) :
  InvL I H s -> keepx s s' -> plx D E W s s' ->
  (forall x, D x -> dead s x) -> (forall x, E x -> good s' x) -> (forall x, W x -> x < next s') -> InvL I H s'.
Proof.
  intros L K P HD HE HW. assert (W' := inv_keepx _ _ _ _ (il_inv _ _ _ L) K).
  apply (invl_gen I I H H s s' (next s') D E W L W'); auto.
  - apply keepx_offr; auto.
  - intros l' Hl'. apply (inv_dom _ _ _ W') in Hl'. lia.
  - intros Hx. apply (il_eok _ _ _ L) in Hx. destruct Hx as [_ Hx]. assert (X := keepx_n _ _ K). lia.
  - intros l Hl. apply (inv_dom _ _ _ (il_inv _ _ _ L)) in Hl. assert (X := keepx_n _ _ K). lia.
Qed.

Lemma invl_own I H s conn q res :
  InvL I H s -> fresh I q -> res <> R_EXPRIED -> InvL (issue I conn q) (H ++ [(conn, q, res)]) s.
Proof.
  intros L F Hres. assert (W' := inv_own_reply _ _ _ conn _ _ (il_inv _ _ _ L) F Hres).
  apply (invl_gen I _ H _ s s (next s) (fun _ => False) (fun _ => False) (fun _ => False) L W').
  - apply keepx_offr. apply keep_keepx, keep_refl.
  - apply plx_refl.
  - intros x [].
  - intros x [].
  - intros x [].
  - intros l' Hl'. apply (inv_dom _ _ _ W') in Hl'. lia.
  - intros Hx. apply (il_eok _ _ _ L) in Hx. destruct Hx as [_ Hx]. lia.
  - intros i Hi. apply in_app_iff. auto.
  - intros c0 q0 [Hq|[-> ->]]; auto. right. left. exists (conn, q, res). split; [apply in_app_iff; right; left; auto|auto].
  - intros l Hl. apply (inv_dom _ _ _ (il_inv _ _ _ L)) in Hl. lia.
Qed.

Lemma invl_answer I H s s' r l V res (D E W : ref -> Prop) :
  InvL I H s -> aget (store s) r = Some l -> l_timeouted l = false -> chg1 s s' r V ->
  (forall v, V v -> v_cmd v = l_cmd l /\ v_conn v = l_conn l /\ v_to v = true
                    /\ (v_ex v = false -> res = R_SUCCED \/ res = R_LOCKED_ERROR)) ->
  res <> R_EXPRIED ->
  plx D E W s s' -> (forall x, D x -> x = r \/ dead s x) -> (forall x, E x -> good s' x) -> (forall x, W x -> x < next s') ->
  InvL I (H ++ [(l_conn l, c_req (l_cmd l), res)]) s'.
Proof.
  intros L Hl Ht C HV Hres P HD HE HW.
  assert (W' := inv_answer _ _ _ _ _ _ _ _ (il_inv _ _ _ L) Hl Ht C HV Hres).
  apply (invl_gen I I H _ s s' r D E W L W'); auto.
  - eapply chg1_offr; eauto.
  - intros l' Hl' Ht'. exfalso. assert (X := chg_v _ _ _ _ C _ _ Hl'). rewrite N.eqb_refl in X.
    destruct (HV _ X) as (_ & _ & E3 & _). unfold view_of, v_to in E3. cbn in E3. congruence.
  - intros Hx. apply (il_eok _ _ _ L) in Hx. destruct Hx as [Hx _]. unfold dead in Hx. rewrite (getl_some _ _ _ Hl) in Hx. congruence.
  - intros i Hi. apply in_app_iff. auto.
  - intros l0 Hl0 _. left. assert (l0 = l) by congruence. subst l0.
    exists (l_conn l, c_req (l_cmd l), res). split; [apply in_app_iff; right; left; auto|auto].
Qed.

Lemma invl_expire I H s s' r l V (D E W : ref -> Prop) :
  InvL I H s -> aget (store s) r = Some l -> l_expried l = false -> chg1 s s' r V ->
  (forall v, V v -> v_cmd v = l_cmd l /\ v_conn v = l_conn l /\ v_to v = l_timeouted l /\ v_ex v = true) ->
  plx D E W s s' -> (forall x, D x -> x = r \/ dead s x) -> (forall x, E x -> good s' x) -> (forall x, W x -> x < next s') ->
  InvL I (H ++ [(l_conn l, c_req (l_cmd l), R_EXPRIED)]) s'.
Proof.
  intros L Hl Hx C HV P HD HE HW.
  assert (W0 := il_inv _ _ _ L).
  assert (Hto : l_timeouted l = true).
  { destruct (l_timeouted l) eqn:E0; auto. rewrite (inv_wait_exp _ _ _ _ _ W0 Hl E0) in Hx. discriminate. }
  assert (W' := inv_expire _ _ _ _ _ _ _ W0 Hl Hx C HV).
  apply (invl_gen I I H _ s s' r D E W L W'); auto.
  - eapply chg1_offr; eauto.
  - intros l' Hl' Ht'. exfalso. assert (X := chg_v _ _ _ _ C _ _ Hl'). rewrite N.eqb_refl in X.
    destruct (HV _ X) as (_ & _ & E3 & _). unfold view_of, v_to in E3. cbn in E3. congruence.
  - intros _. split; [|apply (inv_dom _ _ _ W0) in Hl; assert (X := chg_n _ _ _ _ C); lia].
    unfold dead, getl. destruct (aget (store s') r) as [l'|] eqn:El'; auto.
    assert (X := chg_v _ _ _ _ C _ _ El'). rewrite N.eqb_refl in X.
    destruct (HV _ X) as (_ & _ & E3 & _). unfold view_of, v_to in E3. cbn in E3. congruence.
  - intros i Hi. apply in_app_iff. auto.
  - intros l0 Hl0 Ht0. assert (l0 = l) by congruence. subst l0. congruence.
Qed.

Lemma invl_install_reply I H s s' r V conn q res (D E W : ref -> Prop) :
  InvL I H s -> fresh I q -> chg1 s s' r V -> r < next s' ->
  (forall v, V v -> c_req (v_cmd v) = q /\ core_flags (v_cmd v) /\ v_conn v = conn /\ v_to v = true) ->
  res = R_SUCCED \/ res = R_LOCKED_ERROR ->
  (forall l, aget (store s) r = Some l -> l_timeouted l = true) ->
  plx D E W s s' -> (forall x, D x -> x = r \/ dead s x) -> (forall x, E x -> good s' x) -> (forall x, W x -> x < next s') ->
  InvL (issue I conn q) (H ++ [(conn, q, res)]) s'.
Proof.
  intros L F C Hlt HV Hres Hrd P HD HE HW.
  assert (W' := inv_install_reply _ _ _ _ _ _ _ _ _ (il_inv _ _ _ L) F C Hlt HV Hres).
  apply (invl_gen I _ H _ s s' r D E W L W'); auto.
  - eapply chg1_offr; eauto.
  - intros l' Hl' Ht'. exfalso. assert (X := chg_v _ _ _ _ C _ _ Hl'). rewrite N.eqb_refl in X.
    destruct (HV _ X) as (_ & _ & _ & E3). unfold view_of, v_to in E3. cbn in E3. congruence.
  - intros _. split; auto.
    unfold dead, getl. destruct (aget (store s') r) as [l'|] eqn:El'; auto.
    assert (X := chg_v _ _ _ _ C _ _ El'). rewrite N.eqb_refl in X.
    destruct (HV _ X) as (_ & _ & _ & E3). unfold view_of, v_to in E3. cbn in E3. congruence.
  - intros i Hi. apply in_app_iff. auto.
  - intros c0 q0 [Hq|[-> ->]]; auto. right. left. exists (conn, q, res). split; [apply in_app_iff; right; left; auto|].
    split; auto. cbn. destruct Hres as [-> | ->]; intro X; vm_compute in X; discriminate X.
  - intros l Hl Ht. rewrite (Hrd _ Hl) in Ht. discriminate.
Qed.

Lemma invl_install_wait I H s s' r V conn q (D E W : ref -> Prop) :
  InvL I H s -> fresh I q -> chg1 s s' r V -> r < next s' -> next s <= r ->
  (forall x, href s' x -> href s x) ->
  (forall v, V v -> c_req (v_cmd v) = q /\ core_flags (v_cmd v) /\ v_conn v = conn /\ v_ex v = true) ->
  (exists l', aget (store s') r = Some l' /\ l_ack l' = 255 /\ c_req (l_cmd l') = q /\ l_timeouted l' = false) ->
  plx D E W s s' -> (forall x, D x -> x = r \/ dead s x) -> (forall x, E x -> good s' x) -> (forall x, W x -> x < next s') ->
  InvL (issue I conn q) H s'.
Proof.
  intros L F C Hlt Hge Hh HV (l1 & Hl1 & A1 & Q1 & T1) P HD HE HW.
  assert (W0 := il_inv _ _ _ L).
  assert (W' : Inv (issue I conn q) H s').
  { eapply inv_install_wait; eauto. intros Hx. apply (inv_href _ _ _ W0) in Hx. lia. }
  apply (invl_gen I _ H _ s s' r D E W L W'); auto.
  - eapply chg1_offr; eauto.
  - intros l' Hl' _. congruence.
  - intros Hx. apply (il_eok _ _ _ L) in Hx. destruct Hx as [_ Hx]. lia.
  - intros c0 q0 [Hq|[-> ->]]; auto. right. right. exists l1. auto.
  - intros l Hl. apply (inv_dom _ _ _ W0) in Hl. lia.
Qed.

