(* Run-level expiry theorems (property C06), part 6: the TERMS invariant TI.
   tok l : the deadline stored in l dominates the one computed from l's current command and start time
           (expiry_deadline (l_cmd l) (l_start l) <= l_eT l), unless the command is the "keep the running deadline"
           request (unlimited flag with Expried = 0xffff).
   TI s  : tok l for every stored record that is a live hold (l_expried = false) or carries the un-renew flag.
   AddLock / UpdateLockedLock establish tok with equality (start = now), AddExpried only moves l_eT up (to checkE), the
   non-leader re-arm of doExpried moves it to now + 30 >= the reached deadline.  All lemmas are in right-extension form
   `TI x -> TI (op x)`; no heap invariant is needed except in the wake-up pass (core command of the served waiter). *)
From Coq Require Import String ZifyN ZifyBool ZifyNat.
From Slock Require Import Engine.Types Engine.Queues Engine.Timers Engine.Engine Engine.Engine2 Engine.InvDef Engine.InvBase
  Engine.InvPrims Engine.InvRec Engine.InvWheel Engine.InvQueue Engine.InvQueue2 Engine.InvSteps Engine.InvLockDefs Engine.InvLock
  Engine.InvUnlock Engine.InvSweep Engine.InvMain Engine.InvNext Engine.InvProps.
From Slock Require Import Engine.RunDrainFloor2 Engine.RunDrainFloor5.
From Slock Require Import Engine.LocalBase Engine.LocalWake Engine.TimeBase Engine.TimeExp Engine.TimeRun Engine.TimeEvents Engine.TimeFinal.
From Slock Require Import Engine.RunExpScal Engine.RunExpK Engine.RunExpSteps Engine.RunExpSteps2 Engine.RunExpThm Engine.RunExpRun.
Open Scope N_scope.

Definition keep_terms (c : cmd) : bool := has (c_eflag c) EF_UNLIMITED && negb (c_expried c <? 65535).
Definition tok (l : lockrec) : Prop :=
  keep_terms (l_cmd l) = true \/ (expiry_deadline (l_cmd l) (l_start l) <= l_eT l)%Z.
Definition tcond (l : lockrec) : Prop := l_expried l = false \/ has (c_tflag (l_cmd l)) TF_UNRENEW = true.
Definition TI (s : db) : Prop := forall r l, aget (store s) r = Some l -> tcond l -> tok l.

Definition tsm (l l' : lockrec) : Prop :=
  l_expried l' = l_expried l /\ l_eT l' = l_eT l /\ l_start l' = l_start l /\ l_cmd l' = l_cmd l.

Lemma tok_tsm l l' : tsm l l' -> tok l -> tok l'.
Proof. intros (A & B & C & D). unfold tok. rewrite B, C, D. auto. Qed.
Lemma tcond_tsm l l' : tsm l l' -> tcond l' -> tcond l.
Proof. intros (A & B & C & D). unfold tcond. rewrite A, D. auto. Qed.

Lemma TI_kfr x y : kfr x y -> TI x -> TI y.
Proof.
  intros (_ & _ & F) T r l' G C. destruct (F r l' G) as (l & G0 & (_ & _ & S3 & S4 & _ & S6 & S7)).
  assert (S : tsm l l') by (repeat split; auto). eapply tok_tsm; [exact S|]. apply (T r l G0). eapply tcond_tsm; eauto.
Qed.
Lemma TI_store x y : store y = store x -> TI x -> TI y.
Proof. intros E T r l G. rewrite E in G. eauto. Qed.
Lemma TI_setl x r l' : (tcond l' -> tok l') -> TI x -> TI (setl x r l').
Proof.
  intros H T z l G C. rewrite aget_setl in G. destruct (r =? z); [injection G as <-; auto|eauto].
Qed.
Lemma TI_updl_tsm x r f : (forall l, tsm l (f l)) -> TI x -> TI (updl x r f).
Proof.
  intros Hf T. unfold updl. destruct (aget (store x) r) as [l|] eqn:G; auto.
  apply TI_setl; auto. intros C. eapply tok_tsm; [apply Hf|]. apply (T r l G). eapply tcond_tsm; eauto.
Qed.
Lemma TI_expire x r : TI x -> TI (updl x r (fun l => l <| l_expried := true |>)).
Proof.
  intros T. unfold updl. destruct (aget (store x) r) as [l|] eqn:G; auto.
  apply TI_setl; auto. intros [C|C]; [discriminate|]. apply (T r l G). right. exact C.
Qed.

Create HintDb tidb.
Lemma TI_of_kfr_op x y : TI x -> kfr x y -> TI y.
Proof. intros T F. eapply TI_kfr; eauto. Qed.
#[export] Hint Resolve TI_expire : tidb.
#[export] Hint Extern 2 (TI (updl _ _ _)) => (apply TI_updl_tsm; [intros ?; unfold tsm; cbn; intuition|]) : tidb.
#[export] Hint Extern 1 (TI (updm ?x _ _)) => (apply (TI_store x); [apply (tview_store _ _ (updm_tview _ _ _))|]) : tidb.
#[export] Hint Extern 1 (TI (setm ?x _ _)) => (apply (TI_store x); [reflexivity|]) : tidb.
#[export] Hint Extern 1 (TI (bump _ ?x)) => (apply (TI_store x); [reflexivity|]) : tidb.
#[export] Hint Extern 1 (TI (updc ?x _)) => (apply (TI_store x); [reflexivity|]) : tidb.
#[export] Hint Extern 1 (TI (remove_mgr_if_unref ?x _)) => (apply (TI_store x); [apply (tview_store _ _ (remove_mgr_tview _ _))|]) : tidb.
#[export] Hint Extern 1 (TI (free_lock ?x ?r)) => (apply (TI_kfr x); [apply kfr_free_lock, kfr_refl|]) : tidb.
#[export] Hint Extern 1 (TI (unref ?x ?r)) => (apply (TI_kfr x); [apply kfr_unref, kfr_refl|]) : tidb.
#[export] Hint Extern 1 (TI (remove_lock ?x ?k ?r)) => (apply (TI_kfr x); [apply kfr_remove_lock, kfr_refl|]) : tidb.
#[export] Hint Extern 1 (TI (add_wait_lock ?x ?k ?r)) => (apply (TI_kfr x); [apply kfr_add_wait_lock, kfr_refl|]) : tidb.
#[export] Hint Extern 1 (TI (if ?c then _ else _)) => destruct c : tidb.
#[export] Hint Extern 1 (TI (match ?c with _ => _ end)) => destruct c : tidb.
#[export] Hint Extern 1 (TI (set _ _ ?x)) => (apply (TI_store x); [reflexivity|]) : tidb.
Ltac ti_eq :=
  match goal with
  | E : push_lock_aof ?x _ _ _ = (?y, _) |- TI ?y => apply (TI_kfr x y); [eapply kfr_push_lock_aof_eq; [exact E|apply kfr_refl]|]
  | E : push_unlock_aof ?x _ _ _ _ _ _ = (?y, _) |- TI ?y => apply (TI_kfr x y); [eapply kfr_push_unlock_aof_eq; [exact E|apply kfr_refl]|]
  | E : process_data ?x _ _ _ _ = (?y, _) |- TI ?y => apply (TI_kfr x y); [eapply kfr_process_data_eq; [exact E|apply kfr_refl]|]
  | E : get_wait_lock ?x _ = (?y, _) |- TI ?y => apply (TI_kfr x y); [eapply kfr_get_wait_lock_eq; [exact E|apply kfr_refl]|]
  end.
#[export] Hint Extern 1 (TI ?y) => is_var y; ti_eq : tidb.
Ltac ti := eauto 80 with tidb.

(* ---------------------------------------------------------------- timers *)
Lemma TI_add_timeout x r : TI x -> TI (add_timeout x r).
Proof. intros T. unfold add_timeout. cbv zeta. ti. Qed.
Lemma TI_remove_long_timeout x r : TI x -> TI (remove_long_timeout x r).
Proof. intros T. unfold remove_long_timeout. cbv zeta. ti. Qed.
Lemma TI_remove_long_expried x r eT : TI x -> TI (remove_long_expried x r eT).
Proof. intros T. unfold remove_long_expried. ti. Qed.
#[export] Hint Resolve TI_add_timeout TI_remove_long_timeout TI_remove_long_expried : tidb.
Lemma TI_kill x r : TI x -> TI (kill x r).
Proof. intros T. unfold kill. cbv zeta. ti. Qed.
#[export] Hint Resolve TI_kill : tidb.

Lemma TI_arm x r : TI x -> (forall l, aget (store x) r = Some l -> tok l) -> TI (arm x r).
Proof.
  intros T P. unfold arm. cbv zeta.
  destruct (aget (store x) r) as [l|] eqn:G.
  - specialize (P l eq_refl).
    assert (U : updl x r (fun l0 => l0 <| l_expried := false |>) = setl x r (l <| l_expried := false |>)) by (unfold updl; rewrite G; reflexivity).
    rewrite U. set (x1 := setl x r (l <| l_expried := false |>)).
    assert (G1 : aget (store x1) r = Some (l <| l_expried := false |>)) by (unfold x1; rewrite aget_setl, N.eqb_refl; reflexivity).
    assert (T1 : TI x1) by (unfold x1; apply TI_setl; auto).
    rewrite (getl_some _ _ _ G1). clearbody x1.
    destruct (QUEUE_MAX_WAIT <? l_ecc (l <| l_expried := false |>)).
    + match goal with |- TI (?a <| elong := ?w |>) => apply (TI_store a); [reflexivity|] end.
      unfold updl. rewrite G1. apply TI_setl; auto. intros _. destruct P as [P|P]; [left; exact P|right]. cbn.
      destruct (l_eT l <? checkE x1)%Z eqn:E; [apply Z.ltb_lt in E; lia|exact P].
    + ti.
  - assert (U : forall f, updl x r f = x) by (intros f; unfold updl; rewrite G; reflexivity).
    rewrite U. unfold getl. rewrite G. destruct (QUEUE_MAX_WAIT <? l_ecc dummy_lock); [rewrite U|]; ti.
Qed.
Lemma TI_add_expried x k r : TI x -> (forall l, aget (store x) r = Some l -> tok l) -> TI (fst (add_expried x k r)).
Proof. intros T P. eapply TI_kfr; [apply kfr_add_expried_arm, kfr_refl|]. apply TI_arm; auto. Qed.

(* ---------------------------------------------------------------- where terms are set *)
Lemma TI_new_lock x k conn c : TI x -> TI (fst (new_lock x k conn c)).
Proof.
  intros T. unfold new_lock. cbn [fst].
  match goal with |- TI (updm ?a _ _) => apply (TI_store a); [apply (tview_store _ _ (updm_tview _ _ _))|] end.
  match goal with |- TI (?x0 <| store := aset _ _ ?l |> <| next := ?n |>) => apply (TI_store (setl x0 (next x0) l)); [reflexivity|] end.
  apply TI_setl; auto. intros [C|C]; [discriminate|]. right. cbn [l_cmd l_eT l_start] in *. rewrite C. apply Z.le_refl.
Qed.

Lemma tok_add_lock_rec x k r : TI x -> tcond (add_lock_rec x k r) -> tok (add_lock_rec x k r).
Proof.
  intros T C. unfold add_lock_rec in *. cbv zeta in *.
  destruct (has (c_tflag (l_cmd (getl x r))) TF_UNRENEW) eqn:U.
  - assert (P : tok (getl x r)).
    { unfold getl in *. destruct (aget (store x) r) as [l|] eqn:G; [apply (T r l G); right; exact U|discriminate U]. }
    destruct (has (c_flag (l_cmd (getl x r))) LOCK_FLAG_FROM_AOF); [|destruct (has (c_tflag (l_cmd (getl x r))) TF_REQUIRE_ACKED)]; exact P.
  - right. destruct (has (c_flag (l_cmd (getl x r))) LOCK_FLAG_FROM_AOF); [|destruct (has (c_tflag (l_cmd (getl x r))) TF_REQUIRE_ACKED)]; cbn; lia.
Qed.
Lemma TI_add_lock x k r : TI x -> TI (add_lock x k r).
Proof. intros T. eapply TI_kfr; [apply kfr_add_lock_after|]. apply TI_setl; auto. apply tok_add_lock_rec; auto. Qed.
#[export] Hint Resolve TI_add_lock TI_new_lock : tidb.

Lemma TI_grant x k r f s4 aev : TI x -> add_expried (updm (add_lock x k r) k f) k r = (s4, aev) -> TI s4.
Proof.
  intros T E. pose proof (TI_add_expried (updm (add_lock x k r) k f) k r) as A. rewrite E in A. apply A; [ti|].
  intros l G. rewrite (tview_store _ _ (updm_tview _ _ _)) in G.
  destruct (kfr_add_lock_after x k r) as (_ & _ & F). destruct (F r l G) as (l0 & G0 & (_ & _ & S3 & S4 & _ & S6 & S7)).
  rewrite aget_setl, N.eqb_refl in G0. injection G0 as <-.
  assert (S : tsm (add_lock_rec x k r) l) by (repeat split; auto).
  eapply tok_tsm; [exact S|]. unfold add_lock_rec. cbv zeta.
  destruct (has (c_tflag (l_cmd (getl x r))) TF_UNRENEW) eqn:U.
  - assert (P : tok (getl x r)).
    { unfold getl in *. destruct (aget (store x) r) as [l1|] eqn:G1; [apply (T r l1 G1); right; exact U|discriminate U]. }
    destruct (has (c_flag (l_cmd (getl x r))) LOCK_FLAG_FROM_AOF); [|destruct (has (c_tflag (l_cmd (getl x r))) TF_REQUIRE_ACKED)]; exact P.
  - right. destruct (has (c_flag (l_cmd (getl x r))) LOCK_FLAG_FROM_AOF); [|destruct (has (c_tflag (l_cmd (getl x r))) TF_REQUIRE_ACKED)]; cbn; lia.
Qed.

Lemma tok_ull_rec x k r c l : tok (ull_rec x k r c l).
Proof.
  destruct (ull_rec_fields x k r c l) as (_ & Fc & _).
  unfold tok. rewrite Fc. destruct (keep_terms c) eqn:Kc; [left; reflexivity|right].
  assert (E : negb (has (c_eflag c) EF_UNLIMITED) || (c_expried c <? 65535) = true).
  { unfold keep_terms in Kc. destruct (has (c_eflag c) EF_UNLIMITED); destruct (c_expried c <? 65535); cbn in *; congruence. }
  unfold ull_rec. cbv zeta. rewrite E.
  repeat match goal with |- context [if ?b then _ else _] =>
    lazymatch b with context [EF_MILLISECOND] => fail | context [EF_MINUTE] => fail | context [EF_UNLIMITED] => fail | _ => destruct b end end;
    cbn [l_start l_eT set eta_lock l_cmd]; apply Z.le_refl.
Qed.
Lemma TI_update_locked_lock x k r c : TI x -> TI (update_locked_lock x k r c).
Proof. intros T. rewrite update_locked_lock_eq. apply TI_setl; auto. intros _. apply tok_ull_rec. Qed.

Lemma TI_update_and_rearm x k r c : TI x -> TI (fst (update_and_rearm x k r c)).
Proof.
  intros T. unfold update_and_rearm. cbv zeta.
  pose proof (TI_update_locked_lock x k r c T) as T1.
  destruct (l_long (getl x r)); [|exact T1].
  destruct (negb (has (c_eflag c) EF_MILLISECOND)); [|exact T1].
  match goal with |- context [if ?b then _ else _] => destruct b end; [|exact T1].
  match goal with |- context [add_expried ?y k r] => pose proof (TI_add_expried y k r) as A; destruct (add_expried y k r) as [s3 ev] end.
  cbn [fst] in *. ti. apply TI_updl_tsm; [intros ?; unfold tsm; cbn; intuition|]. apply A; [ti|].
  intros l G. rewrite remove_long_expried_store, N.eqb_refl in G. rewrite update_locked_lock_eq, aget_setl, N.eqb_refl in G.
  cbn in G. injection G as <-.
  match goal with |- tok (if ?b then _ else _) => destruct b end; (eapply tok_tsm; [|apply (tok_ull_rec x k r c (getl x r))]; repeat split).
Qed.
Lemma TI_update_and_rearm_eq x k r c y ev : update_and_rearm x k r c = (y, ev) -> TI x -> TI y.
Proof. intros E T. pose proof (TI_update_and_rearm x k r c T) as A. rewrite E in A. exact A. Qed.
#[export] Hint Extern 1 (TI ?y) => is_var y; match goal with E : update_and_rearm ?x _ _ _ = (y, _) |- _ => apply (TI_update_and_rearm_eq _ _ _ _ _ _ E) end : tidb.
Definition TIr (r : ref) (x : db) : Prop := TI x /\ forall l, aget (store x) r = Some l -> tok l.
Lemma TIr_kfr r x y : kfr x y -> TIr r x -> TIr r y.
Proof.
  intros F [T P]. split; [eapply TI_kfr; eauto|]. destruct F as (_ & _ & F).
  intros l G. destruct (F r l G) as (l0 & G0 & (_ & _ & S3 & S4 & _ & S6 & S7)).
  assert (S : tsm l0 l) by (repeat split; auto). eapply tok_tsm; eauto.
Qed.
Lemma TIr_add_lock x k r : TI x -> TIr r (add_lock x k r).
Proof.
  intros T. split; [apply TI_add_lock; auto|]. intros l G.
  destruct (kfr_add_lock_after x k r) as (_ & _ & F). destruct (F r l G) as (l0 & G0 & (_ & _ & S3 & S4 & _ & S6 & S7)).
  rewrite aget_setl, N.eqb_refl in G0. injection G0 as <-.
  assert (S : tsm (add_lock_rec x k r) l) by (repeat split; auto).
  eapply tok_tsm; [exact S|]. unfold add_lock_rec. cbv zeta.
  destruct (has (c_tflag (l_cmd (getl x r))) TF_UNRENEW) eqn:U.
  - assert (P : tok (getl x r)).
    { unfold getl in *. destruct (aget (store x) r) as [l1|] eqn:G1; [apply (T r l1 G1); right; exact U|discriminate U]. }
    destruct (has (c_flag (l_cmd (getl x r))) LOCK_FLAG_FROM_AOF); [|destruct (has (c_tflag (l_cmd (getl x r))) TF_REQUIRE_ACKED)]; exact P.
  - right. destruct (has (c_flag (l_cmd (getl x r))) LOCK_FLAG_FROM_AOF); [|destruct (has (c_tflag (l_cmd (getl x r))) TF_REQUIRE_ACKED)]; cbn; lia.
Qed.
Lemma TI_add_expried_eq x k r y ev : add_expried x k r = (y, ev) -> TIr r x -> TI y.
Proof. intros E [T P]. pose proof (TI_add_expried x k r T P) as A. rewrite E in A. exact A. Qed.
#[export] Hint Extern 1 (TI ?y) => is_var y; match goal with E : add_expried ?x ?k ?r = (y, _) |- _ => apply (TI_add_expried_eq _ _ _ _ _ E) end : tidb.
#[export] Hint Extern 1 (TIr ?r (updm ?x _ _)) => (apply (TIr_kfr r x); [apply kfr_updm, kfr_refl|]) : tidb.
#[export] Hint Extern 1 (TIr ?r ?y) => is_var y; match goal with E : process_data ?x _ _ _ _ = (y, _) |- _ =>
  apply (TIr_kfr r x y); [eapply kfr_process_data_eq; [exact E|apply kfr_refl]|] end : tidb.
#[export] Hint Resolve TIr_add_lock : tidb.

(* ---------------------------------------------------------------- critical sections *)
Lemma wake_grant_TI s k r via : TI s -> cmd_core (l_cmd (getl s r)) -> TI (fst (wake_grant s k r via)).
Proof.
  intros T Hc. rewrite wake_grant_state by exact Hc. cbv zeta. rewrite wg_pre_kill.
  destruct (0 <? c_expried (l_cmd (getl s r))).
  - unfold grant_core. cbv zeta. destruct (add_expried _ k r) as [s4 aev] eqn:E. cbn [fst].
    pose proof (TI_grant _ _ _ _ _ _ (TI_kill s r T) E). ti.
  - unfold wg_nohold. destruct (has_data_flag _); [|ti]. cbv zeta. destruct (_ && _); [|ti].
    destruct (push_lock_aof (kill s r) k r 0) as [y ev] eqn:E. cbn [fst]. pose proof (TI_kill s r T). ti.
Qed.

Lemma wake_iter_TI s xt xe k w : GInv s (gk xt xe k) -> w_key w = k -> TI s -> TI (fst (fst (wake_iter s w))).
Proof.
  intros G Hw T. unfold wake_iter. rewrite Hw. destruct (aget (mgrs s) k) as [m|] eqn:Hm; [|exact T].
  destruct (negb (m_waited m)); [exact T|].
  pose proof (get_wait_lock_ginv s (gk xt xe k) k G) as P.
  pose proof (kfr_get_wait_lock s s k (kfr_refl s)) as F.
  destruct (get_wait_lock s k) as [s1 wl]. destruct P as [G1 [LF [_ [_ [_ P4]]]]]; auto. cbn [fst] in F.
  pose proof (TI_kfr _ _ F T) as T1.
  destruct wl as [r|].
  - destruct P4 as [Hin [l [Hr Ht]]].
    destruct (negb (do_lock s1 k r)); [exact T1|].
    pose proof (wake_grant_TI s1 k r (w_conn w) T1) as A. rewrite (getl_some _ _ _ Hr) in A.
    specialize (A (ro_cmd _ _ _ _ (gi_rec _ _ G1 r l Hr))).
    destruct (wake_grant s1 k r (w_conn w)) as [s2 ev]. exact A.
  - cbn [fst]. ti.
Qed.
Lemma run_wake_TI fuel : forall s xt xe k w, GInv s (gk xt xe k) -> w_key w = k -> TI s -> TI (fst (run_wake fuel s w)).
Proof.
  induction fuel as [|f IH]; intros s xt xe k w G Hw T; simpl; [exact T|].
  pose proof (wake_iter_ginv s xt xe k w G Hw) as G1. pose proof (wake_iter_TI s xt xe k w G Hw T) as T1.
  destruct (wake_iter s w) as [[s' ev] [|]]; cbn [fst] in *; [exact T1|].
  specialize (IH s' xt xe k w G1 Hw T1). destruct (run_wake f s' w) as [s'' ev']. exact IH.
Qed.
Lemma finish_TI s ev w xt xe k : GInv s (gk xt xe k) -> (forall w0, w = Some w0 -> w_key w0 = k) -> TI s -> TI (fst (finish (s, ev, w))).
Proof.
  intros G Hw T. unfold finish. destruct w as [w0|]; [|exact T].
  pose proof (run_wake_TI (wake_fuel s (w_key w0)) s xt xe k w0 G (Hw w0 eq_refl) T) as P.
  destruct (run_wake (wake_fuel s (w_key w0)) s w0) as [s' ev']. exact P.
Qed.

Lemma lock_step_TI s conn c : TI s -> TI (fst (fst (lock_step s conn c))).
Proof.
  intros T. destruct (lock_step s conn c) as [[s' ev] w] eqn:H. cbn [fst]. rewrite lock_step_eq in H. cbv zeta in H.
  destruct (ls_pre s conn c (c_key c)); [inv_tuple H; exact T|].
  assert (T1 : TI (ls_mgr s (c_key c))) by (unfold ls_mgr; ti).
  set (s1 := ls_mgr s (c_key c)) in *. clearbody s1.
  destruct (negb (leader s1) && negb (has (c_flag c) LOCK_FLAG_FROM_AOF)); [inv_tuple H; ti|].
  destruct (ls_held s1 conn c (c_key c) (getm s1 (c_key c))) as [[[res|] c'] wt] eqn:Eh.
  - subst res. rewrite ls_held_eq in Eh. cbv zeta in Eh. unfold ls_update, ls_relock in Eh.
    repeat (split_hyp Eh); apply tuple3_inv in Eh; destruct Eh as (Eh & _ & _); try discriminate Eh;
      apply some_inj in Eh; inv_tuple Eh; ti.
  - unfold ls_tail in H. repeat (split_hyp H); inv_tuple H;
      repeat match goal with E : new_lock _ _ _ _ = (_, _) |- _ => apply TimeStep.new_lock_split in E; destruct E; subst end; ti.
Qed.

Lemma cancel_wait_lock_TI s conn c : TI s -> TI (fst (fst (cancel_wait_lock s conn c))).
Proof.
  intros T. destruct (cancel_wait_lock s conn c) as [[s' ev] w] eqn:H. cbn [fst]. unfold cancel_wait_lock in H. cbv zeta in H.
  repeat (split_hyp H); inv_tuple H; ti.
Qed.
Lemma release_hold_TI s k conn c r d : TI s -> TI (fst (release_hold s k conn c r d)).
Proof.
  intros T. destruct (release_hold s k conn c r d) as [s' ev] eqn:H. cbn [fst]. unfold release_hold in H. cbv zeta in H.
  repeat (split_hyp H); inv_tuple H; ti.
Qed.
Lemma release_hold_TI_eq x k conn c r d y ev : release_hold x k conn c r d = (y, ev) -> TI x -> TI y.
Proof. intros E T. pose proof (release_hold_TI x k conn c r d T) as A. rewrite E in A. exact A. Qed.
#[export] Hint Extern 1 (TI ?y) => is_var y; match goal with E : release_hold ?x _ _ _ _ _ = (y, _) |- _ =>
  apply (release_hold_TI_eq _ _ _ _ _ _ _ _ E) end : tidb.
Lemma unlock_step_TI s conn c : TI s -> TI (fst (fst (unlock_step s conn c))).
Proof.
  intros T. destruct (unlock_step s conn c) as [[s' ev] w] eqn:H. cbn [fst]. rewrite unlock_step_eq in H. cbv zeta in H.
  unfold ul_target, ul_err, ul_body in H.
  repeat (split_hyp H); inv_tuple H; try (ti; fail).
  all: try (match goal with E : cancel_wait_lock ?x ?cn ?cc = _, T0 : TI ?x |- _ => let A := fresh in pose proof (cancel_wait_lock_TI x cn cc T0) as A; rewrite E in A; exact A end).
  all: try match goal with E : inl _ = inl _ |- _ => inv E end.
  all: try match goal with E : inr _ = inl _ |- _ => discriminate E end.
  all: try match goal with E : inr _ = inr _ |- _ => inv E end.
  all: try (ti; fail).
  all: try (match goal with E : cancel_wait_lock ?x ?cn ?cc = _, T0 : TI ?x |- _ => let A := fresh in pose proof (cancel_wait_lock_TI x cn cc T0) as A; rewrite E in A; exact A end).
Qed.

Lemma do_timeout_TI s r : TI s -> TI (fst (fst (do_timeout s r))).
Proof.
  intros T. destruct (do_timeout s r) as [[s' ev] w] eqn:H. cbn [fst]. unfold do_timeout in H. cbv zeta in H.
  repeat (split_hyp H); inv_tuple H; ti.
Qed.

Lemma do_expried_TI s r : TI s -> (forall l, elive s r l -> (l_eT l <= now s)%Z) -> TI (fst (fst (do_expried s r))).
Proof.
  intros T D. unfold do_expried. destruct (aget (store s) r) as [l|] eqn:Hr; [|exact T].
  destruct (l_expried l) eqn:Ee; [cbn [fst]; ti|].
  destruct (negb (leader s) && l_isaof l && ((l_eT l <=? 0)%Z || (now s - l_eT l <? EXPRIED_WAIT_LEADER_MAX_TIME)%Z)).
  - cbv zeta. rewrite (updl_some _ _ _ _ Hr).
    set (l1 := l <| l_eT := (now s + 30)%Z |>).
    assert (P : tok l1).
    { pose proof (T r l Hr (or_introl Ee)) as [P|P]; [left; exact P|right]. specialize (D l (conj Hr Ee)). cbn. lia. }
    pose proof (TI_add_expried (setl s r l1) (l_key l) r) as A.
    destruct (add_expried (setl s r l1) (l_key l) r) as [s2 aev]. cbn [fst] in *. apply A.
    + apply TI_setl; auto.
    + intros l' G'. rewrite aget_setl, N.eqb_refl in G'. injection G' as <-. exact P.
  - cbv zeta.
    set (s1 := updl s r (fun l0 => l0 <| l_expried := true |>)).
    assert (T1 : TI s1) by (apply TI_expire; exact T). clearbody s1.
    match goal with |- context [if l_isaof ?x then _ else _] => destruct (l_isaof x) end;
      try (destruct (push_unlock_aof _ _ _ _ _ _ _) as [s3 aev] eqn:E3); cbn [fst]; ti.
Qed.

(* ---------------------------------------------------------------- sweeps *)
Lemma sweep_long_TI b items : forall s due, TI s -> TI (fst (sweep_long s items b due)).
Proof.
  induction items as [|r rest IH]; intros s due T; cbn [sweep_long]; [exact T|].
  destruct (negb _); apply IH; ti.
Qed.
Lemma sweep_t_slot_TI fuel : forall s slot nowv due, TI s -> TI (fst (sweep_t_slot fuel s slot nowv due)).
Proof.
  induction fuel as [|f IH]; intros s slot nowv due T; cbn [sweep_t_slot]; [exact T|].
  destruct (wheel_get (twheel s) slot) as [|r rest]; [exact T|]. cbv zeta.
  repeat match goal with |- context [if ?b then _ else _] => destruct b end; try apply IH; ti.
Qed.
Lemma collect_timeouts_TI s t nowv : TI s -> TI (fst (collect_timeouts s t nowv)).
Proof.
  intros T. unfold collect_timeouts.
  pose proof (sweep_t_slot_TI (10 * length (wheel_get (twheel s) (slot_of t)) + 10) s (slot_of t) nowv [] T) as T1.
  destruct (sweep_t_slot _ s (slot_of t) nowv []) as [s1 due]. cbn [fst] in *.
  destruct (aget (tlong s1) (lkey t)); [|exact T1]. apply sweep_long_TI. ti.
Qed.
Lemma sweep_e_slot_TI fuel : forall s slot nowv due ev, TI s -> TI (fst (fst (sweep_e_slot fuel s slot nowv due ev))).
Proof.
  induction fuel as [|f IH]; intros s slot nowv due ev T; cbn [sweep_e_slot]; [exact T|].
  destruct (wheel_get (ewheel s) slot) as [|r rest]; [exact T|]. cbv zeta.
  set (s1 := s <| ewheel := aset (ewheel s) slot rest |>).
  assert (T1 : TI s1) by (unfold s1; ti).
  change (store s1) with (store s). destruct (aget (store s) r) as [l|] eqn:Hr; [|exact T1].
  assert (Hr1 : aget (store s1) r = Some l) by exact Hr. rewrite (getl_some _ _ _ Hr1).
  destruct (l_expried l) eqn:Ee; cbn [negb]; [apply IH; ti|].
  destruct (nowv <? l_eT l)%Z; [|apply IH; exact T1].
  match goal with |- context [add_expried ?y ?k r] => pose proof (TI_add_expried y k r) as A; destruct (add_expried y k r) as [s3 aev] end.
  cbn [fst] in *. apply IH. apply A; [ti|].
  intros l' G'. rewrite aget_updl, N.eqb_refl, Hr1 in G'. cbn in G'. injection G' as <-.
  eapply tok_tsm; [|apply (T1 r l Hr1 (or_introl Ee))]. repeat split.
Qed.
Lemma collect_expiries_TI s t nowv : TI s -> TI (fst (fst (collect_expiries s t nowv))).
Proof.
  intros T. unfold collect_expiries.
  pose proof (sweep_e_slot_TI (10 * length (wheel_get (ewheel s) (slot_of t)) + 10) s (slot_of t) nowv [] [] T) as T1.
  destruct (sweep_e_slot _ s (slot_of t) nowv [] []) as [[s1 due] ev]. cbn [fst] in *.
  destruct (aget (elong s1) (lkey t)) as [items|]; [|exact T1].
  pose proof (sweep_long_TI false items (s1 <| elong := adel (elong s1) (lkey t) |>) due) as A.
  destruct (sweep_long _ items false due) as [s2 due2]. apply A. ti.
Qed.

Lemma fire_all_t_TI due : forall s xe k, GInv s (gk due xe k) -> TI s -> TI (fst (fire_all do_timeout s due)).
Proof.
  induction due as [|r rest IH]; intros s xe k G T; simpl; [exact T|].
  destruct (do_timeout_ginv s xe k r rest G) as [k1 [G1 Hw]].
  pose proof (do_timeout_TI s r T) as T1.
  destruct (do_timeout s r) as [[s1 e1] w] eqn:Ed. cbn [fst snd] in *.
  pose proof (finish_ginv s1 e1 w rest xe k1 G1 Hw) as G2.
  pose proof (finish_TI s1 e1 w rest xe k1 G1 Hw T1) as T2.
  destruct (finish (s1, e1, w)) as [s2 e2]. cbn [fst] in *.
  specialize (IH s2 xe k1 G2 T2). destruct (fire_all do_timeout s2 rest) as [s3 e3]. exact IH.
Qed.

Lemma fire_all_e_TI nowv due : forall s xt k, GInv s (gk xt due k) -> EDue nowv due s -> now s = nowv -> TI s ->
  TI (fst (fire_all do_expried s due)).
Proof.
  induction due as [|r rest IH]; intros s xt k G D N T; simpl; [exact T|].
  destruct (stored_of_xe s _ r rest G eq_refl) as [l Hr].
  destruct (el_zero_of_xe s _ r rest l G eq_refl Hr) as (_ & _ & Z & _).
  destruct (do_expried_ginv s xt k r rest G) as [k1 [G1 Hw]].
  assert (T1 : TI (fst (fst (do_expried s r)))).
  { apply do_expried_TI; auto. intros l' LV. rewrite N. apply (D r l'); [left; reflexivity|exact LV]. }
  pose proof (do_expried_efrx s r) as F. pose proof (nw_do_expried s r) as N1. pose proof (nw_finish (do_expried s r)) as N2.
  destruct (do_expried s r) as [[s1 e1] w] eqn:Ed. cbn [fst snd] in *.
  assert (D1 : EDue nowv rest s1).
  { eapply EDue_efrx; [eapply EDue_incl; [|exact D]; intros x Ix; right; exact Ix|exact F|].
    intros x Ix E. subst x. apply occ_In in Ix. lia. }
  pose proof (finish_ginv s1 e1 w xt rest k1 G1 Hw) as G2.
  pose proof (finish_EDue nowv s1 e1 w xt rest k1 G1 Hw D1) as D2.
  pose proof (finish_TI s1 e1 w xt rest k1 G1 Hw T1) as T2.
  destruct (finish (s1, e1, w)) as [s2 e2]. cbn [fst] in *.
  specialize (IH s2 xt k1 G2 D2 ltac:(congruence) T2). destruct (fire_all do_expried s2 rest) as [s3 e3]. exact IH.
Qed.

Lemma sweep_t_secs_TI n : forall s t nowv, Inv s -> TI s -> TI (fst (sweep_t_secs n s t nowv)).
Proof.
  induction n as [|n IH]; intros s t nowv G T; simpl; [exact T|].
  pose proof (collect_timeouts_ginv s [] 0 t nowv (inv_gk s 0 G)) as G1.
  pose proof (collect_timeouts_TI s t nowv T) as T1.
  destruct (collect_timeouts s t nowv) as [s1 due]. cbn [fst snd] in *.
  destruct (fire_all_t_ginv due s1 [] 0 G1) as [k' G2].
  pose proof (fire_all_t_TI due s1 [] 0 G1 T1) as T2.
  destruct (fire_all do_timeout s1 due) as [s2 e2]. cbn [fst snd] in *.
  specialize (IH s2 (t + 1)%Z nowv (gk_inv s2 k' G2) T2).
  destruct (sweep_t_secs n s2 (t + 1)%Z nowv) as [s3 e3]. exact IH.
Qed.

Lemma sweep_e_secs_TI nowv : forall n s t, Inv s -> KL s -> TI s -> now s = nowv -> (0 <= t)%Z -> (t + Z.of_nat n <= nowv + 1)%Z ->
  TI (fst (sweep_e_secs n s t nowv)).
Proof.
  induction n as [|n IH]; intros s t G K T N T0 TN; simpl; [exact T|].
  pose proof (collect_expiries_ginv s [] 0 t nowv (inv_gk s 0 G)) as G1.
  pose proof (collect_expiries_GK s [] 0 t nowv (inv_gk s 0 G) K) as K1.
  pose proof (collect_expiries_EDue s [] 0 t nowv (inv_gk s 0 G) K ltac:(lia)) as D1.
  pose proof (collect_expiries_TI s t nowv T) as T1.
  pose proof (nw_collect_expiries s t nowv) as N1.
  destruct (collect_expiries s t nowv) as [[s1 due] e1]. cbn [fst snd] in *.
  destruct (fire_all_e_ginv due s1 [] 0 G1) as [k' G2].
  pose proof (fire_all_e_KL due s1 [] 0 G1 K1) as K2.
  pose proof (fire_all_e_TI nowv due s1 [] 0 G1 D1 ltac:(congruence) T1) as T2.
  pose proof (nw_fire_all do_expried nw_do_expried due s1) as N2.
  destruct (fire_all do_expried s1 due) as [s2 e2]. cbn [fst snd] in *.
  specialize (IH s2 (t + 1)%Z (gk_inv s2 k' G2) K2 T2 ltac:(congruence) ltac:(lia) ltac:(lia)).
  destruct (sweep_e_secs n s2 (t + 1)%Z nowv) as [s3 e3]. exact IH.
Qed.

Theorem step_TI s a : RX s -> TI s -> InvDef.core_action a = true -> next s < MAXREC -> TI (fst (step s a)).
Proof.
  intros [G HJ K C] T Ha Hb. destruct a as [conn c|k| | |r ok|b]; cbn [step InvDef.core_action] in *.
  - apply cmd_core_b_iff in Ha. pose proof (inv_gk s (c_key c) G) as G1.
    assert (R : res_ok [] [] (c_key c) (if c_lock c then lock_step s conn c else unlock_step s conn c)).
    { destruct (c_lock c); [apply lock_step_ginv; auto|apply unlock_step_ginv; auto; apply Ha]. }
    assert (A : TI (fst (fst (if c_lock c then lock_step s conn c else unlock_step s conn c)))).
    { destruct (c_lock c); [apply lock_step_TI; auto|apply unlock_step_TI; auto]. }
    destruct (if c_lock c then lock_step s conn c else unlock_step s conn c) as [[s1 ev] w]. destruct R as [R1 R2]. cbn [fst snd] in *.
    eapply finish_TI; eauto.
  - cbn [fst]. apply (TI_store s); auto.
  - unfold sweep_timeouts. apply sweep_t_secs_TI; [apply (inv_scalar s); auto|apply (TI_store s); auto].
  - unfold sweep_expiries.
    apply sweep_e_secs_TI; [apply (inv_scalar s); auto|apply (KL_scalar s); auto|apply (TI_store s); auto|reflexivity|lia|lia].
  - discriminate.
  - cbn [fst]. apply (TI_store s); auto.
Qed.

Lemma TI_init t0 a : TI (init_db t0 a).
Proof. intros r l G. discriminate. Qed.

Theorem RXT_run_bounded acts : forall s, RX s -> TI s -> Forall (fun a => InvDef.core_action a = true) acts -> bounded_run s acts ->
  RX (fst (run s acts)) /\ TI (fst (run s acts)).
Proof.
  induction acts as [|a rest IH]; intros s R T Hc Hb; [auto|].
  rewrite run_fst_cons. inversion Hc; subst. destruct Hb as [Hb1 Hb2].
  apply IH; auto; [apply RX_step|apply step_TI]; auto.
Qed.

Theorem reach_TI t0 a acts : (0 <= t0)%Z -> core acts -> TI (fst (run (init_db t0 a) acts)).
Proof.
  intros H0 Hc. destruct (core_core_run t0 a acts Hc) as [H1 H2].
  apply (RXT_run_bounded acts (init_db t0 a) (RX_init t0 a H0) (TI_init t0 a) H1 H2).
Qed.

(* ---------------------------------------------------------------- the terms at every doExpried call of a sweep *)
Lemma fire_log_TI nowv : forall due s xt k, GInv s (gk xt due k) -> EDue nowv due s -> now s = nowv -> TI s ->
  forall s' r, In (s', r) (fire_log do_expried s due) -> TI s'.
Proof.
  induction due as [|r rest IH]; intros s xt k G D N T s' r' I; cbn in I; [destruct I|].
  destruct I as [[= <- <-]|I]; [exact T|].
  destruct (stored_of_xe s _ r rest G eq_refl) as [l Hr].
  destruct (el_zero_of_xe s _ r rest l G eq_refl Hr) as (_ & _ & Z & _).
  destruct (do_expried_ginv s xt k r rest G) as [k1 [G1 Hw]].
  assert (T1 : TI (fst (fst (do_expried s r)))).
  { apply do_expried_TI; auto. intros l' LV. rewrite N. apply (D r l'); [left; reflexivity|exact LV]. }
  pose proof (do_expried_efrx s r) as F. pose proof (nw_do_expried s r) as N1. pose proof (nw_finish (do_expried s r)) as N2.
  destruct (do_expried s r) as [[s1 e1] w] eqn:Ed. cbn [fst snd] in *.
  assert (D1 : EDue nowv rest s1).
  { eapply EDue_efrx; [eapply EDue_incl; [|exact D]; intros x Ix; right; exact Ix|exact F|].
    intros x Ix E. subst x. apply occ_In in Ix. lia. }
  pose proof (finish_ginv s1 e1 w xt rest k1 G1 Hw) as G2.
  pose proof (finish_EDue nowv s1 e1 w xt rest k1 G1 Hw D1) as D2.
  pose proof (finish_TI s1 e1 w xt rest k1 G1 Hw T1) as T2.
  eapply IH; [exact G2|exact D2|congruence|exact T2|exact I].
Qed.

Lemma sweep_e_log_TI nowv : forall n s t, Inv s -> KL s -> TI s -> now s = nowv -> (0 <= t)%Z -> (t + Z.of_nat n <= nowv + 1)%Z ->
  forall s' r, In (s', r) (sweep_e_log n s t nowv) -> TI s'.
Proof.
  induction n as [|n IH]; intros s t G K T N T0 TN s' r I; cbn [sweep_e_log] in I; [destruct I|].
  pose proof (collect_expiries_ginv s [] 0 t nowv (inv_gk s 0 G)) as G1.
  pose proof (collect_expiries_GK s [] 0 t nowv (inv_gk s 0 G) K) as K1.
  pose proof (collect_expiries_EDue s [] 0 t nowv (inv_gk s 0 G) K ltac:(lia)) as D1.
  pose proof (collect_expiries_TI s t nowv T) as T1.
  pose proof (nw_collect_expiries s t nowv) as N1.
  destruct (collect_expiries s t nowv) as [[s1 due] e1]. cbn [fst snd] in *.
  apply in_app_iff in I. destruct I as [I|I].
  - eapply (fire_log_TI nowv due s1); eauto. congruence.
  - destruct (fire_all_e_ginv due s1 [] 0 G1) as [k' G2].
    pose proof (fire_all_e_KL due s1 [] 0 G1 K1) as K2.
    pose proof (fire_all_e_TI nowv due s1 [] 0 G1 D1 ltac:(congruence) T1) as T2.
    pose proof (nw_fire_all do_expried nw_do_expried due s1) as N2.
    eapply (IH _ (t + 1)%Z); [apply (gk_inv _ k' G2)|exact K2|exact T2|congruence|lia|lia|exact I].
Qed.

Theorem expiry_terms_core t0 aoft acts :
  (0 <= t0)%Z -> core acts ->
  forall s, In (s, ASweepE) (run_states (init_db t0 aoft) acts) ->
  forall s' r l, In (s', r) (expiry_calls s) -> elive s' r l ->
  keep_terms (l_cmd l) = true \/ (expiry_deadline (l_cmd l) (l_start l) <= now s)%Z.
Proof.
  intros H0 Hc s I s' r l Ic LV.
  destruct (run_states_split acts _ s _ I) as (pre & suf & E & ES & _).
  assert (Hp : core pre) by (rewrite E in Hc; exact (core_prefix' _ _ Hc)).
  pose proof (reach_RX t0 aoft pre H0 Hp) as R. pose proof (reach_TI t0 aoft pre H0 Hp) as T. rewrite <- ES in R, T.
  destruct R as [G HJ K C].
  pose proof (expiry_call_not_early s G K C s' r l Ic LV) as Early.
  assert (T' : TI s').
  { unfold expiry_calls in Ic.
    assert (G' : Inv (s <| checkE := (now s + 1)%Z |>)) by (apply (inv_scalar s); auto).
    assert (K' : KL (s <| checkE := (now s + 1)%Z |>)) by (apply (KL_scalar s); auto).
    assert (T0 : TI (s <| checkE := (now s + 1)%Z |>)) by (apply (TI_store s); auto).
    assert (B1 : (0 <= checkE s)%Z) by lia.
    assert (B2 : (checkE s + Z.of_nat (Z.to_nat (now s + 1 - checkE s)) <= now s + 1)%Z) by lia.
    exact (sweep_e_log_TI (now s) _ _ (checkE s) G' K' T0 eq_refl B1 B2 s' r Ic). }
  destruct LV as [Gl Ex]. destruct (T' r l Gl (or_introl Ex)) as [P|P]; [left; exact P|right; lia].
Qed.

Theorem expiry_since_last_set_core t0 aoft acts :
  (0 <= t0)%Z -> core acts ->
  forall s, In (s, ASweepE) (run_states (init_db t0 aoft) acts) ->
  forall s' r l, In (s', r) (expiry_calls s) -> elive s' r l ->
  keep_terms (l_cmd l) = false -> has (c_eflag (l_cmd l)) EF_UNLIMITED = false ->
  (l_start l + Z.of_N (c_expried (l_cmd l)) * eunit' (l_cmd l) + 1 <= now s)%Z.
Proof.
  intros H0 Hc s I s' r l Ic LV Kp U.
  destruct (expiry_terms_core t0 aoft acts H0 Hc s I s' r l Ic LV) as [P|P]; [congruence|].
  assert (M : has (c_eflag (l_cmd l)) EF_MILLISECOND = false).
  { destruct (run_states_split acts _ s _ I) as (pre & suf & E & ES & _).
    assert (Hp : core pre) by (rewrite E in Hc; exact (core_prefix' _ _ Hc)).
    pose proof (reach_RX t0 aoft pre H0 Hp) as R. rewrite <- ES in R. destruct R as [G HJ K C].
    unfold expiry_calls in Ic.
    assert (G' : Inv (s <| checkE := (now s + 1)%Z |>)) by (apply (inv_scalar s); auto).
    destruct (sweep_e_log_ok (now s) _ _ (checkE s) G' s' r Ic) as [_ (l0 & G0 & _ & (_ & _ & Cc & _))].
    destruct LV as [Gl _]. rewrite Gl in G0. injection G0 as <-. exact Cc. }
  rewrite (expiry_deadline_eq _ _ M), U in P. exact P.
Qed.
