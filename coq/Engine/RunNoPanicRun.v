(* Run-level theorems, part 2 (property C05 (b)): the "no panic" hypothesis of the upper-bound theorems of Engine/Time*.v
   is discharged by the heap invariant of Engine/Inv*.v for runs of the core subset.
   The two developments define the core subset separately (InvDef.core_action : action -> bool, TimeBase.core_action :
   action -> Prop; InvDef.core adds the run-length bound 2^24 under which no 32-bit counter wraps): they are shown
   equivalent here. *)
From Coq Require Import String ZifyN ZifyBool ZifyNat.
From Slock Require Import Engine.Types Engine.Queues Engine.Timers Engine.Engine Engine.Engine2.
From Slock Require Engine.InvDef Engine.InvMain Engine.InvProps Engine.RunNoPanic.
From Slock Require Import Engine.TimeBase Engine.TimeFrame Engine.TimeStep Engine.TimeWheel Engine.TimeInv Engine.TimeRun.
From Slock Require Import Engine.TimeEvents Engine.TimeWhere Engine.TimeThm Engine.TimeMono Engine.TimeEvLock Engine.TimeFinal
  Engine.TimeRegular.
Open Scope N_scope.

(* ---------------------------------------------------------------- the two definitions of the core subset agree *)
Lemma core_cmd_iff c : InvDef.cmd_core c <-> core_cmd c.
Proof. unfold InvDef.cmd_core, core_cmd. tauto. Qed.

Lemma core_action_iff a : InvDef.core_action a = true <-> core_action a.
Proof.
  destruct a as [conn c|k| | |r ok|b]; cbn; try tauto.
  - rewrite InvMain.cmd_core_b_iff. apply core_cmd_iff.
  - rewrite Z.leb_le. tauto.
  - split; [discriminate|tauto].
Qed.

Lemma core_actions_iff acts : Forall (fun a => InvDef.core_action a = true) acts <-> Forall core_action acts.
Proof. split; intros H; (eapply Forall_impl; [|exact H]); intros a; apply core_action_iff. Qed.

(* a core run in the sense of both developments: core actions, fewer than 2^24 - 1 of them *)
Definition core_run (acts : list action) : Prop :=
  Forall core_action acts /\ N.of_nat (length acts) + 1 < InvDef.MAXREC.

Lemma core_run_iff acts : core_run acts <-> InvDef.core acts.
Proof. unfold core_run, InvDef.core. rewrite core_actions_iff. tauto. Qed.

Lemma core_prefix pre suf : InvDef.core (pre ++ suf) -> InvDef.core pre.
Proof.
  intros [H1 H2]. apply Forall_app in H1. split; [tauto|]. rewrite app_length in H2. lia.
Qed.

(* every state of a core run from the initial state satisfies the heap invariant *)
Lemma run_states_inv t0 aoft acts : InvDef.core acts ->
  forall s a, In (s, a) (run_states (init_db t0 aoft) acts) -> InvDef.Inv s.
Proof.
  intros Hc s a Hi. destruct (run_states_split acts _ s a Hi) as (pre & suf & E & ES & _).
  subst s. apply InvProps.inv_core. rewrite E in Hc. exact (core_prefix _ _ Hc).
Qed.

Lemma np_not_has_panic ev : Forall RunNoPanic.np ev -> ~ has_panic ev.
Proof. intros H (site & Hi). exact (RunNoPanic.np_no_panic ev H site Hi). Qed.

(* ---------------------------------------------------------------- the hypothesis of C05 (b), one sweep *)
Theorem sweep_timeouts_no_panic s : InvDef.Inv s -> ~ has_panic (snd (sweep_timeouts s)).
Proof. intros G. apply np_not_has_panic. apply RunNoPanic.sweep_timeouts_np. exact G. Qed.

Theorem sweep_expiries_no_panic s : InvDef.Inv s -> ~ has_panic (snd (sweep_expiries s)).
Proof. intros G. apply np_not_has_panic. apply RunNoPanic.sweep_expiries_np. exact G. Qed.

(* no core action emits a panic value in a state satisfying the invariant (allocation counter below the bound) *)
Theorem core_step_no_panic s a : InvDef.Inv s -> core_action a -> next s < InvDef.MAXREC -> ~ has_panic (snd (step s a)).
Proof. intros G Ha Hb. apply np_not_has_panic. apply RunNoPanic.core_step_np; auto. apply core_action_iff; auto. Qed.

Theorem no_sweep_panic_core t0 aoft acts : InvDef.core acts -> Forall no_sweep_panic (run_states (init_db t0 aoft) acts).
Proof.
  intros Hc. apply Forall_forall. intros [s a] Hi. unfold no_sweep_panic. cbn [fst snd].
  destruct a; auto. apply sweep_timeouts_no_panic. eapply run_states_inv; eauto.
Qed.

(* the lag condition alone *)
Definition sweep_lag_ok (p : db * action) : Prop :=
  match snd p with ASweepT => (now (fst p) < checkT (fst p) + 7)%Z | _ => True end.

Theorem sweep_ok_core t0 aoft acts : InvDef.core acts ->
  Forall sweep_lag_ok (run_states (init_db t0 aoft) acts) -> Forall sweep_ok (run_states (init_db t0 aoft) acts).
Proof.
  intros Hc HL. apply Forall_forall. intros [s a] Hi. rewrite Forall_forall in HL. specialize (HL _ Hi).
  unfold sweep_ok, sweep_lag_ok in *. cbn [fst snd] in *. destruct a; auto. split; auto.
  apply sweep_timeouts_no_panic. eapply run_states_inv; eauto.
Qed.

(* ---------------------------------------------------------------- C05 (b) without the panic hypothesis *)
(* one sweep *)
Theorem sweep_timeouts_no_loss_inv s :
  InvDef.Inv s -> TA s -> TW [] (checkT s) s -> (now s < checkT s + 7)%Z ->
  TW [] (now s + 1) (fst (sweep_timeouts s))
  /\ forall r l, tlive (fst (sweep_timeouts s)) r l -> (now s < l_tT l)%Z.
Proof. intros G T W L. apply sweep_timeouts_no_loss; auto. apply sweep_timeouts_no_panic; auto. Qed.

Theorem sweep_answers_overdue_inv s r l :
  InvDef.Inv s -> TA s -> TW [] (checkT s) s -> (now s < checkT s + 7)%Z ->
  tlive s r l -> (l_tT l <= now s)%Z -> tdead (fst (sweep_timeouts s)) r.
Proof. intros G T W L. apply sweep_answers_overdue; auto. apply sweep_timeouts_no_panic; auto. Qed.

(* runs from the initial state: every core run whose timeout sweeps lag by fewer than 7 seconds *)
Theorem timeout_no_loss_core t0 aoft acts :
  (0 <= t0)%Z -> InvDef.core acts -> Forall sweep_lag_ok (run_states (init_db t0 aoft) acts) ->
  forall s, In (s, ASweepT) (run_states (init_db t0 aoft) acts) ->
  forall r l, tlive (fst (sweep_timeouts s)) r l ->
  (now s < timeout_deadline (l_cmd l) (l_start l))%Z.
Proof.
  intros H0 Hc HL. apply timeout_no_loss_run.
  - apply TA_init; auto.
  - apply TW_init.
  - apply core_actions_iff. apply Hc.
  - apply sweep_ok_core; auto.
Qed.

(* regular schedules: nothing but the schedule and the run length is assumed *)
Theorem regular_no_loss_core t0 aoft acts :
  (0 <= t0)%Z -> regular true acts -> N.of_nat (length acts) + 1 < InvDef.MAXREC ->
  Forall sweep_ok (run_states (init_db t0 aoft) acts)
  /\ forall s, In (s, ASweepT) (run_states (init_db t0 aoft) acts) ->
       (forall r l, tlive s r l -> (now s <= l_tT l)%Z)
       /\ (forall r l, tlive s r l -> l_tT l = now s -> tdead (fst (sweep_timeouts s)) r)
       /\ (forall r l, tlive (fst (sweep_timeouts s)) r l -> (now s < timeout_deadline (l_cmd l) (l_start l))%Z).
Proof.
  intros H0 R Hn. apply regular_no_loss; auto. apply no_sweep_panic_core.
  apply core_run_iff. split; auto. eapply regular_core; eauto.
Qed.

Theorem regular_timeout_exact_core t0 aoft acts :
  (0 <= t0)%Z -> regular true acts -> N.of_nat (length acts) + 1 < InvDef.MAXREC ->
  forall s, In (s, ASweepT) (run_states (init_db t0 aoft) acts) ->
  forall e, In e (snd (step s ASweepT)) -> is_tr e = true ->
  exists sq conn c lockid lc lrc d,
    In (sq, AReq conn c) (run_states (init_db t0 aoft) acts) /\ c_lock c = true
    /\ e = reply conn (c <| c_lockid := lockid |>) R_TIMEOUT lc lrc d
    /\ now s = (now sq + Z.of_N (c_timeout c) * tunit c + 1)%Z.
Proof.
  intros H0 R Hn. apply regular_timeout_exact; auto. apply no_sweep_panic_core.
  apply core_run_iff. split; auto. eapply regular_core; eauto.
Qed.
