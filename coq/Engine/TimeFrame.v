(* Timer theorems, part 1: every helper of Queues.v / Timers.v / Engine.v that is not a timeout-wheel operation is a
   timeout frame (TimeBase.tframe): it cannot change the deadline, command, start time or owner connection of a live
   waiter, cannot take it out of the long timeout table and cannot touch the timeout wheel. *)
From Coq Require Import String ZifyN ZifyBool ZifyNat.
From Slock Require Import Engine.Types Engine.Queues Engine.Timers Engine.Engine Engine.Engine2 Engine.TimeBase.
Open Scope N_scope.

Section Frames.
Variable C : cmd -> Prop.

(* ------------------------------------------------------------------ holder queue *)
Lemma hq_compact_frame items : forall s,
  tframe C s (fst (hq_compact s items)) /\ incl (snd (hq_compact s items)) items.
Proof.
  induction items as [|r rest IH]; intros s; cbn.
  - split; [apply tframe_refl|apply incl_refl].
  - destruct (0 <? l_locked (getl s r)).
    + destruct (IH s) as [A B]. destruct (hq_compact s rest) as [s' kept]; cbn in *. split; auto.
      intros x [->|I]; [left; auto|right; auto].
    + destruct (IH (unref s r)) as [A B]. split.
      * eapply tframe_trans; [apply tframe_unref|exact A].
      * intros x I; right; auto.
Qed.

Lemma in_map_snd_adel (mp : amap ref) k x : In x (map snd (adel mp k)) -> In x (map snd mp).
Proof.
  induction mp as [|[k' v] rest IH]; cbn; auto. destruct (k' =? k); cbn; intuition.
Qed.

Lemma in_map_snd_aget (mp : amap ref) k x : aget mp k = Some x -> In x (map snd mp).
Proof.
  induction mp as [|[k' v] rest IH]; cbn; try discriminate. destruct (k' =? k); intuition congruence.
Qed.

Lemma hq_push_frame s q r :
  tframe C s (fst (hq_push s q r)) /\ incl (hq_refs (snd (hq_push s q r))) (r :: hq_refs q).
Proof.
  unfold hq_push. destruct (hq_scale q) as [[items mp]|] eqn:SC.
  - cbn. split; [apply tframe_refl|]. unfold hq_refs; cbn. rewrite SC.
    intros x I. repeat (rewrite in_app_iff in I || cbn [In] in I). cbn [In]. rewrite !in_app_iff.
    destruct I as [I|[[I|[I|[]]]|[I|I]]]; auto. apply in_map_snd_adel in I; auto.
  - destruct (hq_cap q =? 0).
    { cbn. split; [apply tframe_refl|]. unfold hq_refs; cbn. rewrite SC. intros x [->|[]]; left; auto. }
    destruct (hq_len q <? hq_cap q).
    { cbn. split; [apply tframe_refl|]. unfold hq_refs; cbn. rewrite SC, !app_nil_r.
      intros x I. apply in_app_iff in I. cbn in *. intuition. }
    destruct (hq_fast q) eqn:FQ.
    { cbn. split; [apply tframe_refl|]. unfold hq_refs; cbn. rewrite SC. intros x [->|[]]; left; auto. }
    rewrite <- FQ. destruct (hq_compact_frame (hq_fast q) s) as [A B].
    destruct (hq_compact s (hq_fast q)) as [s' kept]; cbn in A, B.
    assert (forall x, In x (kept ++ [r]) -> In x (r :: hq_refs q)) as K.
    { intros x I. apply in_app_iff in I. destruct I as [I|[->|[]]]; [right|left; auto].
      unfold hq_refs. apply in_app_iff; left. apply B; auto. }
    destruct (N.of_nat (length kept) <? hq_len q); [|destruct (hq_cap q <=? 128)]; cbn; split; auto;
      unfold hq_refs; cbn; rewrite ?SC, ?app_nil_r; auto.
    all: intros x I; apply in_app_iff in I; cbn [In] in *.
    + destruct I as [I|[->|[]]]; auto.
    + destruct I as [I|[->|[]]]; auto.
    + destruct I as [I|[->|[->|[]]]]; auto.
Qed.

Lemma hq_pop_refs q : incl (hq_refs (snd (hq_pop q))) (hq_refs q)
                      /\ forall r, fst (hq_pop q) = Some r -> In r (hq_refs q).
Proof.
  unfold hq_pop, hq_refs. destruct (hq_fast q) as [|r rest] eqn:F.
  - destruct (hq_scale q) as [[[|r rest] mp]|] eqn:SC.
    + cbn [fst snd]. rewrite F, SC. split; [apply incl_refl|discriminate].
    + cbn [fst snd]. change (hq_fast (q <| hq_scale := Some (rest, mp) |>)) with (hq_fast q).
      change (hq_scale (q <| hq_scale := Some (rest, mp) |>)) with (Some (rest, mp)). rewrite F. split.
      * intros x I. cbn [app] in *. right; auto.
      * intros x [= ->]. left; auto.
    + cbn [fst snd]. rewrite F, SC. split; [apply incl_refl|discriminate].
  - cbn [fst snd].
    change (hq_fast (q <| hq_fast := rest |> <| hq_fidx := hq_fidx q + 1 |>)) with rest.
    change (hq_scale (q <| hq_fast := rest |> <| hq_fidx := hq_fidx q + 1 |>)) with (hq_scale q). split.
    + intros x I. right. exact I.
    + intros x [= ->]. left; auto.
Qed.

Lemma hq_head_refs q r : hq_head q = Some r -> In r (hq_refs q).
Proof.
  unfold hq_head, hq_refs. destruct (hq_fast q) as [|x rest].
  - destruct (hq_scale q) as [[[|y rest] mp]|]; try discriminate. intros [= ->]. left; auto.
  - intros [= ->]. left; auto.
Qed.

Lemma hq_removelock_refs q id : incl (hq_refs (hq_removelock q id)) (hq_refs q).
Proof.
  unfold hq_removelock, hq_refs. destruct (hq_scale q) as [[items mp]|] eqn:SC; cbn; rewrite ?SC; [|apply incl_refl].
  intros x I. rewrite !in_app_iff in *. destruct I as [I|[I|I]]; auto. apply in_map_snd_adel in I; auto.
Qed.

Lemma promote_frame fuel : forall s q,
  let '(s', q', nc) := promote fuel s q in
  tframe C s s' /\ incl (hq_refs q') (hq_refs q) /\ forall r, nc = Some r -> In r (hq_refs q).
Proof.
  induction fuel as [|f IH]; intros s q; cbn.
  - split; [apply tframe_refl|split; [apply incl_refl|discriminate]].
  - destruct (hq_pop_refs q) as [P1 P2]. destruct (hq_pop q) as [[r|] q']; cbn in *.
    + destruct (0 <? l_locked (getl s r)).
      * split; [apply tframe_refl|]. split.
        -- eapply incl_tran; [apply hq_removelock_refs|exact P1].
        -- intros x [= <-]. auto.
      * specialize (IH (unref s r) q'). destruct (promote f (unref s r) q') as [[s' q''] nc].
        destruct IH as (A & B & D). split; [eapply tframe_trans; [apply tframe_unref|exact A]|].
        split; [eapply incl_tran; eauto|]. intros x Hx. apply P1. auto.
    + split; [apply tframe_refl|split; [auto|discriminate]].
Qed.

Lemma drop_dead_heads_frame fuel : forall s q,
  let '(s', q') := drop_dead_heads fuel s q in tframe C s s' /\ incl (hq_refs q') (hq_refs q).
Proof.
  induction fuel as [|f IH]; intros s q; cbn.
  - split; [apply tframe_refl|apply incl_refl].
  - destruct (hq_head q) as [r|]; [|split; [apply tframe_refl|apply incl_refl]].
    destruct (0 <? l_locked (getl s r)); [split; [apply tframe_refl|apply incl_refl]|].
    destruct (hq_pop_refs q) as [P1 _]. destruct (hq_pop q) as [o q']; cbn in *.
    specialize (IH (unref s r) q'). destruct (drop_dead_heads f (unref s r) q') as [s' q''].
    destruct IH as [A B]. split; [eapply tframe_trans; [apply tframe_unref|exact A]|eapply incl_tran; eauto].
Qed.

Lemma getm_some s k m : aget (mgrs s) k = Some m -> getm s k = m.
Proof. unfold getm; intros ->; reflexivity. Qed.

Lemma getm_holder s k x : In x (holder_refs (getm s k)) -> isholder s x.
Proof.
  unfold getm. destruct (aget (mgrs s) k) eqn:G; [|intros []]. intros I. exists k, m; auto.
Qed.

(* an updm at the end of a frame chain: the holder references it installs were holder references at the start of
   the chain, or are dead waiters now *)
Lemma tframe_updm_in s0 s k f :
  tframe C s0 s ->
  (forall x, In x (holder_refs (f (getm s k))) -> isholder s0 x \/ (tdead s x /\ x < next s)) ->
  tframe C s0 (updm s k f).
Proof.
  intros F Hf.
  assert (tview (updm s k f) = tview s) as V by apply updm_tview.
  assert (store (updm s k f) = store s) as ST by (apply tview_store; auto).
  destruct F as [n1 c1 x1 w1 g1 v1 m1 y1 h1].
  unfold tview in V. injection V as E1 E2 E3 E4 E5 E6 E7 E8 E9 E10.
  constructor; try congruence.
  - rewrite E8; auto.
  - rewrite E6, E8. auto.
  - rewrite E6; auto.
  - rewrite E6, E5; auto.
  - intros x (k' & m' & A & B). unfold tdead. rewrite ST, E5. fold (tdead s x).
    unfold updm in A. destruct (aget (mgrs s) k) eqn:G; [|apply h1; exists k', m'; auto].
    change (aget (aset (mgrs s) k (f m)) k' = Some m') in A. rewrite aget_aset in A. destruct (k =? k') eqn:E.
    + injection A as <-. rewrite (getm_some _ _ _ G) in Hf. auto.
    + apply h1. exists k', m'; auto.
Qed.

Lemma tframe_remove_lock s k r : tframe C s (remove_lock s k r).
Proof.
  unfold remove_lock.
  set (s1 := updl s r (fun l => l <| l_locked := 0 |> <| l_ack := 255 |>)).
  assert (tframe C s s1) as F1 by (apply tframe_updl; updl_side).
  assert (getm s1 k = getm s k) as M1 by (unfold getm; unfold s1; rewrite updl_mgrs; reflexivity).
  rewrite M1.
  destruct (match m_cur (getm s k) with Some c => c =? r | None => false end).
  - set (s2 := updl s1 r (fun l => l <| l_refc := dec8 (l_refc l) |>)).
    assert (tframe C s1 s2) as F2 by (apply tframe_updl; updl_side).
    destruct (m_locks (getm s k)) as [q|] eqn:ML.
    + pose proof (promote_frame (S (hq_size q)) s2 q) as P. destruct (promote (S (hq_size q)) s2 q) as [[s' q'] nc].
      destruct P as (A & B & D).
      apply tframe_updm_in; [eapply tframe_trans; [exact F1|eapply tframe_trans; [exact F2|exact A]]|].
      intros x I. left. apply (getm_holder s k). unfold holder_refs in *. cbn in I. rewrite ML.
      apply in_app_iff. right. apply in_app_iff in I. destruct I as [I|I]; auto.
      destruct nc as [c|]; [|destruct I]. destruct I as [<-|[]]. auto.
    + apply tframe_updm_in; [eapply tframe_trans; eauto|].
      intros x I. exfalso.
      assert (getm s2 k = getm s k) as M2 by (unfold getm, s2, s1; rewrite !updl_mgrs; reflexivity).
      unfold holder_refs in I; cbn in I. rewrite M2, ML in I. destruct I.
  - destruct (m_locks (getm s k)) as [q|] eqn:ML; auto.
    pose proof (drop_dead_heads_frame (S (hq_size (hq_removelock q (c_lockid (l_cmd (getl s1 r))))))
                  s1 (hq_removelock q (c_lockid (l_cmd (getl s1 r))))) as P.
    destruct (drop_dead_heads _ s1 _) as [s' q']. destruct P as [A B].
    apply tframe_updm_in; [eapply tframe_trans; eauto|].
    intros x I. unfold holder_refs in I. cbn in I. apply in_app_iff in I. destruct I as [I|I].
    + apply (tf_hold _ _ _ (tframe_trans _ _ _ _ F1 A)). apply (getm_holder s' k). unfold holder_refs.
      apply in_app_iff; left; auto.
    + left. apply (getm_holder s k). unfold holder_refs. rewrite ML. apply in_app_iff; right.
      eapply hq_removelock_refs. apply B. auto.
Qed.

(* ------------------------------------------------------------------ wait queue *)
Lemma wq_compact_frame items : forall s, tframe C s (fst (wq_compact s items)).
Proof.
  induction items as [|r rest IH]; intros s; cbn.
  - apply tframe_refl.
  - destruct (dead_waiter (getl s r)).
    + eapply tframe_trans; [apply tframe_unref|apply IH].
    + specialize (IH s). destruct (wq_compact s rest); cbn in *; auto.
Qed.

Lemma wq_push_frame s q r : tframe C s (fst (wq_push s q r)).
Proof.
  unfold wq_push. destruct (wq_mode q); try apply tframe_refl.
  destruct (wq_cap q =? 0); [apply tframe_refl|]. destruct (wq_len q <? wq_cap q); [apply tframe_refl|].
  destruct (wq_fast q) eqn:FQ; [apply tframe_refl|]. rewrite <- FQ.
  pose proof (wq_compact_frame (wq_fast q) s) as A. destruct (wq_compact s (wq_fast q)) as [s' kept]; cbn in A.
  destruct (N.of_nat (length kept) <? wq_len q); [|destruct (wq_cap q <=? 128)]; cbn; auto.
Qed.

Ltac mgr_id := intros ?m; apply incl_refl.

Lemma add_wait_lock_frame s k r : tframe C s (add_wait_lock s k r).
Proof.
  unfold add_wait_lock.
  match goal with |- context [wq_push s ?q r] => pose proof (wq_push_frame s q r) as A; destruct (wq_push s q r) as [s' q'] end.
  cbn in A. eapply tframe_trans; [exact A|].
  eapply tframe_trans; [|apply tframe_updm; mgr_id]. apply tframe_updl; updl_side.
Qed.

Lemma get_wait_loop_frame fuel : forall s q, tframe C s (fst (fst (get_wait_loop fuel s q))).
Proof.
  induction fuel as [|f IH]; intros s q; cbn; [apply tframe_refl|].
  destruct (wq_head q) as [r|]; [|apply tframe_refl].
  destruct (dead_waiter (getl s r)); [|apply tframe_refl].
  eapply tframe_trans; [apply tframe_unref|apply IH].
Qed.

Lemma get_wait_lock_frame s k : tframe C s (fst (get_wait_lock s k)).
Proof.
  unfold get_wait_lock. destruct (m_wait (getm s k)) as [q|]; [|apply tframe_refl].
  pose proof (get_wait_loop_frame (S (length (wq_items q))) s q) as A.
  destruct (get_wait_loop _ s q) as [[s' q'] w]; cbn in *.
  eapply tframe_trans; [exact A|apply tframe_updm; mgr_id].
Qed.

(* ------------------------------------------------------------------ AOF emission, expiry structures *)
Lemma tframe_same_store s s' :
  now s' = now s -> checkT s' = checkT s -> next s' = next s -> twheel s' = twheel s -> tlong s' = tlong s ->
  mgrs s' = mgrs s -> store s' = store s -> tframe C s s'.
Proof.
  intros. apply tframe_store; auto; try lia. intros r l' H'. right. exists l'. lsplit; auto. congruence.
Qed.

Lemma push_lock_aof_frame s k r fl : tframe C s (fst (push_lock_aof s k r fl)).
Proof.
  unfold push_lock_aof. destruct (negb (leader s)); [apply tframe_refl|].
  destruct (has (c_flag (l_cmd (getl s r))) LOCK_FLAG_FROM_AOF); [apply tframe_updl; updl_side|].
  destruct (aof_lock_data true (m_data (getm s k)) (l_data (getl s r))) as [[d cur'] ld']. cbn.
  eapply tframe_trans; [|apply tframe_updl; updl_side].
  eapply tframe_trans; [|apply tframe_updl; updl_side].
  apply tframe_updm; mgr_id.
Qed.

Lemma push_unlock_aof_frame s k r lc uc isaof fl : tframe C s (fst (push_unlock_aof s k r lc uc isaof fl)).
Proof.
  unfold push_unlock_aof. destruct (negb (leader s)); [apply tframe_refl|].
  destruct (match uc with Some u => has (c_flag u) UNLOCK_FLAG_FROM_AOF | None => false end); [apply tframe_updl; updl_side|].
  destruct (aof_lock_data false (m_data (getm s k)) (l_data (getl s r))) as [[d cur'] ld']. cbn.
  eapply tframe_trans; [|apply tframe_updl; updl_side].
  eapply tframe_trans; [|apply tframe_updl; updl_side].
  apply tframe_updm; mgr_id.
Qed.

Lemma repeat_push_lock_aof_frame n : forall s k r, tframe C s (fst (repeat_push_lock_aof n s k r)).
Proof.
  induction n as [|n IH]; intros s k r; cbn; [apply tframe_refl|].
  pose proof (push_lock_aof_frame s k r 0) as A. destruct (push_lock_aof s k r 0) as [s1 e1]; cbn in A.
  specialize (IH s1 k r). destruct (repeat_push_lock_aof n s1 k r) as [s2 e2]; cbn in *.
  eapply tframe_trans; eauto.
Qed.

Lemma add_expried_frame s k r : tframe C s (fst (add_expried s k r)).
Proof.
  unfold add_expried.
  set (s1 := updl s r (fun l => l <| l_expried := false |>)).
  assert (tframe C s s1) as F1 by (apply tframe_updl; updl_side).
  match goal with |- context [if ?c then ?a else ?b] =>
    assert (tframe C s1 (if c then a else b)) as F2; [|set (s2 := if c then a else b) in *] end.
  { destruct (QUEUE_MAX_WAIT <? l_ecc (getl s1 r)).
    - match goal with |- tframe _ _ (?x <| elong := _ |>) => apply (tframe_trans C _ x) end;
        [apply tframe_updl; updl_side|apply tframe_same_store; reflexivity].
    - eapply tframe_trans; [|apply tframe_updl; updl_side]. apply tframe_same_store; reflexivity. }
  cbv zeta. fold s2.
  destruct (negb (l_isaof (getl s2 r)) && negb (l_aoftime (getl s2 r) =? 255) && (Z.of_N (l_aoftime (getl s2 r)) <=? now s2 - l_start (getl s2 r))%Z).
  - eapply tframe_trans; [exact F1|]. eapply tframe_trans; [exact F2|]. apply repeat_push_lock_aof_frame.
  - cbn. eapply tframe_trans; eauto.
Qed.

Lemma remove_long_expried_frame s r eT : tframe C s (remove_long_expried s r eT).
Proof.
  unfold remove_long_expried. destruct (aget (elong s) (lkey eT)).
  - eapply tframe_trans; [|apply tframe_updl; updl_side]. apply tframe_same_store; reflexivity.
  - apply tframe_updl; updl_side.
Qed.

Lemma process_data_frame s k r c recov : tframe C s (fst (process_data s k r c recov)).
Proof.
  unfold process_data. destruct (c_data c); [|apply tframe_refl].
  destruct (process_lock_data _ _ _ _) as [[cur' ld']| | |]; cbn; try apply tframe_refl.
  eapply tframe_trans; [|apply tframe_updl; updl_side]. apply tframe_updm; mgr_id.
Qed.

End Frames.
