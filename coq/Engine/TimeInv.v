(* Timer theorems, part 4: the timeout invariant TA (never-early side) and its preservation by every critical
   section and by the sweep loops; the call log of doTimeOut. *)
From Coq Require Import String ZifyN ZifyBool ZifyNat.
From Slock Require Import Engine.Types Engine.Queues Engine.Timers Engine.Engine Engine.Engine2.
From Slock Require Import Engine.TimeBase Engine.TimeFrame Engine.TimeStep Engine.TimeWheel.
Open Scope N_scope.

Ltac Zify.zify_post_hook ::= Z.div_mod_to_equations.

(* the deadline of a waiter as GetOrNewLock computes it from the command and the queueing time *)
Definition qdl (l : lockrec) : Z := timeout_deadline (l_cmd l) (l_start l).
Definition tlive (s : db) (r : ref) (l : lockrec) : Prop := aget (store s) r = Some l /\ l_timeouted l = false.

Record TA (s : db) : Prop := mkTA {
  ta_now : (0 <= now s)%Z;
  ta_chk0 : (0 <= checkT s)%Z;
  ta_chk : (checkT s <= now s + 1)%Z;
  ta_dl : forall r l, tlive s r l -> l_tT l = qdl l;
  ta_long : forall k r l, In r (wheel_get (tlong s) k) -> tlive s r l -> l_tT l = Z.of_N k;
  ta_fresh : forall k r, In r (wheel_get (twheel s) k) \/ In r (wheel_get (tlong s) k) -> r < next s;
  ta_hd : HD s;
  ta_hf : HF s;
  ta_sk : SK s;
  ta_core : Pstore core_cmd s
}.

Lemma core_dummy : core_cmd dummy_cmd.
Proof. repeat split. Qed.

Lemma TA_frame s s' : TA s -> tframe core_cmd s s' -> TA s'.
Proof.
  intros [A1 A2 A3 A4 A5 A6 A7 A8 A9 A10] F. constructor.
  - rewrite (tf_now _ _ _ F); auto.
  - rewrite (tf_checkT _ _ _ F); auto.
  - rewrite (tf_checkT _ _ _ F), (tf_now _ _ _ F); auto.
  - intros r l' [G L]. destruct (tf_live _ _ _ F r l' G L) as (l & B1 & B2 & (T1 & T2 & T3 & T4) & _).
    unfold qdl. rewrite T1, T2, T3. apply (A4 r l); split; auto.
  - intros k r l' I [G L]. destruct (tf_live _ _ _ F r l' G L) as (l & B1 & B2 & (T1 & _) & _).
    rewrite T1. apply (A5 k r l); [apply (tf_long _ _ _ F); auto|split; auto].
  - intros k r I. pose proof (tf_next _ _ _ F). rewrite (tf_wheel _ _ _ F) in I.
    assert (r < next s); [|lia]. apply (A6 k r). destruct I; auto. right. apply (tf_long _ _ _ F); auto.
  - eapply HD_frame; eauto.
  - eapply HF_frame; eauto.
  - eapply SK_frame; eauto.
  - eapply Pstore_frame; eauto.
Qed.

(* ------------------------------------------------------------------ state changes that keep everything but the wheel *)
Lemma TA_wheel_only s s' :
  TA s -> now s' = now s -> checkT s' = checkT s -> next s' = next s -> store s' = store s -> tlong s' = tlong s ->
  mgrs s' = mgrs s ->
  (forall k r, In r (wheel_get (twheel s') k) -> In r (wheel_get (twheel s) k) \/ r < next s) ->
  TA s'.
Proof.
  intros [A1 A2 A3 A4 A5 A6 A7 A8 A9 A10] E1 E2 E3 E4 E5 E6 W. constructor; unfold tlive, HD, HF, SK, tdead, isholder, Pstore in *;
    rewrite ?E1, ?E2, ?E3, ?E4, ?E5, ?E6; auto.
  intros k r [I|I]; [destruct (W k r I); eauto|eauto].
Qed.

(* ------------------------------------------------------------------ refcount-only changes (AddWaitLock) *)
Definition sframe (s s' : db) : Prop :=
  forall r l', aget (store s') r = Some l' -> exists l, aget (store s) r = Some l /\ l' = l <| l_refc := l_refc l' |>.

Lemma sframe_refl s : sframe s s.
Proof. intros r l' H. exists l'. split; auto. destruct l'; reflexivity. Qed.

Lemma sframe_trans a b c : sframe a b -> sframe b c -> sframe a c.
Proof.
  intros F1 F2 r l' H. destruct (F2 r l' H) as (l1 & A & B). destruct (F1 r l1 A) as (l0 & A0 & B0).
  exists l0. split; auto. rewrite B, B0. destruct l0; reflexivity.
Qed.

Lemma sframe_store s s' : store s' = store s -> sframe s s'.
Proof. intros E r l' H. rewrite E in H. exists l'. split; auto. destruct l'; reflexivity. Qed.

Lemma sframe_updl_refc s r g : sframe s (updl s r (fun l => l <| l_refc := g l |>)).
Proof.
  intros r' l' H. rewrite aget_updl in H. destruct (r =? r').
  - destruct (aget (store s) r') eqn:G; cbn in H; try discriminate. injection H as <-. exists l. split; auto.
  - exists l'. split; auto. destruct l'; reflexivity.
Qed.

Lemma sframe_free_lock s r : sframe s (free_lock s r).
Proof.
  unfold free_lock. destruct (aget (store s) r); [|apply sframe_refl].
  intros r' l' H. rewrite (tview_store _ _ (updm_tview _ _ _)) in H.
  change (aget (adel (store s) r) r' = Some l') in H. rewrite aget_adel in H. destruct (r =? r'); try discriminate.
  exists l'. split; auto. destruct l'; reflexivity.
Qed.

Lemma sframe_unref s r : sframe s (unref s r).
Proof.
  unfold unref. destruct (aget (store s) r) eqn:G; [|apply sframe_refl].
  assert (sframe s (setl s r (l <| l_refc := dec8 (l_refc l) |>))) as H.
  { intros r' l' H. rewrite aget_setl in H. destruct (r =? r') eqn:E.
    - apply N.eqb_eq in E; subst r'. injection H as <-. exists l. split; auto.
    - exists l'. split; auto. destruct l'; reflexivity. }
  destruct (dec8 (l_refc l) =? 0); auto. eapply sframe_trans; [exact H|apply sframe_free_lock].
Qed.

Lemma sframe_wq_compact items : forall s, sframe s (fst (wq_compact s items)).
Proof.
  induction items as [|r rest IH]; intros s; cbn; [apply sframe_refl|].
  destruct (dead_waiter (getl s r)).
  - eapply sframe_trans; [apply sframe_unref|apply IH].
  - specialize (IH s). destruct (wq_compact s rest); cbn in *; auto.
Qed.

Lemma sframe_add_wait_lock s k r : sframe s (add_wait_lock s k r).
Proof.
  unfold add_wait_lock.
  match goal with |- context [wq_push s ?q r] => set (q0 := q) end.
  assert (sframe s (fst (wq_push s q0 r))) as A.
  { unfold wq_push. destruct (wq_mode q0); try apply sframe_refl.
    destruct (wq_cap q0 =? 0); [apply sframe_refl|]. destruct (wq_len q0 <? wq_cap q0); [apply sframe_refl|].
    destruct (wq_fast q0) eqn:FQ; [apply sframe_refl|]. rewrite <- FQ.
    pose proof (sframe_wq_compact (wq_fast q0) s) as A. destruct (wq_compact s (wq_fast q0)) as [s' kept]; cbn in A.
    destruct (N.of_nat (length kept) <? wq_len q0); [|destruct (wq_cap q0 <=? 128)]; cbn; auto. }
  destruct (wq_push s q0 r) as [s' q']. cbn in A.
  eapply sframe_trans; [exact A|]. eapply sframe_trans; [apply sframe_updl_refc|].
  apply sframe_store. apply tview_store. apply updm_tview.
Qed.

(* holder sets are untouched by AddWaitLock / GetOrNewLock *)
Definition hsame (s s' : db) : Prop := forall x, isholder s' x -> isholder s x.

Lemma hsame_trans a b c : hsame a b -> hsame b c -> hsame a c.
Proof. unfold hsame; auto. Qed.

Lemma hsame_updm s k f : (forall m, holder_refs (f m) = holder_refs m) -> hsame s (updm s k f).
Proof. intros H x. apply isholder_updm. intros m. rewrite H. apply incl_refl. Qed.

Lemma hsame_mgrs s s' : mgrs s' = mgrs s -> hsame s s'.
Proof. intros E x. apply isholder_mgrs; auto. Qed.

Lemma hsame_free_lock s r : hsame s (free_lock s r).
Proof.
  unfold free_lock. destruct (aget (store s) r); [|intros x; auto].
  eapply hsame_trans; [|apply hsame_updm; reflexivity]. apply hsame_mgrs. reflexivity.
Qed.

Lemma hsame_unref s r : hsame s (unref s r).
Proof.
  unfold unref. destruct (aget (store s) r); [|intros x; auto].
  destruct (dec8 (l_refc l) =? 0); [|apply hsame_mgrs; reflexivity].
  eapply hsame_trans; [|apply hsame_free_lock]. apply hsame_mgrs. reflexivity.
Qed.

Lemma hsame_wq_compact items : forall s, hsame s (fst (wq_compact s items)).
Proof.
  induction items as [|r rest IH]; intros s; cbn; [intros x; auto|].
  destruct (dead_waiter (getl s r)).
  - eapply hsame_trans; [apply hsame_unref|apply IH].
  - specialize (IH s). destruct (wq_compact s rest); cbn in *; auto.
Qed.

Lemma hsame_add_wait_lock s k r : hsame s (add_wait_lock s k r).
Proof.
  unfold add_wait_lock.
  match goal with |- context [wq_push s ?q r] => set (q0 := q) end.
  assert (hsame s (fst (wq_push s q0 r))) as A.
  { unfold wq_push. destruct (wq_mode q0); try (intros x; auto; fail).
    destruct (wq_cap q0 =? 0); [intros x; auto|]. destruct (wq_len q0 <? wq_cap q0); [intros x; auto|].
    destruct (wq_fast q0) eqn:FQ; [intros x; auto|]. rewrite <- FQ.
    pose proof (hsame_wq_compact (wq_fast q0) s) as A. destruct (wq_compact s (wq_fast q0)) as [s' kept]; cbn in A.
    destruct (N.of_nat (length kept) <? wq_len q0); [|destruct (wq_cap q0 <=? 128)]; cbn; auto. }
  destruct (wq_push s q0 r) as [s' q']. cbn in A.
  eapply hsame_trans; [exact A|]. eapply hsame_trans; [apply hsame_mgrs; apply updl_mgrs|].
  apply hsame_updm. reflexivity.
Qed.

Lemma hsame_new_lock s k conn c : hsame s (fst (new_lock s k conn c)).
Proof.
  unfold new_lock. cbn [fst]. eapply hsame_trans; [|apply hsame_updm; reflexivity]. apply hsame_mgrs. reflexivity.
Qed.

(* ------------------------------------------------------------------ the queueing exit of Lock *)
Lemma timeout_deadline_core c t :
  core_cmd c -> (0 <? c_timeout c) = true -> (t + 2 <= timeout_deadline c t)%Z.
Proof.
  intros (_ & M & _) T. unfold timeout_deadline. rewrite M. apply N.ltb_lt in T.
  destruct (has (c_tflag c) TF_MINUTE); lia.
Qed.

Lemma TA_queue_tail s1 k r lr :
  TA s1 -> aget (store s1) r = Some lr -> l_tcc lr = 1 -> l_tT lr = qdl lr ->
  (forall kk, ~ In r (wheel_get (tlong s1) kk)) -> ~ isholder s1 r ->
  TA (queue_tail s1 k r).
Proof.
  intros T1 G TC DL NL NH. unfold queue_tail.
  pose proof (TA_frame _ _ T1 (add_wait_lock_frame core_cmd s1 k r)) as T2.
  pose proof (sframe_add_wait_lock s1 k r) as SF.
  pose proof (hsame_add_wait_lock s1 k r) as HS.
  pose proof (add_wait_lock_frame core_cmd s1 k r) as F12.
  assert (r < next s1) as FR by (apply (ta_sk _ T1 r lr G)).
  set (s2 := add_wait_lock s1 k r) in *.
  assert (TA (add_timeout s2 r)) as T3.
  { pose proof (add_timeout_same s2 r) as SB. pose proof (tf_next _ _ _ F12) as NX.
    destruct (aget (store s2) r) as [l2|] eqn:G2.
    - destruct (SF r l2 G2) as (l1 & A & B). rewrite G in A. injection A as <-.
      assert (l_tcc l2 = 1 /\ l_tT l2 = qdl l2) as [TC2 DL2].
      { rewrite B. unfold qdl. cbn. split; auto. }
      destruct (add_timeout_short s2 r l2 G2) as (W & L & ST).
      { rewrite TC2. reflexivity. }
      destruct T2 as [A1 A2 A3 A4 A5 A6 A7 A8 A9 A10]. constructor.
      + rewrite (sb_now _ _ SB); auto.
      + rewrite (sb_checkT _ _ SB); auto.
      + rewrite (sb_checkT _ _ SB), (sb_now _ _ SB); auto.
      + intros x l [Gx Lx]. rewrite ST in Gx. destruct (r =? x) eqn:E.
        * injection Gx as <-. unfold qdl in *. cbn. auto.
        * apply (A4 x l); split; auto.
      + intros kk x l I [Gx Lx]. rewrite L in I. rewrite ST in Gx. destruct (r =? x) eqn:E.
        * apply N.eqb_eq in E; subst x. exfalso. apply (NL kk). apply (tf_long _ _ _ F12). auto.
        * apply (A5 kk x l); auto. split; auto.
      + intros kk x I. rewrite (sb_next _ _ SB). rewrite W, L in I. destruct I as [I|I]; [|apply (A6 kk x); auto].
        apply in_wheel_push in I. destruct I as [I|[_ ->]]; [apply (A6 kk x); auto|lia].
      + intros x (k' & m' & I1 & I2) l Gx. rewrite (sb_mgrs _ _ SB) in I1. rewrite ST in Gx.
        destruct (r =? x) eqn:E.
        * apply N.eqb_eq in E; subst x. exfalso. apply NH. apply HS. exists k', m'; auto.
        * apply (A7 x); [exists k', m'; auto|auto].
      + intros x (k' & m' & I1 & I2). rewrite (sb_mgrs _ _ SB) in I1. rewrite (sb_next _ _ SB).
        apply A8. exists k', m'; auto.
      + intros x l Gx. rewrite (sb_next _ _ SB). rewrite ST in Gx. destruct (r =? x) eqn:E.
        * apply N.eqb_eq in E; subst x. lia.
        * apply (A9 x l Gx).
      + intros x l Gx. rewrite ST in Gx. destruct (r =? x) eqn:E.
        * injection Gx as <-. cbn. apply (A10 r l2 G2).
        * apply (A10 x l Gx).
    - destruct (add_timeout_absent s2 r G2) as (ST & L & (slot & W)).
      apply (TA_wheel_only s2); auto; try apply SB.
      intros kk x I. rewrite W in I. apply in_wheel_push in I. destruct I as [I|[_ ->]]; auto. right; lia. }
  eapply TA_frame; [exact T3|].
  eapply tframe_trans; [|apply tframe_bump]. apply tframe_updl; updl_side.
Qed.

(* ------------------------------------------------------------------ AddTimeOut on a record that is already a live waiter
   (the re-check path of checkTimeTimeOut) *)
Lemma TA_add_timeout_live s r l :
  TA s -> tlive s r l -> (checkT s <= l_tT l)%Z ->
  TA (add_timeout s r)
  /\ (forall x lx, tlive (add_timeout s r) x lx -> exists l0, tlive s x l0 /\ l_tT lx = l_tT l0).
Proof.
  intros [A1 A2 A3 A4 A5 A6 A7 A8 A9 A10] [G Lv] CT.
  pose proof (add_timeout_same s r) as SB.
  assert (~ isholder s r) as NH.
  { intros I. specialize (A7 r I l G). congruence. }
  destruct (QUEUE_MAX_WAIT <? l_tcc l) eqn:T.
  - destruct (add_timeout_long s r l G T) as (W & L & ST). cbv zeta in *.
    assert ((l_tT l <? checkT s)%Z = false) as E by (apply Z.ltb_ge; auto). rewrite E in *.
    split.
    + constructor.
      * rewrite (sb_now _ _ SB); auto.
      * rewrite (sb_checkT _ _ SB); auto.
      * rewrite (sb_checkT _ _ SB), (sb_now _ _ SB); auto.
      * intros x lx [Gx Lx]. rewrite ST in Gx. destruct (r =? x) eqn:EQ.
        -- injection Gx as <-. unfold qdl. cbn. apply (A4 r l); split; auto.
        -- apply (A4 x lx); split; auto.
      * intros kk x lx I [Gx Lx]. rewrite L in I. apply in_wheel_push in I. rewrite ST in Gx.
        destruct (r =? x) eqn:EQ.
        -- apply N.eqb_eq in EQ; subst x. injection Gx as <-. cbn.
           destruct I as [I|[<- _]]; [apply (A5 kk r l I); split; auto|].
           unfold lkey. rewrite Z2N.id; lia.
        -- destruct I as [I|[_ ->]]; [apply (A5 kk x lx I); split; auto|]. rewrite N.eqb_refl in EQ. discriminate.
      * intros kk x I. rewrite (sb_next _ _ SB). rewrite W, L in I. destruct I as [I|I]; [apply (A6 kk x); auto|].
        apply in_wheel_push in I. destruct I as [I|[_ ->]]; [apply (A6 kk x); auto|apply (A9 r l G)].
      * intros x (k' & m' & I1 & I2) lx Gx. rewrite (sb_mgrs _ _ SB) in I1. rewrite ST in Gx.
        destruct (r =? x) eqn:EQ.
        -- apply N.eqb_eq in EQ; subst x. exfalso. apply NH. exists k', m'; auto.
        -- apply (A7 x); [exists k', m'; auto|auto].
      * intros x (k' & m' & I1 & I2). rewrite (sb_mgrs _ _ SB) in I1. rewrite (sb_next _ _ SB).
        apply A8. exists k', m'; auto.
      * intros x lx Gx. rewrite (sb_next _ _ SB). rewrite ST in Gx. destruct (r =? x) eqn:EQ.
        -- apply N.eqb_eq in EQ; subst x. apply (A9 r l G).
        -- apply (A9 x lx Gx).
      * intros x lx Gx. rewrite ST in Gx. destruct (r =? x) eqn:EQ.
        -- injection Gx as <-. cbn. apply (A10 r l G).
        -- apply (A10 x lx Gx).
    + intros x lx [Gx Lx]. rewrite ST in Gx. destruct (r =? x) eqn:EQ.
      * apply N.eqb_eq in EQ; subst x. injection Gx as <-. exists l. split; [split; auto|reflexivity].
      * exists lx. split; [split; auto|reflexivity].
  - destruct (add_timeout_short s r l G T) as (W & L & ST).
    split.
    + constructor.
      * rewrite (sb_now _ _ SB); auto.
      * rewrite (sb_checkT _ _ SB); auto.
      * rewrite (sb_checkT _ _ SB), (sb_now _ _ SB); auto.
      * intros x lx [Gx Lx]. rewrite ST in Gx. destruct (r =? x) eqn:EQ.
        -- injection Gx as <-. unfold qdl. cbn. apply (A4 r l); split; auto.
        -- apply (A4 x lx); split; auto.
      * intros kk x lx I [Gx Lx]. rewrite L in I. rewrite ST in Gx.
        destruct (r =? x) eqn:EQ.
        -- apply N.eqb_eq in EQ; subst x. injection Gx as <-. cbn. apply (A5 kk r l I); split; auto.
        -- apply (A5 kk x lx I); split; auto.
      * intros kk x I. rewrite (sb_next _ _ SB). rewrite W, L in I. destruct I as [I|I]; [|apply (A6 kk x); auto].
        apply in_wheel_push in I. destruct I as [I|[_ ->]]; [apply (A6 kk x); auto|apply (A9 r l G)].
      * intros x (k' & m' & I1 & I2) lx Gx. rewrite (sb_mgrs _ _ SB) in I1. rewrite ST in Gx.
        destruct (r =? x) eqn:EQ.
        -- apply N.eqb_eq in EQ; subst x. exfalso. apply NH. exists k', m'; auto.
        -- apply (A7 x); [exists k', m'; auto|auto].
      * intros x (k' & m' & I1 & I2). rewrite (sb_mgrs _ _ SB) in I1. rewrite (sb_next _ _ SB).
        apply A8. exists k', m'; auto.
      * intros x lx Gx. rewrite (sb_next _ _ SB). rewrite ST in Gx. destruct (r =? x) eqn:EQ.
        -- apply N.eqb_eq in EQ; subst x. apply (A9 r l G).
        -- apply (A9 x lx Gx).
      * intros x lx Gx. rewrite ST in Gx. destruct (r =? x) eqn:EQ.
        -- injection Gx as <-. cbn. apply (A10 r l G).
        -- apply (A10 x lx Gx).
    + intros x lx [Gx Lx]. rewrite ST in Gx. destruct (r =? x) eqn:EQ.
      * apply N.eqb_eq in EQ; subst x. injection Gx as <-. exists l. split; [split; auto|reflexivity].
      * exists lx. split; [split; auto|reflexivity].
Qed.

(* ------------------------------------------------------------------ the sweep loops *)
Definition Due (nowv : Z) (due : list ref) (s : db) : Prop :=
  forall r l, In r due -> tlive s r l -> (l_tT l <= nowv)%Z.

Lemma Due_frame nowv due s s' : Due nowv due s -> tframe core_cmd s s' -> Due nowv due s'.
Proof.
  intros D F r l' I [G L]. destruct (tf_live _ _ _ F r l' G L) as (l & B1 & B2 & (T1 & _) & _).
  rewrite T1. apply (D r l); auto. split; auto.
Qed.

Lemma Due_app nowv d1 d2 s : Due nowv d1 s -> Due nowv d2 s -> Due nowv (d1 ++ d2) s.
Proof. intros A B r l I. apply in_app_iff in I. destruct I; eauto. Qed.

Lemma wheel_get_aset w k v k' : wheel_get (aset w k v) k' = if k =? k' then v else wheel_get w k'.
Proof. unfold wheel_get. rewrite aget_aset. destruct (k =? k'); reflexivity. Qed.

Lemma wheel_get_adel (w : amap (list ref)) k k' : wheel_get (adel w k) k' = if k =? k' then [] else wheel_get w k'.
Proof. unfold wheel_get. rewrite aget_adel. destruct (k =? k'); reflexivity. Qed.

Lemma TA_long_shrink s s' :
  TA s -> now s' = now s -> checkT s' = checkT s -> next s' = next s -> store s' = store s -> twheel s' = twheel s ->
  mgrs s' = mgrs s ->
  (forall k r, In r (wheel_get (tlong s') k) -> In r (wheel_get (tlong s) k)) ->
  TA s'.
Proof.
  intros [A1 A2 A3 A4 A5 A6 A7 A8 A9 A10] E1 E2 E3 E4 E5 E6 W.
  constructor; unfold tlive, HD, HF, SK, tdead, isholder, Pstore in *; rewrite ?E1, ?E2, ?E3, ?E4, ?E5, ?E6; auto.
  - intros k r l I. apply A5. auto.
  - intros k r [I|I]; eauto.
Qed.

Lemma sweep_t_slot_TA nowv slot : forall fuel s due,
  TA s -> checkT s = (nowv + 1)%Z -> Due nowv due s ->
  let '(s', due') := sweep_t_slot fuel s slot nowv due in
  TA s' /\ checkT s' = (nowv + 1)%Z /\ now s' = now s /\ Due nowv due' s'.
Proof.
  induction fuel as [|f IH]; intros s due T CK D; cbn [sweep_t_slot]; [auto|].
  destruct (wheel_get (twheel s) slot) as [|r rest] eqn:WG; [auto|].
  set (s1 := s <| twheel := aset (twheel s) slot rest |>).
  assert (TA s1) as T1.
  { apply (TA_wheel_only s); auto. intros k x I. left. unfold s1 in I. cbn in I. rewrite wheel_get_aset in I.
    destruct (slot =? k) eqn:E; auto. apply N.eqb_eq in E; subst k. rewrite WG. right; auto. }
  assert (Due nowv due s1) as D1 by exact D.
  change (getl s1 r) with (getl s r). change (store s1) with (store s).
  destruct (aget (store s) r) as [l|] eqn:G.
  - rewrite (getl_some _ _ _ G). cbv iota.
    destruct (l_timeouted l) eqn:LV; cbn [negb].
    + pose proof (tframe_unref_mgr core_cmd s1 r (l_key l)) as F. cbv zeta in F.
      match type of F with tframe _ _ ?x => specialize (IH x due (TA_frame _ _ T1 F)) end.
      rewrite (tf_checkT _ _ _ F) in IH. specialize (IH CK (Due_frame _ _ _ _ D1 F)).
      match goal with |- let '(_, _) := ?e in _ => destruct e as [s' due'] end.
      rewrite (tf_now _ _ _ F) in IH. exact IH.
    + destruct (nowv <? l_tT l)%Z eqn:LT.
      * set (s2 := updl s1 r (fun l0 => l0 <| l_tcc := (l_tcc l0 + 1) mod 256 |>)).
        assert (tframe core_cmd s1 s2) as F2 by (apply tframe_updl; updl_side).
        pose proof (TA_frame _ _ T1 F2) as T2.
        assert (tlive s2 r (l <| l_tcc := (l_tcc l + 1) mod 256 |>)) as LV2.
        { split; [|exact LV]. unfold s2. rewrite aget_updl, N.eqb_refl. change (store s1) with (store s). rewrite G. reflexivity. }
        destruct (TA_add_timeout_live s2 r _ T2 LV2) as [T3 MONO].
        { unfold s2. rewrite updl_checkT. change (checkT s1) with (checkT s). cbn. apply Z.ltb_lt in LT. lia. }
        pose proof (add_timeout_same s2 r) as SB.
        specialize (IH (add_timeout s2 r) due T3).
        rewrite (sb_checkT _ _ SB) in IH. unfold s2 in IH at 1. rewrite updl_checkT in IH. specialize (IH CK).
        assert (Due nowv due (add_timeout s2 r)) as D3.
        { intros x lx I LX. destruct (MONO x lx LX) as (l0 & L0 & E). rewrite E.
          apply (Due_frame _ _ _ _ D1 F2 x l0 I L0). }
        specialize (IH D3).
        match goal with |- let '(_, _) := ?e in _ => destruct e as [s' due'] end.
        rewrite (sb_now _ _ SB) in IH. unfold s2 in IH. rewrite updl_now in IH. exact IH.
      * specialize (IH s1 (due ++ [r]) T1 CK).
        assert (Due nowv (due ++ [r]) s1) as D2.
        { apply Due_app; auto. intros x lx [<-|[]] [Gx _]. change (store s1) with (store s) in Gx.
          rewrite G in Gx. injection Gx as <-. apply Z.ltb_ge in LT. auto. }
        specialize (IH D2).
        match goal with |- let '(_, _) := ?e in _ => destruct e as [s' due'] end. exact IH.
  - cbv iota. lsplit; auto. apply Due_app; auto. intros x lx [<-|[]] [Gx _]. change (store s1) with (store s) in Gx. congruence.
Qed.

Lemma sweep_long_TA nowv : forall items s due,
  TA s -> Due nowv due s -> Due nowv items s ->
  let '(s', due') := sweep_long s items true due in
  TA s' /\ checkT s' = checkT s /\ now s' = now s /\ Due nowv due' s'.
Proof.
  induction items as [|r rest IH]; intros s due T D DI; cbn [sweep_long]; [auto|].
  set (s1 := updl s r (fun l => l <| l_long := false |>)).
  assert (tframe core_cmd s s1) as F1 by (apply tframe_updl; updl_side).
  pose proof (TA_frame _ _ T F1) as T1.
  pose proof (Due_frame _ _ _ _ D F1) as D1. pose proof (Due_frame _ _ _ _ DI F1) as DI1.
  assert (Due nowv rest s1) as DR by (intros x lx I; apply DI1; right; auto).
  destruct (l_timeouted (getl s1 r)) eqn:LV; cbn [negb].
  - pose proof (tframe_unref_mgr core_cmd s1 r (l_key (getl s1 r))) as F. cbv zeta in F.
    match type of F with tframe _ _ ?x => specialize (IH x due (TA_frame _ _ T1 F) (Due_frame _ _ _ _ D1 F) (Due_frame _ _ _ _ DR F)) end.
    match goal with |- let '(_, _) := ?e in _ => destruct e as [s' due'] end.
    rewrite (tf_now _ _ _ F), (tf_checkT _ _ _ F), (tf_now _ _ _ F1), (tf_checkT _ _ _ F1) in IH. exact IH.
  - assert (Due nowv (due ++ [r]) s1) as D2.
    { apply Due_app; auto. intros x lx [<-|[]]. apply DI1. left; auto. }
    specialize (IH s1 (due ++ [r]) T1 D2 DR).
    match goal with |- let '(_, _) := ?e in _ => destruct e as [s' due'] end.
    rewrite (tf_now _ _ _ F1), (tf_checkT _ _ _ F1) in IH. exact IH.
Qed.

Lemma collect_timeouts_TA s t nowv :
  TA s -> checkT s = (nowv + 1)%Z -> (0 <= t <= nowv)%Z ->
  let '(s', due) := collect_timeouts s t nowv in
  TA s' /\ checkT s' = (nowv + 1)%Z /\ now s' = now s /\ Due nowv due s'.
Proof.
  intros T CK R. unfold collect_timeouts.
  pose proof (sweep_t_slot_TA nowv (slot_of t) (10 * length (wheel_get (twheel s) (slot_of t)) + 10) s [] T CK) as A.
  destruct (sweep_t_slot _ s (slot_of t) nowv []) as [s1 due1].
  destruct A as (T1 & CK1 & N1 & D1). { intros r l []. }
  destruct (aget (tlong s1) (lkey t)) as [items|] eqn:G; [|auto].
  set (s2 := s1 <| tlong := adel (tlong s1) (lkey t) |>).
  assert (TA s2) as T2.
  { apply (TA_long_shrink s1); auto. intros k r I. unfold s2 in I. cbn in I. rewrite wheel_get_adel in I.
    destruct (lkey t =? k); auto. destruct I. }
  assert (Due nowv items s2) as DI.
  { intros r l I LV. assert (l_tT l = Z.of_N (lkey t)) as E.
    { apply (ta_long _ T1 (lkey t) r l); auto. unfold wheel_get. rewrite G. auto. }
    rewrite E. unfold lkey. rewrite Z2N.id; lia. }
  pose proof (sweep_long_TA nowv items s2 due1 T2 D1 DI) as B.
  destruct (sweep_long s2 items true due1) as [s3 due3]. destruct B as (T3 & CK3 & N3 & D3).
  lsplit; auto; [rewrite CK3; exact CK1|rewrite N3; exact N1].
Qed.

Definition core_finish_frame s0 res :=
  finish_frame core_cmd core_dummy (fun c H => H) s0 res.

Lemma fire_all_TA : forall due s,
  TA s ->
  let s' := fst (fire_all do_timeout s due) in TA s' /\ checkT s' = checkT s /\ now s' = now s.
Proof.
  induction due as [|r rest IH]; intros s T; cbn [fire_all]; [cbn; auto|].
  pose proof (core_finish_frame s (do_timeout s r) (ta_core _ T) (ta_sk _ T) (do_timeout_frame core_cmd s r)) as F.
  destruct (finish (do_timeout s r)) as [s1 e1]. cbn [fst] in F.
  specialize (IH s1 (TA_frame _ _ T F)). destruct (fire_all do_timeout s1 rest) as [s2 e2]. cbn [fst] in *.
  rewrite (tf_checkT _ _ _ F), (tf_now _ _ _ F) in IH. exact IH.
Qed.

Lemma sweep_t_secs_TA nowv : forall n s t,
  TA s -> checkT s = (nowv + 1)%Z -> (0 <= t)%Z -> (t + Z.of_nat n <= nowv + 1)%Z ->
  let s' := fst (sweep_t_secs n s t nowv) in TA s' /\ checkT s' = (nowv + 1)%Z /\ now s' = now s.
Proof.
  induction n as [|n IH]; intros s t T CK T0 TN; cbn [sweep_t_secs]; [cbn; auto|].
  pose proof (collect_timeouts_TA s t nowv T CK ltac:(lia)) as A.
  destruct (collect_timeouts s t nowv) as [s1 due]. destruct A as (T1 & CK1 & N1 & D1).
  pose proof (fire_all_TA due s1 T1) as B. destruct (fire_all do_timeout s1 due) as [s2 e2].
  cbn [fst] in B. destruct B as (T2 & CK2 & N2).
  specialize (IH s2 (t + 1)%Z T2 ltac:(congruence) ltac:(lia) ltac:(lia)).
  destruct (sweep_t_secs n s2 (t + 1) nowv) as [s3 e3]. cbn [fst] in *.
  destruct IH as (T3 & CK3 & N3). lsplit; auto; congruence.
Qed.

Lemma TA_set_checkT s : TA s -> TA (s <| checkT := (now s + 1)%Z |>).
Proof.
  intros [A1 A2 A3 A4 A5 A6 A7 A8 A9 A10]. constructor; auto; cbn; lia.
Qed.

Lemma sweep_timeouts_TA s : TA s -> TA (fst (sweep_timeouts s)) /\ now (fst (sweep_timeouts s)) = now s
                                   /\ checkT (fst (sweep_timeouts s)) = (now s + 1)%Z.
Proof.
  intros T. unfold sweep_timeouts.
  pose proof (sweep_t_secs_TA (now s) (Z.to_nat (now s + 1 - checkT s)) (s <| checkT := (now s + 1)%Z |>) (checkT s)
                (TA_set_checkT _ T) eq_refl (ta_chk0 _ T)) as A.
  destruct A as (T1 & CK1 & N1); [pose proof (ta_chk _ T); lia|]. lsplit; auto.
Qed.
