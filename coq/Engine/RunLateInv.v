(* Run-level expiry theorems (property C06), UPPER BOUND, part 2: the placement invariant EW of the expiry structures.
   EW X f s  (X : the records whose deadline may have been SHORTENED by an update / re-lock; f : the first second the
   expiry sweeper has not scanned yet):
     ew_nu : no stored command carries the un-renew flag;
     ew_st : a live hold (l_expried = false) has  2^63-1 <= l_eT  or  l_start + 1 <= l_eT;
     ew_wh : an entry r of slot k of the 16-slot expiry wheel that is a live hold l was placed for a second d with
             slot_of d = k,  f <= d <= now + 9,  and  d <= l_eT l  (or l_eT >= 2^63-1) -- or, for r in X only,  d <= l_start l + 9
             (the update that shortened the deadline left the entry where the last re-check had put it);
     ew_lg : an entry of the long expiry table that is a live hold has  f <= l_eT  or  2^63-1 <= l_eT  (with KL: it is
             stored under l_eT).
   The clauses speak about the ENTRIES (like KL); that every held record has an entry is the refcount floor JR. *)
From Coq Require Import String ZifyN ZifyBool ZifyNat.
From Slock Require Import Engine.Types Engine.Queues Engine.Timers Engine.Engine Engine.Engine2.
From Slock Require Import Engine.TimeBase Engine.TimeWheel Engine.LocalBase Engine.LocalWake Engine.TimeExp Engine.RunExpK Engine.RunLateFr.
Open Scope N_scope.

Ltac Zify.zify_post_hook ::= Z.div_mod_to_equations.

Definition stok (l : lockrec) : Prop := (MAXT <= l_eT l)%Z \/ (l_start l + 1 <= l_eT l)%Z.

Definition wbound (X : ref -> Prop) (nowv : Z) (r : ref) (l : lockrec) (d : Z) : Prop :=
  (d <= nowv + 9)%Z /\ ((d <= l_eT l)%Z \/ (MAXT <= l_eT l)%Z \/ (X r /\ (d <= l_start l + 9)%Z)).

Record EW (X : ref -> Prop) (f : Z) (s : db) : Prop := mkEW {
  ew_nu : forall r l, aget (store s) r = Some l -> nu (l_cmd l);
  ew_st : forall r l, elive s r l -> stok l;
  ew_wh : forall k r l, In r (wheel_get (ewheel s) k) -> elive s r l ->
          exists d, slot_of d = k /\ (f <= d)%Z /\ wbound X (now s) r l d;
  ew_lg : forall kk r l, In r (wheel_get (elong s) kk) -> elive s r l -> (f <= l_eT l)%Z \/ (MAXT <= l_eT l)%Z
}.

Lemma EW_init X f t0 a : EW X f (init_db t0 a).
Proof.
  constructor.
  - intros r l G. discriminate.
  - intros r l [G _]. discriminate.
  - intros k r l [].
  - intros k r l [].
Qed.

Lemma elive_wfr s s' r l' : wfr s s' -> elive s' r l' -> exists l, elive s r l /\ wsame l l'.
Proof.
  intros (_ & _ & _ & _ & _ & F) [G L]. destruct (F r l' G) as [(l & G0 & S)|(D & _)]; [|congruence].
  exists l. split; auto. split; auto. destruct S as (E1 & _). congruence.
Qed.

Lemma EW_wfr X f s s' : EW X f s -> wfr s s' -> EW X f s'.
Proof.
  intros [A1 A2 A3 A4] F. pose proof F as (N & _ & _ & W1 & W2 & W3). constructor.
  - intros r l' G. destruct (W3 r l' G) as [(l & G0 & (_ & _ & _ & E))|(_ & [Cc|(l & G0 & E)])]; auto; rewrite E; eauto.
  - intros r l' LV. destruct (elive_wfr _ _ _ _ F LV) as (l & LV0 & (_ & E2 & E3 & _)).
    specialize (A2 r l LV0). unfold stok in *. rewrite E2, E3. exact A2.
  - intros k r l' I LV. destruct (elive_wfr _ _ _ _ F LV) as (l & LV0 & (_ & E2 & E3 & _)).
    destruct (A3 k r l (W1 k r I) LV0) as (d & D1 & D2 & D3). exists d. split; auto. split; auto.
    unfold wbound in *. rewrite N, E2, E3. exact D3.
  - intros kk r l' I LV. destruct (elive_wfr _ _ _ _ F LV) as (l & LV0 & (_ & E2 & _)).
    rewrite E2. eauto.
Qed.

Lemma EW_weaken X f f' s : (f' <= f)%Z -> EW X f s -> EW X f' s.
Proof.
  intros H [A1 A2 A3 A4]. constructor; auto.
  - intros k r l I LV. destruct (A3 k r l I LV) as (d & D1 & D2 & D3). exists d. repeat split; auto; try apply D3. lia.
  - intros kk r l I LV. specialize (A4 kk r l I LV). lia.
Qed.

Lemma EW_mono (X Y : ref -> Prop) f s : (forall r, X r -> Y r) -> EW X f s -> EW Y f s.
Proof.
  intros H [A1 A2 A3 A4]. constructor; auto.
  intros k r l I LV. destruct (A3 k r l I LV) as (d & D1 & D2 & D3 & D4). exists d. repeat split; auto.
  destruct D4 as [D4|[D4|[D4 D5]]]; [left; auto|right; left; auto|right; right; auto].
Qed.

(* states that differ in the scalars checkT / checkE / leader / counters only *)
Lemma EW_view X f s s' :
  store s' = store s -> ewheel s' = ewheel s -> elong s' = elong s -> (now s <= now s')%Z -> EW X f s -> EW X f s'.
Proof.
  intros E1 E2 E3 N [A1 A2 A3 A4]. unfold elive in *. constructor; unfold elive; rewrite ?E1, ?E2, ?E3; auto.
  intros k r l I LV. destruct (A3 k r l I LV) as (d & D1 & D2 & D3 & D4). exists d. repeat split; auto. lia.
Qed.

(* a record that is in neither expiry structure may be rewritten at will *)
Lemma EW_setl_out X f s r l' :
  EW X f s -> (forall k, ~ In r (wheel_get (ewheel s) k)) -> (forall kk, ~ In r (wheel_get (elong s) kk)) ->
  nu (l_cmd l') -> (l_expried l' = false -> stok l') -> EW X f (setl s r l').
Proof.
  intros [A1 A2 A3 A4] NW NL Hc Hs. constructor.
  - intros x l G. rewrite aget_setl in G. destruct (r =? x); [injection G as <-; auto|eauto].
  - intros x l [G L]. rewrite aget_setl in G. destruct (r =? x); [injection G as <-; auto|apply (A2 x l); split; auto].
  - intros k x l I [G L]. change (ewheel (setl s r l')) with (ewheel s) in I. rewrite aget_setl in G.
    destruct (r =? x) eqn:E; [apply N.eqb_eq in E; subst x; exfalso; eapply NW; eauto|].
    apply (A3 k x l I). split; auto.
  - intros kk x l I [G L]. change (elong (setl s r l')) with (elong s) in I. rewrite aget_setl in G.
    destruct (r =? x) eqn:E; [apply N.eqb_eq in E; subst x; exfalso; eapply NL; eauto|].
    apply (A4 kk x l I). split; auto.
Qed.

(* ---------------------------------------------------------------- AddExpried *)
Lemma arm_shape s r l : aget (store s) r = Some l ->
  now (arm s r) = now s
  /\ (if QUEUE_MAX_WAIT <? l_ecc l
      then ewheel (arm s r) = ewheel s
           /\ elong (arm s r) = wheel_push (elong s) (lkey (if (l_eT l <? checkE s)%Z then checkE s else l_eT l)) r
      else ewheel (arm s r) = wheel_push (ewheel s) (slot_of (eslot_time (checkE s) l)) r /\ elong (arm s r) = elong s).
Proof.
  intros G. unfold arm. cbv zeta. rewrite (getl_updl_same _ _ _ _ G).
  change (l_ecc (l <| l_expried := false |>)) with (l_ecc l).
  change (l_eT (l <| l_expried := false |>)) with (l_eT l). rewrite updl_checkE.
  destruct (QUEUE_MAX_WAIT <? l_ecc l).
  - split; [cbn; rewrite !updl_now; reflexivity|]. split; cbn; rewrite ?updl_ewheel, ?updl_elong; reflexivity.
  - split; [rewrite updl_now; cbn; rewrite updl_now; reflexivity|].
    split; [rewrite updl_ewheel; cbn; rewrite updl_ewheel; reflexivity|rewrite updl_elong; cbn; rewrite updl_elong; reflexivity].
Qed.

Lemma EW_arm X f s r l :
  EW X f s -> aget (store s) r = Some l ->
  (forall k, ~ In r (wheel_get (ewheel s) k)) -> (forall kk, ~ In r (wheel_get (elong s) kk)) ->
  stok l -> (f <= checkE s <= now s + 1)%Z ->
  ((checkE s <= l_eT l)%Z \/ (MAXT <= l_eT l)%Z \/ (X r /\ (checkE s <= l_start l + 9)%Z)) ->
  EW X f (arm s r).
Proof.
  intros [A1 A2 A3 A4] G NW NL Hs Hc Hb.
  pose proof (arm_store s r l G) as ST. destruct (arm_shape s r l G) as (N & SH).
  assert (OTH : forall x lx, x <> r -> elive (arm s r) x lx -> elive s x lx).
  { intros x lx NE [Gx Lx]. rewrite ST in Gx. destruct (r =? x) eqn:E; [apply N.eqb_eq in E; congruence|split; auto]. }
  constructor.
  - intros x lx Gx. rewrite ST in Gx. destruct (r =? x); [|eauto]. injection Gx as <-.
    destruct (QUEUE_MAX_WAIT <? l_ecc l); cbn; eauto.
  - intros x lx LV. destruct (N.eq_dec x r) as [->|NE]; [|apply (A2 x lx); auto].
    destruct LV as [Gx _]. rewrite ST, N.eqb_refl in Gx. injection Gx as <-.
    unfold stok in *. destruct (QUEUE_MAX_WAIT <? l_ecc l); cbn; [|exact Hs].
    destruct (l_eT l <? checkE s)%Z eqn:E; [apply Z.ltb_lt in E; lia|exact Hs].
  - intros k x lx I LV. rewrite N. destruct (QUEUE_MAX_WAIT <? l_ecc l) eqn:EC; destruct SH as [SW SL]; rewrite SW in I.
    + destruct (N.eq_dec x r) as [->|NE]; [exfalso; eapply NW; eauto|]. apply (A3 k x lx I). auto.
    + apply in_wheel_push in I. destruct I as [I|[<- ->]].
      * destruct (N.eq_dec x r) as [->|NE]; [exfalso; eapply NW; eauto|]. apply (A3 k x lx I). auto.
      * destruct LV as [Gx _]. rewrite ST, N.eqb_refl in Gx. injection Gx as <-.
        destruct (eslot_time_range (checkE s) l EC) as [R1 R2].
        exists (eslot_time (checkE s) l). split; [reflexivity|]. split; [lia|]. unfold wbound. cbn.
        split; [lia|]. destruct Hb as [Hb|[Hb|[Hx Hb]]]; [left; lia|right; left; exact Hb|].
        destruct (Z_le_gt_dec (checkE s) (l_eT l)); [left; lia|right; right; split; auto; lia].
  - intros kk x lx I LV. destruct (QUEUE_MAX_WAIT <? l_ecc l) eqn:EC; destruct SH as [SW SL]; rewrite SL in I.
    + apply in_wheel_push in I. destruct I as [I|[<- ->]].
      * destruct (N.eq_dec x r) as [->|NE]; [exfalso; eapply NL; eauto|]. apply (A4 kk x lx I). auto.
      * destruct LV as [Gx _]. rewrite ST, N.eqb_refl in Gx. injection Gx as <-. cbn.
        left. destruct (l_eT l <? checkE s)%Z eqn:E; [lia|apply Z.ltb_ge in E; lia].
    + destruct (N.eq_dec x r) as [->|NE]; [exfalso; eapply NL; eauto|]. apply (A4 kk x lx I). auto.
Qed.

Lemma wfr_add_expried_arm s0 s k r : wfr s0 (arm s r) -> wfr s0 (fst (add_expried s k r)).
Proof.
  intros H. unfold add_expried. fold (arm s r). cbv zeta.
  match goal with |- context [if ?b then _ else _] => destruct b end; [apply wfr_repeat_push|]; exact H.
Qed.

Lemma EW_add_expried X f s k r l :
  EW X f s -> aget (store s) r = Some l ->
  (forall k, ~ In r (wheel_get (ewheel s) k)) -> (forall kk, ~ In r (wheel_get (elong s) kk)) ->
  stok l -> (f <= checkE s <= now s + 1)%Z ->
  ((checkE s <= l_eT l)%Z \/ (MAXT <= l_eT l)%Z \/ (X r /\ (checkE s <= l_start l + 9)%Z)) ->
  EW X f (fst (add_expried s k r)).
Proof. intros. eapply EW_wfr; [eapply EW_arm; eauto|]. apply wfr_add_expried_arm, wfr_refl. Qed.

(* ---------------------------------------------------------------- AddLock *)
Lemma wfr_add_lock_after s k r : wfr (setl s r (add_lock_rec s k r)) (add_lock s k r).
Proof.
  rewrite add_lock_unfold. cbv zeta. destruct (m_cur (getm s k)); [|apply wfr_updm, wfr_refl].
  match goal with |- context [hq_push ?a ?q r] =>
    pose proof (wfr_hq_push a a q r (wfr_refl a)) as A; destruct (hq_push a q r) as [s' q'] end.
  cbn [fst] in A. apply wfr_updm. exact A.
Qed.

Lemma expiry_deadline_stok c t : (MAXT <= expiry_deadline c t)%Z \/ (t + 1 <= expiry_deadline c t)%Z.
Proof.
  unfold expiry_deadline. destruct (has (c_eflag c) EF_UNLIMITED); [left; lia|right].
  destruct (has (c_eflag c) EF_MILLISECOND); [lia|]. destruct (has (c_eflag c) EF_MINUTE); lia.
Qed.

Lemma add_lock_rec_late s k r l : aget (store s) r = Some l -> nu (l_cmd l) ->
  l_cmd (add_lock_rec s k r) = l_cmd l /\ l_expried (add_lock_rec s k r) = l_expried l
  /\ l_start (add_lock_rec s k r) = now s /\ l_eT (add_lock_rec s k r) = expiry_deadline (l_cmd l) (now s).
Proof.
  intros G U. unfold add_lock_rec. cbv zeta. rewrite (getl_some _ _ _ G). unfold nu in U. rewrite U.
  destruct (has (c_flag (l_cmd l)) LOCK_FLAG_FROM_AOF); [|destruct (has (c_tflag (l_cmd l)) TF_REQUIRE_ACKED)]; cbn; auto.
Qed.

Lemma EW_add_lock X f s k r l :
  EW X f s -> aget (store s) r = Some l ->
  (forall k, ~ In r (wheel_get (ewheel s) k)) -> (forall kk, ~ In r (wheel_get (elong s) kk)) ->
  EW X f (add_lock s k r)
  /\ (forall k0, ~ In r (wheel_get (ewheel (add_lock s k r)) k0)) /\ (forall kk, ~ In r (wheel_get (elong (add_lock s k r)) kk)).
Proof.
  intros E G NW NL. pose proof (ew_nu _ _ _ E r l G) as U.
  destruct (add_lock_rec_late s k r l G U) as (R1 & R2 & R3 & R4).
  split.
  - eapply EW_wfr; [|apply wfr_add_lock_after]. apply EW_setl_out; auto.
    + unfold nu. rewrite R1. exact U.
    + intros _. unfold stok. rewrite R3, R4. apply expiry_deadline_stok.
  - destruct (wfr_add_lock_after s k r) as (_ & _ & _ & W1 & W2 & _). split.
    + intros k0 I. apply W1 in I. eapply NW; eauto.
    + intros kk I. apply W2 in I. eapply NL; eauto.
Qed.

(* rewriting a live hold in place (UpdateLockedLock): the new terms must keep the placement bound of the existing entries *)
Lemma EW_setl_in X f s r l l1 :
  EW X f s -> aget (store s) r = Some l -> l_expried l = false ->
  nu (l_cmd l1) -> stok l1 ->
  (forall d, wbound X (now s) r l d -> wbound X (now s) r l1 d) ->
  ((f <= l_eT l)%Z \/ (MAXT <= l_eT l)%Z -> (f <= l_eT l1)%Z \/ (MAXT <= l_eT l1)%Z) ->
  EW X f (setl s r l1).
Proof.
  intros [A1 A2 A3 A4] G L Hc Hs Hw Hl. constructor.
  - intros x lx Gx. rewrite aget_setl in Gx. destruct (r =? x); [injection Gx as <-; auto|eauto].
  - intros x lx [Gx Lx]. rewrite aget_setl in Gx. destruct (r =? x); [injection Gx as <-; auto|apply (A2 x lx); split; auto].
  - intros k x lx I [Gx Lx]. change (ewheel (setl s r l1)) with (ewheel s) in I. change (now (setl s r l1)) with (now s).
    rewrite aget_setl in Gx. destruct (r =? x) eqn:E.
    + apply N.eqb_eq in E; subst x. injection Gx as <-. destruct (A3 k r l I (conj G L)) as (d & D1 & D2 & D3). exists d. auto.
    + apply (A3 k x lx I). split; auto.
  - intros kk x lx I [Gx Lx]. change (elong (setl s r l1)) with (elong s) in I. rewrite aget_setl in Gx. destruct (r =? x) eqn:E.
    + apply N.eqb_eq in E; subst x. injection Gx as <-. apply Hl. apply (A4 kk r l I (conj G L)).
    + apply (A4 kk x lx I). split; auto.
Qed.

(* popping the head of a wheel slot (the expiry sweeper) *)
Lemma wfr_pop_e s slot r rest : wheel_get (ewheel s) slot = r :: rest -> wfr s (s <| ewheel := aset (ewheel s) slot rest |>).
Proof.
  intros W. apply wfr_ewheel_sub; [|apply wfr_refl]. intros k x I. unfold wheel_get in I at 1. rewrite TimeBase.aget_aset in I.
  destruct (slot =? k) eqn:E; auto. apply N.eqb_eq in E; subst k. rewrite W. right; auto.
Qed.
