(* Reply exactness (property C17, "counters are exact"), part 0: toolkit.
   Every reply is built by `reply conn c result lcount lrcount data`; this development says WHICH state the two
   counters are read from.
     mlk s k  = LockManager.locked of key k in state s (0 when the key has no manager)
     dep s r  = Lock.locked (re-entrant depth) of record r in state s (0 when the record is not in the store)
   Frame relations, all in right-extension form  `R s x -> R s (op x)`  so that they chain by eauto:
     mfr s s' : the key table has the same keys, every manager keeps its `locked`
     deq s s' : every record keeps its depth (records freed in between had depth 0)
     dfr s s' : every record keeps its depth or drops to 0 (records may be freed)
   Nothing here needs a reachability invariant: every lemma holds for every db value. *)
From Coq Require Import String ZifyN ZifyBool.
From Slock Require Import Engine.Types Engine.Queues Engine.Timers Engine.Engine Engine.Engine2 Engine.LocalBase.
Open Scope N_scope.

Definition mlk (s : db) (k : N) : N := m_locked (getm s k).
Definition dep (s : db) (r : ref) : N := l_locked (getl s r).
Definition pres (s : db) (r : ref) : bool := match aget (store s) r with Some _ => true | None => false end.

(* ------------------------------------------------------------------ the counters carried by a reply *)
(* if e is a reply, its result is res and it carries LCount = uint16(a), LRCount = b *)
Definition rcr (res a b : N) (e : event) : Prop :=
  match e with EReply _ _ res' lc lrc _ _ _ _ => res' = res /\ lc = u16 a /\ lrc = b | _ => True end.
(* the list contains no reply *)
Definition norep (e : event) : Prop := match e with EReply _ _ _ _ _ _ _ _ _ => False | _ => True end.

Lemma rcr_reply conn c res a b d : rcr res a b (reply conn c res a b d).
Proof. cbn. auto. Qed.

Lemma norep_quiet : quiet_ok norep.
Proof. intros [] H; simpl in *; auto. Qed.

Lemma norep_impl (P : event -> Prop) ev :
  (forall e, norep e -> P e) -> Forall norep ev -> Forall P ev.
Proof. intros HP H. eapply Forall_impl; [|exact H]. exact HP. Qed.

Lemma rcr_norep res a b e : norep e -> rcr res a b e.
Proof. destruct e; simpl; auto; contradiction. Qed.

(* event lists of the helpers contain no reply *)
Lemma push_lock_aof_nr s k r f s' ev : push_lock_aof s k r f = (s', ev) -> Forall norep ev.
Proof. intros H. eapply push_lock_aof_P; [exact norep_quiet|exact H]. Qed.
Lemma push_unlock_aof_nr s k r lc uc b f s' ev : push_unlock_aof s k r lc uc b f = (s', ev) -> Forall norep ev.
Proof. intros H. eapply push_unlock_aof_P; [exact norep_quiet|exact H]. Qed.
Lemma add_expried_nr s k r s' ev : add_expried s k r = (s', ev) -> Forall norep ev.
Proof. intros H. eapply add_expried_P; [exact norep_quiet|exact H]. Qed.
Lemma process_data_nr s k r c b s' ev : process_data s k r c b = (s', ev) -> Forall norep ev.
Proof. intros H. eapply process_data_P; [exact norep_quiet|exact H]. Qed.
Lemma update_and_rearm_nr s k r c s' ev : update_and_rearm s k r c = (s', ev) -> Forall norep ev.
Proof. intros H. eapply update_and_rearm_P; [exact norep_quiet|exact H]. Qed.

(* split `Forall P (e1 ++ x :: ...)`; discharge the parts that cannot contain a reply; leave the reply goals *)
Ltac nr_solve HN :=
  repeat (first [apply Forall_app; split | apply Forall_cons | apply Forall_nil]);
  try solve [ apply (norep_impl _ _ HN);
              first [ eapply push_lock_aof_nr; eassumption | eapply push_unlock_aof_nr; eassumption
                    | eapply add_expried_nr; eassumption | eapply process_data_nr; eassumption
                    | eapply update_and_rearm_nr; eassumption | apply Forall_nil ]
            | apply HN; exact I ].

(* ------------------------------------------------------------------ basic facts *)
Lemma mlk_mgrs s s' k : mgrs s' = mgrs s -> mlk s' k = mlk s k.
Proof. unfold mlk. intros H. rewrite (getm_mgrs _ _ k H). reflexivity. Qed.
Lemma dep_store s s' r : store s' = store s -> dep s' r = dep s r.
Proof. unfold dep. intros H. rewrite (getl_store _ _ r H). reflexivity. Qed.

Lemma getm_some s k m : aget (mgrs s) k = Some m -> getm s k = m.
Proof. unfold getm. intros ->. reflexivity. Qed.
Lemma getm_none s k : aget (mgrs s) k = None -> getm s k = new_mgr.
Proof. unfold getm. intros ->. reflexivity. Qed.
Lemma mlk_none s k : aget (mgrs s) k = None -> mlk s k = 0.
Proof. unfold mlk. intros H. rewrite (getm_none _ _ H). reflexivity. Qed.
Lemma getl_some s r l : aget (store s) r = Some l -> getl s r = l.
Proof. unfold getl. intros ->. reflexivity. Qed.
Lemma getl_none s r : aget (store s) r = None -> getl s r = dummy_lock.
Proof. unfold getl. intros ->. reflexivity. Qed.
Lemma dep_none s r : aget (store s) r = None -> dep s r = 0.
Proof. unfold dep. intros H. rewrite (getl_none _ _ H). reflexivity. Qed.

Lemma getm_updm s k f k' :
  getm (updm s k f) k' = if k =? k' then (match aget (mgrs s) k with Some m => f m | None => new_mgr end) else getm s k'.
Proof.
  unfold getm at 1. rewrite aget_mgrs_updm. destruct (k =? k') eqn:E; [|reflexivity].
  destruct (aget (mgrs s) k); reflexivity.
Qed.

Lemma mlk_updm_same s k f m : aget (mgrs s) k = Some m -> mlk (updm s k f) k = m_locked (f m).
Proof. intros H. unfold mlk. rewrite getm_updm, N.eqb_refl, H. reflexivity. Qed.

Lemma mlk_updm_locked s k g :
  aget (mgrs s) k <> None -> mlk (updm s k (fun m => m <| m_locked := g (m_locked m) |>)) k = g (mlk s k).
Proof.
  intros H. destruct (aget (mgrs s) k) as [m|] eqn:E; [|congruence].
  rewrite (mlk_updm_same _ _ _ _ E). unfold mlk. rewrite (getm_some _ _ _ E). reflexivity.
Qed.

Lemma has_updm s k f k' : aget (mgrs s) k' <> None -> aget (mgrs (updm s k f)) k' <> None.
Proof.
  rewrite aget_mgrs_updm. destruct (k =? k') eqn:E; auto.
  apply N.eqb_eq in E. subst. destruct (aget (mgrs s) k'); cbn; congruence.
Qed.

Lemma dep_updl_same s r f l : aget (store s) r = Some l -> dep (updl s r f) r = l_locked (f l).
Proof. intros H. unfold dep. rewrite getl_updl, N.eqb_refl, H. reflexivity. Qed.

Lemma dep_setl s r l r' : dep (setl s r l) r' = if r =? r' then l_locked l else dep s r'.
Proof.
  unfold dep, getl. change (store (setl s r l)) with (aset (store s) r l). rewrite aget_aset.
  destruct (r =? r'); reflexivity.
Qed.

(* a positive `locked` needs a manager *)
Lemma mlk_pos_has s k : (0 <? mlk s k) = true -> aget (mgrs s) k <> None.
Proof. intros H E. rewrite (mlk_none _ _ E) in H. discriminate. Qed.

(* ------------------------------------------------------------------ mfr: the key table keeps its keys and every `locked` *)
Definition lkmap (s : db) (k : N) : option N := option_map m_locked (aget (mgrs s) k).
Definition mfr (s s' : db) : Prop := forall k, lkmap s' k = lkmap s k.

Lemma mlk_lkmap s k : mlk s k = match lkmap s k with Some n => n | None => 0 end.
Proof. unfold mlk, lkmap, getm. destruct (aget (mgrs s) k); reflexivity. Qed.

Lemma mfr_mlk s s' k : mfr s s' -> mlk s' k = mlk s k.
Proof. intros H. rewrite !mlk_lkmap, (H k). reflexivity. Qed.
Lemma mfr_has s s' k : mfr s s' -> aget (mgrs s) k <> None -> aget (mgrs s') k <> None.
Proof.
  intros H. specialize (H k). unfold lkmap in H.
  destruct (aget (mgrs s) k), (aget (mgrs s') k); cbn in H; congruence.
Qed.
Lemma mfr_none s s' k : mfr s s' -> aget (mgrs s') k = None -> aget (mgrs s) k = None.
Proof.
  intros H. specialize (H k). unfold lkmap in H.
  destruct (aget (mgrs s) k), (aget (mgrs s') k); cbn in H; congruence.
Qed.

Create HintDb mfdb.

Lemma mfr_refl s : mfr s s. Proof. intros k. reflexivity. Qed.
Lemma mfr_trans s1 s2 s3 : mfr s1 s2 -> mfr s2 s3 -> mfr s1 s3.
Proof. intros H1 H2 k. rewrite (H2 k). apply H1. Qed.
Lemma mfr_mgrs_eq s x x' : mgrs x' = mgrs x -> mfr s x -> mfr s x'.
Proof. intros E H k. unfold lkmap. rewrite E. apply H. Qed.
Lemma mfr_updl s x r f : mfr s x -> mfr s (updl x r f).
Proof. apply mfr_mgrs_eq, mgrs_updl. Qed.
Lemma mfr_setl s x r l : mfr s x -> mfr s (setl x r l).
Proof. apply mfr_mgrs_eq. reflexivity. Qed.
Lemma mfr_updc s x f : mfr s x -> mfr s (updc x f).
Proof. apply mfr_mgrs_eq. reflexivity. Qed.
Lemma mfr_bump s x f : mfr s x -> mfr s (bump f x).
Proof. apply mfr_mgrs_eq. reflexivity. Qed.
Lemma mfr_updm s x k f : (forall m, m_locked (f m) = m_locked m) -> mfr s x -> mfr s (updm x k f).
Proof.
  intros Hf H k0. rewrite <- (H k0). unfold lkmap. rewrite aget_mgrs_updm.
  destruct (k =? k0) eqn:E; [|reflexivity]. apply N.eqb_eq in E. subst k0.
  destruct (aget (mgrs x) k); cbn; [rewrite Hf|]; reflexivity.
Qed.

#[export] Hint Resolve mfr_refl mfr_updl mfr_setl mfr_updc mfr_bump : mfdb.
#[export] Hint Extern 2 (mfr _ (updm _ _ _)) => (apply mfr_updm; [intros ?; reflexivity|]) : mfdb.
#[export] Hint Extern 1 (mfr _ (set _ _ ?x)) => (eapply (mfr_mgrs_eq _ x); [reflexivity|]) : mfdb.
#[export] Hint Extern 1 (mfr _ (if ?c then _ else _)) => destruct c : mfdb.
#[export] Hint Extern 1 (mfr _ (match ?c with _ => _ end)) => destruct c : mfdb.

Ltac mf := eauto 80 with mfdb.

Lemma mfr_free_lock s x r : mfr s x -> mfr s (free_lock x r).
Proof. intros H. unfold free_lock. destruct (aget (store x) r); mf. Qed.
#[export] Hint Resolve mfr_free_lock : mfdb.

Lemma mfr_unref s x r : mfr s x -> mfr s (unref x r).
Proof. intros H. unfold unref. destruct (aget (store x) r); mf. Qed.
#[export] Hint Resolve mfr_unref : mfdb.

Lemma mfr_hq_compact items : forall s x x' kept, hq_compact x items = (x', kept) -> mfr s x -> mfr s x'.
Proof.
  induction items as [|r rest IH]; intros s x x' kept H Hs; simpl in H.
  - inv_tuple H. auto.
  - destruct (0 <? l_locked (getl x r)).
    + destruct (hq_compact x rest) as [x1 k1] eqn:E. inv_tuple H. eauto.
    + eapply IH; [exact H|]. mf.
Qed.

Lemma mfr_hq_push s x q r x' q' : hq_push x q r = (x', q') -> mfr s x -> mfr s x'.
Proof.
  intros H Hs. unfold hq_push in H. repeat (split_hyp H); inv_tuple H; auto.
  all: eapply mfr_hq_compact; eauto.
Qed.

Lemma mfr_promote fuel : forall s x q x' q' nc, promote fuel x q = (x', q', nc) -> mfr s x -> mfr s x'.
Proof.
  induction fuel as [|f IH]; intros s x q x' q' nc H Hs; simpl in H.
  - inv_tuple H. auto.
  - destruct (hq_pop q) as [[r|] q1]; [|inv_tuple H; auto].
    destruct (0 <? l_locked (getl x r)); [inv_tuple H; auto|].
    eapply IH; [exact H|]. mf.
Qed.

Lemma mfr_drop_dead_heads fuel : forall s x q x' q', drop_dead_heads fuel x q = (x', q') -> mfr s x -> mfr s x'.
Proof.
  induction fuel as [|f IH]; intros s x q x' q' H Hs; simpl in H.
  - inv_tuple H. auto.
  - destruct (hq_head q) as [r|]; [|inv_tuple H; auto].
    destruct (0 <? l_locked (getl x r)); [inv_tuple H; auto|].
    destruct (hq_pop q) as [o q1]. eapply IH; [exact H|]. mf.
Qed.

Lemma mfr_remove_lock s x k r : mfr s x -> mfr s (remove_lock x k r).
Proof.
  intros Hs. unfold remove_lock. cbv zeta.
  match goal with |- mfr _ (if ?c then _ else _) => destruct c end.
  - destruct (m_locks (getm _ k)) as [q|]; [|mf].
    destruct (promote _ _ q) as [[x1 q1] nc] eqn:E.
    apply mfr_updm; [intros ?; reflexivity|]. eapply mfr_promote; [exact E|]. mf.
  - destruct (m_locks (getm _ k)) as [q|]; [|mf].
    destruct (drop_dead_heads _ _ _) as [x1 q1] eqn:E.
    apply mfr_updm; [intros ?; reflexivity|]. eapply mfr_drop_dead_heads; [exact E|]. mf.
Qed.
#[export] Hint Resolve mfr_remove_lock : mfdb.

Lemma mfr_wq_compact items : forall s x x' kept, wq_compact x items = (x', kept) -> mfr s x -> mfr s x'.
Proof.
  induction items as [|r rest IH]; intros s x x' kept H Hs; simpl in H.
  - inv_tuple H. auto.
  - destruct (dead_waiter (getl x r)).
    + eapply IH; [exact H|]. mf.
    + destruct (wq_compact x rest) as [x1 k1] eqn:E. inv_tuple H. eauto.
Qed.

Lemma mfr_wq_push s x q r x' q' : wq_push x q r = (x', q') -> mfr s x -> mfr s x'.
Proof.
  intros H Hs. unfold wq_push in H. repeat (split_hyp H); inv_tuple H; auto.
  all: eapply mfr_wq_compact; eauto.
Qed.

Lemma mfr_add_wait_lock s x k r : mfr s x -> mfr s (add_wait_lock x k r).
Proof.
  intros Hs. unfold add_wait_lock. cbv zeta.
  destruct (wq_push x _ r) as [x1 q1] eqn:E.
  apply mfr_updm; [intros ?; reflexivity|]. apply mfr_updl. eapply mfr_wq_push; eauto.
Qed.
#[export] Hint Resolve mfr_add_wait_lock : mfdb.

Lemma mfr_get_wait_loop fuel : forall s x q x' q' res, get_wait_loop fuel x q = (x', q', res) -> mfr s x -> mfr s x'.
Proof.
  induction fuel as [|f IH]; intros s x q x' q' res H Hs; simpl in H.
  - inv_tuple H. auto.
  - destruct (wq_head q) as [r|]; [|inv_tuple H; auto].
    destruct (dead_waiter (getl x r)); [|inv_tuple H; auto].
    eapply IH; [exact H|]. mf.
Qed.

Lemma mfr_get_wait_lock s x k x' res : get_wait_lock x k = (x', res) -> mfr s x -> mfr s x'.
Proof.
  intros H Hs. unfold get_wait_lock in H.
  destruct (m_wait (getm x k)) as [q|]; [|inv_tuple H; auto].
  destruct (get_wait_loop _ x q) as [[x1 q1] r1] eqn:E. inv_tuple H.
  apply mfr_updm; [intros ?; reflexivity|]. eapply mfr_get_wait_loop; eauto.
Qed.

Lemma mfr_push_lock_aof s x k r fl x' ev : push_lock_aof x k r fl = (x', ev) -> mfr s x -> mfr s x'.
Proof. intros H Hs. unfold push_lock_aof in H. repeat (split_hyp H); inv_tuple H; mf. Qed.

Lemma mfr_push_unlock_aof s x k r lc uc b fl x' ev : push_unlock_aof x k r lc uc b fl = (x', ev) -> mfr s x -> mfr s x'.
Proof. intros H Hs. unfold push_unlock_aof in H. repeat (split_hyp H); inv_tuple H; mf. Qed.

Lemma mfr_repeat_push_lock_aof n : forall s x k r x' ev, repeat_push_lock_aof n x k r = (x', ev) -> mfr s x -> mfr s x'.
Proof.
  induction n as [|n IH]; intros s x k r x' ev H Hs; simpl in H.
  - inv_tuple H. auto.
  - destruct (push_lock_aof x k r 0) as [x1 e1] eqn:E1.
    destruct (repeat_push_lock_aof n x1 k r) as [x2 e2] eqn:E2. inv_tuple H.
    eapply IH; [exact E2|]. eapply mfr_push_lock_aof; eauto.
Qed.

Lemma mfr_add_timeout s x r : mfr s x -> mfr s (add_timeout x r).
Proof. intros Hs. unfold add_timeout. cbv zeta. mf. Qed.
Lemma mfr_remove_long_timeout s x r : mfr s x -> mfr s (remove_long_timeout x r).
Proof. intros Hs. unfold remove_long_timeout. cbv zeta. mf. Qed.
Lemma mfr_remove_long_expried s x r eT : mfr s x -> mfr s (remove_long_expried x r eT).
Proof. intros Hs. unfold remove_long_expried. mf. Qed.
#[export] Hint Resolve mfr_add_timeout mfr_remove_long_timeout mfr_remove_long_expried : mfdb.

Lemma mfr_add_expried s x k r x' ev : add_expried x k r = (x', ev) -> mfr s x -> mfr s x'.
Proof.
  intros H Hs. unfold add_expried in H. cbv zeta in H.
  match type of H with (if ?c then _ else _) = _ => destruct c end.
  - eapply mfr_repeat_push_lock_aof; [exact H|]. mf.
  - inv_tuple H. mf.
Qed.

Lemma mfr_new_lock s x k conn c x' r : new_lock x k conn c = (x', r) -> mfr s x -> mfr s x'.
Proof. intros H Hs. unfold new_lock in H. inv_tuple H. mf. Qed.

Lemma mfr_add_lock s x k r : mfr s x -> mfr s (add_lock x k r).
Proof.
  intros Hs. unfold add_lock. cbv zeta.
  destruct (m_cur (getm x k)); [|mf].
  destruct (hq_push _ _ r) as [x1 q1] eqn:E.
  apply mfr_updm; [intros ?; reflexivity|]. eapply mfr_hq_push; [exact E|]. mf.
Qed.
#[export] Hint Resolve mfr_add_lock : mfdb.

Lemma mfr_update_locked_lock s x k r c : mfr s x -> mfr s (update_locked_lock x k r c).
Proof. intros Hs. unfold update_locked_lock. mf. Qed.
#[export] Hint Resolve mfr_update_locked_lock : mfdb.

Lemma mfr_process_data s x k r c b x' ev : process_data x k r c b = (x', ev) -> mfr s x -> mfr s x'.
Proof. intros H Hs. unfold process_data in H. repeat (split_hyp H); inv_tuple H; mf. Qed.

Lemma mfr_update_and_rearm s x k r c x' ev : update_and_rearm x k r c = (x', ev) -> mfr s x -> mfr s x'.
Proof.
  intros H Hs. unfold update_and_rearm in H. cbv zeta in H.
  destruct (l_long (getl x r)); [|inv_tuple H; mf].
  destruct (negb (has (c_eflag c) EF_MILLISECOND)); [|inv_tuple H; mf].
  match type of H with (if ?c then _ else _) = _ => destruct c end; [|inv_tuple H; mf].
  destruct (add_expried _ k r) as [x1 e1] eqn:E. inv_tuple H.
  apply mfr_updl. eapply mfr_add_expried; [exact E|]. mf.
Qed.

Ltac mf_eq :=
  match goal with
  | E : hq_push _ _ _ = (?y, _) |- mfr _ ?y => eapply mfr_hq_push; [exact E|]
  | E : wq_push _ _ _ = (?y, _) |- mfr _ ?y => eapply mfr_wq_push; [exact E|]
  | E : get_wait_lock _ _ = (?y, _) |- mfr _ ?y => eapply mfr_get_wait_lock; [exact E|]
  | E : push_lock_aof _ _ _ _ = (?y, _) |- mfr _ ?y => eapply mfr_push_lock_aof; [exact E|]
  | E : push_unlock_aof _ _ _ _ _ _ _ = (?y, _) |- mfr _ ?y => eapply mfr_push_unlock_aof; [exact E|]
  | E : add_expried _ _ _ = (?y, _) |- mfr _ ?y => eapply mfr_add_expried; [exact E|]
  | E : new_lock _ _ _ _ = (?y, _) |- mfr _ ?y => eapply mfr_new_lock; [exact E|]
  | E : process_data _ _ _ _ _ = (?y, _) |- mfr _ ?y => eapply mfr_process_data; [exact E|]
  | E : update_and_rearm _ _ _ _ = (?y, _) |- mfr _ ?y => eapply mfr_update_and_rearm; [exact E|]
  end.
#[export] Hint Extern 1 (mfr _ ?y) => is_var y; mf_eq : mfdb.

(* removing the key's manager: `locked` of the key is kept, or the manager is gone *)
Lemma remove_mgr_cases s k :
  (remove_mgr_if_unref s k = s /\ True)
  \/ (aget (mgrs (remove_mgr_if_unref s k)) k = None /\ m_ref (getm s k) = 0 /\ aget (mgrs s) k <> None).
Proof.
  unfold remove_mgr_if_unref. destruct (aget (mgrs s) k) as [m|] eqn:E; [|left; auto].
  destruct (m_ref m =? 0) eqn:E0; [|left; auto].
  right. split; [|split].
  - cbn. apply aget_adel_same.
  - rewrite (getm_some _ _ _ E). apply N.eqb_eq. exact E0.
  - discriminate.
Qed.

Lemma mlk_remove_mgr s k : mlk (remove_mgr_if_unref s k) k = mlk s k \/ aget (mgrs (remove_mgr_if_unref s k)) k = None.
Proof. destruct (remove_mgr_cases s k) as [[-> _]|[H _]]; auto. Qed.

Lemma remove_mgr_none s k : aget (mgrs s) k = None -> aget (mgrs (remove_mgr_if_unref s k)) k = None.
Proof. intros H. unfold remove_mgr_if_unref. rewrite H. exact H. Qed.

Lemma store_remove_mgr s k : store (remove_mgr_if_unref s k) = store s.
Proof. unfold remove_mgr_if_unref. destruct (aget (mgrs s) k); [|reflexivity]. destruct (_ =? 0); reflexivity. Qed.

(* ------------------------------------------------------------------ deq: every record keeps its depth *)
Definition deq (s s' : db) : Prop := forall r, dep s' r = dep s r.
(* dfr: ... or drops to 0 *)
Definition dfr (s s' : db) : Prop := forall r, dep s' r = dep s r \/ dep s' r = 0.

Create HintDb dqdb.
Create HintDb dfdb.

Lemma deq_refl s : deq s s. Proof. intros r. reflexivity. Qed.
Lemma deq_trans s1 s2 s3 : deq s1 s2 -> deq s2 s3 -> deq s1 s3.
Proof. intros H1 H2 r. rewrite (H2 r). apply H1. Qed.
Lemma deq_store_eq s x x' : store x' = store x -> deq s x -> deq s x'.
Proof. intros E H r. rewrite (dep_store _ _ r E). apply H. Qed.
Lemma deq_updm s x k f : deq s x -> deq s (updm x k f).
Proof. apply deq_store_eq, store_updm. Qed.
Lemma deq_updc s x f : deq s x -> deq s (updc x f).
Proof. apply deq_store_eq. reflexivity. Qed.
Lemma deq_bump s x f : deq s x -> deq s (bump f x).
Proof. apply deq_store_eq. reflexivity. Qed.
Lemma deq_remove_mgr s x k : deq s x -> deq s (remove_mgr_if_unref x k).
Proof. apply deq_store_eq, store_remove_mgr. Qed.

Lemma deq_updl s x r f : (forall l, l_locked (f l) = l_locked l) -> deq s x -> deq s (updl x r f).
Proof.
  intros Hf H r0. rewrite <- (H r0). unfold dep. rewrite getl_updl.
  destruct (r =? r0) eqn:E; [|reflexivity]. apply N.eqb_eq in E. subst r0.
  unfold getl. destruct (aget (store x) r); [apply Hf|reflexivity].
Qed.

Lemma deq_setl s x r l : l_locked l = dep x r -> deq s x -> deq s (setl x r l).
Proof.
  intros Hl H r0. rewrite <- (H r0), dep_setl.
  destruct (r =? r0) eqn:E; [|reflexivity]. apply N.eqb_eq in E. subst r0. exact Hl.
Qed.

#[export] Hint Resolve deq_refl deq_updm deq_updc deq_bump deq_remove_mgr : dqdb.
#[export] Hint Extern 2 (deq _ (updl _ _ _)) => (apply deq_updl; [intros ?; reflexivity|]) : dqdb.
#[export] Hint Extern 1 (deq _ (set _ _ ?x)) => (eapply (deq_store_eq _ x); [reflexivity|]) : dqdb.
#[export] Hint Extern 1 (deq _ (if ?c then _ else _)) => destruct c : dqdb.
#[export] Hint Extern 1 (deq _ (match ?c with _ => _ end)) => destruct c : dqdb.

Ltac dq := eauto 80 with dqdb.

Lemma dep_free_lock x r r' : dep (free_lock x r) r' = if r =? r' then 0 else dep x r'.
Proof.
  unfold free_lock. destruct (aget (store x) r) as [l|] eqn:E.
  - unfold dep. rewrite getl_updm. unfold getl. cbn [store set]. rewrite aget_adel.
    destruct (r =? r'); reflexivity.
  - destruct (r =? r') eqn:E2; [|reflexivity]. apply N.eqb_eq in E2. subst. apply dep_none. exact E.
Qed.

(* freeing / dereferencing a record of depth 0 changes no depth *)
Lemma deq_free0 s x r : dep x r = 0 -> deq s x -> deq s (free_lock x r).
Proof.
  intros H0 H r0. rewrite <- (H r0), dep_free_lock.
  destruct (r =? r0) eqn:E; [|reflexivity]. apply N.eqb_eq in E. subst. auto.
Qed.

Lemma deq_unref0 s x r : dep x r = 0 -> deq s x -> deq s (unref x r).
Proof.
  intros H0 H. unfold unref. destruct (aget (store x) r) as [l|] eqn:E; auto. cbv zeta.
  assert (H1 : deq s (setl x r (l <| l_refc := dec8 (l_refc l) |>))).
  { apply deq_setl; auto. unfold dep. rewrite (getl_some _ _ _ E). reflexivity. }
  destruct (dec8 (l_refc l) =? 0); auto.
  apply deq_free0; auto. rewrite dep_setl, N.eqb_refl. cbn.
  unfold dep in H0. rewrite (getl_some _ _ _ E) in H0. exact H0.
Qed.

Lemma ltb0_false a : (0 <? a) = false -> a = 0.
Proof. intros H. apply N.ltb_ge in H. lia. Qed.

Lemma deq_hq_compact items : forall s x x' kept, hq_compact x items = (x', kept) -> deq s x -> deq s x'.
Proof.
  induction items as [|r rest IH]; intros s x x' kept H Hs; simpl in H.
  - inv_tuple H. auto.
  - destruct (0 <? l_locked (getl x r)) eqn:E0.
    + destruct (hq_compact x rest) as [x1 k1] eqn:E. inv_tuple H. eauto.
    + eapply IH; [exact H|]. apply deq_unref0; auto. apply ltb0_false. exact E0.
Qed.

Lemma deq_hq_push s x q r x' q' : hq_push x q r = (x', q') -> deq s x -> deq s x'.
Proof.
  intros H Hs. unfold hq_push in H. repeat (split_hyp H); inv_tuple H; auto.
  all: eapply deq_hq_compact; eauto.
Qed.

Lemma deq_promote fuel : forall s x q x' q' nc, promote fuel x q = (x', q', nc) -> deq s x -> deq s x'.
Proof.
  induction fuel as [|f IH]; intros s x q x' q' nc H Hs; simpl in H.
  - inv_tuple H. auto.
  - destruct (hq_pop q) as [[r|] q1]; [|inv_tuple H; auto].
    destruct (0 <? l_locked (getl x r)) eqn:E0; [inv_tuple H; auto|].
    eapply IH; [exact H|]. apply deq_unref0; auto. apply ltb0_false. exact E0.
Qed.

Lemma deq_drop_dead_heads fuel : forall s x q x' q', drop_dead_heads fuel x q = (x', q') -> deq s x -> deq s x'.
Proof.
  induction fuel as [|f IH]; intros s x q x' q' H Hs; simpl in H.
  - inv_tuple H. auto.
  - destruct (hq_head q) as [r|]; [|inv_tuple H; auto].
    destruct (0 <? l_locked (getl x r)) eqn:E0; [inv_tuple H; auto|].
    destruct (hq_pop q) as [o q1]. eapply IH; [exact H|]. apply deq_unref0; auto. apply ltb0_false. exact E0.
Qed.

Lemma deq_push_lock_aof s x k r fl x' ev : push_lock_aof x k r fl = (x', ev) -> deq s x -> deq s x'.
Proof. intros H Hs. unfold push_lock_aof in H. repeat (split_hyp H); inv_tuple H; dq. Qed.

Lemma deq_push_unlock_aof s x k r lc uc b fl x' ev : push_unlock_aof x k r lc uc b fl = (x', ev) -> deq s x -> deq s x'.
Proof. intros H Hs. unfold push_unlock_aof in H. repeat (split_hyp H); inv_tuple H; dq. Qed.

Lemma deq_repeat_push_lock_aof n : forall s x k r x' ev, repeat_push_lock_aof n x k r = (x', ev) -> deq s x -> deq s x'.
Proof.
  induction n as [|n IH]; intros s x k r x' ev H Hs; simpl in H.
  - inv_tuple H. auto.
  - destruct (push_lock_aof x k r 0) as [x1 e1] eqn:E1.
    destruct (repeat_push_lock_aof n x1 k r) as [x2 e2] eqn:E2. inv_tuple H.
    eapply IH; [exact E2|]. eapply deq_push_lock_aof; eauto.
Qed.

Lemma deq_add_timeout s x r : deq s x -> deq s (add_timeout x r).
Proof. intros Hs. unfold add_timeout. cbv zeta. dq. Qed.
Lemma deq_remove_long_timeout s x r : deq s x -> deq s (remove_long_timeout x r).
Proof. intros Hs. unfold remove_long_timeout. cbv zeta. dq. Qed.
Lemma deq_remove_long_expried s x r eT : deq s x -> deq s (remove_long_expried x r eT).
Proof. intros Hs. unfold remove_long_expried. dq. Qed.
#[export] Hint Resolve deq_add_timeout deq_remove_long_timeout deq_remove_long_expried : dqdb.

Lemma deq_add_expried s x k r x' ev : add_expried x k r = (x', ev) -> deq s x -> deq s x'.
Proof.
  intros H Hs. unfold add_expried in H. cbv zeta in H.
  match type of H with (if ?c then _ else _) = _ => destruct c end.
  - eapply deq_repeat_push_lock_aof; [exact H|]. dq.
  - inv_tuple H. dq.
Qed.

Lemma deq_process_data s x k r c b x' ev : process_data x k r c b = (x', ev) -> deq s x -> deq s x'.
Proof. intros H Hs. unfold process_data in H. repeat (split_hyp H); inv_tuple H; dq. Qed.

Lemma deq_update_locked_lock s x k r c : deq s x -> deq s (update_locked_lock x k r c).
Proof.
  intros Hs. unfold update_locked_lock. cbv zeta. apply deq_setl; auto.
  repeat match goal with |- context [if ?b then _ else _] => destruct b end; reflexivity.
Qed.
#[export] Hint Resolve deq_update_locked_lock : dqdb.

Lemma deq_update_and_rearm s x k r c x' ev : update_and_rearm x k r c = (x', ev) -> deq s x -> deq s x'.
Proof.
  intros H Hs. unfold update_and_rearm in H. cbv zeta in H.
  destruct (l_long (getl x r)); [|inv_tuple H; dq].
  destruct (negb (has (c_eflag c) EF_MILLISECOND)); [|inv_tuple H; dq].
  match type of H with (if ?c then _ else _) = _ => destruct c end; [|inv_tuple H; dq].
  destruct (add_expried _ k r) as [x1 e1] eqn:E. inv_tuple H.
  apply deq_updl; [intros ?; reflexivity|]. eapply deq_add_expried; [exact E|]. dq.
Qed.

Ltac dq_eq :=
  match goal with
  | E : hq_push _ _ _ = (?y, _) |- deq _ ?y => eapply deq_hq_push; [exact E|]
  | E : push_lock_aof _ _ _ _ = (?y, _) |- deq _ ?y => eapply deq_push_lock_aof; [exact E|]
  | E : push_unlock_aof _ _ _ _ _ _ _ = (?y, _) |- deq _ ?y => eapply deq_push_unlock_aof; [exact E|]
  | E : add_expried _ _ _ = (?y, _) |- deq _ ?y => eapply deq_add_expried; [exact E|]
  | E : process_data _ _ _ _ _ = (?y, _) |- deq _ ?y => eapply deq_process_data; [exact E|]
  | E : update_and_rearm _ _ _ _ = (?y, _) |- deq _ ?y => eapply deq_update_and_rearm; [exact E|]
  end.
#[export] Hint Extern 1 (deq _ ?y) => is_var y; dq_eq : dqdb.

(* AddLock: the record gets depth 1, every other depth is kept *)
Lemma dep_add_lock x k r r' : dep (add_lock x k r) r' = if r =? r' then 1 else dep x r'.
Proof.
  unfold add_lock. cbv zeta.
  match goal with |- context [setl x r ?l0] => set (l := l0) end.
  assert (Hl : l_locked l = 1).
  { subst l. repeat match goal with |- context [if ?b then _ else _] => destruct b end; reflexivity. }
  clearbody l.
  assert (H1 : forall r0, dep (setl x r l) r0 = if r =? r0 then 1 else dep x r0).
  { intros r0. rewrite dep_setl, Hl. reflexivity. }
  destruct (m_cur (getm x k)).
  - destruct (hq_push _ _ r) as [x1 q1] eqn:E.
    assert (Hq : deq (setl x r l) x1) by (eapply deq_hq_push; [exact E|apply deq_refl]).
    unfold dep at 1. rewrite getl_updm. fold (dep x1 r'). rewrite (Hq r'). apply H1.
  - unfold dep at 1. rewrite getl_updm. apply H1.
Qed.

(* RemoveLock: the record gets depth 0, every other depth is kept *)
Lemma dep_remove_lock x k r r' : dep (remove_lock x k r) r' = if r =? r' then 0 else dep x r'.
Proof.
  unfold remove_lock. cbv zeta.
  set (x1 := updl x r (fun l => l <| l_locked := 0 |> <| l_ack := 255 |>)).
  assert (H1 : forall r0, dep x1 r0 = if r =? r0 then 0 else dep x r0).
  { intros r0. subst x1. unfold dep. rewrite getl_updl. destruct (r =? r0) eqn:E; [|reflexivity].
    destruct (aget (store x) r); reflexivity. }
  clearbody x1.
  match goal with |- context [if ?c then _ else _] => destruct c end.
  - set (x2 := updl x1 r (fun l => l <| l_refc := dec8 (l_refc l) |>)).
    assert (H2 : deq x1 x2) by (subst x2; dq).
    destruct (m_locks (getm x1 k)) as [q|].
    + destruct (promote _ x2 q) as [[x3 q3] nc] eqn:E.
      assert (H3 : deq x1 x3) by (eapply deq_promote; [exact E|exact H2]).
      unfold dep at 1. rewrite getl_updm. fold (dep x3 r'). rewrite (H3 r'). apply H1.
    + unfold dep at 1. rewrite getl_updm. fold (dep x2 r'). rewrite (H2 r'). apply H1.
  - destruct (m_locks (getm x1 k)) as [q|]; [|apply H1].
    destruct (drop_dead_heads _ x1 _) as [x3 q3] eqn:E.
    assert (H3 : deq x1 x3) by (eapply deq_drop_dead_heads; [exact E|apply deq_refl]).
    unfold dep at 1. rewrite getl_updm. fold (dep x3 r'). rewrite (H3 r'). apply H1.
Qed.

(* GetOrNewLock: the new record has depth 0 *)
Lemma new_lock_facts x k conn c x' r :
  new_lock x k conn c = (x', r) ->
  r = next x /\ dep x' r = 0 /\ pres x' r = true /\ l_cmd (getl x' r) = c /\ mfr x x'
  /\ (forall r', r' <> r -> dep x' r' = dep x r').
Proof.
  unfold new_lock. intros H. inv_tuple H. split; [reflexivity|].
  set (l0 := mkLock _ _ _ _ _ _ _ _ _ _ _ _ _ _ _ _ _).
  set (x1 := x <| store := aset (store x) (next x) l0 |> <| next := next x + 1 |>).
  assert (G : aget (store x1) (next x) = Some l0) by (subst x1; cbn; apply aget_aset_same).
  split; [|split; [|split; [|split]]].
  - unfold dep. rewrite getl_updm, (getl_some _ _ _ G). reflexivity.
  - unfold pres. rewrite store_updm, G. reflexivity.
  - rewrite getl_updm, (getl_some _ _ _ G). reflexivity.
  - apply mfr_updm; [intros ?; reflexivity|]. eapply (mfr_mgrs_eq _ x); [reflexivity|apply mfr_refl].
  - intros r' Hr. unfold dep. rewrite getl_updm. unfold getl. subst x1. cbn [store set].
    change (aget (aset (store x) (next x) l0) r') with (aget (aset (store x) (next x) l0) r').
    rewrite aget_aset. destruct (next x =? r') eqn:E; [apply N.eqb_eq in E; congruence|reflexivity].
Qed.

(* ------------------------------------------------------------------ dfr *)
Lemma dfr_refl s : dfr s s. Proof. intros r. left. reflexivity. Qed.
Lemma deq_dfr s s' : deq s s' -> dfr s s'.
Proof. intros H r. left. apply H. Qed.
Lemma dfr_trans s1 s2 s3 : dfr s1 s2 -> dfr s2 s3 -> dfr s1 s3.
Proof. intros H1 H2 r. destruct (H2 r) as [E|E]; [rewrite E; apply H1|right; exact E]. Qed.
Lemma dfr_deq s x x' : deq x x' -> dfr s x -> dfr s x'.
Proof. intros H1 H2. eapply dfr_trans; [exact H2|apply deq_dfr; exact H1]. Qed.
Lemma dfr_zero s s' r : dfr s s' -> dep s r = 0 -> dep s' r = 0.
Proof. intros H H0. destruct (H r) as [E|E]; congruence. Qed.

Lemma dfr_store_eq s x x' : store x' = store x -> dfr s x -> dfr s x'.
Proof. intros E H. eapply dfr_deq; [|exact H]. eapply deq_store_eq; [exact E|apply deq_refl]. Qed.
Lemma dfr_updm s x k f : dfr s x -> dfr s (updm x k f).
Proof. apply dfr_store_eq. apply store_updm. Qed.
Lemma dfr_updc s x f : dfr s x -> dfr s (updc x f).
Proof. apply dfr_store_eq. reflexivity. Qed.
Lemma dfr_bump s x f : dfr s x -> dfr s (bump f x).
Proof. apply dfr_store_eq. reflexivity. Qed.
Lemma dfr_remove_mgr s x k : dfr s x -> dfr s (remove_mgr_if_unref x k).
Proof. apply dfr_store_eq. apply store_remove_mgr. Qed.
Lemma dfr_updl s x r f : (forall l, l_locked (f l) = l_locked l) -> dfr s x -> dfr s (updl x r f).
Proof. intros Hf H. eapply dfr_deq; [|exact H]. apply deq_updl; [exact Hf|apply deq_refl]. Qed.

Lemma dfr_free_lock s x r : dfr s x -> dfr s (free_lock x r).
Proof.
  intros H r0. rewrite dep_free_lock. destruct (r =? r0); [right; reflexivity|apply H].
Qed.

Lemma dfr_unref s x r : dfr s x -> dfr s (unref x r).
Proof.
  intros H. unfold unref. destruct (aget (store x) r) as [l|] eqn:E; auto. cbv zeta.
  assert (H1 : dfr s (setl x r (l <| l_refc := dec8 (l_refc l) |>))).
  { eapply dfr_deq; [|exact H]. apply deq_setl; [|apply deq_refl].
    unfold dep. rewrite (getl_some _ _ _ E). reflexivity. }
  destruct (dec8 (l_refc l) =? 0); auto. apply dfr_free_lock. exact H1.
Qed.

#[export] Hint Resolve dfr_refl dfr_updm dfr_updc dfr_bump dfr_remove_mgr dfr_free_lock dfr_unref : dfdb.
#[export] Hint Extern 2 (dfr _ (updl _ _ _)) => (apply dfr_updl; [intros ?; reflexivity|]) : dfdb.
#[export] Hint Extern 1 (dfr _ (set _ _ ?x)) => (eapply (dfr_store_eq _ x); [reflexivity|]) : dfdb.
#[export] Hint Extern 1 (dfr _ (if ?c then _ else _)) => destruct c : dfdb.
#[export] Hint Extern 1 (dfr _ (match ?c with _ => _ end)) => destruct c : dfdb.

Ltac df := eauto 80 with dfdb.

Lemma dfr_get_wait_loop fuel : forall s x q x' q' res, get_wait_loop fuel x q = (x', q', res) -> dfr s x -> dfr s x'.
Proof.
  induction fuel as [|f IH]; intros s x q x' q' res H Hs; simpl in H.
  - inv_tuple H. auto.
  - destruct (wq_head q) as [r|]; [|inv_tuple H; auto].
    destruct (dead_waiter (getl x r)); [|inv_tuple H; auto].
    eapply IH; [exact H|]. df.
Qed.

Lemma dfr_get_wait_lock s x k x' res : get_wait_lock x k = (x', res) -> dfr s x -> dfr s x'.
Proof.
  intros H Hs. unfold get_wait_lock in H.
  destruct (m_wait (getm x k)) as [q|]; [|inv_tuple H; auto].
  destruct (get_wait_loop _ x q) as [[x1 q1] r1] eqn:E. inv_tuple H.
  apply dfr_updm. eapply dfr_get_wait_loop; eauto.
Qed.

Lemma dfr_remove_long_timeout s x r : dfr s x -> dfr s (remove_long_timeout x r).
Proof. intros H. eapply dfr_deq; [|exact H]. apply deq_remove_long_timeout. apply deq_refl. Qed.
Lemma dfr_remove_long_expried s x r eT : dfr s x -> dfr s (remove_long_expried x r eT).
Proof. intros H. eapply dfr_deq; [|exact H]. apply deq_remove_long_expried. apply deq_refl. Qed.
#[export] Hint Resolve dfr_remove_long_timeout dfr_remove_long_expried : dfdb.

Lemma dfr_remove_lock s x k r : dfr s x -> dfr s (remove_lock x k r).
Proof. intros H r0. rewrite dep_remove_lock. destruct (r =? r0); [right; reflexivity|apply H]. Qed.
#[export] Hint Resolve dfr_remove_lock : dfdb.

Ltac df_eq :=
  match goal with
  | E : get_wait_lock _ _ = (?y, _) |- dfr _ ?y => eapply dfr_get_wait_lock; [exact E|]
  | E : push_lock_aof _ _ _ _ = (?y, _) |- dfr _ ?y => eapply dfr_deq; [eapply deq_push_lock_aof; [exact E|apply deq_refl]|]
  | E : push_unlock_aof _ _ _ _ _ _ _ = (?y, _) |- dfr _ ?y => eapply dfr_deq; [eapply deq_push_unlock_aof; [exact E|apply deq_refl]|]
  | E : add_expried _ _ _ = (?y, _) |- dfr _ ?y => eapply dfr_deq; [eapply deq_add_expried; [exact E|apply deq_refl]|]
  | E : process_data _ _ _ _ _ = (?y, _) |- dfr _ ?y => eapply dfr_deq; [eapply deq_process_data; [exact E|apply deq_refl]|]
  end.
#[export] Hint Extern 1 (dfr _ ?y) => is_var y; df_eq : dfdb.

(* ------------------------------------------------------------------ lookups depend on the store only *)
Lemma find_locked_store s s' items id : store s' = store s -> find_locked s' items id = find_locked s items id.
Proof.
  intros E. induction items as [|r rest IH]; cbn; auto.
  rewrite (getl_store _ _ r E), IH. reflexivity.
Qed.

Lemma get_locked_lock_store s s' m id : store s' = store s -> get_locked_lock s' m id = get_locked_lock s m id.
Proof.
  intros E. unfold get_locked_lock. destruct (m_cur m) as [c|]; auto.
  rewrite (getl_store _ _ c E). destruct (_ =? id); auto.
  destruct (m_locks m) as [q|]; auto. unfold hq_getlock. rewrite (find_locked_store _ _ _ _ E). reflexivity.
Qed.

Lemma pres_updm s k f r : pres (updm s k f) r = pres s r.
Proof. unfold pres. rewrite store_updm. reflexivity. Qed.

Lemma dep_updm s k f r : dep (updm s k f) r = dep s r.
Proof. unfold dep. rewrite getl_updm. reflexivity. Qed.

Lemma dep_updl_inc x r :
  dep (updl x r (fun l => l <| l_locked := add8 (l_locked l) 1 |>)) r = if pres x r then add8 (dep x r) 1 else 0.
Proof.
  unfold dep, pres. rewrite getl_updl, N.eqb_refl. unfold getl.
  destruct (aget (store x) r); reflexivity.
Qed.

Lemma deq_at s S r : deq s S -> dep S r = dep s r.
Proof. intros H. apply H. Qed.

(* `locked` of the key after the cancelled record gave back its depth (0 for a plain waiter) *)
Definition cancel_val (s : db) (k : N) (r : ref) : N :=
  if 0 <? dep s r then sub32 (mlk s k) (dep s r) else mlk s k.

Lemma mlk_chain_sub s U S k d :
  mfr (updm U k (fun m => m <| m_locked := sub32 (m_locked m) d |>)) S -> mfr s U -> aget (mgrs s) k <> None ->
  mlk S k = sub32 (mlk s k) d.
Proof.
  intros H1 H2 Hk. rewrite (mfr_mlk _ _ k H1).
  rewrite (mlk_updm_locked U k (fun x => sub32 x d)); [|eapply mfr_has; eauto].
  rewrite (mfr_mlk _ _ k H2). reflexivity.
Qed.

(* write the counters read by the replies as mlk / dep *)
Ltac fold_counts :=
  repeat match goal with
  | |- context [m_locked (getm ?S ?k)] => change (m_locked (getm S k)) with (mlk S k)
  | |- context [l_locked (getl ?S ?r)] => change (l_locked (getl S r)) with (dep S r)
  end.

(* counter updates change neither *)
Ltac strip_bump :=
  repeat match goal with
  | |- context [dep (bump ?f ?X) ?r] => change (dep (bump f X) r) with (dep X r)
  | |- context [mlk (bump ?f ?X) ?k] => change (mlk (bump f X) k) with (mlk X k)
  | |- context [mgrs (bump ?f ?X)] => change (mgrs (bump f X)) with (mgrs X)
  end.

Lemma dep_freed S r k : dep (remove_mgr_if_unref (free_lock S r) k) r = 0.
Proof. rewrite (dep_store _ _ r (store_remove_mgr _ k)), dep_free_lock, N.eqb_refl. reflexivity. Qed.

(* ------------------------------------------------------------------ u16 *)
Lemma u16_small x : x < 65536 -> u16 x = x.
Proof. intros H. unfold u16. apply N.mod_small. exact H. Qed.
