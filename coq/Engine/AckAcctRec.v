(* FORK of Engine/InvRec.v replayed on the definitions of AckAcctDef.v (require-ack locks, run class ack_core); changes are marked ACK or concern dead_waiter / the acknowledgement reference in g_xe. *)
(* Invariant proof, part 3: reference-count updates, unref, depth changes, flag changes of one record. *)
From Coq Require Import String ZifyN ZifyBool ZifyNat Permutation.
From Slock Require Import Engine.Types Engine.Queues Engine.Timers Engine.Engine Engine.Engine2 Engine.InvDef Engine.InvBase Engine.AckAcctDef
  Engine.AckAcctPrims.
Open Scope N_scope.

Lemma setl_refc s g g' r l n' :
  GInv s g -> aget (store s) r = Some l ->
  g_dk g' = g_dk g -> g_lk g' = g_lk g -> g_pw g' = g_pw g -> g_cl g' = g_cl g -> g_dl g' = g_dl g -> g_cw g' = g_cw g ->
  (forall r0, r0 <> r -> occ r0 (g_xt g') = occ r0 (g_xt g) /\ occ r0 (g_xe g') = occ r0 (g_xe g)
                         /\ occ r0 (g_ph g') = occ r0 (g_ph g)
                         /\ occ r0 (g_owe g') = occ r0 (g_owe g) /\ occ r0 (g_pre g') = occ r0 (g_pre g)
                         /\ (occ r0 (g_pend g') = O -> occ r0 (g_pend g) = O)) ->
  (N.to_nat n' + occ r (g_owe g') + occ r (g_ph g')
   = occ r (holders (getm s (l_key l))) + occ r (m_wq (getm s (l_key l))) + tcount s g' r + ecount s g' r
     + occ r (g_pre g'))%nat ->
  (tcount s g' r <= tcount s g r)%nat -> (ecount s g' r <= ecount s g r)%nat ->
  (0 < l_locked l -> occ r (g_pre g') = O -> occ r (holders (getm s (l_key l))) = 1%nat) ->
  (occ r (g_pend g') = O -> occ r (g_pend g) = O) ->
  (In r (g_ph g') -> (g_pw g = false -> l_locked l = 0) /\ dead_waiter l = true) ->
  (occ r (g_ph g') <= occ r (phl s g))%nat ->
  (l_ack l <> 255 -> occ r (g_xe g') = 1%nat) ->  (* ACK *)
  GInv (setl s r (l <| l_refc := n' |>)) g'.
Proof.
  intros G Hr Hdk Hlk Hpw Hcl Hdl Hcw Hoth Hbal Ht He Hpre Hpend Hph Hphle Hxa.
  destruct (gi_rec _ _ G r l Hr) as [A1 A2 A3 A4 A5 A6 A7 A8 A9 A10 A11].
  set (l' := l <| l_refc := n' |>).
  assert (K : l_key l' = l_key l) by (destruct l; reflexivity).
  assert (D : l_locked l' = l_locked l) by (destruct l; reflexivity).
  assert (T : l_timeouted l' = l_timeouted l) by (destruct l; reflexivity).
  assert (DW : dead_waiter l' = dead_waiter l) by (destruct l; reflexivity).
  assert (AK : l_ack l' = l_ack l) by (destruct l; reflexivity).
  assert (EX : l_expried l' = l_expried l) by (destruct l; reflexivity).
  eapply setl_ginv; eauto.
  - constructor; change (getm (setl s r l') (l_key l')) with (getm s (l_key l'));
      change (tcount (setl s r l') g' r) with (tcount s g' r); change (ecount (setl s r l') g' r) with (ecount s g' r);
      rewrite ?K, ?D, ?T, ?DW, ?AK, ?EX; auto; try lia.
  - rewrite D, Hdl. destruct (l_key l =? g_dk g); lia.
  - unfold liveb. rewrite DW. lia.
Qed.

(* ACK: the acknowledgement reference of a record whose g_xe occurrence is not touched *)
Ltac xa A10 := let Ha := fresh "Ha" in intros Ha; let Q := fresh "Q" in destruct (A10 Ha) as [_ [_ Q]]; gs; exact Q.

Lemma dec8_pred x : 0 < x -> x < 256 -> dec8 x = x - 1.
Proof. intros. unfold dec8. replace (x + 255) with (x - 1 + 1 * 256) by lia. rewrite N.mod_add by lia. apply N.mod_small. lia. Qed.
Lemma add8_succ x : x + 1 < 256 -> add8 x 1 = x + 1.
Proof. intros. unfold add8. apply N.mod_small. auto. Qed.

(* refCount--; FreeLock at zero.  The released reference is accounted for by the change from g to g'. *)
Lemma unref_ginv s g g' r l :
  GInv s g -> aget (store s) r = Some l -> 0 < l_refc l -> l_refc l < 256 ->
  (l_refc l = 1 -> dead_waiter l = true /\ occ r (g_owe g') = O) ->
  g_dk g' = g_dk g -> g_lk g' = g_lk g -> g_pw g' = g_pw g -> g_cl g' = g_cl g -> g_dl g' = g_dl g -> g_cw g' = g_cw g ->
  (forall r0, r0 <> r -> occ r0 (g_xt g') = occ r0 (g_xt g) /\ occ r0 (g_xe g') = occ r0 (g_xe g)
                         /\ occ r0 (g_ph g') = occ r0 (g_ph g)
                         /\ occ r0 (g_owe g') = occ r0 (g_owe g) /\ occ r0 (g_pre g') = occ r0 (g_pre g)
                         /\ (occ r0 (g_pend g') = O -> occ r0 (g_pend g) = O)) ->
  (N.to_nat (l_refc l) + occ r (g_owe g') + occ r (g_ph g')
   = 1 + occ r (holders (getm s (l_key l))) + occ r (m_wq (getm s (l_key l))) + tcount s g' r + ecount s g' r
     + occ r (g_pre g'))%nat ->
  (tcount s g' r <= tcount s g r)%nat -> (ecount s g' r <= ecount s g r)%nat ->
  (0 < l_locked l -> occ r (g_pre g') = O -> occ r (holders (getm s (l_key l))) = 1%nat) ->
  (occ r (g_pend g') = O -> occ r (g_pend g) = O) ->
  (In r (g_ph g') -> (g_pw g = false -> l_locked l = 0) /\ dead_waiter l = true) ->
  (occ r (g_ph g') <= occ r (phl s g))%nat ->
  (l_ack l <> 255 -> occ r (g_xe g') = 1%nat) ->  (* ACK *)
  GInv (unref s r) g'.
Proof.
  intros G Hr H0 H256 H1 Hdk Hlk Hpw Hcl Hdl Hcw Hoth Hbal Ht He Hpre Hpend Hph Hphle Hxa.
  unfold unref. rewrite Hr. rewrite dec8_pred by auto.
  assert (G1 : GInv (setl s r (l <| l_refc := l_refc l - 1 |>)) g').
  { eapply setl_refc; eauto. lia. }
  destruct (l_refc l - 1 =? 0) eqn:E; auto.
  apply N.eqb_eq in E. assert (E1 : l_refc l = 1) by lia. destruct (H1 E1) as [Hti Ho].
  set (l' := l <| l_refc := l_refc l - 1 |>) in *.
  assert (Hr' : aget (store (setl s r l')) r = Some l') by (rewrite store_setl, aget_aset_same; auto).
  pose proof (free_lock_ginv _ _ r l' G1 Hr') as F.
  assert (Z : liveb l' = 0%Z) by (unfold liveb; change (dead_waiter l') with (dead_waiter l); rewrite Hti; auto).
  rewrite Z in F. eapply ginv_geq; [apply F; [exact E|exact Ho]|].
  destruct g'; gs. rewrite Z.sub_0_r. reflexivity.
Qed.

Lemma rec_counts s g r l : GInv s g -> aget (store s) r = Some l ->
  (occ r (holders (getm s (l_key l))) <= 1 /\ occ r (m_wq (getm s (l_key l))) <= 1
   /\ tcount s g r <= 1 /\ ecount s g r <= 1)%nat
  /\ exists m, aget (mgrs s) (l_key l) = Some m /\ getm s (l_key l) = m.
Proof.
  intros G Hr. destruct (gi_rec _ _ G r l Hr) as [A1 A2 A3 A4 A5 A6 A7 A8 A9 A10 A11].
  destruct (aget (mgrs s) (l_key l)) as [m|] eqn:Hm; [|tauto].
  rewrite (getm_some _ _ _ Hm). pose proof (gi_mgr _ _ G _ _ Hm) as M.
  split; [|eauto]. repeat split; auto.
  - apply occ_nodup. apply (mo_nd _ _ _ _ M).
  - apply occ_nodup. apply (mo_ndw _ _ _ _ M).
Qed.

Lemma occ_cons r x t : occ r (x :: t) = Nat.add (if N.eqb x r then 1%nat else O) (occ r t).
Proof. reflexivity. Qed.

Ltac occ_others :=
  let r0 := fresh "r0" in let H := fresh "H" in
  intros r0 H; gs; rewrite ?occ_cons;
  repeat match goal with |- context [?x =? r0] =>
    let E := fresh "E" in destruct (x =? r0) eqn:E; [apply N.eqb_eq in E; congruence|] end;
  repeat split; auto; try lia.

(* the timeout sweeper drops the reference it holds at the head of its list *)
Lemma unref_xt s g r xt' l :
  GInv s g -> g_xt g = r :: xt' -> g_owe g = [] -> g_ph g = [] -> g_pre g = [] ->
  aget (store s) r = Some l ->
  GInv (unref s r) (g <| g_xt := xt' |>).
Proof.
  intros G Hx Ho Hp Hq Hr.
  destruct (rec_counts s g r l G Hr) as [[C1 [C2 [C3 C4]]] _].
  destruct (gi_rec _ _ G r l Hr) as [A1 A2 A3 A4 A5 A6 A7 A8 A9 A10 A11].
  assert (Ht : l_refc l = 1 -> dead_waiter l = true).
  { intros E. destruct (dead_waiter l) eqn:Et; auto. destruct (A6 eq_refl) as [_ [_ [_ Q]]].
    unfold tcount in A3. rewrite Hx, Ho, Hp, Hq, occ_cons_eq in A3. simpl occ in A3. lia. }
  unfold tcount, ecount in *. rewrite Hx, Ho, Hp, Hq in *. rewrite occ_cons_eq in *. simpl occ in A3.
  eapply unref_ginv; eauto; gs; unfold tcount, ecount; gs; rewrite ?Ho, ?Hp, ?Hq; simpl occ; try lia.
  - rewrite Hx. occ_others.
  - simpl. tauto.
Qed.

Lemma unref_xe s g r xe' l :
  GInv s g -> g_xe g = r :: xe' -> g_owe g = [] -> g_ph g = [] -> g_pre g = [] ->
  aget (store s) r = Some l -> l_ack l = 255 ->  (* ACK *)
  GInv (unref s r) (g <| g_xe := xe' |>).
Proof.
  intros G Hx Ho Hp Hq Hr Hak.
  destruct (rec_counts s g r l G Hr) as [[C1 [C2 [C3 C4]]] _].
  destruct (gi_rec _ _ G r l Hr) as [A1 A2 A3 A4 A5 A6 A7 A8 A9 A10 A11].
  assert (Ht : dead_waiter l = true).
  { destruct (dead_waiter l) eqn:E; auto. destruct (A6 eq_refl) as [_ [Q _]]. unfold ecount in Q. rewrite Hx, occ_cons_eq in Q. lia. }
  unfold tcount, ecount in *. rewrite Hx, Ho, Hp, Hq in *. rewrite occ_cons_eq in *. simpl occ in A3.
  eapply unref_ginv; eauto; gs; unfold tcount, ecount; gs; rewrite ?Ho, ?Hp, ?Hq; simpl occ; try lia.
  - rewrite Hx. occ_others.
  - simpl. tauto.
Qed.

(* a loop over key g_dk's holder / wait list drops the reference of an entry it has popped *)
Lemma unref_ph s g r l :
  GInv s g -> aget (store s) r = Some l -> l_key l = g_dk g -> (g_pw g = false -> l_locked l = 0) -> dead_waiter l = true ->
  occ r (g_owe g) = O (* ACK: was g_owe g = [] *) -> occ r (g_pre g) = O ->
  (occ r (g_ph g) < occ r (phl s g))%nat ->
  GInv (unref s r) (g <| g_ph := r :: g_ph g |>).
Proof.
  intros G Hr Hk Hl Ht Ho Hq Hlt.
  destruct (rec_counts s g r l G Hr) as [[C1 [C2 [C3 C4]]] _].
  destruct (gi_rec _ _ G r l Hr) as [A1 A2 A3 A4 A5 A6 A7 A8 A9 A10 A11].
  unfold phl in Hlt. rewrite <- Hk in Hlt. rewrite Ho in *. simpl occ in A3.
  assert (Hlt' : (occ r (g_ph g) < occ r (holders (getm s (l_key l))) + occ r (m_wq (getm s (l_key l))))%nat) by (destruct (g_pw g); lia).
  eapply unref_ginv; eauto; gs; change (tcount s (g <| g_ph := r :: g_ph g |>) r) with (tcount s g r);
    change (ecount s (g <| g_ph := r :: g_ph g |>) r) with (ecount s g r); rewrite ?Ho, ?occ_cons_eq, ?occ_app; simpl occ; try lia.
  - occ_others.
  - unfold phl. rewrite <- Hk. lia.
Qed.

(* ---------------------------------------------------------------- timeouted / long / deadline fields *)
(* ACK: general form, the acknowledgement counter may change *)
Lemma setl_flags_gen s g r l l' :
  GInv s g -> aget (store s) r = Some l ->
  l_key l' = l_key l -> l_refc l' = l_refc l -> l_locked l' = l_locked l ->
  c_lockid (l_cmd l') = c_lockid (l_cmd l) -> cmd_core (l_cmd l') ->
  (dead_waiter l' = false ->
     occ r (holders (getm s (l_key l))) = O /\ ecount s g r = O /\ l_locked l = 0
     /\ occ r (m_wq (getm s (l_key l))) = 1%nat) ->
  (l_long l' = true -> occ r (g_pend g) = O ->
     (l_timeouted l' = false -> occ r (wheel_get (tlong s) (lkey (l_tT l'))) = 1%nat)
     /\ (l_timeouted l' = true -> occ r (wheel_get (elong s) (lkey (l_eT l'))) = 1%nat)) ->
  (In r (g_ph g) -> dead_waiter l' = true) ->
  (l_ack l' <> 255 -> l_expried l' = true /\ 0 < l_locked l /\ occ r (g_xe g) = 1%nat) ->
  GInv (setl s r l') (g <| g_cw := (g_cw g + liveb l' - liveb l)%Z |>).
Proof.
  intros G Hr K R D C CC Hlive Hlong Hpt Hack.
  destruct (gi_rec _ _ G r l Hr) as [A1 A2 A3 A4 A5 A6 A7 A8 A9 A10 A11].
  eapply setl_ginv; eauto; gs; auto.
  - intros. repeat split; auto.
  - constructor; change (getm (setl s r l') (l_key l')) with (getm s (l_key l'));
      change (tcount (setl s r l') (g <| g_cw := (g_cw g + liveb l' - liveb l)%Z |>) r) with (tcount s g r);
      change (ecount (setl s r l') (g <| g_cw := (g_cw g + liveb l' - liveb l)%Z |>) r) with (ecount s g r);
      rewrite ?K, ?R, ?D; auto.
  - rewrite D. destruct (l_key l =? g_dk g); lia.
  - rewrite D, C. auto.
  - rewrite D. intros Hi. pose proof (gi_ph _ _ G r Hi) as [Z _]. rewrite (getl_some _ _ _ Hr) in Z. auto.
  - apply (gi_phle _ _ G).
Qed.

Lemma setl_flags s g r l l' :
  GInv s g -> aget (store s) r = Some l ->
  l_key l' = l_key l -> l_refc l' = l_refc l -> l_locked l' = l_locked l -> l_ack l' = l_ack l ->
  c_lockid (l_cmd l') = c_lockid (l_cmd l) -> cmd_core (l_cmd l') ->
  (dead_waiter l' = false ->
     occ r (holders (getm s (l_key l))) = O /\ ecount s g r = O /\ l_locked l = 0
     /\ occ r (m_wq (getm s (l_key l))) = 1%nat) ->
  (l_long l' = true -> occ r (g_pend g) = O ->
     (l_timeouted l' = false -> occ r (wheel_get (tlong s) (lkey (l_tT l'))) = 1%nat)
     /\ (l_timeouted l' = true -> occ r (wheel_get (elong s) (lkey (l_eT l'))) = 1%nat)) ->
  (In r (g_ph g) -> dead_waiter l' = true) ->
  (l_ack l <> 255 -> l_expried l' = true) ->  (* ACK *)
  GInv (setl s r l') (g <| g_cw := (g_cw g + liveb l' - liveb l)%Z |>).
Proof.
  intros G Hr K R D A C CC Hlive Hlong Hpt Hack.
  destruct (gi_rec _ _ G r l Hr) as [A1 A2 A3 A4 A5 A6 A7 A8 A9 A10 A11].
  eapply setl_flags_gen; eauto.
  rewrite A. intros Ha. pose proof (Hack Ha) as Q1. destruct (A10 Ha) as [_ [Q3 Q4]]. auto.
Qed.

(* ---------------------------------------------------------------- re-entrant depth of a holder of key g_dk *)
Lemma setl_depth s g r l l' :
  GInv s g -> aget (store s) r = Some l -> l_key l = g_dk g ->
  l_key l' = l_key l -> l_refc l' = l_refc l -> l_timeouted l' = l_timeouted l -> l_long l' = l_long l ->
  l_tT l' = l_tT l -> l_eT l' = l_eT l -> l_ack l' = 255 ->
  c_lockid (l_cmd l') = c_lockid (l_cmd l) -> cmd_core (l_cmd l') ->
  l_locked l' <= 255 ->
  (l_timeouted l = false -> l_locked l' = 0) ->
  (0 < l_locked l' -> occ r (g_pre g) = O -> occ r (holders (getm s (l_key l))) = 1%nat) ->
  (g_lk g = false -> 0 < l_locked l -> 0 < l_locked l') ->
  (In r (g_ph g) -> l_locked l' = 0) ->
  (l_ack l <> 255 -> l_timeouted l = true) ->  (* ACK: a pending hold is rolled back after its timeouted flag is set *)
  GInv (setl s r l')
       (g <| g_dl := (g_dl g + Z.of_nat (occ r (holders (getm s (l_key l)))) * (Z.of_N (l_locked l') - Z.of_N (l_locked l)))%Z |>).
Proof.
  intros G Hr Hk K R T Lg TT ET A C CC Db Hlive Hheld Hcur Hph Hpt.
  destruct (gi_rec _ _ G r l Hr) as [A1 A2 A3 A4 A5 A6 A7 A8 A9 A10 A11].
  assert (DW : dead_waiter l' = dead_waiter l).
  { unfold dead_waiter. rewrite T, A. destruct (l_timeouted l) eqn:Et; auto. simpl.
    destruct (l_ack l =? 255) eqn:Ea; auto. apply N.eqb_neq in Ea. specialize (Hpt Ea). congruence. }
  eapply setl_ginv; eauto; gs; auto.
  - intros. repeat split; auto.
  - constructor; change (getm (setl s r l') (l_key l')) with (getm s (l_key l'));
      match goal with |- context [tcount ?a ?b r] => change (tcount a b r) with (tcount s g r) | _ => idtac end;
      match goal with |- context [ecount ?a ?b r] => change (ecount a b r) with (ecount s g r) | _ => idtac end;
      rewrite ?DW, ?K, ?R, ?T, ?Lg, ?TT, ?ET; auto.
    + intros Hti. destruct (A6 Hti) as [Q1 [Q2 [Q3 Q4]]]. repeat split; auto.
      apply Hlive. unfold dead_waiter in Hti. apply orb_false_iff in Hti. tauto.
    + intros Ha. congruence.
  - rewrite Hk, N.eqb_refl. lia.
  - rewrite Hk, N.eqb_refl. discriminate.
  - unfold lkk. rewrite Hk, N.eqb_refl. simpl. intros Hl Hp. split; auto.
  - intros Hi. split; auto. rewrite DW. destruct (gi_ph _ _ G r Hi) as [_ Z]. rewrite (getl_some _ _ _ Hr) in Z. auto.
  - apply (gi_phle _ _ G).
  - unfold liveb. rewrite DW. lia.
Qed.

(* ---------------------------------------------------------------- refCount++ *)
Lemma updl_refc_owe s g r owe' l :
  GInv s g -> g_owe g = r :: owe' -> g_pre g = [] -> aget (store s) r = Some l ->
  GInv (updl s r (fun l => l <| l_refc := add8 (l_refc l) 1 |>)) (g <| g_owe := owe' |>).
Proof.
  intros G Ho Hq Hr. rewrite (updl_some _ _ _ _ Hr).
  destruct (rec_counts s g r l G Hr) as [[C1 [C2 [C3 C4]]] _].
  destruct (gi_rec _ _ G r l Hr) as [A1 A2 A3 A4 A5 A6 A7 A8 A9 A10 A11].
  rewrite Ho, Hq, occ_cons_eq in A3. simpl occ in A3.
  rewrite add8_succ by lia.
  eapply setl_refc; eauto; gs; change (tcount s (g <| g_owe := owe' |>) r) with (tcount s g r);
    change (ecount s (g <| g_owe := owe' |>) r) with (ecount s g r); rewrite ?Hq; simpl occ; try lia.
  - rewrite Ho. occ_others.
  - intros Hi. pose proof (gi_ph _ _ G r Hi) as Z. rewrite (getl_some _ _ _ Hr) in Z. auto.
  - apply (gi_phle _ _ G).
Qed.

Lemma updl_refc_pre s g r l :
  GInv s g -> g_pre g = [] -> aget (store s) r = Some l ->
  GInv (updl s r (fun l => l <| l_refc := add8 (l_refc l) 1 |>)) (g <| g_pre := [r] |>).
Proof.
  intros G Hq Hr. rewrite (updl_some _ _ _ _ Hr).
  destruct (rec_counts s g r l G Hr) as [[C1 [C2 [C3 C4]]] _].
  destruct (gi_rec _ _ G r l Hr) as [A1 A2 A3 A4 A5 A6 A7 A8 A9 A10 A11].
  rewrite Hq in A3. simpl occ in A3.
  rewrite add8_succ by lia.
  eapply setl_refc; eauto; gs; change (tcount s (g <| g_pre := [r] |>) r) with (tcount s g r);
    change (ecount s (g <| g_pre := [r] |>) r) with (ecount s g r); rewrite ?occ_cons_eq; simpl occ; try lia.
  - rewrite Hq. occ_others.
  - intros Hi. pose proof (gi_ph _ _ G r Hi) as Z. rewrite (getl_some _ _ _ Hr) in Z. auto.
  - apply (gi_phle _ _ G).
Qed.
