(* The reference-count floor (J1: every stored lock record has refCount >= 1 at rest), part 1: local frames.
   Besides J1 the induction carries
     J3: a stored record with l_locked > 0 is on the expiry structures (wheel slot, long table, or the list the expiry
         sweeper holds), and
     J4: l_expried = true -> l_locked = 0.
   NR T s x : every record of x other than T was a record of s with the same l_locked / l_expried, and its refCount did
              not drop to zero (records other than the target of a critical section only lose references through
              `unref`, which frees at zero);
   NW T s x : expiry-wheel / long-table entries of s other than T are still there in x.
   All lemmas hold for every db value; right-extension form, hint db nrdb. *)
From Coq Require Import String ZifyN ZifyBool ZifyNat.
From Slock Require Import Engine.Types Engine.Queues Engine.Timers Engine.Engine Engine.Engine2 Engine.InvDef Engine.InvBase
  Engine.InvWheel Engine.LocalBase Engine.RunDrain.
Open Scope N_scope.

(* membership in the expiry structures (xe: the references the expiry sweeper holds) *)
Definition Ein (s : db) (xe : list ref) (r : ref) : Prop :=
  (exists key, In r (wheel_get (ewheel s) key)) \/ (exists key, In r (wheel_get (elong s) key)) \/ In r xe.

Definition ntr (l l' : lockrec) : Prop :=
  l_key l' = l_key l /\ l_locked l' = l_locked l /\ l_expried l' = l_expried l /\ (l_refc l <> 0 -> l_refc l' <> 0).
Lemma ntr_refl l : ntr l l.  Proof. unfold ntr. auto. Qed.
Lemma ntr_trans a b c : ntr a b -> ntr b c -> ntr a c.
Proof. unfold ntr. intros (A0 & A1 & A2 & A3) (B0 & B1 & B2 & B3). repeat split; try congruence. auto. Qed.

Definition NR (T : option ref) (s x : db) : Prop :=
  forall r l', T <> Some r -> aget (store x) r = Some l' -> exists l, aget (store s) r = Some l /\ ntr l l'.
Definition NW (T : option ref) (s x : db) : Prop :=
  forall key r, T <> Some r ->
    (In r (wheel_get (ewheel s) key) -> In r (wheel_get (ewheel x) key))
    /\ (In r (wheel_get (elong s) key) -> In r (wheel_get (elong x) key)).

Create HintDb nrdb.

Lemma NR_refl T s : NR T s s.
Proof. intros r l' _ H. exists l'. split; [exact H|apply ntr_refl]. Qed.
Lemma NW_refl T s : NW T s s.
Proof. intros key r _. auto. Qed.
Lemma NR_trans T a b c : NR T a b -> NR T b c -> NR T a c.
Proof.
  intros H1 H2 r l' HT H. destruct (H2 r l' HT H) as (l1 & A & B). destruct (H1 r l1 HT A) as (l0 & C & D).
  exists l0. split; [exact C|eapply ntr_trans; eauto].
Qed.
Lemma NW_trans T a b c : NW T a b -> NW T b c -> NW T a c.
Proof. intros H1 H2 key r HT. destruct (H1 key r HT), (H2 key r HT). split; auto. Qed.
Lemma NR_weaken T s x : NR None s x -> NR T s x.
Proof. intros H r l' _ Hl. apply (H r l'); [discriminate|exact Hl]. Qed.
Lemma NW_weaken T s x : NW None s x -> NW T s x.
Proof. intros H key r _. apply (H key r). discriminate. Qed.

(* ---------------------------------------------------------------- NR: primitive updates *)
Lemma NR_store_eq T s x x' : store x' = store x -> NR T s x -> NR T s x'.
Proof. intros E H r l' HT Hl. rewrite E in Hl. eauto. Qed.
Lemma NR_updm T s x k f : NR T s x -> NR T s (updm x k f).
Proof. apply NR_store_eq, store_updm. Qed.
Lemma NR_setm T s x k m : NR T s x -> NR T s (setm x k m).
Proof. apply NR_store_eq. reflexivity. Qed.
Lemma NR_updc T s x f : NR T s x -> NR T s (updc x f).
Proof. apply NR_store_eq. reflexivity. Qed.
Lemma NR_bump T s x f : NR T s x -> NR T s (bump f x).
Proof. apply NR_store_eq. reflexivity. Qed.
Lemma NR_remove_mgr T s x k : NR T s x -> NR T s (remove_mgr_if_unref x k).
Proof. apply NR_store_eq. unfold remove_mgr_if_unref. destruct (aget (mgrs x) k) as [m|]; [destruct (m_ref m =? 0)|]; reflexivity. Qed.

(* the target may change at will *)
Lemma NR_updl_T s x r f : NR (Some r) s x -> NR (Some r) s (updl x r f).
Proof.
  intros H r0 l' HT Hl. rewrite aget_store_updl in Hl. destruct (r =? r0) eqn:E; [|eauto].
  apply N.eqb_eq in E. subst. congruence.
Qed.
Lemma NR_setl_T s x r l : NR (Some r) s x -> NR (Some r) s (setl x r l).
Proof.
  intros H r0 l' HT Hl. rewrite store_setl, aget_aset in Hl. destruct (r =? r0) eqn:E; [|eauto].
  apply N.eqb_eq in E. subst. congruence.
Qed.
(* an update that keeps depth / expried flag / refCount is harmless for every record *)
Lemma NR_updl_ntr T s x r f : (forall l, ntr l (f l)) -> NR T s x -> NR T s (updl x r f).
Proof.
  intros Hf H r0 l' HT Hl. rewrite aget_store_updl in Hl. destruct (r =? r0) eqn:E; [|eauto].
  apply N.eqb_eq in E. subst r0. destruct (aget (store x) r) as [l1|] eqn:E1; [|discriminate]. simpl in Hl. inv Hl.
  destruct (H r l1 HT E1) as (l0 & A & B). exists l0. split; [exact A|eapply ntr_trans; [exact B|apply Hf]].
Qed.
Lemma aget_store_free_lock x r r0 : aget (store (free_lock x r)) r0 = if r =? r0 then None else aget (store x) r0.
Proof.
  unfold free_lock. destruct (aget (store x) r) as [l|] eqn:E.
  - rewrite store_updm. change (store (x <| store := adel (store x) r |>)) with (adel (store x) r). apply aget_adel.
  - destruct (r =? r0) eqn:E1; [apply N.eqb_eq in E1; subst; exact E|reflexivity].
Qed.
Lemma NR_free_lock T s x r : NR T s x -> NR T s (free_lock x r).
Proof.
  intros H r0 l' HT Hl. rewrite aget_store_free_lock in Hl. destruct (r =? r0); [discriminate|eauto].
Qed.
Lemma unref_store_cases x r r0 :
  aget (store (unref x r)) r0 = aget (store x) r0
  \/ (r0 = r /\ aget (store (unref x r)) r = None)
  \/ (r0 = r /\ exists l, aget (store x) r = Some l /\ dec8 (l_refc l) <> 0
               /\ aget (store (unref x r)) r = Some (l <| l_refc := dec8 (l_refc l) |>)).
Proof.
  unfold unref. destruct (aget (store x) r) as [l|] eqn:E; [|auto].
  destruct (r =? r0) eqn:E1.
  - apply N.eqb_eq in E1. subst r0. right. destruct (dec8 (l_refc l) =? 0) eqn:E0.
    + left. split; [reflexivity|apply free_lock_gone].
    + right. split; [reflexivity|]. exists l. split; [reflexivity|]. split; [apply N.eqb_neq; exact E0|].
      rewrite store_setl. apply aget_aset_same.
  - left. destruct (dec8 (l_refc l) =? 0).
    + rewrite aget_store_free_lock, E1. rewrite store_setl, aget_aset, E1. reflexivity.
    + rewrite store_setl, aget_aset, E1. reflexivity.
Qed.

Lemma NR_unref T s x r : NR T s x -> NR T s (unref x r).
Proof.
  intros H r0 l' HT Hl. destruct (unref_store_cases x r r0) as [E|[[-> E]|[-> (l & E1 & E2 & E3)]]].
  - rewrite E in Hl. eauto.
  - congruence.
  - rewrite E3 in Hl. inv Hl. destruct (H r l HT E1) as (l0 & A & (B0 & B1 & B2 & B3)). exists l0. split; [exact A|].
    unfold ntr. cbn. repeat split; auto.
Qed.

(* ---------------------------------------------------------------- the combined frame *)
Definition NF (Tr Tw : option ref) (s x : db) : Prop := NR Tr s x /\ NW Tw s x.

Lemma NF_refl Tr Tw s : NF Tr Tw s s.
Proof. split; [apply NR_refl|apply NW_refl]. Qed.
Lemma NF_trans Tr Tw a b c : NF Tr Tw a b -> NF Tr Tw b c -> NF Tr Tw a c.
Proof. intros [A1 A2] [B1 B2]. split; [eapply NR_trans; eauto|eapply NW_trans; eauto]. Qed.
Lemma NF_weaken Tr Tw s x : NF None None s x -> NF Tr Tw s x.
Proof. intros [A B]. split; [apply NR_weaken; auto|apply NW_weaken; auto]. Qed.
Lemma NF_weaken_r Tr Tw s x : NF None Tw s x -> NF Tr Tw s x.
Proof. intros [A B]. split; [apply NR_weaken; auto|auto]. Qed.
Lemma NF_weaken_w Tr Tw s x : NF Tr None s x -> NF Tr Tw s x.
Proof. intros [A B]. split; [auto|apply NW_weaken; auto]. Qed.

Lemma ew_updl x r f : ewheel (updl x r f) = ewheel x.  Proof. unfold updl. destruct aget; reflexivity. Qed.
Lemma el_updl x r f : elong (updl x r f) = elong x.  Proof. unfold updl. destruct aget; reflexivity. Qed.
Lemma ew_updm x k f : ewheel (updm x k f) = ewheel x.  Proof. unfold updm. destruct aget; reflexivity. Qed.
Lemma el_updm x k f : elong (updm x k f) = elong x.  Proof. unfold updm. destruct aget; reflexivity. Qed.

Lemma NW_wheels_eq T s x x' : ewheel x' = ewheel x -> elong x' = elong x -> NW T s x -> NW T s x'.
Proof. intros E1 E2 H key r HT. rewrite E1, E2. apply H; auto. Qed.

Lemma NF_same Tr Tw s x x' : store x' = store x -> ewheel x' = ewheel x -> elong x' = elong x -> NF Tr Tw s x -> NF Tr Tw s x'.
Proof. intros E1 E2 E3 [A B]. split; [eapply NR_store_eq; eauto|eapply NW_wheels_eq; eauto]. Qed.

Lemma NF_updm Tr Tw s x k f : NF Tr Tw s x -> NF Tr Tw s (updm x k f).
Proof. apply NF_same; [apply store_updm|apply ew_updm|apply el_updm]. Qed.
Lemma NF_setm Tr Tw s x k m : NF Tr Tw s x -> NF Tr Tw s (setm x k m).
Proof. apply NF_same; reflexivity. Qed.
Lemma NF_updc Tr Tw s x f : NF Tr Tw s x -> NF Tr Tw s (updc x f).
Proof. apply NF_same; reflexivity. Qed.
Lemma NF_bump Tr Tw s x f : NF Tr Tw s x -> NF Tr Tw s (bump f x).
Proof. apply NF_same; reflexivity. Qed.
Lemma NF_remove_mgr Tr Tw s x k : NF Tr Tw s x -> NF Tr Tw s (remove_mgr_if_unref x k).
Proof.
  apply NF_same; unfold remove_mgr_if_unref; destruct (aget (mgrs x) k) as [m|]; try destruct (m_ref m =? 0); reflexivity.
Qed.
Lemma NF_updl_T Tw s x r f : NF (Some r) Tw s x -> NF (Some r) Tw s (updl x r f).
Proof. intros [A B]. split; [apply NR_updl_T; auto|eapply NW_wheels_eq; [apply ew_updl|apply el_updl|exact B]]. Qed.
Lemma NF_setl_T Tw s x r l : NF (Some r) Tw s x -> NF (Some r) Tw s (setl x r l).
Proof. intros [A B]. split; [apply NR_setl_T; auto|eapply NW_wheels_eq; [| |exact B]; reflexivity]. Qed.
Lemma NF_updl_ntr Tr Tw s x r f : (forall l, ntr l (f l)) -> NF Tr Tw s x -> NF Tr Tw s (updl x r f).
Proof. intros Hf [A B]. split; [apply NR_updl_ntr; auto|eapply NW_wheels_eq; [apply ew_updl|apply el_updl|exact B]]. Qed.

Lemma ew_free_lock x r : ewheel (free_lock x r) = ewheel x.
Proof. unfold free_lock. destruct aget; [rewrite ew_updm|]; reflexivity. Qed.
Lemma el_free_lock x r : elong (free_lock x r) = elong x.
Proof. unfold free_lock. destruct aget; [rewrite el_updm|]; reflexivity. Qed.
Lemma ew_unref x r : ewheel (unref x r) = ewheel x.
Proof. unfold unref. destruct aget; [|reflexivity]. destruct (_ =? _); [rewrite ew_free_lock|]; reflexivity. Qed.
Lemma el_unref x r : elong (unref x r) = elong x.
Proof. unfold unref. destruct aget; [|reflexivity]. destruct (_ =? _); [rewrite el_free_lock|]; reflexivity. Qed.

Lemma NF_free_lock Tr Tw s x r : NF Tr Tw s x -> NF Tr Tw s (free_lock x r).
Proof. intros [A B]. split; [apply NR_free_lock; auto|eapply NW_wheels_eq; [apply ew_free_lock|apply el_free_lock|exact B]]. Qed.
Lemma NF_unref Tr Tw s x r : NF Tr Tw s x -> NF Tr Tw s (unref x r).
Proof. intros [A B]. split; [apply NR_unref; auto|eapply NW_wheels_eq; [apply ew_unref|apply el_unref|exact B]]. Qed.

(* pushes never remove an entry *)
Lemma NF_ewheel_push Tr Tw s x k r : NF Tr Tw s x -> NF Tr Tw s (x <| ewheel := wheel_push (ewheel x) k r |>).
Proof.
  intros [A B]. split; [eapply NR_store_eq; [|exact A]; reflexivity|].
  intros key r0 HT. destruct (B key r0 HT) as [B1 B2]. split; [|exact B2].
  intros Hi. change (ewheel (x <| ewheel := wheel_push (ewheel x) k r |>)) with (wheel_push (ewheel x) k r).
  rewrite wheel_get_push. destruct (k =? key) eqn:E; [|auto]. apply N.eqb_eq in E. subst. apply in_or_app. auto.
Qed.
Lemma NF_elong_push Tr Tw s x k r : NF Tr Tw s x -> NF Tr Tw s (x <| elong := wheel_push (elong x) k r |>).
Proof.
  intros [A B]. split; [eapply NR_store_eq; [|exact A]; reflexivity|].
  intros key r0 HT. destruct (B key r0 HT) as [B1 B2]. split; [exact B1|].
  intros Hi. change (elong (x <| elong := wheel_push (elong x) k r |>)) with (wheel_push (elong x) k r).
  rewrite wheel_get_push. destruct (k =? key) eqn:E; [|auto]. apply N.eqb_eq in E. subst. apply in_or_app. auto.
Qed.

#[export] Hint Resolve NF_refl NF_updm NF_setm NF_updc NF_bump NF_remove_mgr NF_free_lock NF_unref NF_ewheel_push NF_elong_push : nrdb.
#[export] Hint Resolve NF_updl_T NF_setl_T | 2 : nrdb.
#[export] Hint Extern 3 (NF _ _ _ (updl _ _ _)) =>
  (apply NF_updl_ntr; [intros [? ? ? ? ? ? ? ? ? ? ? ? ? ? ? ? ?]; unfold ntr; cbn; auto|]) : nrdb.
#[export] Hint Extern 1 (NF _ _ _ (set _ _ ?x)) => (eapply (NF_same _ _ _ x); [reflexivity|reflexivity|reflexivity|]) : nrdb.
#[export] Hint Extern 1 (NF _ _ _ (if ?c then _ else _)) => destruct c : nrdb.
#[export] Hint Extern 1 (NF _ _ _ (match ?c with _ => _ end)) => destruct c : nrdb.
Ltac nf := eauto 80 with nrdb.

(* ---------------------------------------------------------------- queue operations: only `unref` touches the records *)
Lemma NF_hq_compact Tr Tw items : forall s x x' kept, hq_compact x items = (x', kept) -> NF Tr Tw s x -> NF Tr Tw s x'.
Proof.
  induction items as [|r rest IH]; intros s x x' kept H Hs; simpl in H.
  - inv_tuple H. auto.
  - destruct (0 <? l_locked (getl x r)).
    + destruct (hq_compact x rest) as [x1 k1] eqn:E. inv_tuple H. eauto.
    + eapply IH; [exact H|]. nf.
Qed.
Lemma NF_hq_push Tr Tw s x q r x' q' : hq_push x q r = (x', q') -> NF Tr Tw s x -> NF Tr Tw s x'.
Proof.
  intros H Hs. unfold hq_push in H. repeat (split_hyp H); inv_tuple H; auto.
  all: eapply NF_hq_compact; eauto.
Qed.
Lemma NF_promote Tr Tw fuel : forall s x q x' q' nc, promote fuel x q = (x', q', nc) -> NF Tr Tw s x -> NF Tr Tw s x'.
Proof.
  induction fuel as [|f IH]; intros s x q x' q' nc H Hs; simpl in H.
  - inv_tuple H. auto.
  - destruct (hq_pop q) as [[r|] q1]; [|inv_tuple H; auto].
    destruct (0 <? l_locked (getl x r)); [inv_tuple H; auto|].
    eapply IH; [exact H|]. nf.
Qed.
Lemma NF_drop_dead_heads Tr Tw fuel : forall s x q x' q', drop_dead_heads fuel x q = (x', q') -> NF Tr Tw s x -> NF Tr Tw s x'.
Proof.
  induction fuel as [|f IH]; intros s x q x' q' H Hs; simpl in H.
  - inv_tuple H. auto.
  - destruct (hq_head q) as [r|]; [|inv_tuple H; auto].
    destruct (0 <? l_locked (getl x r)); [inv_tuple H; auto|].
    destruct (hq_pop q) as [o q1]. eapply IH; [exact H|]. nf.
Qed.
Lemma NF_wq_compact Tr Tw items : forall s x x' kept, wq_compact x items = (x', kept) -> NF Tr Tw s x -> NF Tr Tw s x'.
Proof.
  induction items as [|r rest IH]; intros s x x' kept H Hs; simpl in H.
  - inv_tuple H. auto.
  - destruct (dead_waiter (getl x r)).
    + eapply IH; [exact H|]. nf.
    + destruct (wq_compact x rest) as [x1 k1] eqn:E. inv_tuple H. eauto.
Qed.
Lemma NF_wq_push Tr Tw s x q r x' q' : wq_push x q r = (x', q') -> NF Tr Tw s x -> NF Tr Tw s x'.
Proof.
  intros H Hs. unfold wq_push in H. repeat (split_hyp H); inv_tuple H; auto.
  all: eapply NF_wq_compact; eauto.
Qed.
Lemma NF_get_wait_loop Tr Tw fuel : forall s x q x' q' res, get_wait_loop fuel x q = (x', q', res) -> NF Tr Tw s x -> NF Tr Tw s x'.
Proof.
  induction fuel as [|f IH]; intros s x q x' q' res H Hs; simpl in H.
  - inv_tuple H. auto.
  - destruct (wq_head q) as [r|]; [|inv_tuple H; auto].
    destruct (dead_waiter (getl x r)); [|inv_tuple H; auto].
    eapply IH; [exact H|]. nf.
Qed.
Lemma NF_get_wait_lock Tr Tw s x k x' res : get_wait_lock x k = (x', res) -> NF Tr Tw s x -> NF Tr Tw s x'.
Proof.
  intros H Hs. unfold get_wait_lock in H.
  destruct (m_wait (getm x k)) as [q|]; [|inv_tuple H; auto].
  destruct (get_wait_loop _ x q) as [[x1 q1] r1] eqn:E. inv_tuple H.
  apply NF_updm. eapply NF_get_wait_loop; eauto.
Qed.

(* RemoveLock / AddLock / AddWaitLock change the record they are given: it must be the target *)
Lemma NF_remove_lock Tw s x k r : NF (Some r) Tw s x -> NF (Some r) Tw s (remove_lock x k r).
Proof.
  intros Hs. unfold remove_lock. cbv zeta.
  match goal with |- NF _ _ _ (if ?c then _ else _) => destruct c end.
  - destruct (m_locks (getm _ k)) as [q|]; [|nf].
    destruct (promote _ _ q) as [[x1 q1] nc] eqn:E.
    apply NF_updm. eapply NF_promote; [exact E|]. nf.
  - destruct (m_locks (getm _ k)) as [q|]; [|nf].
    destruct (drop_dead_heads _ _ _) as [x1 q1] eqn:E.
    apply NF_updm. eapply NF_drop_dead_heads; [exact E|]. nf.
Qed.
Lemma NF_add_lock Tw s x k r : NF (Some r) Tw s x -> NF (Some r) Tw s (add_lock x k r).
Proof.
  intros Hs. unfold add_lock. cbv zeta.
  destruct (m_cur (getm x k)); [|nf].
  destruct (hq_push _ _ r) as [x1 q1] eqn:E.
  apply NF_updm. eapply NF_hq_push; [exact E|]. nf.
Qed.
Lemma NF_add_wait_lock Tw s x k r : NF (Some r) Tw s x -> NF (Some r) Tw s (add_wait_lock x k r).
Proof.
  intros Hs. unfold add_wait_lock. cbv zeta.
  destruct (wq_push x _ r) as [x1 q1] eqn:E.
  apply NF_updm. apply NF_updl_T. eapply NF_wq_push; eauto.
Qed.

(* ---------------------------------------------------------------- AOF pushes, timers *)
Lemma ntr_data l d : ntr l (l <| l_data := d |>).  Proof. unfold ntr. cbn. auto. Qed.
Lemma ntr_isaof l b : ntr l (l <| l_isaof := b |>).  Proof. unfold ntr. cbn. auto. Qed.

Lemma NF_push_lock_aof Tr Tw s x k r fl x' ev : push_lock_aof x k r fl = (x', ev) -> NF Tr Tw s x -> NF Tr Tw s x'.
Proof. intros H Hs. unfold push_lock_aof in H. repeat (split_hyp H); inv_tuple H; nf. Qed.
Lemma NF_push_unlock_aof Tr Tw s x k r lc uc b fl x' ev : push_unlock_aof x k r lc uc b fl = (x', ev) -> NF Tr Tw s x -> NF Tr Tw s x'.
Proof. intros H Hs. unfold push_unlock_aof in H. repeat (split_hyp H); inv_tuple H; nf. Qed.
Lemma NF_repeat_push_lock_aof Tr Tw n : forall s x k r x' ev, repeat_push_lock_aof n x k r = (x', ev) -> NF Tr Tw s x -> NF Tr Tw s x'.
Proof.
  induction n as [|n IH]; intros s x k r x' ev H Hs; simpl in H.
  - inv_tuple H. auto.
  - destruct (push_lock_aof x k r 0) as [x1 e1] eqn:E1.
    destruct (repeat_push_lock_aof n x1 k r) as [x2 e2] eqn:E2. inv_tuple H.
    eapply IH; [exact E2|]. eapply NF_push_lock_aof; eauto.
Qed.
(* AddTimeOut touches neither depth, expried flag, refCount nor the expiry structures *)
Lemma NF_add_timeout Tr Tw s x r : NF Tr Tw s x -> NF Tr Tw s (add_timeout x r).
Proof. intros Hs. unfold add_timeout. cbv zeta. nf. Qed.
(* AddExpried clears the expried flag of its record: target *)
Lemma NF_add_expried Tw s x k r x' ev : add_expried x k r = (x', ev) -> NF (Some r) Tw s x -> NF (Some r) Tw s x'.
Proof.
  intros H Hs. unfold add_expried in H. cbv zeta in H.
  match type of H with (if ?c then _ else _) = _ => destruct c end.
  - eapply NF_repeat_push_lock_aof; [exact H|]. nf.
  - inv_tuple H. nf.
Qed.
(* RemoveLongTimeOut drops a reference without the free-at-zero check: target *)
Lemma NF_remove_long_timeout Tw s x r : NF (Some r) Tw s x -> NF (Some r) Tw s (remove_long_timeout x r).
Proof. intros Hs. unfold remove_long_timeout. cbv zeta. nf. Qed.

Lemma in_remove_ref q r y : y <> r -> In y q -> In y (remove_ref q r).
Proof. intros Hne Hi. unfold remove_ref. apply filter_In. split; [exact Hi|]. apply negb_true_iff. apply N.eqb_neq. exact Hne. Qed.

(* RemoveLongExpried: target of both frames *)
Lemma NF_remove_long_expried s x r eT : NF (Some r) (Some r) s x -> NF (Some r) (Some r) s (remove_long_expried x r eT).
Proof.
  intros Hs. unfold remove_long_expried. destruct (aget (elong x) (lkey eT)) as [q|] eqn:Eq; [|nf].
  apply NF_updl_T. destruct Hs as [A B]. split; [eapply NR_store_eq; [|exact A]; destruct (remove_ref q r); reflexivity|].
  intros key r0 HT. destruct (B key r0 HT) as [B1 B2]. split.
  - intros Hi. specialize (B1 Hi). destruct (remove_ref q r); exact B1.
  - intros Hi. specialize (B2 Hi).
    assert (Hne : r0 <> r) by congruence.
    assert (Hq : lkey eT = key -> In r0 (remove_ref q r)).
    { intros <-. unfold wheel_get in B2. rewrite Eq in B2. apply in_remove_ref; auto. }
    destruct (remove_ref q r) as [|a t] eqn:Er.
    + change (elong (x <| elong := adel (elong x) (lkey eT) |>)) with (adel (elong x) (lkey eT)).
      rewrite wheel_get_adel. destruct (lkey eT =? key) eqn:E; [apply N.eqb_eq in E; destruct (Hq E)|exact B2].
    + change (elong (x <| elong := aset (elong x) (lkey eT) (a :: t) |>)) with (aset (elong x) (lkey eT) (a :: t)).
      rewrite wheel_get_aset. destruct (lkey eT =? key) eqn:E; [apply N.eqb_eq in E; exact (Hq E)|exact B2].
Qed.

#[export] Hint Resolve NF_remove_lock NF_add_lock NF_add_wait_lock NF_add_timeout NF_remove_long_timeout NF_remove_long_expried : nrdb.
Ltac nf_eq :=
  match goal with
  | E : get_wait_lock _ _ = (?y, _) |- NF _ _ _ ?y => eapply NF_get_wait_lock; [exact E|]
  | E : push_lock_aof _ _ _ _ = (?y, _) |- NF _ _ _ ?y => eapply NF_push_lock_aof; [exact E|]
  | E : push_unlock_aof _ _ _ _ _ _ _ = (?y, _) |- NF _ _ _ ?y => eapply NF_push_unlock_aof; [exact E|]
  | E : add_expried _ _ _ = (?y, _) |- NF _ _ _ ?y => eapply NF_add_expried; [exact E|]
  end.
#[export] Hint Extern 1 (NF _ _ _ ?y) => is_var y; nf_eq : nrdb.

(* ---------------------------------------------------------------- what happens to the target record (local) *)
Lemma NF_fst_add_expried Tw s x k r : NF (Some r) Tw s x -> NF (Some r) Tw s (fst (add_expried x k r)).
Proof. intros H. destruct (add_expried x k r) as [x' ev] eqn:E. eapply NF_add_expried; eauto. Qed.
Lemma NF_fst_push_lock_aof Tr Tw s x k r fl : NF Tr Tw s x -> NF Tr Tw s (fst (push_lock_aof x k r fl)).
Proof. intros H. destruct (push_lock_aof x k r fl) as [x' ev] eqn:E. eapply NF_push_lock_aof; eauto. Qed.
Lemma NF_fst_push_unlock_aof Tr Tw s x k r lc uc b fl : NF Tr Tw s x -> NF Tr Tw s (fst (push_unlock_aof x k r lc uc b fl)).
Proof. intros H. destruct (push_unlock_aof x k r lc uc b fl) as [x' ev] eqn:E. eapply NF_push_unlock_aof; eauto. Qed.

(* after the flag is cleared, AddExpried only moves the record between structures *)
Lemma NF_add_expried_after x k r :
  NF None None (updl x r (fun l => l <| l_expried := false |>)) (fst (add_expried x k r)).
Proof.
  rewrite add_expried_eq. set (x1 := updl x r (fun l => l <| l_expried := false |>)).
  assert (T : forall x0, NF None None x1 x0 -> NF None None x1 (fst (ae_tail x0 k r))).
  { intros x0 H0. unfold ae_tail. cbv zeta. match goal with |- context [if ?c then _ else _] => destruct c end; [|exact H0].
    destruct (repeat_push_lock_aof _ x0 k r) as [x2 e2] eqn:E2. eapply NF_repeat_push_lock_aof; eauto. }
  apply T. unfold ae_place. cbv zeta. nf.
Qed.

Lemma add_expried_rec x k r l' : aget (store (fst (add_expried x k r))) r = Some l' ->
  exists l, aget (store x) r = Some l /\ l_locked l' = l_locked l /\ l_expried l' = false /\ (l_refc l <> 0 -> l_refc l' <> 0).
Proof.
  intros H. destruct (NF_add_expried_after x k r) as [A _].
  destruct (A r l') as (l1 & E1 & (_ & N1 & N2 & N3)); [discriminate|exact H|].
  rewrite aget_store_updl, N.eqb_refl in E1. destruct (aget (store x) r) as [l|]; [|discriminate]. simpl in E1. inv E1.
  exists l. split; [reflexivity|]. split; [exact N1|]. split; [rewrite N2; reflexivity|exact N3].
Qed.

Lemma In_wheel_push_same w k r : In r (wheel_get (wheel_push w k r) k).
Proof. rewrite wheel_get_push, N.eqb_refl. apply in_or_app. right. simpl. auto. Qed.

Lemma add_expried_in x k r xe : Ein (fst (add_expried x k r)) xe r.
Proof.
  rewrite add_expried_eq. set (x1 := updl x r (fun l => l <| l_expried := false |>)).
  assert (P : Ein (ae_place x1 r) xe r).
  { unfold ae_place. cbv zeta. match goal with |- context [if ?c then _ else _] => destruct c end.
    - right. left. eexists. match goal with |- In r (wheel_get (elong (?X <| elong := wheel_push ?w ?kk r |>)) _) =>
        change (elong (X <| elong := wheel_push w kk r |>)) with (wheel_push w kk r) end. apply In_wheel_push_same.
    - left. eexists. rewrite ew_updl.
      match goal with |- In r (wheel_get (ewheel (?X <| ewheel := wheel_push ?w ?kk r |>)) _) =>
        change (ewheel (X <| ewheel := wheel_push w kk r |>)) with (wheel_push w kk r) end. apply In_wheel_push_same. }
  assert (T : NF None None (ae_place x1 r) (fst (ae_tail (ae_place x1 r) k r))).
  { unfold ae_tail. cbv zeta. match goal with |- context [if ?c then _ else _] => destruct c end; [|apply NF_refl].
    destruct (repeat_push_lock_aof _ (ae_place x1 r) k r) as [x2 e2] eqn:E2. eapply NF_repeat_push_lock_aof; [exact E2|apply NF_refl]. }
  destruct T as [_ W]. destruct P as [[key P]|[[key P]|P]].
  - left. exists key. apply (W key r); [discriminate|exact P].
  - right. left. exists key. apply (W key r); [discriminate|exact P].
  - right. right. exact P.
Qed.

(* ---------------------------------------------------------------- a held target record stays held, unexpired and on the
   expiry structures through the update / re-lock path (local) *)
Definition TG (x : db) (xe : list ref) (r : ref) : Prop :=
  (exists l, aget (store x) r = Some l /\ 0 < l_locked l /\ l_expried l = false) /\ Ein x xe r.

Lemma TG_same x x' xe r : store x' = store x -> ewheel x' = ewheel x -> elong x' = elong x -> TG x xe r -> TG x' xe r.
Proof. intros E1 E2 E3 [A B]. unfold TG, Ein. rewrite E1, E2, E3. split; auto. Qed.
Lemma TG_updm x xe r k f : TG x xe r -> TG (updm x k f) xe r.
Proof. apply TG_same; [apply store_updm|apply ew_updm|apply el_updm]. Qed.
Lemma TG_bump x xe r f : TG x xe r -> TG (bump f x) xe r.
Proof. apply TG_same; reflexivity. Qed.
Lemma TG_updl x xe r f :
  (forall l, 0 < l_locked l -> l_expried l = false -> 0 < l_locked (f l) /\ l_expried (f l) = false) ->
  TG x xe r -> TG (updl x r f) xe r.
Proof.
  intros Hf [(l & E & A & B) C]. split.
  - exists (f l). split; [rewrite aget_store_updl, N.eqb_refl, E; reflexivity|apply Hf; auto].
  - unfold Ein in *. rewrite ew_updl, el_updl. exact C.
Qed.
Lemma TG_setl x xe r l' : 0 < l_locked l' -> l_expried l' = false -> TG x xe r -> TG (setl x r l') xe r.
Proof.
  intros A B [_ C]. split; [exists l'; split; [rewrite store_setl; apply aget_aset_same|auto]|exact C].
Qed.

Lemma TG_push_lock_aof x xe k r fl : TG x xe r -> TG (fst (push_lock_aof x k r fl)) xe r.
Proof.
  intros H. unfold push_lock_aof. destruct (negb (leader x)); [exact H|].
  destruct (has (c_flag (l_cmd (getl x r))) LOCK_FLAG_FROM_AOF); cbn [fst]; [apply TG_updl; auto|].
  destruct (aof_lock_data true (m_data (getm x k)) (l_data (getl x r))) as [[d c'] ld']. cbn [fst].
  apply TG_updl; auto. apply TG_updl; auto. apply TG_updm. exact H.
Qed.
Lemma TG_push_unlock_aof x xe k r lc uc b fl : TG x xe r -> TG (fst (push_unlock_aof x k r lc uc b fl)) xe r.
Proof.
  intros H. unfold push_unlock_aof. destruct (negb (leader x)); [exact H|].
  destruct (match uc with Some u => has (c_flag u) UNLOCK_FLAG_FROM_AOF | None => false end); cbn [fst]; [apply TG_updl; auto|].
  destruct (aof_lock_data false (m_data (getm x k)) (l_data (getl x r))) as [[d c'] ld']. cbn [fst].
  apply TG_updl; auto. apply TG_updl; auto. apply TG_updm. exact H.
Qed.

Lemma update_locked_lock_fields x k r c l : aget (store x) r = Some l ->
  exists l', aget (store (update_locked_lock x k r c)) r = Some l' /\ l_locked l' = l_locked l /\ l_expried l' = l_expried l.
Proof.
  intros E. unfold update_locked_lock. cbv zeta. rewrite (getl_some _ _ _ E). eexists. split; [rewrite store_setl; apply aget_aset_same|].
  destruct (negb (has (c_eflag c) EF_UNLIMITED) || (c_expried c <? 65535)); destruct (has (c_tflag c) TF_NO_RESET_TCC);
    destruct (has (c_eflag c) EF_NO_RESET_ECC);
    match goal with |- context [if ?b then _ else _] => destruct b end; split; reflexivity.
Qed.

Lemma TG_update_locked_lock x xe k r c : TG x xe r -> TG (update_locked_lock x k r c) xe r.
Proof.
  intros [(l & E & A & B) C]. destruct (update_locked_lock_fields x k r c l E) as (l' & E' & L1 & L2). split.
  - exists l'. split; [exact E'|]. split; congruence.
  - exact C.
Qed.

Lemma remove_long_expried_store x r eT :
  exists f, (forall l, l_locked (f l) = l_locked l) /\ store (remove_long_expried x r eT) = store (updl x r f).
Proof.
  unfold remove_long_expried. destruct (aget (elong x) (lkey eT)) as [q|].
  - eexists (fun l => l <| l_long := false |> <| l_refc := dec8 (l_refc l) |>). split; [intros l; reflexivity|].
    cbv zeta. unfold updl.
    match goal with |- store (match aget (store ?X) r with _ => _ end) = _ => change (store X) with (store x) end.
    destruct (aget (store x) r); reflexivity.
  - eexists (fun l => l <| l_long := false |>). split; [intros l; reflexivity|reflexivity].
Qed.

Lemma TG_update_and_rearm x xe k r c : TG x xe r -> TG (fst (update_and_rearm x k r c)) xe r.
Proof.
  intros H. unfold update_and_rearm. cbv zeta.
  destruct (l_long (getl x r)); [|cbn [fst]; apply TG_update_locked_lock; exact H].
  pose proof (TG_update_locked_lock x xe k r c H) as H1.
  set (x1 := update_locked_lock x k r c) in *.
  destruct (negb (has (c_eflag c) EF_MILLISECOND)); [|cbn [fst]; exact H1].
  match goal with |- context [if ?b then _ else _] => destruct b end; [|cbn [fst]; exact H1].
  set (x2 := remove_long_expried x1 r (l_eT (getl x r))).
  pose proof (add_expried_in x2 k r xe) as P. destruct (add_expried x2 k r) as [x3 ev] eqn:E3. cbn [fst] in *.
  destruct H1 as [(l1 & E1 & A1 & B1) _].
  destruct (remove_long_expried_store x1 r (l_eT (getl x r))) as (f & Hf & Ef). fold x2 in Ef.
  assert (S2 : aget (store x2) r <> None).
  { rewrite Ef. intros Hn. apply updl_stored in Hn. congruence. }
  assert (S3 : aget (store x3) r <> None).
  { intros Hn. apply S2. assert (E : x3 = fst (add_expried x2 k r)) by (rewrite E3; reflexivity). rewrite E in Hn.
    apply add_expried_stored in Hn. exact Hn. }
  destruct (aget (store x3) r) as [l3|] eqn:Er3; [|congruence].
  assert (E3' : aget (store (fst (add_expried x2 k r))) r = Some l3) by (rewrite E3; exact Er3).
  destruct (add_expried_rec x2 k r l3 E3') as (l2 & E2 & L2 & X2 & _).
  assert (Hl2 : l_locked l2 = l_locked l1).
  { rewrite Ef, aget_store_updl, N.eqb_refl, E1 in E2. simpl in E2. inv E2. apply Hf. }
  apply TG_updl; [intros l0 Ha Hb; split; [exact Ha|exact Hb]|].
  split; [exists l3; split; [exact Er3|split; [lia|exact X2]]|exact P].
Qed.

(* ---------------------------------------------------------------- hint forms for the update / re-lock path *)
Lemma NF_process_data Tw s x k r c b x' ev : process_data x k r c b = (x', ev) -> NF (Some r) Tw s x -> NF (Some r) Tw s x'.
Proof. intros H Hs. unfold process_data in H. repeat (split_hyp H); inv_tuple H; nf. Qed.
Lemma NF_update_locked_lock Tw s x k r c : NF (Some r) Tw s x -> NF (Some r) Tw s (update_locked_lock x k r c).
Proof. intros H. unfold update_locked_lock. nf. Qed.
Lemma NF_update_and_rearm s x k r c x' ev : update_and_rearm x k r c = (x', ev) -> NF (Some r) (Some r) s x -> NF (Some r) (Some r) s x'.
Proof.
  intros H Hs. unfold update_and_rearm in H. cbv zeta in H.
  destruct (l_long (getl x r)); [|inv_tuple H; apply NF_update_locked_lock; auto].
  destruct (negb (has (c_eflag c) EF_MILLISECOND)); [|inv_tuple H; apply NF_update_locked_lock; auto].
  match type of H with (if ?c then _ else _) = _ => destruct c end; [|inv_tuple H; apply NF_update_locked_lock; auto].
  destruct (add_expried _ k r) as [x1 e1] eqn:E. inv_tuple H.
  apply NF_updl_T. eapply NF_add_expried; [exact E|]. apply NF_remove_long_expried. apply NF_update_locked_lock. auto.
Qed.

Lemma TG_process_data x xe k r c b x' ev : process_data x k r c b = (x', ev) -> TG x xe r -> TG x' xe r.
Proof.
  intros H Hs. unfold process_data in H. repeat (split_hyp H); inv_tuple H; auto.
  apply TG_updl; [intros; cbn; auto|]. apply TG_updm. exact Hs.
Qed.
Lemma TG_push_lock_aof_eq x xe k r fl x' ev : push_lock_aof x k r fl = (x', ev) -> TG x xe r -> TG x' xe r.
Proof. intros H Hs. pose proof (TG_push_lock_aof x xe k r fl Hs) as P. rewrite H in P. exact P. Qed.
Lemma TG_push_unlock_aof_eq x xe k r lc uc b fl x' ev : push_unlock_aof x k r lc uc b fl = (x', ev) -> TG x xe r -> TG x' xe r.
Proof. intros H Hs. pose proof (TG_push_unlock_aof x xe k r lc uc b fl Hs) as P. rewrite H in P. exact P. Qed.
Lemma TG_update_and_rearm_eq x xe k r c x' ev : update_and_rearm x k r c = (x', ev) -> TG x xe r -> TG x' xe r.
Proof. intros H Hs. pose proof (TG_update_and_rearm x xe k r c Hs) as P. rewrite H in P. exact P. Qed.

Create HintDb tgdb.
#[export] Hint Resolve TG_updm TG_bump : tgdb.
#[export] Hint Extern 2 (TG (updl _ _ _) _ _) => (apply TG_updl; [intros [? ? ? ? ? ? ? ? ? ? ? ? ? ? ? ? ?] ? ?; cbn in *; auto|]) : tgdb.
#[export] Hint Extern 1 (TG (if ?c then _ else _) _ _) => destruct c : tgdb.
Ltac tg_eq :=
  match goal with
  | E : push_lock_aof _ _ _ _ = (?y, _) |- TG ?y _ _ => eapply TG_push_lock_aof_eq; [exact E|]
  | E : push_unlock_aof _ _ _ _ _ _ _ = (?y, _) |- TG ?y _ _ => eapply TG_push_unlock_aof_eq; [exact E|]
  | E : process_data _ _ _ _ _ = (?y, _) |- TG ?y _ _ => eapply TG_process_data; [exact E|]
  | E : update_and_rearm _ _ _ _ = (?y, _) |- TG ?y _ _ => eapply TG_update_and_rearm_eq; [exact E|]
  end.
#[export] Hint Extern 1 (TG ?y _ _) => is_var y; tg_eq : tgdb.
Ltac tg := eauto 60 with tgdb.

Ltac nf_eq2 :=
  match goal with
  | E : process_data _ _ _ _ _ = (?y, _) |- NF _ _ _ ?y => eapply NF_process_data; [exact E|]
  | E : update_and_rearm _ _ _ _ = (?y, _) |- NF _ _ _ ?y => eapply NF_update_and_rearm; [exact E|]
  end.
#[export] Hint Extern 1 (NF _ _ _ ?y) => is_var y; nf_eq2 : nrdb.
#[export] Hint Resolve NF_update_locked_lock : nrdb.
