(* C11 soundness, part 1: definitions.
   (1) the sub-language `ack_core` of acknowledgement-layer runs: every request is core (no value frame, no millisecond
       flags) except that a fresh LOCK may carry the require-ack flag; clock advances, both sweeps, acknowledgement events
       for issued indices; the recorded root causes of known_findings/C11.json are excluded one by one (see below);
   (2) the engine contract `eng_contract`: what the layer proof needs to know about the lock engine -- an engine
       invariant `E seen s P` ("P lists the records that hold the reference taken for the acknowledgement path") closed
       under the engine entry points the layer calls.  It is the interface between this development and the heap
       invariant of Engine/Inv*.v (which excludes require-ack locks by its clauses ro_ack / ro_cmd / ro_live);
   (3) the layer invariant `AInv`.
   Proofs: AckSoundLayer.v (the invariant through ProcessLeaderPushLock / PushUnLock / Aofed / Acked), AckSoundThms.v. *)
From Coq Require Import String ZifyN ZifyBool ZifyNat.
From Slock Require Import Engine.Types Engine.Queues Engine.Timers Engine.Engine Engine.Engine2 Engine.Ack.
From Slock Require Import Engine.AckProofsBase Engine.AckProofsAck Engine.AckProofsRel Engine.AckProofsGlobal
  Engine.AckProofsUnreg.
Open Scope N_scope.

(* ================================================================== 1. the sub-language *)
(* the never-persist mode is not selected by the command itself (own flag 0x0200; percent mode that rounds to 0xff) *)
Definition persist_ok (c : cmd) : bool :=
  let f := N.land (c_eflag c) 4864 in
  negb (f =? EF_UNLIMITED_AOF) && negb ((f =? EF_AOF_PERCENT) && ((c_expried c * 3 / 10) mod 256 =? 255)).

(* a request carrying the require-ack flag: a plain LOCK (no show / update / from-aof / concurrent-check / data flag), not
   re-entrant (Rcount 0: a LOCK naming a LockId that is already held is refused, never re-locked), with a hold
   (Expried > 0: a LOCK without a hold is answered at once and pushes nothing to acknowledge) *)
Definition ack_req_ok (c : cmd) : bool :=
  c_lock c && (c_flag c =? 0) && (c_rcount c =? 0) && (0 <? c_expried c).

Definition req_ok (c : cmd) : bool :=
  negb (has (c_tflag c) TF_MILLISECOND) && negb (has (c_eflag c) EF_MILLISECOND)
  && match c_data c with None => true | Some _ => false end
  && persist_ok c
  && (if has (c_tflag c) TF_REQUIRE_ACKED then ack_req_ok c else true).

Definition act_ok (a : action) : bool :=
  match a with
  | AReq _ c => req_ok c
  | AAdvance k => (0 <=? k)%Z
  | ASweepT | ASweepE => true
  | AAck _ _ | ARole _ => false      (* DoAckLock is driven by the layer only; this node stays the leader *)
  end.

Definition aact_ok (a : aaction) : bool := match a with AAct a => act_ok a | AAckEvt _ _ => true end.

(* RequestIds of the requests of a run, in order *)
Definition act_reqs (a : aaction) : list N := match a with AAct (AReq _ c) => [c_req c] | _ => [] end.
Definition reqids (acts : list aaction) : list N := flat_map act_reqs acts.
Definition unique_reqids (acts : list aaction) : Prop := NoDup (reqids acts).

(* the late-registration shape (C11-late-registration) is excluded by this condition on timeout sweeps: no lock whose
   LOCK record is written during the sweep (granted from the queue by a wake-up pass of the sweep) has been rolled back
   by the end of the same sweep -- i.e. every lock-carrying LOCK record of the sweep still finds its hold pending *)
Definition sweep_regs_fresh (s : db) : Prop :=
  forall a r, In (EAof a) (snd (sweep_timeouts s)) -> a_lock a = true -> a_ref a = Some r ->
              l_ack (getl (fst (sweep_timeouts s)) r) <> 255.

Definition step_cond (st : astate) (a : aaction) : Prop :=
  match a with
  | AAckEvt i _ => i < a_next st                       (* acknowledgement events name issued indices *)
  | AAct ASweepT => sweep_regs_fresh (a_db st)
  | _ => True
  end.

Fixpoint run_conds (st : astate) (acts : list aaction) : Prop :=
  match acts with
  | [] => True
  | a :: rest => step_cond st a /\ run_conds (fst (astep st a)) rest
  end.

Record ack_core (t0 : Z) (aoft cfg : N) (acts : list aaction) : Prop := {
  ac_aoft : aoft <> 255;                                (* C11-never-persisted-ack-lock: configured mode *)
  ac_cfg : 1 <= cfg /\ cfg < 255;
  ac_acts : Forall (fun a => aact_ok a = true) acts;    (* C11-reentrant-ack-relock, never-persist flags: per request *)
  ac_uniq : unique_reqids acts;                         (* C11-duplicate-request-id *)
  ac_conds : run_conds (init_astate t0 aoft cfg) acts   (* issued indices; C11-late-registration *)
}.

(* ================================================================== 2. the engine contract *)
(* lock pointers carried by the LOCK (b = true) / UNLOCK (b = false) records of an event list, in order *)
Definition rec_ref (b : bool) (e : event) : list ref :=
  match e with
  | EAof a => match a_ref a with Some r => if Bool.eqb (a_lock a) b then [r] else [] | None => [] end
  | _ => []
  end.
Definition lock_refs (ev : list event) : list ref := flat_map (rec_ref true) ev.
Definition unlock_refs (ev : list event) : list ref := flat_map (rec_ref false) ev.

Definition creq_of (s : db) (r : ref) : N := c_req (l_cmd (getl s r)).
Definition pend (s : db) (r : ref) : Prop := l_ack (getl s r) <> 255.

(* what one engine entry point (a request, a sweep, DoAckLock -- each with its wake-up pass) does to the records that
   hold an acknowledgement reference: P before, P ++ (the locks of the LOCK records it wrote) after *)
Record step_spec (E : list N -> db -> list ref -> Prop) (Q : list N) (s : db) (P : list ref) (s' : db) (ev : list event)
  : Prop := {
  ss_E : E Q s' (P ++ lock_refs ev);
  ss_new : forall x, In x (lock_refs ev) -> l_ack (getl s' x) = 0 /\ ~ In x (unlock_refs ev);
  ss_old : forall x, In x P ->
           l_cmd (getl s' x) = l_cmd (getl s x)
           /\ (l_ack (getl s' x) = l_ack (getl s x) \/ (l_ack (getl s' x) = 255 /\ In x (unlock_refs ev)));
  ss_rb : forall x, In x (unlock_refs ev) -> In x P -> l_ack (getl s' x) = 255
}.

Record eng_contract (E : list N -> db -> list ref -> Prop) : Prop := {
  ec_init : forall t0 aoft, aoft <> 255 -> E [] (init_db t0 aoft) [];
  ec_leader : forall Q s P, E Q s P -> leader s = true;
  (* a record that holds the acknowledgement reference is allocated *)
  ec_alloc : forall Q s P x, E Q s P -> In x P -> aget (store s) x <> None;
  ec_nodup : forall Q s P, E Q s P -> NoDup P;
  (* allocated records carry pairwise distinct RequestIds (the run's RequestIds are distinct) *)
  ec_inj : forall Q s P x y lx ly, E Q s P -> aget (store s) x = Some lx -> aget (store s) y = Some ly ->
           c_req (l_cmd lx) = c_req (l_cmd ly) -> x = y;
  (* every pending record holds the reference; a pending record is a hold waiting for its acknowledgement *)
  ec_pend : forall Q s P x, E Q s P -> pend s x -> In x P;
  ec_shape : forall Q s P x, E Q s P -> In x P -> pend s x ->
             l_expried (getl s x) = true /\ l_locked (getl s x) <> 0 /\ l_timeouted (getl s x) = false
             /\ has (c_eflag (l_cmd (getl s x))) EF_MILLISECOND = false;
  (* the layer's own writes: the counter of a pending record *)
  ec_setack : forall Q s P x c, E Q s P -> In x P -> pend s x -> c <> 255 ->
              E Q (updl s x (fun l => l <| l_ack := c |>)) P;
  (* ProcessLeaderPushUnLock on a record that was rolled back: DoAckLock drops the reference *)
  ec_drop : forall Q s P x s1 ev1 P', E Q s P -> In x P -> l_ack (getl s x) = 255 ->
            finish (do_ack s x false) = (s1, ev1) ->
            (forall y, In y P' <-> In y P /\ y <> x) -> NoDup P' -> E Q s1 P';
  (* requests, clock, sweeps *)
  ec_step : forall Q s P a s' ev, E Q s P -> (forall x, In x P -> pend s x) -> act_ok a = true ->
            (forall conn c, a = AReq conn c -> ~ In (c_req c) Q) ->
            (a = ASweepT -> sweep_regs_fresh s) ->
            step s a = (s', ev) -> step_spec E (act_reqs (AAct a) ++ Q) s P s' ev;
  (* DoAckLock on a pending record, driven by an acknowledgement event *)
  ec_ack : forall Q s P r ok s' ev P0, E Q s P -> (forall x, In x P -> pend s x) -> In r P ->
           finish (do_ack s r ok) = (s', ev) ->
           (forall y, In y P0 <-> In y P /\ y <> r) -> NoDup P0 -> step_spec E Q s P0 s' ev
}.

(* the missing piece, as one closed proposition about the engine model *)
Definition EngineAccounting : Prop := exists E, eng_contract E.

(* ================================================================== 3. the layer invariant *)
Definition regs (st : astate) : list ref := map (fun e => snd (snd e)) (a_reg st).
Definition regq (st : astate) : list N := map (fun e => fst (snd e)) (a_reg st).

(* state of the layer while the records `todo` of an engine step are still to be handled (todo = [] between actions) *)
Record MInv (E : list N -> db -> list ref -> Prop) (cfg : N) (Q : list N) (st : astate) (todo : list event) : Prop := {
  m_cfg : a_cfg st = cfg;
  m_E : E Q (a_db st) (regs st ++ lock_refs todo);
  (* a registered record still carries the RequestId it was registered under; it is pending with a counter in
     1 .. ackCount, unless its hold was rolled back in this step and its UNLOCK record is still to come *)
  m_ent : forall i q r, In (i, (q, r)) (a_reg st) ->
          creq_of (a_db st) r = q
          /\ ((0 < l_ack (getl (a_db st) r) /\ l_ack (getl (a_db st) r) < 255) \/ In r (unlock_refs todo));
  (* a lock whose LOCK record is still to come was just granted *)
  m_new : forall x, In x (lock_refs todo) -> l_ack (getl (a_db st) x) = 0 /\ ~ In x (unlock_refs todo);
  m_rb : forall x, In x (unlock_refs todo) -> In x (regs st) -> l_ack (getl (a_db st) x) = 255;
  m_idx : idx_ok st;
  m_ndi : NoDup (map fst (a_reg st))
}.

Definition AInv (E : list N -> db -> list ref -> Prop) (cfg : N) (Q : list N) (st : astate) : Prop := MInv E cfg Q st [].
