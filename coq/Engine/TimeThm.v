(* Timer theorems, part 9: run-level statements for C05. *)
From Coq Require Import String ZifyN ZifyBool ZifyNat.
From Slock Require Import Engine.Types Engine.Queues Engine.Timers Engine.Engine Engine.Engine2.
From Slock Require Import Engine.TimeBase Engine.TimeFrame Engine.TimeStep Engine.TimeWheel Engine.TimeInv Engine.TimeRun.
From Slock Require Import Engine.TimeEvents Engine.TimeWhere.
Open Scope N_scope.

Ltac Zify.zify_post_hook ::= Z.div_mod_to_equations.

(* ------------------------------------------------------------------ C05 (a), events of a timeout sweep *)
Lemma in_flat_map_inv {A B} (f : A -> list B) l y : In y (flat_map f l) -> exists x, In x l /\ In y (f x).
Proof. intros H. apply in_flat_map in H. exact H. Qed.

Theorem sweep_timeout_reply_not_early s :
  TA s -> forall e, In e (snd (sweep_timeouts s)) -> is_tr e = true ->
  exists s' r l lc lrc d,
    In (s', r) (timeout_calls s) /\ tlive s' r l /\ now s' = now s
    /\ e = reply (l_conn l) (l_cmd l) R_TIMEOUT lc lrc d
    /\ (timeout_deadline (l_cmd l) (l_start l) <= now s)%Z.
Proof.
  intros T e I TR. rewrite sweep_timeouts_events in I. apply in_flat_map_inv in I.
  destruct I as ([s' r] & IL & IE). unfold call_events in IE. cbn [fst snd] in IE.
  destruct (finish_events (do_timeout s' r)) as (wev & EQ & QW). rewrite EQ in IE. apply in_app_iff in IE.
  destruct IE as [IE|IE]; [|destruct (QW e IE); congruence].
  destruct (aget (store s') r) as [l|] eqn:G.
  - destruct (l_timeouted l) eqn:LV.
    + rewrite (do_timeout_dead_events s' r l G LV) in IE. destruct IE.
    + destruct (do_timeout_live_events s' r l G LV) as (ev1 & lc & lrc & d & EV & Q1). rewrite EV in IE.
      apply in_app_iff in IE. destruct IE as [IE|[<-|[]]]; [destruct (Q1 e IE); congruence|].
      destruct (timeout_call_not_early s T s' r l IL (conj G LV)) as [N D].
      exists s', r, l, lc, lrc, d. lsplit; auto. split; auto.
  - destruct (do_timeout_absent_events s' r G e IE). congruence.
Qed.

(* ------------------------------------------------------------------ C05 (b), run level *)
Lemma TW_same D f s s' :
  store s' = store s -> twheel s' = twheel s -> tlong s' = tlong s -> TW D f s -> TW D f s'.
Proof. intros E1 E2 E3 W r l LV. unfold tlive, where_ok in *. rewrite E1 in LV. rewrite E2, E3. apply W; auto. Qed.

Lemma lock_TW s conn c :
  TA s -> TW [] (checkT s) s -> core_cmd c ->
  TW [] (checkT s) (fst (finish (lock_step s conn c))) /\ checkT (fst (finish (lock_step s conn c))) = checkT s.
Proof.
  intros T W Cc.
  destruct (lock_step_shape core_cmd core_dummy (fun c H => H) s conn c (ta_hd _ T) (ta_hf _ T) Cc (fun x => core_lockid c x Cc))
    as [F|(s0 & c1 & F0 & NX & NW & CK & C1 & HS & E1 & E2 & E3 & TO & MS)].
  - pose proof (core_finish_frame s (lock_step s conn c) (ta_core _ T) (ta_sk _ T) F) as F'.
    split; [eapply TW_frame; eauto|apply (tf_checkT _ _ _ F')].
  - destruct (lock_step s conn c) as [[s' ev] w]. cbn [fst snd] in *. subst w ev. rewrite finish_none. cbn [fst]. subst s'.
    assert (core_cmd c1) as CC1 by (destruct C1 as [->|[x ->]]; auto).
    set (s1 := fst (new_lock s0 (c_key c) conn c1)).
    assert (cframe s s1) as F1 by (eapply tframe_trans; [exact F0|apply tframe_new_lock; auto]).
    pose proof (new_lock_aget s0 (c_key c) conn c1) as G. fold s1 in G. rewrite NX in G.
    pose proof (TA_frame _ _ T F1) as T1.
    assert (checkT s1 = checkT s) as CK1 by apply (tf_checkT _ _ _ F1).
    split.
    + eapply TW_queue_tail; [exact T1|eapply TW_frame; eauto|lia|exact G|reflexivity|].
      cbn [l_tT]. pose proof (timeout_deadline_core c1 (now s0) CC1 TO). pose proof (ta_chk _ T). lia.
    + unfold queue_tail.
      change (checkT (bump _ ?x)) with (checkT x). rewrite updl_checkT.
      rewrite (sb_checkT _ _ (add_timeout_same _ _)). rewrite (tf_checkT _ _ _ (add_wait_lock_frame core_cmd s1 _ _)). exact CK1.
Qed.

(* what a run must satisfy for the upper bound: every timeout sweep lags by fewer than 7 seconds and does not hit a
   freed record (the latter is excluded by the heap invariant, which is outside this file) *)
Definition sweep_ok (p : db * action) : Prop :=
  match snd p with
  | ASweepT => (now (fst p) < checkT (fst p) + 7)%Z /\ ~ has_panic (snd (sweep_timeouts (fst p)))
  | _ => True
  end.

Lemma step_TW s a :
  TA s -> TW [] (checkT s) s -> core_action a -> sweep_ok (s, a) ->
  TW [] (checkT (fst (step s a))) (fst (step s a)).
Proof.
  intros T W CA OK. destruct a as [conn c|k| | |r ok|b]; cbn [step core_action sweep_ok fst snd] in *.
  - destruct (c_lock c).
    + destruct (lock_TW s conn c T W CA) as [A B]. rewrite B. exact A.
    + pose proof (core_finish_frame s (unlock_step s conn c) (ta_core _ T) (ta_sk _ T) (unlock_step_frame core_cmd s conn c)) as F.
      rewrite (tf_checkT _ _ _ F). eapply TW_frame; eauto.
  - cbn. apply (TW_same [] (checkT s) s); auto.
  - destruct OK as [LAG NP]. destruct (sweep_timeouts_no_loss s T W LAG NP) as [A _].
    destruct (sweep_timeouts_TA s T) as (_ & _ & CK). rewrite CK. exact A.
  - pose proof (sweep_expiries_frame s (TA_PK _ T)) as F. rewrite (tf_checkT _ _ _ F). eapply TW_frame; eauto.
  - destruct CA.
  - cbn. apply (TW_same [] (checkT s) s); auto.
Qed.

Lemma run_states_TW : forall acts s,
  TA s -> TW [] (checkT s) s -> Forall core_action acts -> Forall sweep_ok (run_states s acts) ->
  forall s' a, In (s', a) (run_states s acts) -> TA s' /\ TW [] (checkT s') s'.
Proof.
  induction acts as [|a rest IH]; intros s T W FA FO s' a' I; cbn in I; [destruct I|].
  inversion FA as [|? ? CA FR]; subst. cbn in FO. inversion FO as [|? ? OK FO']; subst.
  destruct I as [[= <- <-]|I]; auto.
  apply (IH (fst (step s a)) (step_TA s a T CA) (step_TW s a T W CA OK) FR FO' s' a' I).
Qed.

Lemma TW_init t0 aoft : TW [] t0 (init_db t0 aoft).
Proof. intros r l [G _]. discriminate. Qed.

(* C05 (b): in every core run whose timeout sweeps lag by < 7 s, after every timeout sweep each waiter that is still
   live has a deadline (queueing time + T*unit + 1) strictly in the future: nobody whose deadline has been reached is
   left waiting. *)
Theorem timeout_no_loss_run s0 acts :
  TA s0 -> TW [] (checkT s0) s0 -> Forall core_action acts -> Forall sweep_ok (run_states s0 acts) ->
  forall s, In (s, ASweepT) (run_states s0 acts) ->
  forall r l, tlive (fst (sweep_timeouts s)) r l ->
  (now s < timeout_deadline (l_cmd l) (l_start l))%Z.
Proof.
  intros T0 W0 FA FO s I r l LV.
  destruct (run_states_TW acts s0 T0 W0 FA FO s ASweepT I) as [T W].
  assert (sweep_ok (s, ASweepT)) as OK by (rewrite Forall_forall in FO; apply FO; auto).
  destruct OK as [LAG NP]. destruct (sweep_timeouts_no_loss s T W LAG NP) as [_ B].
  destruct (sweep_timeouts_TA s T) as (T' & _ & _).
  fold (qdl l). rewrite <- (ta_dl _ T' r l LV). apply (B r l); auto.
Qed.

(* the lag of the next sweep is the time advanced since this one *)
Lemma checkT_after_sweep s : TA s -> checkT (fst (sweep_timeouts s)) = (now s + 1)%Z.
Proof. intros T. apply (sweep_timeouts_TA s T). Qed.

(* helpers for concrete runs *)
Lemma no_panic_nil : ~ has_panic [].
Proof. intros (site & []). Qed.
Lemma no_panic_cons e ev : (forall site, e <> EPanic site) -> ~ has_panic ev -> ~ has_panic (e :: ev).
Proof. intros A B (site & [E|I]); [apply (A site); auto|apply B; exists site; auto]. Qed.
