(* C11 (A5): the ack timeout.  doTimeOut on a record that is still armed (l_timeouted = false) and holds the key
   (l_locked > 0) -- an ack-pending holder waiting in the timeout structures. *)
From Coq Require Import String ZifyN ZifyBool ZifyNat.
From Slock Require Import Engine.Types Engine.Queues Engine.Timers Engine.Engine Engine.Engine2.
From Slock Require Import Engine.AckProofsBase Engine.AckProofsAck.
Open Scope N_scope.

Theorem do_timeout_pending_hold : forall s r l s' ev w,
  aget (store s) r = Some l -> l_timeouted l = false -> l_locked l <> 0 ->
  do_timeout s r = (s', ev, w) ->
  let k := l_key l in
  w = Some (mkWake k None)
  /\ (exists lc lrc d, ends_with ev (ack_reply l R_TIMEOUT lc lrc d))
  /\ (exists rest, ev = ERelease k r (l_locked l) :: rest)
  /\ l_locked (getl s' r) = 0 /\ l_ack (getl s' r) = 255
  /\ (forall m', aget (mgrs s') k = Some m' ->
        exists m, aget (mgrs s) k = Some m /\ m_locked m' = sub32 (m_locked m) (l_locked l)
                  /\ dval (m_data m') =
                     dval (if l_ack l =? 255 then m_data m else rb_value (l_cmd l) (m_data m) (l_data l)))
  /\ (forall k' m', k' <> k -> aget (mgrs s') k' = Some m' -> exists m, aget (mgrs s) k' = Some m /\ mview m' = mview m).
Proof.
  intros s r l s' ev w H T L D k. unfold do_timeout in D. rewrite H, T in D. cbv zeta in D. fold k in D.
  apply N.eqb_neq in L. assert (L' : (0 <? l_locked l) = true) by (apply N.ltb_lt; apply N.eqb_neq in L; lia).
  rewrite L' in D.
  set (s1 := updl s r (fun l => l <| l_timeouted := true |>)) in *.
  assert (M1 : mgrs s1 = mgrs s) by apply mgrs_updl.
  assert (E1 : getl s1 r = l <| l_timeouted := true |>).
  { unfold s1. rewrite getl_updl, N.eqb_refl, H. reflexivity. }
  set (s2 := updm s1 k (fun m => m <| m_locked := sub32 (m_locked m) (l_locked l) |>)) in *.
  assert (L2 : getl s2 r = l <| l_timeouted := true |>). { unfold s2. rewrite getl_updm. exact E1. }
  (* the roll-back block *)
  match type of D with (let '(_, _) := (let '(_, _) := ?X in _) in _) = _ =>
    assert (RB : exists s3 dev, X = (s3, dev) /\ Forall quiet dev /\ ack_le s2 s3
       /\ forall k', aget (mgrs s3) k' =
            aget (mgrs (updm s2 k (fun m => m <| m_data :=
               if l_ack l =? 255 then m_data (getm s2 k) else rb_value (l_cmd l) (m_data (getm s2 k)) (l_data l) |>))) k') end.
  { assert (ID : forall k', aget (mgrs s2) k' = aget (mgrs (updm s2 k (fun m => m <| m_data := m_data (getm s2 k) |>))) k').
    { intros k'. rewrite aget_mgrs_updm. destruct (k =? k') eqn:E; [|reflexivity]. apply N.eqb_eq in E. subst k'.
      unfold getm. destruct (aget (mgrs s2) k) as [m|]; [|reflexivity]. destruct m; reflexivity. }
    destruct (l_ack l =? 255) eqn:A.
    - rewrite andb_false_r. do 2 eexists. split; [reflexivity|]. split; [constructor|]. split; [intros ?; apply lrec_le_refl|exact ID].
    - rewrite andb_true_r.
      destruct (rollback_step s2 k r (l_cmd l)) as [s3 dev] eqn:E3.
      destruct (rollback_step_spec _ _ _ _ _ _ E3) as (Qd & Qa & Qm). rewrite L2 in Qm. cbn [l_data set] in Qm.
      exists s3, dev. split; [exact E3|]. auto. }
  destruct RB as (s3 & dev & E3 & Qd & Qa & Qm). rewrite E3 in D.
  match type of D with (let '(_, _) := (let '(_, _) := ?X in _) in _) = _ => destruct X as [s4 aev] eqn:E4 end.
  assert (Q4 : fr s3 s4 /\ only_aof aev).
  { destruct (l_isaof (getl s3 r)); [|inv E4; split; [apply fr_refl|constructor]].
    split; [eapply push_unlock_aof_fr; eauto with fr|eapply push_unlock_aof_only_aof; eauto]. }
  destruct Q4 as (F4 & Qe).
  inv D.
  set (s5 := remove_lock s4 k r).
  match goal with |- context [bump ?f (if ?c then ?a else ?b)] => set (s6 := if c then a else b) end.
  split; [reflexivity|].
  split; [do 3 eexists; unfold ack_reply; simpl app; apply ew_cons; [exact I|]; ew|].
  split; [eexists; reflexivity|].
  destruct (remove_lock_done s4 k r) as (R1 & R2). fold s5 in R1, R2.
  assert (F56 : fr s5 s6) by (unfold s6; frs).
  assert (F45 : fr s4 s5) by (unfold s5; auto with fr).
  split; [change (l_locked (getl s6 r) = 0); eapply fr_locked_0; eauto|].
  split; [change (l_ack (getl s6 r) = 255); eapply fr_ack_255; eauto|].
  assert (F36 : fr s3 s6) by (eapply fr_trans; [exact F4|eapply fr_trans; eauto]).
  split.
  - intros m' Hm'. change (aget (mgrs s6) k = Some m') in Hm'.
    destruct (fr_mview _ _ _ _ F36 Hm') as (m3 & H3 & V3).
    assert (N2 : aget (mgrs s2) k = option_map (fun m => m <| m_locked := sub32 (m_locked m) (l_locked l) |>) (aget (mgrs s) k)).
    { unfold s2. rewrite aget_mgrs_updm, N.eqb_refl, M1. reflexivity. }
    rewrite Qm, aget_mgrs_updm, N.eqb_refl, N2 in H3.
    destruct (aget (mgrs s) k) as [m|] eqn:Em; [|discriminate].
    exists m. split; [reflexivity|]. cbn [option_map] in H3. injection H3 as H3. subst m3.
    unfold mview in V3. cbn in V3. injection V3 as Va Vb.
    split; [exact Va|]. rewrite Vb.
    replace (getm s2 k) with (m <| m_locked := sub32 (m_locked m) (l_locked l) |>).
    2:{ unfold getm, s2. rewrite aget_mgrs_updm, N.eqb_refl, M1, Em. reflexivity. }
    reflexivity.
  - intros k' m' Hk Hm'. change (aget (mgrs s6) k' = Some m') in Hm'.
    destruct (fr_mview _ _ _ _ F36 Hm') as (m3 & H3 & V3). exists m3. split; auto.
    rewrite Qm, aget_mgrs_updm in H3. destruct (k =? k') eqn:E; [apply N.eqb_eq in E; congruence|].
    unfold s2 in H3. rewrite aget_mgrs_updm, E, M1 in H3. exact H3.
Qed.
