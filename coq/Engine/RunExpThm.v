(* Run-level expiry theorems (property C06), part 4: NEVER EARLY.
   In every state that satisfies the heap invariant Inv and the long-table invariant KL, whatever the lag of the sweep:
   every record handed to doExpried by the expiry sweep is, if it is a live hold at that moment, one whose deadline
   l_eT has been reached -- for entries taken from the 16-slot wheel (TimeExp.sweep_e_slot_due) AND for entries taken
   from the long table (KL: a live hold stored under key t has deadline t).  The EXPRIED replies of an expiry sweep are
   exactly the replies of those doExpried calls. *)
From Coq Require Import String ZifyN ZifyBool ZifyNat.
From Slock Require Import Engine.Types Engine.Queues Engine.Timers Engine.Engine Engine.Engine2 Engine.InvDef Engine.InvBase
  Engine.InvPrims Engine.InvRec Engine.InvWheel Engine.InvQueue Engine.InvQueue2 Engine.InvSteps Engine.InvLockDefs Engine.InvLock
  Engine.InvUnlock Engine.InvSweep Engine.InvMain Engine.InvProps.
From Slock Require Import Engine.LocalBase Engine.LocalWake Engine.TimeBase Engine.TimeExp Engine.TimeRun Engine.TimeEvents.
From Slock Require Import Engine.RunExpK Engine.RunExpSteps Engine.RunExpSteps2.
Open Scope N_scope.

(* ---------------------------------------------------------------- frames that may rewrite the records in X *)
Definition efrx (X : ref -> Prop) (s s' : db) : Prop :=
  forall x l', ~ X x -> aget (store s') x = Some l' ->
  exists l, aget (store s) x = Some l /\ l_eT l' = l_eT l /\ l_expried l' = l_expried l.

Lemma efrx_refl X s : efrx X s s.
Proof. intros x l' _ H. eauto. Qed.
Lemma efrx_trans X a b c : efrx X a b -> efrx X b c -> efrx X a c.
Proof.
  intros H1 H2 x l' N G. destruct (H2 x l' N G) as (l1 & G1 & A1 & B1). destruct (H1 x l1 N G1) as (l0 & G0 & A0 & B0).
  exists l0. repeat split; congruence.
Qed.
Lemma efrx_kfr X s x y : efrx X s x -> kfr x y -> efrx X s y.
Proof.
  intros H (_ & _ & F). eapply efrx_trans; [exact H|]. intros z l' _ G. destruct (F z l' G) as (l & G0 & (_ & _ & S3 & S4 & _)).
  exists l. auto.
Qed.
Lemma efrx_store X s x y : efrx X s x -> store y = store x -> efrx X s y.
Proof. intros H E z l' N G. rewrite E in G. auto. Qed.
Lemma efrx_setl_self (X : ref -> Prop) s x r l : X r -> efrx X s x -> efrx X s (setl x r l).
Proof.
  intros Hx H. eapply efrx_trans; [exact H|]. intros z l' N G. rewrite aget_setl in G.
  destruct (r =? z) eqn:E; [apply N.eqb_eq in E; subst z; contradiction|eauto].
Qed.
Lemma efrx_updl_self (X : ref -> Prop) s x r f : X r -> efrx X s x -> efrx X s (updl x r f).
Proof. intros Hx H. unfold updl. destruct (aget (store x) r); auto. apply efrx_setl_self; auto. Qed.

Lemma efrx_arm (X : ref -> Prop) s x r : X r -> efrx X s x -> efrx X s (arm x r).
Proof.
  intros Hx H. unfold arm. cbv zeta.
  match goal with |- context [if ?b then _ else _] => destruct b end.
  - match goal with |- efrx _ _ (?a <| elong := ?w |>) => apply (efrx_store X s a); [|reflexivity] end.
    repeat (apply efrx_updl_self; [exact Hx|]). exact H.
  - apply efrx_updl_self; [exact Hx|].
    match goal with |- efrx _ _ (?a <| ewheel := ?w |>) => apply (efrx_store X s a); [|reflexivity] end.
    repeat (apply efrx_updl_self; [exact Hx|]). exact H.
Qed.
Lemma efrx_add_expried (X : ref -> Prop) s x k r : X r -> efrx X s x -> efrx X s (fst (add_expried x k r)).
Proof. intros Hx H. eapply efrx_kfr; [apply efrx_arm; eauto|]. apply kfr_add_expried_arm, kfr_refl. Qed.
Lemma efrx_add_lock (X : ref -> Prop) s x k r : X r -> efrx X s x -> efrx X s (add_lock x k r).
Proof. intros Hx H. eapply efrx_kfr; [apply (efrx_setl_self X s x r (add_lock_rec x k r)); auto|]. apply kfr_add_lock_after. Qed.
Lemma efrx_kill (X : ref -> Prop) s x r : X r -> efrx X s x -> efrx X s (kill x r).
Proof.
  intros Hx H. unfold kill. cbv zeta.
  assert (H1 : efrx X s (updl x r (fun l => l <| l_timeouted := true |>))) by (apply efrx_updl_self; auto).
  destruct (l_long (getl x r)); [|exact H1].
  unfold remove_long_timeout. cbv zeta. destruct (aget (tlong _) _).
  - apply efrx_updl_self; [exact Hx|]. exact H1.
  - apply efrx_updl_self; [exact Hx|]. exact H1.
Qed.

Lemma EDue_efrx nowv due (X : ref -> Prop) s s' :
  EDue nowv due s -> efrx X s s' -> (forall x, In x due -> ~ X x) -> EDue nowv due s'.
Proof.
  intros D F N x l' I [G L]. destruct (F x l' (N x I) G) as (l & G0 & A & B). rewrite A. apply (D x l I). split; congruence.
Qed.
Lemma EDue_kfr nowv due s s' : EDue nowv due s -> kfr s s' -> EDue nowv due s'.
Proof.
  intros D F. eapply (EDue_efrx nowv due (fun _ => False)); [exact D| |intros x _ []].
  eapply efrx_kfr; [apply efrx_refl|exact F].
Qed.
Lemma EDue_incl nowv d1 d2 s : (forall x, In x d1 -> In x d2) -> EDue nowv d2 s -> EDue nowv d1 s.
Proof. intros I D x l Ix. apply D; auto. Qed.

(* ---------------------------------------------------------------- wake-up passes keep the deadlines of the sweeper's refs *)
Lemma wake_grant_efrx s k r via : cmd_core (l_cmd (getl s r)) -> efrx (eq r) s (fst (wake_grant s k r via)).
Proof.
  intros Hc. rewrite wake_grant_state by exact Hc. cbv zeta. rewrite wg_pre_kill.
  assert (H1 : efrx (eq r) s (kill s r)) by (apply efrx_kill; [reflexivity|apply efrx_refl]).
  destruct (0 <? c_expried (l_cmd (getl s r))).
  - eapply efrx_kfr; [|apply kfr_bump, kfr_refl]. unfold grant_core. cbv zeta.
    apply efrx_updl_self; [reflexivity|]. apply efrx_add_expried; [reflexivity|].
    eapply efrx_kfr; [|apply kfr_updm, kfr_refl]. apply efrx_add_lock; [reflexivity|exact H1].
  - eapply efrx_kfr; [exact H1|]. apply kfr_bump. unfold wg_nohold.
    destruct (has_data_flag _); [|kf]. cbv zeta. destruct (_ && _); [apply kfr_push_lock_aof|]; kf.
Qed.

Lemma wake_iter_EDue nowv s xt xe k w :
  GInv s (gk xt xe k) -> w_key w = k -> EDue nowv xe s -> EDue nowv xe (fst (fst (wake_iter s w))).
Proof.
  intros G Hw D. unfold wake_iter. rewrite Hw. destruct (aget (mgrs s) k) as [m|] eqn:Hm; [|exact D].
  destruct (negb (m_waited m)); [exact D|].
  pose proof (get_wait_lock_ginv s (gk xt xe k) k G) as P.
  pose proof (kfr_get_wait_lock s s k (kfr_refl s)) as F.
  destruct (get_wait_lock s k) as [s1 wl]. destruct P as [G1 [LF [_ [_ [_ P4]]]]]; auto. cbn [fst] in F.
  pose proof (EDue_kfr _ _ _ _ D F) as D1.
  destruct wl as [r|].
  - destruct P4 as [Hin [l [Hr Ht]]].
    destruct (negb (do_lock s1 k r)); [exact D1|].
    pose proof (wake_grant_efrx s1 k r (w_conn w)) as A. rewrite (getl_some _ _ _ Hr) in A.
    specialize (A (ro_cmd _ _ _ _ (gi_rec _ _ G1 r l Hr))).
    destruct (wake_grant s1 k r (w_conn w)) as [s2 ev]. cbn [fst] in *.
    eapply EDue_efrx; [exact D1|exact A|].
    intros x I E. subst x. destruct (ro_live _ _ _ _ (gi_rec _ _ G1 r l Hr) Ht) as [_ [Q _]].
    unfold ecount, gk in Q. gs. apply occ_In in I. lia.
  - cbn [fst]. eapply EDue_kfr; [exact D1|kf].
Qed.

Lemma run_wake_EDue nowv fuel : forall s xt xe k w,
  GInv s (gk xt xe k) -> w_key w = k -> EDue nowv xe s -> EDue nowv xe (fst (run_wake fuel s w)).
Proof.
  induction fuel as [|f IH]; intros s xt xe k w G Hw D; simpl; [exact D|].
  pose proof (wake_iter_ginv s xt xe k w G Hw) as G1. pose proof (wake_iter_EDue nowv s xt xe k w G Hw D) as D1.
  destruct (wake_iter s w) as [[s' ev] [|]]; cbn [fst] in *; [exact D1|].
  specialize (IH s' xt xe k w G1 Hw D1). destruct (run_wake f s' w) as [s'' ev']. exact IH.
Qed.

Lemma finish_EDue nowv s ev w xt xe k :
  GInv s (gk xt xe k) -> (forall w0, w = Some w0 -> w_key w0 = k) -> EDue nowv xe s -> EDue nowv xe (fst (finish (s, ev, w))).
Proof.
  intros G Hw D. unfold finish. destruct w as [w0|]; [|exact D].
  pose proof (run_wake_EDue nowv (wake_fuel s (w_key w0)) s xt xe k w0 G (Hw w0 eq_refl) D) as P.
  destruct (run_wake (wake_fuel s (w_key w0)) s w0) as [s' ev']. exact P.
Qed.

(* ---------------------------------------------------------------- doExpried rewrites its own record only *)
Lemma do_expried_efrx s r : efrx (eq r) s (fst (fst (do_expried s r))).
Proof.
  unfold do_expried. destruct (aget (store s) r) as [l|] eqn:Hr; [|apply efrx_refl].
  destruct (l_expried l).
  - cbn [fst]. eapply efrx_kfr; [apply efrx_refl|kf].
  - destruct (negb (leader s) && l_isaof l && ((l_eT l <=? 0)%Z || (now s - l_eT l <? EXPRIED_WAIT_LEADER_MAX_TIME)%Z)).
    + cbv zeta.
      match goal with |- context [add_expried ?x ?k r] =>
        pose proof (efrx_add_expried (eq r) s x k r eq_refl) as A; destruct (add_expried x k r) as [s2 aev] end.
      cbn [fst] in *. apply A. apply efrx_updl_self; [reflexivity|apply efrx_refl].
    + cbv zeta.
      set (s1 := updl s r (fun l0 => l0 <| l_expried := true |>)).
      assert (H1 : efrx (eq r) s s1) by (apply efrx_updl_self; [reflexivity|apply efrx_refl]). clearbody s1.
      match goal with |- context [if l_isaof ?x then _ else _] => destruct (l_isaof x) end;
        try (destruct (push_unlock_aof _ _ _ _ _ _ _) as [s3 aev] eqn:E3); cbn [fst]; (eapply efrx_kfr; [exact H1|kf]).
Qed.

(* ---------------------------------------------------------------- the doExpried call log of an expiry sweep *)
Fixpoint sweep_e_log (n : nat) (s : db) (t nowv : Z) : list (db * ref) :=
  match n with
  | O => []
  | S n' => let '(s1, due, _) := collect_expiries s t nowv in
            fire_log do_expried s1 due ++ sweep_e_log n' (fst (fire_all do_expried s1 due)) (t + 1)%Z nowv
  end.

Definition expiry_calls (s : db) : list (db * ref) :=
  sweep_e_log (Z.to_nat (now s + 1 - checkE s)) (s <| checkE := (now s + 1)%Z |>) (checkE s) (now s).

Lemma fire_log_EDue nowv : forall due s xt k,
  GInv s (gk xt due k) -> EDue nowv due s ->
  forall s' r, In (s', r) (fire_log do_expried s due) -> EDue nowv [r] s'.
Proof.
  induction due as [|r rest IH]; intros s xt k G D s' r' I; cbn in I; [destruct I|].
  destruct I as [[= <- <-]|I].
  - eapply EDue_incl; [|exact D]. intros x [<-|[]]. left; auto.
  - destruct (stored_of_xe s _ r rest G eq_refl) as [l Hr].
    destruct (el_zero_of_xe s _ r rest l G eq_refl Hr) as (_ & _ & Z & _).
    destruct (do_expried_ginv s xt k r rest G) as [k1 [G1 Hw]].
    pose proof (do_expried_efrx s r) as F.
    destruct (do_expried s r) as [[s1 e1] w] eqn:Ed. cbn [fst snd] in *.
    assert (D1 : EDue nowv rest s1).
    { eapply EDue_efrx; [eapply EDue_incl; [|exact D]; intros x Ix; right; exact Ix|exact F|].
      intros x Ix E. subst x. apply occ_In in Ix. lia. }
    pose proof (finish_ginv s1 e1 w xt rest k1 G1 Hw) as G2.
    pose proof (finish_EDue nowv s1 e1 w xt rest k1 G1 Hw D1) as D2.
    eapply IH; eauto.
Qed.

Lemma fire_all_fst_finish s r rest :
  fst (fire_all do_expried s (r :: rest)) = fst (fire_all do_expried (fst (finish (do_expried s r))) rest).
Proof. simpl. destruct (finish (do_expried s r)) as [s1 e1]. cbn [fst]. destruct (fire_all do_expried s1 rest). reflexivity. Qed.

(* entries of a long-table bucket: the deadline is the key *)
Lemma lkey_le t eT : (0 <= t)%Z -> lkey eT = lkey t -> (eT <= t)%Z.
Proof. unfold lkey. intros H E. destruct (Z_le_gt_dec eT 0); [lia|]. assert (eT = t) by (apply Z2N.inj; [lia|lia|exact E]). lia. Qed.

Definition efr0 := efrx (fun _ => False).

Lemma sweep_long_efr b items : forall s due, efr0 s (fst (sweep_long s items b due))
  /\ forall x, In x (snd (sweep_long s items b due)) -> In x due \/ In x items.
Proof.
  induction items as [|r rest IH]; intros s due; cbn [sweep_long]; [split; [apply efrx_refl|auto]|].
  set (s1 := updl s r (fun l => l <| l_long := false |>)).
  assert (H1 : efr0 s s1).
  { intros x l' _ G. unfold s1 in G. rewrite aget_updl in G. destruct (r =? x); [|eauto].
    destruct (aget (store s) x) as [l|]; [|discriminate]. cbn in G. injection G as <-. eauto. }
  clearbody s1.
  destruct (negb (if b then l_timeouted (getl s1 r) else l_expried (getl s1 r))).
  - destruct (IH s1 (due ++ [r])) as [A B]. split; [eapply efrx_trans; eauto|].
    intros x I. destruct (B x I) as [J|J]; [apply in_app_iff in J; destruct J as [J|[<-|[]]]; [auto|right; left; auto]|right; right; auto].
  - match goal with |- context [sweep_long ?y rest b due] => destruct (IH y due) as [A B] end.
    split.
    + eapply efrx_trans; [|exact A]. eapply efrx_kfr; [exact H1|]. apply kfr_unref_rm, kfr_refl.
    + intros x I. destruct (B x I); [auto|right; right; auto].
Qed.

Lemma collect_expiries_EDue s xt k t nowv :
  GInv s (gk xt [] k) -> KL s -> (0 <= t <= nowv)%Z ->
  EDue nowv (snd (fst (collect_expiries s t nowv))) (fst (fst (collect_expiries s t nowv))).
Proof.
  intros G K R. unfold collect_expiries.
  pose proof (sweep_e_slot_due nowv (slot_of t) (10 * length (wheel_get (ewheel s) (slot_of t)) + 10) s [] []) as D1.
  pose proof (sweep_e_slot_GK (10 * length (wheel_get (ewheel s) (slot_of t)) + 10) s xt k (slot_of t) nowv [] [] G K) as K1.
  destruct (sweep_e_slot _ s (slot_of t) nowv [] []) as [[s1 due] ev]. cbn [fst snd] in *.
  assert (D1' : EDue nowv due s1) by (apply D1; intros r l []).
  destruct (aget (elong s1) (lkey t)) as [items|] eqn:El; [|exact D1'].
  set (s2 := s1 <| elong := adel (elong s1) (lkey t) |>).
  assert (DI : EDue nowv items s2).
  { intros r l I [Gr L]. change (store s2) with (store s1) in Gr.
    assert (I0 : In r (wheel_get (elong s1) (lkey t))) by (unfold wheel_get; rewrite El; exact I).
    destruct (kl_e2 _ K1 _ r l I0 Gr L) as [_ KK]. pose proof (lkey_le t (l_eT l) ltac:(lia) KK). lia. }
  destruct (sweep_long_efr false items s2 due) as [A B].
  destruct (sweep_long s2 items false due) as [s3 due3]. cbn [fst snd] in *.
  eapply (EDue_efrx nowv due3 (fun _ => False)); [|exact A|intros x _ []].
  intros x l I LV. destruct (B x I); [apply (D1' x l); auto|apply (DI x l); auto].
Qed.

Lemma sweep_e_log_early nowv : forall n s t,
  Inv s -> KL s -> (0 <= t)%Z -> (t + Z.of_nat n <= nowv + 1)%Z ->
  forall s' r, In (s', r) (sweep_e_log n s t nowv) -> EDue nowv [r] s'.
Proof.
  induction n as [|n IH]; intros s t G K T0 TN s' r I; cbn [sweep_e_log] in I; [destruct I|].
  pose proof (collect_expiries_ginv s [] 0 t nowv (inv_gk s 0 G)) as G1.
  pose proof (collect_expiries_GK s [] 0 t nowv (inv_gk s 0 G) K) as K1.
  pose proof (collect_expiries_EDue s [] 0 t nowv (inv_gk s 0 G) K ltac:(lia)) as D1.
  destruct (collect_expiries s t nowv) as [[s1 due] e1]. cbn [fst snd] in *.
  apply in_app_iff in I. destruct I as [I|I].
  - eapply fire_log_EDue; eauto.
  - destruct (fire_all_e_ginv due s1 [] 0 G1) as [k' G2].
    pose proof (fire_all_e_KL due s1 [] 0 G1 K1) as K2.
    eapply (IH _ (t + 1)%Z); [apply (gk_inv _ k' G2)|exact K2|lia|lia|exact I].
Qed.

(* NEVER EARLY, call level: whenever the expiry sweep started in state s calls doExpried on a record that is a live
   hold at that moment, the deadline stored in the record has been reached *)
Theorem expiry_call_not_early s :
  Inv s -> KL s -> (0 <= checkE s <= now s + 1)%Z ->
  forall s' r l, In (s', r) (expiry_calls s) -> elive s' r l -> (l_eT l <= now s)%Z.
Proof.
  intros G K C s' r l I LV. unfold expiry_calls in I.
  assert (D : EDue (now s) [r] s').
  { apply (sweep_e_log_early (now s) (Z.to_nat (now s + 1 - checkE s)) (s <| checkE := (now s + 1)%Z |>) (checkE s));
      [apply (inv_scalar s); auto|apply (KL_scalar s); auto|lia|lia|exact I]. }
  apply (D r l); [left; reflexivity|exact LV].
Qed.

(* ---------------------------------------------------------------- events: the EXPRIED replies of a sweep *)
Lemma sweep_e_slot_quiet slot nowv : forall fuel s due ev, quiet ev -> quiet (snd (sweep_e_slot fuel s slot nowv due ev)).
Proof.
  induction fuel as [|f IH]; intros s due ev Q; cbn [sweep_e_slot]; [exact Q|].
  destruct (wheel_get (ewheel s) slot) as [|r rest]; [exact Q|]. cbv zeta.
  match goal with |- context [match aget (store ?x) r with None => true | Some _ => false end] =>
    destruct (match aget (store x) r with None => true | Some _ => false end) end; [exact Q|].
  match goal with |- context [negb (l_expried ?x)] => destruct (negb (l_expried x)) end; [|apply IH; exact Q].
  match goal with |- context [(nowv <? ?x)%Z] => destruct (nowv <? x)%Z end; [|apply IH; exact Q].
  match goal with |- context [add_expried ?a ?b ?c] => pose proof (quiet_add_expried a b c) as A; destruct (add_expried a b c) as [s2 aev] end.
  cbn [snd] in A. apply IH. apply quiet_app; auto.
Qed.

Lemma collect_expiries_quiet s t nowv : quiet (snd (collect_expiries s t nowv)).
Proof.
  unfold collect_expiries.
  pose proof (sweep_e_slot_quiet (slot_of t) nowv (10 * length (wheel_get (ewheel s) (slot_of t)) + 10) s [] [] quiet_nil) as A.
  destruct (sweep_e_slot _ s (slot_of t) nowv [] []) as [[s1 due] ev]. cbn [snd] in A.
  destruct (aget (elong s1) (lkey t)) as [items|]; [|exact A].
  destruct (sweep_long _ items false due) as [s2 due2]. exact A.
Qed.

Lemma sweep_e_secs_er nowv : forall n s t e,
  In e (snd (sweep_e_secs n s t nowv)) -> is_er e = true ->
  exists p, In p (sweep_e_log n s t nowv) /\ In e (snd (fst (do_expried (fst p) (snd p)))).
Proof.
  induction n as [|n IH]; intros s t e I Er; cbn [sweep_e_secs sweep_e_log] in *; [destruct I|].
  pose proof (collect_expiries_quiet s t nowv) as Q1.
  destruct (collect_expiries s t nowv) as [[s1 due] e1]. cbn [snd] in Q1.
  pose proof (fire_all_events do_expried due s1) as A.
  destruct (fire_all do_expried s1 due) as [s2 e2] eqn:EF. cbn [fst snd] in *.
  specialize (IH s2 (t + 1)%Z e).
  destruct (sweep_e_secs n s2 (t + 1) nowv) as [s3 e3]. cbn [snd] in *.
  apply in_app_iff in I. destruct I as [I|I]; [destruct (Q1 e I); congruence|].
  apply in_app_iff in I. destruct I as [I|I].
  - rewrite A in I. apply in_flat_map in I. destruct I as (p & Ip & Ie).
    unfold call_events in Ie. destruct (finish_events (do_expried (fst p) (snd p))) as (wev & E & Qw).
    rewrite E in Ie. apply in_app_iff in Ie. destruct Ie as [Ie|Ie]; [|destruct (Qw e Ie); congruence].
    exists p. split; [apply in_app_iff; left; exact Ip|exact Ie].
  - destruct (IH I Er) as (p & Ip & Ie). exists p. split; [apply in_app_iff; right; exact Ip|exact Ie].
Qed.

(* doExpried answers EXPRIED only for a stored live hold, with the record's connection and current command *)
Lemma do_expried_er s r e :
  In e (snd (fst (do_expried s r))) -> is_er e = true ->
  exists l lc lrc d, elive s r l /\ e = reply (l_conn l) (l_cmd l) R_EXPRIED lc lrc d.
Proof.
  unfold do_expried. destruct (aget (store s) r) as [l|] eqn:Hr; [|intros [<-|[]] H; discriminate H].
  destruct (l_expried l) eqn:Ee; [intros []|].
  destruct (negb (leader s) && l_isaof l && ((l_eT l <=? 0)%Z || (now s - l_eT l <? EXPRIED_WAIT_LEADER_MAX_TIME)%Z)).
  - cbv zeta. match goal with |- context [add_expried ?a ?b ?c] => pose proof (quiet_add_expried a b c) as A; destruct (add_expried a b c) as [s2 aev] end.
    cbn [fst snd] in *. intros I Er. destruct (A e I). congruence.
  - cbv zeta.
    match goal with |- context [if l_isaof ?x then push_unlock_aof ?a ?b ?c ?d ?e0 ?f ?g else _] =>
      pose proof (quiet_push_unlock_aof a b c d e0 f g) as A; destruct (l_isaof x); [destruct (push_unlock_aof a b c d e0 f g) as [s2 aev]|] end;
      cbn [fst snd app] in *; intros I Er.
    + destruct I as [<-|I]; [discriminate|]. apply in_app_iff in I. destruct I as [I|[<-|[]]]; [destruct (A e I); congruence|].
      exists l. do 3 eexists. split; [split; auto|reflexivity].
    + destruct I as [<-|[<-|[]]]; [discriminate|]. exists l. do 3 eexists. split; [split; auto|reflexivity].
Qed.

Lemma sweep_expiries_er s e :
  In e (snd (sweep_expiries s)) -> is_er e = true ->
  exists s' r l lc lrc d, In (s', r) (expiry_calls s) /\ elive s' r l /\ e = reply (l_conn l) (l_cmd l) R_EXPRIED lc lrc d.
Proof.
  intros I Er. unfold sweep_expiries in I. destruct (sweep_e_secs_er _ _ _ _ _ I Er) as ([s' r] & Ip & Ie). cbn [fst snd] in Ie.
  destruct (do_expried_er s' r e Ie Er) as (l & lc & lrc & d & LV & E).
  exists s', r, l, lc, lrc, d. auto.
Qed.

(* NEVER EARLY, event level, one sweep in a state satisfying the invariants *)
Theorem sweep_never_early s :
  Inv s -> KL s -> (0 <= checkE s <= now s + 1)%Z ->
  forall e, In e (snd (step s ASweepE)) -> is_er e = true ->
  exists s' r l lc lrc d, In (s', r) (expiry_calls s) /\ elive s' r l
    /\ e = reply (l_conn l) (l_cmd l) R_EXPRIED lc lrc d /\ (l_eT l <= now s)%Z.
Proof.
  intros G K C e I Er. cbn [step] in I.
  destruct (sweep_expiries_er s e I Er) as (s' & r & l & lc & lrc & d & Ic & LV & E).
  exists s', r, l, lc, lrc, d. repeat split; auto; try apply LV. eapply expiry_call_not_early; eauto.
Qed.
