(* C03, part 1: local summaries.  For each critical section of the model (Lock, UnLock, cancelWaitLock, one wake-up
   grant, doTimeOut, doExpried, the collecting sweeps): which replies it emits, and how it changes the reply-relevant
   view of the lock records.  No reachability invariant is used. *)
From Coq Require Import String ZifyN ZifyBool ZifyNat.
From Slock Require Import Engine.Types Engine.Queues Engine.Timers Engine.Engine Engine.Engine2 Engine.ReplyBase.
Open Scope N_scope.

(* ------------------------------------------------------------------ reply projections *)
Definition rinfo : Type := N * N * N.     (* connection, RequestId, result *)
Definition rinfo_of (e : event) : option rinfo :=
  match e with EReply conn req res _ _ _ _ _ _ => Some (conn, req, res) | _ => None end.
Fixpoint rinfos (ev : list event) : list rinfo :=
  match ev with
  | [] => []
  | e :: rest => match rinfo_of e with Some i => i :: rinfos rest | None => rinfos rest end
  end.

Lemma rinfos_app a b : rinfos (a ++ b) = rinfos a ++ rinfos b.
Proof. induction a as [|e a IH]; cbn; auto. destruct (rinfo_of e); cbn; congruence. Qed.

Lemma rinfos_noreply ev : replies ev = [] -> rinfos ev = [].
Proof.
  induction ev as [|e ev IH]; cbn; auto. destruct e; cbn; auto. discriminate.
Qed.

Lemma rinfos_reply conn c res a b d : rinfos [reply conn c res a b d] = [(conn, c_req c, res)].
Proof. reflexivity. Qed.

(* ------------------------------------------------------------------ the core command subset *)
Definition core_cmd (c : cmd) : Prop :=
  has (c_tflag c) TF_REQUIRE_ACKED = false /\ has (c_tflag c) TF_MILLISECOND = false
  /\ has (c_eflag c) EF_MILLISECOND = false /\ c_data c = None.

Definition core_flags (c : cmd) : Prop :=
  has (c_tflag c) TF_REQUIRE_ACKED = false /\ has (c_eflag c) EF_MILLISECOND = false.

Lemma core_cmd_flags c : core_cmd c -> core_flags c.
Proof. intros (a & b & d & e). split; auto. Qed.

(* ------------------------------------------------------------------ change of one record *)
Record chg1 (s s' : db) (r : ref) (Vnew : view -> Prop) : Prop := mkChg {
  chg_v : forall r' l', aget (store s') r' = Some l' ->
          if r' =? r then Vnew (view_of l') else exists l, aget (store s) r' = Some l /\ view_of l' = view_of l;
  chg_h : forall x, href s' x -> x = r \/ href s x;
  chg_n : next s <= next s'
}.

Lemma tr_chg1 g A s r V n s' :
  tr g A (ovr (base s) r V) n s' -> (forall r' v, r' <> r -> g r' v = v) ->
  (forall x, A x -> x = r \/ href s x) -> next s <= n ->
  chg1 s s' r (fun v => v = g r V).
Proof.
  intros [v h m] Hg HA Hn. split; [|auto|lia].
  intros r' l' H. destruct (v _ _ H) as (v0 & H0 & E0). unfold ovr in H0. destruct (r' =? r) eqn:E.
  - apply N.eqb_eq in E. subst. inv H0. auto.
  - apply N.eqb_neq in E. rewrite Hg in E0; auto. unfold base in H0.
    destruct (aget (store s) r') as [l|]; [|discriminate]. inv H0. exists l. auto.
Qed.

(* same, when r is a record of s *)
Lemma ovr_base_same s r l : aget (store s) r = Some l -> forall r', ovr (base s) r (view_of l) r' = base s r'.
Proof.
  intros H r'. unfold ovr. destruct (r' =? r) eqn:E; auto. apply N.eqb_eq in E. subst. unfold base. rewrite H. auto.
Qed.

Lemma tr_base_ovr g A s r l n s' : aget (store s) r = Some l -> tr g A (base s) n s' -> tr g A (ovr (base s) r (view_of l)) n s'.
Proof.
  intros Hl [v h m]. split; auto. intros r' l' H. destruct (v _ _ H) as (v0 & H0 & E0). exists v0.
  rewrite ovr_base_same; auto.
Qed.

Lemma keep_chg1 s s' r : keep s s' ->
  chg1 s s' r (fun v => exists l, aget (store s) r = Some l /\ v = view_of l).
Proof.
  intros [v h n]. split; auto. intros r' l' H. destruct (v _ _ H) as (l & Hl & E). unfold idg in E.
  destruct (r' =? r) eqn:Er; eauto. apply N.eqb_eq in Er. subst. eauto.
Qed.

Lemma chg1_weaken s s' r (V V' : view -> Prop) : (forall v, V v -> V' v) -> chg1 s s' r V -> chg1 s s' r V'.
Proof.
  intros HV [v h n]. split; auto. intros r' l' H. specialize (v _ _ H). destruct (r' =? r); auto.
Qed.

Lemma chg1_keep s s1 s' r V : chg1 s s1 r V -> keep s1 s' -> chg1 s s' r V.
Proof.
  intros [v h n] [v' h' n']. split; [|auto|lia].
  intros r' l' H. destruct (v' _ _ H) as (l1 & H1 & E1). unfold idg in E1. specialize (v _ _ H1).
  rewrite E1. auto.
Qed.

Lemma keep_chg1_l s s1 s' r V : keep s s1 -> chg1 s1 s' r V -> (forall v, V v -> True) ->
  (forall r' l', aget (store s') r' = Some l' -> r' <> r -> exists l, aget (store s) r' = Some l /\ view_of l' = view_of l)
  /\ (forall x, href s' x -> x = r \/ href s x) /\ next s <= next s'.
Proof.
  intros [v h n] [v' h' n'] _. split; [|split]; [| |lia].
  - intros r' l' H Hr. specialize (v' _ _ H). apply N.eqb_neq in Hr. rewrite Hr in v'.
    destruct v' as (l1 & H1 & E1). destruct (v _ _ H1) as (l0 & H0 & E0). exists l0. unfold idg in *. split; congruence.
  - intros x Hx. destruct (h' _ Hx); auto.
Qed.

(* extended keep tactic: also steps over helper calls whose result was named by an equation *)
Lemma process_data_keep1 s k r c b s' ev : process_data s k r c b = (s', ev) -> keep s s'.
Proof. intros H. apply process_data_keep in H. tauto. Qed.
Lemma process_data_norep s k r c b s' ev : process_data s k r c b = (s', ev) -> rinfos ev = [].
Proof. intros H. apply process_data_keep in H. apply rinfos_noreply. tauto. Qed.
Lemma push_lock_aof_norep s k r f s' ev : push_lock_aof s k r f = (s', ev) -> rinfos ev = [].
Proof. intros H. apply rinfos_noreply. eapply push_lock_aof_noreply; eauto. Qed.
Lemma push_unlock_aof_norep s k r lc uc b f s' ev : push_unlock_aof s k r lc uc b f = (s', ev) -> rinfos ev = [].
Proof. intros H. apply rinfos_noreply. eapply push_unlock_aof_noreply; eauto. Qed.

Ltac keep_eq :=
  match goal with
  | |- keep _ ?s' => is_var s';
      eapply keep_trans;
      [| first [ eapply process_data_keep1; eassumption
               | eapply push_lock_aof_keep; eassumption
               | eapply push_unlock_aof_keep; eassumption
               | eapply get_wait_lock_keep; eassumption ] ]
  end.
Ltac keep_x := repeat first [ keep_r1 | keep_eq | (eapply keep_trans; [|apply keep_setm_new])
                            | match goal with |- keep _ (if ?b then _ else _) => destruct b end
                            | match goal with |- keep _ (remove_long_timeout _ _) => eapply keep_trans; [|apply remove_long_timeout_keep] end
                            | match goal with |- keep _ (remove_long_expried _ _ _) => eapply keep_trans; [|apply remove_long_expried_keep] end ].

(* no-reply bookkeeping: normalise `rinfos (a ++ b ++ ...)` using the equations in the context *)
Ltac norep1 :=
  repeat rewrite rinfos_app;
  repeat match goal with
  | H : process_data _ _ _ _ _ = (_, ?ev) |- context [rinfos ?ev] => rewrite (process_data_norep _ _ _ _ _ _ _ H)
  | H : push_lock_aof _ _ _ _ = (_, ?ev) |- context [rinfos ?ev] => rewrite (push_lock_aof_norep _ _ _ _ _ _ H)
  | H : push_unlock_aof _ _ _ _ _ _ _ = (_, ?ev) |- context [rinfos ?ev] => rewrite (push_unlock_aof_norep _ _ _ _ _ _ _ _ _ H)
  end;
  cbn [rinfos rinfo_of reply app].
Ltac norep := repeat (progress norep1).

Ltac injs := repeat match goal with
  | H : (_, _) = (_, _) |- _ => inv H
  | H : inl _ = inl _ |- _ => inv H
  | H : inr _ = inr _ |- _ => inv H
  | H : inl _ = inr _ |- _ => discriminate H
  | H : inr _ = inl _ |- _ => discriminate H
  | H : Some _ = Some _ |- _ => inv H
  | H : Some _ = None |- _ => discriminate H
  | H : None = Some _ |- _ => discriminate H
  end.
Ltac brk := repeat first
  [ progress injs
  | match goal with H : (let '(_, _) := ?t in _) = _ |- _ => destruct t as [? ?] eqn:? end
  | match goal with H : (if ?b then _ else _) = _ |- _ => destruct b eqn:? end
  | match goal with H : (match ?x with _ => _ end) = _ |- _ => destruct x eqn:? end
  | match goal with H : (let _ := _ in _) = _ |- _ => progress cbv beta zeta in H end ].
Ltac at_ref_off := intros ? ? Hne; unfold at_ref; apply N.eqb_neq in Hne; rewrite ?Hne; reflexivity.

(* ------------------------------------------------------------------ wakeUpWaitLock: one grant *)
Lemma add_expried_norep s k r s' ev : add_expried s k r = (s', ev) -> rinfos ev = [].
Proof. intros H. destruct (add_expried_tr _ _ _ _ _ _ _ _ _ H (tr_refl _)) as [_ R]. apply rinfos_noreply; auto. Qed.

Ltac norep2 := norep; repeat match goal with
  | H : add_expried _ _ _ = (_, ?ev) |- context [rinfos ?ev] => rewrite (add_expried_norep _ _ _ _ _ H) end; norep.

Lemma wake_grant_rinfos s k r via s' ev :
  wake_grant s k r via = (s', ev) ->
  rinfos ev = [] \/ rinfos ev = [(l_conn (getl s r), c_req (l_cmd (getl s r)), R_SUCCED)].
Proof.
  unfold wake_grant. intros H. brk; norep2; auto.
Qed.

Lemma wake_grant_sum s k r via s' ev :
  wake_grant s k r via = (s', ev) -> l_timeouted (getl s r) = false -> core_flags (l_cmd (getl s r)) ->
  chg1 s s' r (fun v => v_cmd v = l_cmd (getl s r) /\ v_conn v = l_conn (getl s r) /\ v_to v = true)
  /\ rinfos ev = [(l_conn (getl s r), c_req (l_cmd (getl s r)), R_SUCCED)].
Proof.
  intros H Hlive [Hack Hms].
  assert (Hin := getl_live_in_store _ _ Hlive). set (l := getl s r) in *.
  unfold wake_grant in H. fold l in H. rewrite Hack in H. cbn [andb] in H.
  set (s1 := updl s r (fun l => l <| l_timeouted := true |>)) in *.
  assert (T1 : tr (at_ref idg r (set_to true)) (href s) (base s) (next s) s1)
    by (subst s1; apply tr_updl; [intros; reflexivity|apply tr_refl]).
  assert (P1 : present s1 r) by (subst s1; apply present_updl; unfold present; congruence).
  clearbody s1.
  set (s2 := if l_long l then remove_long_timeout s1 r else s1) in *.
  assert (T2 : tr (at_ref idg r (set_to true)) (href s) (base s) (next s) s2)
    by (subst s2; destruct (l_long l); auto; eapply tr_keep; [apply remove_long_timeout_keep|auto]).
  assert (P2 : present s2 r) by (subst s2; destruct (l_long l); auto; apply remove_long_timeout_present; auto).
  clearbody s2. clear T1 P1 s1.
  assert (Hb : base s r = Some (view_of l)) by (unfold base; rewrite Hin; reflexivity).
  assert (FIN : forall g A s', tr g A (base s) (next s) s' -> (forall r' v, r' <> r -> g r' v = v) ->
                 (forall x, A x -> x = r \/ href s x) -> chg1 s s' r (fun v => v = g r (view_of l))).
  { intros g A s'' T Hg HA. eapply tr_chg1; [apply tr_base_ovr; eauto|auto|auto|lia]. }
  assert (T3 := add_lock_tr _ _ _ _ _ k r _ T2 Hb ltac:(intros Habs; exfalso; apply P2; auto)).
  destruct (0 <? c_expried (l_cmd l)) eqn:Hexp.
  - rewrite Hms in H. brk.
    all: split; [|norep2; reflexivity].
    all: match goal with HE : add_expried ?d _ _ = _ |- _ =>
           assert (T4 : tr (at_ref idg r (set_to true)) (addA (href s) r) (base s) (next s) d)
             by (eapply tr_keep; [|exact T3]; keep_x);
           destruct (add_expried_tr _ _ _ _ _ _ _ _ _ HE T4) as [T5 _] end.
    all: eapply chg1_weaken; [|eapply FIN; [eapply tr_keep; [|exact T5]; keep_x| |]];
      [ intros v ->; unfold at_ref; rewrite N.eqb_refl; cbn; auto | at_ref_off | intros x [->|Hx]; auto ].
  - brk.
    all: split; [|norep2; reflexivity].
    all: eapply chg1_weaken; [|eapply FIN; [eapply tr_keep; [|exact T2]; keep_x| |]];
      [ intros v ->; unfold at_ref; rewrite N.eqb_refl; cbn; auto | at_ref_off | auto ].
Qed.

(* ------------------------------------------------------------------ doTimeOut *)
Lemma tr_to_chg1 g A s r l s' :
  aget (store s) r = Some l -> tr g A (base s) (next s) s' -> (forall r' v, r' <> r -> g r' v = v) ->
  (forall x, A x -> x = r \/ href s x) -> chg1 s s' r (fun v => v = g r (view_of l)).
Proof. intros Hl T Hg HA. eapply tr_chg1; [apply tr_base_ovr; eauto|auto|auto|lia]. Qed.

Lemma do_timeout_sum s r s' ev w :
  do_timeout s r = (s', ev, w) ->
  (keep s s' /\ rinfos ev = [])
  \/ (exists l, aget (store s) r = Some l /\ l_timeouted l = false
       /\ chg1 s s' r (fun v => v = set_to true (view_of l))
       /\ rinfos ev = [(l_conn l, c_req (l_cmd l), R_TIMEOUT)]).
Proof.
  unfold do_timeout. intros H. destruct (aget (store s) r) as [l|] eqn:Hl; [|inv H; left; split; [apply keep_refl|reflexivity]].
  destruct (l_timeouted l) eqn:Hto.
  - inv H. left. split; [|reflexivity]. keep_x.
  - right. exists l. split; auto. split; auto.
    set (s1 := updl s r (fun l => l <| l_timeouted := true |>)) in *.
    assert (T1 : tr (at_ref idg r (set_to true)) (href s) (base s) (next s) s1)
      by (subst s1; apply tr_updl; [intros; reflexivity|apply tr_refl]).
    clearbody s1.
    brk. all: split; [|norep2; reflexivity].
    all: eapply chg1_weaken; [|eapply tr_to_chg1; [eassumption|eapply tr_keep; [|exact T1]; keep_x| |]];
      [ intros v ->; unfold at_ref; rewrite N.eqb_refl; reflexivity | at_ref_off | auto ].
Qed.

(* ------------------------------------------------------------------ doExpried *)
Lemma do_expried_sum s r s' ev w :
  do_expried s r = (s', ev, w) ->
  (keep s s' /\ rinfos ev = [])
  \/ (exists l, aget (store s) r = Some l /\ l_expried l = false
       /\ chg1 s s' r (fun v => v = set_ex true (view_of l))
       /\ rinfos ev = [(l_conn l, c_req (l_cmd l), R_EXPRIED)]).
Proof.
  unfold do_expried. intros H. destruct (aget (store s) r) as [l|] eqn:Hl; [|inv H; left; split; [apply keep_refl|reflexivity]].
  destruct (l_expried l) eqn:Hex.
  - inv H. left. split; [|reflexivity]. keep_x.
  - destruct (negb (leader s) && l_isaof l && _).
    + left. brk. match goal with HE : add_expried _ _ _ = _ |- _ => apply add_expried_keep in HE; [destruct HE as [K R]|] end.
      * split; [|apply rinfos_noreply; auto]. eapply keep_trans; [|exact K]. keep_x.
      * unfold getl. rewrite aget_store_updl, N.eqb_refl, Hl. cbn. exact Hex.
    + right. exists l. split; auto. split; auto.
      set (s1 := updl s r (fun l => l <| l_expried := true |>)) in *.
      assert (T1 : tr (at_ref idg r (set_ex true)) (href s) (base s) (next s) s1)
        by (subst s1; apply tr_updl; [intros; reflexivity|apply tr_refl]).
      clearbody s1.
      brk. all: split; [|norep2; reflexivity].
      all: eapply chg1_weaken; [|eapply tr_to_chg1; [eassumption|eapply tr_keep; [|exact T1]; keep_x| |]];
        [ intros v ->; unfold at_ref; rewrite N.eqb_refl; reflexivity | at_ref_off | auto ].
Qed.

(* ------------------------------------------------------------------ weaker frame: a hold may additionally be marked released *)
Definition vle (v' v : view) : Prop :=
  v_cmd v' = v_cmd v /\ v_conn v' = v_conn v /\ v_to v' = v_to v /\ (v_ex v' = v_ex v \/ v_ex v' = true).

Record keepx (s s' : db) : Prop := mkKeepx {
  keepx_v : forall r l', aget (store s') r = Some l' -> exists l, aget (store s) r = Some l /\ vle (view_of l') (view_of l);
  keepx_h : forall r, href s' r -> href s r;
  keepx_n : next s <= next s'
}.

Lemma vle_refl v : vle v v. Proof. unfold vle. auto. Qed.

Lemma keep_keepx s s' : keep s s' -> keepx s s'.
Proof.
  intros [v h n]. split; auto. intros r l' H. destruct (v _ _ H) as (l & Hl & E). exists l. split; auto.
  unfold idg in E. rewrite E. apply vle_refl.
Qed.

Lemma tr_keepx g s s' : tr g (href s) (base s) (next s) s' -> (forall r v, vle (g r v) v) -> keepx s s'.
Proof.
  intros [v h n] Hg. split; auto. intros r l' H. destruct (v _ _ H) as (v0 & H0 & E). unfold base in H0.
  destruct (aget (store s) r) as [l|]; [|discriminate]. inv H0. exists l. split; auto. rewrite E. apply Hg.
Qed.

Lemma vle_at_ex r r' v : vle (at_ref idg r (set_ex true) r' v) v.
Proof. unfold at_ref, idg. destruct (r' =? r); [|apply vle_refl]. unfold vle, set_ex; cbn. auto. Qed.

(* ------------------------------------------------------------------ cancelWaitLock *)
Lemma find_last_waiter_spec s lockid items : forall acc r,
  find_last_waiter s items lockid acc = Some r ->
  acc = Some r \/ (In r items /\ l_timeouted (getl s r) = false /\ c_lockid (l_cmd (getl s r)) = lockid).
Proof.
  induction items as [|x rest IH]; cbn; intros acc r H; auto.
  destruct (negb (l_timeouted (getl s x)) && (c_lockid (l_cmd (getl s x)) =? lockid)) eqn:B.
  - apply IH in H. destruct H as [H|(Hi & Ht & Hc)]; [|right; auto]. inv H. right.
    apply andb_true_iff in B. destruct B as [B1 B2]. apply negb_true_iff in B1. apply N.eqb_eq in B2. auto.
  - apply IH in H. destruct H as [H|(Hi & Ht & Hc)]; auto.
Qed.

Definition waiting_in (s : db) (k : N) (r : ref) : Prop :=
  exists q, m_wait (getm s k) = Some q /\ In r (wq_items q).

Lemma cancel_wait_lock_sum s conn c s' ev w :
  cancel_wait_lock s conn c = (s', ev, w) ->
  (keep s s' /\ rinfos ev = [(conn, c_req c, R_UNLOCK_ERROR)])
  \/ (exists r l, aget (store s) r = Some l /\ l_timeouted l = false /\ waiting_in s (c_key c) r
       /\ c_lockid (l_cmd l) = c_lockid c
       /\ chg1 s s' r (fun v => v = set_to true (view_of l))
       /\ rinfos ev = [(conn, c_req c, R_LOCKED_ERROR); (l_conn l, c_req (l_cmd l), R_UNLOCK_ERROR)]).
Proof.
  unfold cancel_wait_lock. intros H.
  match type of H with context [match ?x with Some r => _ | None => _ end = _] => destruct x as [r|] eqn:Hw end.
  2:{ inv H. left. split; [keep_x|reflexivity]. }
  right.
  assert (W : waiting_in s (c_key c) r /\ l_timeouted (getl s r) = false /\ c_lockid (l_cmd (getl s r)) = c_lockid c).
  { destruct (m_wait (getm s (c_key c))) as [q|] eqn:Eq; [|discriminate].
    apply find_last_waiter_spec in Hw. destruct Hw as [Hw|(Hi & Ht & Hc)]; [discriminate|].
    split; auto. exists q. auto. }
  destruct W as (W1 & W2 & W3).
  assert (Hl := getl_live_in_store _ _ W2). set (l := getl s r) in *.
  exists r, l. split; auto. split; auto. split; auto. split; auto.
  set (s1 := updl s r (fun l => l <| l_timeouted := true |>)) in *.
  assert (T1 : tr (at_ref idg r (set_to true)) (href s) (base s) (next s) s1)
    by (subst s1; apply tr_updl; [intros; reflexivity|apply tr_refl]).
  clearbody s1.
  brk. all: split; [|norep2; reflexivity].
  all: eapply chg1_weaken; [|eapply tr_to_chg1; [eassumption|eapply tr_keep; [|exact T1]; keep_x| |]];
    [ intros v ->; unfold at_ref; rewrite N.eqb_refl; reflexivity | at_ref_off | auto ].
Qed.

(* ------------------------------------------------------------------ UnLock *)
Lemma release_hold_sum s k conn c r depth s' ev :
  release_hold s k conn c r depth = (s', ev) -> keepx s s' /\ rinfos ev = [(conn, c_req c, R_SUCCED)].
Proof.
  unfold release_hold. intros H.
  set (s1 := updl s r (fun l => l <| l_expried := true |>)) in *.
  assert (T1 : tr (at_ref idg r (set_ex true)) (href s) (base s) (next s) s1)
    by (subst s1; apply tr_updl; [intros; reflexivity|apply tr_refl]).
  clearbody s1.
  brk. all: split; [|norep2; reflexivity].
  all: eapply tr_keepx; [eapply tr_keep; [|exact T1]; keep_x|apply vle_at_ex].
Qed.

Lemma vle_trans a b c : vle a b -> vle b c -> vle a c.
Proof. unfold vle. intros (a1 & a2 & a3 & a4) (b1 & b2 & b3 & b4). repeat split; try congruence. destruct a4 as [a4|a4], b4 as [b4|b4]; [left|right|right|right]; congruence. Qed.

Lemma keepx_trans s1 s2 s3 : keepx s1 s2 -> keepx s2 s3 -> keepx s1 s3.
Proof.
  intros [v1 h1 n1] [v2 h2 n2]. split; [|auto|lia].
  intros r l3 H3. destruct (v2 _ _ H3) as (l2 & H2 & E2). destruct (v1 _ _ H2) as (l1 & H1 & E1).
  exists l1. split; auto. eapply vle_trans; eauto.
Qed.

Ltac neq_res := let X := fresh in intro X; vm_compute in X; discriminate X.

Lemma unlock_step_sum s conn c s' ev w :
  unlock_step s conn c = (s', ev, w) ->
  (exists res, keepx s s' /\ rinfos ev = [(conn, c_req c, res)] /\ res <> R_EXPRIED)
  \/ (exists r l, aget (store s) r = Some l /\ l_timeouted l = false /\ waiting_in s (c_key c) r
       /\ c_lockid (l_cmd l) = c_lockid c
       /\ chg1 s s' r (fun v => v = set_to true (view_of l))
       /\ rinfos ev = [(conn, c_req c, R_LOCKED_ERROR); (l_conn l, c_req (l_cmd l), R_UNLOCK_ERROR)]).
Proof.
  intros H. unfold unlock_step in H. cbv beta zeta in H.
  brk.
  all: try match goal with HC : cancel_wait_lock _ _ _ = _ |- _ =>
         apply cancel_wait_lock_sum in HC; destruct HC as [[K R]|HC]; [left|right; exact HC];
         eexists; split; [apply keep_keepx; exact K|split; [exact R|neq_res]] end.
  all: try match goal with HR : release_hold _ _ _ _ _ _ = _ |- _ =>
         apply release_hold_sum in HR; destruct HR as [K R]; left; eexists; split;
         [ eapply keepx_trans; [apply keep_keepx|exact K]; keep_x | split; [exact R|neq_res]] end.
  all: left; eexists; (split; [apply keep_keepx; keep_x|split; [norep2; reflexivity|neq_res]]).
Qed.
