(* C03, part 1: local summaries.  For each critical section of the model (Lock, UnLock, cancelWaitLock, one wake-up
   grant, doTimeOut, doExpried, the collecting sweeps): which replies it emits, and how it changes the reply-relevant
   view of the lock records.  No reachability invariant is used. *)
From Coq Require Import String ZifyN ZifyBool ZifyNat.
From Slock Require Import Engine.Types Engine.Queues Engine.Timers Engine.Engine Engine.Engine2 Engine.ReplyBase.
Open Scope N_scope.

(* ------------------------------------------------------------------ reply projections *)
Definition rinfo : Type := N * N * N.     (* connection, RequestId, result *)
Definition rinfo_of (e : event) : option rinfo :=
  match e with EReply conn req res _ _ _ _ _ _ => Some (conn, req, res) | _ => None end.
Fixpoint rinfos (ev : list event) : list rinfo :=
  match ev with
  | [] => []
  | e :: rest => match rinfo_of e with Some i => i :: rinfos rest | None => rinfos rest end
  end.

Lemma rinfos_app a b : rinfos (a ++ b) = rinfos a ++ rinfos b.
Proof. induction a as [|e a IH]; cbn; auto. destruct (rinfo_of e); cbn; congruence. Qed.

Lemma rinfos_noreply ev : replies ev = [] -> rinfos ev = [].
Proof.
  induction ev as [|e ev IH]; cbn; auto. destruct e; cbn; auto. discriminate.
Qed.

Lemma rinfos_reply conn c res a b d : rinfos [reply conn c res a b d] = [(conn, c_req c, res)].
Proof. reflexivity. Qed.

(* ------------------------------------------------------------------ the core command subset *)
Definition core_cmd (c : cmd) : Prop :=
  has (c_tflag c) TF_REQUIRE_ACKED = false /\ has (c_tflag c) TF_MILLISECOND = false
  /\ has (c_eflag c) EF_MILLISECOND = false /\ c_data c = None.

Definition core_flags (c : cmd) : Prop :=
  has (c_tflag c) TF_REQUIRE_ACKED = false /\ has (c_eflag c) EF_MILLISECOND = false.

Lemma core_cmd_flags c : core_cmd c -> core_flags c.
Proof. intros (a & b & d & e). split; auto. Qed.

(* ------------------------------------------------------------------ change of one record *)
Record chg1 (s s' : db) (r : ref) (Vnew : view -> Prop) : Prop := mkChg {
  chg_v : forall r' l', aget (store s') r' = Some l' ->
          if r' =? r then Vnew (view_of l') else exists l, aget (store s) r' = Some l /\ view_of l' = view_of l;
  chg_h : forall x, href s' x -> x = r \/ href s x;
  chg_n : next s <= next s'
}.

Lemma tr_chg1 g A s r V n s' :
  tr g A (ovr (base s) r V) n s' -> (forall r' v, r' <> r -> g r' v = v) ->
  (forall x, A x -> x = r \/ href s x) -> next s <= n ->
  chg1 s s' r (fun v => v = g r V).
Proof.
  intros [v h m] Hg HA Hn. split; [|auto|lia].
  intros r' l' H. destruct (v _ _ H) as (v0 & H0 & E0). unfold ovr in H0. destruct (r' =? r) eqn:E.
  - apply N.eqb_eq in E. subst. inv H0. auto.
  - apply N.eqb_neq in E. rewrite Hg in E0; auto. unfold base in H0.
    destruct (aget (store s) r') as [l|]; [|discriminate]. inv H0. exists l. auto.
Qed.

(* same, when r is a record of s *)
Lemma ovr_base_same s r l : aget (store s) r = Some l -> forall r', ovr (base s) r (view_of l) r' = base s r'.
Proof.
  intros H r'. unfold ovr. destruct (r' =? r) eqn:E; auto. apply N.eqb_eq in E. subst. unfold base. rewrite H. auto.
Qed.

Lemma tr_base_ovr g A s r l n s' : aget (store s) r = Some l -> tr g A (base s) n s' -> tr g A (ovr (base s) r (view_of l)) n s'.
Proof.
  intros Hl [v h m]. split; auto. intros r' l' H. destruct (v _ _ H) as (v0 & H0 & E0). exists v0.
  rewrite ovr_base_same; auto.
Qed.

Lemma keep_chg1 s s' r : keep s s' ->
  chg1 s s' r (fun v => exists l, aget (store s) r = Some l /\ v = view_of l).
Proof.
  intros [v h n]. split; auto. intros r' l' H. destruct (v _ _ H) as (l & Hl & E). unfold idg in E.
  destruct (r' =? r) eqn:Er; eauto. apply N.eqb_eq in Er. subst. eauto.
Qed.

Lemma chg1_weaken s s' r (V V' : view -> Prop) : (forall v, V v -> V' v) -> chg1 s s' r V -> chg1 s s' r V'.
Proof.
  intros HV [v h n]. split; auto. intros r' l' H. specialize (v _ _ H). destruct (r' =? r); auto.
Qed.

Lemma chg1_keep s s1 s' r V : chg1 s s1 r V -> keep s1 s' -> chg1 s s' r V.
Proof.
  intros [v h n] [v' h' n']. split; [|auto|lia].
  intros r' l' H. destruct (v' _ _ H) as (l1 & H1 & E1). unfold idg in E1. specialize (v _ _ H1).
  rewrite E1. auto.
Qed.

Lemma keep_chg1_l s s1 s' r V : keep s s1 -> chg1 s1 s' r V -> (forall v, V v -> True) ->
  (forall r' l', aget (store s') r' = Some l' -> r' <> r -> exists l, aget (store s) r' = Some l /\ view_of l' = view_of l)
  /\ (forall x, href s' x -> x = r \/ href s x) /\ next s <= next s'.
Proof.
  intros [v h n] [v' h' n'] _. split; [|split]; [| |lia].
  - intros r' l' H Hr. specialize (v' _ _ H). apply N.eqb_neq in Hr. rewrite Hr in v'.
    destruct v' as (l1 & H1 & E1). destruct (v _ _ H1) as (l0 & H0 & E0). exists l0. unfold idg in *. split; congruence.
  - intros x Hx. destruct (h' _ Hx); auto.
Qed.

(* extended keep tactic: also steps over helper calls whose result was named by an equation *)
Lemma process_data_keep1 s k r c b s' ev : process_data s k r c b = (s', ev) -> keep s s'.
Proof. intros H. apply process_data_keep in H. tauto. Qed.
Lemma process_data_norep s k r c b s' ev : process_data s k r c b = (s', ev) -> rinfos ev = [].
Proof. intros H. apply process_data_keep in H. apply rinfos_noreply. tauto. Qed.
Lemma push_lock_aof_norep s k r f s' ev : push_lock_aof s k r f = (s', ev) -> rinfos ev = [].
Proof. intros H. apply rinfos_noreply. eapply push_lock_aof_noreply; eauto. Qed.
Lemma push_unlock_aof_norep s k r lc uc b f s' ev : push_unlock_aof s k r lc uc b f = (s', ev) -> rinfos ev = [].
Proof. intros H. apply rinfos_noreply. eapply push_unlock_aof_noreply; eauto. Qed.

Ltac keep_eq :=
  match goal with
  | |- keep _ ?s' => is_var s';
      eapply keep_trans;
      [| first [ eapply process_data_keep1; eassumption
               | eapply push_lock_aof_keep; eassumption
               | eapply push_unlock_aof_keep; eassumption
               | eapply get_wait_lock_keep; eassumption ] ]
  end.
Ltac keep_x := repeat first [ keep_r1 | keep_eq | (eapply keep_trans; [|apply keep_setm_new])
                            | match goal with |- keep _ (if ?b then _ else _) => destruct b end
                            | match goal with |- keep _ (remove_long_timeout _ _) => eapply keep_trans; [|apply remove_long_timeout_keep] end
                            | match goal with |- keep _ (remove_long_expried _ _ _) => eapply keep_trans; [|apply remove_long_expried_keep] end ].

(* no-reply bookkeeping: normalise `rinfos (a ++ b ++ ...)` using the equations in the context *)
Ltac norep1 :=
  repeat rewrite rinfos_app;
  repeat match goal with
  | H : process_data _ _ _ _ _ = (_, ?ev) |- context [rinfos ?ev] => rewrite (process_data_norep _ _ _ _ _ _ _ H)
  | H : push_lock_aof _ _ _ _ = (_, ?ev) |- context [rinfos ?ev] => rewrite (push_lock_aof_norep _ _ _ _ _ _ H)
  | H : push_unlock_aof _ _ _ _ _ _ _ = (_, ?ev) |- context [rinfos ?ev] => rewrite (push_unlock_aof_norep _ _ _ _ _ _ _ _ _ H)
  end;
  cbn [rinfos rinfo_of reply app].
Ltac norep := repeat (progress norep1).

Ltac injs := repeat match goal with
  | H : (_, _) = (_, _) |- _ => inv H
  | H : inl _ = inl _ |- _ => inv H
  | H : inr _ = inr _ |- _ => inv H
  | H : inl _ = inr _ |- _ => discriminate H
  | H : inr _ = inl _ |- _ => discriminate H
  | H : Some _ = Some _ |- _ => inv H
  | H : Some _ = None |- _ => discriminate H
  | H : None = Some _ |- _ => discriminate H
  end.
Ltac brk := repeat first
  [ progress injs
  | match goal with H : (let '(_, _) := ?t in _) = _ |- _ => destruct t as [? ?] eqn:? end
  | match goal with H : (if ?b then _ else _) = _ |- _ => destruct b eqn:? end
  | match goal with H : (match ?x with _ => _ end) = _ |- _ => destruct x eqn:? end
  | match goal with H : (let _ := _ in _) = _ |- _ => progress cbv beta zeta in H end ].
Ltac at_ref_off := intros ? ? Hne; unfold at_ref; apply N.eqb_neq in Hne; rewrite ?Hne; reflexivity.

(* ------------------------------------------------------------------ wakeUpWaitLock: one grant *)
Lemma add_expried_norep s k r s' ev : add_expried s k r = (s', ev) -> rinfos ev = [].
Proof. intros H. destruct (add_expried_tr _ _ _ _ _ _ _ _ _ H (tr_refl _)) as [_ R]. apply rinfos_noreply; auto. Qed.

Ltac norep2 := norep; repeat match goal with
  | H : add_expried _ _ _ = (_, ?ev) |- context [rinfos ?ev] => rewrite (add_expried_norep _ _ _ _ _ H) end; norep.

Lemma wake_grant_rinfos s k r via s' ev :
  wake_grant s k r via = (s', ev) ->
  rinfos ev = [] \/ rinfos ev = [(l_conn (getl s r), c_req (l_cmd (getl s r)), R_SUCCED)].
Proof.
  unfold wake_grant. intros H. brk; norep2; auto.
Qed.

Lemma wake_grant_sum s k r via s' ev :
  wake_grant s k r via = (s', ev) -> l_timeouted (getl s r) = false -> core_flags (l_cmd (getl s r)) ->
  chg1 s s' r (fun v => v_cmd v = l_cmd (getl s r) /\ v_conn v = l_conn (getl s r) /\ v_to v = true)
  /\ rinfos ev = [(l_conn (getl s r), c_req (l_cmd (getl s r)), R_SUCCED)].
Proof.
  intros H Hlive [Hack Hms].
  assert (Hin := getl_live_in_store _ _ Hlive). set (l := getl s r) in *.
  unfold wake_grant in H. fold l in H. rewrite Hack in H. cbn [andb] in H.
  set (s1 := updl s r (fun l => l <| l_timeouted := true |>)) in *.
  assert (T1 : tr (at_ref idg r (set_to true)) (href s) (base s) (next s) s1)
    by (subst s1; apply tr_updl; [intros; reflexivity|apply tr_refl]).
  assert (P1 : present s1 r) by (subst s1; apply present_updl; unfold present; congruence).
  clearbody s1.
  set (s2 := if l_long l then remove_long_timeout s1 r else s1) in *.
  assert (T2 : tr (at_ref idg r (set_to true)) (href s) (base s) (next s) s2)
    by (subst s2; destruct (l_long l); auto; eapply tr_keep; [apply remove_long_timeout_keep|auto]).
  assert (P2 : present s2 r) by (subst s2; destruct (l_long l); auto; apply remove_long_timeout_present; auto).
  clearbody s2. clear T1 P1 s1.
  assert (Hb : base s r = Some (view_of l)) by (unfold base; rewrite Hin; reflexivity).
  assert (FIN : forall g A s', tr g A (base s) (next s) s' -> (forall r' v, r' <> r -> g r' v = v) ->
                 (forall x, A x -> x = r \/ href s x) -> chg1 s s' r (fun v => v = g r (view_of l))).
  { intros g A s'' T Hg HA. eapply tr_chg1; [apply tr_base_ovr; eauto|auto|auto|lia]. }
  assert (T3 := add_lock_tr _ _ _ _ _ k r _ T2 Hb ltac:(intros Habs; exfalso; apply P2; auto)).
  destruct (0 <? c_expried (l_cmd l)) eqn:Hexp.
  - rewrite Hms in H. brk.
    all: split; [|norep2; reflexivity].
    all: match goal with HE : add_expried ?d _ _ = _ |- _ =>
           assert (T4 : tr (at_ref idg r (set_to true)) (addA (href s) r) (base s) (next s) d)
             by (eapply tr_keep; [|exact T3]; keep_x);
           destruct (add_expried_tr _ _ _ _ _ _ _ _ _ HE T4) as [T5 _] end.
    all: eapply chg1_weaken; [|eapply FIN; [eapply tr_keep; [|exact T5]; keep_x| |]];
      [ intros v ->; unfold at_ref; rewrite N.eqb_refl; cbn; auto | at_ref_off | intros x [->|Hx]; auto ].
  - brk.
    all: split; [|norep2; reflexivity].
    all: eapply chg1_weaken; [|eapply FIN; [eapply tr_keep; [|exact T2]; keep_x| |]];
      [ intros v ->; unfold at_ref; rewrite N.eqb_refl; cbn; auto | at_ref_off | auto ].
Qed.

(* ------------------------------------------------------------------ doTimeOut *)
Lemma tr_to_chg1 g A s r l s' :
  aget (store s) r = Some l -> tr g A (base s) (next s) s' -> (forall r' v, r' <> r -> g r' v = v) ->
  (forall x, A x -> x = r \/ href s x) -> chg1 s s' r (fun v => v = g r (view_of l)).
Proof. intros Hl T Hg HA. eapply tr_chg1; [apply tr_base_ovr; eauto|auto|auto|lia]. Qed.

Lemma do_timeout_sum s r s' ev w :
  do_timeout s r = (s', ev, w) ->
  (keep s s' /\ rinfos ev = [])
  \/ (exists l, aget (store s) r = Some l /\ l_timeouted l = false
       /\ chg1 s s' r (fun v => v = set_to true (view_of l))
       /\ rinfos ev = [(l_conn l, c_req (l_cmd l), R_TIMEOUT)]).
Proof.
  unfold do_timeout. intros H. destruct (aget (store s) r) as [l|] eqn:Hl; [|inv H; left; split; [apply keep_refl|reflexivity]].
  destruct (l_timeouted l) eqn:Hto.
  - inv H. left. split; [|reflexivity]. keep_x.
  - right. exists l. split; auto. split; auto.
    set (s1 := updl s r (fun l => l <| l_timeouted := true |>)) in *.
    assert (T1 : tr (at_ref idg r (set_to true)) (href s) (base s) (next s) s1)
      by (subst s1; apply tr_updl; [intros; reflexivity|apply tr_refl]).
    clearbody s1.
    brk. all: split; [|norep2; reflexivity].
    all: eapply chg1_weaken; [|eapply tr_to_chg1; [eassumption|eapply tr_keep; [|exact T1]; keep_x| |]];
      [ intros v ->; unfold at_ref; rewrite N.eqb_refl; reflexivity | at_ref_off | auto ].
Qed.

(* ------------------------------------------------------------------ doExpried *)
Lemma do_expried_sum s r s' ev w :
  do_expried s r = (s', ev, w) ->
  (keep s s' /\ rinfos ev = [])
  \/ (exists l, aget (store s) r = Some l /\ l_expried l = false
       /\ chg1 s s' r (fun v => v = set_ex true (view_of l))
       /\ rinfos ev = [(l_conn l, c_req (l_cmd l), R_EXPRIED)]).
Proof.
  unfold do_expried. intros H. destruct (aget (store s) r) as [l|] eqn:Hl; [|inv H; left; split; [apply keep_refl|reflexivity]].
  destruct (l_expried l) eqn:Hex.
  - inv H. left. split; [|reflexivity]. keep_x.
  - destruct (negb (leader s) && l_isaof l && _).
    + left. brk. match goal with HE : add_expried _ _ _ = _ |- _ => apply add_expried_keep in HE; [destruct HE as [K R]|] end.
      * split; [|apply rinfos_noreply; auto]. eapply keep_trans; [|exact K]. keep_x.
      * unfold getl. rewrite aget_store_updl, N.eqb_refl, Hl. cbn. exact Hex.
    + right. exists l. split; auto. split; auto.
      set (s1 := updl s r (fun l => l <| l_expried := true |>)) in *.
      assert (T1 : tr (at_ref idg r (set_ex true)) (href s) (base s) (next s) s1)
        by (subst s1; apply tr_updl; [intros; reflexivity|apply tr_refl]).
      clearbody s1.
      brk. all: split; [|norep2; reflexivity].
      all: eapply chg1_weaken; [|eapply tr_to_chg1; [eassumption|eapply tr_keep; [|exact T1]; keep_x| |]];
        [ intros v ->; unfold at_ref; rewrite N.eqb_refl; reflexivity | at_ref_off | auto ].
Qed.

(* ------------------------------------------------------------------ weaker frame: a hold may additionally be marked released *)
Definition vle (v' v : view) : Prop :=
  v_cmd v' = v_cmd v /\ v_conn v' = v_conn v /\ v_to v' = v_to v /\ (v_ex v' = v_ex v \/ v_ex v' = true).

Record keepx (s s' : db) : Prop := mkKeepx {
  keepx_v : forall r l', aget (store s') r = Some l' -> exists l, aget (store s) r = Some l /\ vle (view_of l') (view_of l);
  keepx_h : forall r, href s' r -> href s r;
  keepx_n : next s <= next s'
}.

Lemma vle_refl v : vle v v. Proof. unfold vle. auto. Qed.

Lemma keep_keepx s s' : keep s s' -> keepx s s'.
Proof.
  intros [v h n]. split; auto. intros r l' H. destruct (v _ _ H) as (l & Hl & E). exists l. split; auto.
  unfold idg in E. rewrite E. apply vle_refl.
Qed.

Lemma tr_keepx g s s' : tr g (href s) (base s) (next s) s' -> (forall r v, vle (g r v) v) -> keepx s s'.
Proof.
  intros [v h n] Hg. split; auto. intros r l' H. destruct (v _ _ H) as (v0 & H0 & E). unfold base in H0.
  destruct (aget (store s) r) as [l|]; [|discriminate]. inv H0. exists l. split; auto. rewrite E. apply Hg.
Qed.

Lemma vle_at_ex r r' v : vle (at_ref idg r (set_ex true) r' v) v.
Proof. unfold at_ref, idg. destruct (r' =? r); [|apply vle_refl]. unfold vle, set_ex; cbn. auto. Qed.

(* ------------------------------------------------------------------ cancelWaitLock *)
Lemma find_last_waiter_spec s lockid items : forall acc r,
  find_last_waiter s items lockid acc = Some r ->
  acc = Some r \/ (In r items /\ l_timeouted (getl s r) = false /\ c_lockid (l_cmd (getl s r)) = lockid).
Proof.
  induction items as [|x rest IH]; cbn; intros acc r H; auto.
  destruct (negb (l_timeouted (getl s x)) && (c_lockid (l_cmd (getl s x)) =? lockid)) eqn:B.
  - apply IH in H. destruct H as [H|(Hi & Ht & Hc)]; [|right; auto]. inv H. right.
    apply andb_true_iff in B. destruct B as [B1 B2]. apply negb_true_iff in B1. apply N.eqb_eq in B2. auto.
  - apply IH in H. destruct H as [H|(Hi & Ht & Hc)]; auto.
Qed.

Definition waiting_in (s : db) (k : N) (r : ref) : Prop :=
  exists q, m_wait (getm s k) = Some q /\ In r (wq_items q).

Definition cancel_target (s : db) (c : cmd) : option ref :=
  match m_wait (getm s (c_key c)) with Some q => find_last_waiter s (wq_items q) (c_lockid c) None | None => None end.

Lemma cancel_wait_lock_sum s conn c s' ev w :
  cancel_wait_lock s conn c = (s', ev, w) ->
  (keep s s' /\ rinfos ev = [(conn, c_req c, R_UNLOCK_ERROR)])
  \/ (exists r l, aget (store s) r = Some l /\ l_timeouted l = false /\ (waiting_in s (c_key c) r /\ cancel_target s c = Some r)
       /\ c_lockid (l_cmd l) = c_lockid c
       /\ chg1 s s' r (fun v => v = set_to true (view_of l))
       /\ rinfos ev = [(conn, c_req c, R_LOCKED_ERROR); (l_conn l, c_req (l_cmd l), R_UNLOCK_ERROR)]).
Proof.
  unfold cancel_wait_lock. intros H.
  match type of H with context [match ?x with Some r => _ | None => _ end = _] => destruct x as [r|] eqn:Hw end.
  2:{ inv H. left. split; [keep_x|reflexivity]. }
  right.
  assert (W : (waiting_in s (c_key c) r /\ cancel_target s c = Some r) /\ l_timeouted (getl s r) = false /\ c_lockid (l_cmd (getl s r)) = c_lockid c).
  { assert (Hw0 := Hw). destruct (m_wait (getm s (c_key c))) as [q|] eqn:Eq; [|discriminate].
    apply find_last_waiter_spec in Hw. destruct Hw as [Hw|(Hi & Ht & Hc)]; [discriminate|].
    split; auto. split; [exists q; auto|]. unfold cancel_target. rewrite Eq. exact Hw0. }
  destruct W as (W1 & W2 & W3).
  assert (Hl := getl_live_in_store _ _ W2). set (l := getl s r) in *.
  exists r, l. split; auto. split; auto. split; auto. split; auto.
  set (s1 := updl s r (fun l => l <| l_timeouted := true |>)) in *.
  assert (T1 : tr (at_ref idg r (set_to true)) (href s) (base s) (next s) s1)
    by (subst s1; apply tr_updl; [intros; reflexivity|apply tr_refl]).
  clearbody s1.
  brk. all: split; [|norep2; reflexivity].
  all: eapply chg1_weaken; [|eapply tr_to_chg1; [eassumption|eapply tr_keep; [|exact T1]; keep_x| |]];
    [ intros v ->; unfold at_ref; rewrite N.eqb_refl; reflexivity | at_ref_off | auto ].
Qed.

(* ------------------------------------------------------------------ UnLock *)
Lemma release_hold_sum s k conn c r depth s' ev :
  release_hold s k conn c r depth = (s', ev) -> keepx s s' /\ rinfos ev = [(conn, c_req c, R_SUCCED)].
Proof.
  unfold release_hold. intros H.
  set (s1 := updl s r (fun l => l <| l_expried := true |>)) in *.
  assert (T1 : tr (at_ref idg r (set_ex true)) (href s) (base s) (next s) s1)
    by (subst s1; apply tr_updl; [intros; reflexivity|apply tr_refl]).
  clearbody s1.
  brk. all: split; [|norep2; reflexivity].
  all: eapply tr_keepx; [eapply tr_keep; [|exact T1]; keep_x|apply vle_at_ex].
Qed.

Lemma vle_trans a b c : vle a b -> vle b c -> vle a c.
Proof. unfold vle. intros (a1 & a2 & a3 & a4) (b1 & b2 & b3 & b4). repeat split; try congruence. destruct a4 as [a4|a4], b4 as [b4|b4]; [left|right|right|right]; congruence. Qed.

Lemma keepx_trans s1 s2 s3 : keepx s1 s2 -> keepx s2 s3 -> keepx s1 s3.
Proof.
  intros [v1 h1 n1] [v2 h2 n2]. split; [|auto|lia].
  intros r l3 H3. destruct (v2 _ _ H3) as (l2 & H2 & E2). destruct (v1 _ _ H2) as (l1 & H1 & E1).
  exists l1. split; auto. eapply vle_trans; eauto.
Qed.

Ltac neq_res := let X := fresh in intro X; vm_compute in X; discriminate X.

Lemma unlock_step_sum s conn c s' ev w :
  unlock_step s conn c = (s', ev, w) ->
  (exists res, keepx s s' /\ rinfos ev = [(conn, c_req c, res)] /\ res <> R_EXPRIED)
  \/ (exists r l, aget (store s) r = Some l /\ l_timeouted l = false /\ (waiting_in s (c_key c) r /\ cancel_target s c = Some r)
       /\ c_lockid (l_cmd l) = c_lockid c
       /\ chg1 s s' r (fun v => v = set_to true (view_of l))
       /\ rinfos ev = [(conn, c_req c, R_LOCKED_ERROR); (l_conn l, c_req (l_cmd l), R_UNLOCK_ERROR)]).
Proof.
  intros H. unfold unlock_step in H. cbv beta zeta in H.
  brk.
  all: try match goal with HC : cancel_wait_lock _ _ _ = _ |- _ =>
         apply cancel_wait_lock_sum in HC; destruct HC as [[K R]|HC]; [left|right; exact HC];
         eexists; split; [apply keep_keepx; exact K|split; [exact R|neq_res]] end.
  all: try match goal with HR : release_hold _ _ _ _ _ _ = _ |- _ =>
         apply release_hold_sum in HR; destruct HR as [K R]; left; eexists; split;
         [ eapply keepx_trans; [apply keep_keepx|exact K]; keep_x | split; [exact R|neq_res]] end.
  all: left; eexists; (split; [apply keep_keepx; keep_x|split; [norep2; reflexivity|neq_res]]).
Qed.

(* ------------------------------------------------------------------ Lock: building blocks *)
Lemma process_data_nodata s k r c b : c_data c = None -> process_data s k r c b = (s, []).
Proof. unfold process_data. intros ->. reflexivity. Qed.

Lemma find_locked_in s id items : forall r, find_locked s items id = Some r -> In r items.
Proof.
  induction items as [|x rest IH]; cbn; intros r H; [discriminate|].
  destruct (_ && _); [inv H; auto|right; auto].
Qed.

Lemma get_locked_lock_href s m id r : get_locked_lock s m id = Some r -> href_m m r.
Proof.
  unfold get_locked_lock. destruct (m_cur m) as [c|] eqn:Ec; [|discriminate].
  destruct (_ =? id); [intros H; inv H; left; auto|].
  destruct (m_locks m) as [q|] eqn:Eq; [|discriminate]. intros H. right. exists q. split; auto.
  unfold hq_getlock in H. unfold hrefs_q. destruct (find_locked s (hq_fast q) id) as [x|] eqn:Ef.
  - inv H. apply in_app_iff. left. eapply find_locked_in; eauto.
  - destruct (hq_scale q) as [[items mp]|]; [|discriminate]. apply in_app_iff. right. apply in_app_iff. right.
    apply aget_In in H. apply in_map_iff. exists (id, r). auto.
Qed.

Lemma free_lock_absent s r : aget (store (free_lock s r)) r = None.
Proof.
  unfold free_lock. destruct (aget (store s) r) eqn:E; auto.
  rewrite store_updm. cbn [store]. change (aget (adel (store s) r) r = None). apply aget_adel_same.
Qed.

Lemma tr_free g A bv n s r :
  tr g A bv n s -> tr g A (fun r' => if r' =? r then None else bv r') n (free_lock s r).
Proof.
  intros T. destruct (tr_keep _ _ _ _ _ _ (free_lock_keep s r) T) as [v h m]. split; auto.
  intros r' l' H. destruct (r' =? r) eqn:E.
  - apply N.eqb_eq in E. subst. rewrite free_lock_absent in H. discriminate.
  - auto.
Qed.

Lemma tr_minus_keep s r V n s' :
  tr idg (href s) (fun r' => if r' =? r then None else ovr (base s) r V r') n s' -> next s <= n -> keep s s'.
Proof.
  intros [v h m] Hn. split; auto; [|lia].
  intros r' l' H. destruct (v _ _ H) as (v0 & H0 & E0). unfold ovr in H0. destruct (r' =? r); [discriminate|].
  unfold base in H0. destruct (aget (store s) r') as [l|]; [|discriminate]. inv H0. exists l. auto.
Qed.

Lemma new_free_keep s0 k conn c' s1 r X s' :
  new_lock s0 k conn c' = (s1, r) -> keep s1 X -> keep (free_lock X r) s' -> keep s0 s'.
Proof.
  intros Hn K1 K2. destruct (new_lock_tr _ _ _ _ _ _ Hn) as (_ & T & _).
  eapply tr_minus_keep with (n := next s0 + 1); [|lia].
  eapply tr_keep; [exact K2|]. apply tr_free. eapply tr_keep; [exact K1|exact T].
Qed.

Lemma chg1_pre s s0 s' r V : keep s s0 -> chg1 s0 s' r V -> chg1 s s' r V.
Proof.
  intros [v h n] [v' h' n']. split; [| |lia].
  - intros r' l' H. specialize (v' _ _ H). destruct (r' =? r); auto.
    destruct v' as (l0 & H0 & E0). destruct (v _ _ H0) as (l1 & H1 & E1). exists l1. unfold idg in E1. split; congruence.
  - intros x Hx. destruct (h' _ Hx); auto.
Qed.

Lemma new_hold_chg s0 k conn c' s1 r f X Y aev s' :
  new_lock s0 k conn c' = (s1, r) ->
  (forall m x, href_m (f m) x -> href_m m x) ->
  keep (updm (add_lock s1 k r) k f) X -> add_expried X k r = (Y, aev) -> keep Y s' ->
  (r = next s0 /\ r < next s') /\ chg1 s0 s' r (fun v => v = (c', conn, true, false)) /\ rinfos aev = [].
Proof.
  intros Hn Hf K1 He K2. destruct (new_lock_tr _ _ _ _ _ _ Hn) as (Hr & T & P & _).
  assert (Hb : ovr (base s0) r (c', conn, true, true) r = Some (c', conn, true, true))
    by (unfold ovr; rewrite N.eqb_refl; auto).
  assert (T1 := add_lock_tr _ _ _ _ _ k r _ T Hb ltac:(intros Habs; exfalso; apply P; auto)).
  assert (T2 : tr idg (addA (href s0) r) (ovr (base s0) r (c', conn, true, true)) (next s0 + 1) X).
  { eapply tr_keep; [exact K1|]. eapply tr_keep; [apply keep_updm; exact Hf|exact T1]. }
  destruct (add_expried_tr _ _ _ _ _ _ _ _ _ He T2) as [T3 R].
  assert (T4 := tr_keep _ _ _ _ _ _ K2 T3).
  split; [split; auto; assert (N4 := tr_n _ _ _ _ _ T4); lia|].
  split; [|apply rinfos_noreply; auto].
  eapply chg1_weaken; [|eapply tr_chg1; [exact T4| | |lia]].
  - intros v ->. unfold at_ref. rewrite N.eqb_refl. reflexivity.
  - at_ref_off.
  - intros x [->|Hx]; auto.
Qed.

Lemma new_wait_chg s0 k conn c' s1 r s' :
  new_lock s0 k conn c' = (s1, r) -> keep (add_timeout (add_wait_lock s1 k r) r) s' ->
  (r = next s0 /\ r < next s') /\ chg1 s0 s' r (fun v => v = (c', conn, false, true)) /\ (forall x, href s' x -> href s0 x).
Proof.
  intros Hn K. destruct (new_lock_tr _ _ _ _ _ _ Hn) as (Hr & T & P & _).
  assert (T1 : tr (at_ref idg r (set_to false)) (href s0) (ovr (base s0) r (c', conn, true, true)) (next s0 + 1) s').
  { eapply tr_keep; [exact K|]. apply add_timeout_tr. eapply tr_keep; [apply add_wait_lock_keep|exact T]. }
  split; [split; auto; assert (N1 := tr_n _ _ _ _ _ T1); lia|].
  split; [|apply (tr_h _ _ _ _ _ T1)].
  eapply chg1_weaken; [|eapply tr_chg1; [exact T1| | |lia]].
  - intros v ->. unfold at_ref. rewrite N.eqb_refl. reflexivity.
  - at_ref_off.
  - auto.
Qed.

Lemma update_and_rearm_tr g A bv n s k r c s' ev v0 :
  update_and_rearm s k r c = (s', ev) -> tr g A bv n s -> bv r = Some v0 ->
  (aget (store s) r = None -> g r v0 = view_of dummy_lock) ->
  exists fv, tr (at_ref g r fv) A bv n s' /\ rinfos ev = []
             /\ (forall v, v_cmd (fv v) = c /\ v_conn (fv v) = v_conn v /\ v_to (fv v) = v_to v).
Proof.
  unfold update_and_rearm. intros H T Hb Hd.
  assert (T1 := update_locked_lock_tr _ _ _ _ _ k r c _ T Hb Hd).
  destruct (l_long (getl s r)).
  - destruct (negb (has (c_eflag c) EF_MILLISECOND)).
    + destruct (negb _).
      * brk. match goal with HE : add_expried _ _ _ = _ |- _ =>
          eapply add_expried_tr in HE; [destruct HE as [T2 R2]|eapply tr_keep; [|exact T1]; keep_x] end.
        exists (fun v => set_ex false (set_cmd c v)). split; [|split; [apply rinfos_noreply; auto|intros v; cbn; auto]].
        eapply tr_ext; [|eapply tr_keep; [|exact T2]; keep_x].
        intros r' v. unfold at_ref. destruct (r' =? r); reflexivity.
      * inv H. exists (set_cmd c). split; [auto|split; [reflexivity|intros v; cbn; auto]].
    + inv H. exists (set_cmd c). split; [auto|split; [reflexivity|intros v; cbn; auto]].
  - inv H. exists (set_cmd c). split; [auto|split; [reflexivity|intros v; cbn; auto]].
Qed.

Lemma update_chg s X k r c1 conn Y aev s' :
  keep s X -> (present s r -> present X r) ->
  update_and_rearm X k r c1 = (Y, aev) -> keep (updl Y r (fun l => l <| l_conn := conn |>)) s' ->
  chg1 s s' r (fun v => v_cmd v = c1 /\ v_conn v = conn /\ v_to v = l_timeouted (getl s r)) /\ rinfos aev = [].
Proof.
  intros K1 P Hu K2.
  assert (T0 := tr_keep _ _ _ _ _ _ K1 (tr_refl_ovr s r)).
  assert (Hb : ovr (base s) r (view_of (getl s r)) r = Some (view_of (getl s r)))
    by (unfold ovr; rewrite N.eqb_refl; auto).
  destruct (update_and_rearm_tr _ _ _ _ _ _ _ _ _ _ _ Hu T0 Hb) as (fv & T1 & R & F).
  { intros Habs. unfold idg. unfold getl. destruct (aget (store s) r) eqn:E; auto.
    exfalso. apply P; auto. unfold present. congruence. }
  split; auto.
  assert (T2 : tr (at_ref (at_ref idg r fv) r (set_conn conn)) (href s) (ovr (base s) r (view_of (getl s r))) (next s) s').
  { eapply tr_keep; [exact K2|]. apply tr_updl; [intros; reflexivity|exact T1]. }
  eapply chg1_weaken; [|eapply tr_chg1; [exact T2| | |lia]].
  - intros v ->. unfold at_ref. rewrite N.eqb_refl. unfold idg. destruct (F (view_of (getl s r))) as (F1 & F2 & F3).
    cbn. split; [|split]; auto.
  - at_ref_off.
  - auto.
Qed.

(* ------------------------------------------------------------------ the queued request sits in the wait queue *)
Definition has_mgr (s : db) (k : N) : Prop := aget (mgrs s) k <> None.

Lemma has_mgr_updm s k f k' : has_mgr s k' -> has_mgr (updm s k f) k'.
Proof.
  unfold has_mgr. rewrite aget_mgrs_updm. destruct (k =? k') eqn:E; auto.
  apply N.eqb_eq in E. subst. destruct (aget (mgrs s) k'); cbn; congruence.
Qed.
Lemma has_mgr_same s s' k : mgrs s' = mgrs s -> has_mgr s k -> has_mgr s' k.
Proof. unfold has_mgr. intros ->. auto. Qed.

Lemma free_lock_has_mgr s r k : has_mgr s k -> has_mgr (free_lock s r) k.
Proof.
  unfold free_lock. destruct (aget (store s) r); auto. intros H. apply has_mgr_updm. exact H.
Qed.

Lemma unref_has_mgr s r k : has_mgr s k -> has_mgr (unref s r) k.
Proof.
  unfold unref. destruct (aget (store s) r); auto. intros H.
  destruct (_ =? 0); [apply free_lock_has_mgr|]; exact H.
Qed.

Lemma wq_compact_has_mgr items k : forall s s' kept, wq_compact s items = (s', kept) -> has_mgr s k -> has_mgr s' k.
Proof.
  induction items as [|r rest IH]; cbn; intros s s' kept H M.
  - inv H. auto.
  - destruct (dead_waiter (getl s r)).
    + eapply IH; eauto. apply unref_has_mgr; auto.
    + destruct (wq_compact s rest) as [s1 k1] eqn:E. inv H. eauto.
Qed.

Lemma prio_insert_in s r p : forall items, In r (prio_insert s items r p).
Proof. induction items as [|x rest IH]; cbn; auto. destruct (_ <? p); cbn; auto. Qed.

Lemma wq_push_spec s q r s' q' k :
  wq_push s q r = (s', q') -> In r (wq_items q') /\ (has_mgr s k -> has_mgr s' k).
Proof.
  unfold wq_push, wq_items. intros H.
  destruct (wq_mode q).
  - destruct (wq_cap q =? 0); [inv H; cbn; auto|].
    destruct (wq_len q <? wq_cap q); [inv H; cbn; split; auto; rewrite !in_app_iff; cbn; auto|].
    destruct (wq_fast q) as [|a rest]; [inv H; cbn; auto|].
    destruct (wq_compact s (a :: rest)) as [s1 kept] eqn:Ec.
    assert (M := wq_compact_has_mgr _ k _ _ _ Ec).
    destruct (_ <? wq_len q); [inv H; cbn; split; auto; rewrite !in_app_iff; cbn; auto|].
    destruct (wq_cap q <=? 128); inv H; cbn; split; auto; rewrite !in_app_iff; cbn; auto.
  - inv H. cbn. split; auto. rewrite !in_app_iff. cbn. auto.
  - inv H. cbn. split; auto. rewrite in_app_iff. right. apply prio_insert_in.
Qed.

Lemma add_wait_lock_waiting s k r : has_mgr s k -> waiting_in (add_wait_lock s k r) k r.
Proof.
  intros M. unfold add_wait_lock.
  match goal with |- context [wq_push s ?q r] => destruct (wq_push s q r) as [s1 q1] eqn:E end.
  destruct (wq_push_spec _ _ _ _ _ k E) as [I M1]. specialize (M1 M).
  unfold waiting_in, getm. rewrite aget_mgrs_updm, N.eqb_refl, mgrs_updl.
  unfold has_mgr in M1. destruct (aget (mgrs s1) k) as [m|]; [|congruence].
  cbn. exists q1. auto.
Qed.

Lemma add_timeout_mgrs s r : mgrs (add_timeout s r) = mgrs s.
Proof.
  unfold add_timeout. destruct (QUEUE_MAX_WAIT <? _); cbn; rewrite ?mgrs_updl; cbn; rewrite ?mgrs_updl; reflexivity.
Qed.

Lemma waiting_in_same s s' k r : mgrs s' = mgrs s -> waiting_in s k r -> waiting_in s' k r.
Proof. unfold waiting_in, getm. intros ->. auto. Qed.

Lemma new_wait_waiting S0 k conn c' s1 r S' :
  new_lock S0 k conn c' = (s1, r) -> has_mgr S0 k -> mgrs S' = mgrs (add_wait_lock s1 k r) -> waiting_in S' k r.
Proof.
  intros Hn M E. eapply waiting_in_same; [exact E|]. apply add_wait_lock_waiting.
  destruct (new_lock_tr _ _ _ _ _ _ Hn) as (_ & _ & _ & _ & _ & _ & Hm).
  eapply has_mgr_same; [exact Hm|]. apply has_mgr_updm. exact M.
Qed.

(* ------------------------------------------------------------------ Lock *)
Lemma getm_bump_setm_new s k f : getm (bump f (setm s k new_mgr)) k = new_mgr.
Proof. unfold getm. change (mgrs (bump f (setm s k new_mgr))) with (aset (mgrs s) k new_mgr). rewrite aget_aset_same. reflexivity. Qed.

Lemma mgrs_bump f s : mgrs (bump f s) = mgrs s. Proof. reflexivity. Qed.

Definition lock_sum (s : db) (conn : N) (c : cmd) (s' : db) (ev : list event) (w : option wake) : Prop :=
  (exists res, keep s s' /\ rinfos ev = [(conn, c_req c, res)] /\ res <> R_EXPRIED)
  \/ (exists r c', (r = next s /\ r < next s') /\ c_req c' = c_req c /\ core_cmd c'
        /\ chg1 s s' r (fun v => v = (c', conn, true, false)) /\ rinfos ev = [(conn, c_req c, R_SUCCED)])
  \/ (exists r c', (r = next s /\ r < next s') /\ c_req c' = c_req c /\ core_cmd c'
        /\ chg1 s s' r (fun v => v = (c', conn, false, true)) /\ (forall x, href s' x -> href s x)
        /\ rinfos ev = [] /\ w = None /\ waiting_in s' (c_key c) r)
  \/ (exists r c' res, href s r /\ c_req c' = c_req c /\ core_cmd c'
        /\ chg1 s s' r (fun v => v_cmd v = c' /\ v_conn v = conn /\ v_to v = l_timeouted (getl s r))
        /\ rinfos ev = [(conn, c_req c, res)] /\ (res = R_SUCCED \/ res = R_LOCKED_ERROR)).

Lemma update_and_rearm_norep s k r c s' ev : update_and_rearm s k r c = (s', ev) -> rinfos ev = [].
Proof.
  intros H.
  assert (Hb : ovr (base s) r (view_of (getl s r)) r = Some (view_of (getl s r)))
    by (unfold ovr; rewrite N.eqb_refl; auto).
  destruct (update_and_rearm_tr _ _ _ _ _ _ _ _ _ _ _ H (tr_refl_ovr s r) Hb) as (fv & _ & R & _); auto.
  intros Habs. unfold idg, getl. rewrite Habs. reflexivity.
Qed.

Lemma update_chg1 s X k r c1 conn Y aev s' :
  keep s X -> (present s r -> present X r) ->
  update_and_rearm X k r c1 = (Y, aev) -> keep (updl Y r (fun l => l <| l_conn := conn |>)) s' ->
  chg1 s s' r (fun v => v_cmd v = c1 /\ v_conn v = conn /\ v_to v = l_timeouted (getl s r)).
Proof. intros. eapply update_chg; eauto. Qed.

Lemma lock_step_sum s conn c s' ev w : lock_step s conn c = (s', ev, w) -> core_cmd c -> lock_sum s conn c s' ev w.
Proof.
  intros H Hcore. assert (Hcore0 := Hcore). destruct Hcore as (Hack & Hms & Hems & Hdata).
  unfold lock_step in H. cbv beta zeta in H.
  set (k := c_key c) in *.
  match type of H with context [if has (c_flag c) LOCK_FLAG_SHOW then ?a else c] =>
    set (c1 := if has (c_flag c) LOCK_FLAG_SHOW then a else c) in H end.
  assert (Hc1 : c_req c1 = c_req c /\ c_tflag c1 = c_tflag c /\ c_eflag c1 = c_eflag c /\ c_data c1 = c_data c
                /\ c_key c1 = c_key c).
  { subst c1. destruct (has (c_flag c) LOCK_FLAG_SHOW); cbn; auto. }
  clearbody c1. destruct Hc1 as (Hreq1 & Htf1 & Hef1 & Hd1 & Hk1).
  assert (Hcore1 : core_cmd c1) by (unfold core_cmd; rewrite Htf1, Hef1, Hd1; auto).
  destruct (aget (mgrs s) k) as [m0|] eqn:Hmgr.
  all: cbv iota in H.
  all: brk.
  all: repeat match goal with HP : process_data _ _ _ _ _ = _ |- _ =>
         rewrite process_data_nodata in HP by congruence; injs end.
  all: try congruence.
  all: try solve [exfalso; match goal with HB : (0 <? m_locked (getm (bump _ (setm _ _ new_mgr)) _)) = true |- _ =>
         rewrite getm_bump_setm_new in HB; vm_compute in HB; discriminate HB end].
  all: try solve [exfalso; rewrite ?Htf1 in *; rewrite ?Hef1 in *;
         repeat match goal with HB : _ && _ = true |- _ => apply andb_true_iff in HB; destruct HB end; congruence].
  (* A: no record *)
  all: try solve [left; eexists; split; [keep_x|split; [norep2; cbn; rewrite ?Hreq1; reflexivity|neq_res]]].
  (* A': record created and freed *)
  all: try solve [left; eexists; split;
         [eapply keep_trans; [|eapply new_free_keep; [eassumption| |keep_x]; keep_x]; keep_x
         |split; [norep2; cbn; rewrite ?Hreq1; reflexivity|neq_res]]].
  (* B2: update / re-lock *)
  all: try solve [
    match goal with HG : get_locked_lock _ _ _ = Some ?r, HU : update_and_rearm _ _ ?r ?c0 = (_, ?aev) |- _ =>
      right; right; right; exists r, c0; eexists;
      split; [apply (getm_href _ k); eapply get_locked_lock_href; eassumption|];
      split; [exact Hreq1|]; split; [exact Hcore1|];
      assert (HR := update_and_rearm_norep _ _ _ _ _ _ HU);
      split; [eapply update_chg1; [ | |eassumption| ]; [keep_x | intros; repeat first [apply present_updl | apply present_updm]; assumption | keep_x]
             |split; [norep2; rewrite HR; cbn; rewrite ?Hreq1; reflexivity|auto]]
    end].
  (* B1: new hold *)
  all: try solve [
    assert (Hf : forall (m : mgr) (x : ref), href_m ((fun m => m <| m_locked := add32 (m_locked m) 1 |>) m) x -> href_m m x)
      by (intros ? ? HH; exact HH);
    match goal with Hn : new_lock ?S0 ?k' ?conn' ?c' = (?s1, ?r), HE : add_expried ?X _ ?r = (?Y, ?aev) |- lock_sum _ _ _ ?S' _ _ =>
      assert (K1 : keep (updm (add_lock s1 k' r) k' (fun m => m <| m_locked := add32 (m_locked m) 1 |>)) X) by apply keep_refl;
      assert (K2 : keep Y S') by keep_x;
      destruct (new_hold_chg S0 k' conn' c' s1 r _ X Y aev S' Hn Hf K1 HE K2) as ((Hr & Hlt) & Hc & Hrn);
      right; left; exists r, c'; split; [split; [rewrite Hr; reflexivity|exact Hlt]|];
      split; [first [exact Hreq1|reflexivity]|]; split; [assumption|];
      split; [eapply chg1_pre; [|exact Hc]; keep_x|norep2; rewrite ?Hrn; cbn; rewrite ?Hreq1; reflexivity]
    end].
  (* C: queued *)
  all: try solve [
    match goal with Hn : new_lock ?S0 ?k' ?conn' ?c' = (?s1, ?r) |- lock_sum _ _ _ ?S' _ _ =>
      destruct (new_wait_chg S0 k' conn' c' s1 r S' Hn ltac:(keep_x)) as ((Hr & Hlt) & Hc & Hh);
      right; right; left; exists r, c'; split; [split; [rewrite Hr; reflexivity|exact Hlt]|];
      split; [first [exact Hreq1|reflexivity]|]; split; [assumption|];
      split; [eapply chg1_pre; [|exact Hc]; keep_x|];
      split; [intros x Hx; apply Hh in Hx; revert Hx; apply keep_h; keep_x|];
      split; [reflexivity|]; split; [reflexivity|];
      eapply new_wait_waiting; [exact Hn| |rewrite mgrs_bump, mgrs_updl, add_timeout_mgrs; reflexivity];
      first [ unfold has_mgr; fold k; rewrite Hmgr; discriminate
            | unfold has_mgr; fold k; change (aget (aset (mgrs s) k new_mgr) k <> None); rewrite aget_aset_same; discriminate ]
    end].
Qed.
