(* Timer theorems, part 10: a live waiter's deadline, command, queueing time and connection never change, and live
   waiters are only created by the queueing exit of Lock (used for the history form of C05 a, and for C05 d). *)
From Coq Require Import String ZifyN ZifyBool ZifyNat.
From Slock Require Import Engine.Types Engine.Queues Engine.Timers Engine.Engine Engine.Engine2.
From Slock Require Import Engine.TimeBase Engine.TimeFrame Engine.TimeStep Engine.TimeWheel Engine.TimeInv Engine.TimeRun.
Open Scope N_scope.

Ltac Zify.zify_post_hook ::= Z.div_mod_to_equations.

Definition lmono (s s' : db) : Prop :=
  next s <= next s' /\ forall r l', tlive s' r l' -> exists l, tlive s r l /\ tsame l l'.

Lemma lmono_refl s : lmono s s.
Proof. split; [lia|]. intros r l LV. exists l. split; auto. Qed.

Lemma lmono_trans a b c : lmono a b -> lmono b c -> lmono a c.
Proof.
  intros [NA A] [NB B]. split; [lia|]. intros r l' LV. destruct (B r l' LV) as (l1 & L1 & S1). destruct (A r l1 L1) as (l0 & L0 & S0).
  exists l0. split; auto. eapply tsame_trans; eauto.
Qed.

Lemma lmono_frame C s s' : tframe C s s' -> lmono s s'.
Proof.
  intros F. split; [apply (tf_next _ _ _ F)|].
  intros r l' [G L]. destruct (tf_live _ _ _ F r l' G L) as (l & A & B & S & _). exists l. split; [split|]; auto.
Qed.

Lemma lmono_store s s' : store s' = store s -> next s' = next s -> lmono s s'.
Proof. intros E N. split; [lia|]. intros r l [G L]. rewrite E in G. exists l. split; [split|]; auto. Qed.

Lemma add_timeout_lmono s r l : tlive s r l -> (checkT s <= l_tT l)%Z -> lmono s (add_timeout s r).
Proof.
  intros [G LV] CT. split; [rewrite (sb_next _ _ (add_timeout_same s r)); lia|]. intros x lx [Gx Lx].
  destruct (QUEUE_MAX_WAIT <? l_tcc l) eqn:T.
  - destruct (add_timeout_long s r l G T) as (_ & _ & ST). cbv zeta in ST.
    assert ((l_tT l <? checkT s)%Z = false) as E by (apply Z.ltb_ge; auto). rewrite E in ST.
    rewrite ST in Gx. destruct (r =? x) eqn:EQ.
    + apply N.eqb_eq in EQ; subst x. injection Gx as <-. exists l. split; [split; auto|]. unfold tsame; cbn; intuition.
    + exists lx. split; [split|]; auto.
  - destruct (add_timeout_short s r l G T) as (_ & _ & ST).
    rewrite ST in Gx. destruct (r =? x) eqn:EQ.
    + apply N.eqb_eq in EQ; subst x. injection Gx as <-. exists l. split; [split; auto|]. unfold tsame; cbn; intuition.
    + exists lx. split; [split|]; auto.
Qed.

Lemma sweep_t_slot_lmono nowv slot : forall fuel s due,
  checkT s = (nowv + 1)%Z -> lmono s (fst (sweep_t_slot fuel s slot nowv due)).
Proof.
  induction fuel as [|f IH]; intros s due CK; cbn [sweep_t_slot]; [apply lmono_refl|].
  destruct (wheel_get (twheel s) slot) as [|r rest]; [apply lmono_refl|].
  set (s1 := s <| twheel := aset (twheel s) slot rest |>).
  assert (lmono s s1) as M1 by (apply lmono_store; reflexivity).
  change (getl s1 r) with (getl s r). change (store s1) with (store s).
  destruct (aget (store s) r) as [l|] eqn:G; [|exact M1].
  rewrite (getl_some _ _ _ G). cbv iota.
  destruct (l_timeouted l) eqn:LV; cbn [negb].
  - pose proof (tframe_unref_mgr core_cmd s1 r (l_key l)) as F. cbv zeta in F.
    eapply lmono_trans; [exact M1|]. eapply lmono_trans; [eapply lmono_frame; exact F|].
    apply IH. rewrite (tf_checkT _ _ _ F). exact CK.
  - destruct (nowv <? l_tT l)%Z eqn:LT.
    + apply Z.ltb_lt in LT.
      set (s2 := updl s1 r (fun l0 => l0 <| l_tcc := (l_tcc l0 + 1) mod 256 |>)).
      assert (cframe s1 s2) as F2 by (apply tframe_updl; updl_side).
      set (l2 := l <| l_tcc := (l_tcc l + 1) mod 256 |>).
      assert (tlive s2 r l2) as LV2.
      { split; auto. unfold s2. rewrite aget_updl, N.eqb_refl. change (store s1) with (store s). rewrite G. reflexivity. }
      assert (checkT s2 = (nowv + 1)%Z) as CK2 by (unfold s2; rewrite updl_checkT; exact CK).
      eapply lmono_trans; [exact M1|]. eapply lmono_trans; [eapply lmono_frame; exact F2|].
      eapply lmono_trans; [apply (add_timeout_lmono s2 r l2 LV2); rewrite CK2; cbn; lia|].
      apply IH. rewrite (sb_checkT _ _ (add_timeout_same s2 r)). exact CK2.
    + eapply lmono_trans; [exact M1|]. apply IH. exact CK.
Qed.

Lemma collect_timeouts_lmono s t nowv : checkT s = (nowv + 1)%Z -> lmono s (fst (collect_timeouts s t nowv)).
Proof.
  intros CK. unfold collect_timeouts.
  pose proof (sweep_t_slot_lmono nowv (slot_of t) (10 * length (wheel_get (twheel s) (slot_of t)) + 10) s [] CK) as A.
  destruct (sweep_t_slot _ s (slot_of t) nowv []) as [s1 due1]. cbn [fst] in A.
  destruct (aget (tlong s1) (lkey t)) as [items|]; [|exact A].
  set (s2 := s1 <| tlong := adel (tlong s1) (lkey t) |>).
  pose proof (sweep_long_frame true items s2 due1) as B. destruct (sweep_long s2 items true due1) as [s3 due3].
  cbn [fst] in *. eapply lmono_trans; [exact A|]. eapply lmono_trans; [|eapply lmono_frame; exact B].
  apply lmono_store; reflexivity.
Qed.

Lemma sweep_t_secs_lmono nowv : forall n s t,
  TA s -> checkT s = (nowv + 1)%Z -> (0 <= t)%Z -> (t + Z.of_nat n <= nowv + 1)%Z ->
  lmono s (fst (sweep_t_secs n s t nowv)).
Proof.
  induction n as [|n IH]; intros s t T CK T0 TN; cbn [sweep_t_secs]; [apply lmono_refl|].
  pose proof (collect_timeouts_TA s t nowv T CK ltac:(lia)) as A.
  pose proof (collect_timeouts_lmono s t nowv CK) as M.
  destruct (collect_timeouts s t nowv) as [s1 due]. destruct A as (T1 & CK1 & N1 & D1). cbn [fst] in M.
  pose proof (fire_all_TA due s1 T1) as B. cbv zeta in B. destruct B as (T2 & CK2 & N2).
  pose proof (fire_all_frame do_timeout (do_timeout_frame core_cmd) due s1 (TA_PK _ T1)) as F.
  destruct (fire_all do_timeout s1 due) as [s2 e2]. cbn [fst] in *.
  specialize (IH s2 (t + 1)%Z T2 ltac:(congruence) ltac:(lia) ltac:(lia)).
  destruct (sweep_t_secs n s2 (t + 1) nowv) as [s3 e3]. cbn [fst] in *.
  eapply lmono_trans; [exact M|]. eapply lmono_trans; [eapply lmono_frame; exact F|exact IH].
Qed.

Lemma sweep_timeouts_lmono s : TA s -> lmono s (fst (sweep_timeouts s)).
Proof.
  intros T. unfold sweep_timeouts.
  eapply lmono_trans; [apply (lmono_store s (s <| checkT := (now s + 1)%Z |>)); reflexivity|].
  pose proof (ta_chk _ T). pose proof (ta_chk0 _ T).
  apply sweep_t_secs_lmono; auto; try lia. apply TA_set_checkT; auto.
Qed.

(* the queueing exit: the only place where a live waiter is born *)
Lemma queue_tail_mono s1 k r lr :
  aget (store s1) r = Some lr -> l_tcc lr = 1 ->
  forall x lx, tlive (queue_tail s1 k r) x lx ->
  (x <> r /\ exists l, tlive s1 x l /\ tsame l lx) \/ (x = r /\ tsame lr lx).
Proof.
  intros G TC x lx LV. unfold queue_tail in LV.
  set (s2 := add_wait_lock s1 k r) in *.
  assert (cframe (add_timeout s2 r) (bump (fun n => n <| n_wait := (n_wait n + 1)%Z |>)
            (updl (add_timeout s2 r) r (fun l => l <| l_refc := add8 (l_refc l) 1 |>)))) as F3.
  { eapply tframe_trans; [|apply tframe_bump]. apply tframe_updl; updl_side. }
  destruct (proj2 (lmono_frame _ _ _ F3) x lx LV) as (l3 & [G3 L3] & S3).
  pose proof (add_wait_lock_frame core_cmd s1 k r) as F12. fold s2 in F12.
  pose proof (sframe_add_wait_lock s1 k r) as SF. fold s2 in SF.
  destruct (aget (store s2) r) as [l2|] eqn:G2.
  - destruct (SF r l2 G2) as (l1 & A & B). rewrite G in A. injection A as <-.
    destruct (add_timeout_short s2 r l2 G2) as (_ & _ & ST). { rewrite B. cbn. rewrite TC. reflexivity. }
    rewrite ST in G3. destruct (r =? x) eqn:EQ.
    + apply N.eqb_eq in EQ; subst x. right. split; auto. injection G3 as <-.
      eapply tsame_trans; [|exact S3]. rewrite B. unfold tsame; cbn; intuition.
    + apply N.eqb_neq in EQ. left. split; auto.
      destruct (proj2 (lmono_frame _ _ _ F12) x l3 (conj G3 L3)) as (l0 & L0 & S0). exists l0. split; auto.
      eapply tsame_trans; eauto.
  - destruct (add_timeout_absent s2 r G2) as (ST & _). rewrite ST in G3.
    left. split; [intros ->; congruence|].
    destruct (proj2 (lmono_frame _ _ _ F12) x l3 (conj G3 L3)) as (l0 & L0 & S0). exists l0. split; auto.
    eapply tsame_trans; eauto.
Qed.

(* one step of a core run *)
Definition born (s : db) (a : action) (r : ref) (l' : lockrec) : Prop :=
  exists conn c, a = AReq conn c /\ c_lock c = true /\ r = next s /\ l_start l' = now s /\ l_conn l' = conn
                 /\ (l_cmd l' = c \/ exists x, l_cmd l' = c <| c_lockid := x |>) /\ (0 <? c_timeout c) = true.

Theorem step_mono s a :
  TA s -> core_action a ->
  next s <= next (fst (step s a)) /\
  forall r l', tlive (fst (step s a)) r l' -> (exists l, tlive s r l /\ tsame l l') \/ born s a r l'.
Proof.
  intros T CA.
  assert (forall s', lmono s s' -> next s <= next s' /\
            forall r l', tlive s' r l' -> (exists l, tlive s r l /\ tsame l l') \/ born s a r l') as ML.
  { intros s' [N M]. split; auto. }
  destruct a as [conn c|k| | |x ok|b]; cbn [step core_action] in *.
  - destruct (c_lock c) eqn:CL.
    + destruct (lock_step_shape core_cmd core_dummy (fun c H => H) s conn c (ta_hd _ T) (ta_hf _ T) CA (fun x => core_lockid c x CA))
        as [F|(s0 & c1 & F0 & NX & NW & CK & C1 & HS & E1 & E2 & E3 & TO & MS)].
      * apply ML. apply (lmono_frame core_cmd s _ (core_finish_frame s _ (ta_core _ T) (ta_sk _ T) F)).
      * destruct (lock_step s conn c) as [[s' ev] w]. cbn [fst snd] in *. subst w ev. rewrite finish_none. cbn [fst]. subst s'.
        assert (core_cmd c1) as CC1 by (destruct C1 as [->|[x ->]]; auto).
        set (s1 := fst (new_lock s0 (c_key c) conn c1)) in *.
        assert (cframe s s1) as F1 by (eapply tframe_trans; [exact F0|apply tframe_new_lock; auto]).
        pose proof (new_lock_aget s0 (c_key c) conn c1) as G. fold s1 in G. rewrite NX in G.
        split.
        -- unfold queue_tail. change (next (bump ?f ?x)) with (next x). rewrite updl_next.
           rewrite (sb_next _ _ (add_timeout_same _ _)).
           pose proof (tf_next _ _ _ (add_wait_lock_frame core_cmd s1 (c_key c) (next s))).
           pose proof (tf_next _ _ _ F1). lia.
        -- intros r l' LV.
           destruct (queue_tail_mono s1 (c_key c) (next s) _ G eq_refl r l' LV) as [(NE & l1 & L1 & S1)|(-> & S1)].
           ++ left. destruct (proj2 (lmono_frame _ _ _ F1) r l1 L1) as (l0 & L0 & S0). exists l0. split; auto. eapply tsame_trans; eauto.
           ++ right. destruct S1 as (S1 & S2 & S3 & S4 & S5). cbn in S2, S3, S4.
              exists conn, c. lsplit; auto; try congruence.
              ** destruct C1 as [->|[x ->]]; [left|right; exists x]; auto.
              ** destruct C1 as [->|[x ->]]; auto.
    + apply ML. apply (lmono_frame core_cmd s _ (core_finish_frame s _ (ta_core _ T) (ta_sk _ T) (unlock_step_frame core_cmd s conn c))).
  - apply ML. apply lmono_store; reflexivity.
  - apply ML. apply (sweep_timeouts_lmono s T).
  - apply ML. apply (lmono_frame core_cmd s _ (sweep_expiries_frame s (TA_PK _ T))).
  - destruct CA.
  - apply ML. apply lmono_store; reflexivity.
Qed.

(* C05 (d): a tombstoned (or freed) record below `next` never becomes a live waiter again *)
Theorem dead_stays_dead s a r :
  TA s -> core_action a -> r < next s -> tdead s r -> tdead (fst (step s a)) r /\ r < next (fst (step s a)).
Proof.
  intros T CA FR D. destruct (step_mono s a T CA) as [N M]. split; [|lia].
  intros l' G. destruct (l_timeouted l') eqn:LV; auto. exfalso.
  destruct (M r l' (conj G LV)) as [(l & [G0 L0] & _)|(conn & c & _ & _ & -> & _)].
  - rewrite (D _ G0) in L0. discriminate.
  - lia.
Qed.

Theorem dead_forever : forall acts s r,
  TA s -> Forall core_action acts -> r < next s -> tdead s r ->
  forall s' a, In (s', a) (run_states s acts) -> tdead s' r /\ r < next s'.
Proof.
  induction acts as [|a rest IH]; intros s r T FA FR D s' a' I; cbn in I; [destruct I|].
  inversion FA as [|? ? CA FR']; subst. destruct I as [[= <- <-]|I]; auto.
  destruct (dead_stays_dead s a r T CA FR D) as [D1 F1].
  apply (IH (fst (step s a)) r (step_TA s a T CA) FR' F1 D1 s' a' I).
Qed.

(* history form: every live waiter of a reachable state was queued by an earlier Lock request of the run, at the time
   recorded in l_start, with the timeout terms recorded in l_cmd, and answers go to that request's connection *)
Definition queued_by (hist : list (db * action)) (r : ref) (l : lockrec) : Prop :=
  exists s a, In (s, a) hist /\ born s a r l.

Lemma born_tsame s a r l l' : born s a r l -> tsame l l' -> born s a r l'.
Proof.
  intros (conn & c & A & B & C & D & E & F & G) (S1 & S2 & S3 & S4 & S5).
  exists conn, c. lsplit; auto; try congruence. rewrite S2. auto.
Qed.

Theorem live_waiter_history : forall acts s0,
  TA s0 -> (forall r l, ~ tlive s0 r l) -> Forall core_action acts ->
  forall r l, tlive (fst (run s0 acts)) r l -> queued_by (run_states s0 acts) r l.
Proof.
  intros acts. induction acts as [|a rest IH] using rev_ind; intros s0 T NL FA r l LV.
  - cbn in LV. destruct (NL r l LV).
  - apply Forall_app in FA. destruct FA as [FR FA1]. inversion FA1 as [|? ? CA _]; subst.
    assert (forall s, run s (rest ++ [a]) = (fst (step (fst (run s rest)) a), snd (run s rest) ++ [snd (step (fst (run s rest)) a)])) as RA.
    { clear. induction rest as [|b rest IH]; intros s; cbn.
      - destruct (step s a); reflexivity.
      - destruct (step s b) as [s1 e1]. rewrite IH. destruct (run s1 rest) as [s2 es]. cbn. reflexivity. }
    assert (forall s, run_states s (rest ++ [a]) = run_states s rest ++ [(fst (run s rest), a)]) as RS.
    { clear. induction rest as [|b rest IH]; intros s; cbn; auto.
      rewrite IH. destruct (step s b) as [s1 e1] eqn:E. cbn. destruct (run s1 rest). reflexivity. }
    rewrite RA in LV. cbn [fst] in LV. rewrite RS.
    assert (TA (fst (run s0 rest))) as TR.
    { clear - T FR. revert s0 T. induction rest as [|b rest IH]; intros s0 T; cbn; auto.
      inversion FR; subst. specialize (IH H2 (fst (step s0 b)) (step_TA _ _ T H1)).
      destruct (step s0 b) as [s1 e1]. cbn in *. destruct (run s1 rest); auto. }
    destruct (proj2 (step_mono _ a TR CA) r l LV) as [(l0 & L0 & S0)|B].
    + destruct (IH s0 T NL FR r l0 L0) as (s & a0 & I & B). exists s, a0. split; [apply in_app_iff; auto|].
      eapply born_tsame; eauto.
    + exists (fst (run s0 rest)), a. split; auto. apply in_app_iff. right; left; auto.
Qed.
