(* C11: the known defects of the acknowledgement path, as concrete runs of the model (known_findings/C11.json).
   Each witness is evaluated by vm_compute; the same histories are replayed on the Go code by checks/C11.py. *)
From Coq Require Import String List NArith ZArith.
From Slock Require Import Engine.Types Engine.Queues Engine.Timers Engine.Engine Engine.Engine2 Engine.Ack.
Import ListNotations.
Open Scope N_scope.

Definition wL (req lockid tflag timeout eflag expried rcount : N) : aaction :=
  AAct (AReq 1 (make_cmd true req 0 lockid 7 tflag timeout eflag expried 0 rcount None)).
Definition wU (req lockid : N) : aaction := AAct (AReq 1 (make_cmd false req 0 lockid 7 0 0 0 0 0 0 None)).
(* replies and model-panic marks of a run, per action *)
Definition answers (evs : list (list event)) : list (list event) :=
  map (filter (fun e => match e with EReply _ _ _ _ _ _ _ _ _ => true | EPanic _ => true | _ => false end)) evs.

(* (i) re-entrant re-lock carrying the require-ack flag (LockId 101 already holds key 7, persisted at once):
   answered SUCCED immediately (requests 2 and 3), although nothing was acknowledged; each acknowledgement then draws
   a SECOND terminal reply LOCKED_ERROR for the same request and drops a reference that was never taken: after the
   second one the record of the live holder (depth 3) is freed and its manager removed; the expiry sweep then
   dereferences the freed record. *)
Definition run_reentrant : list aaction :=
  [wL 1 101 0 5 0 10 0; wL 2 101 4096 5 0 10 1; AAckEvt 0 true; wL 3 101 4096 5 0 10 2; AAckEvt 1 true;
   AAct (AAdvance 20); AAct ASweepE].
Theorem reentrant_relock_refuted :
  let '(st, evs) := arun (init_astate 1000000 0 1) run_reentrant in
  answers evs =
    [[EReply 1 1 R_SUCCED 1 1 101 0 0 None];
     [EReply 1 2 R_SUCCED 2 2 101 0 1 None];              (* before any acknowledgement *)
     [EReply 1 2 R_LOCKED_ERROR 2 2 101 0 1 None];        (* second terminal reply for request 2 *)
     [EReply 1 3 R_SUCCED 3 3 101 0 2 None];
     [EReply 1 3 R_LOCKED_ERROR 0 3 101 0 2 None];        (* second terminal reply for request 3; depth still 3 *)
     [];
     [EPanic "uaf:doExpried"]]
  /\ aget (store (a_db st)) 1 = None /\ aget (mgrs (a_db st)) 7 = None.
Proof. vm_compute. repeat split. Qed.

(* the hold was live (depth 3, key counter 3) right before the acknowledgement that freed it *)
Theorem reentrant_relock_frees_live_holder :
  let st4 := fst (arun (init_astate 1000000 0 1) (firstn 4 run_reentrant)) in
  let st5 := fst (arun (init_astate 1000000 0 1) (firstn 5 run_reentrant)) in
  option_map (fun m => (m_cur m, m_locked m)) (aget (mgrs (a_db st4)) 7) = Some (Some 1, 3)
  /\ option_map (fun l => (l_locked l, l_refc l)) (aget (store (a_db st4)) 1) = Some (3, 1)
  /\ aget (store (a_db st5)) 1 = None.
Proof. vm_compute. repeat split. Qed.

(* (ii) require-ack lock in never-persist mode (expiry flag 0x0200): SUCCED at once, no log record, and the counter
   stays 0 = pending for ever: the owner's own unlock is refused with LOCK_ACK_WAITING *)
Definition run_never_persist : list aaction := [wL 1 101 4096 5 512 10 0; wU 2 101; wU 3 101].
Theorem never_persisted_refuted :
  let '(st, evs) := arun (init_astate 1000000 1 1) run_never_persist in
  evs = [[EGrant 7 1 true 0 0 0; EReply 1 1 R_SUCCED 1 1 101 0 0 None];
         [EReply 1 2 R_ACK_WAITING 1 1 101 0 0 None];
         [EReply 1 3 R_ACK_WAITING 1 1 101 0 0 None]]
  /\ option_map (fun l => (l_ack l, l_locked l)) (aget (store (a_db st)) 1) = Some (0, 1)
  /\ a_reg st = [].
Proof. vm_compute. repeat split. Qed.

(* (iii) one shared counter: an acknowledgement event carries only the registration index and ok/fail (AAckEvt i ok;
   ProcessLeaderAofed and ProcessLeaderAcked have identical bodies) -- "the leader's own flush came first" cannot be
   stated about the layer at all.  With ackCount = 2, any two positive events complete the lock. *)
Theorem shared_counter_refuted :
  snd (arun (init_astate 1000000 1 2) [wL 1 101 4096 5 0 10 0; AAckEvt 0 true; AAckEvt 0 true])
  = [[EGrant 7 1 true 0 0 0;
      EAof (mkAof true 0 101 7 4096 1000000 0 0 11 0 0 None (Some 1))];
     [];
     [EReply 1 1 R_SUCCED 1 1 101 0 0 None]].
Proof. vm_compute. reflexivity. Qed.

(* (iv) registration after the roll-back: a lagging timeout sweep times out the pending holder 101, the wake-up pass
   grants the queued ack-lock 102 (record pushed) and the same sweep times 102 out (TIMEOUT sent, hold rolled back,
   UNLOCK record pushed).  Only then do the records pass ReplicationManager.PushLock: 102's LOCK record is registered
   -- writing ackCount into a dead lock -- and 102's own UNLOCK record, next in the queue, drops that registration
   again and runs DoAckLock(false), which finds a pending counter on a lock that holds nothing: a second terminal
   reply LOCKED_ERROR for request 2, in the same sweep.  No acknowledgement is involved; the later one for the
   record finds no registration.  (Before ProcessLeaderPushUnLock was modelled the second reply appeared at the
   acknowledgement -- an artefact: the registration does not survive the UNLOCK record.) *)
Definition run_late_registration : list aaction :=
  [wL 1 101 4096 2 0 10 0; wL 2 102 4096 5 0 10 0; AAct (AAdvance 20); AAct ASweepT; AAckEvt 1 true].
Theorem late_registration_refuted :
  let '(st, evs) := arun (init_astate 1000000 0 1) run_late_registration in
  answers evs =
    [[]; []; [];
     [EReply 1 1 R_TIMEOUT 0 0 101 0 0 None; EReply 1 2 R_TIMEOUT 0 0 102 0 0 None;
      EReply 1 2 R_LOCKED_ERROR 0 0 102 0 0 None];
     []]
  /\ a_reg st = [] /\ a_next st = 2.
Proof. vm_compute. repeat split. Qed.

(* (v) the tables are keyed by RequestId alone.  Ack-lock A (request 1, LockId 101, key 7) is granted and registered
   (index 0).  A second ack-lock B arrives on another connection with the SAME RequestId 1 (LockId 102, key 8): granted, its LOCK record is
   refused by ProcessLeaderPushLock (RequestId already registered) -> DoAckLock(B, false): ERROR, hold rolled back,
   UNLOCK record.  That UNLOCK record is looked up by RequestId too: it finds A's registration, drops it, and runs
   DoAckLock(B, false) a second time -- B has nothing pending, so the "stale" branch drops a reference that belongs to
   the timeout wheel: B is freed while the wheel still points at it.  A's acknowledgement (index 0) now finds no
   registration: A is never reported SUCCED and times out although its record was acknowledged; the sweep then
   dereferences the freed B. *)
Definition wLk (conn req lockid key : N) : aaction :=
  AAct (AReq conn (make_cmd true req 0 lockid key 4096 5 0 10 0 0 None)).
Definition run_duplicate_request_id : list aaction :=
  [wLk 1 1 101 7; wLk 2 1 102 8; AAckEvt 0 true; AAct (AAdvance 6); AAct ASweepT].
Theorem duplicate_request_id_refuted :
  let '(st, evs) := arun (init_astate 1000000 1 1) run_duplicate_request_id in
  answers evs =
    [[]; [EReply 2 1 R_ERROR 0 0 102 0 0 None]; [];      (* the acknowledgement of A's record: nothing *)
     [];
     [EReply 1 1 R_TIMEOUT 0 0 101 0 0 None; EPanic "uaf:doTimeOut"]]
  /\ (let st2 := fst (arun (init_astate 1000000 1 1) (firstn 2 run_duplicate_request_id)) in
      a_reg st2 = []                                                       (* A's registration is gone *)
      /\ option_map (fun l => (l_ack l, l_locked l)) (aget (store (a_db st2)) 1) = Some (1, 1)   (* A still pending *)
      /\ aget (store (a_db st2)) 2 = None                                   (* B freed ... *)
      /\ twheel (a_db st2) = [(1, [1; 2])]).                                (* ... and still in the timeout wheel *)
Proof. vm_compute. repeat split. Qed.
