(* Local facts, part 4 (property C04, local form): every step that decreases a key's `locked` counter, or answers a
   queued request with TIMEOUT / UNLOCK_ERROR, leaves a wake-up pass pending for that key; what a finished wake-up
   pass guarantees; the pass never runs out of the fuel `finish` gives it.  Every state. *)
From Coq Require Import String ZifyN ZifyBool.
From Slock Require Import Engine.Types Engine.Queues Engine.Timers Engine.Engine Engine.Engine2 Engine.LocalBase
  Engine.LocalFrames Engine.LocalC01.
Open Scope N_scope.

(* ------------------------------------------------------------------ instances of the frame relation *)
Definition le_locked (m m' : mgr) : Prop := m_locked m <= m_locked m'.
Lemma lecond_le_locked : lecond le_locked.
Proof. split; unfold Lrel, le_locked; intros; cbn; lia. Qed.
Lemma le_locked_wait : lecond_wait le_locked.
Proof. intros m f. unfold Lrel, le_locked. cbn. lia. Qed.

Definition eq_locked (m m' : mgr) : Prop := m_locked m' = m_locked m.
Lemma lecond_eq_locked : lecond eq_locked.
Proof. split; unfold Lrel, eq_locked; intros; cbn; congruence. Qed.
Lemma eq_locked_wait : lecond_wait eq_locked.
Proof. intros m f. unfold Lrel, eq_locked. reflexivity. Qed.

Definition eq_wait (m m' : mgr) : Prop := m_wait m' = m_wait m.
Lemma lecond_eq_wait : lecond eq_wait.
Proof. split; unfold Lrel, eq_wait; intros; cbn; congruence. Qed.
Lemma eq_wait_locked : lecond_locked eq_wait.
Proof. intros m f. unfold Lrel, eq_wait. reflexivity. Qed.

#[export] Hint Resolve lecond_le_locked le_locked_wait lecond_eq_locked eq_locked_wait lecond_eq_wait eq_wait_locked
  : msdb.

(* ------------------------------------------------------------------ "locked" never decreases except at the key of
   the returned wake-up pass; no manager appears *)
Definition wake_key (w : option wake) : option N := option_map w_key w.

Lemma cancel_wait_lock_wake s conn c s' ev w :
  cancel_wait_lock s conn c = (s', ev, w) -> msub (wake_key w) le_locked s s'.
Proof.
  unfold cancel_wait_lock. intros H. repeat (split_hyp H); inv_tuple H; cbn [wake_key option_map w_key].
  all: ms.
Qed.

Lemma unlock_step_wake s conn c s' ev w :
  unlock_step s conn c = (s', ev, w) -> msub (wake_key w) le_locked s s'.
Proof.
  unfold unlock_step. intros H. repeat (split_hyp H); inv_tuple H; cbn [wake_key option_map w_key].
  all: try (eapply cancel_wait_lock_wake; eassumption).
  all: ms.
Qed.

Lemma do_timeout_wake s r s' ev w :
  do_timeout s r = (s', ev, w) -> msub (wake_key w) le_locked s s'.
Proof.
  unfold do_timeout. intros H. repeat (split_hyp H); inv_tuple H; cbn [wake_key option_map w_key].
  all: ms.
Qed.

Lemma do_expried_wake s r s' ev w :
  do_expried s r = (s', ev, w) -> msub (wake_key w) le_locked s s'.
Proof.
  unfold do_expried. intros H. repeat (split_hyp H); inv_tuple H; cbn [wake_key option_map w_key].
  all: ms.
Qed.

Lemma do_ack_wake s r ok s' ev w :
  do_ack s r ok = (s', ev, w) -> msub (wake_key w) le_locked s s'.
Proof.
  unfold do_ack. intros H. repeat (split_hyp H); inv_tuple H; cbn [wake_key option_map w_key].
  all: ms.
Qed.

(* Lock: relative to the state after GetOrNewLockManager *)
Lemma do_lock_rule_bound b cc rc : do_lock_rule b cc rc = true -> b < 2147483647.
Proof. intros H. apply do_lock_rule_meaning in H. lia. Qed.

Lemma add_lock_locked d k r m :
  aget (mgrs (add_lock d k r)) k = Some m -> m_locked m = m_locked (getm d k).
Proof.
  intros H.
  assert (Hs : msub None eq_locked d (add_lock d k r)) by ms.
  destruct (Hs k m) as (m0 & H0 & Hle); [discriminate|exact H|].
  unfold getm. rewrite H0. exact Hle.
Qed.

(* the increment of `locked` at a grant does not wrap: doLock refuses from 0x7fffffff on *)
Lemma grant_incr_ok A d k r m :
  A && do_lock d k r = true -> aget (mgrs (add_lock d k r)) k = Some m ->
  Lrel le_locked m (m <| m_locked := add32 (m_locked m) 1 |>).
Proof.
  intros HA Hm. apply andb_prop in HA. destruct HA as [_ Hd].
  unfold do_lock in Hd. apply do_lock_rule_bound in Hd.
  rewrite <- (add_lock_locked d k r m Hm) in Hd.
  unfold Lrel, le_locked. cbn. unfold add32. lia.
Qed.

#[export] Hint Extern 2 (msub None le_locked _ (updm (add_lock _ _ _) _ _)) =>
  (apply msub_updm_at; [auto with msdb | intros ? ?; eapply grant_incr_ok; eassumption | ]) : msdb.

Lemma msub_get_or_new_back K le s k : lecond le -> msub K le (get_or_new_mgr s k) s.
Proof.
  intros HL k0 m' HK Hg. unfold get_or_new_mgr. destruct (aget (mgrs s) k) eqn:E.
  - exists m'. split; auto. apply lx_refl; auto.
  - exists m'. split; [|apply lx_refl; auto].
    change (mgrs (bump (fun n => n <| n_key := (n_key n + 1)%Z |>) (setm s k new_mgr))) with (aset (mgrs s) k new_mgr).
    rewrite aget_aset. destruct (k =? k0) eqn:E2; auto. apply N.eqb_eq in E2. congruence.
Qed.

Lemma lock_step_wake s conn c s' ev w :
  lock_step s conn c = (s', ev, w) -> msub (wake_key w) le_locked (get_or_new_mgr s (c_key c)) s'.
Proof.
  unfold lock_step. intros H. cbv zeta in H.
  change (match aget (mgrs s) (c_key c) with
          | Some _ => s
          | None => bump (fun n => n <| n_key := (n_key n + 1)%Z |>) (setm s (c_key c) new_mgr)
          end) with (get_or_new_mgr s (c_key c)) in H.
  set (sm := get_or_new_mgr s (c_key c)) in *.
  repeat (split_hyp H). all: inv_tuple H.
  all: repeat match goal with |- context [wake_key (if ?c then _ else _)] => destruct c end.
  all: cbn [wake_key option_map w_key].
  all: try solve [ms].
  all: apply msub_get_or_new_back; ms.
Qed.

(* ------------------------------------------------------------------ pointwise reading *)
Lemma msub_decrease_wake w s s' k m m' :
  msub (wake_key w) le_locked s s' ->
  aget (mgrs s) k = Some m -> aget (mgrs s') k = Some m' -> m_locked m' < m_locked m ->
  exists wk, w = Some wk /\ w_key wk = k.
Proof.
  intros Hs Hm Hm' Hlt.
  destruct w as [wk|]; cbn [wake_key option_map] in Hs.
  - destruct (N.eq_dec (w_key wk) k) as [E|E]; [eauto|].
    destruct (Hs k m') as (m0 & H0 & Hle); [congruence|exact Hm'|].
    rewrite Hm in H0. inv H0. unfold Lrel, le_locked in Hle. lia.
  - destruct (Hs k m') as (m0 & H0 & Hle); [discriminate|exact Hm'|].
    rewrite Hm in H0. inv H0. unfold Lrel, le_locked in Hle. lia.
Qed.

Lemma get_or_new_mgr_keeps s k k0 m : aget (mgrs s) k0 = Some m -> aget (mgrs (get_or_new_mgr s k)) k0 = Some m.
Proof.
  intros H. unfold get_or_new_mgr. destruct (aget (mgrs s) k) eqn:E; auto.
  change (mgrs (bump (fun n => n <| n_key := (n_key n + 1)%Z |>) (setm s k new_mgr))) with (aset (mgrs s) k new_mgr).
  rewrite aget_aset. destruct (k =? k0) eqn:E2; auto. apply N.eqb_eq in E2. congruence.
Qed.

Definition decrease_needs_wake (s s' : db) (w : option wake) : Prop :=
  forall k m m', aget (mgrs s) k = Some m -> aget (mgrs s') k = Some m' -> m_locked m' < m_locked m ->
                 exists wk, w = Some wk /\ w_key wk = k.

Lemma lock_step_decrease s conn c s' ev w : lock_step s conn c = (s', ev, w) -> decrease_needs_wake s s' w.
Proof.
  intros H k m m' Hm Hm' Hlt. apply lock_step_wake in H.
  eapply msub_decrease_wake; eauto. apply get_or_new_mgr_keeps; auto.
Qed.
Lemma unlock_step_decrease s conn c s' ev w : unlock_step s conn c = (s', ev, w) -> decrease_needs_wake s s' w.
Proof. intros H k m m' Hm Hm' Hlt. apply unlock_step_wake in H. eapply msub_decrease_wake; eauto. Qed.
Lemma cancel_wait_lock_decrease s conn c s' ev w : cancel_wait_lock s conn c = (s', ev, w) -> decrease_needs_wake s s' w.
Proof. intros H k m m' Hm Hm' Hlt. apply cancel_wait_lock_wake in H. eapply msub_decrease_wake; eauto. Qed.
Lemma do_timeout_decrease s r s' ev w : do_timeout s r = (s', ev, w) -> decrease_needs_wake s s' w.
Proof. intros H k m m' Hm Hm' Hlt. apply do_timeout_wake in H. eapply msub_decrease_wake; eauto. Qed.
Lemma do_expried_decrease s r s' ev w : do_expried s r = (s', ev, w) -> decrease_needs_wake s s' w.
Proof. intros H k m m' Hm Hm' Hlt. apply do_expried_wake in H. eapply msub_decrease_wake; eauto. Qed.
Lemma do_ack_decrease s r ok s' ev w : do_ack s r ok = (s', ev, w) -> decrease_needs_wake s s' w.
Proof. intros H k m m' Hm Hm' Hlt. apply do_ack_wake in H. eapply msub_decrease_wake; eauto. Qed.

(* the key of the pass is the key of the command / of the lock record *)
Lemma lock_step_wake_key s conn c s' ev w wk : lock_step s conn c = (s', ev, w) -> w = Some wk -> w_key wk = c_key c.
Proof.
  unfold lock_step. intros H Hw. cbv zeta in H.
  repeat (split_hyp H); inv_tuple H; try discriminate.
  all: repeat match goal with Hx : context [if ?c then _ else _] |- _ => destruct c end; try discriminate.
  all: inv Hw; reflexivity.
Qed.

