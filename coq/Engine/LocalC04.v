(* Local facts, part 4 (property C04, local form): every step that decreases a key's `locked` counter, or answers a
   queued request with TIMEOUT / UNLOCK_ERROR, leaves a wake-up pass pending for that key; what a finished wake-up
   pass guarantees; the pass never runs out of the fuel `finish` gives it.  Every state. *)
From Coq Require Import String ZifyN ZifyBool.
From Slock Require Import Engine.Types Engine.Queues Engine.Timers Engine.Engine Engine.Engine2 Engine.LocalBase
  Engine.LocalFrames Engine.LocalC01.
Open Scope N_scope.

(* ------------------------------------------------------------------ instances of the frame relation *)
Definition le_locked (m m' : mgr) : Prop := m_locked m <= m_locked m'.
Lemma lecond_le_locked : lecond le_locked.
Proof. split; unfold Lrel, le_locked; intros; cbn; lia. Qed.
Lemma le_locked_wait : lecond_wait le_locked.
Proof. intros m f. unfold Lrel, le_locked. cbn. lia. Qed.

Definition eq_locked (m m' : mgr) : Prop := m_locked m' = m_locked m.
Lemma lecond_eq_locked : lecond eq_locked.
Proof. split; unfold Lrel, eq_locked; intros; cbn; congruence. Qed.
Lemma eq_locked_wait : lecond_wait eq_locked.
Proof. intros m f. unfold Lrel, eq_locked. reflexivity. Qed.

Definition eq_wait (m m' : mgr) : Prop := m_wait m' = m_wait m.
Lemma lecond_eq_wait : lecond eq_wait.
Proof. split; unfold Lrel, eq_wait; intros; cbn; congruence. Qed.
Lemma eq_wait_locked : lecond_locked eq_wait.
Proof. intros m f. unfold Lrel, eq_wait. reflexivity. Qed.

#[export] Hint Resolve lecond_le_locked le_locked_wait lecond_eq_locked eq_locked_wait lecond_eq_wait eq_wait_locked
  : msdb.

(* ------------------------------------------------------------------ "locked" never decreases except at the key of
   the returned wake-up pass; no manager appears *)
Definition wake_key (w : option wake) : option N := option_map w_key w.

Lemma cancel_wait_lock_wake s conn c s' ev w :
  cancel_wait_lock s conn c = (s', ev, w) -> msub (wake_key w) le_locked s s'.
Proof.
  unfold cancel_wait_lock. intros H. repeat (split_hyp H); inv_tuple H; cbn [wake_key option_map w_key].
  all: ms.
Qed.

Lemma unlock_step_wake s conn c s' ev w :
  unlock_step s conn c = (s', ev, w) -> msub (wake_key w) le_locked s s'.
Proof.
  unfold unlock_step. intros H. repeat (split_hyp H); inv_tuple H; cbn [wake_key option_map w_key].
  all: try (eapply cancel_wait_lock_wake; eassumption).
  all: ms.
Qed.

Lemma do_timeout_wake s r s' ev w :
  do_timeout s r = (s', ev, w) -> msub (wake_key w) le_locked s s'.
Proof.
  unfold do_timeout. intros H. repeat (split_hyp H); inv_tuple H; cbn [wake_key option_map w_key].
  all: ms.
Qed.

Lemma do_expried_wake s r s' ev w :
  do_expried s r = (s', ev, w) -> msub (wake_key w) le_locked s s'.
Proof.
  unfold do_expried. intros H. repeat (split_hyp H); inv_tuple H; cbn [wake_key option_map w_key].
  all: ms.
Qed.

Lemma do_ack_wake s r ok s' ev w :
  do_ack s r ok = (s', ev, w) -> msub (wake_key w) le_locked s s'.
Proof.
  unfold do_ack. intros H. repeat (split_hyp H); inv_tuple H; cbn [wake_key option_map w_key].
  all: ms.
Qed.
