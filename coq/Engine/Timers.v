(* Lock-engine model, part 2: timeout / expiry wheels and long tables, AOF record emission
   (server/db.go:1627-1675, 1800-1856; server/lock.go:814-852; server/aof.go:758-819, 2209-2234). *)
From Coq Require Import String.
From Slock Require Import Engine.Types Engine.Queues.
Open Scope N_scope.

Definition slot_of (t : Z) : N := Z.to_N (Z.land t 15).
Definition lkey (t : Z) : N := Z.to_N t.

Definition wheel_get (w : amap (list ref)) (k : N) : list ref :=
  match aget w k with Some l => l | None => [] end.
Definition wheel_push (w : amap (list ref)) (k : N) (r : ref) : amap (list ref) :=
  aset w k (wheel_get w k ++ [r]).

Definition remove_ref (l : list ref) (r : ref) : list ref := filter (fun x => negb (x =? r)) l.

(* ---------------------------------------------------------------- AOF records *)
(* Aof.GetAofLockExpriedTime *)
Definition aof_expried_time (c : cmd) (eT ctime : Z) : N :=
  if has (c_eflag c) EF_UNLIMITED then c_expried c
  else if has (c_eflag c) EF_MILLISECOND then c_expried c
  else if has (c_eflag c) EF_MINUTE then
    let d := (eT - ctime)%Z in
    if (60 <=? d)%Z && (d mod 60 =? 0)%Z then Z.to_N (d / 60) mod 65536
    else if (0 <? d)%Z then (Z.to_N (d / 60) mod 65536 + 1) mod 65536
    else 0
  else if (0 <? eT)%Z then
    let d := (eT - ctime)%Z in if (0 <? d)%Z then Z.to_N d mod 65536 else 0
  else c_expried c.

(* AofChannel.Push: the record built from (lock, lockCommand, unLockCommand, aofFlag, data) *)
Definition mk_aofrec (s : db) (r : ref) (islock : bool) (lc : cmd) (uc : option cmd) (aofflag : N)
           (data : option bytes) : aofrec :=
  let l := getl s r in
  let ctime := if (now s <? l_eT l)%Z then now s else l_eT l in
  let st := (ctime - l_start l)%Z in
  let start := if (st <? 0)%Z || (65535 <=? st)%Z then 65535 else Z.to_N st in
  let fl := N.lor aofflag
             (N.lor (if has (c_tflag lc) TF_REQUIRE_ACKED then AOF_FLAG_REQUIRE_ACKED else 0)
             (N.lor (if has (c_tflag lc) TF_PRIORITY then AOF_FLAG_RCOUNT_IS_PRIORITY else 0)
                    (match data with Some _ => AOF_FLAG_CONTAINS_DATA | None => 0 end))) in
  mkAof islock (if islock then N.land (c_flag lc) 18 else 0) (c_lockid lc) (c_key lc) fl ctime start
        (c_eflag lc) (aof_expried_time lc (l_eT l) ctime)
        (match uc with Some u => c_count u | None => c_count lc end)
        (match uc with Some u => c_rcount u | None => if islock then c_rcount lc else 0 end)
        data
        (if has (c_tflag lc) TF_REQUIRE_ACKED then Some r else None).

(* LockManager.PushLockAof *)
Definition push_lock_aof (s : db) (k : N) (r : ref) (aofflag : N) : db * list event :=
  if negb (leader s) then (s, [])
  else
    let l := getl s r in
    if has (c_flag (l_cmd l)) LOCK_FLAG_FROM_AOF then (updl s r (fun l => l <| l_isaof := true |>), [])
    else
      let m := getm s k in
      let '(data, cur', ld') := aof_lock_data true (m_data m) (l_data l) in
      let s := updm s k (fun m => m <| m_data := cur' |>) in
      let s := updl s r (fun l => l <| l_data := ld' |>) in
      let rec := mk_aofrec s r true (l_cmd l) None aofflag data in
      (updl s r (fun l => l <| l_isaof := true |>), [EAof rec]).

(* LockManager.PushUnLockAof (lockCommand = the hold's command, unLockCommand optional) *)
Definition push_unlock_aof (s : db) (k : N) (r : ref) (lc : cmd) (uc : option cmd) (isaof : bool) (aofflag : N)
  : db * list event :=
  if negb (leader s) then (s, [])
  else if match uc with Some u => has (c_flag u) UNLOCK_FLAG_FROM_AOF | None => false end
  then (updl s r (fun l => l <| l_isaof := isaof |>), [])
  else
    let l := getl s r in
    let m := getm s k in
    let '(data, cur', ld') := aof_lock_data false (m_data m) (l_data l) in
    let s := updm s k (fun m => m <| m_data := cur' |>) in
    let s := updl s r (fun l => l <| l_data := ld' |>) in
    let rec := mk_aofrec s r false lc uc aofflag data in
    (updl s r (fun l => l <| l_isaof := isaof |>), [EAof rec]).

Fixpoint repeat_push_lock_aof (n : nat) (s : db) (k : N) (r : ref) : db * list event :=
  match n with
  | O => (s, [])
  | S n' => let '(s1, e1) := push_lock_aof s k r 0 in
            let '(s2, e2) := repeat_push_lock_aof n' s1 k r in (s2, e1 ++ e2)
  end.

(* ---------------------------------------------------------------- timeout structures *)
(* LockDB.AddTimeOut *)
Definition add_timeout (s : db) (r : ref) : db :=
  let s := updl s r (fun l => l <| l_timeouted := false |>) in
  let l := getl s r in
  if QUEUE_MAX_WAIT <? l_tcc l then
    let tT := if (l_tT l <? checkT s)%Z then checkT s else l_tT l in
    let s := updl s r (fun l => l <| l_tT := tT |> <| l_long := true |>) in
    s <| tlong := wheel_push (tlong s) (lkey tT) r |>
  else
    let d0 := (checkT s + Z.of_N (l_tcc l))%Z in
    let d := if (l_tT l <? d0)%Z then (if (l_tT l <? checkT s)%Z then checkT s else l_tT l) else d0 in
    let s := s <| twheel := wheel_push (twheel s) (slot_of d) r |> in
    updl s r (fun l => l <| l_long := false |>).

(* LockDB.RemoveLongTimeOut *)
Definition remove_long_timeout (s : db) (r : ref) : db :=
  let l := getl s r in
  match aget (tlong s) (lkey (l_tT l)) with
  | Some q =>
      let q' := remove_ref q r in
      let s := s <| tlong := (match q' with [] => adel (tlong s) (lkey (l_tT l)) | _ => aset (tlong s) (lkey (l_tT l)) q' end) |> in
      updl s r (fun l => l <| l_long := false |> <| l_refc := dec8 (l_refc l) |>)
  | None => updl s r (fun l => l <| l_long := false |>)
  end.

(* ---------------------------------------------------------------- expiry structures *)
(* LockDB.AddExpried *)
Definition add_expried (s : db) (k : N) (r : ref) : db * list event :=
  let s := updl s r (fun l => l <| l_expried := false |>) in
  let l := getl s r in
  let s :=
    if QUEUE_MAX_WAIT <? l_ecc l then
      let eT := if (l_eT l <? checkE s)%Z then checkE s else l_eT l in
      let s := updl s r (fun l => l <| l_eT := eT |> <| l_long := true |>) in
      s <| elong := wheel_push (elong s) (lkey eT) r |>
    else
      let d0 := (checkE s + Z.of_N (l_ecc l))%Z in
      let d := if (l_eT l <? d0)%Z then (if (l_eT l <? checkE s)%Z then checkE s else l_eT l) else d0 in
      let s := s <| ewheel := wheel_push (ewheel s) (slot_of d) r |> in
      updl s r (fun l => l <| l_long := false |>) in
  let l := getl s r in
  if negb (l_isaof l) && negb (l_aoftime l =? 255) && (Z.of_N (l_aoftime l) <=? now s - l_start l)%Z
  then repeat_push_lock_aof (N.to_nat (l_locked l)) s k r
  else (s, []).

(* LockDB.RemoveLongExpried(lock, expriedTime) *)
Definition remove_long_expried (s : db) (r : ref) (eT : Z) : db :=
  match aget (elong s) (lkey eT) with
  | Some q =>
      let q' := remove_ref q r in
      let s := s <| elong := (match q' with [] => adel (elong s) (lkey eT) | _ => aset (elong s) (lkey eT) q' end) |> in
      updl s r (fun l => l <| l_long := false |> <| l_refc := dec8 (l_refc l) |>)
  | None => updl s r (fun l => l <| l_long := false |>)
  end.
