(* Local (state-independent) facts about the lock-engine model, part 0: toolkit.
   - head-directed case-splitting tactics for the big step functions (split_hyp, inv_tuple)
   - projections of the state through the primitive updates (updl/setl/updm/setm/updc)
   - event classes: which helper emits which kind of event (push_*_aof: only log records; process_data: only panics; ...)
   Nothing here needs a reachability invariant: every lemma holds for every db value. *)
From Coq Require Import String ZifyN ZifyBool.
From Slock Require Import Engine.Types Engine.Queues Engine.Timers Engine.Engine Engine.Engine2.
Open Scope N_scope.

(* ------------------------------------------------------------------ tactics *)
(* innermost scrutinee along the head of a term *)
Ltac hd_scrut t :=
  lazymatch t with
  | match ?x with _ => _ end => hd_scrut x
  | _ => constr:(t)
  end.

(* H : (match .. end) = rhs  --- split on the head scrutinee, reduce *)
Ltac split_hyp H :=
  lazymatch type of H with
  | ?lhs = _ =>
      lazymatch lhs with
      | match ?x with _ => _ end =>
          let y := hd_scrut x in
          (is_var y; destruct y) || destruct y eqn:?
      end
  end; cbv beta iota zeta in H.

Ltac inv H := inversion H; subst; clear H.

Lemma tuple3_inv {A B C} (a a' : A) (b b' : B) (c c' : C) : (a, b, c) = (a', b', c') -> a = a' /\ b = b' /\ c = c'.
Proof. intros H. inversion H. auto. Qed.
Lemma tuple2_inv {A B} (a a' : A) (b b' : B) : (a, b) = (a', b') -> a = a' /\ b = b'.
Proof. intros H. inversion H. auto. Qed.

(* H : (x, y, z) = (x', y', z') with variables on the right: substitute them (cheap, unlike inversion on big terms) *)
Ltac subst_rhs H :=
  lazymatch type of H with
  | _ = ?v => tryif is_var v then (first [subst v | rewrite <- H in *; clear H | idtac]) else idtac
  end.

Ltac inv_tuple H :=
  lazymatch type of H with
  | (_, _, _) = (_, _, _) =>
      apply tuple3_inv in H;
      let H1 := fresh in let H2 := fresh in let H3 := fresh in
      destruct H as (H1 & H2 & H3); subst_rhs H1; subst_rhs H2; subst_rhs H3
  | (_, _) = (_, _) =>
      apply tuple2_inv in H;
      let H1 := fresh in let H2 := fresh in
      destruct H as (H1 & H2); subst_rhs H1; subst_rhs H2
  | _ => idtac
  end.

(* ------------------------------------------------------------------ amap *)
Lemma adel_absent {V} (m : amap V) k : aget m k = None -> adel m k = m.
Proof.
  induction m as [|[k' v] r IH]; simpl; auto.
  destruct (k' =? k) eqn:E; [discriminate|]. intros H. rewrite IH; auto.
Qed.

Lemma aget_adel {V} (m : amap V) k k' : aget (adel m k) k' = if k =? k' then None else aget m k'.
Proof.
  destruct (k =? k') eqn:E.
  - apply N.eqb_eq in E. subst. apply aget_adel_same.
  - apply N.eqb_neq in E. apply aget_adel_other; auto.
Qed.

Lemma aget_aset {V} (m : amap V) k k' v : aget (aset m k v) k' = if k =? k' then Some v else aget m k'.
Proof.
  destruct (k =? k') eqn:E.
  - apply N.eqb_eq in E. subst. apply aget_aset_same.
  - apply N.eqb_neq in E. apply aget_aset_other; auto.
Qed.

(* ------------------------------------------------------------------ projections through primitive updates *)
Lemma mgrs_setl s r l : mgrs (setl s r l) = mgrs s. Proof. reflexivity. Qed.
Lemma mgrs_updl s r f : mgrs (updl s r f) = mgrs s. Proof. unfold updl. destruct (aget (store s) r); reflexivity. Qed.
Lemma store_setm s k m : store (setm s k m) = store s. Proof. reflexivity. Qed.
Lemma store_updm s k f : store (updm s k f) = store s. Proof. unfold updm. destruct (aget (mgrs s) k); reflexivity. Qed.
Lemma mgrs_updc s f : mgrs (updc s f) = mgrs s. Proof. reflexivity. Qed.
Lemma store_updc s f : store (updc s f) = store s. Proof. reflexivity. Qed.

Lemma getm_mgrs s s' k : mgrs s' = mgrs s -> getm s' k = getm s k.
Proof. unfold getm. intros ->. reflexivity. Qed.
Lemma getl_store s s' r : store s' = store s -> getl s' r = getl s r.
Proof. unfold getl. intros ->. reflexivity. Qed.

Lemma getl_updm s k f r : getl (updm s k f) r = getl s r.
Proof. apply getl_store, store_updm. Qed.
Lemma getm_updl s r f k : getm (updl s r f) k = getm s k.
Proof. apply getm_mgrs, mgrs_updl. Qed.
Lemma getm_setl s r l k : getm (setl s r l) k = getm s k.
Proof. reflexivity. Qed.
Lemma getl_updc s f r : getl (updc s f) r = getl s r. Proof. reflexivity. Qed.
Lemma getm_updc s f k : getm (updc s f) k = getm s k. Proof. reflexivity. Qed.

Lemma aget_store_updl s r f r' :
  aget (store (updl s r f)) r' =
  if r =? r' then option_map f (aget (store s) r) else aget (store s) r'.
Proof.
  unfold updl. destruct (aget (store s) r) eqn:E.
  - change (store (setl s r (f l))) with (aset (store s) r (f l)).
    rewrite aget_aset. destruct (r =? r'); reflexivity.
  - destruct (r =? r') eqn:E2; [apply N.eqb_eq in E2; subst; rewrite E|]; reflexivity.
Qed.

Lemma getl_updl s r f r' :
  getl (updl s r f) r' = if (r =? r') then (match aget (store s) r with Some l => f l | None => dummy_lock end) else getl s r'.
Proof.
  unfold getl at 1. rewrite aget_store_updl. destruct (r =? r') eqn:E; [|reflexivity].
  destruct (aget (store s) r); reflexivity.
Qed.

Lemma aget_mgrs_updm s k f k' :
  aget (mgrs (updm s k f)) k' = if k =? k' then option_map f (aget (mgrs s) k) else aget (mgrs s) k'.
Proof.
  unfold updm. destruct (aget (mgrs s) k) eqn:E.
  - change (mgrs (setm s k (f m))) with (aset (mgrs s) k (f m)).
    rewrite aget_aset. destruct (k =? k'); reflexivity.
  - destruct (k =? k') eqn:E2; [apply N.eqb_eq in E2; subst; rewrite E|]; reflexivity.
Qed.

Lemma leader_updl s r f : leader (updl s r f) = leader s. Proof. unfold updl. destruct aget; reflexivity. Qed.
Lemma leader_updm s k f : leader (updm s k f) = leader s. Proof. unfold updm. destruct aget; reflexivity. Qed.
Lemma now_updl s r f : now (updl s r f) = now s. Proof. unfold updl. destruct aget; reflexivity. Qed.
Lemma now_updm s k f : now (updm s k f) = now s. Proof. unfold updm. destruct aget; reflexivity. Qed.

(* ------------------------------------------------------------------ event classes *)
Definition is_reply (e : event) : Prop := match e with EReply _ _ _ _ _ _ _ _ _ => True | _ => False end.
(* events the low-level helpers may emit *)
Definition quiet (e : event) : Prop := match e with EAof _ | EPanic _ => True | _ => False end.
Definition only_aof (evs : list event) : Prop := Forall (fun e => match e with EAof _ => True | _ => False end) evs.
(* no new holder *)
Definition nng (e : event) : Prop := match e with EGrant _ _ true _ _ _ => False | _ => True end.

Definition quiet_ok (P : event -> Prop) : Prop := forall e, quiet e -> P e.
Lemma quiet_ok_nng : quiet_ok nng. Proof. intros [] H; simpl in *; auto; contradiction. Qed.
Lemma quiet_ok_quiet : quiet_ok quiet. Proof. intros e H; exact H. Qed.

Lemma Forall_quiet P evs : quiet_ok P -> Forall quiet evs -> Forall P evs.
Proof. intros HP H. eapply Forall_impl; [|exact H]. exact HP. Qed.

Lemma only_aof_quiet evs : only_aof evs -> Forall quiet evs.
Proof. intros H. eapply Forall_impl; [|exact H]. intros []; simpl; auto. Qed.

Lemma push_lock_aof_only_aof s k r f s' ev : push_lock_aof s k r f = (s', ev) -> only_aof ev.
Proof.
  unfold push_lock_aof, only_aof. intros H.
  repeat (split_hyp H); inv H; repeat constructor.
Qed.

Lemma push_unlock_aof_only_aof s k r lc uc b f s' ev : push_unlock_aof s k r lc uc b f = (s', ev) -> only_aof ev.
Proof.
  unfold push_unlock_aof, only_aof. intros H.
  repeat (split_hyp H); inv H; repeat constructor.
Qed.

Lemma repeat_push_lock_aof_only_aof n : forall s k r s' ev, repeat_push_lock_aof n s k r = (s', ev) -> only_aof ev.
Proof.
  induction n as [|n IH]; simpl; intros s k r s' ev H.
  - inv H. constructor.
  - destruct (push_lock_aof s k r 0) as [s1 e1] eqn:E1.
    destruct (repeat_push_lock_aof n s1 k r) as [s2 e2] eqn:E2. inv H.
    apply Forall_app. split; [eapply push_lock_aof_only_aof; eauto | eapply IH; eauto].
Qed.

Lemma add_expried_only_aof s k r s' ev : add_expried s k r = (s', ev) -> only_aof ev.
Proof.
  unfold add_expried. intros H.
  match type of H with (if ?c then _ else _) = _ => destruct c end.
  - eapply repeat_push_lock_aof_only_aof; eauto.
  - inv H. constructor.
Qed.

Lemma process_data_quiet s k r c b s' ev : process_data s k r c b = (s', ev) -> Forall quiet ev.
Proof.
  unfold process_data. intros H.
  repeat (split_hyp H); inv H; repeat constructor.
Qed.

Lemma update_and_rearm_quiet s k r c s' ev : update_and_rearm s k r c = (s', ev) -> Forall quiet ev.
Proof.
  unfold update_and_rearm. intros H.
  destruct (l_long (getl s r)); [|inv H; constructor].
  cbv zeta in H.
  destruct (negb (has (c_eflag c) EF_MILLISECOND)); [|inv H; repeat constructor].
  match type of H with (if ?c then _ else _) = _ => destruct c end; [|inv H; constructor].
  match type of H with (let '(_, _) := ?x in _) = _ => destruct x as [s1 e1] eqn:E end.
  inv H. apply only_aof_quiet. eapply add_expried_only_aof; eauto.
Qed.

(* generic forms for the big case analyses *)
Section EvP.
  Variable P : event -> Prop.
  Hypothesis HP : quiet_ok P.
  Lemma P_aof r : P (EAof r). Proof. apply HP; exact I. Qed.
  Lemma P_panic x : P (EPanic x). Proof. apply HP; exact I. Qed.
  Lemma push_lock_aof_P s k r f s' ev : push_lock_aof s k r f = (s', ev) -> Forall P ev.
  Proof. intros H. apply Forall_quiet, only_aof_quiet; auto. eapply push_lock_aof_only_aof; eauto. Qed.
  Lemma push_unlock_aof_P s k r lc uc b f s' ev : push_unlock_aof s k r lc uc b f = (s', ev) -> Forall P ev.
  Proof. intros H. apply Forall_quiet, only_aof_quiet; auto. eapply push_unlock_aof_only_aof; eauto. Qed.
  Lemma add_expried_P s k r s' ev : add_expried s k r = (s', ev) -> Forall P ev.
  Proof. intros H. apply Forall_quiet, only_aof_quiet; auto. eapply add_expried_only_aof; eauto. Qed.
  Lemma process_data_P s k r c b s' ev : process_data s k r c b = (s', ev) -> Forall P ev.
  Proof. intros H. apply Forall_quiet; auto. eapply process_data_quiet; eauto. Qed.
  Lemma update_and_rearm_P s k r c s' ev : update_and_rearm s k r c = (s', ev) -> Forall P ev.
  Proof. intros H. apply Forall_quiet; auto. eapply update_and_rearm_quiet; eauto. Qed.
End EvP.

(* solve `Forall P (e1 ++ [x] ++ ...)` from the equations in the context *)
Ltac ev_solve HP :=
  repeat (first [apply Forall_app; split | apply Forall_cons | apply Forall_nil]);
  try solve [ eapply push_lock_aof_P; [exact HP | eassumption]
            | eapply push_unlock_aof_P; [exact HP | eassumption]
            | eapply add_expried_P; [exact HP | eassumption]
            | eapply process_data_P; [exact HP | eassumption]
            | eapply update_and_rearm_P; [exact HP | eassumption]
            | apply P_aof; exact HP | apply P_panic; exact HP
            | exact I ].
