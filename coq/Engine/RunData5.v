(* Value operations attached to Lock / UnLock (property C15), part 5: the wake-up pass serves a queued request
   (wake_grant): the stored command's frame is applied exactly once, the reply carries the value from immediately
   before ITS operation. *)
From Coq Require Import String ZifyN ZifyBool.
From Slock Require Import Engine.Types Engine.Queues Engine.Timers Engine.Engine Engine.Engine2 Engine.LocalBase
  Engine.InvLockDefs Engine.RunData Engine.RunData2 Engine.RunData3.
Open Scope N_scope.

Lemma remove_long_timeout_l_data s r r0 : l_data (getl (remove_long_timeout s r) r0) = l_data (getl s r0).
Proof.
  unfold remove_long_timeout. cbv zeta.
  destruct (aget (tlong s) (lkey (l_tT (getl s r)))) as [q|].
  - rewrite l_data_updl by reflexivity. destruct (remove_ref q r); reflexivity.
  - apply l_data_updl. reflexivity.
Qed.

(* s: the key has manager m; r: the waiter popped by GetWaitLock; c: its stored command *)
Definition wake_cases (s : db) (k : N) (r : ref) (m : mgr) (s' : db) (ev : list event) : Prop :=
  let c := l_cmd (getl s r) in
  let conn := l_conn (getl s r) in
  let env lk recov := mk_env c lk (m_waited m) recov in
  let ld := l_data (getl s r) in
  (* 1: new hold, acknowledgement required: no reply yet *)
  ((exists b cc mid, ev = EGrant k r true b cc (c_count c) :: mid /\ Forall quiet mid)
   /\ value_effect c (has_data_flag c) (env (add32 (m_locked m) 1) true) ld s k s' ev)
  (* 2: new hold *)
  \/ ((0 <? c_expried c) = true
      /\ (exists b cc mid lc lrc,
            ev = EGrant k r true b cc (c_count c) :: mid ++ [reply conn c R_SUCCED lc lrc (data_of s k)]
            /\ Forall quiet mid)
      /\ value_effect c (has_data_flag c) (env (add32 (m_locked m) 1) false) ld s k s' ev)
  (* 3: Expried = 0 *)
  \/ ((0 <? c_expried c) = false
      /\ (exists mid lc lrc, ev = mid ++ [reply conn c R_SUCCED lc lrc (data_of s k)] /\ Forall quiet mid)
      /\ value_effect c (has_data_flag c) (env (m_locked m) false) ld s k s' ev)
  (* 4: millisecond expiry: outside the model *)
  \/ ((0 <? c_expried c) = true /\ (exists site, ev = [EPanic site])
      /\ value_effect c (has_data_flag c) (env (add32 (m_locked m) 1) false) ld s k s' ev).

Lemma wake_grant_cases s k r via m s' ev :
  wake_grant s k r via = (s', ev) -> aget (mgrs s) k = Some m -> wake_cases s k r m s' ev.
Proof.
  intros H Hm. unfold wake_cases. cbv zeta. unfold wake_grant in H. cbv zeta in H.
  set (c := l_cmd (getl s r)) in *.
  match type of H with (if ?b then _ else _) = _ => destruct b end.
  - (* acknowledgement required *)
    assert (HY : mrel le_core false s (add_lock s k r)) by rd.
    destruct (mrel_false_exists _ _ _ _ _ HY Hm) as (mY & HmY).
    destruct (mrel_core_getm s _ k HY) as (HgdY & HlkY & HwtY).
    rewrite (getm_some _ _ _ Hm) in HlkY, HwtY. rewrite (getm_some _ _ _ HmY) in HlkY, HwtY.
    set (X := updl (updm (add_lock s k r) k (fun m => m <| m_locked := add32 (m_locked m) 1 |>)) r
                   (fun l => l <| l_refc := add8 (l_refc l) 1 |>)) in *.
    assert (HgdX : forall k0, gd X k0 = gd s k0).
    { intros k0. unfold X. rewrite gd_updl, gd_updm by reflexivity. apply mrel_core_gd, HY. }
    assert (HlkX : m_locked (getm X k) = add32 (m_locked m) 1).
    { unfold X. rewrite getm_updl, (getm_updm_same _ _ _ _ HmY). cbn. rewrite HlkY. reflexivity. }
    assert (HwtX : m_waited (getm X k) = m_waited m).
    { unfold X. rewrite getm_updl, (getm_updm_same _ _ _ _ HmY). cbn. exact HwtY. }
    assert (HldX : l_data (getl X r) = l_data (getl s r)).
    { unfold X. rewrite l_data_updl by reflexivity. rewrite getl_updm. apply add_lock_l_data. }
    assert (HXs : mrel (le_mark k) true s X).
    { apply mrel_data_mark, mrel_rm_weaken. unfold X. apply mrel_updl. apply mrel_updm; [rd|intros; reflexivity|].
      apply mrel_core_data, HY. }
    repeat (split_hyp H); inv_tuple H.
    all: try match goal with E : process_data _ _ _ _ _ = (?d1, _) |- _ =>
           assert (Hdr : mrel (le_mark k) true d1 d1) by (apply mrel_refl; rd) end.
    all: left; split;
      [ do 3 eexists; split; [reflexivity|quiet_solve]
      | first [ eapply value_effect_ran; [eassumption|rd|pev_solve|exact HgdX|exact HlkX|exact HwtX|exact HldX]
              | apply value_effect_marked; [eapply mrel_trans; [rd|exact HXs|rd]|left; reflexivity] ] ].
  - set (s2 := if l_long (getl s r) then remove_long_timeout (updl s r (fun l => l <| l_timeouted := true |>)) r
               else updl s r (fun l => l <| l_timeouted := true |>)) in *.
    assert (H2 : mrel le_core false s s2) by (unfold s2; rd).
    destruct (mrel_core_getm s s2 k H2) as (Hgd2 & Hlk2 & Hwt2).
    rewrite (getm_some _ _ _ Hm) in Hlk2, Hwt2.
    assert (Hgd2' : forall k0, gd s2 k0 = gd s k0) by (intros k0; apply mrel_core_gd, H2).
    assert (Hld2 : l_data (getl s2 r) = l_data (getl s r)).
    { unfold s2. destruct (l_long (getl s r)); [rewrite remove_long_timeout_l_data|]; apply l_data_updl; reflexivity. }
    assert (Hd2 : data_of s2 k = data_of s k) by (rewrite !data_of_gd, Hgd2; reflexivity).
    assert (H2m : mrel (le_mark k) true s s2) by (apply mrel_data_mark, mrel_rm_weaken, mrel_core_data, H2).
    assert (HY : mrel le_core false s (add_lock s2 k r)) by (eapply mrel_add_lock; [rd|exact H2]).
    destruct (mrel_false_exists _ _ _ _ _ HY Hm) as (mY & HmY).
    destruct (mrel_core_getm s _ k HY) as (HgdY & HlkY & HwtY).
    rewrite (getm_some _ _ _ Hm) in HlkY, HwtY. rewrite (getm_some _ _ _ HmY) in HlkY, HwtY.
    set (X := updm (add_lock s2 k r) k (fun m => m <| m_locked := add32 (m_locked m) 1 |>)) in *.
    assert (HgdX : forall k0, gd X k0 = gd s k0).
    { intros k0. unfold X. rewrite gd_updm by reflexivity. apply mrel_core_gd, HY. }
    assert (HlkX : m_locked (getm X k) = add32 (m_locked m) 1).
    { unfold X. rewrite (getm_updm_same _ _ _ _ HmY). cbn. rewrite HlkY. reflexivity. }
    assert (HwtX : m_waited (getm X k) = m_waited m).
    { unfold X. rewrite (getm_updm_same _ _ _ _ HmY). cbn. exact HwtY. }
    assert (HldX : l_data (getl X r) = l_data (getl s r)).
    { unfold X. rewrite getl_updm, add_lock_l_data. exact Hld2. }
    assert (HdX : data_of X k = data_of s k) by (rewrite !data_of_gd, HgdX; reflexivity).
    assert (HXs : mrel (le_mark k) true s X).
    { apply mrel_data_mark, mrel_rm_weaken. unfold X. apply mrel_updm; [rd|intros; reflexivity|].
      apply mrel_core_data, HY. }
    repeat (split_hyp H); inv_tuple H.
    all: rewrite ?HdX, ?Hd2.
    all: try match goal with E : process_data _ _ _ _ _ = (?d1, _) |- _ =>
           assert (Hdr : mrel (le_mark k) true d1 d1) by (apply mrel_refl; rd) end.
    all: first
      [ (* 2 *) right; left; split; [reflexivity|]; split;
        [ do 5 eexists; split; [rewrite ?app_assoc; reflexivity|quiet_solve]
        | first [ eapply value_effect_ran; [eassumption|rd|pev_solve|exact HgdX|exact HlkX|exact HwtX|exact HldX]
                | apply value_effect_marked; [eapply mrel_trans; [rd|exact HXs|rd]|left; reflexivity] ] ]
      | (* 3 *) right; right; left; split; [reflexivity|]; split;
        [ do 3 eexists; split; [rewrite ?app_assoc; reflexivity|quiet_solve]
        | first [ eapply value_effect_ran; [eassumption|rd|pev_solve|exact Hgd2'|exact Hlk2|exact Hwt2|exact Hld2]
                | apply value_effect_marked; [eapply mrel_trans; [rd|exact H2m|rd]|left; reflexivity] ] ]
      | (* 4 *) right; right; right; split; [reflexivity|]; split; [eexists; reflexivity|];
        first [ eapply value_effect_ran;
                [eassumption|exact Hdr|right; eexists; left; reflexivity|exact HgdX|exact HlkX|exact HwtX|exact HldX]
              | apply value_effect_marked; [exact HXs|left; reflexivity] ]
      ].
Qed.

(* ------------------------------------------------------------------ consequences *)
(* (i) the reply of a served waiter goes to the waiter's connection, echoes its stored command and carries the
   value from immediately before its own value operation *)
Lemma wake_reply_value s k r via m s' ev :
  wake_grant s k r via = (s', ev) -> aget (mgrs s) k = Some m ->
  Forall (fun e => match e with
                   | EReply cn rq code _ _ lid _ _ d =>
                       cn = l_conn (getl s r) /\ rq = c_req (l_cmd (getl s r)) /\ lid = c_lockid (l_cmd (getl s r))
                       /\ code = R_SUCCED /\ d = data_of s k
                   | _ => True end) ev.
Proof.
  intros H Hm. apply wake_grant_cases with (m := m) in H; [|exact Hm]. unfold wake_cases in H. cbv zeta in H.
  match goal with |- Forall ?P _ => assert (HQ : forall mid, Forall quiet mid -> Forall P mid) end.
  { intros mid Hq. eapply Forall_impl; [|exact Hq]. intros [] He; simpl in *; auto; contradiction. }
  destruct H as [H|[H|[H|H]]].
  - destruct H as ((b & cc & mid & -> & Hq) & _). constructor; [exact I|auto].
  - destruct H as (_ & (b & cc & mid & lc & lrc & -> & Hq) & _).
    constructor; [exact I|]. apply Forall_app. split; [auto|]. constructor; [|constructor].
    unfold reply. repeat split.
  - destruct H as (_ & (mid & lc & lrc & -> & Hq) & _).
    apply Forall_app. split; [auto|]. constructor; [|constructor]. unfold reply. repeat split.
  - destruct H as (_ & (site & ->) & _). constructor; [exact I|constructor].
Qed.

(* (iii) a waiter that becomes a holder: one application with the holder count AFTER the increment; recoverable
   exactly when the reply is deferred to the acknowledgement *)
Lemma wake_grant_value s k r via m s' ev k' r' b cc rc :
  wake_grant s k r via = (s', ev) -> aget (mgrs s) k = Some m -> In (EGrant k' r' true b cc rc) ev ->
  let c := l_cmd (getl s r) in
  k' = k /\ r' = r
  /\ exists recov, (recov = true <-> forall e, In e ev -> reply_code e = None)
       /\ value_effect c (has_data_flag c) (mk_env c (add32 (m_locked m) 1) (m_waited m) recov) (l_data (getl s r))
                       s k s' ev.
Proof.
  intros H Hm Hin. cbv zeta. apply wake_grant_cases with (m := m) in H; [|exact Hm].
  unfold wake_cases in H. cbv zeta in H.
  assert (Hmid : forall mid, Forall quiet mid -> ~ In (EGrant k' r' true b cc rc) mid).
  { intros mid Hq. apply quiet_no_grant, Hq. }
  destruct H as [H|[H|[H|H]]].
  - destruct H as ((b0 & cc0 & mid & -> & Hq) & Hv).
    destruct Hin as [Hx|Hin]; [|exfalso; exact (Hmid _ Hq Hin)]. inv Hx.
    split; [reflexivity|]. split; [reflexivity|]. exists true. split; [|exact Hv].
    split; [|reflexivity]. intros _ e [<-|He]; [reflexivity|].
    rewrite Forall_forall in Hq. apply quiet_reply_code, Hq, He.
  - destruct H as (_ & (b0 & cc0 & mid & lc & lrc & -> & Hq) & Hv).
    destruct Hin as [Hx|Hin].
    2:{ exfalso. apply in_app_single in Hin. destruct Hin as [Hin|Hx]; [exact (Hmid _ Hq Hin)|discriminate Hx]. }
    inv Hx. split; [reflexivity|]. split; [reflexivity|]. exists false. split; [|exact Hv].
    split; [discriminate|]. intros Hall. exfalso.
    match type of Hall with forall e, In e (_ :: _ ++ [?x]) -> _ => specialize (Hall x) end.
    match type of Hall with ?P -> _ => assert (Hi : P) by (right; apply in_or_app; right; left; reflexivity) end.
    specialize (Hall Hi). discriminate Hall.
  - exfalso. destruct H as (_ & (mid & lc & lrc & -> & Hq) & _).
    apply in_app_single in Hin. destruct Hin as [Hin|Hx]; [exact (Hmid _ Hq Hin)|discriminate Hx].
  - exfalso. destruct H as (_ & (site & ->) & _). destruct Hin as [Hx|[]]; discriminate Hx.
Qed.

(* a served waiter with Expried = 0 (answered, no hold): one application with the holder count unchanged *)
Lemma wake_zero_expiry_value s k r via m s' ev :
  wake_grant s k r via = (s', ev) -> aget (mgrs s) k = Some m ->
  (forall k' r' b cc rc, ~ In (EGrant k' r' true b cc rc) ev) -> (forall site, ev <> [EPanic site]) ->
  let c := l_cmd (getl s r) in
  c_expried c = 0
  /\ value_effect c (has_data_flag c) (mk_env c (m_locked m) (m_waited m) false) (l_data (getl s r)) s k s' ev.
Proof.
  intros H Hm Hng Hnp. cbv zeta. apply wake_grant_cases with (m := m) in H; [|exact Hm].
  unfold wake_cases in H. cbv zeta in H.
  destruct H as [H|[H|[H|H]]].
  - exfalso. destruct H as ((b0 & cc0 & mid & -> & Hq) & Hv). eapply Hng. left. reflexivity.
  - exfalso. destruct H as (_ & (b0 & cc0 & mid & lc & lrc & -> & Hq) & Hv). eapply Hng. left. reflexivity.
  - destruct H as (Hz & _ & Hv). split; [|exact Hv]. apply N.ltb_ge in Hz. lia.
  - exfalso. destruct H as (_ & (site & Hx) & _). exact (Hnp _ Hx).
Qed.

Lemma wake_value_once s k r via m s' ev :
  wake_grant s k r via = (s', ev) -> aget (mgrs s) k = Some m ->
  applied_at_most_once (l_cmd (getl s r)) (has_data_flag (l_cmd (getl s r))) s k s' ev.
Proof.
  intros H Hm. apply wake_grant_cases with (m := m) in H; [|exact Hm]. unfold wake_cases in H. cbv zeta in H.
  destruct H as [H|[H|[H|H]]].
  - destruct H as (_ & Hv). eapply value_effect_once; eauto.
  - destruct H as (_ & _ & Hv). eapply value_effect_once; eauto.
  - destruct H as (_ & _ & Hv). eapply value_effect_once; eauto.
  - destruct H as (_ & _ & Hv). eapply value_effect_once; eauto.
Qed.

(* ------------------------------------------------------------------ one iteration of wakeUpWaitLocks *)
(* either nothing is served (no event, no value changes) or the first live waiter r of the queue is served by
   wake_grant in the state s1 reached by popping dead entries (which changes no value, holder count or waited flag) *)
Lemma wake_iter_value s w s' ev res :
  wake_iter s w = (s', ev, res) ->
  (res = WDone /\ ev = [] /\ vals_kept s s')
  \/ (res = WMore
      /\ exists s1 r m, get_wait_lock s (w_key w) = (s1, Some r)
         /\ vals_kept s s1 /\ (forall k0, gd s1 k0 = gd s k0)
         /\ aget (mgrs s) (w_key w) = Some m
         /\ exists m1, aget (mgrs s1) (w_key w) = Some m1 /\ m_locked m1 = m_locked m /\ m_waited m1 = m_waited m
         /\ wake_cases s1 (w_key w) r m1 s' ev).
Proof.
  intros H. unfold wake_iter in H.
  destruct (aget (mgrs s) (w_key w)) as [m|] eqn:Em.
  2:{ inv_tuple H. left. split; [reflexivity|]. split; [reflexivity|]. apply vals_kept_refl. }
  destruct (negb (m_waited m)).
  { inv_tuple H. left. split; [reflexivity|]. split; [reflexivity|]. apply vals_kept_refl. }
  destruct (get_wait_lock s (w_key w)) as [s1 wl] eqn:Eg.
  assert (H1 : mrel le_core false s s1) by rd.
  assert (Hk1 : vals_kept s s1) by (apply vals_kept_of_mrel, mrel_rm_weaken, mrel_core_data, H1).
  destruct wl as [r|].
  - destruct (negb (do_lock s1 (w_key w) r)).
    { inv_tuple H. left. split; [reflexivity|]. split; [reflexivity|]. exact Hk1. }
    destruct (wake_grant s1 (w_key w) r (w_conn w)) as [s2 ev2] eqn:Ew. inv_tuple H.
    right. split; [reflexivity|]. exists s1, r, m. split; [reflexivity|]. split; [exact Hk1|].
    split; [intros k0; apply mrel_core_gd, H1|]. split; [reflexivity|].
    destruct (mrel_false_exists _ _ _ _ _ H1 Em) as (m1 & Hm1).
    destruct (mrel_core_getm s s1 (w_key w) H1) as (_ & Hl & Hw).
    rewrite (getm_some _ _ _ Em), (getm_some _ _ _ Hm1) in Hl, Hw.
    exists m1. split; [exact Hm1|]. split; [exact Hl|]. split; [exact Hw|].
    eapply wake_grant_cases; eauto.
  - inv_tuple H. left. split; [reflexivity|]. split; [reflexivity|].
    apply vals_kept_of_mrel. apply mrel_remove_mgr; [reflexivity|].
    apply mrel_updm; [rd|intros; reflexivity|]. apply mrel_rm_weaken, mrel_core_data, H1.
Qed.
