(* Timer theorems, part 7: which critical sections can emit a TIMEOUT / EXPRIED reply. *)
From Coq Require Import String ZifyN ZifyBool ZifyNat.
From Slock Require Import Engine.Types Engine.Queues Engine.Timers Engine.Engine Engine.Engine2 Engine.TimeBase.
Open Scope N_scope.

Definition reply_code (e : event) : option N :=
  match e with EReply _ _ res _ _ _ _ _ _ => Some res | _ => None end.
Definition is_tr (e : event) : bool := match reply_code e with Some res => res =? R_TIMEOUT | None => false end.
Definition is_er (e : event) : bool := match reply_code e with Some res => res =? R_EXPRIED | None => false end.

(* no TIMEOUT and no EXPRIED reply *)
Definition quiet (ev : list event) : Prop := forall e, In e ev -> is_tr e = false /\ is_er e = false.

Lemma quiet_nil : quiet [].
Proof. intros e []. Qed.
Lemma quiet_app a b : quiet a -> quiet b -> quiet (a ++ b).
Proof. intros A B e I. apply in_app_iff in I. destruct I; auto. Qed.
Lemma quiet_cons e a : is_tr e = false -> is_er e = false -> quiet a -> quiet (e :: a).
Proof. intros A B Q x [<-|I]; auto. Qed.
Lemma quiet_app_inv a b : quiet (a ++ b) -> quiet a /\ quiet b.
Proof. intros Q. split; intros e I; apply Q; apply in_app_iff; auto. Qed.

#[export] Hint Resolve quiet_nil quiet_app : quiet.

Lemma quiet_process_data s k r c rc : quiet (snd (process_data s k r c rc)).
Proof.
  unfold process_data. destruct (c_data c); [|apply quiet_nil].
  destruct (process_lock_data _ _ _ _) as [[cur' ld']| | |]; cbn; try apply quiet_nil;
    apply quiet_cons; auto using quiet_nil.
Qed.

Lemma quiet_push_lock_aof s k r fl : quiet (snd (push_lock_aof s k r fl)).
Proof.
  unfold push_lock_aof. destruct (negb (leader s)); [apply quiet_nil|].
  destruct (has _ _); [apply quiet_nil|].
  destruct (aof_lock_data _ _ _) as [[d cur'] ld']. cbn. apply quiet_cons; auto using quiet_nil.
Qed.

Lemma quiet_push_unlock_aof s k r lc uc ia fl : quiet (snd (push_unlock_aof s k r lc uc ia fl)).
Proof.
  unfold push_unlock_aof. destruct (negb (leader s)); [apply quiet_nil|].
  destruct (match uc with Some u => _ | None => _ end); [apply quiet_nil|].
  destruct (aof_lock_data _ _ _) as [[d cur'] ld']. cbn. apply quiet_cons; auto using quiet_nil.
Qed.

Lemma quiet_repeat_push n : forall s k r, quiet (snd (repeat_push_lock_aof n s k r)).
Proof.
  induction n as [|n IH]; intros s k r; cbn; [apply quiet_nil|].
  pose proof (quiet_push_lock_aof s k r 0) as A. destruct (push_lock_aof s k r 0) as [s1 e1].
  specialize (IH s1 k r). destruct (repeat_push_lock_aof n s1 k r) as [s2 e2]. cbn in *. apply quiet_app; auto.
Qed.

Lemma quiet_add_expried s k r : quiet (snd (add_expried s k r)).
Proof.
  unfold add_expried. cbv zeta.
  match goal with |- context [if ?b then repeat_push_lock_aof ?n ?a ?k0 ?r0 else (?x, [])] =>
    destruct b; [apply quiet_repeat_push|apply quiet_nil] end.
Qed.

Lemma quiet_reply conn c res lc lrc d : res <> R_TIMEOUT -> res <> R_EXPRIED -> quiet [reply conn c res lc lrc d].
Proof.
  intros A B. apply quiet_cons; [| |apply quiet_nil]; unfold is_tr, is_er, reply; cbn; apply N.eqb_neq; auto.
Qed.

Ltac break_inner_e :=
  match goal with
  | |- context [match ?X with _ => _ end] =>
      lazymatch X with
      | context [match _ with _ => _ end] => fail
      | _ => destruct X eqn:?
      end
  end.

Ltac quiet_hyps :=
  repeat match goal with
  | E : process_data ?s ?k ?r ?c ?rc = (_, ?ev) |- _ =>
      lazymatch goal with Q : quiet ev |- _ => fail | _ =>
        let Q := fresh "Q" in pose proof (quiet_process_data s k r c rc) as Q; rewrite E in Q; cbn [snd] in Q end
  | E : push_lock_aof ?s ?k ?r ?fl = (_, ?ev) |- _ =>
      lazymatch goal with Q : quiet ev |- _ => fail | _ =>
        let Q := fresh "Q" in pose proof (quiet_push_lock_aof s k r fl) as Q; rewrite E in Q; cbn [snd] in Q end
  | E : push_unlock_aof ?s ?k ?r ?lc ?uc ?ia ?fl = (_, ?ev) |- _ =>
      lazymatch goal with Q : quiet ev |- _ => fail | _ =>
        let Q := fresh "Q" in pose proof (quiet_push_unlock_aof s k r lc uc ia fl) as Q; rewrite E in Q; cbn [snd] in Q end
  | E : add_expried ?s ?k ?r = (_, ?ev) |- _ =>
      lazymatch goal with Q : quiet ev |- _ => fail | _ =>
        let Q := fresh "Q" in pose proof (quiet_add_expried s k r) as Q; rewrite E in Q; cbn [snd] in Q end
  end.

Ltac quiet_tac :=
  repeat first
    [ assumption
    | apply quiet_nil
    | apply quiet_app
    | apply quiet_reply; [intros ?X; discriminate X|intros ?X; discriminate X]
    | apply quiet_cons; [reflexivity|reflexivity|] ].

(* ------------------------------------------------------------------ wake-up passes *)
Lemma quiet_wake_grant s k r via : quiet (snd (wake_grant s k r via)).
Proof.
  unfold wake_grant. cbv zeta. repeat break_inner_e; cbn [snd]; quiet_hyps; quiet_tac.
Qed.

Lemma quiet_wake_iter s w : quiet (snd (fst (wake_iter s w))).
Proof.
  unfold wake_iter. destruct (aget (mgrs s) (w_key w)); [|apply quiet_nil].
  destruct (negb (m_waited m)); [apply quiet_nil|].
  destruct (get_wait_lock s (w_key w)) as [s1 [r|]]; [|apply quiet_nil].
  destruct (negb (do_lock s1 (w_key w) r)); [apply quiet_nil|].
  pose proof (quiet_wake_grant s1 (w_key w) r (w_conn w)) as Q.
  destruct (wake_grant s1 (w_key w) r (w_conn w)) as [s2 ev]. exact Q.
Qed.

Lemma quiet_run_wake fuel : forall s w, quiet (snd (run_wake fuel s w)).
Proof.
  induction fuel as [|f IH]; intros s w; cbn.
  - apply quiet_cons; auto using quiet_nil.
  - pose proof (quiet_wake_iter s w) as Q. destruct (wake_iter s w) as [[s1 ev] [|]]; cbn [fst snd] in *; auto.
    specialize (IH s1 w). destruct (run_wake f s1 w) as [s2 ev2]. cbn [snd] in *. apply quiet_app; auto.
Qed.

(* the events of `finish res` are those of res followed by a quiet wake-up pass *)
Lemma finish_events res : exists wev, snd (finish res) = snd (fst res) ++ wev /\ quiet wev.
Proof.
  destruct res as [[s ev] [w|]]; cbn [finish fst snd].
  - pose proof (quiet_run_wake (wake_fuel s (w_key w)) s w) as Q. destruct (run_wake _ s w) as [s2 ev2].
    exists ev2. split; auto.
  - exists []. rewrite app_nil_r. split; auto using quiet_nil.
Qed.

(* ------------------------------------------------------------------ doTimeOut / doExpried *)
Theorem do_timeout_live_events s r l :
  aget (store s) r = Some l -> l_timeouted l = false ->
  exists ev1 lc lrc d,
    snd (fst (do_timeout s r)) = ev1 ++ [reply (l_conn l) (l_cmd l) R_TIMEOUT lc lrc d] /\ quiet ev1.
Proof.
  intros G T. unfold do_timeout. rewrite G, T. cbv zeta.
  match goal with |- context [let '(_, _) := ?X in _] => destruct X as [s0 ev1] eqn:E end.
  cbn [fst snd]. exists ev1. eexists _, _, _. split; [reflexivity|].
  revert E. repeat break_inner_e; intros [= <- <-]; quiet_hyps; quiet_tac.
Qed.

Lemma do_timeout_dead_events s r l :
  aget (store s) r = Some l -> l_timeouted l = true -> snd (fst (do_timeout s r)) = [].
Proof. intros G T. unfold do_timeout. rewrite G, T. reflexivity. Qed.

Lemma do_timeout_absent_events s r :
  aget (store s) r = None -> quiet (snd (fst (do_timeout s r))).
Proof. intros G. unfold do_timeout. rewrite G. cbn. apply quiet_cons; auto using quiet_nil. Qed.

Lemma do_expried_no_timeout s r : forall e, In e (snd (fst (do_expried s r))) -> is_tr e = false.
Proof.
  unfold do_expried. destruct (aget (store s) r) as [l|]; [|intros e [<-|[]]; reflexivity].
  cbv zeta. repeat break_inner_e; cbn [fst snd]; quiet_hyps; intros e I;
    repeat (apply in_app_iff in I; destruct I as [I|I]); cbn [In] in I;
    try (destruct I as [<-|I]; [reflexivity|]); try (destruct I); try (match goal with Q : quiet ?ev, I : In e ?ev |- _ => apply (Q e I) end).
Qed.
