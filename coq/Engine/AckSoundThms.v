(* C11 soundness, part 3: the run theorems.  Every theorem named `_partial` has ONE hypothesis besides `ack_core`: the
   closed proposition `EngineAccounting` (AckSoundDefs.v) -- the existence of an engine invariant that accounts for the
   reference taken for the acknowledgement path; everything about the acknowledgement layer itself is proved.
   Also: an executable checker for `ack_core` (used by the non-vacuity examples) and the facts about the registration
   table that need no hypothesis at all. *)
From Coq Require Import String ZifyN ZifyBool ZifyNat.
From Slock Require Import Engine.Types Engine.Queues Engine.Timers Engine.Engine Engine.Engine2 Engine.Ack.
From Slock Require Import Engine.AckProofsBase Engine.AckProofsAck Engine.AckProofsWait Engine.AckProofsTimeout
  Engine.AckProofsGrant Engine.AckProofsRel Engine.AckProofsGlobal Engine.AckProofsUnreg Engine.AckSoundDefs
  Engine.AckSoundLayer.
Open Scope N_scope.

(* ================================================================== an executable checker for ack_core *)
Fixpoint nodupb (l : list N) : bool :=
  match l with [] => true | x :: t => negb (existsb (N.eqb x) t) && nodupb t end.
Lemma nodupb_sound l : nodupb l = true -> NoDup l.
Proof.
  induction l as [|x t IH]; simpl; intros H; [constructor|]. apply andb_prop in H. destruct H as [H1 H2].
  constructor; auto. intros Hin. apply negb_true_iff in H1.
  assert (existsb (N.eqb x) t = true) by (apply existsb_exists; exists x; split; auto; apply N.eqb_refl). congruence.
Qed.

Definition rec_fresh_b (s' : db) (e : event) : bool :=
  match e with
  | EAof a => if a_lock a then match a_ref a with Some r => negb (l_ack (getl s' r) =? 255) | None => true end else true
  | _ => true
  end.
Definition sweep_regs_fresh_b (s : db) : bool :=
  forallb (rec_fresh_b (fst (sweep_timeouts s))) (snd (sweep_timeouts s)).
Lemma sweep_regs_fresh_b_sound s : sweep_regs_fresh_b s = true -> sweep_regs_fresh s.
Proof.
  unfold sweep_regs_fresh_b, sweep_regs_fresh. intros H a r Hin Al Ar. rewrite forallb_forall in H.
  specialize (H _ Hin). cbn [rec_fresh_b] in H. rewrite Al, Ar in H. apply negb_true_iff, N.eqb_neq in H. exact H.
Qed.

Definition step_cond_b (st : astate) (a : aaction) : bool :=
  match a with
  | AAckEvt i _ => i <? a_next st
  | AAct ASweepT => sweep_regs_fresh_b (a_db st)
  | _ => true
  end.
Lemma step_cond_b_sound st a : step_cond_b st a = true -> step_cond st a.
Proof.
  destruct a as [a|i ok]; cbn; [|apply N.ltb_lt]. destruct a; cbn; auto. apply sweep_regs_fresh_b_sound.
Qed.

Fixpoint run_conds_b (st : astate) (acts : list aaction) : bool :=
  match acts with
  | [] => true
  | a :: rest => step_cond_b st a && run_conds_b (fst (astep st a)) rest
  end.
Lemma run_conds_b_sound acts : forall st, run_conds_b st acts = true -> run_conds st acts.
Proof.
  induction acts as [|a rest IH]; simpl; intros st H; [exact I|]. apply andb_prop in H. destruct H as [H1 H2].
  split; [apply step_cond_b_sound; exact H1|apply IH; exact H2].
Qed.

Definition ack_core_b (t0 : Z) (aoft cfg : N) (acts : list aaction) : bool :=
  negb (aoft =? 255) && (1 <=? cfg) && (cfg <? 255) && forallb aact_ok acts && nodupb (reqids acts)
  && run_conds_b (init_astate t0 aoft cfg) acts.

Theorem ack_core_b_sound t0 aoft cfg acts : ack_core_b t0 aoft cfg acts = true -> ack_core t0 aoft cfg acts.
Proof.
  unfold ack_core_b. rewrite !andb_true_iff. intros [[[[[H1 H2] H3] H4] H5] H6].
  constructor.
  - apply negb_true_iff, N.eqb_neq in H1. exact H1.
  - apply N.leb_le in H2. apply N.ltb_lt in H3. auto.
  - apply Forall_forall. rewrite forallb_forall in H4. exact H4.
  - apply nodupb_sound. exact H5.
  - apply run_conds_b_sound. exact H6.
Qed.

(* ================================================================== prefixes *)
Lemma reqids_app a b : reqids (a ++ b) = reqids a ++ reqids b.
Proof. unfold reqids. apply flat_map_app. Qed.

Lemma run_conds_app a1 : forall st a2, run_conds st (a1 ++ a2) -> run_conds st a1 /\ run_conds (fst (arun st a1)) a2.
Proof.
  induction a1 as [|a rest IH]; simpl; intros st a2 H; [auto|]. destruct H as [H1 H2].
  destruct (astep st a) as [st1 e1] eqn:St. cbn [fst] in *. destruct (IH _ _ H2) as [H3 H4].
  destruct (arun st1 rest) as [st2 es]. cbn [fst] in *. auto.
Qed.

Lemma ack_core_prefix t0 aoft cfg pre post : ack_core t0 aoft cfg (pre ++ post) -> ack_core t0 aoft cfg pre.
Proof.
  intros [C1 C2 C3 C4 C5]. constructor; auto.
  - apply Forall_app in C3. tauto.
  - unfold unique_reqids in *. rewrite reqids_app in C4. eapply NoDup_app_left; eauto.
  - apply run_conds_app in C5. tauto.
Qed.

(* ================================================================== facts that need no hypothesis: the table *)
(* ProcessLeaderPushLock refuses a RequestId that is already registered: the table never holds a RequestId twice *)
Definition reqs_nodup (st : astate) : Prop := NoDup (regq st).

Lemma reg_has_req_not_in reg q : reg_has_req reg q = false -> ~ In q (map (fun e => fst (snd e)) reg).
Proof.
  induction reg as [|[j [q' r']] rest IH]; simpl; [intros _ []|]. intros H. apply orb_false_iff in H. destruct H as [H1 H2].
  intros [->|Hin]; [rewrite N.eqb_refl in H1; discriminate|]. apply IH; auto.
Qed.

Lemma register_rq st r st' ev : reqs_nodup st -> register st r = (st', ev) -> reqs_nodup st'.
Proof.
  unfold reqs_nodup, regq. intros I H. unfold register in H. cbv zeta in H. cbn [a_db a_cfg a_reg a_next] in H.
  destruct (aget (store (a_db st)) r); [|inv H; exact I].
  destruct (negb (leader (a_db st))) eqn:Ld; cbn [orb] in H.
  - destruct (finish (do_ack (a_db st) r false)) as [s1 e1]. inv H. exact I.
  - destruct (reg_has_req (a_reg st) (c_req (l_cmd (getl (a_db st) r)))) eqn:Hq.
    + destruct (finish (do_ack (a_db st) r false)) as [s1 e1]. inv H. exact I.
    + inv H. cbn [a_reg]. rewrite map_app. cbn [map fst snd]. apply NoDup_app_one; auto. apply reg_has_req_not_in. exact Hq.
Qed.

Lemma unregister_rq st r st' ev : reqs_nodup st -> unregister st r = (st', ev) -> reqs_nodup st'.
Proof.
  unfold reqs_nodup, regq. intros I H. unfold unregister in H. cbv zeta in H.
  destruct (aget (store (a_db st)) r) as [l|]; [|inv H; auto].
  destruct (reg_find_req (a_reg st) (c_req (l_cmd l))) as [[j r0]|]; [|inv H; auto].
  destruct (finish (do_ack (a_db st) r false)) as [s1 e1]. inv H. cbn [a_reg]. apply NoDup_map_filter. exact I.
Qed.

Lemma post_go_rq fuel : forall st todo acc st' ev, reqs_nodup st -> post_go fuel st todo acc = (st', ev) -> reqs_nodup st'.
Proof.
  induction fuel as [|f IH]; simpl; intros st todo acc st' ev G H.
  - inv H. exact G.
  - destruct todo as [|e rest]; [inv H; exact G|].
    destruct e; eauto.
    destruct (a_ref r) as [x|]; eauto. destruct (leader (a_db st)); eauto.
    destruct (a_lock r).
    + destruct (register st x) as [st1 e1] eqn:Eq. eapply IH; [|exact H]. eapply register_rq; eauto.
    + destruct (unregister st x) as [st1 e1] eqn:Eq. eapply IH; [|exact H]. eapply unregister_rq; eauto.
Qed.

Lemma astep_rq st a st' ev : reqs_nodup st -> astep st a = (st', ev) -> reqs_nodup st'.
Proof.
  intros I H. destruct a as [a|j ok]; cbn [astep] in H.
  - unfold with_post in H. destruct (step (a_db st) a) as [s e]. eapply post_go_rq; [|exact H]. exact I.
  - unfold ack_event in H. destruct (reg_find (a_reg st) j) as [[q r]|]; [|inv H; auto]. cbv zeta in H.
    assert (D : reqs_nodup (mkA (a_db st) (a_cfg st) (reg_del (a_reg st) j) (a_next st))).
    { unfold reqs_nodup, regq. cbn [a_reg]. apply NoDup_map_filter. exact I. }
    match type of H with (if ?c then _ else _) = _ => destruct c end.
    + unfold with_post in H. destruct (finish _) as [s e]. eapply post_go_rq; [|exact H]. exact D.
    + match type of H with (if ?c then _ else _) = _ => destruct c end.
      * inv H. exact I.
      * unfold with_post in H. destruct (finish _) as [s e]. eapply post_go_rq; [|exact H]. exact D.
Qed.

(* every run, no hypothesis: registrations have pairwise distinct RequestIds (and issued indices: arun_idx) *)
Theorem registrations_distinct_requests : forall acts st, reqs_nodup st -> reqs_nodup (fst (arun st acts)).
Proof.
  induction acts as [|a rest IH]; simpl; intros st G; [exact G|].
  destruct (astep st a) as [st1 e1] eqn:Eq. specialize (IH st1 (astep_rq _ _ _ _ G Eq)).
  destruct (arun st1 rest) as [st2 es]. exact IH.
Qed.

(* ================================================================== the run theorems *)
(* (a) reg_sound before every action, and the monitor of the existing run theorems *)
Theorem sound_monitor_partial : EngineAccounting -> forall t0 aoft cfg acts,
  ack_core t0 aoft cfg acts -> arun_ok2 (init_astate t0 aoft cfg) acts = true.
Proof. intros [E EC] t0 aoft cfg acts C. apply (ack_core_run_ok E EC t0 aoft cfg acts C). Qed.

Theorem sound_reg_sound_partial : EngineAccounting -> forall t0 aoft cfg pre post,
  ack_core t0 aoft cfg (pre ++ post) -> reg_sound (fst (arun (init_astate t0 aoft cfg) pre)) = true.
Proof.
  intros [E EC] t0 aoft cfg pre post C. apply ack_core_prefix in C.
  destruct (ack_core_run_ok E EC t0 aoft cfg pre C) as [_ (Q & A)].
  eapply (reg_sound_ainv E EC cfg); eauto.
Qed.

(* (b) the invariant, spelled out *)
Theorem sound_invariant_partial : EngineAccounting -> forall t0 aoft cfg acts,
  ack_core t0 aoft cfg acts ->
  let st := fst (arun (init_astate t0 aoft cfg) acts) in
  (* every registration: the record is allocated, carries the registered RequestId, is pending with a counter in
     1 .. ackCount-range, is a hold whose timeout is armed *)
  (forall i q r, In (i, (q, r)) (a_reg st) ->
     exists l, aget (store (a_db st)) r = Some l /\ c_req (l_cmd l) = q /\ l_ack l <> 255 /\ 0 < l_ack l
               /\ l_locked l <> 0 /\ l_expried l = true /\ l_timeouted l = false)
  (* conversely every pending record is registered, exactly once *)
  /\ (forall r, l_ack (getl (a_db st) r) <> 255 -> exists i q, In (i, (q, r)) (a_reg st))
  /\ NoDup (regs st)
  /\ idx_ok st /\ NoDup (map fst (a_reg st)) /\ NoDup (regq st)
  /\ leader (a_db st) = true.
Proof.
  intros [E EC] t0 aoft cfg acts C st.
  destruct (ack_core_run_ok E EC t0 aoft cfg acts C) as [_ (Q & A)]. fold st in A.
  pose proof A as [M1 M2 M3 M4 M5 M6 M7]. cbn [lock_refs flat_map] in M2. rewrite app_nil_r in M2.
  destruct C as [_ C2 _ _ _].
  split; [|split; [|split; [|split; [|split; [|split]]]]].
  - intros i q r Hin. destruct (minv_regs_alloc E EC cfg _ _ _ _ A (in_regs _ _ _ _ Hin)) as (l & Hl).
    destruct (M3 _ _ _ Hin) as [Cq [Ca|[]]]. unfold creq_of in Cq. rewrite (getl_of _ _ _ Hl) in *.
    assert (Pn : pend (a_db st) r) by (unfold pend; rewrite (getl_of _ _ _ Hl); lia).
    destruct (ec_shape E EC _ _ _ r M2 (in_regs _ _ _ _ Hin) Pn) as (S1 & S2 & S3 & _). rewrite (getl_of _ _ _ Hl) in *.
    exists l. repeat split; auto; lia.
  - intros r Pn. pose proof (ec_pend E EC _ _ _ r M2 Pn) as Hr. unfold regs in Hr. apply in_map_iff in Hr.
    destruct Hr as ([i [q r']] & Er & He). cbn in Er. subst r'. eauto.
  - eapply (ec_nodup E EC); eauto.
  - exact M6.
  - exact M7.
  - apply (registrations_distinct_requests acts (init_astate t0 aoft cfg)). constructor.
  - eapply (ec_leader E EC); eauto.
Qed.

(* (c) SUCCED needs the quorum and answers the registered request *)
Theorem sound_succed_needs_quorum_partial : EngineAccounting -> forall t0 aoft cfg pre i,
  ack_core t0 aoft cfg (pre ++ [AAckEvt i true]) ->
  let st := fst (arun (init_astate t0 aoft cfg) pre) in
  forall e, In e (snd (ack_event st i true)) -> is_succed e = true ->
  exists q r l, reg_find (a_reg st) i = Some (q, r) /\ aget (store (a_db st)) r = Some l /\ c_req (l_cmd l) = q
    /\ reply_for (l_conn l) q e
    /\ (count_evt pre i true + 1 = N.to_nat cfg)%nat /\ count_evt pre i false = 0%nat
    /\ ack_event st i true = with_post (drop_reg (set_ack st r 0) i) (finish (do_ack (a_db (set_ack st r 0)) r true)).
Proof.
  intros EA t0 aoft cfg pre i C st e He Hs.
  pose proof (sound_monitor_partial EA _ _ _ _ C) as OK2.
  destruct (reg_find (a_reg st) i) as [[q r]|] eqn:F.
  2:{ rewrite (ack_event_unknown st i true F) in He. destruct He. }
  destruct (late_ack_never_answers_another_request cfg t0 aoft pre i true q r OK2 F) as (l & Hl & Cq & Pos & _).
  fold st in Pos. specialize (Pos eq_refl). rewrite Forall_forall in Pos.
  pose proof (sound_invariant_partial EA _ _ _ _ (ack_core_prefix _ _ _ _ _ C)) as Inv. cbv zeta in Inv. fold st in Inv.
  destruct Inv as (I1 & _). destruct (I1 _ _ _ (reg_find_in _ _ _ F)) as (l' & Hl' & _ & A255 & _).
  assert (l' = l) by (unfold st in *; congruence). subst l'.
  assert (OK1 : arun_ok (init_astate t0 aoft cfg) pre = true).
  { apply arun_ok2_ok. rewrite arun_ok2_app in OK2. apply andb_prop in OK2. tauto. }
  destruct C as [_ C2 _ _ _].
  assert (Ne : snd (ack_event st i true) <> []) by (intros Hn; rewrite Hn in He; destruct He).
  destruct (ack_completion_needs_quorum cfg t0 aoft pre i q r) as (Q1 & Q2 & Q3); auto; try lia.
  { cbv zeta. unfold st in *. unfold getl. rewrite Hl. exact A255. }
  exists q, r, l. repeat split; auto.
Qed.

(* a negative acknowledgement on registration i: DoAckLock(false) runs on the registered record, answers the
   registered request exactly once with ERROR, removes the hold, leaves a wake-up pass pending; the registration is
   gone for good *)
Theorem sound_negative_ack_rolls_back_partial : EngineAccounting -> forall t0 aoft cfg pre i q r,
  ack_core t0 aoft cfg (pre ++ [AAckEvt i false]) ->
  let st := fst (arun (init_astate t0 aoft cfg) pre) in
  reg_find (a_reg st) i = Some (q, r) ->
  exists l, aget (store (a_db st)) r = Some l /\ c_req (l_cmd l) = q
    /\ ack_event st i false = with_post (drop_reg st i) (finish (do_ack (a_db st) r false))
    /\ (forall s' ev w, do_ack (a_db st) r false = (s', ev, w) ->
          w = Some (mkWake (l_key l) None)
          /\ (exists lc lrc d, ends_with ev (ack_reply l R_ERROR lc lrc d))
          /\ (exists rest, ev = ERelease (l_key l) r (l_locked l) :: rest)
          /\ l_locked (getl s' r) = 0 /\ l_ack (getl s' r) = 255
          /\ Forall (reply_for (l_conn l) q) ev)
    /\ (forall acts ok, let st2 := fst (arun (fst (ack_event st i false)) acts) in ack_event st2 i ok = (st2, [])).
Proof.
  intros EA t0 aoft cfg pre i q r C st F.
  pose proof (sound_invariant_partial EA _ _ _ _ (ack_core_prefix _ _ _ _ _ C)) as Inv. cbv zeta in Inv. fold st in Inv.
  destruct Inv as (I1 & _ & _ & Ix & _). destruct (I1 _ _ _ (reg_find_in _ _ _ F)) as (l & Hl & Cq & A255 & _ & Lk & Ex & _).
  exists l. split; [exact Hl|]. split; [exact Cq|]. split; [eapply ack_event_fails; eauto|]. split.
  - intros s' ev w D. destruct (do_ack_failed _ _ _ _ _ _ Hl A255 Ex Lk D) as (W & R & Rl & L0 & A0 & _).
    repeat split; auto. rewrite <- Cq. eapply do_ack_answers_own; eauto.
  - intros acts ok st2. apply gone_ack_event. apply arun_gone.
    rewrite (ack_event_fails st i false q r F (or_introl eq_refl)).
    destruct (with_post (drop_reg st i) (finish (do_ack (a_db st) r false))) as [st' ev'] eqn:W. cbn [fst].
    eapply (with_post_gone st (reg_del (a_reg st) i)); [|apply reg_find_del_same|exact W].
    apply (Ix (i, (q, r))). apply reg_find_in. exact F.
Qed.

(* (d) while a registration exists its hold is pending: every request that names it is answered LOCK_ACK_WAITING and
   changes nothing (Lock: state unchanged; UnLock: only the unlock-error counter) *)
Theorem sound_pending_means_ack_waiting_partial : EngineAccounting -> forall t0 aoft cfg acts,
  ack_core t0 aoft cfg acts ->
  let st := fst (arun (init_astate t0 aoft cfg) acts) in
  let s := a_db st in
  forall i q r, In (i, (q, r)) (a_reg st) ->
  l_ack (getl s r) <> 255
  /\ (forall conn c m,
        lock_precheck s conn c = None -> aget (mgrs s) (c_key c) = Some m -> m_locked m <> 0 ->
        (has (c_flag c) LOCK_FLAG_SHOW = false \/ has (c_flag c) LOCK_FLAG_UPDATE = true) ->
        get_locked_lock s m (c_lockid (lock_target s m c)) = Some r ->
        lock_step s conn c =
          (s, [reply conn (lock_target s m c) R_ACK_WAITING (m_locked m) (l_locked (getl s r)) (data_of s (c_key c))], None))
  /\ (forall conn c m,
        aget (mgrs s) (c_key c) = Some m -> m_locked m <> 0 -> get_locked_lock s m (c_lockid c) = Some r ->
        unlock_step s conn c =
          (count_unlock_error s, [reply conn c R_ACK_WAITING (m_locked m) (l_locked (getl s r)) (data_of s (c_key c))], None))
  /\ (forall conn c m,
        aget (mgrs s) (c_key c) = Some m -> m_locked m <> 0 -> get_locked_lock s m (c_lockid c) = None ->
        has (c_flag c) UNLOCK_FLAG_FIRST = true -> m_cur m = Some r ->
        unlock_step s conn c =
          (count_unlock_error s, [reply conn c R_ACK_WAITING (m_locked m) (l_locked (getl s r)) (data_of s (c_key c))], None)).
Proof.
  intros EA t0 aoft cfg acts C st s i q r Hin.
  pose proof (sound_invariant_partial EA _ _ _ _ C) as Inv. cbv zeta in Inv. fold st in Inv.
  destruct Inv as (I1 & _ & _ & _ & _ & _ & Ld). fold s in Ld.
  destruct (I1 _ _ _ Hin) as (l & Hl & _ & A255 & _). fold s in Hl.
  assert (Pn : l_ack (getl s r) <> 255) by (rewrite (getl_of _ _ _ Hl); exact A255).
  split; [exact Pn|]. split; [|split].
  - intros conn c m H1 H2 H3 H4 H5. eapply lock_ack_waiting; eauto.
  - intros conn c m H2 H3 H5. eapply unlock_ack_waiting; eauto.
  - intros conn c m H2 H3 H5 H6 H7. eapply unlock_first_ack_waiting; eauto.
Qed.

(* (e) the acknowledgement timeout of a registered hold: doTimeOut answers the registered request exactly once with
   TIMEOUT, removes the hold, leaves a wake-up pass pending; the hold's UNLOCK record then drops the registration
   (unlock_record_drops_registration, every state with issued indices) *)
Theorem sound_ack_timeout_rolls_back_partial : EngineAccounting -> forall t0 aoft cfg acts,
  ack_core t0 aoft cfg acts ->
  let st := fst (arun (init_astate t0 aoft cfg) acts) in
  forall i q r, In (i, (q, r)) (a_reg st) ->
  exists l, aget (store (a_db st)) r = Some l /\ c_req (l_cmd l) = q
    /\ reg_find_req (a_reg st) q = Some (i, r)
    /\ forall s' ev w, do_timeout (a_db st) r = (s', ev, w) ->
         w = Some (mkWake (l_key l) None)
         /\ (exists lc lrc d, ends_with ev (ack_reply l R_TIMEOUT lc lrc d))
         /\ (exists rest, ev = ERelease (l_key l) r (l_locked l) :: rest)
         /\ l_locked (getl s' r) = 0 /\ l_ack (getl s' r) = 255.
Proof.
  intros EA t0 aoft cfg acts C st i q r Hin.
  pose proof (sound_invariant_partial EA _ _ _ _ C) as Inv. cbv zeta in Inv. fold st in Inv.
  destruct Inv as (I1 & _ & NDr & _ & NDi & NDq & _).
  destruct (I1 _ _ _ Hin) as (l & Hl & Cq & A255 & _ & Lk & Ex & Tm).
  exists l. split; [exact Hl|]. split; [exact Cq|]. split.
  - destruct (reg_find_req (a_reg st) q) as [[j r0]|] eqn:Fr.
    + pose proof (reg_find_req_in _ _ _ _ Fr) as Hj.
      assert (H : (j, (q, r0)) = (i, (q, r))).
      { clear -NDq Hj Hin. unfold regq in NDq. revert NDq Hj Hin. generalize (a_reg st). intros reg.
        induction reg as [|x rest IH]; simpl; [intros _ []|]. intros N H1 H2. inversion N; subst.
        destruct H1 as [E1|H1], H2 as [E2|H2]; [congruence| | |].
        - exfalso. subst x. apply H3. apply in_map_iff. exists (i, (q, r)). split; [reflexivity|assumption].
        - exfalso. subst x. apply H3. apply in_map_iff. exists (j, (q, r0)). split; [reflexivity|assumption].
        - apply IH; assumption. }
      inv H. reflexivity.
    + exfalso. apply (reg_find_req_none_in _ _ Fr _ Hin). reflexivity.
  - intros s' ev w D. destruct (do_timeout_pending_hold _ _ _ _ _ _ Hl Tm Lk D) as (W & R & Rl & L0 & A0 & _).
    auto.
Qed.
