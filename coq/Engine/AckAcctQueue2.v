(* FORK of Engine/InvQueue2.v on the definitions of AckAcctDef.v; AddLock is generalised to the acknowledgement grant (add_lock_ginv_gen). *)
(* Invariant proof, part 6: AddLock (holder queue push) and AddWaitLock (wait queue push). *)
From Coq Require Import String ZifyN ZifyBool ZifyNat Permutation.
From Slock Require Import Engine.Types Engine.Queues Engine.Timers Engine.Engine Engine.Engine2 Engine.InvDef Engine.InvBase Engine.AckAcctDef
  Engine.AckAcctPrims Engine.AckAcctRec Engine.AckAcctWheel Engine.AckAcctQueue.
Open Scope N_scope.


Lemma length_zero_nil {A} (l : list A) : length l = O -> l = [].
Proof. destruct l; simpl; [auto|discriminate]. Qed.

Lemma grow_cap_ne0 c : c <> 0 -> grow_cap c <> 0.
Proof. unfold grow_cap. intros H. destruct (c =? 48); [lia|]. destruct (c =? 111); [lia|]. destruct (c =? 64); lia. Qed.

(* ---------------------------------------------------------------- LockManagerLockQueue.Push *)
Lemma hq_push_ginv s g k q r lr m :
  GInv s g -> g_dk g = k -> g_pw g = false -> (forall x, In x (hq_fast q) -> occ x (g_owe g) = O) (* ACK: was g_owe g = [] *) ->
  g_ph g = [] -> g_pre g = [r] ->
  aget (mgrs s) k = Some m -> holders m = cur_list m ++ hq_items q ->
  aget (store s) r = Some lr -> 0 < l_locked lr -> ~ In r (holders m) ->
  map_ok s q -> hq_capok q ->
  exists ph', let '(s', q') := hq_push s q r in
    GInv s' (g <| g_ph := ph' |>) /\ qframe s s'
    /\ (forall r0, (occ r0 (hq_items q') + occ r0 ph' = occ r0 (hq_items q) + occ r0 [r])%nat)
    /\ map_ok s' q' /\ hq_capok q' /\ aget (store s') r = Some lr.
Proof.
  intros G Hk Hpw Ho Hp Hq Hm Hhol Hr Hlive Hnin Hmap Hcap.
  assert (Hnq : ~ In r (hq_items q)) by (intros Hi; apply Hnin; rewrite Hhol; apply in_or_app; auto).
  unfold hq_push. destruct (hq_scale q) as [[items mp]|] eqn:Es.
  - (* scale queue *)
    exists (g_ph g). rewrite gph_id.
    split; [exact G|]. split; [apply qframe_refl|]. split; [|split; [|split; [|exact Hr]]].
    + intros r0. unfold hq_items. cbn. rewrite Es, Hp. rewrite !occ_app. simpl occ. lia.
    + intros items0 mp0 Hs id r1 H1. cbn in Hs. inversion Hs; subst items0 mp0. rewrite aget_aset in H1.
      destruct (c_lockid (l_cmd (getl s r)) =? id) eqn:E.
      * inversion H1; subst r1. apply N.eqb_eq in E. rewrite (getl_some _ _ _ Hr) in *. split; [apply in_or_app; right; simpl; auto|]. split; auto.
      * destruct (Hmap items mp Es id r1 H1) as [C1 [C2 C3]]. split; [apply in_or_app; auto|auto].
    + unfold hq_capok in *. cbn. exact Hcap.
  - destruct (hq_cap q =? 0) eqn:Ec.
    + (* nil slice *)
      apply N.eqb_eq in Ec. specialize (Hcap Ec).
      exists (g_ph g). rewrite gph_id. split; [exact G|]. split; [apply qframe_refl|]. split; [|split; [|split; [|exact Hr]]].
      * intros r0. unfold hq_items. cbn. rewrite Es, Hcap, Hp. simpl. lia.
      * intros items0 mp0 Hs. cbn in Hs. rewrite Es in Hs. discriminate.
      * unfold hq_capok. cbn. intros; discriminate.
    + apply N.eqb_neq in Ec. destruct (hq_len q <? hq_cap q) eqn:El.
      * exists (g_ph g). rewrite gph_id. split; [exact G|]. split; [apply qframe_refl|]. split; [|split; [|split; [|exact Hr]]].
        -- intros r0. unfold hq_items. cbn. rewrite Es, Hp, !occ_app. simpl. lia.
        -- intros items0 mp0 Hs. cbn in Hs. rewrite Es in Hs. discriminate.
        -- unfold hq_capok. cbn. intros; contradiction.
      * destruct (hq_fast q) as [|x0 t0] eqn:Ef.
        -- exists (g_ph g). rewrite gph_id. split; [exact G|]. split; [apply qframe_refl|]. split; [|split; [|split; [|exact Hr]]].
           ++ intros r0. unfold hq_items. cbn. rewrite Es, Ef, Hp. simpl. lia.
           ++ intros items0 mp0 Hs. cbn in Hs. rewrite Es in Hs. discriminate.
           ++ unfold hq_capok. cbn. intros; contradiction.
        -- (* compaction *)
           rewrite <- Ef.
           assert (Hitems : hq_items q = hq_fast q) by (unfold hq_items; rewrite Es, app_nil_r; auto).
           assert (Hrel : forall r0, (occ r0 (cur_list m ++ hq_fast q) + occ r0 (g_ph g) = occ r0 (phl s g))%nat).
           { intros r0. unfold phl. rewrite Hpw, Hk, (getm_some _ _ _ Hm), Hhol, Hitems, Hp. simpl. lia. }
           assert (Hpre0 : forall x, In x (hq_fast q) -> occ x (g_pre g) = O).
           { intros x Hx. rewrite Hq. simpl. destruct (r =? x) eqn:E; auto. apply N.eqb_eq in E; subst x.
             exfalso. apply Hnq. rewrite Hitems. auto. }
           destruct (hq_compact_ginv (hq_fast q) s g k (cur_list m) G Hk Hpw ltac:(rewrite Ef; exact Ho) Hpre0 Hrel) as [ph' P].
           destruct (hq_compact s (hq_fast q)) as [s' kept]. destruct P as [P1 [P2 [P3 [P4 P5]]]].
           assert (Hr' : aget (store s') r = Some lr) by (rewrite P5; auto; rewrite <- Hitems; auto).
           assert (Hrelk : forall r0, (occ r0 kept + occ r0 ph' = occ r0 (hq_fast q))%nat).
           { intros r0. specialize (P3 r0). unfold phl in P3. gs. rewrite Hpw, Hk in P3.
             destruct (qframe_lists s s' k P2) as [Q1 _]. rewrite Q1, (getm_some _ _ _ Hm), Hhol, Hitems in P3.
             rewrite !occ_app in P3. lia. }
           exists ph'.
           destruct (N.of_nat (length kept) <? hq_len q) eqn:Ek.
           ++ split; [exact P1|]. split; [exact P2|]. split; [|split; [|split; [|exact Hr']]].
              ** intros r0. unfold hq_items. cbn. rewrite Es, !occ_app. specialize (Hrelk r0). simpl. lia.
              ** intros items0 mp0 Hs. cbn in Hs. rewrite Es in Hs. discriminate.
              ** unfold hq_capok. cbn. intros; contradiction.
           ++ destruct (hq_cap q <=? 128).
              ** split; [exact P1|]. split; [exact P2|]. split; [|split; [|split; [|exact Hr']]].
                 --- intros r0. unfold hq_items. cbn. rewrite Es, !occ_app. specialize (Hrelk r0). simpl. lia.
                 --- intros items0 mp0 Hs. cbn in Hs. rewrite Es in Hs. discriminate.
                 --- unfold hq_capok. cbn. intros Hg. exfalso. apply (grow_cap_ne0 _ Ec Hg).
              ** (* switch to the scale queue: nothing was dropped *)
                 apply N.ltb_ge in Ek. unfold hq_len in Ek. rewrite Hp in P4. simpl in P4.
                 assert (Hph0 : ph' = []) by (apply length_zero_nil; lia).
                 subst ph'.
                 split; [exact P1|]. split; [exact P2|]. split; [|split; [|split; [|exact Hr']]].
                 --- intros r0. unfold hq_items. cbn. rewrite Es, !occ_app. simpl. lia.
                 --- intros items0 mp0 Hs id r1 H1. cbn in Hs. inversion Hs; subst items0 mp0. rewrite aget_aset in H1.
                     destruct (c_lockid (l_cmd (getl s r)) =? id) eqn:E; [|simpl in H1; discriminate].
                     inversion H1; subst r1. apply N.eqb_eq in E. rewrite (getl_some _ _ _ Hr) in E. rewrite (getl_some _ _ _ Hr').
                     split; [simpl; auto|]. split; auto.
                 --- unfold hq_capok. cbn. intros; contradiction.
Qed.

(* ---------------------------------------------------------------- LockManager.AddLock *)
Definition al_rec (s : db) (k : N) (l : lockrec) : lockrec :=
  let c := l_cmd l in
  let l := if has (c_tflag c) TF_UNRENEW then l
           else let eT := expiry_deadline c (now s) in
                l <| l_start := now s |> <| l_eT := eT |> <| l_ecc := initial_ecc c eT (now s) |> in
  let m := getm s k in
  let aoft := match m_cur m with None => aoftime_of s c | Some cr => l_aoftime (getl s cr) end in
  let l := l <| l_aoftime := aoft |> <| l_locked := 1 |> <| l_refc := add8 (l_refc l) 1 |> in
  if has (c_flag c) LOCK_FLAG_FROM_AOF then l <| l_isaof := true |>
  else if has (c_tflag c) TF_REQUIRE_ACKED then l <| l_ack := 0 |> else l.

Lemma add_lock_eq s k r :
  add_lock s k r =
  let s1 := setl s r (al_rec s k (getl s r)) in
  match m_cur (getm s k) with
  | None => updm s1 k (fun m => m <| m_cur := Some r |>)
  | Some _ =>
      let q := match m_locks (getm s k) with Some q => q | None => hq_empty end in
      let '(s', q') := hq_push s1 q r in
      updm s' k (fun m => m <| m_locks := Some q' |>)
  end.
Proof. reflexivity. Qed.

(* ACK: the grant of a record whose command carries the require-ack flag makes it acknowledgement-pending *)
Definition akf (l : lockrec) : bool := has (c_tflag (l_cmd l)) TF_REQUIRE_ACKED.
Lemma al_rec_fields s k l : cmd_core (l_cmd l) ->
  let l' := al_rec s k l in
  l_key l' = l_key l /\ l_cmd l' = l_cmd l /\ l_locked l' = 1 /\ l_refc l' = add8 (l_refc l) 1
  /\ l_timeouted l' = l_timeouted l /\ l_long l' = l_long l /\ l_tT l' = l_tT l
  /\ l_ack l' = (if akf l then 0 else l_ack l)
  /\ l_conn l' = l_conn l /\ l_expried l' = l_expried l.
Proof.
  intros [[_ C1] _]. unfold al_rec, akf. cbv zeta.
  destruct (has (c_tflag (l_cmd l)) TF_REQUIRE_ACKED) eqn:Ea.
  - destruct (C1 eq_refl) as [_ [Cf _]]. rewrite Cf. change (has 0 LOCK_FLAG_FROM_AOF) with false. cbv iota.
    destruct (has (c_tflag (l_cmd l)) TF_UNRENEW); destruct l; cbn; repeat split; auto.
  - destruct (has (c_tflag (l_cmd l)) TF_UNRENEW); destruct (has (c_flag (l_cmd l)) LOCK_FLAG_FROM_AOF); destruct l; cbn; repeat split; auto.
Qed.

(* ACK: the ghost after AddLock: a plain grant changes nothing else; an acknowledgement grant (require-ack flag) makes the
   record pending -- it enters g_xe (the acknowledgement reference) and g_owe (the refCount++ that is still to come) *)
Definition gal (g : ghost) (xe owe : list ref) (cw : Z) : ghost := g <| g_xe := xe |> <| g_owe := owe |> <| g_cw := cw |>.

Record al_post (s s' : db) (k : N) (r : ref) (l : lockrec) : Prop := mkAlPost {
  ap_rec : aget (store s') r = Some (al_rec s k l);
  ap_lf : lframe (setl s r (al_rec s k l)) s'
}.

Definition al_mode (s : db) (g : ghost) (r : ref) (l : lockrec) (xe' owe' : list ref) : Prop :=
  (akf l = false /\ l_timeouted l = true /\ l_long l = false /\ xe' = g_xe g /\ owe' = [])
  \/ (akf l = true /\ l_expried l = true /\ ecount s g r = O /\ (l_long l = true -> l_timeouted l = false)
      /\ xe' = r :: g_xe g /\ owe' = [r]).

Lemma add_lock_rec_ginv s g k r l m xe' owe' :
  GInv s g -> g_dk g = k -> g_ph g = [] -> g_pre g = [] -> g_owe g = [] ->
  aget (store s) r = Some l -> l_key l = k -> aget (mgrs s) k = Some m ->
  l_locked l = 0 -> occ r (holders m) = O -> l_ack l = 255 -> al_mode s g r l xe' owe' ->
  GInv (setl s r (al_rec s k l)) (gal g xe' owe' (g_cw g + liveb (al_rec s k l) - liveb l)%Z <| g_pre := [r] |>).
Proof.
  intros G Hk Hp Hq Ho Hr Hkey Hm Hd Hh Hak Hmode.
  destruct (rec_counts s g r l G Hr) as [[C1 [C2 [C3 C4]]] _].
  destruct (gi_rec _ _ G r l Hr) as [A1 A2 A3 A4 A5 A6 A7 A8 A9 A10 A11].
  rewrite Hkey, (getm_some _ _ _ Hm) in *.
  set (l1 := al_rec s k l).
  destruct (al_rec_fields s k l A9) as [F1 [F2 [F3 [F4 [F5 [F6 [F7 [F8 [F9 F10]]]]]]]]].
  fold l1 in F1, F2, F3, F4, F5, F6, F7, F8, F9, F10.
  assert (Hrefc : l_refc l + 1 < 256) by (rewrite Ho, Hp, Hq in A3; simpl in A3; lia).
  rewrite add8_succ in F4 by auto.
  rewrite Ho, Hp, Hq, Hh in A3. simpl occ in A3.
  assert (Hdw1 : dead_waiter l1 = true).
  { unfold dead_waiter. rewrite F5, F8. destruct Hmode as [[Ea [Ht _]]|[Ea _]]; rewrite Ea; [rewrite Ht; reflexivity|apply orb_true_r]. }
  unfold gal.
  eapply (setl_ginv s g _ r l l1 G Hr); gs; auto.
  - (* other records *)
    rewrite Hq, Ho. destruct Hmode as [[_ [_ [_ [-> ->]]]]|[_ [_ [_ [_ [-> ->]]]]]]; occ_others.
  - (* the record *)
    constructor; change (getm (setl s r l1) (l_key l1)) with (getm s (l_key l1));
      unfold tcount, ecount; gs;
      change (twheel (setl s r l1)) with (twheel s); change (tlong (setl s r l1)) with (tlong s);
      change (ewheel (setl s r l1)) with (ewheel s); change (elong (setl s r l1)) with (elong s);
      rewrite ?F1, ?F3, ?F4, ?Hkey, ?(getm_some _ _ _ Hm), ?Hp, ?Hh; rewrite ?occ_cons_eq; simpl occ.
    + exact A1.
    + exact A2.
    + unfold tcount, ecount in *. destruct Hmode as [[_ [_ [_ [-> ->]]]]|[_ [_ [He0 [_ [-> ->]]]]]]; rewrite ?occ_cons_eq; simpl occ; lia.
    + exact A4.
    + unfold ecount in *. destruct Hmode as [[_ [_ [_ [-> _]]]]|[_ [_ [He0 [_ [-> _]]]]]]; rewrite ?occ_cons_eq; try (unfold al_mode, ecount in He0); lia.
    + rewrite Hdw1. discriminate.
    + intros _ Hc. discriminate.
    + rewrite F6, F5, F7. intros Hl Hpe. destruct Hmode as [[_ [_ [Hlg _]]]|[_ [_ [_ [Hlt _]]]]]; [congruence|].
      specialize (Hlt Hl). destruct (A8 Hl Hpe) as [Q1 _]. split; [exact Q1|intros Hc; congruence].
    + rewrite F2. exact A9.
    + rewrite F8, F10. intros Ha. destruct Hmode as [[Ea _]|[Ea [Hex [He0 [_ [-> _]]]]]]; rewrite Ea in Ha; [congruence|].
      unfold ecount in He0. split; [exact Hex|split; [lia|rewrite occ_cons_eq; lia]].
    + lia.
  - rewrite Hkey, (getm_some _ _ _ Hm), Hh. destruct (k =? g_dk g); lia.
  - rewrite Hkey, (getm_some _ _ _ Hm). auto.
  - rewrite Hd. intros _ Hc. lia.
  - rewrite Hp. simpl. tauto.
  - rewrite Hp. simpl. lia.
Qed.

Lemma add_lock_ginv_gen s g k r l m xe' owe' :
  GInv s g -> g_dk g = k -> g_ph g = [] -> g_pre g = [] -> g_owe g = [] -> g_pw g = false -> g_lk g = false ->
  aget (store s) r = Some l -> l_key l = k -> aget (mgrs s) k = Some m ->
  l_locked l = 0 -> occ r (holders m) = O -> l_ack l = 255 -> al_mode s g r l xe' owe' ->
  GInv (add_lock s k r) (gal g xe' owe' (g_cw g + liveb (al_rec s k l) - liveb l)%Z <| g_dl := (g_dl g + 1)%Z |>)
  /\ al_post s (add_lock s k r) k r l.
Proof.
  intros G Hk Hp Hq Ho Hpw Hlk Hr Hkey Hm Hd Hh Hak Hmode.
  pose proof (add_lock_rec_ginv s g k r l m xe' owe' G Hk Hp Hq Ho Hr Hkey Hm Hd Hh Hak Hmode) as G1.
  remember (gal g xe' owe' (g_cw g + liveb (al_rec s k l) - liveb l)%Z) as g1 eqn:Eg1.
  destruct (gi_rec _ _ G r l Hr) as [A1 A2 A3 A4 A5 A6 A7 A8 A9 A10 A11].
  rewrite Hkey, (getm_some _ _ _ Hm) in *.
  destruct (gi_mgr _ _ G k m Hm) as [B1 B2 B3 B4 B5 B6 B7 B8 B9 Bb B10 Bc].
  assert (Hlkk : lkk g k = false) by (unfold lkk; rewrite Hlk; apply andb_false_r).
  specialize (B7 Hlkk). specialize (B8 Hlkk). specialize (B10 Hlkk).
  rewrite add_lock_eq. cbv zeta. rewrite (getl_some _ _ _ Hr), (getm_some _ _ _ Hm).
  set (l1 := al_rec s k l) in *.
  destruct (al_rec_fields s k l A9) as [F1 [F2 [F3 [F4 [F5 [F6 [F7 [F8 [F9 F10]]]]]]]]].
  fold l1 in F1, F2, F3, F4, F5, F6, F7, F8, F9, F10.
  assert (Hdw1 : dead_waiter l1 = true).
  { unfold dead_waiter. rewrite F5, F8. destruct Hmode as [[Ea [Ht _]]|[Ea _]]; rewrite Ea; [rewrite Ht; reflexivity|apply orb_true_r]. }
  assert (Hk1 : g_dk g1 = k) by (rewrite Eg1; exact Hk).
  assert (Hpw1 : g_pw g1 = false) by (rewrite Eg1; exact Hpw).
  assert (Hp1 : g_ph g1 = []) by (rewrite Eg1; exact Hp).
  assert (Hq1g : g_pre g1 = []) by (rewrite Eg1; exact Hq).
  assert (Hlk1 : g_lk g1 = false) by (rewrite Eg1; exact Hlk).
  assert (Hdl1 : g_dl g1 = g_dl g) by (rewrite Eg1; reflexivity).
  set (s1 := setl s r l1) in *.
  assert (Hr1 : aget (store s1) r = Some l1) by (unfold s1; rewrite store_setl, aget_aset_same; auto).
  assert (Hm1 : aget (mgrs s1) k = Some m) by exact Hm.
  assert (Hpre1 : forall r0, In r0 [r] ->
     occ r0 [r] = 1%nat /\ occ r0 (holders m) = O /\
     exists l0, aget (store s1) r0 = Some l0 /\ l_key l0 = k /\ dead_waiter l0 = true).
  { intros r0 [<-|[]]. rewrite occ_cons_eq. simpl. repeat split; auto. exists l1. repeat split; try exact Hr1; congruence. }
  assert (Hpost1 : aget (store s1) r = Some l1) by exact Hr1.
  destruct (m_cur m) as [c|] eqn:Ec.
  - (* pushed on the holder queue *)
    set (q := match m_locks m with Some q => q | None => hq_empty end).
    assert (Hhol : holders m = cur_list m ++ hq_items q).
    { unfold holders, m_hq, q. destruct (m_locks m); reflexivity. }
    assert (Hmapq : map_ok s1 q).
    { unfold q. destruct (m_locks m) as [q0|] eqn:El.
      - unfold s1. apply map_ok_setl; [apply B10; auto|]. intros items mp Hs id E.
        destruct (B10 q0 eq_refl items mp Hs id r E) as [_ [Cl _]]. rewrite (getl_some _ _ _ Hr), Hd in Cl. inversion Cl.
      - intros items mp Hs. discriminate. }
    assert (Hcapq : hq_capok q).
    { unfold q. destruct (m_locks m) as [q0|] eqn:El; [exact (proj1 Bc q0 eq_refl)|intros _; reflexivity]. }
    assert (HninX : ~ In r (holders m)) by (apply occ_notin; auto).
    assert (HoX : forall x, In x (hq_fast q) -> occ x (g_owe (g1 <| g_pre := [r] |>)) = O).
    { intros x Hx. assert (Hxr : x <> r).
      { intros ->. apply HninX. rewrite Hhol. apply in_or_app. right. unfold hq_items. apply in_or_app. left. exact Hx. }
      rewrite Eg1. unfold gal. gs. destruct Hmode as [[_ [_ [_ [_ ->]]]]|[_ [_ [_ [_ [_ ->]]]]]]; [reflexivity|].
      rewrite occ_cons_ne by congruence. reflexivity. }
    assert (HlockedX : 0 < l_locked l1) by (rewrite F3; reflexivity).
    clear Hmode.
    destruct (hq_push_ginv s1 (g1 <| g_pre := [r] |>) k q r l1 m G1 Hk1 Hpw1 HoX Hp1 eq_refl Hm1 Hhol Hr1 HlockedX HninX Hmapq Hcapq) as [ph' P].
    destruct (hq_push s1 q r) as [s' q']. destruct P as [P1 [P2 [P3 [P4 [P5 P6]]]]].
    destruct (qframe_mgr_some s1 s' k m P2 Hm1) as [n Hm'].
    set (mo := m <| m_ref := n |>) in *. rewrite (updm_some _ _ _ _ Hm').
    set (m' := mo <| m_locks := Some q' |>).
    assert (Hhm' : holders m' = cur_list m ++ hq_items q') by (destruct m; reflexivity).
    assert (Hhmo : holders mo = holders m) by (destruct m; reflexivity).
    split.
    + eapply ginv_geq; [apply (install_h s' _ k mo m' P1 Hm'); gs; auto|].
      * intros r0. rewrite Hhm', Hhmo, Hhol, !occ_app. specialize (P3 r0). rewrite <- !Nat.add_assoc, P3. reflexivity.
      * intros r0 Hi. destruct (Hpre1 r0 Hi) as [X1 [X2 [l0 [X3 [X4 X5]]]]]. rewrite Hhmo. repeat split; auto.
        destruct Hi as [<-|[]]. exists l1. repeat split; try exact P6; congruence.
      * intros c0 Hc0. assert (Hc1 : c0 = c) by (destruct m; cbn in *; congruence). subst c0.
        assert (Hcr : c <> r).
        { intros ->. apply occ_notin in Hh. apply Hh. unfold holders, cur_list. rewrite Ec. simpl. auto. }
        assert (Hst : aget (store s') c <> None).
        { apply (mo_refs _ _ _ _ (gi_mgr _ _ P1 k mo Hm')). unfold phk. gs. rewrite Hk1, N.eqb_refl. rewrite Hhmo, occ_app.
          pose proof (proj1 (occ_nodup _) B4 c) as N0. rewrite Hhol, occ_app in N0.
          assert (Hc1 : occ c (cur_list m) = 1%nat) by (unfold cur_list; rewrite Ec; simpl; rewrite N.eqb_refl; reflexivity).
          specialize (P3 c). rewrite occ_single in P3. destruct (r =? c) eqn:E; [apply N.eqb_eq in E; congruence|].
          rewrite Hhol, occ_app, Hc1.
          assert (occ c ph' = O) by (rewrite Hc1 in N0; destruct (occ c (hq_items q)); [destruct (occ c ph'); [reflexivity|rewrite Nat.add_0_r in P3; rewrite <- plus_n_Sm in P3; discriminate]|exfalso; clear - N0; inversion N0 as [|? N1]; inversion N1]).
          rewrite H. apply Nat.lt_lt_add_r. apply Nat.lt_lt_add_r. apply Nat.lt_0_succ. }
        rewrite (qframe_locked s1 s' c P2 Hst). unfold s1. rewrite getl_setl.
        destruct (r =? c) eqn:E; [apply N.eqb_eq in E; subst; exfalso; apply occ_notin in Hh; apply Hh; unfold holders, cur_list; rewrite Ec; simpl; auto|].
        apply B7; auto.
      * intros Hc0. destruct m; cbn in *; congruence.
      * intros q0 Hq0. assert (q0 = q') by (destruct mo; cbn in Hq0; congruence). subst q0. exact P4.
      * intros q0 Hq0. assert (q0 = q') by (destruct mo; cbn in Hq0; congruence). subst q0. exact P5.
      * match goal with |- _ = _ <| g_dl := ?e |> => replace e with (g_dl g + 1)%Z; [rewrite Eg1; unfold gal; destruct g; gs; subst; reflexivity|] end.
        gs. simpl. rewrite (getl_some _ _ _ P6), F3, ?Hdl1. clear. lia.
    + constructor.
      * change (store (setm s' k m')) with (store s'). exact P6.
      * eapply lframe_trans; [apply qframe_lframe; exact P2|].
        pose proof (lframe_updm_lists s' k (fun m => m <| m_locks := Some q' |>)) as LF. rewrite (updm_some _ _ _ _ Hm') in LF.
        apply LF. intros m0. destruct m0; cbn. auto.
  - (* becomes the current lock *)
    clear Hmode.
    rewrite (updm_some _ _ _ _ Hm1).
    set (m' := m <| m_cur := Some r |>).
    assert (Hhq : m_hq m = []) by auto.
    assert (Hhm : holders m = []) by (unfold holders, cur_list; rewrite Ec, Hhq; reflexivity).
    assert (Hhm' : holders m' = [r]) by (unfold holders, cur_list, m', m_hq in *; destruct m; cbn in *; rewrite Hhq; reflexivity).
    split.
    + eapply ginv_geq; [apply (install_h s1 _ k m m' G1 Hm1); gs; auto|].
      * intros r0. rewrite Hhm', Hhm. gs. rewrite Hp1. simpl. clear - Hpre1. lia.
      * intros c0 Hc0. assert (c0 = r) by (destruct m; cbn in *; congruence). subst c0.
        rewrite (getl_some _ _ _ Hr1), F3. reflexivity.
      * intros q0 Hq0. assert (Hq1 : m_locks m = Some q0) by (destruct m; exact Hq0).
        unfold s1. apply map_ok_setl; [apply B10; auto|]. intros items mp Hs id E.
        destruct (B10 q0 Hq1 items mp Hs id r E) as [_ [Cl _]]. rewrite (getl_some _ _ _ Hr), Hd in Cl. inversion Cl.
      * intros q0 Hq0. assert (Hq1 : m_locks m = Some q0) by (destruct m; exact Hq0). exact (proj1 Bc q0 Hq1).
      * match goal with |- _ = _ <| g_dl := ?e |> => replace e with (g_dl g + 1)%Z; [rewrite Eg1; unfold gal; destruct g; gs; subst; reflexivity|] end.
        gs. simpl. rewrite (getl_some _ _ _ Hr1), F3, ?Hdl1. clear. lia.
    + constructor.
      * exact Hpost1.
      * pose proof (lframe_updm_lists s1 k (fun m => m <| m_cur := Some r |>)) as LF. rewrite (updm_some _ _ _ _ Hm1) in LF.
        apply LF. intros m0. destruct m0; cbn. auto.
Qed.

(* the plain grant (statement of Engine/InvQueue2.add_lock_ginv) *)
Lemma add_lock_ginv s g k r l m :
  GInv s g -> g_dk g = k -> g_ph g = [] -> g_pre g = [] -> g_owe g = [] -> g_pw g = false -> g_lk g = false ->
  aget (store s) r = Some l -> l_key l = k -> aget (mgrs s) k = Some m ->
  l_locked l = 0 -> l_timeouted l = true -> l_long l = false -> occ r (holders m) = O ->
  akf l = false ->
  GInv (add_lock s k r) (g <| g_dl := (g_dl g + 1)%Z |>)
  /\ ((exists l2, aget (store (add_lock s k r)) r = Some l2 /\ l_key l2 = k /\ l_cmd l2 = l_cmd l /\ l_locked l2 = 1
                  /\ l_timeouted l2 = true /\ l_long l2 = false /\ l_conn l2 = l_conn l /\ l_ack l2 = 255)
      /\ lframe (setl s r (al_rec s k l)) (add_lock s k r)).
Proof.
  intros G Hk Hp Hq Ho Hpw Hlk Hr Hkey Hm Hd Ht Hlg Hh Hnak.
  pose proof (gi_rec _ _ G r l Hr) as R.
  assert (Hak : l_ack l = 255).
  { destruct (N.eq_dec (l_ack l) 255) as [|n]; auto. destruct (ro_ack _ _ _ _ R n) as [_ [Q _]]. rewrite Hd in Q. inversion Q. }
  assert (Hmode : al_mode s g r l (g_xe g) []) by (left; repeat split; auto).
  destruct (add_lock_ginv_gen s g k r l m (g_xe g) [] G Hk Hp Hq Ho Hpw Hlk Hr Hkey Hm Hd Hh Hak Hmode) as [G1 [P1 P2]].
  destruct (al_rec_fields s k l (ro_cmd _ _ _ _ R)) as [F1 [F2 [F3 [F4 [F5 [F6 [F7 [F8 [F9 F10]]]]]]]]].
  split; [|split; [|exact P2]].
  - eapply ginv_geq; [exact G1|]. unfold gal, liveb, dead_waiter. rewrite F5, Ht. cbn [orb].
    destruct g; gs; subst. unfold set; cbn.
    match goal with |- context [(?a + 0 - 0)%Z] => replace (a + 0 - 0)%Z with a by lia end. reflexivity.
  - exists (al_rec s k l). rewrite F8, Hnak. repeat split; auto; congruence.
Qed.

(* ---------------------------------------------------------------- LockManagerWaitQueue.Push *)
Lemma wq_compact_ginv items : forall s g k A,
  GInv s g -> g_dk g = k -> g_pw g = true -> g_owe g = [] -> (forall x, In x items -> occ x (g_pre g) = O) ->
  (forall r0, (occ r0 (A ++ items) + occ r0 (g_ph g) = occ r0 (phl s g))%nat) ->
  exists ph', let '(s', kept) := wq_compact s items in
    GInv s' (g <| g_ph := ph' |>) /\ qframe s s'
    /\ (forall r0, (occ r0 (A ++ kept) + occ r0 ph' = occ r0 (phl s' (g <| g_ph := ph' |>)))%nat)
    /\ (length ph' + length kept = length (g_ph g) + length items)%nat
    /\ (forall x, ~ In x items -> aget (store s') x = aget (store s) x).
Proof.
  induction items as [|r rest IH]; intros s g k A G Hk Hpw Ho Hq Hrel.
  - exists (g_ph g). simpl. rewrite gph_id. split; [exact G|]. split; [apply qframe_refl|]. split; [exact Hrel|]. split; [lia|auto].
  - simpl. destruct (dead_waiter (getl s r)) eqn:El.
    + assert (Hrel' : forall r0, (occ r0 (r :: A ++ rest) + occ r0 (g_ph g) = occ r0 (phl s g))%nat).
      { intros r0. specialize (Hrel r0). rewrite occ_app, occ_cons in Hrel. rewrite occ_cons, occ_app. lia. }
      assert (Hdead : aget (store s) r = None \/ dead_waiter (getl s r) = true).
      { destruct (aget (store s) r) as [l|] eqn:Hr; auto. }
      destruct (drop_step s g k r (A ++ rest) G Hk ltac:(rewrite Ho; reflexivity) (Hq r (or_introl eq_refl)) Hrel' Hdead) as [G1 R1]; [rewrite Hpw; discriminate|].
      destruct (IH (unref s r) (g <| g_ph := r :: g_ph g |>) k A G1 Hk Hpw Ho (fun x Hx => Hq x (or_intror Hx)) R1) as [ph' P]. exists ph'.
      destruct (wq_compact (unref s r) rest) as [s' kept]. rewrite gph_twice in P. destruct P as [P1 [P2 [P3 [P4 P5]]]].
      split; [exact P1|]. split; [eapply qframe_trans; [apply unref_qframe|exact P2]|]. split; [exact P3|]. split; [gs; simpl in *; lia|].
      intros x Hx. rewrite P5 by (intros Hi; apply Hx; right; auto). apply unref_other. intros ->. apply Hx. left. auto.
    + assert (Hrel' : forall r0, (occ r0 ((A ++ [r]) ++ rest) + occ r0 (g_ph g) = occ r0 (phl s g))%nat).
      { intros r0. rewrite <- app_assoc. apply Hrel. }
      destruct (IH s g k (A ++ [r]) G Hk Hpw Ho (fun x Hx => Hq x (or_intror Hx)) Hrel') as [ph' P]. exists ph'.
      destruct (wq_compact s rest) as [s' kept]. destruct P as [P1 [P2 [P3 [P4 P5]]]].
      split; [exact P1|]. split; [exact P2|]. split; [|split; [simpl; lia|]].
      * intros r0. specialize (P3 r0). rewrite <- app_assoc in P3. exact P3.
      * intros x Hx. apply P5. intros Hi. apply Hx. right. auto.
Qed.

Lemma occ_prio_insert s items r p r0 : occ r0 (prio_insert s items r p) = (occ r0 items + occ r0 [r])%nat.
Proof.
  induction items as [|x t IH]; simpl; [lia|]. destruct (prio_of (l_cmd (getl s x)) <? p); simpl; [lia|]. rewrite IH. simpl. lia.
Qed.
Lemma occ_repush_fold s l : forall acc r0,
  occ r0 (fold_left (fun acc r => prio_insert s acc r (prio_of (l_cmd (getl s r)))) l acc) = (occ r0 acc + occ r0 l)%nat.
Proof.
  induction l as [|x t IH]; intros acc r0; simpl; [lia|]. rewrite IH, occ_prio_insert. simpl. lia.
Qed.
Lemma wq_repush_items s q r0 : occ r0 (wq_items (wq_repush s q)) = occ r0 (wq_items q).
Proof.
  unfold wq_repush. destruct (wq_mode q); auto; unfold wq_items at 1; cbn; rewrite occ_repush_fold; simpl; auto.
Qed.
Lemma wq_repush_capok s q : wq_capok q -> wq_capok (wq_repush s q).
Proof.
  unfold wq_capok, wq_repush. intros [H1 H2]. destruct (wq_mode q) eqn:E; cbn; rewrite ?E; auto; split; auto; discriminate.
Qed.

Lemma wq_push_ginv s g k q r lr m :
  GInv s g -> g_dk g = k -> g_pw g = true -> g_owe g = [] -> g_ph g = [] -> g_pre g = [] ->
  aget (mgrs s) k = Some m -> (forall r0, occ r0 (m_wq m) = occ r0 (wq_items q)) ->
  aget (store s) r = Some lr -> ~ In r (m_wq m) -> wq_capok q ->
  exists ph', let '(s', q') := wq_push s q r in
    GInv s' (g <| g_ph := ph' |>) /\ qframe s s'
    /\ (forall r0, (occ r0 (wq_items q') + occ r0 ph' = occ r0 (wq_items q) + occ r0 [r])%nat)
    /\ wq_capok q' /\ aget (store s') r = Some lr.
Proof.
  intros G Hk Hpw Ho Hp Hq Hm Hperm Hr Hnin [Hc1 Hc2].
  assert (Hnq : ~ In r (wq_items q)) by (intros Hi; apply Hnin; apply occ_In; rewrite Hperm; apply occ_In; auto).
  unfold wq_push. destruct (wq_mode q) eqn:Emode.
  - (* fast slice *)
    specialize (Hc2 eq_refl).
    assert (Hitems : wq_items q = wq_fast q) by (unfold wq_items; rewrite Hc2, app_nil_r; auto).
    destruct (wq_cap q =? 0) eqn:Ec.
    + apply N.eqb_eq in Ec. specialize (Hc1 Ec).
      exists (g_ph g). rewrite gph_id. split; [exact G|]. split; [apply qframe_refl|]. split; [|split; [|exact Hr]].
      * intros r0. unfold wq_items. cbn. rewrite Hc1, Hc2, Hp. simpl. lia.
      * split; cbn; [intros; discriminate|rewrite Emode; auto].
    + apply N.eqb_neq in Ec. destruct (wq_len q <? wq_cap q) eqn:El.
      * exists (g_ph g). rewrite gph_id. split; [exact G|]. split; [apply qframe_refl|]. split; [|split; [|exact Hr]].
        -- intros r0. unfold wq_items. cbn. rewrite Hc2, Hp, !occ_app. simpl. lia.
        -- split; cbn; [intros; contradiction|rewrite Emode; auto].
      * destruct (wq_fast q) as [|x0 t0] eqn:Ef.
        -- exists (g_ph g). rewrite gph_id. split; [exact G|]. split; [apply qframe_refl|]. split; [|split; [|exact Hr]].
           ++ intros r0. unfold wq_items. cbn. rewrite Ef, Hc2, Hp. simpl. lia.
           ++ split; cbn; [intros; contradiction|rewrite Emode; auto].
        -- assert (Ef' : wq_fast q = x0 :: t0) by exact Ef. rewrite <- Ef' in *. clear Ef'.
           assert (Hrel : forall r0, (occ r0 ([] ++ wq_fast q) + occ r0 (g_ph g) = occ r0 (phl s g))%nat).
           { intros r0. unfold phl. rewrite Hpw, Hk, (getm_some _ _ _ Hm), Hperm, Hitems, Hp. simpl. lia. }
           assert (Hpre0 : forall x, In x (wq_fast q) -> occ x (g_pre g) = O) by (intros; rewrite Hq; reflexivity).
           destruct (wq_compact_ginv (wq_fast q) s g k [] G Hk Hpw Ho Hpre0 Hrel) as [ph' P].
           destruct (wq_compact s (wq_fast q)) as [s' kept]. destruct P as [P1 [P2 [P3 [P4 P5]]]].
           assert (Hr' : aget (store s') r = Some lr) by (rewrite P5; auto; rewrite <- Hitems; auto).
           assert (Hrelk : forall r0, (occ r0 kept + occ r0 ph' = occ r0 (wq_fast q))%nat).
           { intros r0. specialize (P3 r0). unfold phl in P3. gs. rewrite Hpw, Hk in P3.
             destruct (qframe_lists s s' k P2) as [_ [Q2 _]]. rewrite Q2, (getm_some _ _ _ Hm), Hperm, Hitems in P3.
             simpl in P3. lia. }
           exists ph'.
           destruct (N.of_nat (length kept) <? wq_len q) eqn:Ek.
           ++ split; [exact P1|]. split; [exact P2|]. split; [|split; [|exact Hr']].
              ** intros r0. unfold wq_items. cbn. rewrite Hc2, !occ_app. specialize (Hrelk r0). simpl. lia.
              ** split; cbn; [intros; contradiction|rewrite Emode; auto].
           ++ destruct (wq_cap q <=? 128).
              ** split; [exact P1|]. split; [exact P2|]. split; [|split; [|exact Hr']].
                 --- intros r0. unfold wq_items. cbn. rewrite Hc2, !occ_app. specialize (Hrelk r0). simpl. lia.
                 --- split; cbn; [intros Hg; exfalso; apply (grow_cap_ne0 _ Ec Hg)|rewrite Emode; auto].
              ** apply N.ltb_ge in Ek. unfold wq_len in Ek. rewrite Hp in P4. simpl in P4.
                 assert (Hph0 : ph' = []) by (apply length_zero_nil; lia). subst ph'.
                 split; [exact P1|]. split; [exact P2|]. split; [|split; [|exact Hr']].
                 --- intros r0. unfold wq_items. cbn. rewrite Hc2, !occ_app. simpl. lia.
                 --- split; cbn; [exact Hc1|discriminate].
  - exists (g_ph g). rewrite gph_id. split; [exact G|]. split; [apply qframe_refl|]. split; [|split; [|exact Hr]].
    + intros r0. unfold wq_items. cbn. rewrite Hp, !occ_app. simpl. lia.
    + split; cbn; [exact Hc1|rewrite Emode; discriminate].
  - exists (g_ph g). rewrite gph_id. split; [exact G|]. split; [apply qframe_refl|]. split; [|split; [|exact Hr]].
    + intros r0. unfold wq_items. cbn. rewrite Hp, !occ_app, occ_prio_insert. simpl. lia.
    + split; cbn; [exact Hc1|rewrite Emode; discriminate].
Qed.

(* ---------------------------------------------------------------- LockManager.AddWaitLock *)
Definition aw_choose (s : db) (k : N) (r : ref) : wqueue :=
  let m := getm s k in
  match m_wait m with
  | None => wq_empty
  | Some q =>
      if m_waited m && negb (match wq_mode q with WPrio => true | _ => false end)
      then match wq_head q with
           | Some _ => if prio_of (l_cmd (getl s r)) =? wq_maxprio s q then q else wq_repush s q
           | None => q
           end
      else q
  end.
Lemma add_wait_lock_eq s k r :
  add_wait_lock s k r =
  let '(s1, q1) := wq_push s (aw_choose s k r) r in
  let s2 := updl s1 r (fun l => l <| l_refc := add8 (l_refc l) 1 |>) in
  updm s2 k (fun m => m <| m_wait := Some q1 |> <| m_waited := true |>).
Proof. reflexivity. Qed.

Record aw_post (s s' : db) (k : N) (r : ref) (l : lockrec) : Prop := mkAwPost {
  wp_rec : exists n, aget (store s') r = Some (l <| l_refc := n |>);
  wp_in : occ r (m_wq (getm s' k)) = 1%nat;
  wp_hold : holders (getm s' k) = holders (getm s k);
  wp_lf : lframe s s'
}.

Lemma add_wait_lock_ginv s g k r l m :
  GInv s g -> g_dk g = k -> g_ph g = [] -> g_pre g = [] -> g_owe g = [] -> g_pw g = false ->
  aget (store s) r = Some l -> l_key l = k -> aget (mgrs s) k = Some m ->
  l_locked l = 0 -> l_timeouted l = true -> occ r (m_wq m) = O ->
  GInv (add_wait_lock s k r) g /\ aw_post s (add_wait_lock s k r) k r l.
Proof.
  intros G Hk Hp Hq Ho Hpw Hr Hkey Hm Hd Ht Hw.
  destruct (gi_mgr _ _ G k m Hm) as [B1 B2 B3 B4 B5 B6 B7 B8 B9 Bb B10 Bc].
  rewrite add_wait_lock_eq.
  set (qc := aw_choose s k r).
  assert (Hperm : forall r0, occ r0 (m_wq m) = occ r0 (wq_items qc)).
  { intros r0. unfold qc, aw_choose. rewrite (getm_some _ _ _ Hm). unfold m_wq. destruct (m_wait m) as [q|]; [|reflexivity].
    destruct (m_waited m && negb match wq_mode q with WPrio => true | _ => false end); auto.
    destruct (wq_head q); auto. destruct (prio_of (l_cmd (getl s r)) =? wq_maxprio s q); auto. symmetry. apply wq_repush_items. }
  assert (Hcapc : wq_capok qc).
  { unfold qc, aw_choose. rewrite (getm_some _ _ _ Hm). destruct (m_wait m) as [q|] eqn:Ew; [|split; intros; reflexivity].
    pose proof (proj2 Bc q eq_refl) as Cq. 
    destruct (m_waited m && negb match wq_mode q with WPrio => true | _ => false end); auto.
    destruct (wq_head q); auto. destruct (prio_of (l_cmd (getl s r)) =? wq_maxprio s q); auto. apply wq_repush_capok; auto. }
  pose proof (ginv_set_pw s g true G Hp) as G1.
  destruct (wq_push_ginv s (g <| g_pw := true |>) k qc r l m G1) as [ph' P]; gs; auto.
  { apply occ_notin; auto. }
  destruct (wq_push s qc r) as [s1 q1]. destruct P as [P1 [P2 [P3 [P4 P5]]]].
  cbv zeta.
  set (l2 := l <| l_refc := add8 (l_refc l) 1 |>).
  assert (E2 : updl s1 r (fun l => l <| l_refc := add8 (l_refc l) 1 |>) = setl s1 r l2) by (exact (updl_some s1 r (fun l => l <| l_refc := add8 (l_refc l) 1 |>) l P5)).
  assert (G2 : GInv (setl s1 r l2) (g <| g_pw := true |> <| g_ph := ph' |> <| g_pre := [r] |>)).
  { rewrite <- E2. apply (updl_refc_pre s1 _ r l P1); gs; auto. }
  rewrite E2.
  set (s2 := setl s1 r l2) in *.
  assert (Hr2 : aget (store s2) r = Some l2) by (unfold s2; rewrite store_setl, aget_aset_same; auto).
  destruct (qframe_mgr_some s s1 k m P2 Hm) as [n Hm1].
  set (mo := m <| m_ref := n |>) in *.
  assert (Hm2 : aget (mgrs s2) k = Some mo) by exact Hm1.
  rewrite (updm_some _ _ _ _ Hm2).
  set (m' := mo <| m_wait := Some q1 |> <| m_waited := true |>).
  assert (Hwm' : m_wq m' = wq_items q1) by (destruct m; reflexivity).
  assert (Hwmo : m_wq mo = m_wq m) by (destruct m; reflexivity).
  assert (Hhm' : holders m' = holders m) by (destruct m; reflexivity).
  assert (Hrel : forall r0, (occ r0 (m_wq m') + occ r0 ph' = occ r0 (m_wq mo) + occ r0 [r])%nat).
  { intros r0. rewrite Hwm', Hwmo, Hperm. apply P3. }
  assert (GF : GInv (setm s2 k m') (g <| g_pw := true |> <| g_ph := ph' |> <| g_pre := [r] |> <| g_ph := [] |> <| g_pre := [] |> <| g_pw := false |>)).
  { apply (install_w s2 _ k mo m' G2 Hm2); gs; auto; try (destruct m; reflexivity).
    - intros r0 [<-|[]]. rewrite occ_cons_eq. simpl. rewrite Hwmo. repeat split; auto. exists l2. repeat split; auto.
      unfold dead_waiter. change (l_timeouted l2) with (l_timeouted l). rewrite Ht. reflexivity.
    - intros q0 Hq0. assert (q0 = q1) by (destruct m; cbn in Hq0; congruence). subst q0. exact P4. }
  split.
  - eapply ginv_geq; [exact GF|]. destruct g; gs; subst; reflexivity.
  - constructor.
    + exists (add8 (l_refc l) 1). exact Hr2.
    + rewrite getm_setm_same, Hwm'. specialize (P3 r). rewrite <- Hperm, Hw, occ_cons_eq in P3. simpl in P3.
      pose proof (gi_ph _ _ P1) as PH. gs.
      destruct (occ r ph') eqn:E; [lia|]. exfalso.
      assert (Hi : In r ph') by (apply occ_In; lia).
      (* a phantom of the wait list was in the wait list *)
      pose proof (gi_phle _ _ P1 r) as PL. unfold phl in PL. gs. rewrite Hk in PL.
      destruct (qframe_lists s s1 k P2) as [_ [Q2 _]]. rewrite Q2, (getm_some _ _ _ Hm), Hw in PL. lia.
    + rewrite getm_setm_same, Hhm', (getm_some _ _ _ Hm). reflexivity.
    + eapply lframe_trans; [apply qframe_lframe; exact P2|].
      eapply lframe_trans; [apply qframe_lframe; apply (setl_refc_qframe s1 r l (add8 (l_refc l) 1) P5)|].
      pose proof (lframe_updm_lists s2 k (fun m => m <| m_wait := Some q1 |> <| m_waited := true |>)) as LF.
      rewrite (updm_some _ _ _ _ Hm2) in LF. apply LF. intros m0. destruct m0; cbn. auto.
Qed.

(* ---------------------------------------------------------------- RemoveLock on a record that holds nothing (depth 0) *)
Lemma occ_all_zero_nil (L : list ref) : (forall r0, occ r0 L = O) -> L = [].
Proof. destruct L as [|x t]; auto. intros H. specialize (H x). rewrite occ_cons_eq in H. discriminate. Qed.

Lemma remove_lock_dead_ginv s g k r l :
  GInv s g -> g_dk g = k -> g_ph g = [] -> g_pre g = [] -> g_owe g = [] -> g_pw g = false -> g_lk g = false ->
  aget (store s) r = Some l -> l_key l = k -> l_locked l = 0 ->
  GInv (remove_lock s k r) g.
Proof.
  intros G Hk Hp Hq Ho Hpw Hlk Hr Hkey Hd.
  destruct (rec_counts s g r l G Hr) as [[C1 [C2 [C3 C4]]] [m [Hm Hgm]]].
  destruct (gi_rec _ _ G r l Hr) as [A1 A2 A3 A4 A5 A6 A7 A8 A9 A10 A11].
  rewrite Hkey in *. rewrite Hgm in *.
  destruct (gi_mgr _ _ G k m Hm) as [B1 B2 B3 B4 B5 B6 B7 B8 B9 Bb B10 Bc].
  assert (Hlkk : lkk g k = false) by (unfold lkk; rewrite Hlk; apply andb_false_r).
  specialize (B7 Hlkk). specialize (B8 Hlkk). specialize (B10 Hlkk).
  assert (Hak : l_ack l = 255).
  { destruct (N.eq_dec (l_ack l) 255) as [|n]; auto. destruct (A10 n) as [_ [Q _]]. rewrite Hd in Q. inversion Q. }
  set (l1 := l <| l_locked := 0 |> <| l_ack := 255 |>).
  assert (G0 : GInv (setl s r l1) g).
  { apply (setl_irrel s g r l l1 G Hr); [|intuition].
    unfold same_rel, l1. destruct l; cbn in *. subst. intuition. }
  pose proof (ginv_set_lk_true _ g G0) as G2.
  unfold remove_lock. rewrite (updl_some _ _ _ _ Hr). fold l1. cbv zeta.
  change (getm (setl s r l1) k) with (getm s k). rewrite (getm_some _ _ _ Hm).
  assert (Hg1 : getl (setl s r l1) r = l1) by (rewrite getl_setl, N.eqb_refl; auto). rewrite Hg1.
  set (s1 := setl s r l1) in *.
  assert (Hm1 : aget (mgrs s1) k = Some m) by exact Hm.
  assert (Hgl1 : forall x, x <> r -> getl s1 x = getl s x).
  { intros x Hx. unfold s1. rewrite getl_setl. destruct (r =? x) eqn:E; auto. apply N.eqb_eq in E. congruence. }
  assert (Hcr : forall c, m_cur m = Some c -> c <> r).
  { intros c Hc ->. specialize (B7 r Hc). rewrite (getl_some _ _ _ Hr) in B7. lia. }
  assert (Ecur : match m_cur m with Some c => c =? r | None => false end = false).
  { destruct (m_cur m) as [c|] eqn:Ec; auto. apply N.eqb_neq. apply Hcr; auto. }
  rewrite Ecur.
  assert (Gres : GInv s1 g) by exact G0.
  destruct (m_locks m) as [q|] eqn:El; [|exact Gres].
  assert (Hhq : m_hq m = hq_items q) by (unfold m_hq; rewrite El; auto).
  set (q1 := hq_removelock q (c_lockid (l_cmd l1))).
  set (g2 := g <| g_lk := true |>) in *.
  assert (Hmap1 : map_ok s1 q1).
  { intros items mp Hs id r1 H1. unfold q1, hq_removelock in Hs. destruct (hq_scale q) as [[it0 mp0]|] eqn:Es; [|congruence].
    cbn in Hs. injection Hs as Hi Hmp. rewrite <- Hmp, <- Hi in *. rewrite aget_adel in H1.
    destruct (c_lockid (l_cmd l) =? id) eqn:E; [discriminate|].
    destruct (B10 q eq_refl it0 mp0 Es id r1 H1) as [D1 [D2 D3]].
    assert (r1 <> r). { intros ->. rewrite (getl_some _ _ _ Hr) in D2. lia. }
    rewrite Hgl1 by auto. auto. }
  assert (Hrel : forall r0, (occ r0 (cur_list m ++ hq_items q1) + occ r0 (g_ph g2) = occ r0 (phl s1 g2))%nat).
  { intros r0. unfold phl, g2. gs. rewrite Hpw, Hk, Hp. change (getm s1 k) with (getm s k). rewrite (getm_some _ _ _ Hm).
    unfold q1. rewrite hq_items_removelock. unfold holders. rewrite Hhq. simpl occ. lia. }
  rewrite hq_size_items.
  destruct (drop_dead_heads_ginv (S (length (hq_items q1))) s1 g2 k q1 (cur_list m) G2) as [ph' P]; unfold g2; gs; auto.
  { apply hq_removelock_capok. exact (proj1 Bc q eq_refl). }
  fold q1. destruct (drop_dead_heads (S (length (hq_items q1))) s1 q1) as [s' q']. fold g2 in P.
  destruct P as [P1 [P2 [Pc [P3 P4]]]].
  destruct (qframe_mgr_some s1 s' k m P2 Hm1) as [n Hm'].
  set (mo := m <| m_ref := n |>) in *. rewrite (updm_some _ _ _ _ Hm').
  set (m' := mo <| m_locks := Some q' |>).
  assert (Hhm' : holders m' = cur_list m ++ hq_items q') by (destruct m; reflexivity).
  assert (Hgmo : getm s' k = mo) by (apply getm_some; auto).
  assert (Hhmo : holders mo = holders m) by (destruct m; reflexivity).
  assert (Hrel' : forall r0, (occ r0 (holders m') + occ r0 ph' = occ r0 (holders mo))%nat).
  { intros r0. specialize (P3 r0). unfold phl, g2 in P3. gs. rewrite Hpw, Hk, Hgmo in P3. rewrite Hhm'. exact P3. }
  eapply ginv_geq; [apply (install_h s' _ k mo m' P1 Hm'); unfold g2; gs; auto|].
  - intros r0. rewrite Hq. simpl occ. specialize (Hrel' r0). lia.
  - rewrite Hq. simpl. tauto.
  - intros c Hc. assert (Hc0 : m_cur m = Some c) by (destruct m; exact Hc).
    assert (Hst : aget (store s') c <> None).
    { apply (mo_refs _ _ _ _ (gi_mgr _ _ P1 k mo Hm')). unfold phk, g2. gs. rewrite <- Hk, N.eqb_refl. rewrite occ_app.
      specialize (Hrel' c). rewrite Hhm', occ_app in Hrel'. unfold cur_list in Hrel'. rewrite Hc0 in Hrel'. simpl occ in Hrel'. rewrite N.eqb_refl in Hrel'.
      pose proof (proj1 (occ_nodup _) B4 c) as N0. rewrite Hhmo in *. lia. }
    rewrite (qframe_locked s1 s' c P2 Hst). rewrite Hgl1 by (apply Hcr; auto). apply B7; auto.
  - intros Hc. assert (Hc0 : m_cur m = None) by (destruct m; exact Hc).
    specialize (B8 Hc0). unfold m_hq, m'. assert (E : m_locks (mo <| m_locks := Some q' |>) = Some q') by (destruct mo; reflexivity). rewrite E.
    apply occ_all_zero_nil. intros r0. specialize (Hrel' r0). rewrite Hhm', Hhmo in Hrel'. unfold holders, cur_list in Hrel'.
    rewrite Hc0, B8 in Hrel'. simpl in Hrel'. lia.
  - intros q0 Hq0. assert (q0 = q') by (destruct mo; cbn in Hq0; congruence). subst q0. exact P4.
  - intros q0 Hq0. assert (q0 = q') by (destruct mo; cbn in Hq0; congruence). subst q0. exact Pc.
  - match goal with |- _ = _ <| g_dl := ?e |> => replace e with (g_dl g)%Z; [destruct g; gs; subst; reflexivity|] end.
    unfold g2; gs; rewrite Hq; simpl; lia.
Qed.
