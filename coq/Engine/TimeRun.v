(* Timer theorems, part 6: TA is an invariant of every core run; the doTimeOut call log and NEVER EARLY (C05 a). *)
From Coq Require Import String ZifyN ZifyBool ZifyNat.
From Slock Require Import Engine.Types Engine.Queues Engine.Timers Engine.Engine Engine.Engine2.
From Slock Require Import Engine.TimeBase Engine.TimeFrame Engine.TimeStep Engine.TimeWheel Engine.TimeInv.
Open Scope N_scope.

Ltac Zify.zify_post_hook ::= Z.div_mod_to_equations.

Notation cframe := (tframe core_cmd).

Lemma cframe_same_store s s' :
  now s' = now s -> checkT s' = checkT s -> next s' = next s -> twheel s' = twheel s -> tlong s' = tlong s ->
  mgrs s' = mgrs s -> store s' = store s -> cframe s s'.
Proof. apply tframe_same_store. Qed.

Definition PK (s : db) : Prop := Pstore core_cmd s /\ SK s.
Lemma PK_frame s s' : PK s -> cframe s s' -> PK s'.
Proof. intros [A B] F. split; [eapply Pstore_frame; eauto|eapply SK_frame; eauto]. Qed.
Lemma TA_PK s : TA s -> PK s.
Proof. intros T. split; [apply (ta_core _ T)|apply (ta_sk _ T)]. Qed.

(* ------------------------------------------------------------------ the expiry sweep is a timeout frame *)
Lemma sweep_e_slot_frame slot nowv : forall fuel s due ev,
  cframe s (fst (fst (sweep_e_slot fuel s slot nowv due ev))).
Proof.
  induction fuel as [|f IH]; intros s due ev; cbn [sweep_e_slot]; [apply tframe_refl|].
  destruct (wheel_get (ewheel s) slot) as [|r rest]; [apply tframe_refl|].
  set (s1 := s <| ewheel := aset (ewheel s) slot rest |>).
  assert (cframe s s1) as F1 by (apply cframe_same_store; reflexivity).
  destruct (match aget (store s1) r with None => true | Some _ => false end); [exact F1|].
  destruct (negb (l_expried (getl s1 r))).
  - destruct (nowv <? l_eT (getl s1 r))%Z.
    + set (s2 := updl s1 r (fun l => l <| l_ecc := (l_ecc l + 1) mod 256 |>)).
      assert (cframe s1 s2) as F2 by (apply tframe_updl; updl_side).
      pose proof (add_expried_frame core_cmd s2 (l_key (getl s1 r)) r) as F3.
      destruct (add_expried s2 (l_key (getl s1 r)) r) as [s3 aev]. cbn [fst] in F3.
      eapply tframe_trans; [|apply IH]. eapply tframe_trans; [exact F1|]. eapply tframe_trans; eauto.
    + eapply tframe_trans; [exact F1|apply IH].
  - pose proof (tframe_unref_mgr core_cmd s1 r (l_key (getl s1 r))) as F. cbv zeta in F.
    eapply tframe_trans; [|apply IH]. eapply tframe_trans; eauto.
Qed.

Lemma sweep_long_frame is_t : forall items s due, cframe s (fst (sweep_long s items is_t due)).
Proof.
  induction items as [|r rest IH]; intros s due; cbn [sweep_long]; [apply tframe_refl|].
  set (s1 := updl s r (fun l => l <| l_long := false |>)).
  assert (cframe s s1) as F1 by (apply tframe_updl; updl_side).
  destruct (negb (if is_t then l_timeouted (getl s1 r) else l_expried (getl s1 r))).
  - eapply tframe_trans; [exact F1|apply IH].
  - pose proof (tframe_unref_mgr core_cmd s1 r (l_key (getl s1 r))) as F. cbv zeta in F.
    eapply tframe_trans; [|apply IH]. eapply tframe_trans; eauto.
Qed.

Lemma collect_expiries_frame s t nowv : cframe s (fst (fst (collect_expiries s t nowv))).
Proof.
  unfold collect_expiries.
  pose proof (sweep_e_slot_frame (slot_of t) nowv (10 * length (wheel_get (ewheel s) (slot_of t)) + 10) s [] []) as A.
  destruct (sweep_e_slot _ s (slot_of t) nowv [] []) as [[s1 due] ev]. cbn [fst] in A.
  destruct (aget (elong s1) (lkey t)) as [items|]; [|exact A].
  set (s2 := s1 <| elong := adel (elong s1) (lkey t) |>).
  pose proof (sweep_long_frame false items s2 due) as B. destruct (sweep_long s2 items false due) as [s3 due3].
  cbn [fst] in *. eapply tframe_trans; [exact A|]. eapply tframe_trans; [|exact B].
  apply cframe_same_store; reflexivity.
Qed.

Lemma fire_all_frame f :
  (forall s r, cframe s (fst (fst (f s r)))) ->
  forall due s, PK s -> cframe s (fst (fire_all f s due)).
Proof.
  intros Hf. induction due as [|r rest IH]; intros s [P K]; cbn [fire_all]; [apply tframe_refl|].
  pose proof (core_finish_frame s (f s r) P K (Hf s r)) as F.
  destruct (finish (f s r)) as [s1 e1]. cbn [fst] in F.
  specialize (IH s1 (PK_frame _ _ (conj P K) F)). destruct (fire_all f s1 rest) as [s2 e2]. cbn [fst] in *.
  eapply tframe_trans; eauto.
Qed.

Lemma sweep_e_secs_frame nowv : forall n s t, PK s -> cframe s (fst (sweep_e_secs n s t nowv)).
Proof.
  induction n as [|n IH]; intros s t P; cbn [sweep_e_secs]; [apply tframe_refl|].
  pose proof (collect_expiries_frame s t nowv) as A. destruct (collect_expiries s t nowv) as [[s1 due] e1]. cbn [fst] in A.
  pose proof (fire_all_frame do_expried (do_expried_frame core_cmd) due s1 (PK_frame _ _ P A)) as B.
  destruct (fire_all do_expried s1 due) as [s2 e2]. cbn [fst] in B.
  assert (cframe s s2) as F by (eapply tframe_trans; eauto).
  specialize (IH s2 (t + 1)%Z (PK_frame _ _ P F)). destruct (sweep_e_secs n s2 (t + 1) nowv) as [s3 e3]. cbn [fst] in *.
  eapply tframe_trans; eauto.
Qed.

Lemma sweep_expiries_frame s : PK s -> cframe s (fst (sweep_expiries s)).
Proof.
  intros P. unfold sweep_expiries.
  set (s0 := s <| checkE := (now s + 1)%Z |>).
  assert (cframe s s0) as F0 by (apply cframe_same_store; reflexivity).
  eapply tframe_trans; [exact F0|]. apply sweep_e_secs_frame. eapply PK_frame; eauto.
Qed.

(* ------------------------------------------------------------------ TA is preserved by every core action *)
Lemma core_lockid c x : core_cmd c -> core_cmd (c <| c_lockid := x |>).
Proof. intros H. exact H. Qed.

Lemma finish_none s ev : finish (s, ev, None) = (s, ev).
Proof. reflexivity. Qed.

Lemma lock_TA s conn c : TA s -> core_cmd c -> TA (fst (finish (lock_step s conn c))).
Proof.
  intros T Cc.
  destruct (lock_step_shape core_cmd core_dummy (fun c H => H) s conn c (ta_hd _ T) (ta_hf _ T) Cc (fun x => core_lockid c x Cc))
    as [F|(s0 & c1 & F0 & NX & NW & CK & C1 & HS & E1 & E2 & E3 & TO & MS)].
  - eapply TA_frame; [exact T|]. apply core_finish_frame; auto; [apply (ta_core _ T)|apply (ta_sk _ T)].
  - destruct (lock_step s conn c) as [[s' ev] w]. cbn [fst snd] in *. subst w ev. rewrite finish_none. cbn [fst]. subst s'.
    assert (core_cmd c1) as CC1 by (destruct C1 as [->|[x ->]]; auto).
    set (s1 := fst (new_lock s0 (c_key c) conn c1)).
    assert (cframe s s1) as F1 by (eapply tframe_trans; [exact F0|apply tframe_new_lock; auto]).
    pose proof (new_lock_aget s0 (c_key c) conn c1) as G. fold s1 in G. rewrite NX in G.
    eapply TA_queue_tail; [eapply TA_frame; eauto|exact G|reflexivity|reflexivity| |].
    + intros kk I. apply (tf_long _ _ _ F1) in I. pose proof (ta_fresh _ T kk (next s) (or_intror I)). lia.
    + intros I. apply hsame_new_lock in I. apply HS in I. pose proof (ta_hf _ T _ I). lia.
Qed.

Lemma step_TA s a : TA s -> core_action a -> TA (fst (step s a)).
Proof.
  intros T CA. destruct a as [conn c|k| | |r ok|b]; cbn [step core_action] in *.
  - destruct (c_lock c); [apply lock_TA; auto|].
    eapply TA_frame; [exact T|]. apply core_finish_frame; [apply (ta_core _ T)|apply (ta_sk _ T)|].
    apply unlock_step_frame.
  - cbn [fst]. destruct T as [A1 A2 A3 A4 A5 A6 A7 A8 A9 A10]. constructor; auto; cbn; lia.
  - apply sweep_timeouts_TA; auto.
  - eapply TA_frame; [exact T|]. apply sweep_expiries_frame. apply TA_PK; auto.
  - destruct CA.
  - cbn [fst]. eapply TA_frame; [exact T|]. apply cframe_same_store; reflexivity.
Qed.

Lemma TA_init t0 aoft : (0 <= t0)%Z -> TA (init_db t0 aoft).
Proof.
  intros H. constructor; try (cbn; lia).
  - intros r l [G _]. discriminate.
  - intros r (k & m & G & _). discriminate.
  - intros r (k & m & G & _). discriminate.
  - intros r l G. discriminate.
  - intros r l G. discriminate.
Qed.

(* states and actions along a run *)
Fixpoint run_states (s : db) (acts : list action) : list (db * action) :=
  match acts with
  | [] => []
  | a :: rest => (s, a) :: run_states (fst (step s a)) rest
  end.

Lemma run_states_TA : forall acts s, TA s -> Forall core_action acts ->
  forall s' a, In (s', a) (run_states s acts) -> TA s' /\ core_action a.
Proof.
  induction acts as [|a rest IH]; intros s T FA s' a' I; cbn in I; [destruct I|].
  inversion FA as [|? ? CA FR]; subst. destruct I as [[= <- <-]|I]; auto.
  apply (IH (fst (step s a))); auto. apply step_TA; auto.
Qed.

Lemma run_events : forall acts s, snd (run s acts) = map (fun p => snd (step (fst p) (snd p))) (run_states s acts).
Proof.
  induction acts as [|a rest IH]; intros s; cbn; auto.
  destruct (step s a) as [s1 e1] eqn:E. specialize (IH s1). destruct (run s1 rest) as [s2 es]. cbn in *. rewrite IH. reflexivity.
Qed.

(* ------------------------------------------------------------------ the doTimeOut call log of a sweep *)
Fixpoint fire_log (f : db -> ref -> db * list event * option wake) (s : db) (due : list ref) : list (db * ref) :=
  match due with
  | [] => []
  | r :: rest => (s, r) :: fire_log f (fst (finish (f s r))) rest
  end.

Fixpoint sweep_t_log (n : nat) (s : db) (t nowv : Z) : list (db * ref) :=
  match n with
  | O => []
  | S n' => let '(s1, due) := collect_timeouts s t nowv in
            fire_log do_timeout s1 due ++ sweep_t_log n' (fst (fire_all do_timeout s1 due)) (t + 1)%Z nowv
  end.

Definition timeout_calls (s : db) : list (db * ref) :=
  sweep_t_log (Z.to_nat (now s + 1 - checkT s)) (s <| checkT := (now s + 1)%Z |>) (checkT s) (now s).

Definition call_events (f : db -> ref -> db * list event * option wake) (p : db * ref) : list event :=
  snd (finish (f (fst p) (snd p))).

Lemma fire_all_events f : forall due s, snd (fire_all f s due) = flat_map (call_events f) (fire_log f s due).
Proof.
  induction due as [|r rest IH]; intros s; cbn; auto.
  unfold call_events at 1. cbn [fst snd]. destruct (finish (f s r)) as [s1 e1]. cbn [fst snd].
  specialize (IH s1). destruct (fire_all f s1 rest) as [s2 e2]. cbn [snd] in *. rewrite IH. reflexivity.
Qed.

Lemma sweep_t_secs_events nowv : forall n s t,
  snd (sweep_t_secs n s t nowv) = flat_map (call_events do_timeout) (sweep_t_log n s t nowv).
Proof.
  induction n as [|n IH]; intros s t; cbn [sweep_t_secs sweep_t_log]; auto.
  destruct (collect_timeouts s t nowv) as [s1 due].
  pose proof (fire_all_events do_timeout due s1) as A. destruct (fire_all do_timeout s1 due) as [s2 e2]. cbn [fst snd] in *.
  specialize (IH s2 (t + 1)%Z). destruct (sweep_t_secs n s2 (t + 1) nowv) as [s3 e3]. cbn [snd] in *.
  rewrite flat_map_app, A, IH. reflexivity.
Qed.

Lemma sweep_timeouts_events s : snd (sweep_timeouts s) = flat_map (call_events do_timeout) (timeout_calls s).
Proof. unfold sweep_timeouts, timeout_calls. apply sweep_t_secs_events. Qed.

(* every call in the log happens in a TA state, at the sweep's `now`, on a record whose deadline has passed *)
Lemma fire_log_TA nowv : forall due s, TA s -> now s = nowv -> Due nowv due s ->
  forall s' r, In (s', r) (fire_log do_timeout s due) -> TA s' /\ now s' = nowv /\ Due nowv [r] s'.
Proof.
  induction due as [|r rest IH]; intros s T N D s' r' I; cbn in I; [destruct I|].
  destruct I as [[= <- <-]|I].
  - lsplit; auto. intros x lx [<-|[]]. apply D. left; auto.
  - pose proof (core_finish_frame s (do_timeout s r) (ta_core _ T) (ta_sk _ T) (do_timeout_frame core_cmd s r)) as F.
    eapply IH; [eapply TA_frame; eauto|rewrite (tf_now _ _ _ F); auto| |exact I].
    eapply Due_frame; [|exact F]. intros x lx Ix. apply D. right; auto.
Qed.

Lemma sweep_t_log_TA nowv : forall n s t,
  TA s -> checkT s = (nowv + 1)%Z -> now s = nowv -> (0 <= t)%Z -> (t + Z.of_nat n <= nowv + 1)%Z ->
  forall s' r, In (s', r) (sweep_t_log n s t nowv) -> TA s' /\ now s' = nowv /\ Due nowv [r] s'.
Proof.
  induction n as [|n IH]; intros s t T CK N T0 TN s' r I; cbn [sweep_t_log] in I; [destruct I|].
  pose proof (collect_timeouts_TA s t nowv T CK ltac:(lia)) as A.
  destruct (collect_timeouts s t nowv) as [s1 due]. destruct A as (T1 & CK1 & N1 & D1).
  apply in_app_iff in I. destruct I as [I|I].
  - eapply fire_log_TA; eauto. congruence.
  - pose proof (fire_all_TA due s1 T1) as B. cbv zeta in B. destruct B as (T2 & CK2 & N2).
    eapply (IH _ (t + 1)%Z); eauto; try congruence; lia.
Qed.

Lemma timeout_calls_TA s : TA s ->
  forall s' r, In (s', r) (timeout_calls s) -> TA s' /\ now s' = now s /\ Due (now s) [r] s'.
Proof.
  intros T s' r I. unfold timeout_calls in I.
  pose proof (ta_chk _ T). pose proof (ta_chk0 _ T).
  apply (sweep_t_log_TA (now s) (Z.to_nat (now s + 1 - checkT s)) (s <| checkT := (now s + 1)%Z |>) (checkT s));
    [apply TA_set_checkT; auto|reflexivity|reflexivity|auto|lia|exact I].
Qed.

(* C05 (a), record level: whenever doTimeOut runs on a live waiter, server time has reached the deadline that was
   computed when the request was queued *)
Theorem timeout_call_not_early s :
  TA s -> forall s' r l, In (s', r) (timeout_calls s) -> tlive s' r l ->
  now s' = now s /\ (timeout_deadline (l_cmd l) (l_start l) <= now s)%Z.
Proof.
  intros T s' r l I LV. destruct (timeout_calls_TA s T s' r I) as (T' & N & D).
  split; auto. fold (qdl l). rewrite <- (ta_dl _ T' r l LV). apply (D r l); auto. left; auto.
Qed.
