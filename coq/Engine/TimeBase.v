(* Timer theorems (C05 / C06), part 0: store / map / wheel algebra and the "timeout frame" relation that every
   non-sweeping critical section satisfies.  Nothing here edits the model (Engine/*.v). *)
From Coq Require Import String ZifyN ZifyBool ZifyNat.
From Slock Require Import Engine.Types Engine.Queues Engine.Timers Engine.Engine Engine.Engine2.
Open Scope N_scope.

Ltac Zify.zify_post_hook ::= Z.div_mod_to_equations.
Ltac lsplit := repeat match goal with |- _ /\ _ => split end.

(* ------------------------------------------------------------------ association maps *)
Section AMapMore.
  Context {V : Type}.
  Lemma aget_aset (m : amap V) k k' v : aget (aset m k v) k' = if k =? k' then Some v else aget m k'.
  Proof.
    destruct (k =? k') eqn:E.
    - apply N.eqb_eq in E; subst. apply aget_aset_same.
    - apply N.eqb_neq in E. apply aget_aset_other; auto.
  Qed.
  Lemma aget_adel (m : amap V) k k' : aget (adel m k) k' = if k =? k' then None else aget m k'.
  Proof.
    destruct (k =? k') eqn:E.
    - apply N.eqb_eq in E; subst. apply aget_adel_same.
    - apply N.eqb_neq in E. apply aget_adel_other; auto.
  Qed.
End AMapMore.

(* ------------------------------------------------------------------ store access *)
Lemma store_updl s r f :
  store (updl s r f) = match aget (store s) r with Some l => aset (store s) r (f l) | None => store s end.
Proof. unfold updl, setl. destruct (aget (store s) r); reflexivity. Qed.

Lemma aget_updl s r f r' :
  aget (store (updl s r f)) r' = if r =? r' then option_map f (aget (store s) r') else aget (store s) r'.
Proof.
  rewrite store_updl. destruct (r =? r') eqn:E.
  - apply N.eqb_eq in E; subst r'. destruct (aget (store s) r) eqn:G.
    + rewrite aget_aset, N.eqb_refl. reflexivity.
    + rewrite G. reflexivity.
  - destruct (aget (store s) r) eqn:G; auto. rewrite aget_aset, E. reflexivity.
Qed.

Lemma aget_setl s r l r' : aget (store (setl s r l)) r' = if r =? r' then Some l else aget (store s) r'.
Proof. unfold setl; cbn. apply aget_aset. Qed.

Lemma getl_some s r l : aget (store s) r = Some l -> getl s r = l.
Proof. unfold getl; intros ->; reflexivity. Qed.

(* projections through the primitive mutators *)
Lemma updl_now s r f : now (updl s r f) = now s.
Proof. unfold updl, setl; destruct (aget (store s) r); reflexivity. Qed.
Lemma updl_checkT s r f : checkT (updl s r f) = checkT s.
Proof. unfold updl, setl; destruct (aget (store s) r); reflexivity. Qed.
Lemma updl_checkE s r f : checkE (updl s r f) = checkE s.
Proof. unfold updl, setl; destruct (aget (store s) r); reflexivity. Qed.
Lemma updl_leader s r f : leader (updl s r f) = leader s.
Proof. unfold updl, setl; destruct (aget (store s) r); reflexivity. Qed.
Lemma updl_next s r f : next (updl s r f) = next s.
Proof. unfold updl, setl; destruct (aget (store s) r); reflexivity. Qed.
Lemma updl_twheel s r f : twheel (updl s r f) = twheel s.
Proof. unfold updl, setl; destruct (aget (store s) r); reflexivity. Qed.
Lemma updl_tlong s r f : tlong (updl s r f) = tlong s.
Proof. unfold updl, setl; destruct (aget (store s) r); reflexivity. Qed.
Lemma updl_ewheel s r f : ewheel (updl s r f) = ewheel s.
Proof. unfold updl, setl; destruct (aget (store s) r); reflexivity. Qed.
Lemma updl_elong s r f : elong (updl s r f) = elong s.
Proof. unfold updl, setl; destruct (aget (store s) r); reflexivity. Qed.
Lemma updl_mgrs s r f : mgrs (updl s r f) = mgrs s.
Proof. unfold updl, setl; destruct (aget (store s) r); reflexivity. Qed.
Lemma updl_cnt s r f : cnt (updl s r f) = cnt s.
Proof. unfold updl, setl; destruct (aget (store s) r); reflexivity. Qed.

(* the part of the state the timer theorems talk about; manager-only mutators leave it alone *)
Definition tview (s : db) := (now s, checkT s, checkE s, leader s, next s, store s, twheel s, tlong s, ewheel s, elong s).

Lemma updm_tview s k f : tview (updm s k f) = tview s.
Proof. unfold updm, setm; destruct (aget (mgrs s) k); reflexivity. Qed.
Lemma setm_tview s k m : tview (setm s k m) = tview s.
Proof. reflexivity. Qed.
Lemma updc_tview s f : tview (updc s f) = tview s.
Proof. reflexivity. Qed.
Lemma bump_tview s f : tview (bump f s) = tview s.
Proof. reflexivity. Qed.
Lemma remove_mgr_tview s k : tview (remove_mgr_if_unref s k) = tview s.
Proof. unfold remove_mgr_if_unref. destruct (aget (mgrs s) k); auto. destruct (m_ref m =? 0); reflexivity. Qed.

Lemma tview_store s s' : tview s' = tview s -> store s' = store s.
Proof. unfold tview; congruence. Qed.

Lemma getl_tview s s' r : tview s' = tview s -> getl s' r = getl s r.
Proof. intros H. unfold getl. rewrite (tview_store _ _ H). reflexivity. Qed.

(* ------------------------------------------------------------------ wheels *)
Lemma wheel_get_push w k r k' :
  wheel_get (wheel_push w k r) k' = if k =? k' then wheel_get w k ++ [r] else wheel_get w k'.
Proof.
  unfold wheel_push, wheel_get at 1. rewrite aget_aset. destruct (k =? k') eqn:E; auto.
Qed.

Lemma in_wheel_push w k r k' x :
  In x (wheel_get (wheel_push w k r) k') <-> In x (wheel_get w k') \/ (k = k' /\ x = r).
Proof.
  rewrite wheel_get_push. destruct (k =? k') eqn:E.
  - apply N.eqb_eq in E; subst. rewrite in_app_iff; cbn. intuition.
  - apply N.eqb_neq in E. intuition.
Qed.

Lemma in_remove_ref l r x : In x (remove_ref l r) <-> In x l /\ x <> r.
Proof.
  unfold remove_ref. rewrite filter_In. destruct (x =? r) eqn:E; cbn.
  - apply N.eqb_eq in E. intuition congruence.
  - apply N.eqb_neq in E. intuition.
Qed.

Lemma slot_of_mod t : (0 <= t)%Z -> Z.of_N (slot_of t) = (t mod 16)%Z.
Proof.
  intros H. unfold slot_of. rewrite Z2N.id.
  - change 15%Z with (Z.ones 4). rewrite Z.land_ones by lia. reflexivity.
  - apply Z.land_nonneg. right; lia.
Qed.

Lemma slot_of_neq t d : (0 <= t)%Z -> (t < d < t + 16)%Z -> slot_of d <> slot_of t.
Proof.
  intros H0 H E. assert (Z.of_N (slot_of d) = Z.of_N (slot_of t)) as E' by congruence.
  rewrite !slot_of_mod in E' by lia. lia.
Qed.

(* ------------------------------------------------------------------ the core subset *)
Definition core_cmd (c : cmd) : Prop :=
  has (c_tflag c) TF_REQUIRE_ACKED = false /\ has (c_tflag c) TF_MILLISECOND = false
  /\ has (c_eflag c) EF_MILLISECOND = false /\ c_data c = None.

Definition core_action (a : action) : Prop :=
  match a with
  | AReq _ c => core_cmd c
  | AAdvance k => (0 <= k)%Z
  | ASweepT | ASweepE | ARole _ => True
  | AAck _ _ => False
  end.

(* every stored command satisfies P *)
Definition Pstore (P : cmd -> Prop) (s : db) : Prop := forall r l, aget (store s) r = Some l -> P (l_cmd l).

(* ------------------------------------------------------------------ timeout frame *)
(* fields of a live waiter (l_timeouted = false) that no non-sweeping critical section may change *)
Definition tsame (l l' : lockrec) : Prop :=
  l_tT l' = l_tT l /\ l_cmd l' = l_cmd l /\ l_start l' = l_start l /\ l_conn l' = l_conn l
  /\ l_key l' = l_key l.

Lemma tsame_refl l : tsame l l.
Proof. unfold tsame; intuition. Qed.
#[export] Hint Resolve tsame_refl : core.
Lemma tsame_trans a b c : tsame a b -> tsame b c -> tsame a c.
Proof. unfold tsame; intuition congruence. Qed.

(* references reachable from the holder structures of a manager (everything GetLockedLock can return) *)
Definition hq_refs (q : hqueue) : list ref :=
  hq_fast q ++ match hq_scale q with Some (items, mp) => items ++ map snd mp | None => [] end.
Definition holder_refs (m : mgr) : list ref :=
  match m_cur m with Some c => [c] | None => [] end ++ match m_locks m with Some q => hq_refs q | None => [] end.
Definition isholder (s : db) (r : ref) : Prop := exists k m, aget (mgrs s) k = Some m /\ In r (holder_refs m).
Definition tdead (s : db) (r : ref) : Prop := forall l, aget (store s) r = Some l -> l_timeouted l = true.

Record tframe (C : cmd -> Prop) (s s' : db) : Prop := mkTframe {
  tf_now : now s' = now s;
  tf_checkT : checkT s' = checkT s;
  tf_next : next s <= next s';
  tf_wheel : twheel s' = twheel s;
  tf_long : forall k r, In r (wheel_get (tlong s') k) -> In r (wheel_get (tlong s) k);
  tf_live : forall r l', aget (store s') r = Some l' -> l_timeouted l' = false ->
            exists l, aget (store s) r = Some l /\ l_timeouted l = false /\ tsame l l'
                      /\ forall k, In r (wheel_get (tlong s) k) -> In r (wheel_get (tlong s') k);
  tf_cmd : forall r l', aget (store s') r = Some l' ->
           C (l_cmd l') \/ exists l, aget (store s) r = Some l /\ l_cmd l' = l_cmd l;
  tf_keys : forall r l', aget (store s') r = Some l' -> (exists l, aget (store s) r = Some l) \/ r < next s';
  tf_hold : forall r, isholder s' r -> isholder s r \/ (tdead s' r /\ r < next s')
}.

Lemma tframe_refl C s : tframe C s s.
Proof.
  constructor; auto; try lia.
  - intros r l' H1 H2. exists l'. lsplit; auto.
  - intros r l' H. right; eauto.
  - intros r l' H. left; eauto.
Qed.

Lemma tframe_dead C s s' r : tframe C s s' -> tdead s r -> tdead s' r.
Proof.
  intros F D l' H. destruct (l_timeouted l') eqn:E; auto.
  destruct (tf_live _ _ _ F r l' H E) as (l & A & B & _). rewrite (D _ A) in B. discriminate.
Qed.

Lemma tframe_trans C a b c : tframe C a b -> tframe C b c -> tframe C a c.
Proof.
  intros F1 F2. pose proof (fun r => tframe_dead _ _ _ r F2) as DD. revert F1 F2.
  intros [n1 c1 x1 w1 g1 v1 m1 y1 h1] [n2 c2 x2 w2 g2 v2 m2 y2 h2]. constructor; try congruence; try lia.
  - auto.
  - intros r l' H1 H2. destruct (v2 r l' H1 H2) as (l1 & A1 & A2 & A3 & A4).
    destruct (v1 r l1 A1 A2) as (l0 & B1 & B2 & B3 & B4).
    exists l0. split; [auto|split; [auto|split; [eapply tsame_trans; eauto|auto]]].
  - intros r l' H. destruct (m2 r l' H) as [|(l1 & A1 & A2)]; auto.
    destruct (m1 r l1 A1) as [|(l0 & B1 & B2)]; [left; congruence|right; exists l0; split; congruence].
  - intros r l' H. destruct (y2 r l' H) as [(l1 & A1)|]; auto. destruct (y1 r l1 A1); auto. right; lia.
  - intros r H. destruct (h2 r H) as [H'|]; auto. destruct (h1 r H') as [|[D L]]; auto. right. split; auto. lia.
Qed.

(* mutators that leave the timer view alone and add no holder reference *)
Lemma tframe_tview C s s' : tview s' = tview s -> (forall r, isholder s' r -> isholder s r) -> tframe C s s'.
Proof.
  unfold tview; intros H Hh; injection H as E1 E2 E3 E4 E5 E6 E7 E8 E9 E10.
  constructor; auto; try lia.
  - rewrite E8; auto.
  - rewrite E6, E8. intros r l' H1 H2. exists l'. lsplit; auto.
  - rewrite E6. intros r l' H. right; eauto.
  - rewrite E6. intros r l' H. left; eauto.
Qed.

Lemma isholder_mgrs s s' r : mgrs s' = mgrs s -> isholder s' r -> isholder s r.
Proof. unfold isholder. intros ->. auto. Qed.

Lemma isholder_updm s k f r :
  (forall m, incl (holder_refs (f m)) (holder_refs m)) -> isholder (updm s k f) r -> isholder s r.
Proof.
  intros Hf (k' & m' & A & B). unfold updm in A. destruct (aget (mgrs s) k) eqn:G; [|exists k', m'; auto].
  unfold setm in A. change (aget (aset (mgrs s) k (f m)) k' = Some m') in A. rewrite aget_aset in A.
  destruct (k =? k') eqn:E.
  - apply N.eqb_eq in E; subst k'. injection A as <-. exists k, m. split; auto. apply Hf; auto.
  - exists k', m'; auto.
Qed.

Lemma isholder_remove_mgr s k r : isholder (remove_mgr_if_unref s k) r -> isholder s r.
Proof.
  unfold remove_mgr_if_unref. destruct (aget (mgrs s) k); auto. destruct (m_ref m =? 0); auto.
  intros (k' & m' & A & B). change (aget (adel (mgrs s) k) k' = Some m') in A. rewrite aget_adel in A.
  destruct (k =? k'); try discriminate. exists k', m'; auto.
Qed.

Lemma tframe_updm C s k f :
  (forall m, incl (holder_refs (f m)) (holder_refs m)) -> tframe C s (updm s k f).
Proof. intros H. apply tframe_tview; [apply updm_tview|]. intros r. apply isholder_updm; auto. Qed.

Lemma tframe_bump C s f : tframe C s (bump f s).
Proof. apply tframe_tview; [reflexivity|]. intros r. apply isholder_mgrs. reflexivity. Qed.

Lemma tframe_remove_mgr C s k : tframe C s (remove_mgr_if_unref s k).
Proof. apply tframe_tview; [apply remove_mgr_tview|]. intros r. apply isholder_remove_mgr. Qed.

Lemma tframe_setm_new C s k : aget (mgrs s) k = None -> tframe C s (setm s k new_mgr).
Proof.
  intros G. apply tframe_tview; [reflexivity|]. intros r (k' & m' & A & B).
  change (aget (aset (mgrs s) k new_mgr) k' = Some m') in A. rewrite aget_aset in A.
  destruct (k =? k'). - injection A as <-. destruct B. - exists k', m'; auto.
Qed.

(* store-only mutators *)
Lemma tframe_store C s s' :
  now s' = now s -> checkT s' = checkT s -> next s <= next s' -> twheel s' = twheel s -> tlong s' = tlong s ->
  mgrs s' = mgrs s ->
  (forall r l', aget (store s') r = Some l' ->
     (l_timeouted l' = true /\ (C (l_cmd l') \/ exists l, aget (store s) r = Some l /\ l_cmd l' = l_cmd l)
      /\ (r < next s' \/ exists l, aget (store s) r = Some l))
     \/ exists l, aget (store s) r = Some l /\ l_cmd l' = l_cmd l /\ (l_timeouted l' = false -> l_timeouted l = false /\ tsame l l')) ->
  tframe C s s'.
Proof.
  intros E1 E2 E3 E4 E5 E6 H. constructor; auto.
  - rewrite E5; auto.
  - intros r l' H1 H2. rewrite E5. destruct (H r l' H1) as [[A _]|(l & A & B & D)]; [congruence|].
    destruct (D H2). exists l. lsplit; auto.
  - intros r l' H1. destruct (H r l' H1) as [(_ & A & _)|(l & A & B & D)]; auto. right; eauto.
  - intros r l' H1. destruct (H r l' H1) as [(_ & _ & [A|A])|(l & A & B & D)]; eauto.
  - intros r Hh. left. eapply isholder_mgrs; eauto.
Qed.

Ltac updl_side :=
  intros; cbn in *; try discriminate; try (split; [assumption || congruence | unfold tsame; cbn; intuition]); auto.

(* updl whose function keeps the timeout fields of live records (or kills the record) and keeps the command *)
Lemma tframe_updl C s r f :
  (forall l, l_timeouted (f l) = false -> l_timeouted l = false /\ tsame l (f l)) ->
  (forall l, l_cmd (f l) = l_cmd l) ->
  tframe C s (updl s r f).
Proof.
  intros Hf Hc. apply tframe_store.
  - apply updl_now. - apply updl_checkT. - rewrite updl_next; lia. - apply updl_twheel. - apply updl_tlong. - apply updl_mgrs.
  - intros r' l' H1. right. rewrite aget_updl in H1. destruct (r =? r') eqn:E.
    + destruct (aget (store s) r') eqn:G; cbn in H1; try discriminate. injection H1 as <-.
      exists l. lsplit; auto.
    + exists l'. lsplit; auto.
Qed.

(* a record that is not a live waiter may be rewritten arbitrarily, as long as it stays dead *)
Lemma tframe_setl_dead C s r l' :
  l_timeouted l' = true -> C (l_cmd l') \/ (exists l0, aget (store s) r = Some l0 /\ l_cmd l' = l_cmd l0) ->
  r < next s ->
  tframe C s (setl s r l').
Proof.
  intros D Hc FR. apply tframe_store; try reflexivity; try (cbn; lia).
  intros r' l1 H1. rewrite aget_setl in H1. destruct (r =? r') eqn:E.
  - injection H1 as <-. apply N.eqb_eq in E; subst r'. left. lsplit; auto.
  - right. exists l1. lsplit; auto.
Qed.

(* deleting a record *)
Lemma tframe_del C s r : tframe C s (s <| store := adel (store s) r |>).
Proof.
  apply tframe_store; try reflexivity; try (cbn; lia).
  intros r' l1 H1. change (aget (adel (store s) r) r' = Some l1) in H1.
  rewrite aget_adel in H1. destruct (r =? r'); try discriminate.
  right. exists l1. lsplit; auto.
Qed.

Lemma holder_refs_m_ref m x : holder_refs (m <| m_ref := x |>) = holder_refs m.
Proof. reflexivity. Qed.

Lemma tframe_free_lock C s r : tframe C s (free_lock s r).
Proof.
  unfold free_lock. destruct (aget (store s) r); [|apply tframe_refl].
  eapply tframe_trans; [apply tframe_del|apply tframe_updm]. intros m; apply incl_refl.
Qed.

Lemma tframe_unref C s r : tframe C s (unref s r).
Proof.
  unfold unref. destruct (aget (store s) r) eqn:G; [|apply tframe_refl].
  assert (tframe C s (setl s r (l <| l_refc := dec8 (l_refc l) |>))) as H.
  { replace (setl s r (l <| l_refc := dec8 (l_refc l) |>)) with (updl s r (fun l => l <| l_refc := dec8 (l_refc l) |>)).
    - apply tframe_updl; updl_side.
    - unfold updl. rewrite G. reflexivity. }
  destruct (dec8 (l_refc l) =? 0); auto.
  eapply tframe_trans; [exact H|apply tframe_free_lock].
Qed.

Lemma tframe_unref_mgr C s r k :
  tframe C s (let s1 := unref s r in
              if match aget (store s1) r with None => true | Some _ => false end then remove_mgr_if_unref s1 k else s1).
Proof.
  cbv zeta. destruct (match aget (store (unref s r)) r with None => true | Some _ => false end).
  - eapply tframe_trans; [apply tframe_unref|apply tframe_remove_mgr].
  - apply tframe_unref.
Qed.

(* a fresh record, born dead (GetOrNewLock) *)
Lemma tframe_new_lock (C : cmd -> Prop) s k conn c : C c -> tframe C s (fst (new_lock s k conn c)).
Proof.
  intros Hc. unfold new_lock. cbn [fst].
  eapply tframe_trans; [|apply tframe_updm; intros m; apply incl_refl].
  match goal with |- tframe _ _ (?s0 <| store := aset _ _ ?l |> <| next := _ |>) => set (nl := l) end.
  apply tframe_store; try reflexivity; try (cbn; lia).
  intros r' l1 H1. change (aget (aset (store s) (next s) nl) r' = Some l1) in H1.
  rewrite aget_aset in H1. destruct (next s =? r') eqn:E.
  - injection H1 as <-. left. lsplit; auto. left. apply N.eqb_eq in E. subst r'. cbn. lia.
  - right. exists l1. lsplit; auto.
Qed.

(* removing a dead (or absent) record from the long timeout table *)
Lemma tframe_remove_long_timeout C s r : tdead s r -> tframe C s (remove_long_timeout s r).
Proof.
  intros D. unfold remove_long_timeout.
  assert (forall f, (forall l, l_timeouted (f l) = l_timeouted l) -> (forall l, l_cmd (f l) = l_cmd l) ->
                    forall s0, store s0 = store s -> tframe C s0 (updl s0 r f)) as U.
  { intros f Hf Hc s0 Hs. apply tframe_store.
    - apply updl_now. - apply updl_checkT. - rewrite updl_next; lia. - apply updl_twheel. - apply updl_tlong. - apply updl_mgrs.
    - intros r' l' H1. rewrite aget_updl in H1. destruct (r =? r') eqn:E.
      + apply N.eqb_eq in E; subst r'.
        destruct (aget (store s0) r) eqn:G; cbn in H1; try discriminate. injection H1 as <-.
        left. rewrite Hf. pose proof G as G'. rewrite Hs in G. lsplit; [apply (D _ G)| |]; right; exists l; auto.
      + right. exists l'. lsplit; auto. }
  destruct (aget (tlong s) (lkey (l_tT (getl s r)))) eqn:G.
  - eapply tframe_trans; [|apply U; auto].
    set (kk := lkey (l_tT (getl s r))) in *.
    assert (forall k x, In x (wheel_get (match remove_ref l r with [] => adel (tlong s) kk | _ :: _ => aset (tlong s) kk (remove_ref l r) end) k)
                        <-> In x (wheel_get (tlong s) k) /\ (k = kk -> x <> r)) as W.
    { intros k x. unfold wheel_get at 1.
      destruct (remove_ref l r) eqn:RR.
      - rewrite aget_adel. destruct (kk =? k) eqn:E.
        + apply N.eqb_eq in E; subst k. unfold wheel_get; rewrite G. split; [intros []|].
          intros [I N]. assert (In x (remove_ref l r)) by (apply in_remove_ref; auto). rewrite RR in H; auto.
        + apply N.eqb_neq in E. fold (wheel_get (tlong s) k). intuition.
      - rewrite <- RR. rewrite aget_aset. destruct (kk =? k) eqn:E.
        + apply N.eqb_eq in E; subst k. unfold wheel_get; rewrite G. rewrite in_remove_ref. intuition.
        + apply N.eqb_neq in E. fold (wheel_get (tlong s) k). intuition. }
    constructor; try reflexivity; try (cbn; lia).
    + intros k x H. apply W in H. tauto.
    + intros r' l' H1 H2. exists l'. lsplit; auto. intros k I. apply W. split; auto.
      intros _ ->. rewrite (D _ H1) in H2. discriminate.
    + intros r' l' H1. right; eauto.
    + intros r' l' H1. left; eauto.
    + intros x Hx. left. eapply isholder_mgrs; eauto.
  - apply U; auto.
Qed.
