(* Value operations attached to Lock / UnLock (property C15), part 4: UnLock (unlock one level, full release,
   cancel-wait, refusals). *)
From Coq Require Import String ZifyN ZifyBool.
From Slock Require Import Engine.Types Engine.Queues Engine.Timers Engine.Engine Engine.Engine2 Engine.LocalBase
  Engine.InvLockDefs Engine.RunData Engine.RunData2 Engine.RunData3.
Open Scope N_scope.

(* ------------------------------------------------------------------ full release of a hold *)
(* s: state after `locked` was decreased; the key has manager m *)
Lemma release_hold_cases s k conn c r depth m s' ev :
  release_hold s k conn c r depth = (s', ev) -> aget (mgrs s) k = Some m ->
  (exists mid lc, ev = ERelease k r depth :: mid ++ [reply conn c R_SUCCED lc 0 (data_of s k)] /\ Forall quiet mid)
  /\ value_effect c (has_udata_flag c) (mk_env c (m_locked m) (m_waited m) false) (l_data (getl s r)) s k s' ev.
Proof.
  intros H Hm. unfold release_hold in H. cbv zeta in H.
  set (X := updl s r (fun l => l <| l_expried := true |>)) in *.
  assert (HgdX : forall k0, gd X k0 = gd s k0) by (intros; unfold X; apply gd_updl).
  assert (HlkX : m_locked (getm X k) = m_locked m).
  { unfold X. rewrite getm_updl, (getm_some _ _ _ Hm). reflexivity. }
  assert (HwtX : m_waited (getm X k) = m_waited m).
  { unfold X. rewrite getm_updl, (getm_some _ _ _ Hm). reflexivity. }
  assert (HldX : l_data (getl X r) = l_data (getl s r)).
  { unfold X. apply l_data_updl. reflexivity. }
  assert (HdX : data_of X k = data_of s k) by (rewrite !data_of_gd, HgdX; reflexivity).
  assert (HXs : mrel (le_mark k) true s X).
  { unfold X. apply mrel_updl. apply mrel_refl; rd. }
  repeat (split_hyp H); inv_tuple H.
  all: rewrite ?HdX.
  all: try match goal with E : process_data _ _ _ _ _ = (?d1, _) |- _ =>
         assert (Hdr : mrel (le_mark k) true d1 d1) by (apply mrel_refl; rd) end.
  all: split;
    [ do 2 eexists; split; [rewrite ?app_assoc; reflexivity|quiet_solve]
    | first [ eapply value_effect_ran; [eassumption|rd|pev_solve|exact HgdX|exact HlkX|exact HwtX|exact HldX]
            | apply value_effect_marked; [eapply mrel_trans; [rd|exact HXs|rd]|left; reflexivity] ] ].
Qed.

(* ------------------------------------------------------------------ UnLock of an own hold: one level or all *)
Lemma ul_body_cases s conn c k r m s' ev w :
  ul_body s conn c k r = (s', ev, w) -> aget (mgrs s) k = Some m ->
  w = Some (mkWake k (Some conn))
  /\ exists d, (d = 1 \/ d = l_locked (getl s r))
     /\ (exists mid lc lrc, ev = ERelease k r d :: mid ++ [reply conn c R_SUCCED lc lrc (data_of s k)] /\ Forall quiet mid)
     /\ value_effect c (has_udata_flag c) (mk_env c (sub32 (m_locked m) d) (m_waited m) false) (l_data (getl s r))
                     s k s' ev.
Proof.
  intros H Hm. unfold ul_body in H. cbv zeta in H.
  (* full release from state s_in *)
  assert (Hfull : forall d s1 ev1,
            release_hold (updm s k (fun m0 => m0 <| m_locked := sub32 (m_locked m0) d |>)) k conn c r d = (s1, ev1) ->
            (exists mid lc lrc, ev1 = ERelease k r d :: mid ++ [reply conn c R_SUCCED lc lrc (data_of s k)] /\ Forall quiet mid)
            /\ value_effect c (has_udata_flag c) (mk_env c (sub32 (m_locked m) d) (m_waited m) false)
                            (l_data (getl s r)) s k s1 ev1).
  { intros d s1 ev1 E.
    assert (Hin : aget (mgrs (updm s k (fun m0 => m0 <| m_locked := sub32 (m_locked m0) d |>))) k
                  = Some (m <| m_locked := sub32 (m_locked m) d |>)).
    { rewrite aget_mgrs_updm, N.eqb_refl, Hm. reflexivity. }
    destruct (release_hold_cases _ _ _ _ _ _ _ _ _ E Hin) as ((mid & lc & Hev & Hq) & Hv).
    assert (Hgd : forall k0, gd (updm s k (fun m0 => m0 <| m_locked := sub32 (m_locked m0) d |>)) k0 = gd s k0).
    { intros k0. apply gd_updm. reflexivity. }
    rewrite getl_updm in Hv. cbn [m_locked m_waited set] in Hv.
    rewrite data_of_gd, Hgd, <- data_of_gd in Hev.
    split; [exists mid, lc, 0; auto|]. eapply value_effect_gd_eq; eauto. }
  destruct (1 <? l_locked (getl s r)).
  - destruct ((0 <? c_rcount c) && negb (has (c_tflag c) TF_PRIORITY)).
    + (* one level *)
      set (X := updm (updl s r (fun l => l <| l_locked := dec8 (l_locked l) |>)) k
                     (fun m0 => m0 <| m_locked := sub32 (m_locked m0) 1 |>)) in *.
      assert (Hm1 : aget (mgrs (updl s r (fun l => l <| l_locked := dec8 (l_locked l) |>))) k = Some m).
      { rewrite mgrs_updl. exact Hm. }
      assert (HgdX : forall k0, gd X k0 = gd s k0).
      { intros k0. unfold X. rewrite gd_updm by reflexivity. apply gd_updl. }
      assert (HlkX : m_locked (getm X k) = sub32 (m_locked m) 1).
      { unfold X. rewrite (getm_updm_same _ _ _ _ Hm1). reflexivity. }
      assert (HwtX : m_waited (getm X k) = m_waited m).
      { unfold X. rewrite (getm_updm_same _ _ _ _ Hm1). reflexivity. }
      assert (HldX : l_data (getl X r) = l_data (getl s r)).
      { unfold X. rewrite getl_updm. apply l_data_updl. reflexivity. }
      assert (HdX : data_of X k = data_of s k) by (rewrite !data_of_gd, HgdX; reflexivity).
      assert (HXs : mrel (le_mark k) true s X).
      { unfold X. apply mrel_updm; [rd|rd|]. apply mrel_updl. apply mrel_refl; rd. }
      repeat (split_hyp H); inv_tuple H.
      all: rewrite ?HdX.
      all: try match goal with E : process_data _ _ _ _ _ = (?d1, _) |- _ =>
             assert (Hdr : mrel (le_mark k) true d1 d1) by (apply mrel_refl; rd) end.
      all: split; [reflexivity|]; exists 1; split; [left; reflexivity|]; split;
        [ do 3 eexists; split; [rewrite ?app_assoc; reflexivity|quiet_solve]
        | first [ eapply value_effect_ran; [eassumption|rd|pev_solve|exact HgdX|exact HlkX|exact HwtX|exact HldX]
                | apply value_effect_marked; [eapply mrel_trans; [rd|exact HXs|rd]|left; reflexivity] ] ].
    + destruct (release_hold _ k conn c r (l_locked (getl s r))) as [s1 ev1] eqn:E. inv_tuple H.
      split; [reflexivity|]. exists (l_locked (getl s r)). split; [right; reflexivity|]. apply Hfull, E.
  - destruct (release_hold _ k conn c r 1) as [s1 ev1] eqn:E. inv_tuple H.
    split; [reflexivity|]. exists 1. split; [left; reflexivity|]. apply Hfull, E.
Qed.

(* ------------------------------------------------------------------ cancel-wait *)
Lemma vals_marked_of_mrel k s s' : mrel (le_mark k) true s s' -> vals_marked k s s'.
Proof.
  intros H. split.
  - intros k0 m' Hk Hm'. destruct (mrel_back _ _ _ _ _ _ H Hm') as (m & Hm & Hle).
    unfold le_mark in Hle. apply N.eqb_neq in Hk. rewrite Hk in Hle.
    unfold gd. rewrite (getm_some _ _ _ Hm). exact Hle.
  - intros m' Hm'. destruct (mrel_back _ _ _ _ _ _ H Hm') as (m & Hm & Hle).
    unfold le_mark in Hle. rewrite N.eqb_refl in Hle.
    unfold gd. rewrite (getm_some _ _ _ Hm). exact Hle.
Qed.

Lemma vals_marked_data_of k s s' m' : vals_marked k s s' -> aget (mgrs s') k = Some m' -> data_of s' k = data_of s k.
Proof.
  intros (_ & H) Hm'. rewrite !data_of_gd. unfold gd at 1. rewrite (getm_some _ _ _ Hm').
  apply aofle_data, H, Hm'.
Qed.

Definition no_reply (e : event) : Prop := reply_code e = None.
Lemma quiet_ok_no_reply : quiet_ok no_reply.
Proof. intros [] H; simpl in *; try contradiction; reflexivity. Qed.

Lemma cancel_wait_cases s conn c s' ev w :
  cancel_wait_lock s conn c = (s', ev, w) ->
  let k := c_key c in
  vals_marked k s s'
  /\ ((s' = bump (fun n => n <| n_unlockerr := (n_unlockerr n + 1)%Z |>) s /\ w = None
       /\ exists lc, ev = [reply conn c R_UNLOCK_ERROR lc 0 (data_of s k)])
      \/ (w = Some (mkWake k None)
          /\ (exists ev1 lc lrc wconn wcmd,
                ev = ev1 ++ [reply conn c R_LOCKED_ERROR lc lrc (data_of s' k);
                             reply wconn wcmd R_UNLOCK_ERROR lc lrc (data_of s' k)]
                /\ Forall no_reply ev1)
          /\ (forall m', aget (mgrs s') k = Some m' -> data_of s' k = data_of s k))).
Proof.
  intros H. cbv zeta.
  assert (Hsr : mrel (le_mark (c_key c)) true s s) by (apply mrel_refl; rd).
  assert (Hmk : vals_marked (c_key c) s s').
  { apply vals_marked_of_mrel. unfold cancel_wait_lock in H. repeat (split_hyp H); inv_tuple H; rd. }
  split; [exact Hmk|].
  unfold cancel_wait_lock in H. repeat (split_hyp H); inv_tuple H.
  all: first
    [ left; split; [reflexivity|]; split; [reflexivity|]; eexists; reflexivity
    | right; split; [reflexivity|]; split;
      [ do 5 eexists; split; [reflexivity|]; ev_solve quiet_ok_no_reply; reflexivity
      | intros m' Hm'; eapply vals_marked_data_of; eauto ] ].
Qed.

(* ------------------------------------------------------------------ the whole of UnLock *)
(* the command as the release sees it: with UNLOCK_FLAG_FIRST the LockId, Count, Rcount, timeout and expiry terms
   are replaced by those of the current holder; type, request id, flag, key and frame never change *)
Definition uretarget (c c1 : cmd) : Prop :=
  c_lock c1 = c_lock c /\ c_req c1 = c_req c /\ c_flag c1 = c_flag c /\ c_key c1 = c_key c /\ c_data c1 = c_data c.
Lemma uretarget_refl c : uretarget c c.
Proof. repeat split. Qed.

Definition unlock_refused (code : N) : Prop :=
  code = R_UNLOCK_ERROR \/ code = R_UNOWN_ERROR \/ code = R_ACK_WAITING \/ code = R_STATE_ERROR.

Definition unlock_cases (s : db) (conn : N) (c : cmd) (s' : db) (ev : list event) (w : option wake) : Prop :=
  let k := c_key c in
  let m := getm s k in
  (* A: refused: only UnlockErrorCount changes *)
  (s' = bump (fun n => n <| n_unlockerr := (n_unlockerr n + 1)%Z |>) s /\ w = None
   /\ exists code lc lrc, ev = [reply conn c code lc lrc (data_of s k)] /\ unlock_refused code)
  (* B: a queued request was cancelled: no value operation; the two replies carry the value after the (possible)
     removal of the manager *)
  \/ (vals_marked k s s' /\ w = Some (mkWake k None)
      /\ (exists ev1 lc lrc wconn wcmd,
            ev = ev1 ++ [reply conn c R_LOCKED_ERROR lc lrc (data_of s' k);
                         reply wconn wcmd R_UNLOCK_ERROR lc lrc (data_of s' k)]
            /\ Forall no_reply ev1)
      /\ (forall m', aget (mgrs s') k = Some m' -> data_of s' k = data_of s k))
  (* C: d levels of hold r are released (d = 1 or the whole depth) *)
  \/ (w = Some (mkWake k (Some conn))
      /\ exists c1 r d, uretarget c c1 /\ (d = 1 \/ d = l_locked (getl s r))
         /\ (exists mid lc lrc, ev = ERelease k r d :: mid ++ [reply conn c1 R_SUCCED lc lrc (data_of s k)]
                                /\ Forall quiet mid)
         /\ value_effect c (has_udata_flag c) (mk_env c1 (sub32 (m_locked m) d) (m_waited m) false)
                         (l_data (getl s r)) s k s' ev).

Lemma unlock_step_cases s conn c s' ev w : unlock_step s conn c = (s', ev, w) -> unlock_cases s conn c s' ev w.
Proof.
  intros H. rewrite unlock_step_eq in H. cbv zeta in H. unfold unlock_cases. cbv zeta.
  set (k := c_key c) in *.
  destruct (aget (mgrs s) k) as [m|] eqn:Em.
  2:{ inv_tuple H. left. split; [reflexivity|]. split; [reflexivity|].
      exists R_UNLOCK_ERROR, 0, 0. split; [|left; reflexivity].
      rewrite (data_of_absent _ _ Em). reflexivity. }
  rewrite (getm_some _ _ _ Em).
  assert (Herr : forall c0 code lrc s1 ev1 w1, c0 = c -> unlock_refused code ->
            ul_err conn k m s c0 code lrc = (s1, ev1, w1) ->
            s1 = bump (fun n => n <| n_unlockerr := (n_unlockerr n + 1)%Z |>) s /\ w1 = None
            /\ exists code lc lrc, ev1 = [reply conn c code lc lrc (data_of s k)] /\ unlock_refused code).
  { intros c0 code lrc s1 ev1 w1 -> Hc E. unfold ul_err in E. inv_tuple E.
    split; [reflexivity|]. split; [reflexivity|]. exists code, (m_locked m), lrc. split; [reflexivity|exact Hc]. }
  assert (Hcw : forall s1 ev1 w1, cancel_wait_lock s conn c = (s1, ev1, w1) ->
            (s1 = bump (fun n => n <| n_unlockerr := (n_unlockerr n + 1)%Z |>) s /\ w1 = None
             /\ exists code lc lrc, ev1 = [reply conn c code lc lrc (data_of s k)] /\ unlock_refused code)
            \/ (vals_marked k s s1 /\ w1 = Some (mkWake k None)
                /\ (exists ev0 lc lrc wconn wcmd,
                      ev1 = ev0 ++ [reply conn c R_LOCKED_ERROR lc lrc (data_of s1 k);
                                    reply wconn wcmd R_UNLOCK_ERROR lc lrc (data_of s1 k)]
                      /\ Forall no_reply ev0)
                /\ (forall m', aget (mgrs s1) k = Some m' -> data_of s1 k = data_of s k))).
  { intros s1 ev1 w1 E. apply cancel_wait_cases in E. cbv zeta in E. fold k in E.
    destruct E as (Hmk & [(E1 & E2 & lc & E3)|(E1 & E2 & E3)]).
    - left. split; [exact E1|]. split; [exact E2|]. exists R_UNLOCK_ERROR, lc, 0. split; [exact E3|left; reflexivity].
    - right. auto. }
  destruct (negb (leader s) && negb (has (c_flag c) UNLOCK_FLAG_FROM_AOF)).
  { left. eapply Herr; [reflexivity| |exact H]. right; right; right; reflexivity. }
  destruct (m_locked m =? 0).
  { destruct (has (c_flag c) UNLOCK_FLAG_CANCEL_WAIT).
    - destruct (Hcw _ _ _ H) as [Hx|Hx]; [left; exact Hx|right; left; exact Hx].
    - left. eapply Herr; [reflexivity| |exact H]. left; reflexivity. }
  destruct (ul_target s conn c k m) as [[[r c1]|]|res] eqn:Et.
  - (* release *)
    assert (Hur : uretarget c c1).
    { unfold ul_target in Et. repeat (split_hyp Et); try discriminate.
      all: apply (f_equal (fun o => match o with inl (Some (_, x)) => x | _ => c end)) in Et; cbv beta iota in Et; subst c1.
      all: repeat split. }
    right; right.
    destruct (ul_body_cases _ _ _ _ _ _ _ _ _ H Em) as (Hw & d & Hd & (mid & lc & lrc & Hev & Hq) & Hv).
    split; [exact Hw|]. exists c1, r, d. split; [exact Hur|]. split; [exact Hd|].
    split; [exists mid, lc, lrc; auto|].
    destruct Hur as (_ & _ & Hfl & _ & Hdat).
    unfold has_udata_flag in *. rewrite Hfl in Hv. unfold value_effect in *. rewrite Hdat in Hv. exact Hv.
  - exfalso. unfold ul_target in Et. repeat (split_hyp Et); discriminate.
  - unfold ul_target in Et. repeat (split_hyp Et); try discriminate.
    all: apply (f_equal (fun o => match o with inr x => x | _ => (s, [], None) end)) in Et; cbv beta iota in Et;
         rewrite H in Et.
    all: try (left; eapply Herr; [reflexivity| |exact Et]; unfold unlock_refused; auto; fail).
    all: destruct (Hcw _ _ _ Et) as [Hx|Hx]; [left; exact Hx|right; left; exact Hx].
Qed.

(* ------------------------------------------------------------------ consequences for UnLock *)
(* (i) replies: the requester's replies (and the reply to a cancelled waiter) carry the value from before the
   request; after a cancel that removed the unreferenced manager they carry nothing *)
Definition unlock_reply_ok (s s' : db) (conn : N) (c : cmd) (e : event) : Prop :=
  match e with
  | EReply cn rq code lc lrc lid cnt rc d =>
      ((cn = conn /\ rq = c_req c) \/ code = R_UNLOCK_ERROR)
      /\ (d = data_of s (c_key c)
          \/ (d = None /\ (code = R_LOCKED_ERROR \/ code = R_UNLOCK_ERROR) /\ aget (mgrs s') (c_key c) = None))
  | _ => True
  end.
Lemma quiet_ok_unlock_reply s s' conn c : quiet_ok (unlock_reply_ok s s' conn c).
Proof. intros [] H; simpl in *; auto; contradiction. Qed.

Lemma unlock_reply_value s conn c s' ev w :
  unlock_step s conn c = (s', ev, w) -> Forall (unlock_reply_ok s s' conn c) ev.
Proof.
  intros H. apply unlock_step_cases in H. unfold unlock_cases in H. cbv zeta in H.
  destruct H as [H|[H|H]].
  - destruct H as (_ & _ & code & lc & lrc & -> & _). constructor; [|constructor].
    unfold unlock_reply_ok, reply. split; [left; split; reflexivity|left; reflexivity].
  - destruct H as (_ & _ & (ev1 & lc & lrc & wconn & wcmd & -> & Hn) & Hx).
    assert (Hd : data_of s' (c_key c) = data_of s (c_key c)
                 \/ (data_of s' (c_key c) = None /\ aget (mgrs s') (c_key c) = None)).
    { destruct (aget (mgrs s') (c_key c)) as [m'|] eqn:Em; [left; eapply Hx; eauto|].
      right. split; [apply data_of_absent, Em|reflexivity]. }
    apply Forall_app. split.
    + eapply Forall_impl; [|exact Hn]. intros [] He; simpl; auto. unfold no_reply in He. discriminate He.
    + constructor; [|constructor; [|constructor]]; unfold unlock_reply_ok, reply.
      * split; [left; split; reflexivity|]. destruct Hd as [->|(-> & Hd)]; [left; reflexivity|right; auto].
      * split; [right; reflexivity|]. destruct Hd as [->|(-> & Hd)]; [left; reflexivity|right; auto].
  - destruct H as (_ & c1 & r & d & Hur & _ & (mid & lc & lrc & -> & Hq) & _).
    constructor; [exact I|]. apply Forall_app. split.
    + apply Forall_quiet; auto. apply quiet_ok_unlock_reply.
    + constructor; [|constructor]. unfold unlock_reply_ok, reply.
      destruct Hur as (_ & Hrq & _). split; [left; split; [reflexivity|exact Hrq]|left; reflexivity].
Qed.

(* (ii) a refused UnLock (its only event is a refusal reply) changes nothing but UnlockErrorCount *)
Lemma unlock_refused_value s conn c s' ev w e code :
  unlock_step s conn c = (s', ev, w) -> ev = [e] -> reply_code e = Some code -> unlock_refused code ->
  s' = bump (fun n => n <| n_unlockerr := (n_unlockerr n + 1)%Z |>) s /\ w = None /\ vals_kept s s'.
Proof.
  intros H Hev Hcode Href. apply unlock_step_cases in H. unfold unlock_cases in H. cbv zeta in H.
  destruct H as [H|[H|H]].
  - destruct H as (-> & -> & _). split; [reflexivity|]. split; [reflexivity|]. exact (vals_kept_refl s).
  - exfalso. destruct H as (_ & _ & (ev1 & lc & lrc & wconn & wcmd & Hx & _) & _).
    rewrite Hev in Hx. destruct ev1 as [|a [|b ev1]]; discriminate Hx.
  - exfalso. destruct H as (_ & c1 & r & d & _ & _ & (mid & lc & lrc & Hx & _) & _).
    rewrite Hev in Hx. destruct mid; discriminate Hx.
Qed.

(* cancel-wait (success or not) and every refusal: no value operation *)
Lemma unlock_no_release_value s conn c s' ev w :
  unlock_step s conn c = (s', ev, w) ->
  (forall e, In e ev -> reply_code e <> Some R_SUCCED) -> vals_marked (c_key c) s s'.
Proof.
  intros H Hno. apply unlock_step_cases in H. unfold unlock_cases in H. cbv zeta in H.
  destruct H as [H|[H|H]].
  - destruct H as (-> & _). apply vals_kept_marked. exact (vals_kept_refl s).
  - destruct H as (Hm & _). exact Hm.
  - exfalso. destruct H as (_ & c1 & r & d & _ & _ & (mid & lc & lrc & -> & _) & _).
    apply (Hno (reply conn c1 R_SUCCED lc lrc (data_of s (c_key c)))); [|reflexivity].
    right. apply in_or_app. right. left. reflexivity.
Qed.

(* (iii) a successful UnLock (release event for d levels): the frame is applied exactly once, with the holder count
   AFTER the decrement; never recorded as recoverable *)
Lemma unlock_release_value s conn c s' ev w e k' r' d :
  unlock_step s conn c = (s', ev, w) -> In e ev -> reply_code e = Some R_SUCCED -> In (ERelease k' r' d) ev ->
  let k := c_key c in
  let m := getm s k in
  k' = k /\ (d = 1 \/ d = l_locked (getl s r'))
  /\ exists c1, uretarget c c1
     /\ value_effect c (has_udata_flag c) (mk_env c1 (sub32 (m_locked m) d) (m_waited m) false) (l_data (getl s r'))
                     s k s' ev.
Proof.
  intros H Hin Hcode Hrel. cbv zeta. apply unlock_step_cases in H. unfold unlock_cases in H. cbv zeta in H.
  destruct H as [H|[H|H]].
  - exfalso. destruct H as (_ & _ & code & lc & lrc & -> & Hc). destruct Hin as [<-|[]].
    simpl in Hcode. inv Hcode. destruct Hc as [Hx|[Hx|[Hx|Hx]]]; discriminate Hx.
  - exfalso. destruct H as (_ & _ & (ev1 & lc & lrc & wconn & wcmd & -> & Hn) & _).
    apply in_app_or in Hin. destruct Hin as [Hin|[<-|[<-|[]]]]; try discriminate Hcode.
    rewrite Forall_forall in Hn. apply Hn in Hin. unfold no_reply in Hin. congruence.
  - destruct H as (_ & c1 & r & d0 & Hur & Hd & (mid & lc & lrc & -> & Hq) & Hv).
    destruct Hrel as [Hx|Hrel].
    + inv Hx. split; [reflexivity|]. split; [exact Hd|]. exists c1. auto.
    + exfalso. apply in_app_single in Hrel. destruct Hrel as [Hrel|Hx]; [|discriminate Hx].
      exact (quiet_no_release _ _ _ _ Hq Hrel).
Qed.

Lemma uretarget_env_fields c c1 lk wt b : uretarget c c1 ->
  pe_islock (mk_env c1 lk wt b) = c_lock c /\ pe_flag (mk_env c1 lk wt b) = c_flag c.
Proof. intros (H1 & _ & H3 & _). split; [exact H1|exact H3]. Qed.

Lemma unlock_value_once s conn c s' ev w :
  unlock_step s conn c = (s', ev, w) -> applied_at_most_once c (has_udata_flag c) s (c_key c) s' ev.
Proof.
  intros H. apply unlock_step_cases in H. unfold unlock_cases in H. cbv zeta in H.
  destruct H as [H|[H|H]].
  - destruct H as (-> & _). apply vals_marked_once, vals_kept_marked. exact (vals_kept_refl s).
  - destruct H as (Hm & _). apply vals_marked_once, Hm.
  - destruct H as (_ & c1 & r & d & Hur & _ & _ & Hv).
    destruct (uretarget_env_fields c c1 (sub32 (m_locked (getm s (c_key c))) d) (m_waited (getm s (c_key c))) false Hur).
    eapply value_effect_once_env; eauto.
Qed.

Lemma unlock_no_frame_value s conn c s' ev w :
  unlock_step s conn c = (s', ev, w) -> has_udata_flag c = false \/ c_data c = None -> vals_marked (c_key c) s s'.
Proof.
  intros H Hf. apply unlock_value_once in H. destruct H as (H1 & H2). split; [exact H1|].
  intros m' Hm'. destruct (H2 m' Hm') as [Hx|(frame & env & ld & Hc & Hfl & _)]; [exact Hx|].
  destruct Hf; congruence.
Qed.
