(* Timer theorems, part 11: C05 in its final (history) form. *)
From Coq Require Import String ZifyN ZifyBool ZifyNat.
From Slock Require Import Engine.Types Engine.Queues Engine.Timers Engine.Engine Engine.Engine2.
From Slock Require Import Engine.TimeBase Engine.TimeFrame Engine.TimeStep Engine.TimeWheel Engine.TimeInv Engine.TimeRun.
From Slock Require Import Engine.TimeEvents Engine.TimeWhere Engine.TimeThm Engine.TimeMono.
Open Scope N_scope.

Ltac Zify.zify_post_hook ::= Z.div_mod_to_equations.

(* ------------------------------------------------------------------ the call log only sees records of the pre-state *)
Lemma fire_log_lmono : forall due s, TA s ->
  forall s' r, In (s', r) (fire_log do_timeout s due) -> lmono s s'.
Proof.
  induction due as [|r rest IH]; intros s T s' r' I; cbn in I; [destruct I|].
  destruct I as [[= <- <-]|I]; [apply lmono_refl|].
  pose proof (core_finish_frame s (do_timeout s r) (ta_core _ T) (ta_sk _ T) (do_timeout_frame core_cmd s r)) as F.
  eapply lmono_trans; [eapply lmono_frame; exact F|]. eapply IH; [eapply TA_frame; eauto|exact I].
Qed.

Lemma sweep_t_log_lmono nowv : forall n s t,
  TA s -> checkT s = (nowv + 1)%Z -> (0 <= t)%Z -> (t + Z.of_nat n <= nowv + 1)%Z ->
  forall s' r, In (s', r) (sweep_t_log n s t nowv) -> lmono s s'.
Proof.
  induction n as [|n IH]; intros s t T CK T0 TN s' r I; cbn [sweep_t_log] in I; [destruct I|].
  pose proof (collect_timeouts_TA s t nowv T CK ltac:(lia)) as A.
  pose proof (collect_timeouts_lmono s t nowv CK) as M.
  destruct (collect_timeouts s t nowv) as [s1 due]. destruct A as (T1 & CK1 & N1 & D1). cbn [fst] in M.
  apply in_app_iff in I. destruct I as [I|I].
  - eapply lmono_trans; [exact M|]. eapply fire_log_lmono; eauto.
  - pose proof (fire_all_TA due s1 T1) as B. cbv zeta in B. destruct B as (T2 & CK2 & N2).
    pose proof (fire_all_frame do_timeout (do_timeout_frame core_cmd) due s1 (TA_PK _ T1)) as F.
    eapply lmono_trans; [exact M|]. eapply lmono_trans; [eapply lmono_frame; exact F|].
    eapply (IH _ (t + 1)%Z); eauto; try congruence; lia.
Qed.

Lemma timeout_calls_lmono s : TA s -> forall s' r, In (s', r) (timeout_calls s) -> lmono s s'.
Proof.
  intros T s' r I. unfold timeout_calls in I.
  pose proof (ta_chk _ T). pose proof (ta_chk0 _ T).
  eapply lmono_trans; [apply (lmono_store s (s <| checkT := (now s + 1)%Z |>)); reflexivity|].
  eapply (sweep_t_log_lmono (now s)); [apply TA_set_checkT; auto|reflexivity| | |exact I]; auto; lia.
Qed.

(* ------------------------------------------------------------------ prefixes of runs *)
Lemma run_states_split : forall acts s0 s a,
  In (s, a) (run_states s0 acts) ->
  exists pre suf, acts = pre ++ a :: suf /\ s = fst (run s0 pre)
                  /\ forall p, In p (run_states s0 pre) -> In p (run_states s0 acts).
Proof.
  induction acts as [|b rest IH]; intros s0 s a I; cbn in I; [destruct I|].
  destruct I as [[= <- <-]|I].
  - exists [], rest. lsplit; auto. intros p [].
  - destruct (IH _ _ _ I) as (pre & suf & E & ES & INC). exists (b :: pre), suf. lsplit.
    + cbn. rewrite E. reflexivity.
    + cbn. destruct (step s0 b) as [s1 e1]. cbn in *. rewrite ES. destruct (run s1 pre). reflexivity.
    + intros p [<-|J]; [left; auto|right; auto].
Qed.

Definition tunit (c : cmd) : Z := if has (c_tflag c) TF_MINUTE then 60%Z else 1%Z.

Lemma timeout_deadline_core_eq c t :
  core_cmd c -> timeout_deadline c t = (t + Z.of_N (c_timeout c) * tunit c + 1)%Z.
Proof.
  intros (_ & M & _). unfold timeout_deadline, tunit. rewrite M. destruct (has (c_tflag c) TF_MINUTE); lia.
Qed.

(* C05 (a), final form.  In every core run from a state without waiters (e.g. init_db): a TIMEOUT reply emitted by
   a timeout sweep answers a Lock request AReq conn c that was queued by an earlier step of the run, at server time
   t0 = now of that step; it is addressed to that request's connection and request id, and the sweep runs at a
   server time >= t0 + Timeout*unit + 1. *)
Theorem timeout_never_early s0 acts :
  TA s0 -> (forall r l, ~ tlive s0 r l) -> Forall core_action acts ->
  forall s, In (s, ASweepT) (run_states s0 acts) ->
  forall e, In e (snd (step s ASweepT)) -> is_tr e = true ->
  exists sq conn c lockid lc lrc d,
    In (sq, AReq conn c) (run_states s0 acts) /\ c_lock c = true /\ (0 <? c_timeout c) = true
    /\ e = reply conn (c <| c_lockid := lockid |>) R_TIMEOUT lc lrc d
    /\ (now sq + Z.of_N (c_timeout c) * tunit c + 1 <= now s)%Z.
Proof.
  intros T0 NL FA s I e IE TR.
  destruct (run_states_TA acts s0 T0 FA s ASweepT I) as [T _].
  destruct (sweep_timeout_reply_not_early s T e IE TR) as (s' & r & l & lc & lrc & d & IL & LV & N & EQ & DL).
  destruct (proj2 (timeout_calls_lmono s T s' r IL) r l LV) as (l0 & L0 & S0).
  destruct (run_states_split acts s0 s ASweepT I) as (pre & suf & EA & ES & INC).
  assert (Forall core_action pre) as FP by (rewrite EA in FA; apply Forall_app in FA; tauto).
  subst s. destruct (live_waiter_history pre s0 T0 NL FP r l0 L0) as (sq & a & IQ & B).
  destruct (born_tsame _ _ _ _ _ B S0) as (conn & c & -> & CL & RN & ST & CN & CM & TO).
  assert (core_action (AReq conn c)) as CC by (eapply (run_states_TA pre s0 T0 FP sq); eauto).
  cbn in CC.
  assert (exists lockid, l_cmd l = c <| c_lockid := lockid |>) as (lockid & CM').
  { destruct CM as [->|[x ->]]; [exists (c_lockid c); destruct c; reflexivity|exists x; reflexivity]. }
  exists sq, conn, c, lockid, lc, lrc, d. lsplit; auto.
  - rewrite EQ, CN, CM'. reflexivity.
  - rewrite CM', ST in DL. rewrite timeout_deadline_core_eq in DL by exact CC. exact DL.
Qed.

(* ------------------------------------------------------------------ every other TIMEOUT reply is an immediate answer *)
From Slock Require Import Engine.TimeEvLock.

Definition no_tr (ev : list event) : Prop := forall e, In e ev -> is_tr e = false.

Lemma no_tr_app a b : no_tr a -> no_tr b -> no_tr (a ++ b).
Proof. intros A B e I. apply in_app_iff in I. destruct I; auto. Qed.
Lemma quiet_no_tr ev : quiet ev -> no_tr ev.
Proof. intros Q e I. apply (Q e I). Qed.

Lemma sweep_e_slot_no_tr slot nowv : forall fuel s due ev,
  no_tr ev -> no_tr (snd (sweep_e_slot fuel s slot nowv due ev)).
Proof.
  induction fuel as [|f IH]; intros s due ev Q; cbn [sweep_e_slot]; [exact Q|].
  destruct (wheel_get (ewheel s) slot) as [|r rest]; [exact Q|].
  repeat match goal with |- context [if ?b then _ else _] => destruct b end; cbn [snd]; auto.
  match goal with |- context [add_expried ?a ?b ?c] =>
    pose proof (quiet_add_expried a b c) as QA; destruct (add_expried a b c) as [s3 aev] end.
  cbn [snd] in QA. apply IH. apply no_tr_app; auto using quiet_no_tr.
Qed.

Lemma collect_expiries_no_tr s t nowv : no_tr (snd (collect_expiries s t nowv)).
Proof.
  unfold collect_expiries.
  pose proof (sweep_e_slot_no_tr (slot_of t) nowv (10 * length (wheel_get (ewheel s) (slot_of t)) + 10) s [] []) as A.
  destruct (sweep_e_slot _ s (slot_of t) nowv [] []) as [[s1 due] ev]. cbn [snd] in A.
  destruct (aget (elong s1) (lkey t)); [destruct (sweep_long _ _ false due)|]; cbn [snd]; apply A; intros e [].
Qed.

Lemma fire_all_expried_no_tr : forall due s, no_tr (snd (fire_all do_expried s due)).
Proof.
  induction due as [|r rest IH]; intros s; cbn [fire_all]; [intros e []|].
  destruct (finish_events (do_expried s r)) as (wev & EQ & QW).
  destruct (finish (do_expried s r)) as [s1 e1]. cbn [snd] in EQ.
  specialize (IH s1). destruct (fire_all do_expried s1 rest) as [s2 e2]. cbn [snd] in *.
  apply no_tr_app; auto. rewrite EQ. apply no_tr_app; [exact (do_expried_no_timeout s r)|apply quiet_no_tr; auto].
Qed.

Lemma sweep_e_secs_no_tr nowv : forall n s t, no_tr (snd (sweep_e_secs n s t nowv)).
Proof.
  induction n as [|n IH]; intros s t; cbn [sweep_e_secs]; [intros e []|].
  pose proof (collect_expiries_no_tr s t nowv) as A. destruct (collect_expiries s t nowv) as [[s1 due] e1]. cbn [snd] in A.
  pose proof (fire_all_expried_no_tr due s1) as B. destruct (fire_all do_expried s1 due) as [s2 e2]. cbn [snd] in B.
  specialize (IH s2 (t + 1)%Z). destruct (sweep_e_secs n s2 (t + 1) nowv) as [s3 e3]. cbn [snd] in *.
  apply no_tr_app; auto. apply no_tr_app; auto.
Qed.

(* every TIMEOUT reply of a run comes from a timeout sweep, or is the immediate answer of a Lock request that is not
   queued (Timeout = 0 or the timeout-when-data flag) *)
Theorem timeout_replies_classified s a :
  forall e, In e (snd (step s a)) -> is_tr e = true ->
  a = ASweepT \/ exists conn c, a = AReq conn c /\ c_lock c = true /\ immediate_timeout conn c e.
Proof.
  intros e I TR. destruct a as [conn c|k| | |r ok|b]; cbn [step] in I; auto.
  - right. exists conn, c. destruct (c_lock c) eqn:CL.
    + split; auto. split; auto.
      destruct (finish_events (lock_step s conn c)) as (wev & EQ & QW). rewrite EQ in I. apply in_app_iff in I.
      destruct I as [I|I]; [apply lock_step_timeout_replies with (s := s); auto|destruct (QW e I); congruence].
    + exfalso. destruct (finish_events (unlock_step s conn c)) as (wev & EQ & QW). rewrite EQ in I. apply in_app_iff in I.
      destruct I as [I|I]; [destruct (quiet_unlock_step s conn c e I)|destruct (QW e I)]; congruence.
  - destruct I.
  - exfalso. unfold sweep_expiries in I. rewrite (sweep_e_secs_no_tr _ _ _ _ e I) in TR. discriminate.
  - exfalso. destruct (finish_events (do_ack s r ok)) as (wev & EQ & QW). rewrite EQ in I. apply in_app_iff in I.
    destruct I as [I|I]; [|destruct (QW e I); congruence].
    unfold do_ack in I. destruct (aget (store s) r); [|destruct I as [<-|[]]; discriminate].
    revert I. cbv zeta. repeat break_inner_e; cbn [fst snd]; quiet_hyps; intros I;
      repeat (apply in_app_iff in I; destruct I as [I|I]);
      try (match goal with Q : quiet ?ev, I : In e ?ev |- _ => destruct (Q e I); congruence end);
      cbn [In] in I; repeat (destruct I as [<-|I]; [try (cbn in TR; discriminate TR)|]); try (destruct I).
  - destruct I.
Qed.

(* (b), what the sweep does to an overdue waiter: it is no longer live afterwards (it was answered TIMEOUT by this
   sweep, or granted by one of its wake-up passes) *)
Theorem sweep_answers_overdue s r l :
  TA s -> TW [] (checkT s) s -> (now s < checkT s + 7)%Z -> ~ has_panic (snd (sweep_timeouts s)) ->
  tlive s r l -> (l_tT l <= now s)%Z -> tdead (fst (sweep_timeouts s)) r.
Proof.
  intros T W LAG NP [G LV] DUE l' G'. destruct (l_timeouted l') eqn:LV'; auto. exfalso.
  destruct (sweep_timeouts_no_loss s T W LAG NP) as [_ B]. specialize (B r l' (conj G' LV')).
  destruct (proj2 (sweep_timeouts_lmono s T) r l' (conj G' LV')) as (l0 & [G0 _] & (S1 & _)).
  rewrite G in G0. injection G0 as <-. lia.
Qed.

(* (c) Timeout = 0: the request is never queued -- the step is a timeout frame: the timeout wheel is untouched, the
   long table does not grow, no waiter becomes live *)
Theorem lock_timeout0_not_queued s conn c :
  TA s -> core_cmd c -> c_timeout c = 0 ->
  cframe s (fst (fst (lock_step s conn c))) /\ twheel (fst (fst (lock_step s conn c))) = twheel s
  /\ (forall r l', tlive (fst (fst (lock_step s conn c))) r l' -> exists l, tlive s r l)
  /\ forall e, In e (snd (fst (lock_step s conn c))) -> is_tr e = true -> immediate_timeout conn c e.
Proof.
  intros T Cc T0.
  destruct (lock_step_shape core_cmd core_dummy (fun c H => H) s conn c (ta_hd _ T) (ta_hf _ T) Cc (fun x => core_lockid c x Cc))
    as [F|(s0 & c1 & F0 & NX & NW & CK & C1 & HS & E1 & E2 & E3 & TO & MS)].
  - lsplit; auto.
    + apply (tf_wheel _ _ _ F).
    + intros r l' LV. destruct (proj2 (lmono_frame _ _ _ F) r l' LV) as (l & L & _). eauto.
    + apply lock_step_timeout_replies.
  - exfalso. assert (c_timeout c1 = 0) as Z0 by (destruct C1 as [->|[x ->]]; auto). rewrite Z0 in TO. discriminate.
Qed.

(* (c), second half: whenever Lock itself answers TIMEOUT, the reply is the immediate one for this request and nothing
   of the request is retained (TimeZero.retained_nothing: the allocated record is freed again, every other record,
   every wait queue and all four timer structures are unchanged) *)
From Slock Require Import Engine.TimeZero.

Lemma TA_next_absent s : TA s -> aget (store s) (next s) = None.
Proof.
  intros T. destruct (aget (store s) (next s)) as [l|] eqn:G; auto. pose proof (ta_sk _ T _ _ G). lia.
Qed.

Theorem lock_timeout_immediate s conn c :
  TA s -> forall e, In e (snd (fst (lock_step s conn c))) -> is_tr e = true ->
  immediate_timeout conn c e /\ retained_nothing s (fst (fst (lock_step s conn c))).
Proof.
  intros T e I TR. split; [apply lock_step_timeout_replies with (s := s); auto|].
  apply (lock_timeout_retains_nothing s conn c (TA_next_absent s T) e I TR).
Qed.
