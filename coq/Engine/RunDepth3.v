(* Depth arithmetic of re-entrant holds (property C02), part 3: frame of Lock and UnLock.
   Whatever a Lock / UnLock request does, the depth (and key, command, ack counter) of every lock record that is still
   stored afterwards is what it was, except for
     Lock:   the newly allocated record `next s`, and the hold the lookup finds (re-entrant / update branch);
     UnLock: the hold the lookup finds, the current lock under UNLOCK_FLAG_FIRST, and -- under UNLOCK_FLAG_CANCEL_WAIT --
             records that are live waiters (l_timeouted = false; they hold nothing in a reachable state).
   No record appears except `next s`.  Every state, no invariant. *)
From Coq Require Import String ZifyN ZifyBool ZifyNat.
From Slock Require Import Engine.Types Engine.Queues Engine.Timers Engine.Engine Engine.Engine2 Engine.LocalBase
  Engine.LocalFrames Engine.LocalC01 Engine.LocalC04 Engine.InvDef Engine.InvBase Engine.InvLockDefs Engine.InvUnlock
  Engine.RunDepth.
Open Scope N_scope.

(* ------------------------------------------------------------------ UnLock *)
Lemma ul_body_dk (X : ref -> Prop) s conn c k r s' ev w :
  X r -> ul_body s conn c k r = (s', ev, w) -> dk X s s'.
Proof.
  intros HX H. unfold ul_body in H. cbv zeta in H.
  repeat (split_hyp H); inv_tuple H.
  all: try (eapply release_hold_dk; [exact HX|eassumption|]).
  all: dks.
Qed.

Lemma cancel_wait_lock_dk (X : ref -> Prop) s conn c s' ev w :
  (forall r, l_timeouted (getl s r) = false -> X r) ->
  cancel_wait_lock s conn c = (s', ev, w) -> dk X s s'.
Proof.
  intros HX H. unfold cancel_wait_lock in H. cbv zeta in H.
  destruct (match m_wait (getm s (c_key c)) with
            | Some q => find_last_waiter s (wq_items q) (c_lockid c) None
            | None => None end) as [r|] eqn:Ew.
  2:{ inv_tuple H. dks. }
  assert (Xr : X r).
  { apply HX. destruct (m_wait (getm s (c_key c))) as [q|]; [|discriminate].
    destruct (find_last_waiter_spec _ _ _ _ _ Ew) as [A|[_ A]]; [discriminate|exact A]. }
  repeat (split_hyp H); inv_tuple H.
  all: dks.
Qed.

Theorem unlock_step_dk (X : ref -> Prop) s conn c s' ev w :
  unlock_step s conn c = (s', ev, w) ->
  (forall m r, aget (mgrs s) (c_key c) = Some m -> get_locked_lock s m (c_lockid c) = Some r -> X r) ->
  (forall m r, aget (mgrs s) (c_key c) = Some m -> has (c_flag c) UNLOCK_FLAG_FIRST = true -> m_cur m = Some r -> X r) ->
  (has (c_flag c) UNLOCK_FLAG_CANCEL_WAIT = true -> forall r, l_timeouted (getl s r) = false -> X r) ->
  dk X s s'.
Proof.
  intros H H1 H2 H3. rewrite unlock_step_eq in H. cbv zeta in H.
  destruct (aget (mgrs s) (c_key c)) as [m|] eqn:Hm; [|inv_tuple H; dks].
  destruct (negb (leader s) && negb (has (c_flag c) UNLOCK_FLAG_FROM_AOF)); [unfold ul_err in H; inv_tuple H; dks|].
  destruct (m_locked m =? 0).
  { destruct (has (c_flag c) UNLOCK_FLAG_CANCEL_WAIT) eqn:Ec; [|unfold ul_err in H; inv_tuple H; dks].
    eapply cancel_wait_lock_dk; [apply H3; reflexivity|exact H]. }
  unfold ul_target, ul_err in H. cbv zeta in H.
  destruct (get_locked_lock s m (c_lockid c)) as [r|] eqn:Eg.
  - destruct (negb (l_ack (getl s r) =? 255)); [inv_tuple H; dks|].
    eapply ul_body_dk; [|exact H]. eapply H1; eauto.
  - destruct (has (c_flag c) UNLOCK_FLAG_FIRST) eqn:Ef.
    + destruct (m_cur m) as [cr|] eqn:Ecr; [|inv_tuple H; dks].
      destruct (negb (l_ack (getl s cr) =? 255)); [inv_tuple H; dks|].
      eapply ul_body_dk; [|exact H]. eapply H2; eauto.
    + destruct (has (c_flag c) UNLOCK_FLAG_CANCEL_WAIT) eqn:Ec; [|inv_tuple H; dks].
      eapply cancel_wait_lock_dk; [apply H3; reflexivity|exact H].
Qed.

(* ------------------------------------------------------------------ Lock *)
(* the command after the SHOW retargeting *)
Definition lock_target (s : db) (c : cmd) (m : mgr) : cmd :=
  if has (c_flag c) LOCK_FLAG_SHOW
  then c <| c_lockid := c_lockid (l_cmd (getl s (match m_cur m with Some cr => cr | None => 0 end))) |>
  else c.

Lemma ls_held_dk (X : ref -> Prop) s conn c k m s' ev w c' wt :
  (forall r, get_locked_lock s m (c_lockid (lock_target s c m)) = Some r -> X r) ->
  ls_held s conn c k m = (Some (s', ev, w), c', wt) -> dk X s s'.
Proof.
  intros HX H. unfold ls_held in H. cbv zeta in H. unfold lock_target in HX.
  repeat (split_hyp H); inv_tuple H; try discriminate.
  all: try match goal with E : get_locked_lock _ _ _ = Some ?r |- _ => pose proof (HX r E) end.
  all: match goal with H0 : Some _ = Some _ |- _ => inversion H0; subst; clear H0 end.
  all: dks.
Qed.

Lemma ls_tail_dk (X : ref -> Prop) s conn c k waited s' ev w :
  X (next s) -> ls_tail s conn c k waited = (s', ev, w) -> dk X s s'.
Proof.
  intros HX H. unfold ls_tail in H. cbv zeta in H.
  destruct (new_lock s k conn c) as [s1 r] eqn:En.
  destruct (new_lock_dk X s s k conn c s1 r HX En (dk_refl _ _)) as [-> D0].
  repeat (split_hyp H); inv_tuple H.
  all: dks.
Qed.

Theorem lock_step_dk (X : ref -> Prop) s conn c s' ev w :
  lock_step s conn c = (s', ev, w) ->
  X (next s) ->
  (forall m r, aget (mgrs s) (c_key c) = Some m -> 0 < m_locked m ->
               get_locked_lock s m (c_lockid (lock_target s c m)) = Some r -> X r) ->
  dk X s s'.
Proof.
  intros H HX1 HX2. rewrite lock_step_eq in H. cbv zeta in H. set (k := c_key c) in *.
  destruct (ls_pre s conn c k); [inv_tuple H; dks|].
  assert (D1 : dk X s (ls_mgr s k)) by (unfold ls_mgr; destruct (aget (mgrs s) k); dks).
  assert (N1 : next (ls_mgr s k) = next s) by (unfold ls_mgr; destruct (aget (mgrs s) k); reflexivity).
  assert (HX3 : forall r, get_locked_lock (ls_mgr s k) (getm (ls_mgr s k) k) (c_lockid (lock_target (ls_mgr s k) c (getm (ls_mgr s k) k))) = Some r ->
                          (0 <? m_locked (getm (ls_mgr s k) k)) = true -> X r).
  { unfold ls_mgr. destruct (aget (mgrs s) k) as [m|] eqn:Hm.
    - intros r Hg Hp. rewrite (getm_some _ _ _ Hm) in *. apply (HX2 m r); auto. apply N.ltb_lt; auto.
    - intros r _ Hp. exfalso. unfold getm in Hp.
      change (mgrs (bump (fun n => n <| n_key := (n_key n + 1)%Z |>) (setm s k new_mgr))) with (aset (mgrs s) k new_mgr) in Hp.
      rewrite aget_aset_same in Hp. discriminate. }
  set (s1 := ls_mgr s k) in *.
  destruct (negb (leader s1) && negb (has (c_flag c) LOCK_FLAG_FROM_AOF)); [inv_tuple H; dks|].
  destruct (ls_held s1 conn c k (getm s1 k)) as [[[res|] c'] wt] eqn:Eh.
  - destruct res as [[s2 ev2] w2]. inv_tuple H. eapply dk_trans; [exact D1|].
    destruct (0 <? m_locked (getm s1 k)) eqn:Ep.
    + eapply ls_held_dk; [|exact Eh]. intros r Hg. apply HX3; auto.
    + (* key not held: the only answer without a new record is UNOWN_ERROR, state unchanged *)
      unfold ls_held in Eh. rewrite Ep in Eh. repeat (split_hyp Eh); inv_tuple Eh; try discriminate.
      match goal with H0 : Some _ = Some _ |- _ => inversion H0; subst; clear H0 end. dks.
  - eapply dk_trans; [exact D1|]. eapply ls_tail_dk; [|exact H]. rewrite N1. exact HX1.
Qed.

(* ------------------------------------------------------------------ managers of other keys keep `locked` *)
Lemma cancel_wait_lock_eqm s conn c s' ev w :
  cancel_wait_lock s conn c = (s', ev, w) -> msub (Some (c_key c)) eq_locked s s'.
Proof.
  unfold cancel_wait_lock. intros H. repeat (split_hyp H); inv_tuple H.
  all: ms.
Qed.

Lemma unlock_step_eqm s conn c s' ev w :
  unlock_step s conn c = (s', ev, w) -> msub (Some (c_key c)) eq_locked s s'.
Proof.
  unfold unlock_step. intros H. repeat (split_hyp H); inv_tuple H.
  all: try (eapply cancel_wait_lock_eqm; eassumption).
  all: ms.
Qed.

Lemma lock_step_eqm s conn c s' ev w :
  lock_step s conn c = (s', ev, w) -> msub (Some (c_key c)) eq_locked (get_or_new_mgr s (c_key c)) s'.
Proof.
  unfold lock_step. intros H. cbv zeta in H.
  change (match aget (mgrs s) (c_key c) with
          | Some _ => s
          | None => bump (fun n => n <| n_key := (n_key n + 1)%Z |>) (setm s (c_key c) new_mgr)
          end) with (get_or_new_mgr s (c_key c)) in H.
  set (sm := get_or_new_mgr s (c_key c)) in *.
  repeat (split_hyp H). all: inv_tuple H.
  all: try solve [ms].
  all: apply msub_get_or_new_back; ms.
Qed.

(* pointwise reading: a manager of another key that exists afterwards existed before with the same `locked` *)
Lemma unlock_other_keys s conn c s' ev w :
  unlock_step s conn c = (s', ev, w) ->
  forall k' m', k' <> c_key c -> aget (mgrs s') k' = Some m' ->
  exists m0, aget (mgrs s) k' = Some m0 /\ m_locked m' = m_locked m0.
Proof.
  intros H k' m' Hne Hm'. destruct (unlock_step_eqm _ _ _ _ _ _ H k' m') as (m0 & H0 & E); [congruence|exact Hm'|].
  exists m0. split; auto.
Qed.
Lemma lock_other_keys s conn c s' ev w :
  lock_step s conn c = (s', ev, w) ->
  forall k' m', k' <> c_key c -> aget (mgrs s') k' = Some m' ->
  exists m0, aget (mgrs s) k' = Some m0 /\ m_locked m' = m_locked m0.
Proof.
  intros H k' m' Hne Hm'. destruct (lock_step_eqm _ _ _ _ _ _ H k' m') as (m0 & H0 & E); [congruence|exact Hm'|].
  exists m0. split; auto.
  unfold get_or_new_mgr in H0. destruct (aget (mgrs s) (c_key c)); auto.
  change (mgrs (bump (fun n => n <| n_key := (n_key n + 1)%Z |>) (setm s (c_key c) new_mgr))) with (aset (mgrs s) (c_key c) new_mgr) in H0.
  rewrite aget_aset_other in H0; auto.
Qed.

(* ------------------------------------------------------------------ (iv) the request's LockId holds nothing *)
(* Lock, no SHOW flag, the lookup finds nothing: apart from the new record nothing changes depth, nothing appears *)
Theorem lock_unfound_frame s conn c s' ev w :
  lock_step s conn c = (s', ev, w) ->
  has (c_flag c) LOCK_FLAG_SHOW = false ->
  (forall m, aget (mgrs s) (c_key c) = Some m -> get_locked_lock s m (c_lockid c) = None) ->
  (forall r l', r <> next s -> aget (store s') r = Some l' ->
     exists l, aget (store s) r = Some l /\ l_locked l' = l_locked l /\ l_key l' = l_key l /\ l_cmd l' = l_cmd l
               /\ l_ack l' = l_ack l)
  /\ (forall k' m', k' <> c_key c -> aget (mgrs s') k' = Some m' ->
        exists m0, aget (mgrs s) k' = Some m0 /\ m_locked m' = m_locked m0).
Proof.
  intros H Hs Hn. split; [|exact (lock_other_keys _ _ _ _ _ _ H)].
  assert (D : dk (eq (next s)) s s').
  { eapply lock_step_dk; [exact H|reflexivity|].
    intros m r Hm _ Hg. unfold lock_target in Hg. rewrite Hs in Hg. rewrite (Hn m Hm) in Hg. discriminate. }
  intros r l' Hne Hg. destruct (D r l' Hg) as [E|(l & H0 & E1 & E2 & E3 & E4)]; [congruence|].
  exists l. repeat split; auto.
Qed.

(* Lock in general: the only records whose depth may change are the new one and the hold the lookup finds *)
Theorem lock_depth_frame s conn c s' ev w :
  lock_step s conn c = (s', ev, w) ->
  forall r l', aget (store s') r = Some l' ->
    r = next s
    \/ (exists m, aget (mgrs s) (c_key c) = Some m /\ 0 < m_locked m
                  /\ get_locked_lock s m (c_lockid (lock_target s c m)) = Some r)
    \/ exists l, aget (store s) r = Some l /\ l_locked l' = l_locked l /\ l_key l' = l_key l /\ l_cmd l' = l_cmd l
                 /\ l_ack l' = l_ack l.
Proof.
  intros H r l' Hg.
  assert (D : dk (fun r => r = next s \/ exists m, aget (mgrs s) (c_key c) = Some m /\ 0 < m_locked m
                  /\ get_locked_lock s m (c_lockid (lock_target s c m)) = Some r) s s').
  { eapply lock_step_dk; [exact H|left; reflexivity|]. intros m r0 Hm Hp Hg0. right. eauto. }
  destruct (D r l' Hg) as [[E|E]|(l & H0 & E1 & E2 & E3 & E4)]; auto.
  right. right. exists l. repeat split; auto.
Qed.

(* UnLock, the lookup finds nothing, no UNLOCK_FLAG_FIRST: only live waiters (cancel-wait) can be affected *)
Theorem unlock_unfound_frame s conn c s' ev w :
  unlock_step s conn c = (s', ev, w) ->
  has (c_flag c) UNLOCK_FLAG_FIRST = false ->
  (forall m, aget (mgrs s) (c_key c) = Some m -> get_locked_lock s m (c_lockid c) = None) ->
  (forall r l', aget (store s') r = Some l' ->
     exists l, aget (store s) r = Some l
               /\ ((has (c_flag c) UNLOCK_FLAG_CANCEL_WAIT = true /\ l_timeouted l = false)
                   \/ (l_locked l' = l_locked l /\ l_key l' = l_key l /\ l_cmd l' = l_cmd l /\ l_ack l' = l_ack l)))
  /\ (forall k' m', k' <> c_key c -> aget (mgrs s') k' = Some m' ->
        exists m0, aget (mgrs s) k' = Some m0 /\ m_locked m' = m_locked m0).
Proof.
  intros H Hf Hn. split; [|exact (unlock_other_keys _ _ _ _ _ _ H)].
  assert (D : dk (fun r => has (c_flag c) UNLOCK_FLAG_CANCEL_WAIT = true /\ l_timeouted (getl s r) = false) s s').
  { eapply unlock_step_dk; [exact H| | |].
    - intros m r Hm Hg. rewrite (Hn m Hm) in Hg. discriminate.
    - intros m r _ Hf'. congruence.
    - intros Hc r Ht. auto. }
  intros r l' Hg. destruct (D r l' Hg) as [[Hc Ht]|(l & H0 & E)].
  - unfold getl in Ht. destruct (aget (store s) r) as [l|] eqn:E; [|discriminate]. exists l. split; auto.
  - exists l. split; auto.
Qed.

(* UnLock with UNLOCK_FLAG_FIRST on a held key and a LockId that holds nothing: the current lock is the one released
   (documented semantics); every other record keeps its depth *)
Theorem unlock_first_frame s conn c m s' ev w :
  unlock_step s conn c = (s', ev, w) ->
  aget (mgrs s) (c_key c) = Some m -> 0 < m_locked m ->
  has (c_flag c) UNLOCK_FLAG_FIRST = true ->
  get_locked_lock s m (c_lockid c) = None ->
  (forall r l', m_cur m <> Some r -> aget (store s') r = Some l' ->
     exists l, aget (store s) r = Some l /\ l_locked l' = l_locked l /\ l_key l' = l_key l /\ l_cmd l' = l_cmd l
               /\ l_ack l' = l_ack l)
  /\ (forall k' m', k' <> c_key c -> aget (mgrs s') k' = Some m' ->
        exists m0, aget (mgrs s) k' = Some m0 /\ m_locked m' = m_locked m0).
Proof.
  intros H Hm Hp Hf Hn. split; [|exact (unlock_other_keys _ _ _ _ _ _ H)].
  assert (D : dk (fun r => m_cur m = Some r) s s').
  { rewrite unlock_step_eq in H. cbv zeta in H. rewrite Hm in H.
    destruct (negb (leader s) && negb (has (c_flag c) UNLOCK_FLAG_FROM_AOF)); [unfold ul_err in H; inv_tuple H; dks|].
    destruct (m_locked m =? 0) eqn:E0; [apply N.eqb_eq in E0; lia|].
    unfold ul_target, ul_err in H. cbv zeta in H. rewrite Hn, Hf in H.
    destruct (m_cur m) as [cr|] eqn:Ecr; [|inv_tuple H; dks].
    destruct (negb (l_ack (getl s cr) =? 255)); [inv_tuple H; dks|].
    eapply ul_body_dk; [|exact H]. reflexivity. }
  intros r l' Hne Hg. destruct (D r l' Hg) as [E|(l & H0 & E1 & E2 & E3 & E4)]; [congruence|].
  exists l. repeat split; auto.
Qed.
