(* "Every key manager has a lock record" (J2), part 5: sweeps, steps, runs, and the drained-state theorem.
   J2 s : every key manager present in s has refCount <> 0.  With the reachability invariant (mo_ref: refCount = number
   of stored records of the key) this says that some stored record belongs to the key; hence a state without stored
   records has no key manager at all and KeyCount = 0. *)
From Coq Require Import String ZifyN ZifyBool ZifyNat Permutation.
From Slock Require Import Engine.Types Engine.Queues Engine.Timers Engine.Engine Engine.Engine2 Engine.InvDef Engine.InvBase
  Engine.InvPrims Engine.InvRec Engine.InvWheel Engine.InvQueue Engine.InvQueue2 Engine.InvSteps Engine.InvLockDefs Engine.InvLock
  Engine.InvUnlock Engine.InvSweep Engine.InvMain Engine.InvNext Engine.InvProps
  Engine.LocalBase Engine.RunDrain Engine.RunDrainQ Engine.RunDrainSteps Engine.RunDrainSteps2.
Open Scope N_scope.

(* ---------------------------------------------------------------- the firing halves of the sweepers *)
Lemma fire_all_t_J2 due : forall s xe k, GInv s (gk due xe k) -> J2 s -> J2 (fst (fire_all do_timeout s due)).
Proof.
  induction due as [|r rest IH]; intros s xe k G HJ; simpl; [exact HJ|].
  destruct (do_timeout_ginv s xe k r rest G) as [k1 [G1 Hw]].
  pose proof (do_timeout_J2 s xe k r rest G HJ) as J1.
  destruct (do_timeout s r) as [[s1 e1] w] eqn:Ed. cbn [fst snd] in *.
  pose proof (finish_ginv s1 e1 w rest xe k1 G1 Hw) as G2.
  pose proof (finish_J2 s1 e1 w rest xe k1 G1 Hw J1) as J2'.
  destruct (finish (s1, e1, w)) as [s2 e2]. cbn [fst] in *.
  specialize (IH s2 xe k1 G2 J2'). destruct (fire_all do_timeout s2 rest) as [s3 e3]. exact IH.
Qed.

Lemma fire_all_e_J2 due : forall s xt k, GInv s (gk xt due k) -> J2 s -> J2 (fst (fire_all do_expried s due)).
Proof.
  induction due as [|r rest IH]; intros s xt k G HJ; simpl; [exact HJ|].
  destruct (do_expried_ginv s xt k r rest G) as [k1 [G1 Hw]].
  pose proof (do_expried_J2 s xt k r rest G HJ) as J1.
  destruct (do_expried s r) as [[s1 e1] w] eqn:Ed. cbn [fst snd] in *.
  pose proof (finish_ginv s1 e1 w xt rest k1 G1 Hw) as G2.
  pose proof (finish_J2 s1 e1 w xt rest k1 G1 Hw J1) as J2'.
  destruct (finish (s1, e1, w)) as [s2 e2]. cbn [fst] in *.
  specialize (IH s2 xt k1 G2 J2'). destruct (fire_all do_expried s2 rest) as [s3 e3]. exact IH.
Qed.

Lemma sweep_t_secs_J2 n : forall s t nowv, Inv s -> J2 s -> J2 (fst (sweep_t_secs n s t nowv)).
Proof.
  induction n as [|n IH]; intros s t nowv G HJ; simpl; [exact HJ|].
  pose proof (collect_timeouts_ginv s [] 0 t nowv (inv_gk s 0 G)) as G1.
  pose proof (J2x_collect_timeouts None s t nowv HJ) as J1.
  destruct (collect_timeouts s t nowv) as [s1 due]. cbn [fst snd] in *.
  destruct (fire_all_t_ginv due s1 [] 0 G1) as [k' G2].
  pose proof (fire_all_t_J2 due s1 [] 0 G1 J1) as J2'.
  destruct (fire_all do_timeout s1 due) as [s2 e2]. cbn [fst] in *.
  pose proof (IH s2 (t + 1)%Z nowv (gk_inv s2 k' G2) J2') as J3.
  destruct (sweep_t_secs n s2 (t + 1)%Z nowv) as [s3 e3]. exact J3.
Qed.

Lemma sweep_e_secs_J2 n : forall s t nowv, Inv s -> J2 s -> J2 (fst (sweep_e_secs n s t nowv)).
Proof.
  induction n as [|n IH]; intros s t nowv G HJ; simpl; [exact HJ|].
  pose proof (collect_expiries_ginv s [] 0 t nowv (inv_gk s 0 G)) as G1.
  pose proof (J2x_collect_expiries None s t nowv HJ) as J1.
  destruct (collect_expiries s t nowv) as [[s1 due] e1]. cbn [fst snd] in *.
  destruct (fire_all_e_ginv due s1 [] 0 G1) as [k' G2].
  pose proof (fire_all_e_J2 due s1 [] 0 G1 J1) as J2'.
  destruct (fire_all do_expried s1 due) as [s2 e2]. cbn [fst] in *.
  pose proof (IH s2 (t + 1)%Z nowv (gk_inv s2 k' G2) J2') as J3.
  destruct (sweep_e_secs n s2 (t + 1)%Z nowv) as [s3 e3]. exact J3.
Qed.

(* ---------------------------------------------------------------- one action *)
Theorem J2_step s a : Inv s -> J2 s -> core_action a = true -> next s < MAXREC -> J2 (fst (step s a)).
Proof.
  intros G HJ Ha Hb. destruct a as [conn c|k| | |r ok|b]; cbn [step core_action] in *.
  - apply cmd_core_b_iff in Ha. pose proof (inv_gk s (c_key c) G) as G1.
    assert (R : res_ok [] [] (c_key c) (if c_lock c then lock_step s conn c else unlock_step s conn c)).
    { destruct (c_lock c); [apply lock_step_ginv; auto|apply unlock_step_ginv; auto; apply Ha]. }
    assert (J1 : J2 (fst (fst (if c_lock c then lock_step s conn c else unlock_step s conn c)))).
    { destruct (c_lock c); [apply (lock_step_J2 s [] []); auto|apply (unlock_step_J2 s [] []); auto; apply Ha]. }
    destruct (if c_lock c then lock_step s conn c else unlock_step s conn c) as [[s1 ev] w]. destruct R as [R1 R2]. cbn [fst snd] in *.
    apply (finish_J2 s1 ev w [] [] (c_key c)); auto.
  - eapply J2x_mgrs_eq; [|exact HJ]. reflexivity.
  - unfold sweep_timeouts. apply sweep_t_secs_J2; [apply (inv_scalar s); auto|eapply J2x_mgrs_eq; [|exact HJ]; reflexivity].
  - unfold sweep_expiries. apply sweep_e_secs_J2; [apply (inv_scalar s); auto|eapply J2x_mgrs_eq; [|exact HJ]; reflexivity].
  - discriminate.
  - eapply J2x_mgrs_eq; [|exact HJ]. reflexivity.
Qed.

Lemma J2_init t0 a : J2 (init_db t0 a).
Proof. intros k m _ H. discriminate. Qed.

Theorem J2_run_bounded acts : forall s, Inv s -> J2 s -> Forall (fun a => core_action a = true) acts -> bounded_run s acts ->
  J2 (fst (run s acts)).
Proof.
  induction acts as [|a rest IH]; intros s G HJ Hc Hb; [exact HJ|].
  rewrite run_fst_cons. inversion Hc; subst. destruct Hb as [Hb1 Hb2].
  apply IH; auto; [apply inv_step; auto|apply J2_step; auto].
Qed.

(* EVERY KEY MANAGER HAS A LOCK RECORD, in every state reached by core actions *)
Theorem J2_core t0 a acts : core acts -> J2 (fst (run (init_db t0 a) acts)).
Proof.
  intros H. destruct (core_core_run t0 a acts H) as [H1 H2].
  apply J2_run_bounded; auto; [apply inv_init|apply J2_init].
Qed.

(* ---------------------------------------------------------------- consequences *)
Lemma asum_pos_witness {V} (f : V -> nat) (m : amap V) : asum f m <> O -> exists k v, In (k, v) m /\ f v <> O.
Proof.
  induction m as [|[k0 v0] t IH]; simpl; [congruence|]. intros H.
  destruct (f v0) eqn:E.
  - destruct IH as (k & v & Hi & Hf); [simpl in H; lia|]. exists k, v. auto.
  - exists k0, v0. split; [auto|lia].
Qed.

(* with the invariant: some stored record belongs to the key of every manager *)
Theorem mgr_has_record s : Inv s -> J2 s -> forall k m, aget (mgrs s) k = Some m ->
  m_ref m <> 0 /\ exists r l, aget (store s) r = Some l /\ l_key l = k.
Proof.
  intros G HJ k m Hm. assert (Hn : m_ref m <> 0) by (apply (HJ k m); [discriminate|exact Hm]). split; [exact Hn|].
  pose proof (mo_ref _ _ _ _ (gi_mgr _ _ G k m Hm)) as R.
  destruct (asum_pos_witness (fun l => if N.eqb (l_key l) k then 1%nat else O) (store s)) as (r & l & Hi & Hf).
  { unfold key_cnt in R. lia. }
  exists r, l. split; [apply in_aget; [apply (gi_wf_s _ _ G)|exact Hi]|].
  destruct (l_key l =? k) eqn:E; [apply N.eqb_eq; exact E|congruence].
Qed.

(* a state without lock records has no key manager, and KeyCount = 0 *)
Theorem drained_no_mgr s : Inv s -> J2 s -> store s = [] -> mgrs s = [] /\ n_key (cnt s) = 0%Z.
Proof.
  intros G HJ Hs.
  assert (Hm : mgrs s = []).
  { destruct (mgrs s) as [|[k m] t] eqn:E; [reflexivity|]. exfalso.
    assert (Hk : aget (mgrs s) k = Some m) by (rewrite E; simpl; rewrite N.eqb_refl; reflexivity).
    destruct (mgr_has_record s G HJ k m Hk) as [_ (r & l & Hr & _)]. rewrite Hs in Hr. discriminate. }
  split; [exact Hm|]. rewrite (gi_nkey _ _ G), Hm. reflexivity.
Qed.

Theorem reach_mgr_has_record t0 a acts : core acts ->
  forall k m, aget (mgrs (fst (run (init_db t0 a) acts))) k = Some m ->
    m_ref m <> 0 /\ exists r l, aget (store (fst (run (init_db t0 a) acts))) r = Some l /\ l_key l = k.
Proof. intros H. apply mgr_has_record; [apply inv_core; auto|apply J2_core; auto]. Qed.

Theorem drained_complete t0 a acts : core acts -> store (fst (run (init_db t0 a) acts)) = [] ->
  mgrs (fst (run (init_db t0 a) acts)) = [] /\ n_key (cnt (fst (run (init_db t0 a) acts))) = 0%Z.
Proof. intros H. apply drained_no_mgr; [apply inv_core; auto|apply J2_core; auto]. Qed.

(* the complete statement of C17 for drained states *)
Theorem reach_drained_complete t0 a acts : core acts -> store (fst (run (init_db t0 a) acts)) = [] ->
  mgrs (fst (run (init_db t0 a) acts)) = [] /\ n_key (cnt (fst (run (init_db t0 a) acts))) = 0%Z
  /\ n_locked (cnt (fst (run (init_db t0 a) acts))) = 0%Z /\ n_wait (cnt (fst (run (init_db t0 a) acts))) = 0%Z
  /\ wrefs (twheel (fst (run (init_db t0 a) acts))) = [] /\ wrefs (tlong (fst (run (init_db t0 a) acts))) = []
  /\ wrefs (ewheel (fst (run (init_db t0 a) acts))) = [] /\ wrefs (elong (fst (run (init_db t0 a) acts))) = [].
Proof.
  intros H Hs. destruct (drained_complete t0 a acts H Hs) as [D1 D2].
  destruct (reach_drained t0 a acts H Hs) as (R1 & R2 & R3 & R4 & R5 & R6 & _).
  repeat split; assumption.
Qed.
